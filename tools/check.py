#!/usr/bin/env python3
"""usage: tools/check.py C04 [--tier quick|thorough] [--replay FILE]
Runs the check for one property against /repo's current working tree."""
import sys, os, argparse, importlib.util
from pathlib import Path
sys.path.insert(0, str(Path(__file__).resolve().parent))
import vlib

def main():
    ap = argparse.ArgumentParser()
    ap.add_argument("pid")
    ap.add_argument("--tier", default=os.environ.get("VERIF_TIER", "quick"), choices=["quick", "thorough"])
    ap.add_argument("--replay", default=None)
    a = ap.parse_args()
    seed = int(os.environ.get("VERIF_SEED", "1") or "1")
    pid = a.pid.upper()
    path = vlib.VERIF / "checks" / f"{pid.lower()}.py"
    spec = importlib.util.spec_from_file_location(pid.lower(), path)
    mod = importlib.util.module_from_spec(spec)
    sys.path.insert(0, str(vlib.VERIF / "checks"))
    spec.loader.exec_module(mod)
    ctx = vlib.Ctx(pid, a.tier, seed, a.replay)
    try:
        mod.run(ctx)
    except vlib.BuildError as e:
        print(e.log[-3000:])
        print(f"[{pid}] /repo does not compile ({e.what}): cannot decide anything")
        sys.exit(2)
    ctx.finish()

if __name__ == "__main__":
    main()
