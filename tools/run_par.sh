#!/bin/sh
# usage: tools/run_par.sh [tier] [ids...]  — like run_all.sh but starts every listed check at once (load probe:
# the checks must stay quiet on the unchanged tree also when the machine is busy).  Logs: /var/tmp/runpar-<id>.log
cd "$(dirname "$0")/.."
TIER="${1:-quick}"; shift 2>/dev/null
IDS="$*"; [ -n "$IDS" ] || IDS="$(ls checks | sed -n 's/^c\([0-9][0-9]\)\.py$/C\1/p')"
for id in $IDS; do
  ( s=$(date +%s); python3 tools/check.py "$id" --tier "$TIER" > "/var/tmp/runpar-$id.log" 2>&1; rc=$?; e=$(date +%s)
    echo "$id rc=$rc $((e-s))s $(grep -E '^VIOLATION' /var/tmp/runpar-$id.log | cut -c1-150 | tr '\n' '|')" ) &
done
wait
