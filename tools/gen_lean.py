#!/usr/bin/env python3
"""Tie A (DESIGN.md §2.2): regenerate lean/UvModel/Generated/Kernels.lean from /repo's
current source.

For every kernel listed in KERNELS the real C (a macro expanded inside a one-line wrapper, a
whole small function, or a *slice* of a larger function: the statements that assign to a given
set of variables) is parsed with `clang-14 -Xclang -ast-dump=json`, symbolically executed over a
loop-free C subset, and emitted as a pure Lean function `UvModel.Generated.<name>` from its
inputs (every variable / field / call result read before being written) to a structure holding
the return value and the final value of every variable written.  `UvModel/GenEq.lean` proves each
generated function equal to the hand-written kernel the property theorems are stated on, so a
change to the C text changes the generated term and the proof obligation is re-checked.

C semantics implemented here (the trusted part of the translator):
  * all integers are Lean `Int`; results of + - * << on `unsigned int` are reduced mod 2^32,
    on 64-bit unsigned types mod 2^64 (`CSem.u32/u64`); signed arithmetic is assumed not to
    overflow (UB in C); casts to unsigned types reduce, casts to `int` wrap (`CSem.i32`), casts to
    `signed char`/`char` and `unsigned char` wrap to 8 bits (`CSem.i8/u8`); `short` is unsupported;
  * comparisons / && / || / ! give Bool; `(e)` used as condition means `e != 0`;
  * pointers are opaque Ints, `NULL` = 0, only compared against NULL/each other; pointer casts are
    transparent; `*p` (one level, e.g. `*size`) is a cell of its own named `p_deref`, distinct from
    `p`; `*f()` is the input `deref_call_f` (`errno` = `*__errno_location()`);
  * `x & ENUM`, `x |= ENUM`, `x &= ~ENUM`, `x ^= ENUM` where ENUM is an enum constant are
    translated bit-wise: each (variable, constant) pair is one Bool; a `_Static_assert` compile
    checks that every constant used this way is a single bit and that constants used on the same
    variable are distinct;
  * any other `a & b` is `CSem.land` = bitwise and of the 64-bit two's-complement patterns; for
    `int` operands the low 32 bits of that are read back as a signed value (`CSem.i32`), i.e. the
    and of the 32-bit patterns (the `WIFEXITED`… macros of <sys/wait.h>); `~x` on an unsigned word
    is `2^w-1 - x`;
  * `a >> n`, `a << n` with an integer literal `0 <= n < 32`: `CSem.shr` = floor division by 2^n
    (logical for non-negative values, arithmetic for negative `int`s as gcc/clang implement it),
    `CSem.shl` = multiplication by 2^n, reduced like `*` for unsigned types;
  * a call inside an expression is an uninterpreted input `call_<callee>` (`uv__queue_empty(&l->q)`
    becomes the Bool input `q_empty`); its arguments are not translated; two call sites of the same
    callee in one kernel are refused (they would share the input); calls as statements are not
    allowed in a kernel, except `abort()`/`__assert_fail` (the kernel's result is `none`) and the
    callees a kernel lists in `drop_calls` (data movement such as `memcpy` that a *decision*
    kernel leaves out) or in `mark_calls` (left out too, but reaching the call sets the Bool output
    `called_<callee>`; its initial value is the input `i_called_<callee>`, which GenEq instantiates
    with `false`: whether e.g. `uv__queue_insert_tail` is reached is then part of the tied decision); element stores `a[i] = e` are allowed only into the arrays a kernel lists
    in `drop_stores`, and are likewise left out;
  * any other `a | b`, `x |= e`, `x &= e` is `CSem.lor` / `CSem.land` on the 64-bit patterns (for
    unsigned operands, whose values are already reduced, this is the C result; on `int` the low 32
    bits are read back signed as for `&`);
  * `sizeof(T)` with a type argument is the constant `CEnum.sizeof_<T>` whose value is taken from
    the compiler in the same run as the enum constants (`sizeof expr` is unsupported);
  * `a[i]` read in an expression is the opaque input `elem_<a>` (the index is not translated): at
    most one read site per array and kernel, and never after a (dropped) store into that array;
  * `do { … } while (0)` with `break`, `if/else`, `?:`, `return`, assignment, compound
    assignment, `++/--`, local declarations;
  * `switch (e) { case C1: … case C2: … default: … }`: `e` is evaluated once; the case labels must
    be direct children of the switch body (no labels inside nested statements) and their values
    translatable constants; control enters at the first label equal to `e` (else at `default`,
    else after the switch) and runs through the *rest of the body* from there — so `break`
    (leaves the switch), `return`, adjacent empty labels and genuine fall-through all have their C
    meaning (fall-through code is duplicated in the generated term, not approximated);
    a `break` inside a `switch` inside `do{}while(0)` leaves the switch only.
    Anything else (loops, `goto`, `continue`, …) aborts the generation of that kernel with
    "unsupported construct" (reported by the checks as a broken Tie-A obligation).

Which statements form a kernel: the whole body; or `slice=[vars]`: the statements, at any depth,
that assign only to the listed variables; or `after=var`: the top-level statements following the
single top-level statement that writes `var` (the tail of a function after a library call or a
retry loop; `var` becomes an input; more than one writer is refused).

`region="before_loop"`: the top-level statements before the first top-level loop of the function;
`region="loop_iter"`: ONE iteration of the single top-level `while (c) body`: the kernel is
`if (c) body`, with the extra Bool output `loop_again` = `c` held and the body ran to its end
(`false` when `c` fails or the body leaves through `break`; `continue` is unsupported).
`keep=[locals]`: local variables reported as outputs all the same (`r` of `uv_run`).
`havoc_loops=True`: a loop nested in the kernel is abstracted: each variable it assigns gets an
unknown value (input `havoc_<var>_<n>`), calls inside it are left out.  `trace_calls=[f…]`: call
statements to these callees are left out but recorded, in program order and with their
non-pointer arguments, in the output `call_seq : List (String × List Int)` (initial value = input
`i_call_seq`, instantiated with `[]` by GenEq) — the order of the phases of `uv_run` and the
timeout handed to `uv__io_poll` are tied this way.

Kernels carry a `group` ("core" = proved in UvModel/GenEq.lean, "C20" = UvModel/GenEq/C20.lean, …);
see `main` for how a failing kernel is confined to its group.
"""
import json, os, re, subprocess, sys, tempfile, hashlib
from pathlib import Path

VERIF = Path(__file__).resolve().parent.parent
REPO = Path(os.environ.get("VERIF_REPO", "/repo"))
OUT = Path(os.environ.get("VERIF_LEAN", str(VERIF / "lean"))) / "UvModel/Generated/Kernels.lean"
CPP = ["-D_GNU_SOURCE", "-D_FILE_OFFSET_BITS=64", "-D_LARGEFILE_SOURCE",
       f"-I{REPO}/include", f"-I{REPO}/src", f"-I{REPO}/src/unix"]

WRAP = '#include "uv.h"\n#include "uv-common.h"\n'
KERNELS = [
    dict(name="handle_start", wrapper="void K(uv_handle_t* h) { uv__handle_start(h); }"),
    dict(name="handle_stop", wrapper="void K(uv_handle_t* h) { uv__handle_stop(h); }"),
    dict(name="handle_ref", wrapper="void K(uv_handle_t* h) { uv__handle_ref(h); }"),
    dict(name="handle_unref", wrapper="void K(uv_handle_t* h) { uv__handle_unref(h); }"),
    dict(name="is_active", wrapper="int K(uv_handle_t* h) { return uv__is_active(h); }"),
    dict(name="is_closing", wrapper="int K(uv_handle_t* h) { return uv__is_closing(h); }"),
    dict(name="has_ref", wrapper="int K(uv_handle_t* h) { return uv__has_ref(h); }"),
    dict(name="req_register", wrapper="void K(uv_loop_t* loop) { uv__req_register(loop); }"),
    dict(name="req_unregister", wrapper="void K(uv_loop_t* loop) { uv__req_unregister(loop); }"),
    dict(name="has_active_handles", wrapper="int K(uv_loop_t* loop) { return uv__has_active_handles(loop); }"),
    dict(name="has_active_reqs", wrapper="int K(uv_loop_t* loop) { return uv__has_active_reqs(loop); }"),
    dict(name="loop_alive", file="src/unix/core.c", func="uv__loop_alive"),
    dict(name="backend_timeout", file="src/unix/core.c", func="uv__backend_timeout"),
    dict(name="backend_timeout_api", file="src/unix/core.c", func="uv_backend_timeout"),
    dict(name="run_timeout_decision", file="src/unix/core.c", func="uv_run", slice=["can_sleep", "timeout"]),
    dict(name="translate_sys_error", file="src/unix/core.c", func="uv_translate_sys_error"),
    # uv_run: entry (alive test, initial timers pass), one loop iteration (phase order, poll timeout, leave/continue), exit
    dict(name="run_entry", group="C03", file="src/unix/core.c", func="uv_run", region="before_loop", keep=["r"],
         trace_calls=["uv__update_time", "uv__run_timers"]),
    dict(name="run_iter", group="C03", file="src/unix/core.c", func="uv_run", region="loop_iter", havoc_loops=True, keep=["r"],
         drop_calls=["uv__metrics_inc_loop_count", "uv__metrics_update_idle_time"],
         trace_calls=["uv__run_pending", "uv__run_idle", "uv__run_prepare", "uv__io_poll", "uv__run_check",
                      "uv__run_closing_handles", "uv__update_time", "uv__run_timers"]),
    dict(name="run_exit", group="C03", file="src/unix/core.c", func="uv_run", after="timeout"),
    dict(name="timer_clamp", file="src/timer.c", func="uv_timer_start", slice=["clamped_timeout"]),
    dict(name="timer_due_in", file="src/timer.c", func="uv_timer_get_due_in"),
    dict(name="next_timeout", file="src/timer.c", func="uv__next_timeout"),
    dict(name="timer_less_than", file="src/timer.c", func="timer_less_than"),
    dict(name="thread_stack_size", group="C20", file="src/unix/thread.c", func="uv_thread_create_ex",
         slice=["stack_size", "pagesize", "min_stack_size"]),
    dict(name="cond_deadline", group="C20", file="src/unix/thread.c", func="uv_cond_timedwait",
         slice=["timeout", "now", "ts_tv_sec", "ts_tv_nsec"]),
    # C20 return-code tables
    dict(name="mutex_trylock", group="C20", file="src/unix/thread.c", func="uv_mutex_trylock"),
    dict(name="rwlock_tryrdlock", group="C20", file="src/unix/thread.c", func="uv_rwlock_tryrdlock"),
    dict(name="rwlock_trywrlock", group="C20", file="src/unix/thread.c", func="uv_rwlock_trywrlock"),
    dict(name="sem_trywait_final", group="C20", file="src/unix/thread.c", func="uv__sem_trywait", after="r"),
    dict(name="cond_timedwait_result", group="C20", file="src/unix/thread.c", func="uv_cond_timedwait", after="r"),
    dict(name="barrier_wait", group="C20", file="src/thread-common.c", func="uv_barrier_wait"),
    dict(name="mutex_lock", group="C20", file="src/unix/thread.c", func="uv_mutex_lock"),
    dict(name="mutex_unlock", group="C20", file="src/unix/thread.c", func="uv_mutex_unlock"),
    dict(name="cond_wait", group="C20", file="src/unix/thread.c", func="uv_cond_wait"),
    # C12 wait-status decode
    dict(name="wait_decode", group="C12", file="src/unix/process.c", func="uv__wait_children",
         slice=["exit_status", "term_signal"]),
    # C19 size/decision part of the string getters (the copies themselves are dropped)
    dict(name="os_getenv", group="C19", file="src/unix/core.c", func="uv_os_getenv", drop_calls=["memcpy"]),
    dict(name="os_gethostname", group="C19", file="src/unix/core.c", func="uv_os_gethostname",
         drop_calls=["memcpy"], drop_stores=["buf"]),
    dict(name="fs_event_getpath", group="C19", file="src/uv-common.c", func="uv_fs_event_getpath",
         drop_calls=["memcpy"], drop_stores=["buffer"]),
    dict(name="fs_poll_getpath", group="C19", file="src/fs-poll.c", func="uv_fs_poll_getpath",
         drop_calls=["memcpy"], drop_stores=["buffer"]),
    dict(name="if_indextoname", group="C19", file="src/unix/getaddrinfo.c", func="uv_if_indextoname",
         drop_calls=["memcpy"], drop_stores=["buffer"]),
    dict(name="get_process_title", group="C19", file="src/unix/proctitle.c", func="uv_get_process_title",
         drop_calls=["memcpy", "uv_once", "uv_mutex_lock", "uv_mutex_unlock"], drop_stores=["buffer"]),
    dict(name="pipe_getname_size", group="C19", file="src/unix/pipe.c", func="uv__pipe_getsockpeername",
         slice=["size_deref"]),
    # C07 entry check of uv_write2 / uv_try_write2
    dict(name="check_before_write", group="C07", file="src/unix/stream.c", func="uv__check_before_write"),
    # C10 address-family switch of the send path and the entry checks of the try_send family
    dict(name="udp_prep_pkt", group="C10", file="src/unix/udp.c", func="uv__udp_prep_pkt", drop_calls=["memset"]),
    dict(name="udp_check_before_send", group="C10", file="src/uv-common.c", func="uv__udp_check_before_send"),
    dict(name="udp_try_send_api", group="C10", file="src/uv-common.c", func="uv_udp_try_send"),
    dict(name="udp_try_send", group="C10", file="src/unix/udp.c", func="uv__udp_try_send"),
    dict(name="udp_try_send2_api", group="C10", file="src/uv-common.c", func="uv_udp_try_send2"),
    dict(name="udp_try_send2", group="C10", file="src/unix/udp.c", func="uv__udp_try_send2"),
    # C14 watcher-table sizing and the mask arithmetic / early returns of uv__io_start/stop/active
    dict(name="next_power_of_two", group="C14", file="src/unix/core.c", func="next_power_of_two"),
    dict(name="maybe_resize_size", group="C14", file="src/unix/core.c", func="maybe_resize", slice=["nwatchers"]),
    dict(name="io_start", group="C14", file="src/unix/core.c", func="uv__io_start",
         drop_calls=["maybe_resize"], mark_calls=["uv__queue_insert_tail"], drop_stores=["loop_watchers"]),
    dict(name="io_stop", group="C14", file="src/unix/core.c", func="uv__io_stop",
         drop_calls=["uv__queue_init"], mark_calls=["uv__queue_remove", "uv__queue_insert_tail"],
         drop_stores=["loop_watchers"]),
    dict(name="io_active", group="C14", file="src/unix/core.c", func="uv__io_active"),
    dict(name="io_close", group="C14", file="src/unix/core.c", func="uv__io_close",
         trace_calls=["uv__io_stop", "uv__queue_remove", "uv__platform_invalidate_fd"]),
    # C17 fs-poll: the change test, the re-arm delay, timer_cb
    dict(name="statbuf_eq", group="C17", file="src/fs-poll.c", func="statbuf_eq"),
    dict(name="fs_poll_rearm", group="C17", file="src/fs-poll.c", func="poll_cb", slice=["interval"]),
    dict(name="fs_poll_timer_cb", group="C17", file="src/fs-poll.c", func="timer_cb"),
    # C17 inotify: event classification of one record, the mask uv_fs_event_start registers (use `|` on literals)
    dict(name="inotify_events", group="C17", file="src/unix/linux.c", func="uv__inotify_read", slice=["events"]),
    dict(name="fs_event_start_mask", group="C17", file="src/unix/linux.c", func="uv_fs_event_start", slice=["events"]),
    dict(name="compare_watchers", group="C17", file="src/unix/linux.c", func="compare_watchers"),
    # C13 tree order and the decisions of uv__signal_start (lock/tree calls dropped)
    dict(name="signal_compare", group="C13", file="src/unix/signal.c", func="uv__signal_compare"),
    dict(name="signal_start", group="C13", file="src/unix/signal.c", func="uv__signal_start",
         drop_calls=["uv__signal_stop", "uv__signal_block_and_lock", "uv__signal_unlock_and_unblock",
                     "uv__signal_tree_s_RB_INSERT"]),
    # C05 uv_try_write2 return-value decision, uv__try_write iov clamp and errno mapping
    dict(name="try_write2", group="C05", file="src/unix/stream.c", func="uv_try_write2"),
    dict(name="try_write_iovcnt", group="C05", file="src/unix/stream.c", func="uv__try_write", slice=["iovcnt", "iovmax"]),
    dict(name="try_write_result", group="C05", file="src/unix/stream.c", func="uv__try_write", after="n"),
    # C06 uv_read_start checks, uv__read_start / uv_read_stop flag updates (watcher calls dropped)
    dict(name="read_start_api", group="C06", file="src/uv-common.c", func="uv_read_start"),
    dict(name="read_start_body", group="C06", file="src/unix/stream.c", func="uv__read_start",
         drop_calls=["uv__io_start", "uv__stream_osx_interrupt_select"]),
    dict(name="read_stop", group="C06", file="src/unix/stream.c", func="uv_read_stop",
         drop_calls=["uv__io_stop", "uv__stream_osx_interrupt_select"]),
    # C11 system-call route of uv__fs_write / uv__fs_read, result normalisation of uv__fs_work
    dict(name="fs_write_route", group="C11", file="src/unix/fs.c", func="uv__fs_write"),
    dict(name="fs_read_route", group="C11", file="src/unix/fs.c", func="uv__fs_read", drop_calls=["uv__free"]),
    dict(name="fs_work_result", group="C11", file="src/unix/fs.c", func="uv__fs_work", slice=["req_result"]),
]

U32 = {"unsigned int", "unsigned", "uint32_t"}
U64 = {"unsigned long", "uint64_t", "size_t", "unsigned long long", "uintptr_t"}
I32 = {"int", "int32_t"}
I64 = {"long", "ssize_t", "int64_t", "long long", "time_t", "__syscall_slong_t", "__time_t"}


class Unsupported(Exception):
    pass


SIZEOFS = {}    # lean constant name -> C expression, for `sizeof(T)` (valued together with the enums)


def loc(n):
    r = n.get("range", {}).get("begin", {})
    l = r.get("expansionLoc", r)
    return f"{l.get('file', '?')}:{l.get('line', '?')}"


def ast_of(src, func):
    r = subprocess.run(["clang-14", "-fsyntax-only", "-w", "-DNDEBUG"] + CPP +
                       ["-Xclang", "-ast-dump=json", "-Xclang", f"-ast-dump-filter={func}", src],
                       stdout=subprocess.PIPE, stderr=subprocess.PIPE, text=True)
    if r.returncode != 0:
        raise Unsupported(f"clang failed on {src}: {r.stderr[-500:]}")
    dec, i, txt = json.JSONDecoder(), 0, r.stdout
    best = None
    while i < len(txt):
        while i < len(txt) and txt[i].isspace():
            i += 1
        if i >= len(txt):
            break
        d, i = dec.raw_decode(txt, i)
        if d.get("kind") == "FunctionDecl" and d.get("name") == func and \
                any(c.get("kind") == "CompoundStmt" for c in d.get("inner", [])):
            best = d
    if best is None:
        raise Unsupported(f"function {func} not found in {src}")
    return best


def ctype(n):
    t = n.get("type", {})
    q = t.get("desugaredQualType", t.get("qualType", ""))
    q = q.replace("const ", "").replace("volatile ", "").strip()
    return q


def kind_of(q):
    if q.endswith("*"):
        return "ptr"
    if q in U32:
        return "u32"
    if q in U64:
        return "u64"
    if q in I32 or q.startswith("enum ") or q == "uv_run_mode" or q == "_Bool":
        return "i32"
    if q in I64:
        return "i64"
    if q in ("unsigned char", "unsigned short", "char", "short", "signed char"):
        return "i32"
    return "i32" if q == "" else "other:" + q


def strip(n):
    while n.get("kind") in ("ParenExpr", "ImplicitCastExpr", "ConstantExpr") or \
            (n.get("kind") == "CStyleCastExpr" and n.get("castKind") in ("NoOp", "LValueToRValue", "BitCast")):
        n = n["inner"][0]
    return n


class Tr:
    def __init__(self, name, drop_calls=(), drop_stores=(), mark_calls=(), trace_calls=(), havoc_loops=False):
        self.name = name
        self.trace_calls = set(trace_calls)   # dropped calls appended, with their integer arguments, to `call_seq`
        self.havoc_loops = havoc_loops        # an inner loop = fresh opaque values for the variables it writes
        self.havoc_ids = {}
        self.mark_calls = set(mark_calls)     # dropped calls reported as Bool outputs `called_<fn>`
        self.drop_calls = set(drop_calls)     # data-movement calls left out of a decision kernel
        self.drop_stores = set(drop_stores)   # arrays whose element stores are left out
        self.inputs = {}       # lean name -> "Int" | "Bool"
        self.counter = {}
        self.enum_uses = {}    # var -> set(enum names)
        self.enum_vals = set() # enum constants used as plain values
        self.locals = set()
        self.written = []      # ordered list of variables ever written
        self.wtypes = {}
        self.call_sites = {}   # callee -> ids of the call expressions read as `call_<callee>`
        self.elem_sites = {}   # array -> ids of the `a[i]` expressions read as `elem_<a>`

    # ------------------------------------------------------------ names
    def lv_name(self, n):
        n = strip(n)
        k = n.get("kind")
        if k == "DeclRefExpr":
            return n["referencedDecl"]["name"]
        if k == "MemberExpr":
            base = self.lv_name(n["inner"][0])
            return f"{base}_{n['name']}"
        if k == "UnaryOperator" and n.get("opcode") == "&":
            return self.lv_name(n["inner"][0])
        if k == "UnaryOperator" and n.get("opcode") == "*":
            inner = strip(n["inner"][0])
            if inner.get("kind") == "CallExpr":      # errno = *__errno_location()
                fn = strip(inner["inner"][0]).get("referencedDecl", {}).get("name", "?")
                return "deref_call_" + fn
            return self.lv_name(inner) + "_deref"
        raise Unsupported(f"lvalue {k} at {loc(n)}")

    def read(self, env, name, ty="Int"):
        if name not in env:
            ln = "i_" + name
            self.inputs.setdefault(ln, ty)
            env[name] = ln
        return env[name]

    def fresh(self, name):
        c = self.counter.get(name, 0) + 1
        self.counter[name] = c
        return f"v_{name}_{c}"

    # ------------------------------------------------------------ flag abstraction
    def enum_set(self, n):
        """n denotes ENUM, (A | B), returns list of names or None"""
        n = strip(n)
        if n.get("kind") == "DeclRefExpr" and n["referencedDecl"]["kind"] == "EnumConstantDecl":
            return [n["referencedDecl"]["name"]]
        if n.get("kind") == "BinaryOperator" and n.get("opcode") == "|":
            a, b = self.enum_set(n["inner"][0]), self.enum_set(n["inner"][1])
            if a and b:
                return a + b
        return None

    def flag_test(self, n, env):
        """(x & ENUMS) -> Bool lean expr 'any of the bits set', or None"""
        n = strip(n)
        if n.get("kind") == "BinaryOperator" and n.get("opcode") == "&":
            for a, b in ((0, 1), (1, 0)):
                es = self.enum_set(n["inner"][b])
                if es:
                    try:
                        var = self.lv_name(n["inner"][a])
                    except Unsupported:
                        return None
                    bits = []
                    for e in es:
                        self.enum_uses.setdefault(var, set()).add(e)
                        bits.append(self.read(env, f"{var}__{e}", "Bool"))
                    return "(" + " || ".join(bits) + ")"
        return None

    # ------------------------------------------------------------ expressions
    def as_bool(self, n, env):
        e, t = self.expr(n, env)
        return e if t == "bool" else f"({e} != 0)"

    def as_int(self, n, env):
        e, t = self.expr(n, env)
        return f"(CSem.b2i {e})" if t == "bool" else e

    def wrap(self, e, k):
        return {"u32": f"(CSem.u32 {e})", "u64": f"(CSem.u64 {e})"}.get(k, e)

    def expr(self, n, env):
        """returns (lean expr, 'bool'|'int')"""
        k = n.get("kind")
        if k in ("ParenExpr", "ConstantExpr"):
            return self.expr(n["inner"][0], env)
        if k == "ImplicitCastExpr" or k == "CStyleCastExpr":
            ck = n.get("castKind")
            inner = n["inner"][0]
            if ck in ("LValueToRValue", "NoOp", "BitCast", "ArrayToPointerDecay", "FunctionToPointerDecay"):
                return self.expr(inner, env)
            if ck == "NullToPointer":
                return "0", "int"
            if ck in ("IntegralCast", "IntegralToBoolean", "PointerToIntegral", "IntegralToPointer"):
                e = self.as_int(inner, env)
                q = ctype(n)
                if q in ("signed char", "char"):
                    return f"(CSem.i8 {e})", "int"
                if q == "unsigned char":
                    return f"(CSem.u8 {e})", "int"
                if q in ("short", "unsigned short"):
                    raise Unsupported(f"cast to {q} at {loc(n)}")
                tk = kind_of(q)
                if tk == "u32":
                    return f"(CSem.u32 {e})", "int"
                if tk == "u64":
                    return f"(CSem.u64 {e})", "int"
                if tk == "i32" and kind_of(ctype(inner)) in ("u64", "i64", "u32"):
                    return f"(CSem.i32 {e})", "int"
                return e, "int"
            if ck == "FloatingToIntegral" and strip(inner).get("kind") == "FloatingLiteral":
                v = float(strip(inner)["value"])
                if v != int(v):
                    raise Unsupported(f"non-integral float constant at {loc(n)}")
                return f"({int(v)} : Int)", "int"
            if ck == "ToVoid":
                return self.expr(inner, env)
            raise Unsupported(f"cast {ck} at {loc(n)}")
        if k == "IntegerLiteral":
            return f"({int(n['value'])} : Int)", "int"
        if k == "CharacterLiteral":
            return f"({int(n['value'])} : Int)", "int"
        if k == "DeclRefExpr":
            rd = n["referencedDecl"]
            if rd["kind"] == "EnumConstantDecl":
                self.enum_vals.add(rd["name"])
                return f"(CEnum.{rd['name']} : Int)", "int"
            return self.read(env, rd["name"]), "int"
        if k == "MemberExpr":
            return self.read(env, self.lv_name(n)), "int"
        if k == "UnaryOperator":
            op = n["opcode"]
            if op == "!":
                return f"(!{self.as_bool(n['inner'][0], env)})", "bool"
            if op == "-":
                e = self.as_int(n["inner"][0], env)
                return self.wrap(f"(-{e})", kind_of(ctype(n))), "int"
            if op == "+":
                return self.as_int(n["inner"][0], env), "int"
            if op == "~":
                e = self.as_int(n["inner"][0], env)
                tk = kind_of(ctype(n))
                if tk == "u64":
                    return f"(18446744073709551615 - {e})", "int"
                if tk == "u32":
                    return f"(4294967295 - {e})", "int"
                return f"(-{e} - 1)", "int"
            if op == "&":   # address-of: opaque identity of the object
                return self.read(env, "addr_" + self.lv_name(n["inner"][0])), "int"
            if op == "*":   # one-level dereference: the pointee is a cell of its own (`*size`, errno)
                return self.read(env, self.lv_name(n)), "int"
            raise Unsupported(f"unary {op} at {loc(n)}")
        if k == "BinaryOperator":
            op = n["opcode"]
            a, b = n["inner"]
            if op in ("&&", "||"):
                return f"({self.as_bool(a, env)} {op} {self.as_bool(b, env)})", "bool"
            if op in ("==", "!=", "<", "<=", ">", ">="):
                ft = self.flag_test(a, env) if op in ("==", "!=") else None
                if ft is not None and strip(b).get("kind") == "IntegerLiteral" and int(strip(b)["value"]) == 0:
                    return (ft if op == "!=" else f"(!{ft})"), "bool"
                lop = {"==": "==", "!=": "!=", "<": "<", "<=": "≤", ">": ">", ">=": "≥"}[op]
                return f"(decide ({self.as_int(a, env)} {lop} {self.as_int(b, env)}))", "bool"
            if op in ("+", "-", "*"):
                e = f"({self.as_int(a, env)} {op} {self.as_int(b, env)})"
                return self.wrap(e, kind_of(ctype(n))), "int"
            if op in ("/", "%"):
                tk = kind_of(ctype(n))
                if tk not in ("u32", "u64"):
                    raise Unsupported(f"signed {op} at {loc(n)}")
                return f"({self.as_int(a, env)} {op} {self.as_int(b, env)})", "int"
            if op == "&":
                ft = self.flag_test(n, env)
                if ft is not None:
                    return ft, "bool"   # only its truth value is meaningful; users go through as_bool/as_int
                # x & mask arithmetic: bitwise and of the 64-bit two's-complement patterns; for `int`
                # operands the low 32 bits are read back as a signed value
                tk = kind_of(ctype(n))
                e = f"(CSem.land {self.as_int(a, env)} {self.as_int(b, env)})"
                if tk in ("u32", "u64"):
                    return e, "int"
                if tk == "i32":
                    return f"(CSem.i32 {e})", "int"
                raise Unsupported(f"& on {ctype(n)} at {loc(n)}")
            if op == "|":
                tk = kind_of(ctype(n))
                e = f"(CSem.lor {self.as_int(a, env)} {self.as_int(b, env)})"
                if tk in ("u32", "u64"):
                    return e, "int"
                if tk == "i32":
                    return f"(CSem.i32 {e})", "int"
                raise Unsupported(f"| on {ctype(n)} at {loc(n)}")
            if op in (">>", "<<"):
                sb = strip(b)
                if sb.get("kind") != "IntegerLiteral" or not (0 <= int(sb["value"]) < 32):
                    raise Unsupported(f"{op} by a non-literal amount at {loc(n)}")
                tk = kind_of(ctype(n))
                if tk not in ("u32", "u64", "i32", "i64"):
                    raise Unsupported(f"{op} on {ctype(n)} at {loc(n)}")
                sh = int(sb["value"])
                if op == ">>":   # arithmetic shift for signed operands (gcc/clang), logical for unsigned
                    return f"(CSem.shr {self.as_int(a, env)} {sh})", "int"
                return self.wrap(f"(CSem.shl {self.as_int(a, env)} {sh})", tk), "int"
            if op == ",":
                raise Unsupported(f"comma at {loc(n)}")
            raise Unsupported(f"binary {op} at {loc(n)}")
        if k == "UnaryExprOrTypeTraitExpr":
            at = n.get("argType", {}).get("qualType")
            if n.get("name") != "sizeof" or not at or not re.fullmatch(r"[A-Za-z_][A-Za-z0-9_ ]*", at):
                raise Unsupported(f"sizeof of an expression at {loc(n)}")
            ln = "sizeof_" + at.replace(" ", "_")
            SIZEOFS[ln] = f"sizeof({at})"
            return f"(CEnum.{ln} : Int)", "int"
        if k == "ArraySubscriptExpr":
            arr = self.lv_name(n["inner"][0])
            if "#stored:" + arr in env:
                raise Unsupported(f"read of {arr}[] after a store into it at {loc(n)}")
            self.elem_sites.setdefault(arr, set()).add(n.get("id"))
            if len(self.elem_sites[arr]) > 1:
                raise Unsupported(f"two read sites of {arr}[] in one kernel at {loc(n)}")
            return self.read(env, "elem_" + arr), "int"
        if k == "ConditionalOperator":
            c, a, b = n["inner"]
            ea, ta = self.expr(a, env)
            eb, tb = self.expr(b, env)
            if ta != tb:
                ea = f"(CSem.b2i {ea})" if ta == "bool" else ea
                eb = f"(CSem.b2i {eb})" if tb == "bool" else eb
                ta = "int"
            return f"(if {self.as_bool(c, env)} then {ea} else {eb})", ta
        if k == "CallExpr":
            callee = strip(n["inner"][0])
            fn = callee.get("referencedDecl", {}).get("name", "?")
            args = n["inner"][1:]
            if fn == "uv__queue_empty" and len(args) == 1:
                a = strip(args[0])
                if a.get("kind") == "UnaryOperator" and a.get("opcode") == "&":
                    return self.read(env, self.lv_name(a["inner"][0]) + "_empty", "Bool"), "bool"
            if fn == "__builtin_expect":
                return self.expr(args[0], env)
            self.call_sites.setdefault(fn, set()).add(n.get("id"))
            if len(self.call_sites[fn]) > 1:
                raise Unsupported(f"two call sites of {fn} in one kernel at {loc(n)}")
            return self.read(env, "call_" + fn), "int"
        if k == "UnaryOperator" and n.get("opcode") == "~":
            pass
        raise Unsupported(f"expression {k} at {loc(n)}")

    # ------------------------------------------------------------ statements (CPS, symbolic)
    def assign(self, env, name, e, k, ty="Int"):
        v = self.fresh(name)
        env = dict(env)
        env[name] = v
        if name not in self.written:
            self.written.append(name)
            self.wtypes[name] = ty
        return f"let {v} : {ty} := {e}\n" + k(env)

    def seq(self, stmts, env, k, kb, kr):
        if not stmts:
            return k(env)
        return self.stmt(stmts[0], env, lambda e: self.seq(stmts[1:], e, k, kb, kr), kb, kr)

    def stmt(self, s, env, k, kb, kr):
        kd = s.get("kind")
        if kd == "CompoundStmt":
            return self.seq(s.get("inner", []), env, k, kb, kr)
        if kd == "NullStmt":
            return k(env)
        if kd == "IfStmt":
            inner = s["inner"]
            c = self.as_bool(inner[0], env)
            th = self.stmt(inner[1], dict(env), k, kb, kr)
            el = self.stmt(inner[2], dict(env), k, kb, kr) if len(inner) > 2 else k(dict(env))
            return f"if {c} then\n{indent(th)}\nelse\n{indent(el)}"
        if kd == "DoStmt":
            body, cond = s["inner"]
            cs = strip(cond)
            if not (cs.get("kind") == "IntegerLiteral" and int(cs["value"]) == 0):
                if not self.havoc_loops:
                    raise Unsupported(f"loop at {loc(s)}")
            else:
                return self.stmt(body, env, k, k, kr)
        if kd == "BreakStmt":
            if kb is None:
                raise Unsupported(f"break outside do-while(0) at {loc(s)}")
            return kb(env)
        if kd == "ReturnStmt":
            if s.get("inner"):
                return kr(env, self.as_int(s["inner"][0], env))
            return kr(env, None)
        if kd == "DeclStmt":
            decls = [d for d in s.get("inner", []) if d.get("kind") == "VarDecl"]
            def go(i, env):
                if i == len(decls):
                    return k(env)
                d = decls[i]
                if d.get("inner"):
                    e = self.as_int(d["inner"][0], env)
                    return self.assign(env, d["name"], e, lambda e2: go(i + 1, e2))
                return go(i + 1, env)
            return go(0, env)
        if kd == "SwitchStmt":
            return self.switch(s, env, k, kr)
        if kd in ("WhileStmt", "ForStmt", "DoStmt") and self.havoc_loops:
            # abstraction of an inner loop: every variable it writes gets a fresh unknown value (input
            # `havoc_<var>_<n>`); the calls inside it are left out (they are not recorded in call_seq)
            ws = sorted(x for x in self.writes(s, set()) if not x.startswith("call:"))
            if "?" in ws:
                raise Unsupported(f"loop writing through an untranslatable lvalue at {loc(s)}")
            tag = self.havoc_ids.setdefault(s.get("id"), len(self.havoc_ids) + 1)
            def go(i, env):
                if i == len(ws):
                    return k(env)
                hv = self.read({}, f"havoc_{ws[i]}_{tag}")
                return self.assign(env, ws[i], hv, lambda e2: go(i + 1, e2))
            return go(0, env)
        if kd in ("WhileStmt", "ForStmt", "GotoStmt", "LabelStmt", "CaseStmt", "DefaultStmt", "ContinueStmt"):
            raise Unsupported(f"{kd} at {loc(s)}")
        # expression statement
        return self.expr_stmt(s, env, k)

    def switch(self, s, env, k, kr):
        """`switch (e) body`: flatten the labels that are direct children of the body; entering at label
        i runs every statement after it (fall-through), `break` continues after the switch."""
        inner = [c for c in s["inner"] if isinstance(c, dict)]
        if len(inner) != 2 or inner[1].get("kind") != "CompoundStmt":
            raise Unsupported(f"switch shape at {loc(s)}")
        cond, body = inner
        items = []      # ("case", lean const) | ("default",) | ("stmt", node)
        for c in body.get("inner", []):
            while c.get("kind") in ("CaseStmt", "DefaultStmt"):
                if c["kind"] == "CaseStmt":
                    if len(c["inner"]) != 2:
                        raise Unsupported(f"case range at {loc(c)}")
                    before = set(self.inputs)
                    ce, ct = self.expr(c["inner"][0], {})
                    if ct != "int" or set(self.inputs) != before:
                        raise Unsupported(f"non-constant case label at {loc(c)}")
                    items.append(("case", ce))
                    c = c["inner"][1]
                else:
                    items.append(("default",))
                    c = c["inner"][0]
            items.append(("stmt", c))
        if not items or items[0][0] == "stmt":
            raise Unsupported(f"statement before the first case label at {loc(s)}")
        if sum(1 for it in items if it[0] == "default") > 1:
            raise Unsupported(f"two default labels at {loc(s)}")
        sw = self.fresh("switch")
        def tail(i, env):   # the rest of the body from item i on
            return self.seq([it[1] for it in items[i:] if it[0] == "stmt"], dict(env), k, k, kr)
        def chain(i, env):
            while i < len(items) and items[i][0] != "case":
                i += 1
            if i == len(items):
                d = [j for j, it in enumerate(items) if it[0] == "default"]
                return tail(d[0], env) if d else k(dict(env))
            return (f"if decide ({sw} = {items[i][1]}) then\n{indent(tail(i, env))}\nelse\n"
                    f"{indent(chain(i + 1, env))}")
        ce = self.as_int(cond, env)
        return f"let {sw} : Int := {ce}\n" + chain(0, env)

    def expr_stmt(self, s, env, k):
        n = strip(s)
        kd = n.get("kind")
        if kd == "CStyleCastExpr" and n.get("castKind") == "ToVoid":
            return k(env)
        if kd == "BinaryOperator" and n.get("opcode") == "=":
            lhs, rhs = n["inner"]
            sl = strip(lhs)
            if sl.get("kind") == "ArraySubscriptExpr":
                try:
                    arr = self.lv_name(sl["inner"][0])
                except Unsupported:
                    arr = None
                if arr in self.drop_stores:
                    env = dict(env)
                    env["#stored:" + arr] = "1"     # path-sensitive: later reads of arr[] on this path are refused
                    return k(env)
                raise Unsupported(f"array store at {loc(n)}")
            name = self.lv_name(lhs)
            es = self.enum_set(rhs)
            if es is not None:
                raise Unsupported(f"whole-flag-word assignment at {loc(n)}")
            if kind_of(ctype(lhs)) == "ptr":
                # pointer values are opaque: only NULL-ness / identity matter (container_of etc.)
                try:
                    e, t = self.expr(rhs, env)
                except Unsupported:
                    e, t = self.read(env, "opq_" + name), "int"
            else:
                e, t = self.expr(rhs, env)
            if t == "bool":
                e = f"(CSem.b2i {e})"
            return self.assign(env, name, e, k)
        if kd == "CompoundAssignOperator":
            op = n["opcode"]
            lhs, rhs = n["inner"]
            name = self.lv_name(lhs)
            if op in ("|=", "&=", "^="):
                r = strip(rhs)
                neg = False
                if r.get("kind") == "UnaryOperator" and r.get("opcode") == "~":
                    neg, r = True, r["inner"][0]
                es = self.enum_set(r)
                if es is None and op in ("|=", "&="):
                    # general word arithmetic: x |= e, x &= e
                    tk = kind_of(ctype(n))
                    if tk not in ("u32", "u64", "i32"):
                        raise Unsupported(f"{op} on {ctype(n)} at {loc(n)}")
                    cur = self.read(env, name)
                    e = f"(CSem.{'lor' if op == '|=' else 'land'} {cur} {self.as_int(rhs, env)})"
                    if tk == "i32":
                        e = f"(CSem.i32 {e})"
                    return self.assign(env, name, e, k)
                if es is None:
                    raise Unsupported(f"{op} with non-constant mask at {loc(n)}")
                if (op == "|=" and neg) or (op == "&=" and not neg) or (op == "^=" and neg):
                    raise Unsupported(f"{op} mask shape at {loc(n)}")
                def go(i, env):
                    if i == len(es):
                        return k(env)
                    bit = f"{name}__{es[i]}"
                    self.enum_uses.setdefault(name, set()).add(es[i])
                    if op == "|=":
                        val = "true"
                    elif op == "&=":
                        val = "false"
                    else:
                        val = f"(!{self.read(env, bit, 'Bool')})"
                    return self.assign(env, bit, val, lambda e2: go(i + 1, e2), "Bool")
                return go(0, env)
            if op in ("+=", "-=", "*="):
                cur = self.read(env, name)
                e = f"({cur} {op[0]} {self.as_int(rhs, env)})"
                return self.assign(env, name, self.wrap(e, kind_of(ctype(n))), k)
            raise Unsupported(f"compound {op} at {loc(n)}")
        if kd == "UnaryOperator" and n.get("opcode") in ("++", "--"):
            name = self.lv_name(n["inner"][0])
            cur = self.read(env, name)
            e = f"({cur} {'+' if n['opcode'] == '++' else '-'} 1)"
            return self.assign(env, name, self.wrap(e, kind_of(ctype(n))), k)
        if kd == "CallExpr":
            fn = strip(n["inner"][0]).get("referencedDecl", {}).get("name", "?")
            if fn in ("__assert_fail", "abort"):
                # reaching it is outside the kernel's domain: result is the distinguished `none`
                return "none"
            if fn in self.trace_calls:
                # a dropped call recorded in program order, with its non-pointer arguments, in `call_seq`
                args = [self.as_int(a, env) for a in n["inner"][1:] if kind_of(ctype(a)) != "ptr"]
                cur = self.read(env, "call_seq", "List (String × List Int)")
                return self.assign(env, "call_seq", f'({cur} ++ [("{fn}", [{", ".join(args)}])])', k,
                                   "List (String × List Int)")
            if fn in self.mark_calls:
                # a dropped call whose *being reached* is a decision of the kernel: Bool output `called_<fn>`
                return self.assign(env, "called_" + fn, "true", k, "Bool")
            if fn in self.drop_calls:
                return k(env)
            raise Unsupported(f"call statement {fn} at {loc(n)}")
        if kd == "ConditionalOperator":
            # assert(): (cond) ? (void)0 : __assert_fail(...)
            return k(env)
        raise Unsupported(f"statement {kd} at {loc(n)}")

    # ------------------------------------------------------------ slicing
    def writes(self, s, acc):
        kd = s.get("kind")
        n = s
        if kd in ("BinaryOperator",) and s.get("opcode") == "=" or kd == "CompoundAssignOperator":
            try:
                acc.add(self.lv_name(s["inner"][0]))
            except Unsupported:
                acc.add("?")
        if kd == "UnaryOperator" and s.get("opcode") in ("++", "--"):
            try:
                acc.add(self.lv_name(s["inner"][0]))
            except Unsupported:
                acc.add("?")
        if kd == "VarDecl" and s.get("inner"):
            acc.add(s["name"])
        if kd == "CallExpr":
            fn = strip(s["inner"][0]).get("referencedDecl", {}).get("name", "?")
            acc.add("call:" + fn)
        for c in s.get("inner", []):
            if isinstance(c, dict):
                self.writes(c, acc)
        return acc

    def slice(self, body, names):
        out = []
        names = set(names)
        def calls_ok(w):
            return True
        def visit(s):
            kd = s.get("kind")
            if kd in ("CompoundStmt",):
                for c in s.get("inner", []):
                    visit(c)
                return
            w = self.writes(s, set())
            vars_w = {x for x in w if not x.startswith("call:")}
            if vars_w and vars_w <= names:
                out.append(s)
                return
            if kd in ("WhileStmt", "ForStmt", "DoStmt", "IfStmt"):
                for c in s.get("inner", []):
                    if isinstance(c, dict) and c.get("kind") in ("CompoundStmt", "IfStmt", "WhileStmt", "ForStmt", "DoStmt"):
                        visit(c)
        visit(body)
        if not out:
            raise Unsupported(f"slice {sorted(names)} of {self.name}: no statement found")
        return out


def indent(s):
    return "\n".join("  " + l for l in s.splitlines())


def gen_kernel(k, tmpdir):
    tr = Tr(k["name"], k.get("drop_calls", ()), k.get("drop_stores", ()), k.get("mark_calls", ()),
            k.get("trace_calls", ()), k.get("havoc_loops", False))
    if "wrapper" in k:
        src = Path(tmpdir) / f"w_{k['name']}.c"
        src.write_text(WRAP + k["wrapper"] + "\n")
        fd = ast_of(str(src), "K")
        origin = k["wrapper"]
    else:
        fd = ast_of(str(REPO / k["file"]), k["func"])
        origin = f"{k['file']}:{k['func']}" + (f" slice {k['slice']}" if "slice" in k else "") + \
                 (f" after the write of {k['after']}" if "after" in k else "")
    body = next(c for c in fd["inner"] if c.get("kind") == "CompoundStmt")
    stmts = tr.slice(body, k["slice"]) if "slice" in k else body.get("inner", [])
    LOOPS = ("WhileStmt", "ForStmt", "DoStmt")
    loop_iter = None
    if k.get("region") == "before_loop":
        li = [i for i, st in enumerate(stmts) if st.get("kind") in LOOPS]
        if not li:
            raise Unsupported(f"region before_loop of {k['name']}: no top-level loop")
        stmts = stmts[:li[0]]
    elif k.get("region") == "loop_iter":
        ws = [st for st in stmts if st.get("kind") in LOOPS]
        if len(ws) != 1 or ws[0]["kind"] != "WhileStmt" or len(ws[0]["inner"]) != 2:
            raise Unsupported(f"region loop_iter of {k['name']}: expected exactly one top-level while loop")
        loop_iter = ws[0]["inner"]
    elif "region" in k:
        raise Unsupported(f"unknown region {k['region']}")
    if "after" in k:
        # tail of the function: the top-level statements following the one top-level statement that
        # writes the named variable (which thereby becomes an input of the kernel)
        idx = [i for i, st in enumerate(stmts) if k["after"] in tr.writes(st, set())]
        if len(idx) != 1 or idx[0] + 1 >= len(stmts):
            raise Unsupported(f"after={k['after']} of {k['name']}: expected exactly one top-level "
                              f"statement writing it, followed by a tail; found {len(idx)}")
        stmts = stmts[idx[0] + 1:]
    has_ret = [False]
    # placeholder continuation results: filled after we know the written set -> two passes
    def run(outs):
        tr.counter = {}
        def fin(env, rv):
            fields = []
            if rv is not None:
                has_ret[0] = True
            fields.append(f"ret := {rv if rv is not None else '0'}")
            for w in outs:
                ty = tr.wtypes.get(w, "Int")
                fields.append(f"{w} := {tr.read(env, w, ty)}")
            return "some { " + ", ".join(fields) + " }"
        if loop_iter is not None:
            # one iteration of `while (c) body`: loop_again = c on entry && the body ended without `break`
            def again(env, val):
                return tr.assign(env, "loop_again", val, lambda e: fin(e, None), "Bool")
            env0 = {}
            c = tr.as_bool(loop_iter[0], env0)
            th = tr.stmt(loop_iter[1], dict(env0), lambda e: again(e, "true"), lambda e: again(e, "false"), fin)
            return f"if {c} then\n{indent(th)}\nelse\n{indent(again(dict(env0), 'false'))}"
        return tr.seq(stmts, {}, lambda env: fin(env, None), None, fin)
    run([])                       # pass 1: discover written variables and inputs
    outs = list(tr.written)
    def collect_locals(n):
        if n.get("kind") == "VarDecl":
            tr.locals.add(n["name"])
        for c in n.get("inner", []):
            if isinstance(c, dict):
                collect_locals(c)
    collect_locals(body)
    if "slice" in k:
        outs = [w for w in outs if w in k["slice"] or "__" in w]
    else:
        outs = [w for w in outs if w not in tr.locals or w in k.get("keep", ())]   # keep=[locals reported as outputs]
    tr.inputs = {}
    term = run(outs)              # pass 2
    ins = sorted(tr.inputs.items())
    sname = f"Out_{k['name']}"
    fields = ["  ret : Int"] + [f"  {w} : {tr.wtypes.get(w, 'Int')}" for w in outs]
    params = " ".join(f"({n} : {t})" for n, t in ins)
    txt = f"/-- generated from {origin} -/\nstructure {sname} where\n" + "\n".join(fields) + \
          "\nderiving DecidableEq, Repr\n\n"
    txt += f"def {k['name']} {params} : Option {sname} :=\n{indent(term)}\n"
    return txt, tr.enum_uses, tr.enum_vals


def enum_check(enum_uses, tmpdir, extra=()):
    """every enum constant used as a flag bit is a single bit; constants used on one variable differ"""
    names = sorted({e for s in enum_uses.values() for e in s})
    src = Path(tmpdir) / "enums.c"
    lines = ['#include <stdio.h>', '#include <sys/un.h>', '#include "uv.h"', '#include "uv-common.h"', '#include "internal.h"']
    for e in names:
        lines.append(f'_Static_assert(({e}) != 0 && ((({e}) & (({e}) - 1)) == 0), "{e} is not a single bit");')
    for var, es in enum_uses.items():
        es = sorted(es)
        for i in range(len(es)):
            for j in range(i + 1, len(es)):
                lines.append(f'_Static_assert(({es[i]}) != ({es[j]}), "{es[i]} == {es[j]}");')
    lines.append("int main(void) {")
    for e in sorted(set(names) | set(extra)):
        lines.append(f'  printf("{e} %lld\\n", (long long) ({e}));')
    for ln, ce in sorted(SIZEOFS.items()):
        lines.append(f'  printf("{ln} %lld\\n", (long long) ({ce}));')
    lines.append("  return 0; }")
    src.write_text("\n".join(lines) + "\n")
    exe = Path(tmpdir) / "enums"
    r = subprocess.run(["clang-14", "-w"] + CPP + [str(src), "-o", str(exe)], stdout=subprocess.PIPE,
                       stderr=subprocess.STDOUT, text=True)
    if r.returncode != 0:
        raise Unsupported("flag constants are not distinct single bits: " + r.stdout[-600:])
    out = subprocess.run([str(exe)], stdout=subprocess.PIPE, text=True).stdout
    return {l.split()[0]: int(l.split()[1]) for l in out.splitlines()}


def main():
    """`gen_lean.py [--need g1,g2,…]`: a kernel whose C can no longer be translated aborts with
    "unsupported construct" (exit 1).  With --need, only the kernels of the named groups (`group=`
    in KERNELS, default "core" = the kernels UvModel/GenEq.lean is about; "C20" etc. = those of
    UvModel/GenEq/C20.lean) are fatal: the others are replaced by a comment in the generated file,
    so that just their own GenEq module stops building and one property's untranslatable kernel
    does not take the other properties' ties down with it."""
    need = None
    if "--need" in sys.argv:
        need = set(sys.argv[sys.argv.index("--need") + 1].split(","))
        unknown = need - {k.get("group", "core") for k in KERNELS}
        if unknown:
            print(f"gen_lean: unknown kernel groups {sorted(unknown)}")
            return 1
    parts, all_enums, all_vals = [], {}, set()
    rc = 0
    with tempfile.TemporaryDirectory(prefix="uvgen-", dir="/var/tmp") as td:
        for k in KERNELS:
            try:
                txt, eu, ev = gen_kernel(k, td)
                all_vals |= ev
            except Unsupported as e:
                print(f"gen_lean: kernel {k['name']}: unsupported construct: {e}")
                if need is None or k.get("group", "core") in need:
                    rc = 1
                parts.append(f"/- kernel {k['name']}: NOT GENERATED, unsupported construct: "
                             f"{str(e).replace('-/', '- /')} -/\n")
                continue
            parts.append(txt)
            for v, s in eu.items():
                all_enums.setdefault(k["name"] + ":" + v, set()).update(s)
        try:
            vals = enum_check(all_enums, td, all_vals)
        except Unsupported as e:
            print(f"gen_lean: {e}")
            return 1
    enum_defs = "\n".join(f"def {n} : Int := {v}" for n, v in sorted(vals.items()))
    body = ("import UvModel.CSem\n/-! GENERATED by tools/gen_lean.py from /repo — do not edit.  See UvModel/GenEq.lean. -/\n"
            "\nset_option linter.unusedVariables false\nnamespace UvModel.Generated\nopen UvModel\n\n"
            "namespace CEnum\n" + enum_defs + "\nend CEnum\n\n" + "\n".join(parts) +
            "\nend UvModel.Generated\n")
    OUT.parent.mkdir(parents=True, exist_ok=True)
    if not OUT.exists() or OUT.read_text() != body:
        OUT.write_text(body)
        print("gen_lean: wrote", OUT)
    else:
        print("gen_lean: unchanged")
    return rc


if __name__ == "__main__":
    sys.exit(main())
