#!/bin/sh
# Builds /repo/_build (guard UV_VERIF is OFF: the normal cmake build never defines it) and runs
# the repository's own test suite the way BASELINE.json does (as user pbtest when started as root,
# because libuv's runner refuses root).
set -e
cmake --build /repo/_build >/dev/null
mkdir -p /home/pbtest /tmp/pbtest 2>/dev/null || true
if [ "$(id -u)" = 0 ] && id -u pbtest >/dev/null 2>&1; then
  chown -R pbtest /repo/_build /home/pbtest /tmp/pbtest 2>/dev/null || true
  chown pbtest /repo /repo/test 2>/dev/null || true
  exec flock -o /var/tmp/uv-suite.lock setpriv --reuid=pbtest --regid=pbtest --init-groups env HOME=/home/pbtest TMPDIR=/tmp/pbtest \
    ctest --test-dir /repo/_build -j1 --timeout 900 --output-on-failure "$@"
else
  exec flock -o /var/tmp/uv-suite.lock ctest --test-dir /repo/_build -j1 --timeout 900 --output-on-failure "$@"
fi
