#!/bin/sh
# usage: tools/run_all.sh [tier] [ids...]   — runs the listed (default: all claimed) checks one after the other
cd "$(dirname "$0")/.."
TIER="${1:-quick}"; shift 2>/dev/null
IDS="$*"; [ -n "$IDS" ] || IDS="$(ls checks | sed -n 's/^c\([0-9][0-9]\)\.py$/C\1/p')"
for id in $IDS; do
  s=$(date +%s)
  python3 tools/check.py "$id" --tier "$TIER" > "/var/tmp/runall-$id.log" 2>&1; rc=$?
  e=$(date +%s)
  echo "$id rc=$rc $((e-s))s $(grep -E '^VIOLATION|^KNOWN-FINDING' /var/tmp/runall-$id.log | cut -c1-110 | tr '\n' '|')"
done
