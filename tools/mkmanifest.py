#!/usr/bin/env python3
"""Writes /verif/MANIFEST.json from the table below (one entry per claimed property)."""
import json
from pathlib import Path
V = Path(__file__).resolve().parent.parent

import ast, re

def load_checks():
    """each checks/cNN.py carries a literal `MANIFEST = dict(text=..., note=..., design=..., [technique=...])`"""
    out = {}
    for p in sorted((V / "checks").glob("c[0-9][0-9].py")):
        tree = ast.parse(p.read_text())
        for node in tree.body:
            if isinstance(node, ast.Assign) and getattr(node.targets[0], "id", None) == "MANIFEST":
                d = ast.literal_eval(node.value)
                out[p.stem.upper()] = d
    return out

CHECKS = load_checks()

def main():
    checks = []
    for pid, c in sorted(CHECKS.items()):
        checks.append({
            "property_id": pid,
            "quick_cmd": f"python3 /verif/tools/check.py {pid} --tier quick",
            "thorough_cmd": f"python3 /verif/tools/check.py {pid} --tier thorough",
            "evidence_file": f"/verif/evidence/{pid}.json",
            "replay_cmd_template": f"python3 /verif/tools/check.py {pid} --replay {{path}}",
            "engine": "lean4+correspondence",
            "level_claimed": {"category": "proof", "text": c["text"], "design_ref": c["design"]},
            "level_note": c["note"],
            "technique": c.get("technique", "Lean 4 machine-checked proof over an executable model + model/implementation correspondence check"),
        })
    claimed = set(CHECKS)
    na = [{"property_id": f"C{i:02d}", "reason": "not yet claimed: model/proofs for this property are still being built (see DESIGN.md §6 build order)"}
          for i in range(1, 21) if f"C{i:02d}" not in claimed]
    m = {
        "version": 1,
        "setup_cmd": "cd /verif/lean && (lake build UvModel uvdriver || lake build uvdriver || true)",
        "hooks": {"guard": "UV_VERIF", "enable": "checks compile /repo/src with -DUV_VERIF (tools/vlib.py build_libuv); no hook is currently needed",
                  "baseline_off_cmd": "/verif/tools/run_baseline.sh",
                  "source_commits": [], "add_only": True},
        "engines": [{"name": "lean4+correspondence", "path": "/verif/tools/check.py",
                     "serves_properties": sorted(claimed),
                     "kind_free_text": "Lean 4 proofs over executable models (lean/UvModel), tied to /repo by a translator (tools/gen_lean.py, Tie A) and by differential correspondence harnesses (harness/*.c, Tie B)"}],
        "checks": checks,
        "not_applicable": na,
        "notes": "See DESIGN.md. Evidence files are rewritten on every run by tools/vlib.py.",
    }
    (V / "MANIFEST.json").write_text(json.dumps(m, indent=1) + "\n")
    try:
        import jsonschema
        jsonschema.validate(m, json.load(open("/root/.vp/MANIFEST.schema.json")))
    except ImportError:
        import subprocess
        subprocess.run(["python3-vt", "-c", "import json,jsonschema;jsonschema.validate(json.load(open('%s')),json.load(open('/root/.vp/MANIFEST.schema.json')))" % (V / "MANIFEST.json")], check=True)
    print("MANIFEST.json written:", len(checks), "checks")

if __name__ == "__main__":
    main()
