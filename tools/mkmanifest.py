#!/usr/bin/env python3
"""Writes /verif/MANIFEST.json from the table below (one entry per claimed property)."""
import json
from pathlib import Path
V = Path(__file__).resolve().parent.parent

CHECKS = {
 "C04": dict(
   text="Lean 4 theorems over the model of heap-inl.h (BFS-array heap: insert/remove keep heap order and the multiset, "
        "root is minimal, for every shape/index) and of timer.c (saturating clamp, due_in, pass semantics); the model is tied "
        "to the working tree by running model and implementation on the same op sequences (heap unit harness with BFS dump "
        "after every op; real library on a virtual clock) and diffing every line, plus monitors that evaluate the property "
        "text directly on the implementation.",
   note="Trusted: Lean kernel (axioms propext, Classical.choice, Quot.sound), pointer-tree = BFS-array abstraction "
        "(validated by dump equality), virtual clock interposition, clang/ASan. CLOCK_MONOTONIC monotonicity is assumed. "
        "timer_counter wrap after 2^64 starts not modelled.",
   design="DESIGN.md §3 C04"),
}

def main():
    checks = []
    for pid, c in sorted(CHECKS.items()):
        checks.append({
            "property_id": pid,
            "quick_cmd": f"python3 tools/check.py {pid} --tier quick",
            "thorough_cmd": f"python3 tools/check.py {pid} --tier thorough",
            "evidence_file": f"/verif/evidence/{pid}.json",
            "replay_cmd_template": f"python3 tools/check.py {pid} --replay {{path}}",
            "engine": "lean4+correspondence",
            "level_claimed": {"category": "proof", "text": c["text"], "design_ref": c["design"]},
            "level_note": c["note"],
            "technique": c.get("technique", "Lean 4 machine-checked proof over an executable model + model/implementation correspondence check"),
        })
    claimed = set(CHECKS)
    na = [{"property_id": f"C{i:02d}", "reason": "not yet claimed: model/proofs for this property are still being built (see DESIGN.md §6 build order)"}
          for i in range(1, 21) if f"C{i:02d}" not in claimed]
    m = {
        "version": 1,
        "setup_cmd": "cd /verif/lean && lake build UvModel uvdriver",
        "hooks": {"guard": "UV_VERIF", "enable": "checks compile /repo/src with -DUV_VERIF (tools/vlib.py build_libuv); no hook is currently needed",
                  "baseline_off_cmd": "cmake --build /repo/_build && ctest --test-dir /repo/_build -j8 --timeout 900",
                  "source_commits": [], "add_only": True},
        "engines": [{"name": "lean4+correspondence", "path": "/verif/tools/check.py",
                     "serves_properties": sorted(claimed),
                     "kind_free_text": "Lean 4 proofs over executable models (lean/UvModel), tied to /repo by a translator (tools/gen_lean.py, Tie A) and by differential correspondence harnesses (harness/*.c, Tie B)"}],
        "checks": checks,
        "not_applicable": na,
        "notes": "See DESIGN.md. Evidence files are rewritten on every run by tools/vlib.py.",
    }
    (V / "MANIFEST.json").write_text(json.dumps(m, indent=1) + "\n")
    import jsonschema
    jsonschema.validate(m, json.load(open("/root/.vp/MANIFEST.schema.json")))
    print("MANIFEST.json written:", len(checks), "checks")

if __name__ == "__main__":
    main()
