#!/bin/sh
# usage: seedtest_par.sh [K]   — runs tools/seedtest.py over every entry of /verif/seeded in K parallel lanes.
# Each lane works in its own copy of /verif (/var/tmp/vcopy-<k>, with its own VERIF_CACHE so the mutant lock
# and the regenerated Lean files of one lane cannot disturb another or the real /verif), then the lane
# results are merged into /verif/seeded/RESULTS.json.  Copies and caches are removed afterwards.
K=${1:-6}; shift 2>/dev/null
V=$(cd "$(dirname "$0")/.." && pwd)
cd "$V" || exit 2
names="$*"; [ -n "$names" ] || names=$(ls -d seeded/*/ | xargs -n1 basename)   # names or staging dirs (/tmp/seed5-C01-out/1)
i=0
for k in $(seq 1 $K); do : > /var/tmp/seedlane-$k.txt; done
for n in $names; do k=$(( i % K + 1 )); echo "$n" >> /var/tmp/seedlane-$k.txt; i=$((i+1)); done
for k in $(seq 1 $K); do
  (
    C=/var/tmp/vcopy-$k
    rm -rf "$C"; mkdir -p "$C"
    rsync -a --exclude .git --exclude replays "$V"/ "$C"/
    cd "$C" && VERIF_CACHE=/var/tmp/uvverif-lane$k python3 tools/seedtest.py $(cat /var/tmp/seedlane-$k.txt) > /var/tmp/seedlane-$k.log 2>&1
  ) &
done
wait
python3 - "$K" "$V" <<'E'
import json, sys, re
K, V = int(sys.argv[1]), sys.argv[2]
res = json.load(open(f"{V}/seeded/RESULTS.json"))
base = dict(res)
for k in range(1, K + 1):
    lane = json.load(open(f"/var/tmp/vcopy-{k}/seeded/RESULTS.json"))
    for n in open(f"/var/tmp/seedlane-{k}.txt").read().split():
        m = re.search(r"seed(\d?)-(C\d+)-out/(\d+)", n)      # staging dir -> stored name, as in seedtest.py
        if m: n = f"{m.group(2)}-{int(m.group(3)) + 2 * (int(m.group(1) or 1) - 1)}"
        if n in lane: res[n] = lane[n]
json.dump(res, open(f"{V}/seeded/RESULTS.json", "w"), indent=1, sort_keys=True)
import collections
print(collections.Counter(v["result"] for v in res.values()))
for n, v in sorted(res.items()):
    if v["result"] != "caught:monitor": print(n, v["result"])
print("changed:", sorted(n for n in res if base.get(n) != res[n]))
E
for k in $(seq 1 $K); do rm -rf /var/tmp/vcopy-$k /var/tmp/uvverif-lane$k /var/tmp/seedlane-$k.txt; done
git -C /repo worktree prune
