#!/usr/bin/env python3
"""usage: seedtest.py [names...]   (default: every dir in /verif/seeded)
Applies each seeded change in a scratch worktree of /repo (never in /repo itself), runs the check of the
property it breaks with VERIF_REPO pointing there, and records whether / how it was detected in
/verif/seeded/RESULTS.json (+ prints a table).  A change is `caught` if the check exits 1 with a VIOLATION line."""
import sys, os, json, subprocess, shutil, re, time
from pathlib import Path
V = Path(__file__).resolve().parent.parent
def sh(cmd, **kw):
    return subprocess.run(cmd, stdout=subprocess.PIPE, stderr=subprocess.STDOUT, text=True, **kw)
def main():
    names = sys.argv[1:] or sorted(p.name for p in (V / "seeded").iterdir() if p.is_dir())
    resf = V / "seeded" / "RESULTS.json"
    res = json.loads(resf.read_text()) if resf.exists() else {}
    for name in names:
        if "/" in name:                       # a staging directory like /tmp/seed-C06-out/1
            d = Path(name)
            m = re.search(r"seed(\d?)-(C\d+)-out/(\d+)", name)
            rnd = int(m.group(1) or 1)            # /tmp/seed-, /tmp/seed2-, /tmp/seed3-: rounds 1, 2, 3
            name = f"{m.group(2)}-{int(m.group(3)) + 2 * (rnd - 1)}"
        else:
            d = V / "seeded" / name
        try:
            meta = json.loads((d / "meta.json").read_text())
        except Exception:
            meta = {}
        pid = meta.get("property") or name.split("-")[0]
        if not re.fullmatch(r"C\d\d", str(pid)):
            pid = name.split("-")[0]
        wt = Path(f"/var/tmp/wt-seedtest-{name}")
        sh(["git", "-C", "/repo", "worktree", "remove", "--force", str(wt)])
        sh(["git", "-C", "/repo", "worktree", "add", "-q", "--detach", str(wt), "HEAD"])
        try:
            r = sh(["git", "-C", str(wt), "apply", str(d / "patch.diff")])
            if r.returncode != 0:
                r = sh(["git", "-C", str(wt), "apply", "-3", str(d / "patch.diff")])
            if r.returncode != 0:
                res[name] = {"property": pid, "result": "patch-does-not-apply", "detail": r.stdout[-300:]}
                print(f"{name:55s} {pid} DOES-NOT-APPLY"); continue
            t0 = time.time()
            env = dict(os.environ, VERIF_REPO=str(wt))
            r = sh([sys.executable, str(V / "tools/check.py"), pid], env=env, cwd=str(V), timeout=3600)
            viol = [l for l in r.stdout.splitlines() if l.startswith("VIOLATION")]
            detail = [l.strip() for l in r.stdout.splitlines() if l.startswith("  ")][:3]
            nf = any("no-failing-input-found" in l for l in viol)
            sigs = [re.sub(r".*replays/[A-Z0-9]+-(.*)\.json.*", r"\1", l) for l in viol]
            result = "MISSED" if r.returncode == 0 else ("caught:proof/correspondence-only" if nf and len(viol) == 1 else "caught:monitor")
            if r.returncode not in (0, 1) or (not viol and r.returncode != 0) or "Traceback (most recent call last)" in r.stdout:
                result = f"check-error rc={r.returncode}"        # a crash of the check is not a detection
                Path(f"/var/tmp/seedtest-error-{name}.log").write_text(r.stdout)
            res[name] = {"property": pid, "result": result, "signatures": sigs, "detail": detail,
                         "wall_s": round(time.time() - t0), "repo_head": sh(["git", "-C", "/repo", "rev-parse", "--short", "HEAD"]).stdout.strip()}
            print(f"{name:55s} {pid} {result:36s} {','.join(sigs)[:70]}", flush=True)
        finally:
            sh(["git", "-C", "/repo", "worktree", "remove", "--force", str(wt)])
            shutil.rmtree(wt, ignore_errors=True)
            resf.write_text(json.dumps(res, indent=1, sort_keys=True))
    # mutant runs build in a private copy of the Lean project and write their evidence elsewhere
    # (vlib._lean_dir, Ctx.finish): /verif/lean and /verif/evidence are untouched by this tool
if __name__ == "__main__":
    main()
