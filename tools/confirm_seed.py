#!/usr/bin/env python3
"""usage: confirm_seed.py C04 1 [--no-suite]
Independently confirms a seeded change produced by a fresh sub-agent in /tmp/seed-<id>-out/<n>/:
clean tree: demo passes; patched tree: compiles, demo fails, libuv's own suite shows no new failure.
On success copies it to /verif/seeded/<id>-<n>/ (patch.diff, demo files, meta.json with a `confirmed` block)."""
import sys, os, json, subprocess, shutil, re
from pathlib import Path
KNOWN_FLAKY = {"fs_copyfile", "tcp_connect_timeout", "tcp_close_while_connecting", "getnameinfo_basic_ip6",
               "tcp6_ping_pong", "pipe_ping_pong_vec"}
def sh(cmd, **kw):
    return subprocess.run(cmd, stdout=subprocess.PIPE, stderr=subprocess.STDOUT, text=True, errors="replace", **kw)
def main():
    pid, n = sys.argv[1], sys.argv[2]
    suite = "--no-suite" not in sys.argv
    src = Path(f"/tmp/seed-{pid}-out/{n}")
    if int(n) > 2:                       # round r: /tmp/seed<r>-Cxx-out/{1,2} are stored as Cxx-(2r-1), Cxx-2r
        rnd = (int(n) + 1) // 2
        src = Path(f"/tmp/seed{rnd}-{pid}-out/{int(n) - 2 * (rnd - 1)}")
    wt = Path(f"/tmp/confirm-{pid}-{n}")
    res = {}
    sh(["git", "-C", "/repo", "worktree", "remove", "--force", str(wt)])
    r = sh(["git", "-C", "/repo", "worktree", "add", "-q", "--detach", str(wt), "HEAD"])
    try:
        demo = src / "demo.sh"
        r = sh(["sh", str(demo), str(wt)], cwd=str(src), timeout=300)
        res["clean_demo_rc"] = r.returncode
        res["clean_demo_out"] = r.stdout[-300:]
        r = sh(["git", "-C", str(wt), "apply", str(src / "patch.diff")])
        res["apply_rc"] = r.returncode
        if r.returncode != 0:
            res["apply_out"] = r.stdout[-500:]
            print(json.dumps(res, indent=1)); return 1
        rcs = []
        for _ in range(2):
            r = sh(["sh", str(demo), str(wt)], cwd=str(src), timeout=300)
            rcs.append(r.returncode)
        res["patched_demo_rcs"] = rcs
        res["patched_demo_out"] = r.stdout[-300:]
        if suite:
            r = sh([str(Path(__file__).resolve().parent / "uv-suite"), str(wt)], timeout=3600)
            res["suite"] = r.stdout[-600:]
            failing = set(re.findall(r"not ok \d+ - (\S+)", r.stdout))
            res["suite_new_failures"] = sorted(failing - KNOWN_FLAKY)
            m = re.search(r"ok: (\d+)", r.stdout)
            res["suite_ok"] = int(m.group(1)) if m else -1
        ok = (res["clean_demo_rc"] == 0 and all(c != 0 for c in rcs) and
              (not suite or (not res["suite_new_failures"] and res["suite_ok"] > 800)))
        res["confirmed"] = ok
        if ok:
            dst = Path(f"/verif/seeded/{pid}-{n}")
            shutil.rmtree(dst, ignore_errors=True)
            dst.mkdir(parents=True)
            for f in src.iterdir():
                if f.is_file() and f.stat().st_size < 200000 and f.suffix in (".diff", ".c", ".sh", ".json", ".h", ".py", ".txt"):
                    shutil.copy2(f, dst / f.name)
            try:
                meta = json.loads((dst / "meta.json").read_text())
            except Exception:
                meta = {}
            meta["confirmed_by_builder"] = {k: res[k] for k in res if k not in ("suite",)}
            meta["base_commit"] = sh(["git", "-C", "/repo", "rev-parse", "HEAD"]).stdout.strip()
            (dst / "meta.json").write_text(json.dumps(meta, indent=1))
        print(json.dumps(res, indent=1))
        return 0 if ok else 1
    finally:
        sh(["git", "-C", "/repo", "worktree", "remove", "--force", str(wt)])
        shutil.rmtree(wt, ignore_errors=True)
if __name__ == "__main__":
    sys.exit(main())
