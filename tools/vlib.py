#!/usr/bin/env python3
"""Common machinery for the per-property checks (see DESIGN.md §2.5).

Every check script in /verif/checks/cNN.py defines `run(ctx)`; `tools/check.py`
creates the Ctx, calls it, and `ctx.finish()` prints the verdict lines, writes
/verif/evidence/<id>.json and exits.

Verdict rules implemented here (DESIGN.md §2.5):
  * monitor failure (property evaluated on the implementation) -> VIOLATION with
    the concrete input as replay, unless its signature is a `finding:` entry of
    known_findings.txt (then `KNOWN-FINDING:` line, exit 0);
  * proof / Tie-A obligation that no longer checks, or model-vs-implementation
    diff -> the check script is expected to search for a failing input; if it
    registers none, `finish()` reports
    `VIOLATION property=.. replay=.. no-failing-input-found`.
"""
import os, sys, json, time, re, hashlib, subprocess, shutil, tempfile, atexit, fcntl
from pathlib import Path
from concurrent.futures import ThreadPoolExecutor

VERIF = Path(__file__).resolve().parent.parent
REPO = Path(os.environ.get("VERIF_REPO", "/repo"))
CACHE = Path(os.environ.get("VERIF_CACHE", "/var/tmp/uvverif"))


def _lean_dir():
    """The Lean project the run works in.  A run against a mutated tree (VERIF_REPO != /repo) regenerates
    UvModel/Generated from that tree and rebuilds: it does so in a private copy of /verif/lean (sources and
    build products, ≈ 1 s to copy), so it can neither disturb nor be disturbed by runs against the real tree."""
    if os.environ.get("VERIF_LEAN"):
        return Path(os.environ["VERIF_LEAN"])
    if str(REPO) == "/repo":
        return VERIF / "lean"
    CACHE.mkdir(parents=True, exist_ok=True)
    for old in CACHE.glob("lean-mutant-*"):
        try:
            if time.time() - old.stat().st_mtime > 3 * 3600:
                shutil.rmtree(old, ignore_errors=True)
        except OSError:
            pass
    d = Path(tempfile.mkdtemp(prefix="lean-mutant-", dir=str(CACHE)))
    src = VERIF / "lean"
    subprocess.run(["flock", str(src / ".lakelock"), "rsync", "-a", "--omit-dir-times", "--exclude", ".lakelock",
                    str(src) + "/", str(d) + "/"], check=False)
    os.utime(d)      # the copy must look young: the cleanup loop above (run by other processes) goes by mtime
    os.environ["VERIF_LEAN"] = str(d)           # tools/lk and tools/gen_lean.py follow it
    pid = os.getpid()
    atexit.register(lambda: os.getpid() == pid and shutil.rmtree(d, ignore_errors=True))
    return d


LEAN = _lean_dir()
NCPU = os.cpu_count() or 4

ALLOWED_AXIOMS = {"propext", "Classical.choice", "Quot.sound"}
FORBIDDEN = ["sorry", "admit", "native_decide", "bv_decide", "implemented_by",
             "unsafe ", "maxHeartbeats 0", "ofReduceBool"]

# Linux source list (CMakeLists.txt: uv_sources + unix + linux); files that do not
# exist any more are skipped, so a removed file shows up as a link error.
SRC_COMMON = ["fs-poll.c", "idna.c", "inet.c", "random.c", "strscpy.c", "strtok.c",
              "thread-common.c", "threadpool.c", "timer.c", "uv-common.c",
              "uv-data-getter-setters.c", "version.c"]
SRC_UNIX = ["async.c", "core.c", "dl.c", "fs.c", "getaddrinfo.c", "getnameinfo.c",
            "loop-watcher.c", "loop.c", "pipe.c", "poll.c", "process.c",
            "random-devurandom.c", "signal.c", "stream.c", "tcp.c", "thread.c",
            "tty.c", "udp.c", "proctitle.c", "linux.c", "procfs-exepath.c",
            "random-getrandom.c", "random-sysctl-linux.c"]
CPPFLAGS = ["-D_GNU_SOURCE", "-D_FILE_OFFSET_BITS=64", "-D_LARGEFILE_SOURCE",
            f"-I{REPO}/include", f"-I{REPO}/src", f"-I{REPO}/src/unix"]
VARIANTS = {
    "plain": ["-O1", "-g", "-fno-omit-frame-pointer"],
    "ndebug": ["-O2", "-g", "-DNDEBUG"],
    "asan": ["-O1", "-g", "-fno-omit-frame-pointer", "-fsanitize=address,undefined",
             "-fno-sanitize-recover=all"],
    "asan-ndebug": ["-O1", "-g", "-DNDEBUG", "-fno-omit-frame-pointer",
                    "-fsanitize=address,undefined", "-fno-sanitize-recover=all"],
    "tsan": ["-O1", "-g", "-fno-omit-frame-pointer", "-fsanitize=thread"],
}
LIBS = ["-lpthread", "-ldl", "-lrt"]


class SplitMix:
    """all random choices of a check derive from one state seeded by VERIF_SEED"""
    def __init__(self, seed):
        self.s = seed & 0xFFFFFFFFFFFFFFFF
    def next(self):
        self.s = (self.s + 0x9E3779B97F4A7C15) & 0xFFFFFFFFFFFFFFFF
        z = self.s
        z = ((z ^ (z >> 30)) * 0xBF58476D1CE4E5B9) & 0xFFFFFFFFFFFFFFFF
        z = ((z ^ (z >> 27)) * 0x94D049BB133111EB) & 0xFFFFFFFFFFFFFFFF
        return z ^ (z >> 31)
    def below(self, n):
        return self.next() % n if n > 0 else 0
    def range(self, lo, hi):  # inclusive
        return lo + self.below(hi - lo + 1)
    def choice(self, xs):
        return xs[self.below(len(xs))]
    def chance(self, num, den):
        return self.below(den) < num
    def fork(self):
        return SplitMix(self.next())


def sh(cmd, **kw):
    return subprocess.run(cmd, stdout=subprocess.PIPE, stderr=subprocess.STDOUT, text=True, **kw)


def tree_hash():
    h = hashlib.sha256()
    for base in ("src", "include"):
        for p in sorted((REPO / base).rglob("*")):
            if p.is_file() and p.suffix in (".c", ".h"):
                h.update(str(p.relative_to(REPO)).encode())
                h.update(p.read_bytes())
    return h.hexdigest()[:16]


class Locked:
    def __init__(self, path):
        self.path = path
    def __enter__(self):
        self.path.parent.mkdir(parents=True, exist_ok=True)
        self.f = open(self.path, "w")
        fcntl.flock(self.f, fcntl.LOCK_EX)
    def __exit__(self, *a):
        fcntl.flock(self.f, fcntl.LOCK_UN)
        self.f.close()


class BuildError(Exception):
    def __init__(self, what, log):
        super().__init__(what)
        self.what, self.log = what, log


def build_libuv(variant="asan"):
    """Compile /repo's *current working tree* into a static library (cached by
    content hash of src/ and include/; older caches are evicted)."""
    th = tree_hash()
    d = CACHE / f"lib-{th}-{variant}"
    lib = d / "libuv.a"
    with Locked(CACHE / f"lock-{variant}"):
        if lib.exists():
            os.utime(d)
            return lib
        # evict builds of other trees only when they have not been used for a while (checks of
        # other working trees may be running concurrently)
        for old in CACHE.glob(f"lib-*-{variant}"):
            try:
                if old != d and time.time() - old.stat().st_mtime > 1800:
                    shutil.rmtree(old, ignore_errors=True)
            except OSError:
                pass
        shutil.rmtree(d, ignore_errors=True)
        d.mkdir(parents=True)
        flags = VARIANTS[variant] + CPPFLAGS + ["-std=gnu11", "-fPIC", "-w"]
        if os.environ.get("VERIF_HOOKS", "1") == "1":
            flags.append("-DUV_VERIF")
        jobs = []
        for f in SRC_COMMON:
            if (REPO / "src" / f).exists():
                jobs.append((REPO / "src" / f, d / (f[:-2] + ".o")))
        for f in SRC_UNIX:
            if (REPO / "src/unix" / f).exists():
                jobs.append((REPO / "src/unix" / f, d / ("unix_" + f[:-2] + ".o")))
        def cc(job):
            return job, sh(["clang"] + flags + ["-c", str(job[0]), "-o", str(job[1])])
        with ThreadPoolExecutor(NCPU) as ex:
            res = list(ex.map(cc, jobs))
        bad = [(j, r) for j, r in res if r.returncode != 0]
        if bad:
            log = "\n".join(r.stdout for _, r in bad)
            shutil.rmtree(d, ignore_errors=True)
            raise BuildError("libuv does not compile", log)
        r = sh(["ar", "rcs", str(lib)] + [str(o) for _, o in jobs])
        if r.returncode != 0:
            raise BuildError("ar failed", r.stdout)
        return lib


class Ctx:
    def __init__(self, pid, tier, seed, replay=None):
        self.pid, self.tier, self.seed, self.replay = pid, tier, seed, replay
        self.t0 = time.time()
        self.rng = SplitMix(seed * 1000003 + int(pid[1:]))
        self._sweep_stale()
        # A run against a mutated tree (VERIF_REPO != /repo) works in a private copy of the Lean project
        # (see _lean_dir), so mutant runs and runs against the real tree never see each other's files.
        self._mutant = str(REPO) != "/repo"
        CACHE.mkdir(parents=True, exist_ok=True)
        self.tmp = Path(tempfile.mkdtemp(prefix=f"uvv-{pid}-", dir=str(self._tmproot())))
        atexit.register(lambda: shutil.rmtree(self.tmp, ignore_errors=True))
        self.obligations = []       # (name, ok, detail)
        self.violations = []        # dict(sig, what, replay)
        self.known_hits = {}        # sig -> text
        self.broken = []            # (kind, name, detail)  proofs / correspondences that no longer check
        self.cov = {"evaluations": 0, "distinct_nontrivial": 0, "samples": [],
                    "traces_validated_against_impl": 0}
        self.distinct = set()
        self.assumptions = []
        self.trusted = ["Lean 4.33 kernel; axioms propext, Classical.choice, Quot.sound only"]
        self.notes = {}
        self.known = load_known(pid)
        self.checker_cmds = []
        self._first_violation_at = None
        self._finishing = False
        if not replay:
            self._start_watchdog()

    @staticmethod
    def _sweep_stale():
        """scratch dirs of checks that were killed (older than 3 h) are removed"""
        try:
            for d in CACHE.glob("uvv-*"):
                if time.time() - d.stat().st_mtime > 3 * 3600:
                    shutil.rmtree(d, ignore_errors=True)
        except OSError:
            pass

    @staticmethod
    def _tmproot():
        CACHE.mkdir(parents=True, exist_ok=True)
        return CACHE

    @property
    def quick(self):
        return self.tier == "quick"

    def scale(self, quick, thorough):
        return quick if self.quick else thorough

    def log(self, *a):
        print(f"[{self.pid} {time.time()-self.t0:6.1f}s]", *a, flush=True)

    # ---------------------------------------------------------------- Lean side
    def lake(self, targets):
        cmd = [str(VERIF / "tools/lk"), "build"] + list(targets)
        self.checker_cmds.append("cd /verif/lean && lake build " + " ".join(targets))
        r = sh(cmd)
        return r.returncode == 0, r.stdout

    def gen_lean(self, need=("core",)):
        """Tie A: regenerate lean/UvModel/Generated/Kernels.lean from /repo (only rewritten if changed).
        `need`: the kernel groups (gen_lean.py KERNELS `group=`, default "core" = the ones
        UvModel/GenEq.lean is about) whose translation failing breaks THIS property; an untranslatable
        kernel of another group only stops that group's own UvModel/GenEq/<group>.lean from building."""
        r = sh([sys.executable, str(VERIF / "tools/gen_lean.py"), "--need", ",".join(need)])
        if r.returncode != 0:
            self.broken.append(("tie-A", "gen_lean.py", r.stdout[-4000:]))
            return False
        return True

    def require_lean(self, modules, driver=True):
        """Build the property modules (+driver), audit tokens and axioms.
        Records one obligation per theorem of the listed Props modules."""
        own = [m for m in [f"Drivers.{self.pid}"] if (LEAN / (m.replace(".", "/") + ".lean")).exists()]
        ok, log = self.lake(list(modules) + own)
        if ok and driver:
            dok, dlog = self.lake(["uvdriver"])
            if not dok:
                failed = set(re.findall(r"^- (\S+)", dlog, re.M))
                mine = {str(p.relative_to(LEAN))[:-5].replace("/", ".") for p in import_closure(list(modules) + own)}
                exe = LEAN / ".lake/build/bin/uvdriver"
                if failed and not (failed & mine) and failed != {"uvdriver"} and exe.exists():
                    # another property's driver module is broken (work in progress elsewhere): this
                    # property's own modules all built; keep using the last linked driver
                    self.log("warning: uvdriver not relinked, unrelated modules fail:", sorted(failed))
                else:
                    ok, log = False, dlog
        if driver:
            self._snapshot_driver()
        if not ok:
            # find which modules failed
            failed = re.findall(r"^- (\S+)", log, re.M) or ["?"]
            for m in failed:
                self.broken.append(("proof", m, _tail(log, 60)))
            self.log("lake build FAILED:", failed)
        thms = []
        for m in modules:
            p = LEAN / (m.replace(".", "/") + ".lean")
            thms += theorem_names(p)
        self._audit_tokens(modules)
        ax = self._axioms(modules, thms) if ok else {}
        for t in thms:
            if not ok:
                self.obligations.append((t, False, "build failed"))
            else:
                axs = ax.get(t)
                if axs is None:
                    self.obligations.append((t, False, "no #print axioms output"))
                    self.broken.append(("proof", t, "axiom audit produced nothing"))
                else:
                    extra = set(axs) - ALLOWED_AXIOMS
                    self.obligations.append((t, not extra, "axioms: " + (", ".join(axs) or "none")))
                    if extra:
                        self.broken.append(("proof", t, f"forbidden axioms {sorted(extra)}"))
        if not self.quick and ok:
            for m in modules:
                r = sh(["flock", str(LEAN / ".lakelock"), "lake", "env", "leanchecker", m], cwd=str(LEAN))
                self.checker_cmds.append(f"lake env leanchecker {m}")
                if r.returncode != 0:
                    self.broken.append(("proof", m, "leanchecker: " + _tail(r.stdout, 30)))
        return ok and not any(k == "proof" for k, _, _ in self.broken)

    def _audit_tokens(self, modules):
        for p in import_closure(modules):
            txt = strip_lean_comments(p.read_text())
            for tok in FORBIDDEN:
                if re.search(r"(?<![A-Za-z0-9_.])" + re.escape(tok), txt):
                    self.broken.append(("proof", str(p.relative_to(VERIF)), f"forbidden token `{tok.strip()}`"))
            if re.search(r"^\s*axiom\s", txt, re.M):
                self.broken.append(("proof", str(p.relative_to(VERIF)), "custom axiom"))

    def _axioms(self, modules, thms):
        if not thms:
            return {}
        f = self.tmp / "Audit.lean"
        f.write_text("".join(f"import {m}\n" for m in modules) +
                     "".join(f"#print axioms {t}\n" for t in thms))
        r = sh(["flock", str(LEAN / ".lakelock"), "lake", "env", "lean", str(f)], cwd=str(LEAN))
        self.checker_cmds.append("lake env lean Audit.lean  (#print axioms for every property theorem)")
        out = {}
        txt = r.stdout.replace("\n  ", " ")
        for m in re.finditer(r"'([^']+)' depends on axioms: \[([^\]]*)\]", txt):
            out[m.group(1)] = [a.strip() for a in m.group(2).split(",") if a.strip()]
        for m in re.finditer(r"'([^']+)' does not depend on any axioms", txt):
            out[m.group(1)] = []
        return out

    def _snapshot_driver(self):
        """private copy of the linked driver, taken under the lake lock (others may relink it any time)"""
        src = LEAN / ".lake/build/bin/uvdriver"
        dst = self.tmp / "uvdriver"
        try:
            with Locked(LEAN / ".lakelock"):
                if src.exists() and not dst.exists():
                    tmpname = self.tmp / f"uvdriver.{os.getpid()}.{time.time_ns()}"
                    shutil.copy2(src, tmpname)
                    os.replace(tmpname, dst)      # atomic: readers never see a half-copied file
        except OSError:
            pass
        return dst if dst.exists() else src

    def driver(self, args, text, timeout=600):
        exe = self.tmp / "uvdriver"
        if not exe.exists():
            exe = self._snapshot_driver()
        r = subprocess.run([str(exe)] + list(args), input=text, stdout=subprocess.PIPE,
                           stderr=subprocess.PIPE, text=True, timeout=timeout)
        if r.returncode != 0:
            raise RuntimeError(f"uvdriver {args} failed: {r.stderr[-2000:]}")
        return r.stdout

    # ------------------------------------------------------------- C side
    def libuv(self, variant="asan"):
        return build_libuv(variant)

    def harness(self, name, sources, variant="asan", link_lib=True, extra=(), cc="clang"):
        """Compile a harness against /repo's working tree.  Returns the binary path,
        or None when it no longer compiles (= broken correspondence, recorded)."""
        out = self.tmp / name
        cmd = [cc] + VARIANTS[variant] + CPPFLAGS + ["-std=gnu11", "-w", "-iquote", f"{VERIF}/harness",
                                                       "-include", f"{VERIF}/harness/sane_env.h",
                                                       f'-DREPO="{REPO}"']
        cmd += [str(VERIF / s) if not os.path.isabs(s) else s for s in sources]
        cmd += list(extra)
        if link_lib:
            try:
                cmd.append(str(self.libuv(variant)))
            except BuildError as e:
                print(e.log[-3000:])
                print(f"[{self.pid}] /repo does not compile: cannot decide anything", flush=True)
                sys.exit(2)
        cmd += ["-o", str(out)] + LIBS
        r = sh(cmd)
        if r.returncode != 0:
            self.broken.append(("correspondence", f"harness {name} does not compile against the working tree",
                                _tail(r.stdout, 40)))
            self.log(f"harness {name} failed to compile")
            return None
        return out

    def run(self, exe, args=(), text=None, timeout=600, env=None):
        # libuv reads UV_* variables (UV_THREADPOOL_SIZE, UV_USE_IO_URING, ...): a harness only sees
        # the ones its check passes explicitly, never what the caller's environment happens to hold
        e = {k: v for k, v in os.environ.items() if not k.startswith("UV_")}
        e.setdefault("ASAN_OPTIONS", "detect_leaks=1:abort_on_error=0:exitcode=99")
        e.setdefault("UBSAN_OPTIONS", "print_stacktrace=1:halt_on_error=1:exitcode=98")
        if env:
            e.update(env)
        try:
            r = subprocess.run([str(exe)] + [str(a) for a in args], input=text, stdout=subprocess.PIPE,
                               stderr=subprocess.PIPE, text=True, timeout=timeout, env=e, errors="replace")
            return r.returncode, r.stdout, r.stderr
        except subprocess.TimeoutExpired as ex:
            so = ex.stdout.decode(errors="replace") if isinstance(ex.stdout, bytes) else (ex.stdout or "")
            se = ex.stderr.decode(errors="replace") if isinstance(ex.stderr, bytes) else (ex.stderr or "")
            return -999, so, se + "\nTIMEOUT"

    # ------------------------------------------------------------- verdicts
    def count(self, n=1):
        self.cov["evaluations"] += n

    def nontrivial(self, key):
        self.distinct.add(key if isinstance(key, (str, int, tuple)) else json.dumps(key, sort_keys=True))

    def sample(self, s, limit=6):
        if len(self.cov["samples"]) < limit:
            self.cov["samples"].append(s)

    def validated(self, n=1):
        self.cov["traces_validated_against_impl"] += n

    def violation(self, sig, what, replay_obj):
        """A property monitor failed on the implementation (or model and implementation
        disagree in a way that contradicts the property).  `sig` = call site + input class."""
        if sig in self.known:
            if sig not in self.known_hits:
                self.known_hits[sig] = self.known[sig]
            return False
        if any(v["sig"] == sig for v in self.violations):
            return True
        self.violations.append({"sig": sig, "what": what, "replay": replay_obj})
        if self._first_violation_at is None:
            self._first_violation_at = time.time()
        return True

    # -- a decided check must also terminate: on a tree where (nearly) every case hangs or crashes the
    #    remaining generation adds nothing to the verdict but can take hours.  Once a violation with its
    #    replay has been recorded the run may go on for a grace period (more signatures, shrinking) and is
    #    then finished from here.  Never triggers on a tree without violations.
    def _start_watchdog(self):
        import threading
        grace = 150 if self.tier == "quick" else 600
        def dog():
            while True:
                time.sleep(5)
                t = self._first_violation_at
                if t is not None and not self._finishing and time.time() - t > grace:
                    self.notes["stopped_early"] = (f"generation stopped {grace} s after the first violation was "
                                                   f"recorded ({len(self.violations)} signatures so far)")
                    self.log(f"verdict is decided; stopping {grace} s after the first violation")
                    try:
                        self.finish()
                    except SystemExit as e:
                        sys.stdout.flush(); sys.stderr.flush()
                        _kill_descendants()
                        shutil.rmtree(self.tmp, ignore_errors=True)
                        os._exit(e.code if isinstance(e.code, int) else 1)
        threading.Thread(target=dog, daemon=True).start()

    def broken_correspondence(self, name, detail):
        self.broken.append(("correspondence", name, detail))

    def finish(self):
        self._finishing = True
        wall = time.time() - self.t0
        rc = 0
        (VERIF / "replays").mkdir(exist_ok=True)
        for sig, text in sorted(self.known_hits.items()):
            print(f"KNOWN-FINDING: property={self.pid} sig={sig} {text}")
        for i, v in enumerate(self.violations):
            p = VERIF / "replays" / f"{self.pid}-{safe(v['sig'])}.json"
            p.write_text(json.dumps({"property": self.pid, "sig": v["sig"], "what": v["what"],
                                     "seed": self.seed, "tier": self.tier, "replay": v["replay"]}, indent=1))
            print(f"VIOLATION property={self.pid} replay={p}")
            print(f"  {v['what']}")
            rc = 1
        if self.broken and not self.violations:
            p = VERIF / "replays" / f"{self.pid}-broken-obligation.json"
            p.write_text(json.dumps({"property": self.pid, "seed": self.seed, "tier": self.tier,
                                     "no_longer_checks": [{"kind": k, "name": n, "detail": d}
                                                          for k, n, d in self.broken],
                                     "search": self.notes.get("search", "monitors found no failing input")},
                                    indent=1))
            names = "; ".join(f"{k}:{n}" for k, n, _ in self.broken[:4])
            print(f"  no longer checks: {names}")
            print(f"VIOLATION property={self.pid} replay={p} no-failing-input-found")
            rc = 1
        elif self.broken:
            for k, n, d in self.broken[:6]:
                print(f"  also no longer checks: {k}:{n}")
        nobl = len(self.obligations)
        ndis = sum(1 for _, ok, _ in self.obligations if ok)
        cov = dict(self.cov)
        cov["distinct_nontrivial"] = len(self.distinct)
        cov.update({
            "obligations": nobl, "discharged": ndis,
            "checker_cmd": " ; ".join(dict.fromkeys(self.checker_cmds)) or "none",
            "trusted_base": self.trusted,
            "theorems": [{"name": n, "ok": ok, "detail": d} for n, ok, d in self.obligations],
            "known_findings_reproduced": sorted(self.known_hits),
            "no_longer_checks": [f"{k}:{n}" for k, n, _ in self.broken],
        })
        cov.update(self.notes)
        ev = {"property_id": self.pid, "tier": self.tier, "seed": self.seed, "level": "proof",
              "coverage": cov, "assumptions": self.assumptions, "wall_s": round(wall, 2),
              "violations": len(self.violations) + (1 if self.broken and not self.violations else 0)}
        # evidence describes /repo; a run against a mutated tree (tools/seedtest.py) keeps its record out of it
        evdir = (CACHE / "mutant-evidence") if self._mutant else (VERIF / "evidence")
        evdir.mkdir(parents=True, exist_ok=True)
        (evdir / f"{self.pid}.json").write_text(json.dumps(ev, indent=1))
        self.log(f"done rc={rc} obligations={ndis}/{nobl} evaluations={cov['evaluations']} "
                 f"distinct_nontrivial={cov['distinct_nontrivial']} wall={wall:.1f}s")
        shutil.rmtree(self.tmp, ignore_errors=True)
        sys.exit(rc)


def _kill_descendants():
    """SIGKILL every process below this one (harnesses of cases that hang)"""
    import signal
    kids = {}
    for d in os.listdir("/proc"):
        if d.isdigit():
            try:
                st = open(f"/proc/{d}/stat").read()
                kids.setdefault(int(st[st.rindex(")") + 2:].split()[1]), []).append(int(d))
            except (OSError, ValueError):
                pass
    todo, seen = [os.getpid()], set()
    while todo:
        for c in kids.get(todo.pop(), []):
            if c not in seen:
                seen.add(c); todo.append(c)
    for c in seen:
        try:
            os.kill(c, signal.SIGKILL)
        except OSError:
            pass


def safe(s):
    return re.sub(r"[^A-Za-z0-9_.-]+", "_", s)[:80]


def _tail(s, n):
    return "\n".join(s.splitlines()[-n:])


def strip_lean_comments(s):
    out, i, depth = [], 0, 0
    while i < len(s):
        if s.startswith("/-", i):
            depth += 1; i += 2; continue
        if depth and s.startswith("-/", i):
            depth -= 1; i += 2; continue
        if depth:
            i += 1; continue
        if s.startswith("--", i):
            while i < len(s) and s[i] != "\n":
                i += 1
            continue
        out.append(s[i]); i += 1
    return "".join(out)


def theorem_names(path):
    """fully qualified names of the theorems of a Props file (tracks `namespace`)."""
    if not path.exists():
        return []
    txt = strip_lean_comments(path.read_text())
    ns, names = [], []
    for line in txt.splitlines():
        m = re.match(r"\s*namespace\s+(\S+)", line)
        if m:
            ns.append(m.group(1)); continue
        m = re.match(r"\s*end\s+(\S+)", line)
        if m and ns and ns[-1].split(".")[-1] == m.group(1).split(".")[-1]:
            ns.pop(); continue
        m = re.match(r"\s*(?:@\[[^\]]*\]\s*)?(?:private\s+|protected\s+)?theorem\s+(\S+)", line)
        if m:
            names.append(".".join(ns + [m.group(1)]))
    return names


def import_closure(modules):
    """files of the project-local modules transitively imported by `modules`"""
    seen, todo, files = set(), list(modules), []
    while todo:
        m = todo.pop()
        if m in seen:
            continue
        seen.add(m)
        p = LEAN / (m.replace(".", "/") + ".lean")
        if not p.exists():
            continue
        files.append(p)
        for mm in re.findall(r"^import\s+(\S+)", p.read_text(), re.M):
            if mm.split(".")[0] in ("UvModel", "Drivers", "Main"):
                todo.append(mm)
    return sorted(files)


def load_known(pid):
    """known_findings.txt: `finding: property=C10 sig=<sig> <text>` entries for this property."""
    out = {}
    p = VERIF / "known_findings.txt"
    if p.exists():
        for line in p.read_text().splitlines():
            m = re.match(r"finding:\s+property=(\S+)\s+sig=(\S+)\s*(.*)", line)
            if m and m.group(1) == pid:
                out[m.group(2)] = m.group(3)
    return out
