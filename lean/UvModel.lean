import UvModel.Heap
import UvModel.Timer
import UvModel.Props.C04Heap
import UvModel.Props.C20
import UvModel.Props.C04Timer
import UvModel.Props.C12
import UvModel.Props.C11
import UvModel.Props.C10
