import UvModel.Heap
import UvModel.Timer
import UvModel.Props.C04Heap
