import UvModel.DriverUtil
import Drivers.C04
open UvModel.DriverUtil

def main (args : List String) : IO UInt32 := do
  match args with
  | ["heap"] => runLines (#[] : UvModel.Heap.H) Drivers.C04.heapStep; return 0
  | ["timer"] => runLines ({} : Drivers.C04.TS) Drivers.C04.timerStep; return 0
  | _ => IO.eprintln s!"uvdriver: unknown mode {args}"; return 2
