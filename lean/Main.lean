import UvModel.DriverUtil
import Drivers.C01
import Drivers.C02
import Drivers.C03
import Drivers.C04
import Drivers.C05
import Drivers.C06
import Drivers.C07
import Drivers.C08
import Drivers.C09
import Drivers.C10
import Drivers.C11
import Drivers.C12
import Drivers.C13
import Drivers.C14
import Drivers.C15
import Drivers.C16
import Drivers.C17
import Drivers.C18
import Drivers.C18Text
import Drivers.C19
import Drivers.C20
import Drivers.Queue
import Drivers.HeapPtr

/-! `uvdriver <mode>`: every property's driver module contributes its modes. -/
def allModes : List (String × IO Unit) :=
  Drivers.C01.modes ++ Drivers.C02.modes ++ Drivers.C03.modes ++ Drivers.C04.modes ++ Drivers.C05.modes ++ Drivers.C06.modes ++ Drivers.C07.modes ++ Drivers.C08.modes ++ Drivers.C09.modes ++ Drivers.C10.modes ++ Drivers.C11.modes ++ Drivers.C12.modes ++ Drivers.C13.modes ++ Drivers.C14.modes ++ Drivers.C15.modes ++ Drivers.C16.modes ++ Drivers.C17.modes ++ Drivers.C18.modes ++ Drivers.C18Text.modes ++ Drivers.C19.modes ++ Drivers.C20.modes ++ Drivers.Queue.modes ++ Drivers.HeapPtr.modes

def main (args : List String) : IO UInt32 := do
  match args with
  | [m] =>
    match allModes.find? (·.1 = m) with
    | some (_, act) => act; return 0
    | none => IO.eprintln s!"uvdriver: unknown mode {m}"; return 2
  | _ => IO.eprintln "usage: uvdriver <mode>"; return 2
