/-!
# C07 — accept / IPC descriptor queue / connect / send-handle validation (src/unix/stream.c,
tcp.c, pipe.c).  Executable model, following the C control flow.

Descriptors are abstract (`Fd.id` = identity of the open file description, never re-used), so
conservation can be stated over lists-as-multisets.  Kernel outcomes (accept4 result, what the
EMFILE trick sheds, allocation failures, SO_ERROR, connect(2) result, uv__stream_open result) are
inputs.  The connection callback is flattened: `ioBegin … ; <ops the callback performs> ; ioEnd`.
-/
namespace UvModel.Accept

def EINTR : Int := -4
def EBADF : Int := -9
def EAGAIN : Int := -11
def ENOMEM : Int := -12
def EINVAL : Int := -22
def ENFILE : Int := -23
def EMFILE : Int := -24
def EPIPE : Int := -32
def EALREADY : Int := -114
def EINPROGRESS : Int := -115
def ECONNREFUSED : Int := -111
def EADDRINUSE : Int := -98
def ECANCELED : Int := -125

/-- what `uv_guess_handle` says about a descriptor -/
inductive Kind | tcp | pipe | udp | unknown
deriving DecidableEq, Repr, Inhabited

structure Fd where
  id : Nat
  kind : Kind := .unknown
deriving DecidableEq, Repr, Inhabited

/-- `uv__stream_queued_fds_t` (uv-common / internal.h): `size`, `offset`, and the flexible array.
`fds` is the *allocated* array: its length is the number of slots the malloc/realloc size pays for. -/
structure Queue where
  size : Nat
  offset : Nat
  fds : List Fd
deriving DecidableEq, Repr

/-- bytes requested by stream.c:949/960: `(queue_size - 1) * sizeof(int) + sizeof(struct)`;
the struct is `{unsigned size; unsigned offset; int fds[1];}` = 12 bytes. -/
def allocBytes (queueSize : Nat) : Nat := (queueSize - 1) * 4 + 12
/-- number of `int` slots that fit behind the 8-byte header in an allocation of `bytes` -/
def slotsOf (bytes : Nat) : Nat := (bytes - 8) / 4

inductive Role | listen | ipc
deriving DecidableEq, Repr

structure St where
  role : Role
  ipc : Bool                       -- `((uv_pipe_t*)h)->ipc`
  acceptedFd : Option Fd := none   -- `accepted_fd` (-1 = none)
  queued : Option Queue := none    -- `queued_fds` (NULL = none)
  pollin : Bool                    -- POLLIN armed on io_watcher
  inCb : Bool := false             -- inside connection_cb of uv__server_io
  closed : Bool := false           -- uv_close called (uv__stream_close ran)
  spare : Bool := true             -- loop->emfile_fd != -1
  fault : Bool := false            -- an index outside the allocation was used, or a C assert would fire
  stuck : Bool := false            -- ghost: a deferred uv_accept on a listener failed in uv__stream_open
  -- ghost history (arrival order)
  arrived : List Fd := []          -- every descriptor accept4/recvmsg ever produced for this stream
  stored : List Fd := []         -- stored into accepted_fd / the queue
  taken : List (Fd × Bool) := []   -- taken by uv_accept, with "client opened ok"
  byClose : List Fd := []          -- closed by uv__stream_close
  dropped : List Fd := []          -- closed in uv__stream_recv_cmsg after ENOMEM
  shed : List Fd := []             -- accepted and closed by uv__emfile_trick
deriving Repr

def init (role : Role) (ipc pollin : Bool) : St := { role := role, ipc := ipc, pollin := pollin }

def qlist : Option Queue → List Fd
  | none => []
  | some q => q.fds.take q.offset

/-- the unclaimed descriptors, oldest first -/
def pending (s : St) : List Fd := s.acceptedFd.toList ++ qlist s.queued

def claimed (s : St) : List Fd := (s.taken.filter (·.2)).map (·.1)
def failedOpen (s : St) : List Fd := (s.taken.filter (fun x => !x.2)).map (·.1)

/-- `queued_fds->fds[queued_fds->offset++] = fd` (stream.c:975) with an explicit bounds check -/
def putFd (s : St) (q : Queue) (fd : Fd) : St :=
  if q.offset < q.fds.length then
    { s with queued := some { q with fds := q.fds.set q.offset fd, offset := q.offset + 1 } }
  else { s with fault := true }

/-- `uv__stream_queue_fd` (stream.c:942-978).  Returns (state, err, allocated?). -/
def queueFd (s : St) (fd : Fd) (allocOk : Bool) : St × Int × Bool :=
  match s.queued with
  | none =>
    if !allocOk then (s, ENOMEM, true)
    else (putFd s { size := 8, offset := 0, fds := List.replicate (slotsOf (allocBytes 8)) default } fd, 0, true)
  | some q =>
    if q.size == q.offset then
      if !allocOk then (s, ENOMEM, true)
      else
        let n := slotsOf (allocBytes (q.size + 8))
        -- realloc keeps the old contents (up to the smaller size) and appends garbage
        (putFd s { q with size := q.size + 8, fds := q.fds.take n ++ List.replicate (n - q.fds.length) default } fd, 0, true)
    else (putFd s q fd, 0, false)

/-- the `while (p < pe)` loop of `uv__stream_recv_cmsg` (stream.c:1005-1018);
`nalloc` counts allocations so far, the `failAt`-th one fails. -/
def recvLoop (s : St) (err : Int) (nalloc : Nat) (failAt : Option Nat) : List Fd → St × Int
  | [] => (s, err)
  | fd :: rest =>
    let s := { s with arrived := s.arrived ++ [fd] }
    if err == 0 then
      match s.acceptedFd with
      | none => recvLoop { s with acceptedFd := some fd, stored := s.stored ++ [fd] } 0 nalloc failAt rest
      | some _ =>
        let (s', e, al) := queueFd s fd (failAt != some nalloc)
        let nalloc := if al then nalloc + 1 else nalloc
        if e == 0 then recvLoop { s' with stored := s'.stored ++ [fd] } 0 nalloc failAt rest
        else recvLoop { s' with dropped := s'.dropped ++ [fd] } e nalloc failAt rest
    else recvLoop { s with dropped := s.dropped ++ [fd] } err nalloc failAt rest

/-- `uv__stream_recv_cmsg` on an IPC pipe that is open -/
def recv (s : St) (fds : List Fd) (failAt : Option Nat) : St × Int :=
  if s.role != .ipc || s.closed then (s, 0) else recvLoop s 0 0 failAt fds

inductive AcceptRes | ok (fd : Fd) | err (e : Int)
deriving Repr

/-- inputs of `uv__emfile_trick`: connections accepted-and-closed, the error that ends the loop,
whether re-opening "/" succeeds -/
structure Trick where
  shedFds : List Fd := []
  final : Int := EAGAIN
  reopen : Bool := true
deriving Repr

/-- `uv__server_io` up to and including the call of connection_cb (stream.c:508-528).
Only possible when the watcher is armed, the handle open, and we are not already inside. -/
def ioBegin (s : St) (r : AcceptRes) (t : Trick) : St :=
  if s.role != .listen || s.closed || !s.pollin || s.inCb then s
  else
    let s := if s.acceptedFd.isSome then { s with fault := true } else s  -- assert(accepted_fd == -1)
    match r with
    | .ok fd => { s with acceptedFd := some fd, arrived := s.arrived ++ [fd],
                         stored := s.stored ++ [fd], inCb := true }
    | .err e =>
      if e == EMFILE || e == ENFILE then
        if !s.spare then s                     -- uv__emfile_trick returns UV_EMFILE
        else { s with spare := t.reopen, arrived := s.arrived ++ t.shedFds, shed := s.shed ++ t.shedFds }
      else s

/-- the tail of `uv__server_io` after connection_cb returned (stream.c:530-532) -/
def ioEnd (s : St) : St :=
  if !s.inCb then s
  else if s.acceptedFd.isSome then { s with pollin := false, inCb := false }
  else { s with inCb := false }

inductive ClientTy | stream | udp | other
deriving DecidableEq, Repr

/-- `uv_accept` (stream.c:536-598); `openErr` = result of uv__stream_open / uv_udp_open (≤ 0) -/
def uvAccept (s : St) (c : ClientTy) (openErr : Int) : St × Int :=
  match s.acceptedFd with
  | none => (s, EAGAIN)
  | some fd =>
    if c == .other then (s, EINVAL)
    else
      let s := { s with taken := s.taken ++ [(fd, openErr == 0)] }   -- err ≠ 0: uv__close(accepted_fd)
      match s.queued with
      | some q =>
        -- accepted_fd = fds[0]; assert(offset > 0)
        let flt := s.fault || q.offset == 0 || q.fds.isEmpty
        let hd := q.fds.headD default
        let off := q.offset - 1
        if off == 0 then ({ s with acceptedFd := some hd, queued := none, fault := flt }, openErr)
        else
          -- memmove(fds, fds + 1, off * sizeof(int)): reads fds[1 .. off]
          let fds' := (q.fds.drop 1).take off ++ q.fds.drop off
          ({ s with acceptedFd := some hd, queued := some { q with offset := off, fds := fds' },
                    fault := flt || !(off + 1 ≤ q.fds.length) }, openErr)
      | none =>
        ({ s with acceptedFd := none, pollin := s.pollin || openErr == 0,
                  stuck := s.stuck || (openErr != 0 && !s.inCb && s.role == .listen) }, openErr)

/-- `uv_close` → `uv__stream_close` (stream.c:1509-1560): watcher stopped, accepted_fd and every
queued descriptor closed, queue freed -/
def close (s : St) : St :=
  if s.closed then s
  else { s with closed := true, pollin := false, byClose := s.byClose ++ pending s,
                acceptedFd := none, queued := none }

/-- `uv_pipe_pending_count` (pipe.c:419-433) -/
def pendingCount (s : St) : Nat :=
  if !s.ipc then 0
  else match s.acceptedFd with
    | none => 0
    | some _ => match s.queued with
      | none => 1
      | some q => q.offset + 1

/-- `uv_pipe_pending_type` (pipe.c:436-444) -/
def pendingType (s : St) : Kind :=
  if !s.ipc then .unknown
  else match s.acceptedFd with
    | none => .unknown
    | some fd => fd.kind

/-- `uv__stream_init` of *any* stream on the loop (stream.c:101-110): re-opens the spare descriptor
when it is missing; `ok` = the open succeeded -/
def streamInit (s : St) (ok : Bool) : St := { s with spare := s.spare || ok }

inductive Op
  | streamInit (ok : Bool)
  | ioBegin (r : AcceptRes) (t : Trick)
  | ioEnd
  | accept (c : ClientTy) (openErr : Int)
  | recv (fds : List Fd) (failAt : Option Nat)
  | close
deriving Repr

def step (s : St) : Op → St
  | .streamInit ok => streamInit s ok
  | .ioBegin r t => ioBegin s r t
  | .ioEnd => ioEnd s
  | .accept c e => (uvAccept s c e).1
  | .recv fds f => (recv s fds f).1
  | .close => close s

def run (s : St) (ops : List Op) : St := ops.foldl step s

/-! ## connect side (tcp.c:277-349, pipe.c:253-345, stream.c:1246-1292, 455-470) -/

structure Conn where
  connectReq : Option Nat := none   -- pending request (by submission index)
  delayedError : Int := 0
  nextReq : Nat := 0
  closing : Bool := false
  destroyed : Bool := false
  fdOpen : Bool := false
  fed : Bool := false               -- uv__io_feed called (callback forced on the next tick)
  pollout : Bool := false
  writeQ : List Nat := []           -- queued write requests
  cbs : List (Nat × Int) := []      -- connect callbacks delivered (req, status), oldest first
  wcbs : List (Nat × Int) := []     -- write callbacks delivered
  accepted : List Nat := []         -- requests whose submitting call returned 0
  connectCalls : Nat := 0           -- ghost: how often connect(2) was reached
deriving Repr

/-- result of connect(2) after the EINTR loop: 0, or a negative errno -/
abbrev SysRes := Int

/-- `uv__tcp_bind` (tcp.c, bind(2) part): EADDRINUSE is *deferred* into `delayed_error` and the call returns 0;
every other bind(2) error is returned -/
def tcpBind (c : Conn) (r : Int) : Conn × Int :=
  if c.closing then (c, EINVAL) else
  if r != 0 && r != EADDRINUSE then ({ c with fdOpen := true }, r)
  else ({ c with fdOpen := true, delayedError := if r == 0 then 0 else r }, 0)

/-- `uv__tcp_connect`; `sockErr` = maybe_new_socket result, `r` = connect(2) result (UV__ERR form) -/
def tcpConnect (c : Conn) (sockErr : Int) (r : SysRes) : Conn × Int :=
  if c.closing then (c, EINVAL) else     -- uv_tcp_connect is not reached on a closing handle by our programs
  if c.connectReq.isSome then (c, EALREADY)
  else
    let submit (c : Conn) : Conn × Int :=
      ({ c with connectReq := some c.nextReq, nextReq := c.nextReq + 1, accepted := c.accepted ++ [c.nextReq],
                pollout := true, fed := c.fed || c.delayedError != 0 }, 0)
    if c.delayedError != 0 then submit c
    else if sockErr != 0 then (c, sockErr)
    else
      let c := { c with fdOpen := true, connectCalls := c.connectCalls + 1 }
      if r == 0 || r == EINPROGRESS then submit c
      else if r == ECONNREFUSED then submit { c with delayedError := ECONNREFUSED }
      else (c, r)

/-- `uv_pipe_connect2` after the argument checks (`argErr` ≠ 0: one of the synchronous UV_EINVAL
returns); `sockErr` = uv__socket result when a new socket is needed; `r` = connect(2) result -/
def pipeConnect (c : Conn) (argErr : Int) (sockErr : Int) (r : SysRes) : Conn × Int :=
  if c.closing then (c, EINVAL) else
  if argErr != 0 then (c, argErr)
  else
    let out (c : Conn) (err : Int) : Conn × Int :=
      ({ c with delayedError := err, connectReq := some c.nextReq, nextReq := c.nextReq + 1,
                accepted := c.accepted ++ [c.nextReq], fed := c.fed || err != 0 }, 0)
    if !c.fdOpen && sockErr != 0 then out c sockErr
    else
      let c := { c with fdOpen := true, connectCalls := c.connectCalls + 1 }
      if r != 0 && r != EINPROGRESS then out c r
      else out { c with pollout := true } 0

/-- flush + run write callbacks with `status` -/
def flushWrites (c : Conn) (status : Int) : Conn :=
  { c with wcbs := c.wcbs ++ c.writeQ.map (·, status), writeQ := [] }

/-- `uv__stream_io` when `connect_req` is set → `uv__stream_connect` (stream.c:1246-1292);
`soError` = UV__ERR(SO_ERROR) -/
def streamConnect (c : Conn) (soError : Int) : Conn :=
  if c.closing then c else
  match c.connectReq with
  | none => c
  | some req =>
    let (error, c) := if c.delayedError != 0 then (c.delayedError, { c with delayedError := 0 })
                      else (soError, c)
    if error == EINPROGRESS then c
    else
      let c := { c with connectReq := none, fed := false, cbs := c.cbs ++ [(req, error)],
                        pollout := if error < 0 || c.writeQ.isEmpty then false else c.pollout }
      if error < 0 then flushWrites c ECANCELED else c

/-- `uv__stream_connect` up to and including the call of the user's callback (stream.c:1246-1283): the request is
detached and POLLOUT is stopped *before* the callback runs.  Returns the delivered status (none: nothing delivered). -/
def connPre (c : Conn) (soError : Int) : Conn × Option Int :=
  if c.closing then (c, none) else
  match c.connectReq with
  | none => (c, none)
  | some req =>
    let (error, c) := if c.delayedError != 0 then (c.delayedError, { c with delayedError := 0 })
                      else (soError, c)
    if error == EINPROGRESS then (c, none)
    else
      ({ c with connectReq := none, fed := false, cbs := c.cbs ++ [(req, error)],
                pollout := if error < 0 || c.writeQ.isEmpty then false else c.pollout }, some error)

/-- the rest of `uv__stream_connect` after the callback returned (stream.c:1285-1291): nothing if the callback
closed the handle; on error the write queue (including writes queued by the callback) is flushed -/
def connPost (c : Conn) (delivered : Option Int) : Conn :=
  match delivered with
  | none => c
  | some error => if c.closing then c else if error < 0 then flushWrites c ECANCELED else c

/-- uv_write while connecting just queues -/
def queueWrite (c : Conn) (w : Nat) : Conn := { c with writeQ := c.writeQ ++ [w] }

/-- `uv_close` on the connecting handle -/
def connClose (c : Conn) : Conn :=
  if c.closing then c else { c with closing := true, pollout := false, fdOpen := false }

/-- `uv__finish_close` → `uv__stream_destroy` (stream.c:455-470) -/
def connDestroy (c : Conn) : Conn :=
  if !c.closing || c.destroyed then c
  else
    let c := match c.connectReq with
      | some req => { c with cbs := c.cbs ++ [(req, ECANCELED)], connectReq := none }
      | none => c
    flushWrites { c with destroyed := true } ECANCELED

inductive COp
  | tcpBind (r : Int)
  | tcpConnect (sockErr : Int) (r : SysRes)
  | pipeConnect (argErr sockErr : Int) (r : SysRes)
  | io (soError : Int)
  | write (w : Nat)
  | close
  | destroy
deriving Repr

def cstep (c : Conn) : COp → Conn
  | .tcpBind r => (tcpBind c r).1
  | .tcpConnect e r => (tcpConnect c e r).1
  | .pipeConnect a e r => (pipeConnect c a e r).1
  | .io so => streamConnect c so
  | .write w => queueWrite c w
  | .close => connClose c
  | .destroy => connDestroy c

def crun (c : Conn) (ops : List COp) : Conn := ops.foldl cstep c

/-! ## `uv__check_before_write` (stream.c:1295-1331) and its two callers -/

structure WStream where
  fd : Int                 -- io_watcher.fd
  writable : Bool          -- UV_HANDLE_WRITABLE
  isPipe : Bool            -- type == UV_NAMED_PIPE
  ipc : Bool
  connecting : Bool := false   -- connect_req != NULL
  wqSize : Nat := 0            -- write_queue_size

/-- `send` = `none` for NULL, else the descriptor of the handle to send (`uv__handle_fd`) -/
def checkBeforeWrite (s : WStream) (send : Option Int) : Int :=
  if s.fd < 0 then EBADF
  else if !s.writable then EPIPE
  else match send with
    | none => 0
    | some hfd =>
      if !s.isPipe || !s.ipc then EINVAL
      else if hfd < 0 then EBADF
      else 0

/-- `uv_write2` (stream.c:1333-1344): `none` = goes on to queue the request -/
def write2Check (s : WStream) (send : Option Int) : Option Int :=
  let e := checkBeforeWrite s send
  if e < 0 then some e else none

/-- `uv_try_write2` (stream.c:1423-1438): `none` = goes on to `uv__try_write` -/
def tryWrite2Check (s : WStream) (send : Option Int) : Option Int :=
  if s.connecting || s.wqSize != 0 then some EAGAIN
  else
    let e := checkBeforeWrite s send
    if e < 0 then some e else none

/-! ## sending a handle: `uv_write2` queueing + `uv__write` (stream.c:840-898, 754-838)

One `attempt` = one iteration of the `uv__write` loop on the head request: a `sendmsg` carrying
`req->send_handle` as SCM_RIGHTS when it is still set, else `write/writev`; `r ≥ 0` bytes accepted by the
kernel, `r < 0` a UV error.  Payload is abstracted to its byte count (buffer bookkeeping is C05). -/

structure WReq where
  id : Nat
  remaining : Nat
  handle : Option Nat        -- `req->send_handle` (descriptor identity), cleared after the first successful syscall
deriving Repr, DecidableEq

structure SSt where
  queue : List WReq := []                       -- stream->write_queue
  nextId : Nat := 0
  orig : List (Nat × Option Nat) := []          -- ghost: what each uv_write2 was asked to send
  log : List (Nat × Option Nat × Int) := []     -- every syscall: (request, descriptor attached, result)
  done : List (Nat × Int) := []                 -- finished requests with status
deriving Repr

/-- `uv_write2` after the checks: append the request (stream.c:1355-1377) -/
def enq (s : SSt) (bytes : Nat) (h : Option Nat) : SSt :=
  { s with queue := s.queue ++ [⟨s.nextId, bytes, h⟩], nextId := s.nextId + 1, orig := s.orig ++ [(s.nextId, h)] }

/-- one iteration of the `uv__write` loop (stream.c:858-878, 893-895) -/
def attempt (s : SSt) (r : Int) : SSt :=
  match s.queue with
  | [] => s
  | req :: rest =>
    let s := { s with log := s.log ++ [(req.id, req.handle, r)] }
    if 0 ≤ r then
      -- `req->send_handle = NULL` (stream.c:869), then uv__write_req_update
      let left := req.remaining - r.toNat
      if left == 0 then { s with queue := rest, done := s.done ++ [(req.id, 0)] }
      else { s with queue := { req with handle := none, remaining := left } :: rest }
    else if r == EAGAIN then s
    else { s with queue := rest, done := s.done ++ [(req.id, r)] }

inductive SOp | enq (bytes : Nat) (h : Option Nat) | attempt (r : Int)
deriving Repr

def sstep (s : SSt) : SOp → SSt
  | .enq b h => enq s b h
  | .attempt r => attempt s r

def srun (s : SSt) (ops : List SOp) : SSt := ops.foldl sstep s

/-- successful syscalls of request `r` that carried a descriptor -/
def carried (s : SSt) (r : Nat) : Nat := s.log.countP fun e => e.1 == r && e.2.1.isSome && decide (0 ≤ e.2.2)
/-- successful syscalls of request `r` -/
def succeeded (s : SSt) (r : Nat) : Nat := s.log.countP fun e => e.1 == r && decide (0 ≤ e.2.2)

end UvModel.Accept
