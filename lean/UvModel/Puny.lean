import UvModel.Utf8
/-!
  C18 (text half): executable model of `uv__idna_toascii_label` and `uv__idna_toascii`
  (/repo/src/idna.c:152-367), the Punycode (RFC 3492) encoder used by `uv_getaddrinfo`
  (src/unix/getaddrinfo.c:161-168, 256-byte destination).

  * C `unsigned` variables (`c h k n m q t x y bias delta todo`) are `UInt32` (wrapping), except
    inside the digit loop (:261-284) where no operation can wrap (`q` only shrinks, `t ≤ 26`,
    `k - bias` is computed only when `k > bias`) and `Nat` is used.
  * The destination `[d, de)` is a `Buf`: the bytes written so far and the capacity `de - ds`.
    Every C store is guarded by `if (*d < de)`; that guard is `Buf.put`.
  * The C code decodes the label again in every loop; the first loop (:177-187) has checked that
    no call fails, so the later loops see the same code points.  The model decodes once
    (`Utf8.decodeAll`) and lets the later loops run over that list.
-/
namespace UvModel.Puny
open UvModel.Utf8

/-- destination buffer: `out` = bytes stored so far (`d - ds = out.length`), `cap = de - ds` -/
structure Buf where
  out : List Nat := []
  cap : Nat := 0

/-- `if (*d < de) *(*d)++ = c;` -/
def Buf.put (b : Buf) (c : Nat) : Buf :=
  if b.out.length < b.cap then { b with out := b.out ++ [c] } else b

def UV_EINVAL : Int := -22
def UV_E2BIG : Int := -7
/-- model artefact: the outer loop ran out of fuel (never equal to a C return value) -/
def FUEL_OUT : Int := -9999

/-- `alphabet[t]`, idna.c:154 -/
def alpha (t : Nat) : Nat := if t < 26 then 97 + t else 22 + t

/-- idna.c:183-186, counting ASCII (`h`) and non-ASCII (`todo`) code points -/
def countLoop : List UInt32 → UInt32 → UInt32 → UInt32 × UInt32
  | [], h, todo => (h, todo)
  | c :: cs, h, todo => if c < 128 then countLoop cs (h + 1) todo else countLoop cs h (todo + 1)

/-- idna.c:200-212: copy the ASCII code points; `break` once `++x == h` -/
def writeAscii : List UInt32 → UInt32 → UInt32 → Buf → Buf
  | [], _, _, b => b
  | c :: cs, x, h, b =>
    if c > 127 then writeAscii cs x h b
    else
      let b := b.put c.toNat
      let x := x + 1
      if x = h then b else writeAscii cs x h b

/-- idna.c:228-238: smallest code point `≥ n` (`m` starts as `(unsigned) -1`) -/
def minGE (n : UInt32) : List UInt32 → UInt32 → UInt32
  | [], m => m
  | c :: cs, m => minGE n cs (if c ≥ n ∧ c < m then c else m)

/-- idna.c:262-268: `t = 1; if (k > bias) t = k - bias; if (t > 26) t = 26;` -/
def tOf (bias k : Nat) : Nat :=
  if (if k > bias then k - bias else 1) > 26 then 26 else (if k > bias then k - bias else 1)

theorem tOf_pos (bias k : Nat) : 1 ≤ tOf bias k ∧ tOf bias k ≤ 26 := by
  unfold tOf
  by_cases h : k > bias
  · simp only [if_pos h]; split <;> omega
  · simp only [if_neg h]; split <;> omega

/-- idna.c:261-287: the generalized variable-length integer for `q = delta`; `k` starts at 36 -/
def digits (bias k q : Nat) (b : Buf) : Buf :=
  if q < tOf bias k then b.put (alpha q)                         -- :270 break, :286-287
  else
    let x := q - tOf bias k
    let y := 36 - tOf bias k
    digits bias (k + 36) (x / y) (b.put (alpha (tOf bias k + x % y)))
termination_by q
decreasing_by
  have h1 := (tOf_pos bias k).1
  have := Nat.div_le_self (q - tOf bias k) (36 - tOf bias k)
  omega

/-- idna.c:302-303: `for (bias = 0; delta > 35 * 26 / 2; bias += 36) delta /= 35;` -/
def biasLoop (delta bias : UInt32) : UInt32 × UInt32 :=
  if h : delta > 455 then biasLoop (delta / 35) (bias + 36) else (delta, bias)
termination_by delta.toNat
decreasing_by
  have h' : 455 < delta.toNat := by simpa [UInt32.lt_iff_toNat_lt] using h
  simp only [UInt32.toNat_div]
  show delta.toNat / 35 < delta.toNat
  omega

/-- loop state of idna.c:222-312 -/
structure St where
  h : UInt32
  todo : UInt32
  bias : UInt32
  delta : UInt32
  first : Bool
  buf : Buf

/-- idna.c:250-308, one pass over the code points for the current `n`.
    The `Bool` is "`++delta == 0`" (UV_E2BIG). -/
def inner (n : UInt32) : List UInt32 → St → St × Bool
  | [], s => (s, false)
  | c :: cs, s =>
    let d1 := if c < n then s.delta + 1 else s.delta            -- :254-256
    if c < n ∧ d1 = 0 then ({ s with delta := d1 }, true)
    else if c ≠ n then inner n cs { s with delta := d1 }         -- :258-259
    else
      let buf := digits s.bias.toNat 36 d1.toNat s.buf           -- :261-287
      let delta := d1 / 2                                        -- :289
      let delta := if s.first then delta / 350 else delta        -- :291-294
      let h := s.h + 1                                           -- :299
      let delta := delta + delta / h                             -- :300
      let (delta, bias) := biasLoop delta 0                      -- :302-303
      let bias := bias + 36 * delta / (delta + 38)               -- :305
      inner n cs { h := h, todo := s.todo - 1, bias := bias, delta := 0, first := false, buf := buf }

/-- idna.c:227-312, `while (todo > 0)`.  Fuel: each pass encodes at least one code point. -/
def outer : Nat → List UInt32 → UInt32 → St → Int × Buf
  | 0, _, _, s => (FUEL_OUT, s.buf)
  | fuel + 1, cps, n, s =>
    if s.todo > 0 then
      let m := minGE n cps 0xFFFFFFFF                            -- :228-238
      let x := m - n                                             -- :240
      let y := s.h + 1                                           -- :241
      if x > (~~~ s.delta) / y then (UV_E2BIG, s.buf)            -- :243-244
      else
        let s := { s with delta := s.delta + x * y }             -- :246
        let (s, ovf) := inner m cps s                            -- :247-308 (n = m)
        if ovf then (UV_E2BIG, s.buf)
        else outer fuel cps (m + 1) { s with delta := s.delta + 1 }   -- :310-311
    else (0, s.buf)                                              -- :314

/-- `uv__idna_toascii_label` idna.c:152-315 on the label bytes `[s, se)`;
    result = (C return value, destination afterwards) -/
def label (bytes : List Nat) (b : Buf) : Int × Buf :=
  match decodeAll bytes with
  | none => (UV_EINVAL, b)                                       -- :180-181
  | some vs =>
    let cps := vs.map Nat.toUInt32
    let (h, todo) := countLoop cps 0 0
    let b := if todo > 0 then (((b.put 120).put 110).put 45).put 45 else b   -- :190-195 "xn--"
    let b := writeAscii cps 0 h b                                -- :198-212
    if todo = 0 then (h.toNat, b)                                -- :214-215
    else
      let b := if h > 0 then b.put 45 else b                     -- :218-220
      outer (cps.length + 1) cps 128
        { h := h, todo := todo, bias := 72, delta := 0, first := true, buf := b }

/-- the four label separators of idna.c:338-341 -/
def isDot (c : Nat) : Bool := c == 0x2E || c == 0x3002 || c == 0xFF0E || c == 0xFF61

/-- idna.c:331-366.  `acc` = bytes `[s, si)` of the current label, `rest` = `[si, se)`. -/
def scan (acc rest : List Nat) (b : Buf) : Int × Buf :=
  match rest with
  | [] =>
    let r := if acc ≠ [] then label acc b else (0, b)            -- :355-360
    if r.1 < 0 then r
    else if r.2.out.length ≥ r.2.cap then (UV_EINVAL, r.2)       -- :362-363
    else
      let b := { r.2 with out := r.2.out ++ [0] }                -- :365
      (b.out.length, b)                                          -- :366
  | a :: r =>
    match decode1 (a :: r) with
    | (none, _) => (UV_EINVAL, b)                                -- :335-336
    | (some c, n) =>
      if ¬ isDot c then scan (acc ++ (a :: r).take n) (r.drop (n - 1)) b   -- :342 continue
      else
        let res := label acc b                                   -- :344
        if res.1 < 0 then res                                    -- :346-347
        else scan [] (r.drop (n - 1)) (res.2.put 46)             -- :349-352
termination_by rest.length
decreasing_by all_goals (simp only [List.length_drop, List.length_cons]; omega)

/-- `uv__idna_toascii(s, se, d, d + cap)`: (return value, bytes stored in the destination) -/
def toascii (s : List Nat) (cap : Nat) : Int × Buf :=
  if s = [] then (UV_EINVAL, { cap := cap })                     -- :325-326
  else scan [] s { cap := cap }

end UvModel.Puny
