import UvModel.FsBuf
/-!
# C11 (c): life cycle of a `uv_fs_t` request  (src/unix/fs.c, src/unix/linux.c, src/uv-common.c)

Executable model of
* the `INIT` / `PATH` / `PATH2` / `POST` macros                     fs.c:90-155
* the 36 `uv_fs_*` front ends (argument checks, `bufs` copy, `ptr`)   fs.c:1789-2317
* `uv__fs_work` (per-kind action, EINTR loop, result mapping)         fs.c:1692-1761
  with the allocation effects of `uv__fs_read` 552-558, `uv__fs_write_all` 1683-1689,
  `uv__fs_scandir` 574-597, `uv__fs_opendir` 599-617, `uv__fs_readdir` 619-663,
  `uv__fs_closedir` 665-678, `uv__fs_statfs` 680-721, `uv__fs_readlink` 734-791,
  `uv__fs_realpath` 793-829
* `uv__fs_done` 1764-1776, `uv__fs_post` 1779-1786, `uv_cancel` (threadpool.c:282-306)
* `uv__iou_get_sqe` / `uv__iou_fs_statx` / `uv__iou_fs_statx_post` / the completion loop of
  `uv__poll_io_uring`                                                 linux.c:757-809, 1080-1120, 1147-1226
* `uv_fs_req_cleanup` fs.c:2252-2287, `uv__fs_scandir_cleanup` / `uv_fs_scandir_next` /
  `uv__fs_readdir_cleanup`                                            uv-common.c:709-824

The heap is an *allocation ledger*: the number of live blocks per role.  A `free` of a pointer
whose block is not live (double free) or that is not a heap block at all (the caller's path /
buffer array, `&req->statbuf`) is counted in `badFree`.  What the kernel answers is an input
(`List Outcome` as in `FsBuf.workLoop`; the CQE result for io_uring).
-/
namespace UvModel.FsReq
open UvModel.FsBuf

/-- who a live heap block is, seen from the request -/
inductive Role where
  | path       -- `uv__strdup(path)` of PATH, template copy of mkdtemp/mkstemp
  | path2      -- the joint `path` + `new_path` block of PATH2
  | bufs       -- copy of the buffer array when nbufs > ARRAY_SIZE(bufsml)
  | statx      -- `struct uv__statx` of the io_uring stat route
  | res        -- result buffer of readlink / realpath / statfs (`req->ptr`)
  | dents      -- scandir: the `dirent*` array (`req->ptr`)
  | dent       -- scandir: one `struct dirent`
  | name       -- readdir: one `dirents[i].name`
  | dir        -- `uv_dir_t` (belongs to the caller from a successful opendir until closedir)
  | dirstream  -- libc `DIR` behind `dir->dir`
deriving Repr, DecidableEq, Inhabited

def Role.all : List Role := [.path, .path2, .bufs, .statx, .res, .dents, .dent, .name, .dir, .dirstream]

structure Ledger where
  path : Nat
  path2 : Nat
  bufs : Nat
  statx : Nat
  res : Nat
  dents : Nat
  dent : Nat
  name : Nat
  dir : Nat
  dirstream : Nat
  /-- frees of something that is not a live heap block -/
  badFree : Nat
deriving Repr, DecidableEq, Inhabited

def Ledger.empty : Ledger := ⟨0, 0, 0, 0, 0, 0, 0, 0, 0, 0, 0⟩

def Ledger.get (l : Ledger) : Role → Nat
  | .path => l.path | .path2 => l.path2 | .bufs => l.bufs | .statx => l.statx | .res => l.res
  | .dents => l.dents | .dent => l.dent | .name => l.name | .dir => l.dir | .dirstream => l.dirstream

def Ledger.set (l : Ledger) (r : Role) (v : Nat) : Ledger :=
  match r with
  | .path => { l with path := v } | .path2 => { l with path2 := v } | .bufs => { l with bufs := v }
  | .statx => { l with statx := v } | .res => { l with res := v } | .dents => { l with dents := v }
  | .dent => { l with dent := v } | .name => { l with name := v } | .dir => { l with dir := v }
  | .dirstream => { l with dirstream := v }

/-- `k` successful allocations of role `r` -/
def Ledger.alloc (l : Ledger) (r : Role) (k : Nat) : Ledger := l.set r (l.get r + k)

/-- `k` calls of `free` on blocks of role `r`; those beyond what is live are bad frees -/
def Ledger.free (l : Ledger) (r : Role) (k : Nat) : Ledger :=
  if l.get r < k then { l.set r 0 with badFree := l.badFree + (k - l.get r) } else l.set r (l.get r - k)

/-- a `free` of a pointer that is not a heap block -/
def Ledger.bad (l : Ledger) : Ledger := { l with badFree := l.badFree + 1 }

/-- blocks that the request itself is responsible for (everything but the caller's `uv_dir_t`) -/
def Ledger.reqOwned (l : Ledger) : Nat :=
  l.path + l.path2 + l.bufs + l.statx + l.res + l.dents + l.dent + l.name

/-- blocks that belong to the caller: the directory handle between opendir and closedir -/
def Ledger.userOwned (l : Ledger) : Nat := l.dir + l.dirstream

/-- the ledger as a list of live blocks by role (for the line protocol) -/
def Ledger.blocks (l : Ledger) : List Role := Role.all.flatMap fun r => List.replicate (l.get r) r

inductive PathKind where
  | none | one | two | tmpl
deriving Repr, DecidableEq, Inhabited

/-- which of PATH / PATH2 / unconditional `uv__strdup(tpl)` the front end uses (fs.c:1789-2317) -/
def pathKind : Op → PathKind
  | .access | .chmod | .chown | .lchown | .lutime | .lstat | .mkdir | .open | .scandir | .opendir
  | .readlink | .realpath | .rmdir | .stat | .statfs | .unlink | .utime => .one
  | .link | .rename | .symlink | .copyfile => .two
  | .mkdtemp | .mkstemp => .tmpl
  | _ => .none

def pathRole (op : Op) : Role := if pathKind op = .two then .path2 else .path

def isStat (op : Op) : Bool := op == .stat || op == .fstat || op == .lstat

/-- `req->path` -/
inductive PathF where
  | null | user | heap
deriving Repr, DecidableEq, Inhabited

/-- `req->bufs` -/
inductive BufsF where
  | null | sml | user | heap
deriving Repr, DecidableEq, Inhabited

/-- `req->ptr` -/
inductive PtrF where
  | null | statbuf | statx | res | dents | dir
deriving Repr, DecidableEq, Inhabited

inductive Phase where
  | idle        -- before the front end ran
  | rejected    -- the front end returned an error before POST (UV_EINVAL / UV_ENOMEM)
  | queued      -- uv__work_submit done, `uv__fs_work` not started
  | cancelled   -- uv_cancel succeeded; `uv__fs_done(UV_ECANCELED)` pending
  | worked      -- `uv__fs_work` returned on the pool thread; `uv__fs_done(0)` pending
  | uring       -- SQE submitted
  | done        -- sync: the front end returned; async: the callback has run
deriving Repr, DecidableEq, Inhabited

structure Req where
  op : Op
  cb : Bool
  path : PathF
  newPath : Bool          -- `req->new_path != NULL`
  bufs : BufsF
  ptr : PtrF
  result : Int
  nbufs : Nat
deriving Repr, DecidableEq, Inhabited

structure St where
  req : Req
  l : Ledger
  phase : Phase
  /-- this request's contribution to `loop->active_reqs.count` -/
  active : Int
  /-- number of `uv__req_register` calls -/
  regs : Nat
  /-- number of times `req->cb` was invoked -/
  cbs : Nat
  /-- `uv_fs_req_cleanup` has run at least once since the front end -/
  cleaned : Bool
deriving Repr, DecidableEq, Inhabited

/-- arguments of the front-end call as far as the life cycle depends on them -/
structure Args where
  op : Op
  cb : Bool
  /-- `uv__iou_get_sqe` would hand out an SQE and the submitter's own precondition holds
      (`FsBuf.route cfg op = .uring`) -/
  ring : Bool
  nbufs : Nat
  /-- the front end's own argument check passes (read/write: `bufs != NULL && nbufs != 0`; readdir:
      `dir`, `dir->dir`, `dir->dirents` non-NULL; closedir: `dir != NULL`; copyfile: known flags) -/
  argsOk : Bool
  /-- the front end's `uv__strdup` / `uv__malloc` returns NULL -/
  oom : Bool
  pathLen : Nat
  newPathLen : Nat
  /-- answers of the kernel to the attempts of `uv__fs_work` when it runs inside the front end (sync) -/
  outs : List Outcome
deriving Repr, Inhabited

def ARRAY_SIZE_bufsml : Nat := 4

/-- size class of a block as far as the arguments determine it (0 = not determined by them) -/
def blockSize (a : Args) : Role → Nat
  | .path => a.pathLen + 1
  | .path2 => a.pathLen + 1 + a.newPathLen + 1
  | .bufs => a.nbufs * 16
  | _ => 0

def hasArgCheck : Op → Bool
  | .read | .write | .readdir | .closedir | .copyfile => true
  | _ => false

/-- ops whose front end calls a `uv__iou_fs_*` submitter when `cb != NULL` -/
def hasSubmitter : Op → Bool
  | .close | .fsync | .fdatasync | .ftruncate | .link | .mkdir | .symlink | .rename | .unlink | .open
  | .read | .write | .stat | .fstat | .lstat => true
  | _ => false

/-- the state before the front end runs.  A readdir / closedir request is handed the caller's open
    `uv_dir_t` (API contract: obtained from a successful uv_fs_opendir, not closed yet) unless the
    call passes NULL (`argsOk = false`). -/
def init (a : Args) : St :=
  ⟨⟨a.op, false, .null, false, .null, .null, 0, 0⟩,
   if (a.op = .readdir ∨ a.op = .closedir) ∧ a.argsOk = true then { Ledger.empty with dir := 1, dirstream := 1 }
   else Ledger.empty,
   .idle, 0, 0, 0, false⟩

/-! ## uv__fs_work -/

/-- one pass through the `switch` of `uv__fs_work` for the kernel's answer `o`: the allocation
    effects of the per-kind action and the value `r` / `errno` it returns -/
def attempt (q : Req) (l : Ledger) (o : Outcome) : Req × Ledger × Outcome :=
  match q.op with
  | .read =>
    -- fs.c:552-558: `if (req->cb != NULL) if (req->bufs != req->bufsml) uv__free(req->bufs); req->bufs = NULL`
    let l' := if q.cb then
        (match q.bufs with
         | .heap => l.free .bufs 1
         | .user => l.bad
         | _ => l)                                -- bufsml: not freed; NULL: free(NULL)
      else l
    ({ q with bufs := .null, nbufs := 0 }, l', o)
  | .write =>
    -- fs.c:1683-1689: `if (bufs != req->bufsml) uv__free(bufs); req->bufs = NULL`; with `req->bufs == NULL`
    -- already (second pass) nothing is written and 0 is returned
    let l' := match q.bufs with
      | .heap => l.free .bufs 1
      | .user => l.bad
      | _ => l
    ({ q with bufs := .null, nbufs := 0 }, l', if q.bufs = .null then .ok 0 else o)
  | .scandir =>
    -- fs.c:574-597: `req->nbufs = 0`; n == 0: free(dents), dents = NULL; n == -1: return; `req->ptr = dents`
    match o with
    | .ok 0 => ({ q with nbufs := 0, ptr := .null }, l, .ok 0)
    | .ok n => ({ q with nbufs := 0, ptr := .dents }, (l.alloc .dents 1).alloc .dent n, .ok n)
    | .fail e => ({ q with nbufs := 0 }, l, .fail e)
  | .opendir =>
    -- fs.c:599-617: malloc(uv_dir_t), opendir; error: uv__free(dir), `req->ptr = NULL`
    match o with
    | .ok _ => ({ q with ptr := .dir }, (l.alloc .dir 1).alloc .dirstream 1, .ok 0)
    | .fail e => ({ q with ptr := .null }, l, .fail e)
  | .readdir =>
    -- fs.c:619-663: k names strdup'ed; on error every name of this call is freed again
    match o with
    | .ok k => (q, l.alloc .name k, .ok k)
    | .fail e => (q, l, .fail e)
  | .closedir =>
    -- fs.c:665-678: closedir(dir->dir); uv__free(req->ptr); `req->ptr = NULL`; return 0
    let l' := match q.ptr with
      | .dir => (l.free .dirstream 1).free .dir 1
      | .null => l
      | _ => l.bad
    ({ q with ptr := .null }, l', .ok 0)
  | .statfs | .readlink | .realpath =>
    -- fs.c:680-721, 734-791, 793-829: success: `req->ptr = <fresh block>`, return 0; failure: nothing kept
    match o with
    | .ok _ => ({ q with ptr := .res }, l.alloc .res 1, .ok 0)
    | .fail e => (q, l, .fail e)
  | .mkdtemp =>
    match o with
    | .ok _ => (q, l, .ok 0)          -- fs.c:272 `mkdtemp(path) ? 0 : -1`
    | .fail e => (q, l, .fail e)
  | _ => (q, l, o)

/-- fs.c:1751-1760: result mapping and `req->ptr = &req->statbuf` -/
def finishWork (q : Req) (o : Outcome) : Req :=
  match o with
  | .fail e => { q with result := -(e : Int) }
  | .ok n => { q with result := (n : Int), ptr := if n = 0 ∧ isStat q.op then .statbuf else q.ptr }

/-- fs.c:1698-1699 -/
def retryOnEintr (op : Op) : Bool := !(op == .close || op == .read)

/-- `uv__fs_work`: the do/while over the kernel's answers (an exhausted script answers EIO, as in
    `FsBuf.workLoop`) -/
def work (q : Req) (l : Ledger) : List Outcome → Req × Ledger
  | [] =>
    let r := attempt q l (.fail EIO)
    (finishWork r.1 r.2.2, r.2.1)
  | o :: rest =>
    let r := attempt q l o
    match r.2.2 with
    | .fail e =>
      if e = EINTR ∧ retryOnEintr q.op = true then work r.1 r.2.1 rest
      else (finishWork r.1 (.fail e), r.2.1)
    | .ok n => (finishWork r.1 (.ok n), r.2.1)

/-! ## front ends -/

abbrev UV_EINVAL : Int := -22
abbrev UV_ENOMEM : Int := -12
abbrev UV_ECANCELED : Int := -125
abbrev UV_EBUSY : Int := -16
abbrev UV_EOF : Int := -4095
abbrev EOPNOTSUPP_neg : Int := -95

/-- what a step reports to its caller -/
inductive Out where
  | ret (v : Int)       -- return value of the API call
  | cb                  -- the request's callback was invoked
  | none                -- internal step without a visible result
  | illegal             -- the event is not enabled in this phase (not a behaviour of the code)
deriving Repr, DecidableEq, Inhabited

/-- INIT (fs.c:90-104) -/
def initReq (a : Args) : Req := ⟨a.op, a.cb, .null, false, .null, .null, 0, 0⟩

/-- PATH / PATH2 / template copy.  `none` = the macro returned UV_ENOMEM -/
def copyPaths (a : Args) (q : Req) (l : Ledger) : Option (Req × Ledger) :=
  match pathKind a.op with
  | .none => some (q, l)
  | .one =>
    if !a.cb then some ({ q with path := .user }, l)
    else if a.oom then none else some ({ q with path := .heap }, l.alloc .path 1)
  | .two =>
    if !a.cb then some ({ q with path := .user, newPath := true }, l)
    else if a.oom then none else some ({ q with path := .heap, newPath := true }, l.alloc .path2 1)
  | .tmpl =>
    if a.oom then none else some ({ q with path := .heap }, l.alloc .path 1)

/-- the `bufs` handling of uv_fs_read (fs.c:2040-2055) and uv_fs_write (fs.c:2230-2240) and the
    `req->ptr = dir` of readdir / closedir.  `none` = UV_ENOMEM -/
def copyBufs (a : Args) (q : Req) (l : Ledger) : Option (Req × Ledger) :=
  match a.op with
  | .read =>
    if !a.cb then some ({ q with bufs := .user, nbufs := a.nbufs }, l)
    else if a.nbufs > ARRAY_SIZE_bufsml then
      (if a.oom then none else some ({ q with bufs := .heap, nbufs := a.nbufs }, l.alloc .bufs 1))
    else some ({ q with bufs := .sml, nbufs := a.nbufs }, l)
  | .write =>
    if a.nbufs > ARRAY_SIZE_bufsml then
      (if a.oom then none else some ({ q with bufs := .heap, nbufs := a.nbufs }, l.alloc .bufs 1))
    else some ({ q with bufs := .sml, nbufs := a.nbufs }, l)
  | .readdir | .closedir => some ({ q with ptr := .dir }, l)
  | _ => some (q, l)

/-- the `uv_fs_<op>(loop, req, …, cb)` call -/
def submit (a : Args) (s : St) : St × Out :=
  let q0 := initReq a
  let s0 : St := { s with req := q0 }
  if hasArgCheck a.op && !a.argsOk then
    ({ s0 with phase := .rejected }, .ret UV_EINVAL)
  else match copyPaths a q0 s.l with
  | none => ({ s0 with phase := .rejected }, .ret UV_ENOMEM)
  | some (q1, l1) =>
    match copyBufs a q1 l1 with
    | none => ({ s0 with req := q1, l := l1, phase := .rejected }, .ret UV_ENOMEM)
    | some (q2, l2) =>
      if a.cb && hasSubmitter a.op && a.ring then
        -- uv__iou_fs_*: SQE taken (linux.c:797-806: register), stat kinds carry a statx buffer in req->ptr
        let (q3, l3) := if isStat a.op then ({ q2 with ptr := .statx }, l2.alloc .statx 1) else (q2, l2)
        ({ s0 with req := q3, l := l3, phase := .uring, active := s.active + 1, regs := s.regs + 1 }, .ret 0)
      else if a.cb then
        -- POST, cb != NULL: uv__req_register + uv__work_submit
        ({ s0 with req := q2, l := l2, phase := .queued, active := s.active + 1, regs := s.regs + 1 }, .ret 0)
      else
        -- POST, cb == NULL: uv__fs_work inline, return req->result
        let r := work q2 l2 a.outs
        ({ s0 with req := r.1, l := r.2, phase := .done }, .ret r.1.result)

/-! ## completion -/

/-- `uv__fs_done` (fs.c:1764-1776) -/
def fsDone (s : St) (cancelled : Bool) : St × Out :=
  let q := if cancelled then { s.req with result := UV_ECANCELED } else s.req
  ({ s with req := q, phase := .done, active := s.active - 1, cbs := s.cbs + 1 }, .cb)

/-- one CQE for this request in `uv__poll_io_uring` (linux.c:1184-1226) -/
def cqe (s : St) (res : Int) : St × Out :=
  let s1 := { s with active := s.active - 1 }                      -- uv__req_unregister
  if res = EOPNOTSUPP_neg then
    -- stat kinds: uv__free(req->ptr); req->ptr = NULL; then uv__fs_post: register + work_submit
    let (q, l) := if isStat s.req.op then
        ({ s.req with ptr := .null },
         match s.req.ptr with
         | .statx => s.l.free .statx 1
         | .null => s.l
         | _ => s.l.bad)
      else (s.req, s.l)
    ({ s1 with req := q, l := l, phase := .queued, active := s1.active + 1, regs := s.regs + 1 }, .none)
  else
    let q := { s.req with result := res }
    -- uv__iou_fs_statx_post: statxbuf = req->ptr; req->ptr = NULL; result == 0: ptr = &statbuf; uv__free(statxbuf)
    let (q, l) := if isStat q.op then
        ({ q with ptr := if res = 0 then .statbuf else .null },
         match s.req.ptr with
         | .statx => s.l.free .statx 1
         | .null => s.l
         | _ => s.l.bad)
      else (q, s.l)
    ({ s1 with req := q, l := l, phase := .done, cbs := s.cbs + 1 }, .cb)

/-! ## after completion -/

/-- `uv_fs_scandir_next` (uv-common.c:733-768) -/
def scandirNext (s : St) : St × Out :=
  let q := s.req
  if q.result < 0 then (s, .ret q.result)
  else if q.ptr = .null then (s, .ret UV_EOF)
  else
    let l1 := if q.nbufs > 0 then s.l.free .dent 1 else s.l          -- free previous entity
    if (q.nbufs : Int) = q.result then
      ({ s with req := { q with ptr := .null }, l := (match q.ptr with | .dents => l1.free .dents 1 | _ => l1.bad) },
       .ret UV_EOF)
    else ({ s with req := { q with nbufs := q.nbufs + 1 }, l := l1 }, .ret 0)

/-- `free(p)` for a `req->path` value -/
def freePath (l : Ledger) (op : Op) : PathF → Ledger
  | .null => l
  | .user => l.bad
  | .heap => l.free (pathRole op) 1

/-- `uv_fs_req_cleanup` (fs.c:2252-2287) -/
def cleanup (s : St) : St :=
  let q := s.req
  -- 2261-2267
  let l1 := if q.path ≠ .null ∧ (q.cb = true ∨ q.op = .mkdtemp ∨ q.op = .mkstemp) then freePath s.l q.op q.path else s.l
  let q1 := { q with path := .null, newPath := false }
  -- 2269-2270 uv__fs_readdir_cleanup: ptr = NULL; names [0, result) freed
  let (q2, l2) := if q1.op = .readdir ∧ q1.ptr ≠ .null then
      ({ q1 with ptr := .null }, l1.free .name q1.result.toNat)
    else (q1, l1)
  -- 2272-2273 uv__fs_scandir_cleanup: result >= 0: entries from max(nbufs-1, 0) on; then the array; ptr = NULL
  let (q3, l3) := if q2.op = .scandir ∧ q2.ptr ≠ .null then
      let la := if q2.result ≥ 0 then l2.free .dent (q2.result.toNat - (q2.nbufs - 1)) else l2
      ({ q2 with ptr := .null }, match q2.ptr with | .dents => la.free .dents 1 | _ => la.bad)
    else (q2, l2)
  -- 2275-2277
  let l4 := match q3.bufs with
    | .heap => l3.free .bufs 1
    | .user => l3.bad
    | _ => l3
  let q4 := { q3 with bufs := .null }
  -- 2282-2286
  let l5 := if q4.op ≠ .opendir ∧ q4.op ≠ .closedir ∧ q4.ptr ≠ .statbuf then
      (match q4.ptr with
       | .null => l4
       | .statx => l4.free .statx 1
       | .res => l4.free .res 1
       | .dents => l4.free .dents 1
       | .dir => l4.free .dir 1
       | .statbuf => l4)
    else l4
  { s with req := { q4 with ptr := .null }, l := l5, cleaned := true }

/-! ## the state machine -/

inductive Ev where
  | submit                     -- uv_fs_<op>(loop, req, …) with the arguments `a`
  | cancel                     -- uv_cancel(req)
  | work (outs : List Outcome) -- a pool thread runs uv__fs_work
  | done                       -- uv__work_done on the loop thread runs uv__fs_done
  | cqe (res : Int)            -- uv__poll_io_uring finds this request's completion
  | next                       -- uv_fs_scandir_next
  | cleanup                    -- uv_fs_req_cleanup
deriving Repr, Inhabited

/-- One request, one life cycle.  Events are enabled by phase: the front end runs first, the pool
    runs `work` once per queued request and `done` once after it (C08), one CQE per SQE, the
    user-side calls (`next`, `cleanup`) come after completion (API contract); anything else is
    reported as `illegal` and leaves the state alone. -/
def step (a : Args) (s : St) : Ev → St × Out
  | .submit => if s.phase = .idle then submit a s else (s, .illegal)
  | .cancel =>
    match s.phase with
    | .queued => ({ s with phase := .cancelled }, .ret 0)       -- threadpool.c:289-305
    | .worked | .uring => (s, .ret UV_EBUSY)                    -- `w->work == NULL` / queue empty
    | _ => (s, .illegal)
  | .work outs =>
    if s.phase = .queued then
      let r := work s.req s.l outs
      ({ s with req := r.1, l := r.2, phase := .worked }, .none)
    else (s, .illegal)
  | .done =>
    match s.phase with
    | .worked => fsDone s false
    | .cancelled => fsDone s true
    | _ => (s, .illegal)
  | .cqe res => if s.phase = .uring then cqe s res else (s, .illegal)
  | .next => if s.phase = .done ∧ s.req.op = .scandir then scandirNext s else (s, .illegal)
  | .cleanup => if s.phase = .done ∨ s.phase = .rejected then (cleanup s, .none) else (s, .illegal)

def runFrom (a : Args) (s : St) : List Ev → St
  | [] => s
  | e :: es => runFrom a (step a s e).1 es

/-- the state after the events `evs` of the life cycle of a request submitted with `a` -/
def run (a : Args) (evs : List Ev) : St := runFrom a (init a) evs

end UvModel.FsReq
