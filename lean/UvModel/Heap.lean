/-
  Model of src/heap-inl.h as used by src/timer.c.

  The C heap is a pointer-linked complete binary tree.  `heap_insert` puts the
  new node at the left-most free slot of the bottom row (path computed from
  `nelts+1`), `heap_remove` detaches the right-most node of the bottom row
  (path computed from `nelts`) and moves it into the removed node's position.
  `heap_node_swap` exchanges a parent and a child *position*.  A complete
  binary tree is determined by its breadth-first listing, so the model is the
  BFS array; node at index i has children 2i+1, 2i+2 and parent (i-1)/2.
  The unit harness (harness/c04_heap.c) dumps the real pointer tree in BFS
  order after every operation (checking parent/child pointer coherence) and the
  check compares it to this model's array element for element.

  Elements are the timer keys `(timeout, start_id)` plus the handle id.
  `lt` is `timer_less_than` (src/timer.c:38-56).
-/
namespace UvModel.Heap

structure Ent where
  timeout : Nat
  startId : Nat
  id      : Nat
deriving DecidableEq, Repr, Inhabited

/-- `timer_less_than`: strict lexicographic order on (timeout, start_id). -/
def lt (a b : Ent) : Bool :=
  if a.timeout < b.timeout then true
  else if b.timeout < a.timeout then false
  else a.startId < b.startId

abbrev H := Array Ent

/-- total getter (index always in range on live paths; see `*_inv` theorems). -/
def g (a : H) (i : Nat) : Ent := a.getD i default

def swap (a : H) (i j : Nat) : H :=
  if h : i < a.size ∧ j < a.size then a.swap i j h.1 h.2 else a

@[simp] theorem swap_size (a : H) (i j : Nat) : (swap a i j).size = a.size := by
  unfold swap; split <;> simp

/-- the final `while (node->parent && less_than(node, node->parent)) swap` loop -/
def siftUp (a : H) (i : Nat) : H :=
  if h : i = 0 then a
  else
    let p := (i - 1) / 2
    if lt (g a i) (g a p) then siftUp (swap a i p) p else a
termination_by i
decreasing_by omega

/-- index of the smallest among node `i` and its children, chosen exactly as the C
    does: left child against the node, then right child against the current smallest -/
def smallest (a : H) (i : Nat) : Nat :=
  let l := 2 * i + 1
  let r := 2 * i + 2
  let s := if l < a.size ∧ lt (g a l) (g a i) then l else i
  if r < a.size ∧ lt (g a r) (g a s) then r else s

theorem smallest_cases (a : H) (i : Nat) :
    smallest a i = i ∨ (smallest a i = 2 * i + 1 ∧ 2 * i + 1 < a.size)
      ∨ (smallest a i = 2 * i + 2 ∧ 2 * i + 2 < a.size) := by
  unfold smallest
  simp only []
  by_cases h1 : 2 * i + 1 < a.size ∧ lt (g a (2 * i + 1)) (g a i) = true
  · by_cases h2 : 2 * i + 2 < a.size ∧ lt (g a (2 * i + 2)) (g a (2 * i + 1)) = true
    · simp [h1, h2]
    · simp [h1, h2]
  · by_cases h2 : 2 * i + 2 < a.size ∧ lt (g a (2 * i + 2)) (g a i) = true
    · simp [h1, h2]
    · simp [h1, h2]

/-- the `for (;;)` walk-down loop of heap_remove; returns the final position -/
def siftDown (a : H) (i : Nat) : H × Nat :=
  if _h : smallest a i = i then (a, i)
  else siftDown (swap a i (smallest a i)) (smallest a i)
termination_by a.size - i
decreasing_by
  simp only [swap_size]
  have := smallest_cases a i
  omega

/-- `heap_insert` -/
def insert (a : H) (x : Ent) : H := siftUp (a.push x) a.size

/-- `heap_remove` of the node at BFS index `i` -/
def remove (a : H) (i : Nat) : H :=
  if a.size = 0 then a
  else if i ≥ a.size then a
  else
    let last := a.size - 1
    if i = last then a.pop
    else
      let a1 := (a.setIfInBounds i (g a last)).pop
      let (a2, j) := siftDown a1 i
      siftUp a2 j

/-- `heap_min` -/
def min? (a : H) : Option Ent := a[0]?

/-- position of the handle with the given id (the C code holds a pointer) -/
def indexOf? (a : H) (id : Nat) : Option Nat := a.findIdx? (fun e => e.id = id)

/-- heap order: no child is less than its parent -/
def Inv (a : H) : Prop := ∀ i, 0 < i → i < a.size → lt (g a i) (g a ((i - 1) / 2)) = false

end UvModel.Heap
