/-!
# C12 — child processes: descriptor re-mapping in the forked child, and SIGCHLD reaping

Model of `/repo/src/unix/process.c` (line numbers as of commit fb7448d):
* `uv__process_child_init` (291-438): error-pipe move (324-339), first pass (345-361),
  second pass (363-401) on a kernel descriptor table with lowest-free-fd semantics.
* `uv__wait_children` (101-177): WNOHANG poll of every tracked child, pending list, exit_cb.
* the status decode macros `WIFEXITED/WEXITSTATUS/WIFSIGNALED/WTERMSIG` (glibc bits/waitstatus.h).
* `uv__spawn_and_init_child` + `uv_spawn` error exits (881-984, 987-1114) at decision level.

Kernel outcomes that are *inputs*: which fds are open initially, waitpid results.
Not modelled: EMFILE / ENFILE failures of `fcntl`/`open` (the table is unbounded), file status
flags (`uv__nonblock_fcntl`), signal dispositions, setsid, cwd, uid/gid, environ, exec itself.
-/
namespace UvModel.ProcFd

/-- what an fd refers to: an open file description of the parent (`desc id`), or a fresh open of
`/dev/null` (`rdwr = false`: O_RDONLY, as for slot 0; `true`: O_RDWR) -/
inductive File where
  | desc (id : Nat)
  | devNull (rdwr : Bool)
  deriving DecidableEq, Repr

structure Ent where
  file : File
  cloexec : Bool
  deriving DecidableEq, Repr

/-- descriptor table: `get fd = none` ⇔ closed.  `bound`: every fd ≥ bound is closed (`WF`);
it only serves to make the lowest-free search computable. -/
structure Tab where
  get : Nat → Option Ent
  bound : Nat

def Tab.WF (t : Tab) : Prop := ∀ fd, t.bound ≤ fd → t.get fd = none

def Tab.set (t : Tab) (fd : Nat) (e : Option Ent) : Tab :=
  ⟨fun k => if k = fd then e else t.get k, max t.bound (fd + 1)⟩

def Tab.empty : Tab := ⟨fun _ => none, 0⟩

/-- first closed fd in `[n, n+fuel)`, else `n+fuel` -/
def lowestFreeAux (g : Nat → Option Ent) (n : Nat) : Nat → Nat
  | 0 => n
  | fuel + 1 => if (g n).isNone then n else lowestFreeAux g (n + 1) fuel

/-- the kernel's choice for `open`, `F_DUPFD(_CLOEXEC) ≥ n`: the lowest closed fd ≥ n -/
def Tab.lowestFree (t : Tab) (n : Nat) : Nat := lowestFreeAux t.get n (t.bound - n)

/-- `fcntl(fd, F_DUPFD[_CLOEXEC], n)`; `none` = EBADF -/
def dupfd (t : Tab) (fd n : Nat) (cx : Bool) : Tab × Option Nat :=
  match t.get fd with
  | none => (t, none)
  | some e => (t.set (t.lowestFree n) (some ⟨e.file, cx⟩), some (t.lowestFree n))

/-- `dup2(old, new)`: the new fd is never close-on-exec; `old = new` is a no-op; `none` = EBADF -/
def dup2 (t : Tab) (old new : Nat) : Tab × Option Nat :=
  match t.get old with
  | none => (t, none)
  | some e => if old = new then (t, some new) else (t.set new (some ⟨e.file, false⟩), some new)

/-- `open("/dev/null", O_RDONLY | O_RDWR)` (no O_CLOEXEC, process.c:374) -/
def openNull (t : Tab) (rdwr : Bool) : Tab × Nat :=
  (t.set (t.lowestFree 0) (some ⟨.devNull rdwr, false⟩), t.lowestFree 0)

def close (t : Tab) (fd : Nat) : Tab := t.set fd none

/-- `uv__cloexec(fd, set)`; `false` = EBADF -/
def setCloexec (t : Tab) (fd : Nat) (b : Bool) : Tab × Bool :=
  match t.get fd with
  | none => (t, false)
  | some e => (t.set fd (some ⟨e.file, b⟩), true)

/-- process.c:324-339: the error pipe is moved above the stdio range.  `none` = failure
(reported on the *old* error fd). -/
def moveErr (t : Tab) (cnt efd : Nat) : Tab × Option Nat :=
  if efd < cnt then dupfd t efd cnt true else (t, some efd)

/-- process.c:345-361: sources numbered below their slot are duplicated to a close-on-exec
temporary ≥ stdio_count; `pipes[fd][1]` is updated in place (the returned list). `none` = failure. -/
def pass1 (cnt : Nat) (t : Tab) : Nat → List Int → Tab × Option (List Int)
  | _, [] => (t, some [])
  | fd, u :: rest =>
    if u < 0 ∨ u ≥ fd then
      match pass1 cnt t (fd + 1) rest with
      | (t', some r) => (t', some (u :: r))
      | (t', none) => (t', none)
    else
      match dupfd t u.toNat cnt true with
      | (t1, none) => (t1, none)
      | (t1, some n) =>
        match pass1 cnt t1 (fd + 1) rest with
        | (t', some r) => (t', some ((n : Int) :: r))
        | (t', none) => (t', none)

/-- one iteration of the second loop, process.c:363-401.  `false` = failure. -/
def step2 (cnt : Nat) (t : Tab) (fd : Nat) (u : Int) : Tab × Bool :=
  if u < 0 then
    if fd ≥ 3 then (t, true)                       -- 368-369 continue
    else
      let t1 := close t fd                          -- 373
      let o := openNull t1 (fd != 0)                -- 374; close_fd = use_fd = o.2
      let d := if fd = o.2 then (o.1, some fd) else dup2 o.1 o.2 fd   -- 382-391
      match d.2 with
      | none => (d.1, false)                        -- 393-394
      | some _ => if o.2 ≥ cnt then (close d.1 o.2, true) else (d.1, true)  -- 399-400
  else
    if fd = u.toNat then setCloexec t u.toNat false -- 382-388 (close_fd = -1)
    else
      match dup2 t u.toNat fd with                  -- 390
      | (t1, none) => (t1, false)
      | (t1, some _) => (t1, true)

def pass2 (cnt : Nat) (t : Tab) : Nat → List Int → Tab × Bool
  | _, [] => (t, true)
  | fd, u :: rest =>
    match step2 cnt t fd u with
    | (t1, false) => (t1, false)
    | (t1, true) => pass2 cnt t1 (fd + 1) rest

/-- outcome of the descriptor part of `uv__process_child_init`: the table and the number the
error pipe has at that moment; `ok` = reached `execvp`, `fail` = `uv__write_errno(error_fd)`. -/
inductive Res where
  | ok (t : Tab) (efd : Nat)
  | fail (t : Tab) (efd : Nat)

def Res.tab : Res → Tab
  | .ok t _ => t
  | .fail t _ => t
def Res.efd : Res → Nat
  | .ok _ e => e
  | .fail _ e => e
def Res.isOk : Res → Bool
  | .ok _ _ => true
  | .fail _ _ => false

/-- `pipes` = the `pipes[i][1]` column (child side; < 0 = ignored slot); `stdio_count = pipes.length` -/
def childInit (t : Tab) (pipes : List Int) (efd : Nat) : Res :=
  match moveErr t pipes.length efd with
  | (t1, none) => .fail t1 efd
  | (t1, some e1) =>
    match pass1 pipes.length t1 0 pipes with
    | (t2, none) => .fail t2 e1
    | (t2, some p') =>
      match pass2 pipes.length t2 0 p' with
      | (t3, false) => .fail t3 e1
      | (t3, true) => .ok t3 e1

/-- a successful `execve`: every close-on-exec descriptor is closed -/
def execClose (t : Tab) : Tab :=
  ⟨fun fd => match t.get fd with
    | some e => if e.cloexec then none else some e
    | none => none, t.bound⟩

/-- the table the exec'd program must see, as the stdio containers describe it: slot `i` = the file
source `i` referred to in the table at fork, inheritable; ignored slots 0-2 = `/dev/null`
(read-only for 0); everything else closed -/
def expected (t0 : Tab) (pipes : List Int) (i : Nat) : Option Ent :=
  match pipes[i]? with
  | none => none
  | some u =>
    if 0 ≤ u then (t0.get u.toNat).map fun e => ⟨e.file, false⟩
    else if i < 3 then some ⟨.devNull (i != 0), false⟩ else none

/-! ## wait status decode (glibc `bits/waitstatus.h`) and `uv__wait_children` -/

def wTermSig (w : Nat) : Nat := w &&& 0x7f
def wExitStatus (w : Nat) : Nat := (w &&& 0xff00) >>> 8
def wIfExited (w : Nat) : Bool := wTermSig w == 0
/-- `((signed char) ((w & 0x7f) + 1) >> 1) > 0` -/
def wIfSignaled (w : Nat) : Bool :=
  let x := (w &&& 0x7f) + 1
  let sc : Int := if x ≥ 128 then (x : Int) - 256 else x
  decide (sc >>> 1 > 0)

/-- process.c:166-172 -/
def decode (w : Nat) : Nat × Nat :=
  (if wIfExited w then wExitStatus w else 0, if wIfSignaled w then wTermSig w else 0)

/-- result of `waitpid(pid, &status, WNOHANG)` for one tracked child -/
inductive WaitRes where
  | running            -- 0
  | reaped (status : Nat)
  | echild             -- -1/ECHILD: "someone else stole the waitpid"
  deriving DecidableEq, Repr

structure ExitEv where
  id : Nat
  exitStatus : Nat
  termSignal : Nat
  deriving DecidableEq, Repr

/-- first loop of `uv__wait_children` (116-151): returns (still tracked, pending with status) -/
def pollAll (res : Nat → WaitRes) : List Nat → List Nat × List (Nat × Nat)
  | [] => ([], [])
  | c :: rest =>
    let r := pollAll res rest
    match res c with
    | .running => (c :: r.1, r.2)
    | .echild => (c :: r.1, r.2)
    | .reaped st => (r.1, (c, st) :: r.2)

/-- second loop (153-175) for handles that have an exit_cb -/
def report (pending : List (Nat × Nat)) : List ExitEv :=
  pending.map fun x => ⟨x.1, (decode x.2).1, (decode x.2).2⟩

def waitChildren (res : Nat → WaitRes) (tracked : List Nat) : List Nat × List ExitEv :=
  let p := pollAll res tracked
  (p.1, report p.2)

/-! ## parent side of `uv_spawn`: the `pipes[]` table handed to the child -/

/-- a stdio container, reduced to what decides the child-side column `pipes[i][1]` -/
inductive Stdio where
  | ignore
  | inheritFd (fd : Int)      -- UV_INHERIT_FD / UV_INHERIT_STREAM
  | createPipe                -- UV_CREATE_PIPE: the child end is a fresh socketpair end (kernel input)
  deriving DecidableEq, Repr

/-- entry of the child-side column: a descriptor number, or "the child end of slot's own socketpair" -/
inductive Slot where
  | fd (n : Int)
  | pipeEnd
  deriving DecidableEq, Repr

/-- first loop of uv_spawn: every one of the `stdio_count` entries is set to -1, whether the table is
the 8-slot inline array or heap memory -/
def initTable (stdioCount : Nat) : List Slot := List.replicate stdioCount (.fd (-1))

/-- second loop: `uv__process_init_stdio` overwrites entry i for each container (UV_IGNORE leaves it) -/
def fillTable : List Stdio → List Slot → List Slot
  | [], tbl => tbl
  | _, [] => []
  | .ignore :: cs, t :: tbl => t :: fillTable cs tbl
  | .inheritFd fd :: cs, _ :: tbl => .fd fd :: fillTable cs tbl
  | .createPipe :: cs, _ :: tbl => .pipeEnd :: fillTable cs tbl

/-- `stdio_count = max(options->stdio_count, 3)`; the table uv_spawn passes to the child -/
def parentTable (stdio : List Stdio) : List Slot :=
  fillTable stdio (initTable (max stdio.length 3))

/-! ## parent side of `uv_spawn` after `fork` (decision level) -/

/-- what the parent's `read(signal_pipe[0])` returns, process.c:958-979 -/
inductive PipeRead where
  | forkFailed (e : Nat) -- `fork()` returned -1/errno e: no child, nothing to read (uv__spawn_and_init_child_fork)
  | eof                 -- the child reached exec: the close-on-exec write end was closed
  | errno (e : Nat)     -- the child wrote `-e` and `_exit(127)`ed
  | epipe
  deriving DecidableEq, Repr

structure SpawnOut where
  ret : Int             -- return value of `uv_spawn`
  reapedSync : Bool     -- blocking `waitpid(pid, &status, 0)` done inside uv_spawn (966 / 973)
  activated : Bool      -- handle queued in `process_handles` and started (1057-1078)
  deriving DecidableEq, Repr

def spawnParent : PipeRead → SpawnOut
  | .forkFailed e => ⟨-(e : Int), false, decide (-(e : Int) = 0)⟩
  | .eof => ⟨0, false, true⟩
  | .errno e => ⟨-(e : Int), true, decide (-(e : Int) = 0)⟩
  | .epipe => ⟨-32, true, false⟩

/-! ## a tiny kernel + loop, to state `exit_once` over whole histories -/

inductive KState where
  | running
  | zombie (status : Nat)
  | gone
  deriving DecidableEq, Repr

inductive Log where
  | waited (id : Nat) (status : Nat)      -- waitpid returned this child
  | cb (e : ExitEv)
  deriving DecidableEq, Repr

structure PS where
  kern : Nat → KState := fun _ => .gone   -- children that never existed are `gone` (ECHILD)
  nspawned : Nat := 0
  tracked : List Nat := []
  log : List Log := []                     -- newest last
  exits : List (Nat × Nat) := []           -- ghost: what really happened, (child, status word)
  okIds : List Nat := []                   -- ghost: children whose spawn succeeded

inductive Op where
  | spawnOk                    -- fork+exec succeeded: child `nspawned`, handle activated (1057-1078)
  | spawnFail                  -- exec failed: child reaped synchronously (964-969), not activated
  | childExit (id status : Nat) -- kernel: a running child terminates with this status word
  | sigchld                    -- the loop runs `uv__chld`
  | closeHandle (id : Nat)     -- `uv_close` on the process handle (`uv__process_close`)

def kernWait (s : PS) (id : Nat) : WaitRes :=
  match s.kern id with
  | .running => .running
  | .zombie st => .reaped st
  | .gone => .echild

def stepP (s : PS) : Op → PS
  | .spawnOk =>
    { s with kern := fun i => if i = s.nspawned then .running else s.kern i,
             nspawned := s.nspawned + 1, tracked := s.tracked ++ [s.nspawned],
             okIds := s.okIds ++ [s.nspawned] }
  | .spawnFail =>
    -- the child wrote errno and `_exit(127)`ed; the parent's blocking waitpid (966) reaped it
    { s with nspawned := s.nspawned + 1 }
  | .childExit id st =>
    if s.kern id = .running then
      { s with kern := fun i => if i = id then .zombie st else s.kern i, exits := s.exits ++ [(id, st)] }
    else s
  | .sigchld =>
    let p := pollAll (kernWait s) s.tracked
    { s with kern := fun i => if p.2.any (·.1 == i) then .gone else s.kern i,
             tracked := p.1,
             log := s.log ++ p.2.map (fun x => .waited x.1 x.2) ++ (report p.2).map .cb }
  | .closeHandle id => { s with tracked := s.tracked.filter (· ≠ id) }

def runP (s : PS) (ops : List Op) : PS := ops.foldl stepP s

def Log.isCb (id : Nat) : Log → Bool
  | .cb e => e.id == id
  | _ => false
def Log.isWaited (id : Nat) : Log → Bool
  | .waited c _ => c == id
  | _ => false
/-- number of exit_cb calls for child `id` -/
def cbCount (l : List Log) (id : Nat) : Nat := (l.filter (Log.isCb id)).length
/-- number of times waitpid returned child `id` -/
def waitCount (l : List Log) (id : Nat) : Nat := (l.filter (Log.isWaited id)).length

end UvModel.ProcFd
