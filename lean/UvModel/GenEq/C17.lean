import UvModel.Generated.Kernels
import UvModel.FsPoll
import UvModel.FsEvent
/-!
  Tie A obligations for C17 (src/fs-poll.c): the change test `statbuf_eq`, the re-arm delay computed
  at the end of `poll_cb` and the `start_time` update of `timer_cb`, as generated from the current C
  text, equal what the model (`FsPoll.statbufEq`, `FsPoll.finishPoll`, `FsPoll.timerFire`) computes;
  and (src/unix/linux.c) the classification of one inotify record into UV_CHANGE / UV_RENAME and the
  mask `uv_fs_event_start` registers equal `FsEvent.eventsOf` / `FsEvent.WATCH_MASK`; the order of the
  watcher tree `compare_watchers` equals `FsEvent.cmpWd`, a strict total order.
-/
namespace UvModel.GenEq
open UvModel UvModel.Generated UvModel.FsPoll

/-- `statbuf_eq` (fs-poll.c:270-285) = `FsPoll.statbufEq`: the fourteen fields, each compared for
    equality, all must agree -/
theorem statbuf_eq_eq (a b : Stat) :
    (statbuf_eq a.btimNs a.btimS a.ctimNs a.ctimS a.dev a.flags a.gen a.gid a.ino a.mode a.mtimNs a.mtimS a.size a.uid
                b.btimNs b.btimS b.ctimNs b.ctimS b.dev b.flags b.gen b.gid b.ino b.mode b.mtimNs b.mtimS b.size b.uid).map (·.ret)
      = some (CSem.b2i (statbufEq a b)) := by
  unfold statbuf_eq statbufEq
  simp only [Option.map_some, Option.some.injEq]
  congr 1
  rw [Bool.eq_iff_iff]
  simp only [Bool.and_eq_true, decide_eq_true_eq, beq_iff_eq, Int.natCast_inj]

/-- the re-arm delay of `poll_cb` (fs-poll.c:238-239): `interval - (now - start_time) % interval`
    on `uint64_t`, for the values the code can hold (`interval ≥ 1` by fs-poll.c:88, `start_time` a
    past reading of the loop clock) -/
theorem fs_poll_rearm_eq (iv now st : Nat) (hiv : 0 < iv) (hiv2 : iv < 2 ^ 64) (hnow : now < 2 ^ 64)
    (hst : st ≤ now) :
    (fs_poll_rearm now iv st).map (·.interval) = some (((iv - (now - st) % iv : Nat)) : Int) := by
  unfold fs_poll_rearm CSem.u64
  simp only [Option.map_some, Option.some.injEq]
  have h1 : (iv : Int) % 18446744073709551616 = iv := by omega
  have h2 : ((now : Int) - st) % 18446744073709551616 = ((now - st : Nat) : Int) := by omega
  have h3 : ((now - st : Nat) : Int) % (iv : Int) = (((now - st) % iv : Nat) : Int) := by norm_cast
  rw [h1, h2, h3]
  have hr : (now - st) % iv < iv := Nat.mod_lt _ hiv
  generalize (now - st) % iv = r at hr
  omega

/-- … and that is the delay `FsPoll.finishPoll` arms the timer with when the context is still live -/
theorem finishPoll_arm_generated (s : S) (c : Nat) (hl : liveB s c = true)
    (hiv : 0 < (s.ctxs c).interval) (hiv2 : (s.ctxs c).interval < 2 ^ 64) (hnow : s.now < 2 ^ 64)
    (hst : (s.ctxs c).startTime ≤ s.now) :
    ∃ o, fs_poll_rearm s.now (s.ctxs c).interval (s.ctxs c).startTime = some o ∧
      (finishPoll s c).trace.head? = some (.arm c o.interval.toNat) := by
  have h := fs_poll_rearm_eq (s.ctxs c).interval s.now (s.ctxs c).startTime hiv hiv2 hnow hst
  cases hk : fs_poll_rearm s.now (s.ctxs c).interval (s.ctxs c).startTime with
  | none => rw [hk] at h; simp at h
  | some o =>
    rw [hk] at h
    simp only [Option.map_some, Option.some.injEq] at h
    refine ⟨o, rfl, ?_⟩
    unfold finishPoll
    simp only [hl, Bool.not_true, Bool.false_eq_true, if_false, S.emit, S.setCtx, List.head?_cons, h,
      Int.toNat_natCast]

/-- `timer_cb` (fs-poll.c:178-188): `ctx->start_time = uv_now(loop)`; a failing `uv_fs_stat` aborts.
    `FsPoll.timerFire` stores the same clock reading. -/
theorem fs_poll_timer_cb_eq (s : S) (c : Nat) (ctxp timerp : Int)
    (hg : (decide (c < s.nctx) && (s.ctxs c).timerActive && decide ((s.ctxs c).due ≤ s.now)) = true) :
    (fs_poll_timer_cb 0 s.now ctxp timerp).map (·.ctx_start_time)
      = some ((((timerFire s c).ctxs c).startTime : Nat) : Int) ∧
    ∀ e, e ≠ 0 → fs_poll_timer_cb e s.now ctxp timerp = none := by
  constructor
  · have h0 : ((0 : Int) != 0) = false := by decide
    unfold fs_poll_timer_cb timerFire
    simp only [hg, h0, Bool.not_true, Bool.false_eq_true, if_false, S.emit, S.setCtx]
    split <;> simp [upd]
  · intro e he
    unfold fs_poll_timer_cb
    simp [he]

/-- `CSem.land` on two naturals below 2^64 is `&&&` -/
theorem land_nat (m k : Nat) (hm : m < 2 ^ 64) (hk : k < 2 ^ 64) : CSem.land m k = ((m &&& k : Nat) : Int) := by
  unfold CSem.land CSem.u64
  have h1 : ((m : Int) % 18446744073709551616).toNat = m := by omega
  have h2 : ((k : Int) % 18446744073709551616).toNat = k := by omega
  rw [h1, h2]
  rfl

/-- one inotify record (linux.c:2604-2608): `events = 0; if (mask & (IN_ATTRIB|IN_MODIFY)) events |=
    UV_CHANGE; if (mask & ~(IN_ATTRIB|IN_MODIFY)) events |= UV_RENAME` = `FsEvent.eventsOf` for a
    `uint32_t` mask.  The translator keeps each flag of `events` as a cell of its own; `events = 0`
    is rendered by starting both cells at `false`. -/
theorem inotify_events_eq (mask : Nat) (hm : mask < 2 ^ 32) :
    (inotify_events mask false false).map
        (fun o => (if o.events__UV_CHANGE then FsEvent.UV_CHANGE else 0) ||| (if o.events__UV_RENAME then FsEvent.UV_RENAME else 0))
      = some (FsEvent.eventsOf mask) := by
  have c1 : CSem.u32 (CSem.i32 (CSem.lor (4 : Int) (2 : Int))) = ((6 : Nat) : Int) := by decide
  have c2 : CSem.u32 (-(CSem.i32 (CSem.lor (4 : Int) (2 : Int))) - 1) = ((4294967289 : Nat) : Int) := by decide
  have hm' : mask % 2 ^ 32 = mask := Nat.mod_eq_of_lt hm
  unfold inotify_events FsEvent.eventsOf
  rw [c1, c2, land_nat mask 6 (by omega) (by omega), land_nat mask 4294967289 (by omega) (by omega), hm']
  have k1 : FsEvent.IN_ATTRIB ||| FsEvent.IN_MODIFY = 6 := by decide
  have k2 : 2 ^ 32 - 1 - 6 = 4294967289 := by decide
  rw [k1, k2]
  by_cases ha : mask &&& 6 = 0 <;> by_cases hb : mask &&& 4294967289 = 0 <;>
    simp [ha, hb, FsEvent.UV_CHANGE, FsEvent.UV_RENAME]

/-- the mask `uv_fs_event_start` registers (linux.c:2673-2680) = `FsEvent.WATCH_MASK` -/
theorem fs_event_start_mask_eq : fs_event_start_mask.map (·.events) = some ((FsEvent.WATCH_MASK : Nat) : Int) := by
  decide

/-- `compare_watchers` (linux.c:2465-2470) = `FsEvent.cmpWd` on the two `wd` fields -/
theorem compare_watchers_eq (a b : Int) :
    (compare_watchers a b).map (·.ret) = some (FsEvent.cmpWd a b) := by
  unfold compare_watchers FsEvent.cmpWd
  by_cases h1 : a < b
  · simp [h1]
  · by_cases h2 : a > b <;> simp [h1, h2]

/-! The order laws the RB-tree macros of src/unix/tree.h rely on, proved of the model comparator;
    by `compare_watchers_eq` they hold of the comparator generated from the C text. -/

/-- three-way antisymmetry: `cmp a b = -(cmp b a)` -/
theorem cmpWd_antisymm (a b : Int) : FsEvent.cmpWd a b = -(FsEvent.cmpWd b a) := by
  unfold FsEvent.cmpWd; (repeat' split) <;> omega

theorem cmpWd_neg_iff_pos (a b : Int) : FsEvent.cmpWd a b < 0 ↔ FsEvent.cmpWd b a > 0 := by
  rw [cmpWd_antisymm a b]; omega

theorem cmpWd_neg_iff_lt (a b : Int) : FsEvent.cmpWd a b < 0 ↔ a < b := by
  unfold FsEvent.cmpWd; (repeat' split) <;> omega

/-- `0` exactly for equal keys -/
theorem cmpWd_zero_iff_eq (a b : Int) : FsEvent.cmpWd a b = 0 ↔ a = b := by
  unfold FsEvent.cmpWd; (repeat' split) <;> omega

/-- transitivity of `<` -/
theorem cmpWd_trans (a b c : Int) : FsEvent.cmpWd a b < 0 → FsEvent.cmpWd b c < 0 → FsEvent.cmpWd a c < 0 := by
  simp only [cmpWd_neg_iff_lt]; omega

/-- totality -/
theorem cmpWd_total (a b : Int) : FsEvent.cmpWd a b < 0 ∨ a = b ∨ FsEvent.cmpWd b a < 0 := by
  simp only [cmpWd_neg_iff_lt]; omega

/-- the same laws for the generated comparator -/
theorem compare_watchers_order_laws (a b c : Int) :
    (∃ x y, (compare_watchers a b).map (·.ret) = some x ∧ (compare_watchers b a).map (·.ret) = some y ∧
        x = -y ∧ (x < 0 ↔ y > 0) ∧ (x = 0 ↔ a = b) ∧ (x < 0 ∨ a = b ∨ y < 0)) ∧
    (∀ x y z, (compare_watchers a b).map (·.ret) = some x → (compare_watchers b c).map (·.ret) = some y →
        (compare_watchers a c).map (·.ret) = some z → x < 0 → y < 0 → z < 0) := by
  simp only [compare_watchers_eq, Option.some.injEq]
  refine ⟨⟨_, _, rfl, rfl, cmpWd_antisymm a b, cmpWd_neg_iff_pos a b, cmpWd_zero_iff_eq a b, cmpWd_total a b⟩, ?_⟩
  intro x y z hx hy hz
  subst hx hy hz
  exact cmpWd_trans a b c

example : (statbuf_eq 1 2 3 4 5 6 7 8 9 10 11 12 13 14 1 2 3 4 5 6 7 8 9 10 11 12 13 14).map (·.ret) = some 1 ∧
    (statbuf_eq 1 2 3 4 5 6 7 8 9 10 11 12 13 14 1 2 3 4 5 6 7 8 9 10 11 12 99 14).map (·.ret) = some 0 ∧
    (fs_poll_rearm 1250 100 1000).map (·.interval) = some 50 ∧
    (fs_poll_rearm 1000 100 1000).map (·.interval) = some 100 ∧
    (compare_watchers 3 5).map (·.ret) = some (-1) ∧ (compare_watchers 5 3).map (·.ret) = some 1 ∧
    (compare_watchers 4 4).map (·.ret) = some 0 := by decide

end UvModel.GenEq
