import UvModel.Generated.Kernels
import UvModel.Signal
/-!
  Tie A obligations for C13 (src/unix/signal.c): the tree order `uv__signal_compare` and the
  decisions of `uv__signal_start` (argument check, same-signum short circuit, whether the process-wide
  handler is (re)registered, the values left in `signum` / `UV_SIGNAL_ONE_SHOT` / `signal_cb`), as
  generated from the current C text, equal `Signal.Key.lt` and `Signal.sigStart`.
  Pointer order = id order (the trusted convention of the C13 harness), `0` = NULL.
-/
namespace UvModel.GenEq
open UvModel UvModel.Generated UvModel.Signal

/-- `uv__signal_compare` (signal.c:502-529) = `Signal.Key.cmp`: `-1` iff `a < b` (`Key.lt`), `1` iff
    `b < a`, `0` otherwise -/
theorem signal_compare_eq (a b : Key) :
    (signal_compare a.id a.os a.loop a.sig b.id b.os b.loop b.sig).map (·.ret) = some (Key.cmp a b) := by
  obtain ⟨as, ao, al, ai⟩ := a
  obtain ⟨bs, bo, bl, bi⟩ := b
  unfold signal_compare Key.cmp Key.lt
  cases ao <;> cases bo <;>
    simp only [CSem.i32, CSem.b2i, Bool.toNat, Bool.false_eq_true, if_false, if_true, cond_true, cond_false] <;>
    (repeat' split) <;> simp_all <;> omega

/-! The order laws the RB-tree macros of src/unix/tree.h rely on (`RB_INSERT` / `RB_FIND` / `RB_NFIND`
    descend by the sign of the comparator and treat `0` as "this node"), proved of the model
    comparator; by `signal_compare_eq` they hold of the comparator generated from the C text. -/

/-- totality: two keys are ordered one way or the other, or are the same key -/
theorem key_lt_total (a b : Key) : Key.lt a b ∨ a = b ∨ Key.lt b a := by
  obtain ⟨as, ao, al, ai⟩ := a
  obtain ⟨bs, bo, bl, bi⟩ := b
  unfold Key.lt
  cases ao <;> cases bo <;> simp [Bool.toNat] <;> omega

/-- irreflexivity and asymmetry of `<` -/
theorem key_lt_asymm (a b : Key) : Key.lt a b → ¬ Key.lt b a := by
  obtain ⟨as, ao, al, ai⟩ := a
  obtain ⟨bs, bo, bl, bi⟩ := b
  unfold Key.lt
  cases ao <;> cases bo <;> simp [Bool.toNat] <;> omega

/-- transitivity of `<` -/
theorem key_lt_trans (a b c : Key) : Key.lt a b → Key.lt b c → Key.lt a c := by
  obtain ⟨as, ao, al, ai⟩ := a
  obtain ⟨bs, bo, bl, bi⟩ := b
  obtain ⟨cs, co, cl, ci⟩ := c
  unfold Key.lt
  cases ao <;> cases bo <;> cases co <;> simp [Bool.toNat] <;> omega

/-- three-way antisymmetry: `cmp a b = -(cmp b a)` -/
theorem key_cmp_antisymm (a b : Key) : Key.cmp a b = -(Key.cmp b a) := by
  unfold Key.cmp
  by_cases h1 : Key.lt a b
  · have h2 := key_lt_asymm a b h1
    simp [h1, h2]
  · by_cases h2 : Key.lt b a <;> simp [h1, h2]

/-- … as signs: `cmp a b < 0 ↔ cmp b a > 0` -/
theorem key_cmp_neg_iff_pos (a b : Key) : Key.cmp a b < 0 ↔ Key.cmp b a > 0 := by
  rw [key_cmp_antisymm a b]; omega

/-- `cmp a b < 0` is `Key.lt a b` -/
theorem key_cmp_neg_iff_lt (a b : Key) : Key.cmp a b < 0 ↔ Key.lt a b := by
  unfold Key.cmp
  by_cases h1 : Key.lt a b
  · simp [h1]
  · by_cases h2 : Key.lt b a <;> simp [h1, h2]

/-- `0` exactly for the same key -/
theorem key_cmp_zero_iff_eq (a b : Key) : Key.cmp a b = 0 ↔ a = b := by
  unfold Key.cmp
  constructor
  · intro h
    rcases key_lt_total a b with h1 | h1 | h1
    · simp [h1] at h
    · exact h1
    · have h2 := key_lt_asymm b a h1
      simp [h1, h2] at h
  · intro h
    subst h
    have : ¬ Key.lt a a := fun h => key_lt_asymm a a h h
    simp [this]

/-- transitivity in comparator form -/
theorem key_cmp_trans (a b c : Key) : Key.cmp a b < 0 → Key.cmp b c < 0 → Key.cmp a c < 0 := by
  simp only [key_cmp_neg_iff_lt]
  exact key_lt_trans a b c

/-- the comparator generated from the C text -/
def genCmp (a b : Key) : Option Int := (signal_compare a.id a.os a.loop a.sig b.id b.os b.loop b.sig).map (·.ret)

/-- the same laws for the generated comparator -/
theorem signal_compare_order_laws (a b c : Key) :
    (∃ x y, genCmp a b = some x ∧ genCmp b a = some y ∧ x = -y ∧ (x < 0 ↔ y > 0) ∧ (x = 0 ↔ a = b)) ∧
    (∀ x y z, genCmp a b = some x → genCmp b c = some y → genCmp a c = some z → x < 0 → y < 0 → z < 0) ∧
    (∃ x, genCmp a b = some x ∧ (x < 0 ∨ x = 0 ∨ x > 0) ∧ (x = -1 ∨ x = 0 ∨ x = 1)) := by
  unfold genCmp
  simp only [signal_compare_eq, Option.some.injEq]
  refine ⟨⟨_, _, rfl, rfl, key_cmp_antisymm a b, key_cmp_neg_iff_pos a b, key_cmp_zero_iff_eq a b⟩, ?_, ?_⟩
  · intro x y z hx hy hz
    subst hx hy hz
    exact key_cmp_trans a b c
  · refine ⟨_, rfl, by omega, ?_⟩
    unfold Key.cmp
    split
    · simp
    · split <;> simp

/-- and `0` is answered only for the same key -/
theorem signal_compare_zero (a b : Key)
    (h : (signal_compare a.id a.os a.loop a.sig b.id b.os b.loop b.sig).map (·.ret) = some 0) : a = b := by
  rw [signal_compare_eq] at h
  exact (key_cmp_zero_iff_eq a b).mp (by simpa using h)

/-- what a caller can see of a start: the return value and, when it is 0, the handle's
    `signum`, `UV_SIGNAL_ONE_SHOT` and `signal_cb` afterwards -/
def startView (ret : Int) (signum : Int) (os : Bool) (cb : Int) : Int × Option (Int × Bool × Int) :=
  (ret, if ret = 0 then some (signum, os, cb) else none)

/-- `uv__signal_start` (signal.c:369-432) = `Signal.sigStart`.  `first` is what
    `uv__signal_first_handle(signum)` answers after the handle was taken out of the tree (NULL iff the
    model finds none), `ff` its `UV_SIGNAL_ONE_SHOT`, `reg` what `uv__signal_register_handler` answers
    (`sigaction` succeeds exactly for `sigValid`), the remaining arguments are the handle's fields. -/
theorem signal_start_eq (s : S) (h sig : Nat) (oneshot : Bool) (cb : Nat)
    (first reg ah : Int) (ff act ref : Bool)
    (hfirst : first = 0 ↔ firstHandle (sigStop s h).tree sig = none)
    (hff : ∀ f, firstHandle (sigStop s h).tree sig = some f → ff = f.os)
    (hreg : reg = if sigValid sig then 0 else -22) :
    (signal_start first reg ff act ref (s.hs h).oneshot ah (s.hs h).cb (s.hs h).signum
        (CSem.b2i oneshot) cb sig).map
        (fun o => startView o.ret o.handle_signum o.handle_flags__UV_SIGNAL_ONE_SHOT o.handle_signal_cb)
      = some (let r := sigStart s h sig oneshot cb
              startView r.2 (r.1.hs h).signum (r.1.hs h).oneshot (r.1.hs h).cb) := by
  unfold signal_start sigStart startView
  by_cases h0 : sig = 0
  · subst h0; simp [CEnum.UV_EINVAL]
  · by_cases h1 : sig = (s.hs h).signum
    · have h1' : (sig : Int) = ((s.hs h).signum : Int) := by omega
      simp [h0, h1', setCb, ← h1]
    · have h1' : ¬ (sig : Int) = ((s.hs h).signum : Int) := by omega
      cases hf : firstHandle (sigStop s h).tree sig with
      | none =>
        have hz : first = 0 := hfirst.mpr hf
        subst hz
        cases hv : sigValid sig <;> cases oneshot <;> cases act <;> cases ref <;>
          simp [h0, h1, h1', hf, hv, hreg, CSem.b2i, register]
      | some f =>
        have hz : first ≠ 0 := fun e => by rw [hfirst.mp e] at hf; cases hf
        have hfo := hff f hf
        subst hfo
        cases hv : sigValid sig <;> cases oneshot <;> cases act <;> cases ref <;> cases hfos : f.os <;>
          simp [h0, h1, h1', hf, hv, hz, hreg, hfos, CSem.b2i, register]

example : (signal_compare 1 false 1 10 2 false 1 10).map (·.ret) = some (-1) ∧
    (signal_compare 1 true 1 10 2 false 1 10).map (·.ret) = some 1 ∧
    (signal_compare 1 true 9 10 2 false 1 12).map (·.ret) = some (-1) ∧
    (signal_start 0 0 false false true false 0 7 0 0 8 10).map (fun o => (o.ret, o.handle_signum, o.handle_loop_active_handles))
      = some (0, 10, 1) ∧
    (signal_start 0 0 false false true false 0 7 0 0 8 0).map (·.ret) = some (-22) := by decide

end UvModel.GenEq
