import UvModel.Generated.Kernels
import UvModel.IoWatch
/-!
  Tie A obligations for C14 (`src/unix/core.c`): the watcher-table sizing (`next_power_of_two`, the size
  computation of `maybe_resize`) and the mask arithmetic / early-return / queue / `nfds` decisions of
  `uv__io_start`, `uv__io_stop`, `uv__io_active`, as generated from the current C text, equal the
  kernels `IoWatch.nextPow2`, `IoWatch.maybeResize`'s `nw`, and `ioStartK` / `ioStopK` below, which are
  proved to be exactly what `IoWatch.ioStart` / `IoWatch.ioStop` compute with (`ioStart_via_K`,
  `ioStop_via_K`).  C words are the `Mask.toNat` of the model's masks; `loop->watchers[w->fd]` is the
  opaque input `elem`, compared against NULL (`ioStart`) or against `w` (`ioStop`).
-/
namespace UvModel.GenEq
open UvModel UvModel.Generated UvModel.IoWatch

/-! ## word arithmetic on naturals -/

theorem c14_lor_nat (a b : Nat) (ha : a < 2^64) (hb : b < 2^64) : CSem.lor a b = ((a ||| b : Nat) : Int) := by
  unfold CSem.lor CSem.u64
  have h1 : ((a : Int) % 18446744073709551616).toNat = a := by omega
  have h2 : ((b : Int) % 18446744073709551616).toNat = b := by omega
  rw [h1, h2]; rfl

theorem c14_shr_nat (a n : Nat) : CSem.shr a n = ((a >>> n : Nat) : Int) := by
  unfold CSem.shr
  rw [Nat.shiftRight_eq_div_pow]
  norm_cast

/-- one `val |= val >> k` on a value below 2^31 -/
theorem c14_step (v k : Nat) (hv : v < 2^31) :
    CSem.lor (v : Int) (CSem.shr (v : Int) k) = ((v ||| (v >>> k) : Nat) : Int) ∧ (v ||| (v >>> k)) < 2^31 := by
  have hs : v >>> k ≤ v := Nat.shiftRight_le v k
  have hs' : v >>> k < 2^31 := by omega
  refine ⟨?_, Nat.or_lt_two_pow hv hs'⟩
  rw [c14_shr_nat, c14_lor_nat] <;> omega

/-- `next_power_of_two` (core.c:859-868) = `IoWatch.nextPow2` for `1 ≤ val ≤ 2^31` (above that the C
    result wraps to 0; `uv__io_start` asserts `fd < INT_MAX`, descriptors are far below). -/
theorem next_power_of_two_eq (n : Nat) (h1 : 1 ≤ n) (h2 : n ≤ 2^31) :
    next_power_of_two (n : Int) = some { ret := (nextPow2 n : Nat), val := (nextPow2 n : Nat) } := by
  have h0 : CSem.u32 ((n : Int) - CSem.u32 1) = ((n - 1 : Nat) : Int) := by unfold CSem.u32; omega
  obtain ⟨e1, b1⟩ := c14_step (n - 1) 1 (by omega)
  obtain ⟨e2, b2⟩ := c14_step _ 2 b1
  obtain ⟨e3, b3⟩ := c14_step _ 4 b2
  obtain ⟨e4, b4⟩ := c14_step _ 8 b3
  obtain ⟨e5, b5⟩ := c14_step _ 16 b4
  simp only [next_power_of_two, nextPow2, h0, e1, e2, e3, e4, e5]
  have hf : ∀ v : Nat, v < 2^31 → CSem.u32 ((v : Int) + CSem.u32 1) = ((v + 1 : Nat) : Int) := by
    intro v hv; unfold CSem.u32; omega
  rw [hf _ b5]

/-- `nextPow2 n ≥ n` (so the `- 2` of `maybe_resize` does not underflow for `len + 2`) -/
theorem nextPow2_ge (n : Nat) (h1 : 1 ≤ n) : n ≤ nextPow2 n := by
  simp only [nextPow2]
  have a1 := @Nat.left_le_or (n - 1) ((n - 1) >>> 1)
  have a2 := @Nat.left_le_or ((n - 1) ||| ((n - 1) >>> 1)) (((n - 1) ||| ((n - 1) >>> 1)) >>> 2)
  generalize (n - 1) ||| ((n - 1) >>> 1) = v1 at *
  have a3 := @Nat.left_le_or (v1 ||| (v1 >>> 2)) ((v1 ||| (v1 >>> 2)) >>> 4)
  generalize v1 ||| (v1 >>> 2) = v2 at *
  have a4 := @Nat.left_le_or (v2 ||| (v2 >>> 4)) ((v2 ||| (v2 >>> 4)) >>> 8)
  generalize v2 ||| (v2 >>> 4) = v3 at *
  have a5 := @Nat.left_le_or (v3 ||| (v3 >>> 8)) ((v3 ||| (v3 >>> 8)) >>> 16)
  generalize v3 ||| (v3 >>> 8) = v4 at *
  omega

/-- `nwatchers = next_power_of_two(len + 2) - 2` (core.c:889): the generated callee composed with the
    generated size slice = the `nw` of `IoWatch.maybeResize`.  (The argument expression `len + 2` of the
    call is not part of the slice: arguments of calls are not translated; Tie B covers it.) -/
theorem maybe_resize_size_eq (len : Nat) (h : len + 2 ≤ 2^31) :
    ((next_power_of_two ((len + 2 : Nat) : Int)).bind fun p => maybe_resize_size p.ret).map (·.nwatchers)
      = some ((nextPow2 (len + 2) - 2 : Nat) : Int) := by
  rw [next_power_of_two_eq (len + 2) (by omega) h]
  have hge := nextPow2_ge (len + 2) (by omega)
  have hlt : nextPow2 (len + 2) < 2^32 := by
    have := next_power_of_two_eq (len + 2) (by omega) h
    simp only [next_power_of_two, CSem.u32, Option.some.injEq, Out_next_power_of_two.mk.injEq] at this
    omega
  simp only [Option.bind, Option.map, maybe_resize_size, CSem.u32]
  congr 1
  omega

/-! ## event masks as C words -/

theorem c14_lor_bits : ∀ (a1 a2 a3 a4 a5 a6 b1 b2 b3 b4 b5 b6 : Bool),
    CSem.lor (Mask.toNat ⟨a1, a2, a3, a4, a5, a6⟩) (Mask.toNat ⟨b1, b2, b3, b4, b5, b6⟩) =
      ((Mask.or ⟨a1, a2, a3, a4, a5, a6⟩ ⟨b1, b2, b3, b4, b5, b6⟩).toNat : Int) := by decide +kernel

theorem c14_landnot_bits : ∀ (a1 a2 a3 a4 a5 a6 b1 b2 b3 b4 b5 b6 : Bool),
    CSem.land (Mask.toNat ⟨a1, a2, a3, a4, a5, a6⟩) (4294967295 - (Mask.toNat ⟨b1, b2, b3, b4, b5, b6⟩ : Int)) =
      ((Mask.diff ⟨a1, a2, a3, a4, a5, a6⟩ ⟨b1, b2, b3, b4, b5, b6⟩).toNat : Int) := by decide +kernel

theorem c14_toNat_inj_bits : ∀ (a1 a2 a3 a4 a5 a6 b1 b2 b3 b4 b5 b6 : Bool),
    Mask.toNat ⟨a1, a2, a3, a4, a5, a6⟩ = Mask.toNat ⟨b1, b2, b3, b4, b5, b6⟩ →
      (⟨a1, a2, a3, a4, a5, a6⟩ : Mask) = ⟨b1, b2, b3, b4, b5, b6⟩ := by decide +kernel

/-- `a | b` on mask words -/
theorem c14_lor_mask (a b : Mask) : CSem.lor a.toNat b.toNat = ((a.or b).toNat : Int) := by
  cases a; cases b; exact c14_lor_bits ..

/-- `a & ~b` on (32-bit unsigned) mask words -/
theorem c14_landnot_mask (a b : Mask) : CSem.land a.toNat (4294967295 - (b.toNat : Int)) = ((a.diff b).toNat : Int) := by
  cases a; cases b; exact c14_landnot_bits ..

theorem c14_toNat_inj (a b : Mask) : a.toNat = b.toNat ↔ a = b := by
  constructor
  · cases a; cases b; exact c14_toNat_inj_bits _ _ _ _ _ _ _ _ _ _ _ _
  · intro h; rw [h]

theorem c14_toNat_beq (a b : Mask) : (((a.toNat : Int)) == ((b.toNat : Int))) = decide (a = b) := by
  by_cases h : a = b
  · simp [h]
  · have : a.toNat ≠ b.toNat := fun e => h ((c14_toNat_inj a b).mp e)
    simp [h]; omega

/-- `uv__io_active` (core.c:992-996): `0 != (w->pevents & events)` -/
theorem io_active_eq : ∀ (a1 a2 a3 a4 a5 a6 b1 b2 b3 b4 b5 b6 : Bool),
    io_active (Mask.toNat ⟨b1, b2, b3, b4, b5, b6⟩) (Mask.toNat ⟨a1, a2, a3, a4, a5, a6⟩) =
      some { ret := CSem.b2i (decide (Mask.and ⟨a1, a2, a3, a4, a5, a6⟩ ⟨b1, b2, b3, b4, b5, b6⟩ ≠ Mask.none)) } := by
  decide +kernel

/-! ## uv__io_start -/

/-- decisions of `uv__io_start` (core.c:917-942): new `pevents`; "insert into `loop->watcher_queue`";
    "claim the `loop->watchers[fd]` slot and `nfds++`" -/
def ioStartK (events pevents m : Mask) (qEmpty slotEmpty : Bool) : Mask × Bool × Bool :=
  let pe := pevents.or m
  if events = pe then (pe, false, false) else (pe, qEmpty, slotEmpty)

/-- `IoWatch.ioStart` computes with exactly `ioStartK` -/
theorem ioStart_via_K (s : St) (id : Nat) (m : Mask) :
    ioStart s id m =
      (let w := getW s id
       let s1 := maybeResize (setW s id { w with pevents := w.pevents.or m, clean := false }) (w.fd + 1)
       let k := ioStartK w.events w.pevents m (!s1.wq.contains id) (decide (watcherAt s1 w.fd = .none))
       let s2 := if k.2.1 then { s1 with wq := s1.wq ++ [id] } else s1
       if k.2.2 then { s2 with watchers := s2.watchers.set (getW s id).fd (some id), nfds := s2.nfds + 1 } else s2) := by
  simp only [ioStart, ioStartK]
  generalize maybeResize _ _ = s1
  by_cases h1 : (getW s id).events = (getW s id).pevents.or m
  · simp [h1]
  · by_cases h2 : id ∈ s1.wq <;> by_cases h3 : s1.watchers[(getW s id).fd]?.getD .none = .none <;>
      simp [h1, h2, h3, watcherAt]

/-- `uv__io_start` as generated = `ioStartK`.  `elem` = `loop->watchers[w->fd]` (NULL = 0),
    `qempty` = `uv__queue_empty(&w->watcher_queue)`; `called_uv__queue_insert_tail` starts out `false`. -/
theorem io_start_eq (events pevents m : Mask) (elem nfds : Int) (qempty : Bool)
    (hn : 0 ≤ nfds ∧ nfds + 1 < 4294967296) :
    io_start false elem m.toNat nfds events.toNat pevents.toNat qempty =
      some { ret := 0
             w_pevents := ((ioStartK events pevents m qempty (decide (elem = 0))).1.toNat : Nat)
             called_uv__queue_insert_tail := (ioStartK events pevents m qempty (decide (elem = 0))).2.1
             loop_nfds := if (ioStartK events pevents m qempty (decide (elem = 0))).2.2 then nfds + 1 else nfds } := by
  unfold io_start ioStartK
  simp only [c14_lor_mask, c14_toNat_beq, CSem.u32]
  have hm : (nfds + 1) % 4294967296 = nfds + 1 := by omega
  by_cases h1 : events = pevents.or m <;> by_cases h2 : elem = 0 <;> cases qempty <;> simp [h1, h2, hm]

/-! ## uv__io_stop -/

/-- decisions of `uv__io_stop` (core.c:945-973) once `fd != -1`: `none` = "never started" early return;
    else new `pevents`, new `events`, "remove from the watcher queue", "insert into the watcher queue",
    "clear the slot and `nfds--`" -/
def ioStopK (fd nw : Nat) (events pevents m : Mask) (qEmpty mine : Bool) : Option (Mask × Mask × Bool × Bool × Bool) :=
  if fd ≥ nw then none
  else
    let pe := pevents.diff m
    if pe = Mask.none then some (pe, Mask.none, true, false, mine)
    else some (pe, events, false, qEmpty, false)

/-- `IoWatch.ioStop` computes with exactly `ioStopK` -/
theorem ioStop_via_K (s : St) (id : Nat) (m : Mask) :
    ioStop s id m =
      (let w := getW s id
       match ioStopK w.fd s.watchers.length w.events w.pevents m (!s.wq.contains id)
               (decide (watcherAt s w.fd = some id)) with
       | none => s
       | some (pe, ev, rm, ins, dec) =>
         let s1 := setW s id { w with pevents := pe, events := ev }
         let s2 := if rm then { s1 with wq := s1.wq.erase id } else s1
         let s3 := if ins then { s2 with wq := s2.wq ++ [id] } else s2
         if dec then { s3 with watchers := s3.watchers.set w.fd .none, nfds := s3.nfds - 1 } else s3) := by
  simp only [ioStop, ioStopK]
  by_cases h0 : (getW s id).fd ≥ s.watchers.length
  · simp [h0]
  · by_cases h1 : (getW s id).pevents.diff m = Mask.none
    · by_cases h3 : s.watchers[(getW s id).fd]?.getD .none = some id <;> simp [h0, h1, h3, watcherAt, setW]
    · by_cases h2 : id ∈ s.wq <;> simp [h0, h1, h2, setW]

/-- `uv__io_stop` as generated = `ioStopK`.  `fd ≥ 0` (asserted by the C; `fd == -1` is the first early
    return, `io_stop_closed_fd`), `wptr` = `w`, `elem` = `loop->watchers[w->fd]`; `hpos` is the C's
    `assert(loop->nfds > 0)`. -/
theorem io_stop_eq (fd nw : Nat) (events pevents m : Mask) (elem wptr nfds : Int) (qempty : Bool)
    (hfd : fd < 2147483648)
    (hn : 0 ≤ nfds ∧ nfds < 4294967296) (hpos : wptr = elem → 1 ≤ nfds) :
    io_stop false false elem m.toNat nfds nw wptr events.toNat fd pevents.toNat qempty =
      some (match ioStopK fd nw events pevents m qempty (decide (wptr = elem)) with
            | none => { ret := 0, w_pevents := pevents.toNat, called_uv__queue_remove := false,
                        w_events := events.toNat, loop_nfds := nfds, called_uv__queue_insert_tail := false }
            | some (pe, ev, rm, ins, dec) =>
              { ret := 0, w_pevents := pe.toNat, called_uv__queue_remove := rm, w_events := ev.toNat,
                loop_nfds := if dec then nfds - 1 else nfds, called_uv__queue_insert_tail := ins }) := by
  unfold io_stop ioStopK
  have hf1 : ((fd : Int) == -1) = false := by simp
  have hf2 : CSem.u32 (fd : Int) = fd := by unfold CSem.u32; omega
  simp only [c14_landnot_mask, hf1, hf2]
  by_cases h0 : fd ≥ nw
  · have : (fd : Int) ≥ nw := by omega
    simp [h0, this]
  · have h0' : ¬ ((fd : Int) ≥ nw) := by omega
    have hu : CSem.u32 0 = ((Mask.none.toNat : Nat) : Int) := by decide
    simp only [hu, c14_toNat_beq]
    by_cases h1 : pevents.diff m = Mask.none
    · by_cases h3 : wptr = elem
      · have hm : (nfds - 1) % 4294967296 = nfds - 1 := by have := hpos h3; omega
        simp [h0, h0', h1, h3, CSem.u32, hm]
      · simp [h0, h0', h1, h3]
    · cases qempty <;> simp [h0, h0', h1]

/-- first early return of `uv__io_stop`: a watcher whose fd is -1 is left alone -/
theorem io_stop_closed_fd (elem ev nfds nw wptr we wp : Int) (q : Bool) :
    io_stop false false elem ev nfds nw wptr we (-1) wp q =
      some { ret := 0, w_pevents := wp, called_uv__queue_remove := false, w_events := we, loop_nfds := nfds,
             called_uv__queue_insert_tail := false } := by
  simp [io_stop]

/-! ## uv__io_close -/

/-- `uv__io_close` (core.c:976-983) = the call order of `IoWatch.ioClose`: `ioStop … Mask.all4`, removal from the
    pending queue, then `invalidate fd` unless the fd is -1 (the model's `W.fd` is a `Nat`: always open) -/
theorem io_close_eq (fd : Int) :
    io_close [] fd = some { ret := 0, call_seq :=
      [("uv__io_stop", [(Mask.all4.toNat : Int)]), ("uv__queue_remove", [])] ++
      (if fd ≠ -1 then [("uv__platform_invalidate_fd", [fd])] else []) } := by
  have hm : CSem.u32 (CSem.i32 (CSem.lor (CSem.i32 (CSem.lor (CSem.i32 (CSem.lor 1 4)) 8192)) 2)) =
      ((Mask.all4.toNat : Nat) : Int) := by decide +kernel
  unfold io_close
  by_cases h : fd = -1 <;> simp [h, hm]

/-! non-vacuity: concrete runs of the generated kernels -/
example : (next_power_of_two 5).map (·.ret) = some 8 ∧ (next_power_of_two 1025).map (·.ret) = some 2048 ∧
    (next_power_of_two 1).map (·.ret) = some 1 := by decide +kernel
example : (io_start false 0 4 3 1 1 true).map (fun o => (o.w_pevents, o.called_uv__queue_insert_tail, o.loop_nfds))
    = some (5, true, 4) := by decide +kernel
example : (io_stop false false 77 1 3 8 77 1 5 1 false).map
    (fun o => (o.w_pevents, o.w_events, o.called_uv__queue_remove, o.loop_nfds)) = some (0, 0, true, 2) := by decide +kernel

end UvModel.GenEq
