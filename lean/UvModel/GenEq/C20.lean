import UvModel.Generated.Kernels
import UvModel.ThreadArith
import UvModel.Lemmas.ThreadLemmas
/-!
  Tie A obligations for C20 (see UvModel/GenEq.lean for the principle): the kernels generated from
  the current text of src/unix/thread.c and src/thread-common.c equal the `ThreadArith` functions
  on which `Props/C20` is stated.
-/
namespace UvModel.GenEq
open UvModel UvModel.Generated UvModel.ThreadArith

/-! ### the `&` of the generated code (`CSem.land`) on in-range values is `Nat`'s `&&&` -/
theorem land_nat (a b : Nat) (ha : a < 2 ^ 64) (hb : b < 2 ^ 64) :
    CSem.land (a : Int) (b : Int) = ((a &&& b : Nat) : Int) := by
  unfold CSem.land CSem.u64
  have h1 : ((a : Int) % 18446744073709551616).toNat = a := by omega
  have h2 : ((b : Int) % 18446744073709551616).toNat = b := by omega
  rw [h1, h2]; rfl

/-- for a power-of-two page size `2^k`, `x & ~(2^k - 1)` as generated (`~y` on a 64-bit word is
    `2^64-1 - y`) clears the low `k` bits: it is `x - x % 2^k` -/
theorem land_align (x k : Nat) (hk : k ≤ 64) (hx : x < 2 ^ 64) :
    CSem.land (x : Int) (18446744073709551615 - ((2 ^ k - 1 : Nat) : Int)) = ((x - x % 2 ^ k : Nat) : Int) := by
  have h1 : 0 < 2 ^ k := Nat.pos_of_ne_zero (by simp)
  have h2 : 2 ^ k ≤ 2 ^ 64 := Nat.pow_le_pow_right (by omega) hk
  have h3 : (18446744073709551615 : Int) - ((2 ^ k - 1 : Nat) : Int) = ((2 ^ 64 - 2 ^ k : Nat) : Int) := by omega
  rw [h3, land_nat x _ hx (by omega), and_mask x k hk hx]

example : CSem.land 12345 (18446744073709551615 - 4095) = 12288 := by decide

/-! ### stack size of `uv_thread_create_ex` -/

example : CEnum.UV_THREAD_HAS_STACK_SIZE = (UV_THREAD_HAS_STACK_SIZE : Int) := by decide

/-- what the slice's final state means for the rest of `uv_thread_create_ex` (thread.c:172-179:
    `if (stack_size > 0) pthread_attr_setstacksize(attr, stack_size)`) -/
def stackOut (o : Out_thread_stack_size) : StackOut :=
  if o.ret = CEnum.UV_EINVAL then .einval
  else .create (if o.stack_size > 0 then some o.stack_size.toNat else none)

/-- the stack-size slice of `uv_thread_create_ex` = `ThreadArith.createExStack`, for every page size
    `1 ≤ p < 2^64` and every 64-bit request; `junk1/2` are the (never read) initial values of the
    locals `min_stack_size`/`pagesize` -/
theorem thread_stack_size_eq (e : Env) (flags r : Nat) (junk1 junk2 : Int)
    (hp1 : 1 ≤ e.pagesize) (hp : e.pagesize < 2 ^ 64) (hr : r < 2 ^ 64) :
    (thread_stack_size (e.pagesize : Int) (minStackSize e : Int) (threadStackSize e : Int) junk1 junk2
        (decide (flags &&& UV_THREAD_HAS_STACK_SIZE ≠ 0)) (r : Int)).map stackOut
      = some (createExStack e flags r) := by
  have hP : (2:Nat) ^ 64 = 18446744073709551616 := by decide
  rw [hP] at hp hr
  unfold thread_stack_size createExStack
  simp only [CSem.u64, SIZE_MAX, hP]
  by_cases hf : flags &&& UV_THREAD_HAS_STACK_SIZE ≠ 0
  · by_cases hr0 : r = 0
    · subst hr0; simp [hf, stackOut, CEnum.UV_EINVAL]
    · have hr0' : ¬ ((r : Int) % 18446744073709551616 = 0) := by omega
      have hA : ((((r : Int) + (e.pagesize : Int) % 18446744073709551616) % 18446744073709551616
            - 1 % 18446744073709551616) % 18446744073709551616)
          = (((r + e.pagesize - 1) % 18446744073709551616 : Nat) : Int) := by omega
      have hB : (18446744073709551615 : Int) - ((e.pagesize : Int) % 18446744073709551616
            - 1 % 18446744073709551616) % 18446744073709551616 = ((not64 (e.pagesize - 1) : Nat) : Int) := by
        unfold not64; omega
      have hB' : not64 (e.pagesize - 1) < 2 ^ 64 := by unfold not64; omega
      have hC : ((not64 (e.pagesize - 1) : Nat) : Int) % 18446744073709551616 = ((not64 (e.pagesize - 1) : Nat) : Int) := by
        omega
      have hD : not64 (e.pagesize - 1) = 18446744073709551616 - 1 - (e.pagesize - 1) := by unfold not64; omega
      simp only [hf, ne_eq, not_false_eq_true, decide_true, ite_true, hA, hB, hC]
      rw [land_nat _ _ (by omega) hB']
      generalize hs : ((r + e.pagesize - 1) % 18446744073709551616 &&& not64 (e.pagesize - 1)) = s
      by_cases h1 : r > 18446744073709551616 - 1 - (e.pagesize - 1)
      · have h1' : (r : Int) > ((not64 (e.pagesize - 1) : Nat) : Int) := by omega
        simp [hr0, h1, h1', stackOut]
      · have h1' : ¬ (r : Int) > ((not64 (e.pagesize - 1) : Nat) : Int) := by omega
        have hm : 0 < minStackSize e := by unfold minStackSize; split <;> omega
        by_cases h2 : s < minStackSize e
        · have h2' : (s : Int) < (minStackSize e : Int) := by omega
          simp [hr0, h1, h1', h2, h2', stackOut, CEnum.UV_EINVAL, hm]
        · have h2' : ¬ (s : Int) < (minStackSize e : Int) := by omega
          have hs0 : 0 < s := by omega
          simp [hr0, h1, h1', h2, h2', stackOut, CEnum.UV_EINVAL, hs0]
  · simp [hf, stackOut, CEnum.UV_EINVAL]

/-- the `uv_cond_timedwait` deadline computation = `ThreadArith.deadline` -/
theorem cond_deadline_eq (now timeout : Nat) (hn : now < 2 ^ 64) (ht : timeout < 2 ^ 64) :
    (cond_deadline (now : Int) (timeout : Int)).map (fun o => (o.ret, o.now, o.ts_tv_sec, o.ts_tv_nsec))
      = some (0, (now : Int), ((deadline now timeout).1 : Int), ((deadline now timeout).2 : Int)) := by
  have hP : (2:Nat) ^ 64 = 18446744073709551616 := by decide
  rw [hP] at hn ht
  unfold cond_deadline deadline NANOSEC
  simp only [CSem.u64, hP]
  by_cases h : timeout > 18446744073709551616 - 1 - now
  · have h' : (timeout : Int) > (18446744073709551615 - (now : Int)) % 18446744073709551616 := by omega
    simp [h, h']
  · have h' : ¬ (timeout : Int) > (18446744073709551615 - (now : Int)) % 18446744073709551616 := by omega
    simp [h, h']

example : (cond_deadline 18000000000000000000 500000000000000000).map (·.ts_tv_sec) = some 18446744073 := by decide
example : (thread_stack_size 4096 16384 8388608 0 0 true 20000).map (·.stack_size) = some 20480 := by decide

/-! ### return-code tables -/

/-- an `Option` result of a generated kernel as a `ThreadArith.Out` -/
def toOut {α} (ret : α → Int) : Option α → Out
  | none => .abort
  | some o => .ret (ret o)

theorem mutex_trylock_eq (err : Int) : toOut (·.ret) (mutex_trylock err) = trylockMap err := by
  unfold mutex_trylock trylockMap toOut EBUSY EAGAIN UV_EBUSY CEnum.UV_EBUSY
  by_cases h0 : err = 0 <;> by_cases h1 : err = 16 <;> by_cases h2 : err = 11 <;> simp_all

theorem rwlock_tryrdlock_eq (err : Int) : toOut (·.ret) (rwlock_tryrdlock err) = trylockMap err := by
  unfold rwlock_tryrdlock trylockMap toOut EBUSY EAGAIN UV_EBUSY CEnum.UV_EBUSY
  by_cases h0 : err = 0 <;> by_cases h1 : err = 16 <;> by_cases h2 : err = 11 <;> simp_all

theorem rwlock_trywrlock_eq (err : Int) : toOut (·.ret) (rwlock_trywrlock err) = trylockMap err := by
  unfold rwlock_trywrlock trylockMap toOut EBUSY EAGAIN UV_EBUSY CEnum.UV_EBUSY
  by_cases h0 : err = 0 <;> by_cases h1 : err = 16 <;> by_cases h2 : err = 11 <;> simp_all

/-- tail of `uv__sem_trywait` (after the EINTR retry loop) = `semFinal` -/
theorem sem_trywait_final_eq (r e : Int) : toOut (·.ret) (sem_trywait_final e r) = semFinal r e := by
  unfold sem_trywait_final semFinal toOut EAGAIN UV_EAGAIN CEnum.UV_EAGAIN
  by_cases h0 : r = 0 <;> by_cases h1 : e = 11 <;> simp_all

/-- tail of `uv_cond_timedwait` (after `pthread_cond_timedwait`) = `timedwaitMap` -/
theorem cond_timedwait_result_eq (r : Int) : toOut (·.ret) (cond_timedwait_result r) = timedwaitMap r := by
  unfold cond_timedwait_result timedwaitMap toOut ETIMEDOUT UV_ETIMEDOUT CEnum.UV_ETIMEDOUT
  by_cases h0 : r = 0 <;> by_cases h1 : r = 110 <;> simp_all

theorem barrier_wait_eq (rc : Int) : toOut (·.ret) (barrier_wait rc) = barrierWaitMap rc := by
  unfold barrier_wait barrierWaitMap toOut SERIAL_THREAD CSem.b2i
  by_cases h0 : rc = 0 <;> by_cases h1 : rc = -1 <;> simp_all

/-- the `if (pthread_xxx(..)) abort();` wrappers = `mustZero` -/
theorem must_zero_eq (rc : Int) :
    toOut (·.ret) (mutex_lock rc) = mustZero rc ∧ toOut (·.ret) (mutex_unlock rc) = mustZero rc ∧
    toOut (·.ret) (cond_wait rc) = mustZero rc := by
  unfold mutex_lock mutex_unlock cond_wait mustZero toOut
  by_cases h0 : rc = 0 <;> simp_all

example : toOut (·.ret) (mutex_trylock 16) = .ret (-16) ∧ toOut (·.ret) (mutex_trylock 22) = .abort ∧
    toOut (·.ret) (sem_trywait_final 11 (-1)) = .ret (-11) ∧ toOut (·.ret) (cond_timedwait_result 110) = .ret (-110) ∧
    toOut (·.ret) (barrier_wait (-1)) = .ret 1 := by decide

end UvModel.GenEq
