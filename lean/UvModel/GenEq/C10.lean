import UvModel.Generated.Kernels
import UvModel.Udp
/-!
  Tie A obligations for C10: the address-family `switch` of `uv__udp_prep_pkt` (udp.c) and the entry
  checks / result selection of `uv__udp_check_before_send`, `uv_udp_try_send` → `uv__udp_try_send`,
  `uv_udp_try_send2` → `uv__udp_try_send2` (uv-common.c, udp.c), as generated from the current C
  text, equal `Udp.prepOk`, `Udp.checkBeforeSend` and the pure kernels `trySendRet` / `trySend2Ret`
  below, which are proved to be exactly the value `Udp.applyOp` returns for `.trySend` / `.trySend2`
  (`applyOp_trySend_ret`, `applyOp_trySend2_ret`).
-/
namespace UvModel.GenEq
open UvModel UvModel.Generated UvModel.Udp

/-- what the model's destination class `dest` stands for in C: NULL-ness of `addr` and `addr->sa_family`
    (0 = NULL, 1 = AF_INET (2), 2 = AF_INET6 (10), ≥ 3 = a family libuv does not support; AF_UNIX (1) and
    AF_UNSPEC (0) addresses are not among the model's destination classes) -/
structure AddrEnc (dest : Nat) (addr fam : Int) : Prop where
  null : addr = 0 ↔ dest = 0
  v4 : dest = 1 → fam = 2
  v6 : dest = 2 → fam = 10
  other : dest ≥ 3 → fam ≠ 2 ∧ fam ≠ 10 ∧ fam ≠ 1 ∧ fam ≠ 0

/-- `msg_namelen` / `addrlen` of a destination class: `sizeof(struct sockaddr_in)`, `sizeof(struct sockaddr_in6)` -/
def addrLen (dest : Nat) : Int := if dest = 1 then 16 else if dest = 2 then 28 else 0

/-- `uv__udp_prep_pkt` (udp.c:1243-1270, a `switch` on `addr->sa_family`): returns 0 exactly on the
    destinations `Udp.prepOk` accepts, `UV_EINVAL` otherwise. -/
theorem udp_prep_pkt_eq (d : Dgram) (addr fam bufs nl nbufs : Int) (h : AddrEnc d.dest addr fam) :
    (udp_prep_pkt addr fam bufs nl nbufs).map (·.ret) = some (if prepOk d then 0 else UV_EINVAL) := by
  unfold udp_prep_pkt prepOk
  obtain ⟨hn, h4, h6, ho⟩ := h
  by_cases h0 : d.dest = 0
  · simp [hn.mpr h0, h0]
  · have ha : addr ≠ 0 := fun e => h0 (hn.mp e)
    by_cases h1 : d.dest = 1
    · simp [ha, h4 h1, h1]
    · by_cases h2 : d.dest = 2
      · simp [ha, h6 h2, h2]
      · obtain ⟨o1, o2, o3, o4⟩ := ho (by omega)
        have : ¬ d.dest ≤ 2 := by omega
        simp [ha, o1, o2, o3, o4, this, CEnum.UV_EINVAL, UV_EINVAL]

/-- the name length `uv__udp_prep_pkt` stores for an IPv4 / IPv6 destination -/
theorem udp_prep_pkt_namelen (dest : Nat) (addr fam bufs nl nbufs : Int) (h : AddrEnc dest addr fam)
    (hd : dest = 1 ∨ dest = 2) :
    (udp_prep_pkt addr fam bufs nl nbufs).map (·.h_msg_namelen) = some (addrLen dest) := by
  unfold udp_prep_pkt addrLen
  obtain ⟨hn, h4, h6, _⟩ := h
  have ha : addr ≠ 0 := fun e => by have := hn.mp e; omega
  rcases hd with h1 | h2
  · simp [ha, h4 h1, h1, CEnum.sizeof_struct_sockaddr_in, CSem.u32]
  · simp [ha, h6 h2, h2, CEnum.sizeof_struct_sockaddr_in6, CSem.u32]

/-- `uv__udp_check_before_send` (uv-common.c:456-484) on a UDP handle: the negative results are those of
    `Udp.checkBeforeSend`; otherwise the address length is returned. -/
theorem udp_check_before_send_eq (s : H) (dest : Nat) (addr fam ty : Int) (h : AddrEnc dest addr fam)
    (hty : ty = CEnum.UV_UDP) :
    (udp_check_before_send addr fam s.connected ty).map (·.ret) =
      some (if checkBeforeSend s dest < 0 then checkBeforeSend s dest else addrLen dest) := by
  unfold udp_check_before_send checkBeforeSend addrLen
  obtain ⟨hn, h4, h6, ho⟩ := h
  subst hty
  by_cases h0 : dest = 0
  · cases hc : s.connected <;>
      simp [hn.mpr h0, h0, CEnum.UV_EDESTADDRREQ, UV_EDESTADDRREQ, CSem.u32, CSem.i32]
  · have ha : addr ≠ 0 := fun e => h0 (hn.mp e)
    cases hc : s.connected
    · by_cases h1 : dest = 1
      · simp [ha, h4 h1, h1, CEnum.sizeof_struct_sockaddr_in, CSem.u32, CSem.i32]
      · by_cases h2 : dest = 2
        · simp [ha, h6 h2, h2, CEnum.sizeof_struct_sockaddr_in6, CSem.u32, CSem.i32]
        · obtain ⟨o1, o2, o3, o4⟩ := ho (by omega)
          have : dest > 2 := by omega
          simp [ha, h0, o1, o2, o3, this, CEnum.UV_EINVAL, UV_EINVAL]
    · simp [ha, h0, CEnum.UV_EISCONN, UV_EISCONN]

/-! ## uv_udp_try_send -/

/-- value returned by `uv_udp_try_send` (uv-common.c:503-514 → udp.c:638-664): `c` = result of
    `uv__udp_check_before_send`, `r` = result of `uv__udp_sendmsg1`, `bytes` = `uv__count_bufs` -/
def trySendRet (c : Int) (nbufs : Nat) (sqCount r bytes : Int) : Int :=
  if c < 0 then c
  else if nbufs < 1 then UV_EINVAL
  else if sqCount ≠ 0 then UV_EAGAIN
  else if r > 0 then bytes else r

/-- `Udp.applyOp` on `.trySend` returns exactly `trySendRet` -/
theorem applyOp_trySend_ret (s : H) (bufs : List Nat) (dest : Nat) (hc : s.closing = false) :
    (applyOp s (.trySend bufs dest)).trace.getLast? =
      some (.ret (trySendRet (checkBeforeSend s dest) bufs.length s.sqCount
                    (sendmsg1 ⟨s.nseq, bufs, dest⟩ s.souts).r ((Dgram.mk s.nseq bufs dest).bytes : Int))) := by
  simp only [applyOp, hc, trySendRet, checkBeforeSend, emit]
  simp only [Bool.false_eq_true, if_false]
  repeat' split
  all_goals simp_all

/-- the generated `uv_udp_try_send` with the generated `uv__udp_try_send` as its callee = `trySendRet`.
    Model assumptions visible here: `uv__udp_maybe_deferred_bind` succeeds (`bind = 0`), the byte count fits
    an `int`. -/
theorem udp_try_send_eq (c addr bind r bytes sq nbufs : Int) (hbind : bind = 0)
    (hn : 0 ≤ nbufs) (hb : -2147483648 ≤ bytes ∧ bytes < 2147483648) :
    ((udp_try_send addr bytes bind r sq nbufs).bind fun i => udp_try_send_api c i.ret).map (·.ret) =
      some (trySendRet c nbufs.toNat sq r bytes) := by
  unfold udp_try_send udp_try_send_api trySendRet CSem.u32 CSem.u64 CSem.i32
  subst hbind
  have hbm : (bytes + 2147483648) % 4294967296 - 2147483648 = bytes := by omega
  by_cases h1 : nbufs < 1
  · have : nbufs.toNat < 1 := by omega
    by_cases h0 : c < 0 <;> simp [h0, h1, this, CEnum.UV_EINVAL, UV_EINVAL]
  · have : ¬ nbufs.toNat < 1 := by omega
    by_cases h0 : c < 0 <;> by_cases h2 : sq = 0 <;> by_cases h3 : r > 0 <;> by_cases h4 : addr = 0 <;>
      simp [h0, h1, h2, h3, h4, this, hbm, CEnum.UV_EAGAIN, UV_EAGAIN]

/-! ## uv_udp_try_send2 -/

/-- value returned by `uv_udp_try_send2` with `flags = 0` (uv-common.c:517-533 → udp.c:1425-1437): `v` =
    result of `uv__udp_sendmsgv` -/
def trySend2Ret (count : Nat) (sqCount : Int) (fdOpen : Bool) (v : Int) : Int :=
  if count < 1 then UV_EINVAL
  else if sqCount > 0 then UV_EAGAIN
  else if !fdOpen then UV_EINVAL
  else v

/-- `Udp.applyOp` on `.trySend2` returns exactly `trySend2Ret` -/
theorem applyOp_trySend2_ret (s : H) (count : Nat) (bufs : List Nat) (dest : Nat) (hc : s.closing = false) :
    (applyOp s (.trySend2 count bufs dest)).trace.getLast? =
      some (.ret (trySend2Ret count s.sqCount s.fdOpen (sendmsgv (mkDgrams s.nseq count bufs dest) s.souts).ret)) := by
  simp only [applyOp, hc, trySend2Ret, emit]
  simp only [Bool.false_eq_true, if_false]
  repeat' split
  all_goals simp_all

/-- the generated `uv_udp_try_send2` with the generated `uv__udp_try_send2` as its callee = `trySend2Ret`
    (`fd` = `handle->io_watcher.fd`, open iff `≠ -1`; `flags = 0` as the model's callers pass) -/
theorem udp_try_send2_eq (count sq fd v : Int) (hcnt : 0 ≤ count) :
    ((udp_try_send2 v fd).bind fun i => udp_try_send2_api i.ret count 0 sq).map (·.ret) =
      some (trySend2Ret count.toNat sq (decide (fd ≠ -1)) v) := by
  unfold udp_try_send2 udp_try_send2_api trySend2Ret CSem.u32 CSem.u64
  by_cases h1 : count < 1
  · have : count.toNat < 1 := by omega
    by_cases h3 : fd = -1 <;> simp [h1, h3, this, CEnum.UV_EINVAL, UV_EINVAL]
  · have : ¬ count.toNat < 1 := by omega
    by_cases h2 : sq > 0 <;> by_cases h3 : fd = -1 <;>
      simp [h1, h2, h3, this, CEnum.UV_EINVAL, UV_EINVAL, CEnum.UV_EAGAIN, UV_EAGAIN]

/-- a non-zero `flags` argument is refused before anything else but the count check -/
theorem udp_try_send2_flags (inner count flags sq : Int) (hc : ¬ count < 1) (hf : flags ≠ 0) :
    (udp_try_send2_api inner count flags sq).map (·.ret) = some UV_EINVAL := by
  unfold udp_try_send2_api CSem.u32
  simp [hc, hf, CEnum.UV_EINVAL, UV_EINVAL]

/-! non-vacuity: concrete runs of the generated kernels -/
example : (udp_prep_pkt 1 2 0 0 1).map (·.ret) = some 0 ∧ (udp_prep_pkt 1 5 0 0 1).map (·.ret) = some (-22) ∧
    (udp_prep_pkt 0 5 0 0 1).map (·.ret) = some 0 ∧ (udp_prep_pkt 1 10 0 0 1).map (·.h_msg_namelen) = some 28 := by
  decide +kernel
example : (udp_check_before_send 1 2 true 15).map (·.ret) = some (-106) ∧
    (udp_check_before_send 0 0 false 15).map (·.ret) = some (-89) ∧
    (udp_check_before_send 1 2 false 15).map (·.ret) = some 16 := by decide +kernel
example : ((udp_try_send 1 100 0 1 0 2).bind fun i => udp_try_send_api 16 i.ret).map (·.ret) = some 100 ∧
    ((udp_try_send 1 100 0 1 3 2).bind fun i => udp_try_send_api 16 i.ret).map (·.ret) = some (-11) := by decide +kernel

end UvModel.GenEq
