import UvModel.Generated.Kernels
import UvModel.FsBuf
/-!
  Tie A obligations for C11 (src/unix/fs.c): which system call `uv__fs_write` / `uv__fs_read` issue
  for a given (`req->off`, `req->nbufs`) — including the `iovmax` clamp of the read path — and the
  normalisation of the result in `uv__fs_work`, as generated from the current C text, equal
  `FsBuf.writeSys`, `FsBuf.readSys` (on the clamped count, as `FsBuf.fsRead` uses it) and
  `FsBuf.mapResult`.  The answers of the system calls are inputs: `f y` is what call `y` returns.
-/
set_option linter.unusedSimpArgs false
namespace UvModel.GenEq
open UvModel UvModel.Generated UvModel.FsBuf

/-- the value returned when the route is `r`: the chosen call's answer, `0` when no call is made -/
def routeVal (r : Option Sys) (f : Sys → Int) : Int :=
  match r with
  | none => 0
  | some y => f y

/-- `uv__fs_write` (fs.c:1196-1222) returns the answer of the call `FsBuf.writeSys` names -/
theorem fs_write_route_eq (f : Sys → Int) (off bufs fd : Int) (nbufs : Nat) (hn : nbufs < 2 ^ 64) :
    (fs_write_route (f .pwrite) (f .pwritev) (f .write) (f .writev) bufs fd nbufs off).map (·.ret)
      = some (routeVal (writeSys off nbufs) f) := by
  unfold fs_write_route writeSys routeVal CSem.u64
  have h1 : (nbufs : Int) % 18446744073709551616 = nbufs := by omega
  simp only [h1]
  by_cases ho : off < 0 <;> by_cases hb : nbufs = 1 <;> by_cases hc : nbufs > 1 <;>
    first
    | omega
    | (have hb' : ¬ (nbufs : Int) = 1 := by omega
       have hc' : (nbufs : Int) > 1 := by omega
       simp [ho, hb, hc, hb', hc'])
    | (have hb' : ¬ (nbufs : Int) = 1 := by omega
       have hc' : ¬ (nbufs : Int) > 1 := by omega
       simp [ho, hb, hc, hb', hc'])
    | simp [ho, hb, hc]

/-- `uv__fs_read` (fs.c:510-561) clamps the count to `iovmax` and returns the answer of the call
    `FsBuf.readSys` names for the clamped count — the route `FsBuf.fsRead` takes — and leaves
    `req->bufs = NULL`, `req->nbufs = 0` -/
theorem fs_read_route_eq {α : Type} (f : Sys → Int) (off bufsp bufsml cb fd : Int) (bufs : List (List α))
    (iovmax : Nat) (hn : bufs.length < 2 ^ 32) (hi : iovmax < 2 ^ 31) :
    (fs_read_route (f .pread) (f .read) (f .readv) iovmax (f .preadv) bufsp bufsml cb fd bufs.length off).map
        (fun o => (o.ret, o.req_bufs, o.req_nbufs))
      = some (routeVal (readSys off (bufs.take iovmax).length) f, 0, 0) := by
  unfold fs_read_route readSys routeVal CSem.u64 CSem.u32
  have h1 : (bufs.length : Int) % 18446744073709551616 = bufs.length := by omega
  have h2 : (iovmax : Int) % 4294967296 = iovmax := by omega
  have h3 : (iovmax : Int) % 18446744073709551616 = iovmax := by omega
  simp only [h1, h2, h3, List.length_take]
  by_cases hcl : bufs.length > iovmax
  · have hcl' : (bufs.length : Int) > (iovmax : Int) := by omega
    have hm : min iovmax bufs.length = iovmax := by omega
    simp only [hcl', hm, decide_true, if_true]
    by_cases ho : off < 0 <;> by_cases hb : iovmax = 1 <;> by_cases hc : iovmax > 1 <;>
      first
      | omega
      | (have hb' : ¬ (iovmax : Int) = 1 := by omega
         have hc' : (iovmax : Int) > 1 := by omega
         simp [ho, hb, hc, hb', hc'] <;> (repeat' split) <;> rfl)
      | (have hb' : ¬ (iovmax : Int) = 1 := by omega
         have hc' : ¬ (iovmax : Int) > 1 := by omega
         simp [ho, hb, hc, hb', hc'] <;> (repeat' split) <;> rfl)
      | (simp [ho, hb, hc] <;> (repeat' split) <;> rfl)
  · have hcl' : ¬ (bufs.length : Int) > (iovmax : Int) := by omega
    have hm : min iovmax bufs.length = bufs.length := by omega
    simp only [hcl', hm, decide_false, Bool.false_eq_true, if_false]
    by_cases ho : off < 0 <;> by_cases hb : bufs.length = 1 <;> by_cases hc : bufs.length > 1 <;>
      first
      | omega
      | (have hb' : ¬ (bufs.length : Int) = 1 := by omega
         have hc' : (bufs.length : Int) > 1 := by omega
         simp [ho, hb, hc, hb', hc'] <;> (repeat' split) <;> rfl)
      | (have hb' : ¬ (bufs.length : Int) = 1 := by omega
         have hc' : ¬ (bufs.length : Int) > 1 := by omega
         simp [ho, hb, hc, hb', hc'] <;> (repeat' split) <;> rfl)
      | (simp [ho, hb, hc] <;> (repeat' split) <;> rfl)

/-- `uv__fs_work` (fs.c:1750-1753): `req->result = (r == -1) ? UV__ERR(errno) : r` = `FsBuf.mapResult` -/
theorem fs_work_result_eq (r : Int) (errno : Nat) :
    (fs_work_result errno r).map (·.req_result) = some (mapResult r errno) := by
  unfold fs_work_result mapResult
  by_cases h : r = -1 <;> simp [h]

example : (fs_write_route 1 2 3 4 9 9 1 (-1)).map (·.ret) = some 3 ∧ (fs_write_route 1 2 3 4 9 9 2 (-1)).map (·.ret) = some 4 ∧
    (fs_write_route 1 2 3 4 9 9 1 0).map (·.ret) = some 1 ∧ (fs_write_route 1 2 3 4 9 9 5 7).map (·.ret) = some 2 ∧
    (fs_write_route 1 2 3 4 9 9 0 7).map (·.ret) = some 0 ∧
    (fs_read_route 1 2 3 1 4 9 8 0 9 5 (-1)).map (·.ret) = some 2 ∧ (fs_read_route 1 2 3 1024 4 9 8 0 9 5 (-1)).map (·.ret) = some 3 ∧
    (fs_work_result 4 (-1)).map (·.req_result) = some (-4) ∧ (fs_work_result 4 17).map (·.req_result) = some 17 := by decide

end UvModel.GenEq
