import UvModel.Generated.Kernels
import UvModel.Getter
/-!
  Tie A obligations for C19: the decision part (argument checks, the length-vs-`*size` comparison,
  the value left in `*size`, the return code) of the check-then-copy getters, as generated from the
  current C text with the library calls (`getenv`, `strlen`, `gethostname`, …) as inputs and the
  copies (`memcpy`, `buffer[len] = 0`) left out, equals `Getter.checkCopy` for the comparison style
  the model assigns to that getter.  Pointers: `0` = NULL.  `len + 1 < 2^64` holds for every C
  string (the object includes its terminator).
-/
namespace UvModel.GenEq
open UvModel UvModel.Generated UvModel.Getter

/-- the (return code, `*size`) part of a model result -/
def dec (r : Result) : Int × Int := (r.rc, (r.size : Int))

/-- `uv_os_getenv` (core.c:1485-1509) = `Getter.osGetenv`; `varp` is what `getenv` returned -/
theorem os_getenv_eq (var : Option (List Byte)) (size : Nat) (name buffer sizep varp : Int)
    (hn : name ≠ 0) (hb : buffer ≠ 0) (hs : sizep ≠ 0)
    (hv : varp = 0 ↔ var = none) (hlen : ∀ v, var = some v → v.length + 1 < 2 ^ 64) :
    (os_getenv buffer varp (((var.getD []).length : Nat) : Int) name sizep (size : Int)).map
        (fun o => (o.ret, o.size_deref)) = some (dec (osGetenv var size)) := by
  unfold os_getenv osGetenv checkCopy Cmp.tooSmall dec CSem.u64
  by_cases h0 : size = 0
  · simp [h0, CEnum.UV_EINVAL, EINVAL]
  · cases var with
    | none => simp [hn, hb, hs, h0, hv.mpr rfl, CEnum.UV_ENOENT, ENOENT]
    | some v =>
      have hvp : varp ≠ 0 := fun h => by simpa using hv.mp h
      have hl := hlen v rfl
      by_cases hc : v.length ≥ size
      · have hc' : (v.length : Int) ≥ (size : Int) := by omega
        simp [hn, hb, hs, h0, hvp, hc, hc', CEnum.UV_ENOBUFS, ENOBUFS]; omega
      · have hc' : ¬ (v.length : Int) ≥ (size : Int) := by omega
        simp [hn, hb, hs, h0, hvp, hc, hc']

/-- `uv_os_gethostname` (core.c:1536-1563) = `Getter.osGethostname` when `gethostname` succeeded (`rc = 0`); `len = strlen(buf)` after `buf[64] = 0` -/
theorem os_gethostname_eq (v : List Byte) (size : Nat) (buffer sizep : Int) (e : Int)
    (hb : buffer ≠ 0) (hs : sizep ≠ 0) (hlen : ((v.take 64).length) + 1 < 2 ^ 64) :
    (os_gethostname buffer 0 (((v.take 64).length : Nat) : Int) e sizep (size : Int)).map (fun o => (o.ret, o.size_deref)) = some (dec (osGethostname v size)) := by
  unfold os_gethostname osGethostname checkCopy Cmp.tooSmall dec CSem.u64
  generalize v.take 64 = w at *
  by_cases h0 : size = 0
  · simp [h0, CEnum.UV_EINVAL, EINVAL]
  · by_cases hc : (w.length) ≥ size
    · have hc' : (((w.length) : Nat) : Int) ≥ (size : Int) := by omega
      simp [hb, hs, h0, hc, hc', CEnum.UV_ENOBUFS, ENOBUFS]; omega
    · have hc' : ¬ (((w.length) : Nat) : Int) ≥ (size : Int) := by omega
      simp [hb, hs, h0, hc, hc']

/-- `uv_fs_event_getpath` (uv-common.c:663-684) = `Getter.fsEventGetpath` for an active handle -/
theorem fs_event_getpath_eq (v : List Byte) (size : Nat) (buffer sizep : Int)
    (hb : buffer ≠ 0) (hs : sizep ≠ 0) (hlen : (v.length) + 1 < 2 ^ 64) :
    (fs_event_getpath buffer ((v.length : Nat) : Int) true sizep (size : Int)).map (fun o => (o.ret, o.size_deref)) = some (dec (fsEventGetpath v size)) := by
  unfold fs_event_getpath fsEventGetpath checkCopy Cmp.tooSmall dec CSem.u64
  by_cases h0 : size = 0
  · simp [h0, CEnum.UV_EINVAL, EINVAL]
  · by_cases hc : (v.length) ≥ size
    · have hc' : (((v.length) : Nat) : Int) ≥ (size : Int) := by omega
      simp [hb, hs, h0, hc, hc', CEnum.UV_ENOBUFS, ENOBUFS]; omega
    · have hc' : ¬ (((v.length) : Nat) : Int) ≥ (size : Int) := by omega
      simp [hb, hs, h0, hc, hc']

/-- `uv_fs_poll_getpath` (fs-poll.c:138-164) = `Getter.fsPollGetpath` for an active handle (`uv_is_active` answered `act ≠ 0`) -/
theorem fs_poll_getpath_eq (v : List Byte) (size : Nat) (buffer sizep : Int) (act ctx : Int)
    (hb : buffer ≠ 0) (hs : sizep ≠ 0) (ha : act ≠ 0) (hlen : (v.length) + 1 < 2 ^ 64) :
    (fs_poll_getpath buffer ((v.length : Nat) : Int) act ctx sizep (size : Int)).map (fun o => (o.ret, o.size_deref)) = some (dec (fsPollGetpath v size)) := by
  unfold fs_poll_getpath fsPollGetpath checkCopy Cmp.tooSmall dec CSem.u64
  by_cases h0 : size = 0
  · simp [h0, CEnum.UV_EINVAL, EINVAL]
  · by_cases hc : (v.length) ≥ size
    · have hc' : (((v.length) : Nat) : Int) ≥ (size : Int) := by omega
      simp [hb, hs, h0, hc, hc', CEnum.UV_ENOBUFS, ENOBUFS, ha]; omega
    · have hc' : ¬ (((v.length) : Nat) : Int) ≥ (size : Int) := by omega
      simp [hb, hs, h0, hc, hc', ha]

/-- `uv_if_indextoname` (getaddrinfo.c:226-251) = `Getter.ifIndexToName` when `if_indextoname` found the interface (`p ≠ NULL`); `len = strnlen(ifname_buf, 16)` -/
theorem if_indextoname_eq (v : List Byte) (size : Nat) (buffer sizep : Int) (p e : Int)
    (hb : buffer ≠ 0) (hs : sizep ≠ 0) (hp : p ≠ 0) (hlen : ((v.take 16).length) + 1 < 2 ^ 64) :
    (if_indextoname buffer p (((v.take 16).length : Nat) : Int) e sizep (size : Int)).map (fun o => (o.ret, o.size_deref)) = some (dec (ifIndexToName v size)) := by
  unfold if_indextoname ifIndexToName checkCopy Cmp.tooSmall dec CSem.u64
  generalize v.take 16 = w at *
  by_cases h0 : size = 0
  · simp [h0, CEnum.UV_EINVAL, EINVAL]
  · by_cases hc : (w.length) ≥ size
    · have hc' : (((w.length) : Nat) : Int) ≥ (size : Int) := by omega
      simp [hb, hs, h0, hc, hc', CEnum.UV_ENOBUFS, ENOBUFS, hp]; omega
    · have hc' : ¬ (((w.length) : Nat) : Int) ≥ (size : Int) := by omega
      simp [hb, hs, h0, hc, hc', hp]

/-- `uv_get_process_title` (proctitle.c:125-149), after `uv_setup_args` (`args_mem ≠ NULL`): return code
    = `Getter.getProcessTitle`; `size` is passed by value, nothing is reported back -/
theorem get_process_title_eq (v : List Byte) (size : Nat) (buffer argsMem : Int)
    (hb : buffer ≠ 0) (ha : argsMem ≠ 0) :
    (get_process_title argsMem buffer ((v.length : Nat) : Int) (size : Int)).map (·.ret)
      = some (getProcessTitle v size).rc := by
  unfold get_process_title getProcessTitle CSem.u64
  by_cases h0 : size = 0
  · simp [h0, CEnum.UV_EINVAL, EINVAL]
  · by_cases hc : size ≤ v.length
    · have hc' : (size : Int) ≤ ((v.length : Nat) : Int) := by omega
      simp [hb, ha, h0, hc, hc', CEnum.UV_ENOBUFS, ENOBUFS]
    · have hc' : ¬ (size : Int) ≤ ((v.length : Nat) : Int) := by omega
      simp [hb, ha, h0, hc, hc']

/-- the `*size` bookkeeping of `uv__pipe_getsockpeername` (pipe.c:372-396) once `addrlen`/`slop` are
    known = `Getter.pipeCopy`'s (`.lenSlopGt` style: `addrlen + slop > *size`); `err ≥ 0`:
    `uv__getsockpeername` succeeded -/
theorem pipe_getname_size_eq (path : List Byte) (abstract : Bool) (addrlen : Nat) (old0 : Byte) (size : Nat)
    (err : Int) (he : 0 ≤ err) (ha : addrlen < 2 ^ 32) :
    (pipe_getname_size (addrlen : Int) err (size : Int) (if abstract then 0 else 1)).map
        (fun o => (o.ret, o.size_deref)) = some (dec (pipeCopy path abstract addrlen old0 size)) := by
  unfold pipe_getname_size pipeCopy dec CSem.u64
  have he' : ¬ err < 0 := by omega
  have h1 : (addrlen : Int) % 18446744073709551616 = addrlen := by omega
  have h2 : ((addrlen : Int) + 1) % 18446744073709551616 = addrlen + 1 := by omega
  have h3 : ((addrlen : Int) + 0) % 18446744073709551616 = addrlen := by omega
  cases abstract <;> simp only [he', Bool.false_eq_true, ite_false, ite_true, decide_false, h1, h2, h3]
  · by_cases hc : addrlen + 1 > size
    · have hc' : (addrlen : Int) + 1 > (size : Int) := by omega
      simp [hc, hc', CEnum.UV_ENOBUFS, ENOBUFS]
    · have hc' : ¬ (addrlen : Int) + 1 > (size : Int) := by omega
      simp [hc, hc']
  · by_cases hc : size < addrlen
    · have hc' : (addrlen : Int) > (size : Int) := by omega
      simp [hc, hc', CEnum.UV_ENOBUFS, ENOBUFS]
    · have hc' : ¬ (addrlen : Int) > (size : Int) := by omega
      simp [hc, hc']

/-- `uv__getsockpeername` failed: `*size = 0; return err` -/
theorem pipe_getname_size_err (addrlen slop size err : Int) (he : err < 0) :
    (pipe_getname_size addrlen err size slop).map (fun o => (o.ret, o.size_deref)) = some (err, 0) := by
  unfold pipe_getname_size CSem.u64; simp [he]

/-- the inactive-handle answers (`*size = 0; return UV_EINVAL`) and the library-failure answers
    (`return UV__ERR(errno)`, `*size` untouched) of the same kernels -/
theorem getter_side_exits (buffer sizep len size e ctx : Int) (hb : buffer ≠ 0) (hs : sizep ≠ 0) (h0 : size ≠ 0) (r : Int) (hr : r ≠ 0) :
    (fs_event_getpath buffer len false sizep size).map (fun o => (o.ret, o.size_deref)) = some (EINVAL, 0) ∧
    (fs_poll_getpath buffer len 0 ctx sizep size).map (fun o => (o.ret, o.size_deref)) = some (EINVAL, 0) ∧
    (os_gethostname buffer r len e sizep size).map (fun o => (o.ret, o.size_deref)) = some (-e, size) ∧
    (if_indextoname buffer 0 len e sizep size).map (fun o => (o.ret, o.size_deref)) = some (-e, size) := by
  unfold fs_event_getpath fs_poll_getpath os_gethostname if_indextoname CSem.u64
  simp [hb, hs, h0, hr, CEnum.UV_EINVAL, EINVAL]

example : (os_getenv 1 1 5 1 1 5).map (fun o => (o.ret, o.size_deref)) = some (-105, 6) ∧
    (os_getenv 1 1 5 1 1 6).map (fun o => (o.ret, o.size_deref)) = some (0, 5) ∧
    (if_indextoname 1 1 4 0 1 4).map (fun o => (o.ret, o.size_deref)) = some (-105, 5) ∧
    (fs_event_getpath 1 7 true 1 8).map (fun o => (o.ret, o.size_deref)) = some (0, 7) := by decide

end UvModel.GenEq
