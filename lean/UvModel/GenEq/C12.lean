import UvModel.Generated.Kernels
import UvModel.ProcFd
/-!
  Tie A obligation for C12: the wait-status decode of `uv__wait_children` (process.c:166-172, the
  glibc `WIFEXITED/WEXITSTATUS/WIFSIGNALED/WTERMSIG` macros expanded to bit operations on an `int`)
  as generated from the current C text equals `ProcFd.decode` on the 32-bit pattern of the status.
-/
namespace UvModel.GenEq
open UvModel UvModel.Generated UvModel.ProcFd

/-- a mask below 2^32 only sees the low 32 bits -/
theorem and_low32 (x m : Nat) (hm : m < 2 ^ 32) : x &&& m = x % 2 ^ 32 &&& m := by
  have h : m &&& (2 ^ 32 - 1) = m := by
    rw [Nat.and_two_pow_sub_one_eq_mod, Nat.mod_eq_of_lt hm]
  rw [← Nat.and_two_pow_sub_one_eq_mod x 32, Nat.and_assoc, Nat.and_comm (2 ^ 32 - 1) m, h]

/-- `status & m` as generated, for an `int` status and a literal mask `m < 2^31`: the `Nat` and of
    the status' 32-bit pattern with `m` -/
theorem land_status (st : Int) (m : Nat) (hlo : -2147483648 ≤ st) (hhi : st < 2147483648)
    (hm : m < 2 ^ 31) :
    CSem.i32 (CSem.land st (m : Int)) = (((st % 4294967296).toNat &&& m : Nat) : Int) := by
  unfold CSem.land CSem.u64 CSem.i32
  have hm' : m < 2147483648 := by simpa using hm
  have h2 : ((m : Int) % 18446744073709551616).toNat = m := by omega
  have h3 : (st % 18446744073709551616).toNat % 2 ^ 32 = (st % 4294967296).toNat := by omega
  rw [h2, show Nat.land (st % 18446744073709551616).toNat m = (st % 18446744073709551616).toNat &&& m from rfl,
    and_low32 _ m (by omega), h3]
  have hle : (st % 4294967296).toNat &&& m ≤ m := Nat.and_le_right
  simp only [Int.ofNat_eq_natCast]
  omega

/-- the decode in `uv__wait_children` = `ProcFd.decode`, for every `int` status -/
theorem wait_decode_eq (st : Int) (hlo : -2147483648 ≤ st) (hhi : st < 2147483648) :
    (wait_decode st).map (fun o => (o.exit_status, o.term_signal))
      = some (((decode (st % 4294967296).toNat).1 : Int), ((decode (st % 4294967296).toNat).2 : Int)) := by
  unfold wait_decode decode wIfExited wIfSignaled wExitStatus wTermSig
  rw [show (127 : Int) = ((127 : Nat) : Int) from rfl, show (65280 : Int) = ((65280 : Nat) : Int) from rfl,
    land_status st 127 hlo hhi (by decide), land_status st 65280 hlo hhi (by decide)]
  generalize (st % 4294967296).toNat = w
  have h7 : w &&& 127 ≤ 127 := Nat.and_le_right
  generalize hA : w &&& 127 = a at h7
  generalize hB : w &&& 65280 = b
  simp only [CSem.shr, CSem.i8, Int.shiftRight_eq_div_pow, Nat.shiftRight_eq_div_pow]
  have hg : ((((a : Int) + 1 + 128) % 256 - 128) / 2 ^ 1 > 0) = (1 ≤ a ∧ a ≤ 126) := by
    apply propext; omega
  have hm : ((if a + 1 ≥ 128 then ((a + 1 : Nat) : Int) - 256 else ((a + 1 : Nat) : Int)) / ((2 ^ 1 : Nat) : Int) > 0)
      = (1 ≤ a ∧ a ≤ 126) := by
    apply propext; split <;> omega
  simp only [hg, hm]
  by_cases ha : a = 0
  · subst ha; simp
  · by_cases hs : 1 ≤ a ∧ a ≤ 126
    · simp [ha, hs]
    · simp [ha, hs]

/-- exited with code 3; killed by SIGKILL; killed by SIGSEGV with core dump (0x80 set);
    stopped (0x7f: neither exited nor signaled); a negative `int` -/
example : (wait_decode 0x0300).map (fun o => (o.exit_status, o.term_signal)) = some (3, 0) ∧
    (wait_decode 9).map (fun o => (o.exit_status, o.term_signal)) = some (0, 9) ∧
    (wait_decode 0x8b).map (fun o => (o.exit_status, o.term_signal)) = some (0, 11) ∧
    (wait_decode 0x137f).map (fun o => (o.exit_status, o.term_signal)) = some (0, 0) ∧
    (wait_decode (-256)).map (fun o => (o.exit_status, o.term_signal)) = some (255, 0) := by decide

end UvModel.GenEq
