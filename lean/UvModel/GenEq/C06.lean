import UvModel.Generated.Kernels
import UvModel.StreamR
/-!
  Tie A obligations for C06 (read side): the argument/state checks of `uv_read_start`
  (src/uv-common.c), the flag and callback updates of `uv__read_start` and `uv_read_stop`
  (src/unix/stream.c; the watcher calls `uv__io_start`/`uv__io_stop` are left out, `pollin` stays tied
  by the correspondence harness), as generated from the current C text, equal `StreamR.readStart`
  and `StreamR.readStop`.  `0` = NULL; `hasCb` is `stream->read_cb != NULL`.
-/
namespace UvModel.GenEq
open UvModel UvModel.Generated UvModel.StreamR

/-- `uv_read_start` + `uv__read_start` = `StreamR.readStart` for a call with non-NULL arguments:
    same return code; on success the same `UV_HANDLE_READING`, `UV_HANDLE_READ_EOF`, `read_cb`
    presence; on failure the model leaves the stream untouched, as the C (which returns before
    `uv__read_start`) does. -/
theorem read_start_eq (s : St) (streamp acb rcb ah : Int) (act ref : Bool)
    (hs : streamp ≠ 0) (ha : acb ≠ 0) (hr : rcb ≠ 0) :
    ∃ o, read_start_body acb rcb act ref ah = some o ∧
      (read_start_api acb o.ret rcb streamp s.closing s.readable s.reading).map (·.ret) = some (readStart s).1 ∧
      ((readStart s).1 = 0 →
         (readStart s).2.reading = o.stream_flags__UV_HANDLE_READING ∧
         (readStart s).2.readEof = o.stream_flags__UV_HANDLE_READ_EOF ∧
         (readStart s).2.hasCb = decide (o.stream_read_cb ≠ 0)) ∧
      ((readStart s).1 ≠ 0 → (readStart s).2 = s) := by
  unfold read_start_body read_start_api readStart
  cases act <;> cases ref <;> cases hcl : s.closing <;> cases hrd : s.reading <;> cases hrb : s.readable <;>
    simp [hs, ha, hr, CEnum.UV_EINVAL, CEnum.UV_EALREADY, CEnum.UV_ENOTCONN, UV_EINVAL, UV_EALREADY, UV_ENOTCONN]

/-- `uv_read_stop` (stream.c:1471-1483) = `StreamR.readStop`: always 0; reading is switched off and
    the callbacks are cleared exactly when the stream was reading -/
theorem read_stop_eq (s : St) (sacb srcb ah : Int) (act ref : Bool) (hcb : s.hasCb = decide (srcb ≠ 0)) :
    (read_stop sacb act s.reading ref ah srcb).map
        (fun o => (o.ret, o.stream_flags__UV_HANDLE_READING, decide (o.stream_read_cb ≠ 0)))
      = some (0, (readStop s).reading, (readStop s).hasCb) := by
  unfold read_stop readStop
  cases act <;> cases ref <;> cases hrd : s.reading <;> simp [hcb, hrd]

example : (read_start_api 1 0 1 1 false true false).map (·.ret) = some 0 ∧
    (read_start_api 1 0 1 1 true true false).map (·.ret) = some (-22) ∧
    (read_start_api 1 0 1 1 false true true).map (·.ret) = some (-114) ∧
    (read_start_api 1 0 1 1 false false false).map (·.ret) = some (-107) ∧
    (read_stop 5 true true true 3 6).map (fun o => (o.stream_flags__UV_HANDLE_READING, o.stream_read_cb, o.stream_loop_active_handles))
      = some (false, 0, 2) := by decide

end UvModel.GenEq
