import UvModel.Generated.Kernels
import UvModel.StreamW
/-!
  Tie A obligations for C05 (src/unix/stream.c, write side): the return-value decision of
  `uv_try_write2`, the entry table `uv__check_before_write`, the iovec-count clamp and the
  errno mapping at the end of `uv__try_write`, as generated from the current C text, equal what
  `StreamW.tryWrite2`, `StreamW.checkBeforeWrite` and `StreamW.tryWriteOnce` compute.
  `0` = NULL.  `uv__getiovmax()` is the model's `IOV_MAX`.
-/
namespace UvModel.GenEq
open UvModel UvModel.Generated UvModel.StreamW

/-- `uv__check_before_write` (stream.c:1295-1331) = `StreamW.checkBeforeWrite`.  The write model
    abstracts "`type == UV_NAMED_PIPE && ipc`" as `s.ipc` and only ever sends open handles
    (`uv__handle_fd(send_handle) ≥ 0`). -/
theorem check_before_write_w_eq (s : S) (send : Bool) (fd ty ipc sendp hfd : Int)
    (hfd0 : s.fdOpen = decide (0 ≤ fd)) (hty : 0 ≤ ty ∧ ty < 4294967296)
    (hipc : s.ipc = (decide (ty = CEnum.UV_NAMED_PIPE) && decide (ipc ≠ 0)))
    (hsend : send = decide (sendp ≠ 0)) (hh : 0 ≤ hfd) :
    (check_before_write hfd sendp s.writable fd ipc ty).map (·.ret) = some (checkBeforeWrite s send) := by
  unfold check_before_write checkBeforeWrite CSem.u32
  simp only [CEnum.UV_NAMED_PIPE] at *
  have hm : ty % 4294967296 = ty := by omega
  have hh' : ¬ hfd < 0 := by omega
  by_cases h1 : fd < 0
  · have : ¬ 0 ≤ fd := by omega
    simp [h1, hfd0, this, CEnum.UV_EBADF, UV_EBADF]
  · have : 0 ≤ fd := by omega
    by_cases h2 : s.writable <;> by_cases h3 : sendp = 0 <;> by_cases h4 : ty = 7 <;> by_cases h5 : ipc = 0 <;>
      simp [h1, h2, h3, h4, h5, hm, hh', hfd0, this, hipc, hsend, CEnum.UV_EPIPE, UV_EPIPE, CEnum.UV_EINVAL, UV_EINVAL]

/-- `uv_try_write2` (stream.c:1423-1438): which of `UV_EAGAIN`, the entry check's error and
    `uv__try_write`'s answer is returned = the return value of `StreamW.tryWrite2` -/
theorem try_write2_eq (s : S) (bufs : List Nat) (send : Bool) (connreq : Int)
    (hc : s.connecting = decide (connreq ≠ 0)) :
    let s' := { s with nextId := s.nextId + 1 }
    (try_write2 (checkBeforeWrite s' send) (tryWriteOnce s' bufs send s.nextId 0).1 connreq s.wqs).map (·.ret)
      = some (tryWrite2 s bufs send).2 := by
  intro s'
  have hdef : (tryWrite2 s bufs send).2 =
      if s.connecting ∨ s.wqs ≠ 0 then UV_EAGAIN
      else if checkBeforeWrite s' send < 0 then checkBeforeWrite s' send
      else (tryWriteOnce s' bufs send s.nextId 0).1 := by
    unfold tryWrite2
    simp only []
    repeat' (first | rfl | split)
  rw [hdef]
  unfold try_write2 CSem.u64
  by_cases h1 : connreq = 0 <;> by_cases h2 : s.wqs = 0 <;> by_cases h3 : checkBeforeWrite s' send < 0 <;>
    simp [hc, h1, h2, h3, CEnum.UV_EAGAIN, UV_EAGAIN]

/-- the iovec count handed to the kernel (stream.c:767-774) = the `iovcnt` of `StreamW.tryWriteOnce`
    (`nbufs` is an `unsigned int` converted to `int`: counts below 2^31) -/
theorem try_write_iovcnt_eq (lens : List Nat) (h : lens.length < 2 ^ 31) :
    (try_write_iovcnt (IOV_MAX : Nat) (lens.length : Nat)).map (·.iovcnt)
      = some (((if lens.length > IOV_MAX then IOV_MAX else lens.length : Nat)) : Int) := by
  unfold try_write_iovcnt CSem.i32 IOV_MAX
  have h1 : ((lens.length : Int) + 2147483648) % 4294967296 - 2147483648 = lens.length := by omega
  simp only [h1]
  by_cases hc : lens.length > 1024
  · have : (1024 : Int) < (lens.length : Int) := by omega
    simp [hc, this]
  · have : ¬ (1024 : Int) < (lens.length : Int) := by omega
    simp [hc, this]

theorem try_result_aux (r : Int × S) :
    (if r.1 ≥ 0 then r else if r.1 = -(EAGAIN : Int) ∨ r.1 = -(ENOBUFS : Int) then (UV_EAGAIN, r.2) else r).1 =
      if r.1 ≥ 0 then r.1 else if r.1 = -(EAGAIN : Int) ∨ r.1 = -(ENOBUFS : Int) then UV_EAGAIN else r.1 := by
  split
  · rfl
  · split <;> rfl

theorem try_write_result_core (x n errno : Int) (hx : x < 2147483648) (hpos : 0 ≤ x → n = x)
    (hneg : x < 0 → n = -1 ∧ errno = -x) :
    (try_write_result errno n).map (·.ret) =
      some (if x ≥ 0 then x else if x = -(EAGAIN : Int) ∨ x = -(ENOBUFS : Int) then UV_EAGAIN else x) := by
  unfold try_write_result CSem.i32
  by_cases h0 : 0 ≤ x
  · have hn := hpos h0
    subst hn
    have : (n + 2147483648) % 4294967296 - 2147483648 = n := by omega
    simp [h0, this]
  · have hlt : x < 0 := by omega
    obtain ⟨hn, he⟩ := hneg hlt
    subst hn he
    have h0' : ¬ x ≥ 0 := by omega
    by_cases ha : x = -11
    · subst ha; simp [EAGAIN, ENOBUFS, UV_EAGAIN, CEnum.UV_EAGAIN]
    · by_cases hb : x = -105
      · subst hb; simp [EAGAIN, ENOBUFS, UV_EAGAIN, CEnum.UV_EAGAIN]
      · have e1 : ¬ (-x = 11) := by omega
        have e2 : ¬ (-x = 105) := by omega
        simp [h0', ha, hb, e1, e2, EAGAIN, ENOBUFS]

/-- the tail of `uv__try_write` (stream.c:818-838): a count is returned as it is, `EAGAIN` /
    `EWOULDBLOCK` / `ENOBUFS` become `UV_EAGAIN`, any other errno is negated = the first component of
    `StreamW.tryWriteOnce`, where `x` is what the model's system-call loop answered (a count, or
    `-errno`); `n`/`errno` are the C variables in that situation.  Counts fit an `int` (Linux
    transfers at most 0x7ffff000 bytes per call). -/
theorem try_write_result_eq (s : S) (lens : List Nat) (send : Bool) (tag off : Nat) (n errno : Int) :
    let iovcnt := if lens.length > IOV_MAX then IOV_MAX else lens.length
    let total := (lens.take iovcnt).sum
    let kind := if send then 2 else if iovcnt = 1 then 0 else 1
    let x := (sysLoop kind iovcnt total send tag off s.env s).1
    x < 2147483648 → (0 ≤ x → n = x) → (x < 0 → n = -1 ∧ errno = -x) →
    (try_write_result errno n).map (·.ret) = some (tryWriteOnce s lens send tag off).1 := by
  intro iovcnt total kind x hx hpos hneg
  have hdef : (tryWriteOnce s lens send tag off).1 =
      if x ≥ 0 then x else if x = -(EAGAIN : Int) ∨ x = -(ENOBUFS : Int) then UV_EAGAIN else x :=
    try_result_aux _
  rw [hdef]
  exact try_write_result_core x n errno hx hpos hneg

example : (try_write2 0 7 0 0).map (·.ret) = some 7 ∧ (try_write2 0 7 1 0).map (·.ret) = some (-11) ∧
    (try_write2 (-32) 7 0 0).map (·.ret) = some (-32) ∧ (try_write2 0 7 0 5).map (·.ret) = some (-11) ∧
    (try_write_iovcnt 1024 2000).map (·.iovcnt) = some 1024 ∧ (try_write_iovcnt 1024 3).map (·.iovcnt) = some 3 ∧
    (try_write_result 11 (-1)).map (·.ret) = some (-11) ∧ (try_write_result 105 (-1)).map (·.ret) = some (-11) ∧
    (try_write_result 32 (-1)).map (·.ret) = some (-32) ∧ (try_write_result 32 9).map (·.ret) = some 9 := by decide

end UvModel.GenEq
