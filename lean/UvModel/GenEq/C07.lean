import UvModel.Generated.Kernels
import UvModel.Accept
/-!
  Tie A obligation for C07: `uv__check_before_write` (stream.c) as generated from the current C
  text equals `Accept.checkBeforeWrite`, the table `uv_write2`/`uv_try_write2` consult before a
  handle is queued for sending.
-/
namespace UvModel.GenEq
open UvModel UvModel.Generated UvModel.Accept

/-- `uv__check_before_write` = `Accept.checkBeforeWrite`.  `ty` is `stream->type` (an enum, hence
    `0 ≤ ty < 2^32`), `ipc` the `int` field of the pipe, `sendp` the `send_handle` pointer and `hfd`
    what `uv__handle_fd(send_handle)` answers. -/
theorem check_before_write_eq (s : WStream) (send : Option Int) (ty ipc sendp hfd : Int)
    (hty : 0 ≤ ty ∧ ty < 4294967296) (hpipe : s.isPipe = decide (ty = CEnum.UV_NAMED_PIPE))
    (hipc : s.ipc = decide (ipc ≠ 0)) (hsend : sendp = 0 ↔ send = none)
    (hhfd : ∀ d, send = some d → hfd = d) :
    (check_before_write hfd sendp s.writable s.fd ipc ty).map (·.ret) = some (checkBeforeWrite s send) := by
  unfold check_before_write checkBeforeWrite CSem.u32
  simp only [CEnum.UV_NAMED_PIPE] at *
  by_cases h1 : s.fd < 0
  · simp [h1, CEnum.UV_EBADF, EBADF]
  · by_cases h2 : s.writable
    · cases send with
      | none => simp [h1, h2, hsend.mpr rfl]
      | some d =>
        have hsp : sendp ≠ 0 := fun h => by simpa using hsend.mp h
        have hd := hhfd d rfl
        subst hd
        have hm : ty % 4294967296 = ty := by omega
        by_cases h3 : ty = 7 <;> by_cases h4 : ipc = 0 <;> by_cases h5 : hfd < 0 <;>
          simp [h1, h2, hsp, hpipe, hipc, hm, h3, h4, h5, CEnum.UV_EINVAL, EINVAL, CEnum.UV_EBADF, EBADF]
    · simp [h1, h2, CEnum.UV_EPIPE, EPIPE]

example : (check_before_write 5 1 true 4 1 7).map (·.ret) = some 0 ∧
    (check_before_write 5 1 true 4 0 7).map (·.ret) = some (-22) ∧
    (check_before_write 5 1 true 4 1 12).map (·.ret) = some (-22) ∧
    (check_before_write (-1) 1 true 4 1 7).map (·.ret) = some (-9) ∧
    (check_before_write 5 0 false 4 1 7).map (·.ret) = some (-32) := by decide

end UvModel.GenEq
