import UvModel.Generated.Kernels
import UvModel.HandleKernels
/-!
  Tie A obligations for C03: the loop-free decision code of `uv_run` (core.c:427-492) around its
  `while` loop, as generated from the current C text:
  * `run_entry`  — the statements before the loop: `r = uv__loop_alive(loop)`, the clock update when the
    loop is not alive, the UV_RUN_DEFAULT initial timers pass (`HandleKernels.initialTimers`);
  * `run_iter`   — ONE iteration of `while (r != 0 && loop->stop_flag == 0)`: the loop condition
    (`HandleKernels.runCond`), the order of the phase calls and the timeout handed to `uv__io_poll`
    (`runTimeout ∘ canSleep`), the loop counter, `r = uv__loop_alive(loop)`, and the
    `if (mode == UV_RUN_ONCE || mode == UV_RUN_NOWAIT) break;` decision (`loop_again`);
    the inner `for (r = 0; r < 8 && !empty(pending_queue); r++) uv__run_pending(loop);` is abstracted
    (its up to eight `uv__run_pending` calls are not in `call_seq`; `r` is overwritten afterwards);
  * `run_exit`   — the statements after the loop: `stop_flag` reset, `return r`.
  The right-hand sides are what `LoopRun.uvRun` / `LoopRun.runLoop` / `LoopRun.iteration` are written
  with: `alive`, `initialTimers`, `runCond`, `canSleep`, `runTimeout`, the order of the `let`s of
  `iteration`, `loopCount + 1`, `mode == .once || mode == .nowait`, `stop := false`.
-/
namespace UvModel.GenEq.Run
open UvModel UvModel.Generated UvModel.HandleKernels

/-- `uv_run_mode` values -/
def modeVal : Mode → Int
  | .default => CEnum.UV_RUN_DEFAULT
  | .once => CEnum.UV_RUN_ONCE
  | .nowait => CEnum.UV_RUN_NOWAIT

abbrev Calls := List (String × List Int)

/-- calls made before the loop (the first two `let`s of `LoopRun.uvRun`): `updateTime` when the loop is not
    alive; `updateTime`, `runTimers` when `initialTimers` -/
def entryCalls (m : Mode) (r stop : Bool) : Calls :=
  (if !r then [("uv__update_time", [])] else []) ++
  (if initialTimers m r stop then [("uv__update_time", []), ("uv__run_timers", [])] else [])

/-- `uv_run` before its loop -/
theorem run_entry_eq (alive stopFlag : Int) (m : Mode) :
    run_entry [] alive stopFlag (modeVal m) =
      some { ret := 0, call_seq := entryCalls m (decide (alive ≠ 0)) (decide (stopFlag ≠ 0)), r := alive } := by
  unfold run_entry entryCalls initialTimers modeVal CSem.u32
  by_cases h1 : alive = 0 <;> by_cases h2 : stopFlag = 0 <;> cases m <;>
    simp [h1, h2, CEnum.UV_RUN_DEFAULT, CEnum.UV_RUN_ONCE, CEnum.UV_RUN_NOWAIT]

/-- the phase calls of one iteration in the order of `LoopRun.iteration`: runPending, runWatchers idle,
    runWatchers prepare, ioPoll with the decided timeout, (pendingRounds: abstracted), runWatchers check,
    runClosing, updateTime, runTimers -/
def iterCalls (timeout : Int) : Calls :=
  [("uv__run_pending", []), ("uv__run_idle", []), ("uv__run_prepare", []), ("uv__io_poll", [timeout]),
   ("uv__run_check", []), ("uv__run_closing_handles", []), ("uv__update_time", []), ("uv__run_timers", [])]

/-- one iteration of `uv_run`'s loop: entered iff `runCond`; polls with `runTimeout mode (canSleep …) bt`;
    counts the iteration; `r` becomes `uv__loop_alive(loop)`; continues iff the mode is UV_RUN_DEFAULT.
    `hv` is whatever the abstracted inner loop left in `r`: the result does not depend on it. -/
theorem run_iter_eq (r stopFlag bt aliveAfter hv lc : Int) (pe ie : Bool) (m : Mode)
    (hlc : 0 ≤ lc ∧ lc + 1 < 18446744073709551616) :
    run_iter [] bt aliveAfter hv ie lc pe stopFlag (modeVal m) r =
      some (if runCond (decide (r ≠ 0)) (decide (stopFlag ≠ 0)) then
              { ret := 0, call_seq := iterCalls (runTimeout m (canSleep pe ie) bt),
                loop_internal_fields_loop_metrics_metrics_loop_count := lc + 1,
                r := aliveAfter, loop_again := !(m == .once || m == .nowait) }
            else
              { ret := 0, call_seq := [], loop_internal_fields_loop_metrics_metrics_loop_count := lc,
                r := r, loop_again := false }) := by
  unfold run_iter iterCalls runCond runTimeout canSleep modeVal CSem.u32 CSem.u64 CSem.b2i
  have hm : (lc + 1) % 18446744073709551616 = lc + 1 := by omega
  by_cases h1 : r = 0 <;> by_cases h2 : stopFlag = 0 <;> cases m <;> cases pe <;> cases ie <;>
    simp [h1, h2, hm, CEnum.UV_RUN_DEFAULT, CEnum.UV_RUN_ONCE, CEnum.UV_RUN_NOWAIT]

/-- `uv_run` after its loop: `loop->stop_flag` is 0 afterwards and `r` is returned (`{ s with stop := false }, r`) -/
theorem run_exit_eq (stopFlag r : Int) :
    run_exit stopFlag r = some { ret := r, loop_stop_flag := 0 } := by
  unfold run_exit CSem.u32
  by_cases h : stopFlag = 0 <;> simp [h]

/-! non-vacuity: concrete runs of the generated kernels -/
example : (run_entry [] 1 0 0).map (·.call_seq) = some [("uv__update_time", []), ("uv__run_timers", [])] ∧
    (run_entry [] 0 0 0).map (·.call_seq) = some [("uv__update_time", [])] ∧
    (run_entry [] 1 0 1).map (·.call_seq) = some [] := by decide +kernel
example : (run_iter [] 250 1 0 true 7 true 0 1 1).map (fun o => (o.call_seq.map (·.2), o.loop_again, o.r)) =
    some ([[], [], [], [250], [], [], [], []], false, 1) ∧
    (run_iter [] 250 1 0 false 7 true 0 1 1).map (fun o => o.call_seq.map (·.2)) =
    some [[], [], [], [0], [], [], [], []] ∧
    (run_iter [] 250 1 0 true 7 true 1 0 1).map (·.loop_again) = some false := by decide +kernel

end UvModel.GenEq.Run
