/-!
# C16 — resource exhaustion and EINTR: executable model

Three parts (DESIGN.md §3 C16):

1. retry combinators: `retryEintr` models `do r = call(); while (r == -1 && errno == EINTR);`
   (e.g. src/unix/stream.c:808-815, 1063-1081, core.c:566-572, udp.c:1276-1278; the census of all such
   loops is generated into `UvModel/Generated/RetryCensus.lean`), `runW` models "EAGAIN/ENOBUFS → arm
   POLLOUT and return; retry on readiness" (stream.c:820-821, 877-890; udp.c:1281-1284).
2. per-operation fault atomicity: every accounting-relevant API entry point is written down as the
   list of its effects in source order (`Step`s); a step that allocates or makes a system call is a
   fault point with the error exit the C code takes there.  `runFrom` executes such a program under
   a fault oracle (which fault point fails, with which errno).
3. sequences of operations under arbitrary fault schedules (`runActs`).

Kernel answers and allocation failures are inputs.  Counters are `Int`s; non-negativity is proved.
-/
namespace UvModel.Fault

/-! ## errno values (Linux) -/
def EINTR : Nat := 4
def EAGAIN : Nat := 11
def ENOMEM : Nat := 12
def ENFILE : Nat := 23
def EMFILE : Nat := 24
def ENOBUFS : Nat := 105

/-! ## 1a. EINTR retry loop -/

/-- result of one system call attempt: `r >= 0`, or `r == -1` with `errno = e` -/
inductive Outcome where
  | ok (v : Nat)
  | err (e : Nat)
  deriving DecidableEq, Repr

def Outcome.isEintr : Outcome → Bool
  | .err e => e == EINTR
  | .ok _ => false

/-- `do r = call(); while (r == -1 && errno == EINTR);`  `f i` is the kernel's answer to the i-th
attempt.  Returns the index of the attempt that ended the loop together with its outcome (so the
number of system calls made is visible); `none` = fuel exhausted. -/
def retryFrom (f : Nat → Outcome) : Nat → Nat → Option (Nat × Outcome)
  | 0, _ => none
  | fuel + 1, i => if (f i).isEintr then retryFrom f fuel (i + 1) else some (i, f i)

def retryEintr (f : Nat → Outcome) (fuel : Nat) : Option (Nat × Outcome) := retryFrom f fuel 0

/-- the answer stream `g` preceded by `n` interruptions -/
def interrupt (n : Nat) (g : Nat → Outcome) : Nat → Outcome :=
  fun i => if i < n then .err EINTR else g (i - n)

/-! ## 1b. would-block: arm the watcher and retry on readiness
`uv__write` / `uv__udp_sendmsg`: the head of the queue is attempted; on EAGAIN/EWOULDBLOCK/ENOBUFS the
function returns with POLLOUT armed and the queue untouched; the next readiness event calls it again. -/

inductive Resp where
  | accept                 -- the kernel took the request
  | wouldblock (e : Nat)   -- EAGAIN or ENOBUFS
  deriving DecidableEq, Repr

structure WState where
  queue : List Nat      -- requests not yet written, in submission order
  done : List Nat       -- completed requests in completion order (the observable trace)
  pollout : Bool        -- POLLOUT armed
  deriving DecidableEq, Repr

/-- one readiness event: one attempt on the head of the queue -/
def attempt (s : WState) : Resp → WState
  | .accept =>
    match s.queue with
    | [] => { s with pollout := false }
    | q :: qs => { queue := qs, done := s.done ++ [q], pollout := !qs.isEmpty }
  | .wouldblock _ =>
    match s.queue with
    | [] => { s with pollout := false }
    | _ :: _ => { s with pollout := true }

def runW (s : WState) (rs : List Resp) : WState := rs.foldl attempt s

def accepts : List Resp → Nat
  | [] => 0
  | .accept :: rs => accepts rs + 1
  | .wouldblock _ :: rs => accepts rs

/-! ## 2. fault atomicity of the accounting-relevant operations -/

/-- what the accounting consists of: `loop->active_reqs.count`, live blocks obtained from the libuv
allocator, descriptors opened by libuv, `loop->active_handles`, queue memberships (write_queue, wq,
handle_queue, watcher lists), kernel inotify watches -/
@[ext] structure D where
  reqs : Int
  mem : Int
  fds : Int
  handles : Int
  queued : Int
  watches : Int
  deriving DecidableEq, Repr

instance : Add D := ⟨fun a b => ⟨a.reqs + b.reqs, a.mem + b.mem, a.fds + b.fds, a.handles + b.handles,
                                 a.queued + b.queued, a.watches + b.watches⟩⟩
instance : Neg D := ⟨fun a => ⟨-a.reqs, -a.mem, -a.fds, -a.handles, -a.queued, -a.watches⟩⟩
def D.zero : D := ⟨0, 0, 0, 0, 0, 0⟩

inductive Eff where
  | reqReg | reqUnreg        -- uv__req_register / uv__req_unregister
  | alloc | free             -- uv__malloc family / uv__free
  | fdOpen | fdClose
  | hStart | hStop           -- uv__handle_start / uv__handle_stop on an inactive / active handle
  | enq | deq                -- queue insert / remove
  | watchAdd | watchRm       -- inotify_add_watch creating a new wd / inotify_rm_watch
  deriving DecidableEq, Repr

def Eff.delta : Eff → D
  | .reqReg => ⟨1, 0, 0, 0, 0, 0⟩   | .reqUnreg => ⟨-1, 0, 0, 0, 0, 0⟩
  | .alloc => ⟨0, 1, 0, 0, 0, 0⟩    | .free => ⟨0, -1, 0, 0, 0, 0⟩
  | .fdOpen => ⟨0, 0, 1, 0, 0, 0⟩   | .fdClose => ⟨0, 0, -1, 0, 0, 0⟩
  | .hStart => ⟨0, 0, 0, 1, 0, 0⟩   | .hStop => ⟨0, 0, 0, -1, 0, 0⟩
  | .enq => ⟨0, 0, 0, 0, 1, 0⟩      | .deq => ⟨0, 0, 0, 0, -1, 0⟩
  | .watchAdd => ⟨0, 0, 0, 0, 0, 1⟩ | .watchRm => ⟨0, 0, 0, 0, 0, -1⟩

def net : List Eff → D
  | [] => D.zero
  | e :: es => e.delta + net es

inductive FaultKind where
  | alloc    -- the step is a uv__malloc/uv__calloc/uv__strdup: failure = NULL = UV_ENOMEM
  | sys      -- the step is a system call: failure = -1/errno = UV__ERR(errno)
  deriving DecidableEq, Repr

/-- UV_ENOMEM for a failed allocation, UV__ERR(errno) = -errno for a failed system call -/
def errCode : FaultKind → Nat → Int
  | .alloc, _ => -(ENOMEM : Int)
  | .sys, e => -(e : Int)

/-- one step of an operation, in source order: its effects when it succeeds; whether it is a fault
point; the effects of the error exit the C code takes when it fails there -/
structure Step where
  eff : List Eff
  fault : Option FaultKind := none
  undo : List Eff := []
  label : String := ""
  deriving Repr

abbrev Op := List Step

/-- fault oracle: `some (k, e)` = the k-th fault point (0-based, in execution order) fails with errno `e` -/
abbrev Fault := Option (Nat × Nat)

/-- execute an operation; result = new accounting state and the return code (0 or UV_E*) -/
def runFrom : Op → D → Fault → D × Int
  | [], st, _ => (st, 0)
  | s :: rest, st, f =>
    match s.fault with
    | none => runFrom rest (st + net s.eff) f
    | some kind =>
      match f with
      | none => runFrom rest (st + net s.eff) none
      | some (0, e) => (st + net s.undo, errCode kind e)
      | some (k + 1, e) => runFrom rest (st + net s.eff) (some (k, e))

/-- every error exit undoes exactly what was done before it (`acc` = net effect so far) -/
def balancedFrom (acc : D) : Op → Bool
  | [] => true
  | s :: rest => (s.fault.isNone || decide (acc + net s.undo = D.zero)) && balancedFrom (acc + net s.eff) rest

def balanced (op : Op) : Bool := balancedFrom D.zero op

/-- net fault-free effect of an operation -/
def total : Op → D
  | [] => D.zero
  | s :: rest => net s.eff + total rest

def nFaultPoints : Op → Nat
  | [] => 0
  | s :: rest => (if s.fault.isSome then 1 else 0) + nFaultPoints rest

/-! ### the operations, effect by effect (file:line = /repo/src) -/

def rep (n : Nat) (e : Eff) : List Eff := List.replicate n e

/-- `uv_write2` (unix/stream.c:1339-1395): uv__req_init registers; bufs are heap-allocated when nbufs > 4
(ARRAY_SIZE(req->bufsml)); the ENOMEM exit unregisters (fix 78db063); then the request is queued. -/
def uvWrite2 (nbufs : Nat) : Op :=
  [ { eff := [.reqReg], label := "uv__req_init" } ] ++
  (if nbufs > 4 then [ { eff := [.alloc], fault := some .alloc, undo := [.reqUnreg], label := "alloc" } ] else []) ++
  [ { eff := [.enq], label := "write_queue" } ]

/-- `uv_write2` as it was before the fix (seeded revert L5): the ENOMEM exit forgets the unregister -/
def uvWrite2Old (nbufs : Nat) : Op :=
  [ { eff := [.reqReg] } ] ++
  (if nbufs > 4 then [ { eff := [.alloc], fault := some .alloc, undo := [] } ] else []) ++
  [ { eff := [.enq] } ]

/-- `uv__udp_send` (unix/udp.c:572-632) on a bound handle: register, heap bufs when nbufs > 4 with the
unregister on ENOMEM (udp.c:605-608), queue, start the handle if it was inactive. -/
def udpSend (nbufs : Nat) (wasActive : Bool) : Op :=
  [ { eff := [.reqReg], label := "uv__req_init" } ] ++
  (if nbufs > 4 then [ { eff := [.alloc], fault := some .alloc, undo := [.reqUnreg], label := "alloc" } ] else []) ++
  [ { eff := [.enq] ++ (if wasActive then [] else [.hStart]), label := "queue+start" } ]

/-- what an asynchronous uv_fs_* call copies to the heap before POST: nothing, the path(s), or > 4 bufs -/
inductive FsAlloc where
  | none | path | bufs
  deriving DecidableEq, Repr

/-- `uv_fs_*` through INIT / PATH|PATH2|bufs copy / POST (unix/fs.c:90-153, 2029-2062): INIT registers
nothing; an asynchronous call duplicates the path(s) or copies more than 4 bufs (one allocation each,
plain `return UV_ENOMEM`); only POST registers the request and submits the work. -/
def fsOp (async : Bool) (a : FsAlloc) : Op :=
  (if async && a != .none then [ { eff := [.alloc], fault := some .alloc, undo := [], label := "alloc" } ] else []) ++
  (if async then [ { eff := [.reqReg, .enq], label := "POST" } ] else [])

/-- `uv_queue_work` (threadpool.c:367-385): no allocation, no system call before the request is registered -/
def queueWork : Op := [ { eff := [.reqReg, .enq], label := "uv__req_init+submit" } ]

/-- `uv_getaddrinfo` with a callback (unix/getaddrinfo.c:172-211): the single allocation precedes uv__req_init -/
def getaddrinfoAsync : Op :=
  [ { eff := [.alloc], fault := some .alloc, undo := [], label := "alloc" },
    { eff := [.reqReg, .enq], label := "uv__req_init+submit" } ]

/-- `uv_pipe_bind2` (unix/pipe.c:108-144): copy of the name, socket, bind; each later failure releases the earlier -/
def pipeBind : Op :=
  [ { eff := [.alloc], fault := some .alloc, undo := [], label := "alloc" },
    { eff := [.fdOpen], fault := some .sys, undo := [.free], label := "sys:socket" },
    { eff := [], fault := some .sys, undo := [.fdClose, .free], label := "sys:bind" } ]

/-- `uv_pipe_bind2` without the `uv__close(sockfd)` on the bind error path (mutation) -/
def pipeBindNoClose : Op :=
  [ { eff := [.alloc], fault := some .alloc, undo := [] },
    { eff := [.fdOpen], fault := some .sys, undo := [.free] },
    { eff := [], fault := some .sys, undo := [.free] } ]

/-- `uv_spawn` (unix/process.c:1021-1112): optional heap array for more than 8 stdio containers, one socketpair per
CREATE_PIPE container (a failure takes the `error:` exit: every pipe end opened so far is closed, the array freed),
then the fork machinery (signal pipe + fork, one fault point).  On success the parent closes the child's ends,
keeps its own, queues and starts the handle. -/
def spawnPairs (heap : Bool) : Nat → Nat → List Step
  | 0, _ => []
  | n + 1, i => { eff := [.fdOpen, .fdOpen], fault := some .sys,
                  undo := rep (2 * i) .fdClose ++ (if heap then [.free] else []), label := "sys:socketpair" }
                :: spawnPairs heap n (i + 1)

/-- the part of `uv_spawn` before the fork machinery: its error exits go to `error:` and release everything -/
def uvSpawnPre (npipes : Nat) (heap : Bool) : Op :=
  (if heap then [ { eff := [.alloc], fault := some .alloc, undo := [], label := "alloc" } ] else []) ++
  spawnPairs heap npipes 0

/-- the whole call.  A failing fork (or signal pipe) does *not* take the `error:` exit (process.c:1046-1052, the
`#if 0` block): the stdio streams are opened all the same — the child's ends are closed, the parent's ends stay
open inside the caller's uv_pipe_t handles (released by uv_close) — the handle is not started and the code is returned. -/
def uvSpawn (npipes : Nat) (heap : Bool) : Op :=
  uvSpawnPre npipes heap ++
  [ { eff := [], fault := some .sys, undo := rep npipes .fdClose ++ (if heap then [.free] else []), label := "sys:fork" },
    { eff := rep npipes .fdClose ++ (if heap then [.free] else []) ++ [.enq, .hStart], label := "parent" } ]

/-- `uv_fs_poll_start` (fs-poll.c:66-112): context allocation; uv_timer_init links the timer into
loop->handle_queue; uv_fs_stat duplicates the path (fault point) — its failure unlinks the timer again
(fix 4ff8de0) and frees the context; then the stat request is registered and the handle started. -/
def fsPollStart : Op :=
  [ { eff := [.alloc], fault := some .alloc, undo := [], label := "alloc" },
    { eff := [.enq], label := "uv_timer_init" },
    { eff := [.alloc], fault := some .alloc, undo := [.deq, .free], label := "alloc" },
    { eff := [.reqReg, .enq, .hStart], label := "uv_fs_stat POST + uv__handle_start" } ]

/-- `uv_fs_poll_start` before the fix (seeded revert L22): the error exit only frees the context -/
def fsPollStartOld : Op :=
  [ { eff := [.alloc], fault := some .alloc, undo := [] },
    { eff := [.enq] },
    { eff := [.alloc], fault := some .alloc, undo := [.free] },
    { eff := [.reqReg, .enq, .hStart] } ]

/-- `uv_fs_event_start` on a loop whose inotify descriptor exists (unix/linux.c:2662-2704):
inotify_add_watch (creates a kernel watch when the path is new), then, for a new wd, the watcher_list
allocation — whose failure removes the watch again (inotify_rm_watch, fix d34fc71) and returns UV_ENOMEM. -/
def fsEventStart (newWd : Bool) : Op :=
  [ { eff := (if newWd then [.watchAdd] else []), fault := some .sys, undo := [], label := "sys:inotify_add_watch" } ] ++
  (if newWd then [ { eff := [.alloc, .enq], fault := some .alloc, undo := [.watchRm], label := "alloc" } ] else []) ++
  [ { eff := [.hStart, .enq], label := "uv__handle_start" } ]

/-- `uv_fs_event_start` before the fix (seeded revert L24): the ENOMEM return leaves the kernel watch behind -/
def fsEventStartOld (newWd : Bool) : Op :=
  [ { eff := (if newWd then [.watchAdd] else []), fault := some .sys, undo := [] } ] ++
  (if newWd then [ { eff := [.alloc, .enq], fault := some .alloc, undo := [] } ] else []) ++
  [ { eff := [.hStart, .enq] } ]

/-- `uv_os_environ` (unix/core.c:1432-1484) for an environment of `n` well-formed entries: the array, then one
strdup per entry; the `fail:` exit frees the names copied so far and the array (fix c8cf93f). -/
def environCopies : Nat → Nat → List Step
  | 0, _ => []
  | n + 1, i => { eff := [.alloc], fault := some .alloc, undo := rep i .free ++ [.free], label := "alloc" }
                :: environCopies n (i + 1)

def osEnviron (n : Nat) : Op :=
  { eff := [.alloc], fault := some .alloc, undo := [], label := "alloc" } :: environCopies n 0

/-- `uv_pipe_connect2` (unix/pipe.c:283-345) is different: socket()/connect() failures do not return an error;
they are stored in `delayed_error`, the request is registered all the same and the callback reports the code.
Result: state, return code, delayed error. -/
def pipeConnect2 (newSock : Bool) (st : D) (f : Fault) : D × Int × Int :=
  let reg : D := ⟨1, 0, 0, 0, 0, 0⟩
  match newSock, f with
  | true, some (0, e) => (st + reg, 0, -(e : Int))                          -- socket() failed: goto out
  | true, some (1, e) => (st + ⟨0, 0, 1, 0, 0, 0⟩ + reg, 0, -(e : Int))     -- connect() failed: goto out (handle keeps the socket)
  | false, some (0, e) => (st + reg, 0, -(e : Int))
  | true, _ => (st + ⟨0, 0, 1, 0, 0, 0⟩ + reg, 0, 0)
  | false, _ => (st + reg, 0, 0)

/-! ## 3. sequences of operations under fault schedules -/

inductive Act where
  | submit (op : Op) (f : Fault)    -- an API call under a fault oracle
  | complete (i : Nat)              -- the i-th in-flight operation completes (callback / close): releases what it holds

/-- accounting state plus the ghost list of what each successfully submitted, not yet completed operation holds -/
def stepAct : D × List D → Act → D × List D
  | (st, infl), .submit op f =>
    let r := runFrom op st f
    if r.2 = 0 then (r.1, total op :: infl) else (r.1, infl)
  | (st, infl), .complete i =>
    match infl[i]? with
    | some d => (st + -d, infl.eraseIdx i)
    | none => (st, infl)

def runActs (s : D × List D) (acts : List Act) : D × List D := acts.foldl stepAct s

def sumD : List D → D
  | [] => D.zero
  | d :: ds => d + sumD ds

def Act.op? : Act → Option Op
  | .submit op _ => some op
  | .complete _ => none

end UvModel.Fault
