/-!
# C13 — signal handles (src/unix/signal.c, src/unix/core.c:330-342)

Executable model of libuv's signal machinery.

* `tree`      — the process-wide RB tree `uv__signal_tree` reduced to its order: a list of keys
                sorted by `uv__signal_compare` (signal.c:502-529): signum, then one-shot flag
                (regular first), then loop pointer, then handle pointer.  Pointer order = id order
                (the harness sorts its allocations accordingly).
* `disp`      — the kernel's per-signal disposition: default, or libuv's handler with/without
                `SA_RESETHAND`.
* `pipes`     — per-loop self-pipe (`loop->signal_pipefd`) as a FIFO of messages.
* `closingQ`  — per-loop `closing_handles` (LIFO).
* ghost state (no counterpart in C, used only to state theorems): `Handle.gen` (incarnation
  counter, bumped by every start that goes past the short-circuit), `Msg.gen`, `delivered`
  (a delivery ran libuv's handler since the last `sigaction` for that signal), `stale`
  (some start happened while the loop's pipe held a message for that handle with the same signum).

Kernel behaviour that is modelled: a signal is delivered synchronously (`raise`), the handler runs
iff the disposition is libuv's, and `SA_RESETHAND` resets the disposition to default *before* the
handler runs.  Pipe capacity (EAGAIN) is modelled as a message count.  Not modelled: masking, fork.
-/
namespace UvModel.Signal

/-- function update -/
def upd {α : Type} (f : Nat → α) (i : Nat) (v : α) : Nat → α := fun j => if j = i then v else f j

@[simp] theorem upd_same {α : Type} (f : Nat → α) (i : Nat) (v : α) : upd f i v i = v := by simp [upd]
theorem upd_other {α : Type} (f : Nat → α) (i j : Nat) (v : α) (h : j ≠ i) : upd f i v j = f j := by
  simp [upd, h]
theorem upd_apply {α : Type} (f : Nat → α) (i j : Nat) (v : α) :
    upd f i v j = if j = i then v else f j := rfl

/-- tree key = the fields `uv__signal_compare` looks at -/
structure Key where
  sig : Nat
  os : Bool
  loop : Nat
  id : Nat
deriving DecidableEq, Repr

/-- `uv__signal_compare(a, b) < 0` (signal.c:502-529) -/
def Key.lt (a b : Key) : Prop :=
  a.sig < b.sig ∨ (a.sig = b.sig ∧ (a.os.toNat < b.os.toNat ∨ (a.os.toNat = b.os.toNat ∧
    (a.loop < b.loop ∨ (a.loop = b.loop ∧ a.id < b.id)))))

instance (a b : Key) : Decidable (Key.lt a b) := by unfold Key.lt; infer_instance

/-- `uv__signal_compare(a, b)` as the three-way value the RB macros of tree.h consume; tied to the
    C text and shown to be a strict total order in UvModel/GenEq/C13.lean -/
def Key.cmp (a b : Key) : Int := if Key.lt a b then -1 else if Key.lt b a then 1 else 0

/-- RB_INSERT reduced to its order -/
def treeInsert (k : Key) : List Key → List Key
  | [] => [k]
  | x :: xs => if Key.lt k x then k :: x :: xs else x :: treeInsert k xs

structure Handle where
  loop : Nat := 0
  signum : Nat := 0          -- 0 = not started (signal.c:344, 575)
  oneshot : Bool := false    -- UV_SIGNAL_ONE_SHOT; survives uv__signal_stop
  caught : Nat := 0
  dispatched : Nat := 0
  closing : Bool := false
  closed : Bool := false
  ref : Bool := true         -- UV_HANDLE_REF (uv_ref / uv_unref)
  cb : Nat := 0              -- identity of handle->signal_cb (which user callback is installed)
  gen : Nat := 0             -- ghost: incarnation
deriving DecidableEq, Repr

def keyOf (id : Nat) (h : Handle) : Key := ⟨h.signum, h.oneshot, h.loop, id⟩

inductive Disp
  | dflt
  | uv (reset : Bool)
deriving DecidableEq, Repr

structure Msg where
  h : Nat
  sig : Nat
  gen : Nat                  -- ghost: incarnation of `h` when the signal was caught
deriving DecidableEq, Repr

/-- callbacks, newest first in `S.trace` -/
inductive Cb
  | signal (h sig loop mgen hgen : Nat)
  | close (h : Nat)
deriving DecidableEq, Repr

structure S where
  hs : Nat → Handle
  tree : List Key := []
  disp : Nat → Disp := fun _ => .dflt
  pipes : Nat → List Msg := fun _ => []
  closingQ : Nat → List Nat := fun _ => []
  trace : List Cb := []
  ncb : Nat := 0
  cbLog : List Nat := []     -- which callback each `Cb.signal` of `trace` invoked (newest first)
  delivered : Nat → Bool := fun _ => false
  stale : Bool := false

def init (loopOf : Nat → Nat) : S := { hs := fun i => { loop := loopOf i } }

/-- signals for which `sigaction` succeeds (kernel/glibc outcome; Linux x86-64) -/
def sigValid (sig : Nat) : Bool :=
  1 ≤ sig && sig ≤ 64 && sig != 9 && sig != 19 && sig != 32 && sig != 33

/-- `uv__signal_first_handle` (signal.c:165-180): RB_NFIND with `{signum, flags = 0, loop = NULL}`
finds the first key that is not smaller, i.e. the first key with `sig ≤ key.sig`. -/
def firstHandle (t : List Key) (sig : Nat) : Option Key :=
  match t.find? (fun k => sig ≤ k.sig) with
  | some k => if k.sig = sig then some k else none
  | none => none

/-- `uv__signal_register_handler` (signal.c:224-242), success path -/
def register (s : S) (sig : Nat) (oneshot : Bool) : S :=
  { s with disp := upd s.disp sig (.uv oneshot), delivered := upd s.delivered sig false }

/-- `uv__signal_unregister_handler` (signal.c:245-258) -/
def unregister (s : S) (sig : Nat) : S :=
  { s with disp := upd s.disp sig .dflt, delivered := upd s.delivered sig false }

/-- `uv__signal_stop` (signal.c:539-577) -/
def sigStop (s : S) (h : Nat) : S :=
  let H := s.hs h
  if H.signum = 0 then s else
  let s1 := { s with tree := s.tree.erase (keyOf h H) }
  let s2 := match firstHandle s1.tree H.signum with
    | none => unregister s1 H.signum
    | some f => if f.os && !H.oneshot then register s1 H.signum true else s1
  { s2 with hs := upd s2.hs h { H with signum := 0 } }

/-- a message for `h` with signum `sig` is waiting in the pipe of `h`'s loop (ghost test) -/
def pendingSame (s : S) (h sig : Nat) : Bool :=
  (s.pipes (s.hs h).loop).any (fun m => m.h = h && m.sig = sig)

/-- `handle->signal_cb = signal_cb` -/
def setCb (s : S) (h cb : Nat) : S := { s with hs := upd s.hs h { s.hs h with cb := cb } }

/-- `uv__signal_start` (signal.c:369-432); result = return value -/
def sigStart (s : S) (h sig : Nat) (oneshot : Bool) (cb : Nat) : S × Int :=
  if sig = 0 then (s, -22) else
  if sig = (s.hs h).signum then (setCb s h cb, 0) else  -- 391-394: only the callback is replaced
  let s := sigStop s h                                  -- 397-399 (no-op when not started)
  let needReg := match firstHandle s.tree sig with     -- 407-409
    | none => true
    | some f => !oneshot && f.os
  if needReg && !sigValid sig then (s, -22) else      -- 410-415
  let s := if needReg then register s sig oneshot else s
  let H := s.hs h
  let H' := { H with signum := sig, oneshot := oneshot, gen := H.gen + 1, cb := cb }   -- 418-422, 428
  ({ s with hs := upd s.hs h H', tree := treeInsert (keyOf h H') s.tree,
            stale := s.stale || pendingSame s h sig }, 0)

/-- `uv_close` on a signal handle: `uv__signal_close` = stop, then `uv__make_close_pending` -/
def uvClose (s : S) (h : Nat) : S :=
  let s := sigStop s h
  let H := s.hs h
  { s with hs := upd s.hs h { H with closing := true },
           closingQ := upd s.closingQ H.loop (h :: s.closingQ H.loop) }

inductive Op
  | start (h sig : Nat) (cb : Nat := 0)
  | oneshot (h sig : Nat) (cb : Nat := 0)
  | stop (h : Nat)
  | close (h : Nat)
  | ref (h : Nat)
  | unref (h : Nat)
deriving DecidableEq, Repr

def Op.handle : Op → Nat
  | .start h _ _ | .oneshot h _ _ | .stop h | .close h | .ref h | .unref h => h

/-- `uv_ref` / `uv_unref`: only the flag (the `active_handles` counter is derived, see `alive`) -/
def setRef (s : S) (h : Nat) (r : Bool) : S := { s with hs := upd s.hs h { s.hs h with ref := r } }

/-- API call; `none` = skipped: start/stop/close on a closing handle are `assert`s in libuv (the
harness does not make such calls); ref/unref are legal until the handle memory is released. -/
def applyOp (s : S) (o : Op) : S × Option Int :=
  match o with
  | .ref h => if (s.hs h).closed then (s, none) else (setRef s h true, some 0)
  | .unref h => if (s.hs h).closed then (s, none) else (setRef s h false, some 0)
  | .start h sig cb => if (s.hs h).closing then (s, none) else let r := sigStart s h sig false cb; (r.1, some r.2)
  | .oneshot h sig cb => if (s.hs h).closing then (s, none) else let r := sigStart s h sig true cb; (r.1, some r.2)
  | .stop h => if (s.hs h).closing then (s, none) else (sigStop s h, some 0)
  | .close h => if (s.hs h).closing then (s, none) else (uvClose s h, some 0)

def runOps (s : S) : List Op → S
  | [] => s
  | o :: os => runOps (applyOp s o).1 os

/-- the loop body of `uv__signal_handler` (signal.c:196-217), one tree node -/
def enqueue (sig : Nat) (s : S) (k : Key) : S :=
  let H := s.hs k.id
  { s with pipes := upd s.pipes H.loop (s.pipes H.loop ++ [⟨k.id, sig, H.gen⟩]),
           hs := upd s.hs k.id { H with caught := H.caught + 1 } }

/-- capacity of a loop's self-pipe in messages: 64 KiB / sizeof(uv__signal_msg_t) = 16 bytes.  The pipe
only ever grows or is drained completely (`dispatch`), so page granularity does not show. -/
def pipeCap : Nat := 4096

/-- the same with the pipe possibly full: `write` fails with EAGAIN, nothing is queued and
`caught_signals` is not incremented (signal.c:212-216: "the user is out of luck") -/
def enqueueCap (sig : Nat) (s : S) (k : Key) : S :=
  if (s.pipes (s.hs k.id).loop).length ≥ pipeCap then s else enqueue sig s k

/-- nodes visited by the handler: from `uv__signal_first_handle(signum)` along RB_NEXT while the
signum matches -/
def handlerTargets (t : List Key) (sig : Nat) : List Key :=
  (t.dropWhile (fun k => k.sig < sig)).takeWhile (fun k => k.sig = sig)

/-- kernel delivers `sig` to the process -/
def deliver (s : S) (sig : Nat) : S :=
  match s.disp sig with
  | .dflt => s                       -- default action: outside libuv (never exercised)
  | .uv reset =>
    let s := if reset then { s with disp := upd s.disp sig .dflt } else s   -- SA_RESETHAND
    let s := { s with delivered := upd s.delivered sig true }
    (handlerTargets s.tree sig).foldl (enqueueCap sig) s

/-- user callbacks: the k-th signal callback performs `sc k` -/
abbrev Script := Nat → List Op

/-- the body of the `for` loop of `uv__signal_event` (signal.c:474-487) -/
def dispatchMsg (sc : Script) (s : S) (L : Nat) (m : Msg) : S :=
  let H := s.hs m.h
  let s := if m.sig = H.signum then
      runOps { s with trace := .signal m.h m.sig L m.gen H.gen :: s.trace, ncb := s.ncb + 1,
                      cbLog := H.cb :: s.cbLog } (sc s.ncb)   -- handle->signal_cb(handle, signum)
    else s
  let H := s.hs m.h
  let s := { s with hs := upd s.hs m.h { H with dispatched := H.dispatched + 1 } }
  if (s.hs m.h).oneshot then sigStop s m.h else s

def dispatchN (sc : Script) : Nat → S → Nat → S
  | 0, s, _ => s
  | n + 1, s, L =>
    match s.pipes L with
    | [] => s
    | m :: rest => dispatchN sc n (dispatchMsg sc { s with pipes := upd s.pipes L rest } L m) L

/-- `uv__signal_event` on loop `L`: drain the pipe in order -/
def dispatch (sc : Script) (s : S) (L : Nat) : S := dispatchN sc (s.pipes L).length s L

/-- `uv__finish_close` for a signal handle (core.c:330-342 + close callback) -/
def finishClose (s : S) (h : Nat) : S :=
  let H := s.hs h
  if H.caught > H.dispatched then
    { s with closingQ := upd s.closingQ H.loop (h :: s.closingQ H.loop) }
  else
    { s with hs := upd s.hs h { H with closed := true }, trace := .close h :: s.trace }

/-- `uv__run_closing_handles` -/
def runClosing (s : S) (L : Nat) : S :=
  (s.closingQ L).foldl finishClose { s with closingQ := upd s.closingQ L [] }

/-- `uv__loop_alive` restricted to signal handles: `active_handles` counts the started handles that
are referenced (uv__handle_start / uv__handle_ref / uv__handle_unref), plus `closing_handles != NULL` -/
def alive (s : S) (L : Nat) : Bool :=
  s.tree.any (fun k => k.loop = L && (s.hs k.id).ref) || !(s.closingQ L).isEmpty

/-- `uv_run(L, UV_RUN_NOWAIT)` -/
def runLoop (sc : Script) (s : S) (L : Nat) : S :=
  if alive s L then runClosing (dispatch sc s L) L else s

inductive Ev
  | op (o : Op)
  | deliver (sig : Nat)
  | dispatch (L : Nat)
  | runClosing (L : Nat)
  | run (L : Nat)
deriving DecidableEq, Repr

def step (sc : Script) (s : S) : Ev → S
  | .op o => (applyOp s o).1
  | .deliver sig => deliver s sig
  | .dispatch L => dispatch sc s L
  | .runClosing L => runClosing s L
  | .run L => runLoop sc s L

def runEvs (sc : Script) (s : S) (evs : List Ev) : S := evs.foldl (step sc) s

end UvModel.Signal
