/-!
  Macro-level kernels of the loop accounting, written as small stand-alone functions
  over a tiny record, mirroring the control flow of the C macros one-to-one:

  * `uv__handle_start/stop/ref/unref`, `uv__handle_init` (flag part),
    `uv__is_active`, `uv__is_closing`, `uv__has_ref`, `uv__has_active_handles`,
    `uv__has_active_reqs`, `uv__req_register/unregister`   — src/uv-common.h:244-365
  * `uv__loop_alive`, `uv__backend_timeout`, `uv_backend_timeout`  — src/unix/core.c:393-419
  * `can_sleep` and the mode → timeout decision of `uv_run`           — src/unix/core.c:446-456
  * the `uv_loop_close` busy test                                       — src/uv-common.c:881-888

  Flags are separate Bools, counters are `Int` (C: `unsigned`; non-negativity is a
  proved invariant of the loop model, so an underflow shows up as a failed proof).
  Tie A (the translator) proves these equal to the code generated from /repo.
-/
namespace UvModel.HandleKernels

/-- the part of `uv_handle_t` + `uv_loop_t` the four macros touch -/
structure HK where
  active   : Bool := false     -- UV_HANDLE_ACTIVE
  ref      : Bool := false     -- UV_HANDLE_REF
  closing  : Bool := false     -- UV_HANDLE_CLOSING
  closed   : Bool := false     -- UV_HANDLE_CLOSED
  internal : Bool := false     -- UV_HANDLE_INTERNAL
  ah       : Int := 0          -- h->loop->active_handles
deriving DecidableEq, Repr, Inhabited

/-- uv__handle_init: `flags = UV_HANDLE_REF` (uv-common.h:332-340) -/
def handleInit (ah : Int) : HK := { ref := true, ah := ah }

/-- uv__handle_start (uv-common.h:289-295) -/
def handleStart (k : HK) : HK :=
  if k.active then k
  else
    let k := { k with active := true }
    if k.ref then { k with ah := k.ah + 1 } else k

/-- uv__handle_stop (uv-common.h:297-303) -/
def handleStop (k : HK) : HK :=
  if !k.active then k
  else
    let k := { k with active := false }
    if k.ref then { k with ah := k.ah - 1 } else k

/-- uv__handle_ref (uv-common.h:305-312) -/
def handleRef (k : HK) : HK :=
  if k.ref then k
  else
    let k := { k with ref := true }
    if k.closing then k
    else if k.active then { k with ah := k.ah + 1 } else k

/-- uv__handle_unref (uv-common.h:314-321) -/
def handleUnref (k : HK) : HK :=
  if !k.ref then k
  else
    let k := { k with ref := false }
    if k.closing then k
    else if k.active then { k with ah := k.ah - 1 } else k

/-- `handle->flags |= UV_HANDLE_CLOSING` (core.c:162) -/
def setClosing (k : HK) : HK := { k with closing := true }
/-- `handle->flags |= UV_HANDLE_CLOSED` (core.c:316) -/
def setClosed (k : HK) : HK := { k with closed := true }
/-- `flags |= UV_HANDLE_INTERNAL` (loop.c:103, process.c:88) -/
def setInternal (k : HK) : HK := { k with internal := true }

def isActive (k : HK) : Bool := k.active                      -- uv__is_active
def isClosing (k : HK) : Bool := k.closing || k.closed        -- uv__is_closing
def hasRef (k : HK) : Bool := k.ref                           -- uv__has_ref

def hasActiveHandles (ah : Int) : Bool := ah > 0              -- uv__has_active_handles
def hasActiveReqs (ar : Int) : Bool := ar > 0                 -- uv__has_active_reqs
/-- uv__req_register (uv-common.h:247-251) -/
def reqRegister (ar : Int) : Int := ar + 1
/-- uv__req_unregister (uv-common.h:253-258); the C code asserts `ar > 0` first -/
def reqUnregister (ar : Int) : Int := ar - 1

/-- uv__loop_alive (core.c:393-398) -/
def loopAlive (ah ar : Int) (pendingEmpty closingNull : Bool) : Bool :=
  hasActiveHandles ah || hasActiveReqs ar || !pendingEmpty || !closingNull

/-- uv__backend_timeout (core.c:401-411); `next` = uv__next_timeout(loop) -/
def backendTimeout (stopFlag : Bool) (ah ar : Int) (pendingEmpty idleEmpty reapChildren closingNull : Bool)
    (next : Int) : Int :=
  if !stopFlag && (hasActiveHandles ah || hasActiveReqs ar) && pendingEmpty && idleEmpty &&
     !reapChildren && closingNull then next
  else 0

/-- uv_backend_timeout (core.c:414-419) -/
def uvBackendTimeout (watcherQueueEmpty : Bool) (bt : Int) : Int :=
  if watcherQueueEmpty then bt else 0

inductive Mode | default | once | nowait
deriving DecidableEq, Repr, Inhabited

/-- `can_sleep` of uv_run (core.c:446-448) -/
def canSleep (pendingEmpty idleEmpty : Bool) : Bool := pendingEmpty && idleEmpty

/-- the timeout decision of uv_run (core.c:454-456); `bt` = uv__backend_timeout(loop) -/
def runTimeout (mode : Mode) (cs : Bool) (bt : Int) : Int :=
  if (mode == .once && cs) || mode == .default then bt else 0

/-- the condition under which uv_run processes timers before the first iteration (core.c:440) -/
def initialTimers (mode : Mode) (r stopFlag : Bool) : Bool :=
  mode == .default && r && !stopFlag

/-- loop condition of uv_run (core.c:445) -/
def runCond (r stopFlag : Bool) : Bool := r && !stopFlag

end UvModel.HandleKernels
