/-! C integer semantics used by the generated kernels (Tie A).  LP64. -/
namespace UvModel.CSem

def u32 (x : Int) : Int := x % 4294967296
def u64 (x : Int) : Int := x % 18446744073709551616
/-- conversion to `int` (wraps two's complement, as every supported compiler does) -/
def i32 (x : Int) : Int := (x + 2147483648) % 4294967296 - 2147483648
def b2i (b : Bool) : Int := if b then 1 else 0
/-- bitwise and of two values; used for alignment masks, defined on the 64-bit patterns -/
def land (a b : Int) : Int := Int.ofNat (Nat.land (u64 a).toNat (u64 b).toNat)
/-- bitwise or of two values, on the 64-bit patterns -/
def lor (a b : Int) : Int := Int.ofNat (Nat.lor (u64 a).toNat (u64 b).toNat)
/-- conversion to `signed char` / `unsigned char` -/
def i8 (x : Int) : Int := (x + 128) % 256 - 128
def u8 (x : Int) : Int := x % 256
/-- `x >> n`: logical on non-negative values, arithmetic (floor) on negative `int`s as gcc/clang do -/
def shr (x : Int) (n : Nat) : Int := x / 2 ^ n
/-- `x << n` before reduction to the result type (the translator wraps unsigned results) -/
def shl (x : Int) (n : Nat) : Int := x * 2 ^ n

end UvModel.CSem
