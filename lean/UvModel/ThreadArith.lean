/-! # C20 — the logic libuv adds on top of pthread/sem (src/unix/thread.c, src/thread-common.c)

Executable model of
* the return-code decision tables of `uv_mutex_trylock`, `uv_rwlock_tryrdlock`,
  `uv_rwlock_trywrlock`, `uv_sem_trywait`, `uv_cond_timedwait`, `uv_barrier_wait`
  (the glibc build: `PTHREAD_BARRIER_SERIAL_THREAD` is defined, so the mutex/condvar barrier
  fallback of thread-common.c:35-148 is NOT compiled; `platform_needs_custom_semaphore` is 0 at
  run time on glibc >= 2.21, so `uv__sem_trywait` is the path taken);
* the stack-size computation of `uv_thread_create_ex` with `uv__thread_stack_size`,
  `uv__min_stack_size`, `uv__default_stack_size`;
* the relative→absolute deadline arithmetic of `uv_cond_timedwait` with `uv__hrtime`.

pthread/sem/kernel results (return codes, errno, rlimit, page size, PTHREAD_STACK_MIN, the clock)
are inputs.  C `size_t`/`uint64_t` are `Nat` with explicit `% 2^64` where the C wraps. -/
namespace UvModel.ThreadArith

def U64 : Nat := 2 ^ 64
def SIZE_MAX : Nat := 2 ^ 64 - 1

/-! ## errno values (Linux) and their UV_ counterparts (`UV__ERR(x) = -x`) -/
def EINTR : Int := 4
def EAGAIN : Int := 11
def EBUSY : Int := 16
def EINVAL : Int := 22
def ETIMEDOUT : Int := 110
def UV_EAGAIN : Int := -11
def UV_EBUSY : Int := -16
def UV_EINVAL : Int := -22
def UV_ETIMEDOUT : Int := -110
/-- glibc: `PTHREAD_BARRIER_SERIAL_THREAD` -/
def SERIAL_THREAD : Int := -1

/-- what a wrapper does: return a code to the caller, or `abort()` -/
inductive Out where
  | ret (rc : Int)
  | abort
  deriving DecidableEq, Repr

/-! ## return-code mappings -/

/-- thread.c:373-384 `uv_mutex_trylock`, 407-418 `uv_rwlock_tryrdlock`, 433-444
    `uv_rwlock_trywrlock` (the three bodies are identical):
    `if (err) { if (err != EBUSY && err != EAGAIN) abort(); return UV_EBUSY; } return 0;` -/
def trylockMap (err : Int) : Out :=
  if err ≠ 0 then
    if err ≠ EBUSY ∧ err ≠ EAGAIN then .abort else .ret UV_EBUSY
  else .ret 0

/-- thread.c:670-684 `uv__sem_trywait`, after the retry loop: `r` is `sem_trywait`'s result,
    `e` the errno it left:  `if (r) { if (errno == EAGAIN) return UV_EAGAIN; abort(); } return 0;` -/
def semFinal (r e : Int) : Out :=
  if r ≠ 0 then
    if e = EAGAIN then .ret UV_EAGAIN else .abort
  else .ret 0

/-- the retry idiom `do r = CALL; while (r == -1 && errno == EINTR);` followed by a final
    decision on the (result, errno) pair that ended the loop.  The script lists the
    (result, errno) pairs of the successive platform calls; `none` = the script ended while the
    loop was still retrying (the wrapper has not returned).  Second component: number of calls. -/
def retryEintr (final : Int → Int → Out) : List (Int × Int) → Option (Out × Nat)
  | [] => none
  | (r, e) :: rest =>
    if r = -1 ∧ e = EINTR then
      (retryEintr final rest).map fun (o, n) => (o, n + 1)
    else some (final r e, 1)

/-- thread.c:667-684 `uv__sem_trywait`: loop :673-675 then `semFinal` -/
def semTrywait (script : List (Int × Int)) : Option (Out × Nat) := retryEintr semFinal script

/-- thread.c:665-666 `uv__sem_wait` after its loop: `if (r) abort();` (void: `ret 0` = returned) -/
def semWaitFinal (r _e : Int) : Out := if r ≠ 0 then .abort else .ret 0

/-- thread.c:658-667 `uv__sem_wait`: `do r = sem_wait(sem); while (r == -1 && errno == EINTR);
    if (r) abort();` -/
def semWait (script : List (Int × Int)) : Option (Out × Nat) := retryEintr semWaitFinal script

/-- core.c:1837-1849 `uv_sleep`: `do rc = nanosleep(&timeout, &timeout); while (rc == -1 &&
    errno == EINTR); assert(rc == 0);` (assert active: non-NDEBUG build) -/
def sleepLoop (script : List (Int × Int)) : Option (Out × Nat) := retryEintr semWaitFinal script

/-- thread.c:869-880 `uv_cond_timedwait` tail:
    `if (r == 0) return 0; if (r == ETIMEDOUT) return UV_ETIMEDOUT; abort();` -/
def timedwaitMap (r : Int) : Out :=
  if r = 0 then .ret 0
  else if r = ETIMEDOUT then .ret UV_ETIMEDOUT
  else .abort

/-- thread-common.c:156-165 `uv_barrier_wait` (pthread barrier build):
    `if (rc != 0) if (rc != PTHREAD_BARRIER_SERIAL_THREAD) abort();
     return rc == PTHREAD_BARRIER_SERIAL_THREAD;` -/
def barrierWaitMap (rc : Int) : Out :=
  if rc ≠ 0 ∧ rc ≠ SERIAL_THREAD then .abort
  else .ret (if rc = SERIAL_THREAD then 1 else 0)

/-- the `if (pthread_xxx(..)) abort();` wrappers (lock/unlock/wait/signal/broadcast/destroy/
    key_delete/key_set/once): nothing returned on 0, abort otherwise -/
def mustZero (rc : Int) : Out := if rc ≠ 0 then .abort else .ret 0

/-! ## attributes handed to the init calls (non-NDEBUG build) -/

/-- thread.c `uv_rwlock_init`: `pthread_rwlock_init(rwlock, NULL)` — no attribute object, i.e. the
    platform's default kind (`none` = NULL attr) -/
def rwlockInitKind : Option Nat := none
/-- thread.c:318-340 `uv_mutex_init`: `#if defined(NDEBUG) || !defined(PTHREAD_MUTEX_ERRORCHECK)` —
    on glibc PTHREAD_MUTEX_ERRORCHECK is an enumerator, not a macro, so the NULL-attr branch is the
    one compiled in every build (the error-checking branch is dead code here) -/
def mutexInitType : Option Nat := none
/-- thread.c `uv_mutex_init_recursive`: PTHREAD_MUTEX_RECURSIVE (1 on Linux) -/
def rmutexInitType : Option Nat := some 1

/-! ## failures of the setup calls inside the init wrappers
Each function takes the answers of the pthread calls in program order (an answer is consulted only
if the call is reached) and returns (what the wrapper does, whether a live primitive is left behind). -/

/-- thread.c:738-767 `uv_cond_init`: `pthread_condattr_init` (err → return), `pthread_condattr_setclock(
    CLOCK_MONOTONIC)` (err → destroy attr, return), `pthread_cond_init` (err → same),
    `pthread_condattr_destroy` (err → `pthread_cond_destroy`, destroy attr, return).
    Third component: the clock the live condvar waits on was set to CLOCK_MONOTONIC. -/
def condInit (attrInit setclock condInit attrDestroy : Int) : Out × Bool × Bool :=
  if attrInit ≠ 0 then (.ret (-attrInit), false, false)
  else if setclock ≠ 0 then (.ret (-setclock), false, false)
  else if condInit ≠ 0 then (.ret (-condInit), false, true)
  else if attrDestroy ≠ 0 then (.ret (-attrDestroy), false, true)
  else (.ret 0, true, true)

/-- thread.c:341-357 `uv_mutex_init_recursive`: `mutexattr_init` / `settype(RECURSIVE)` failing →
    abort; `err = pthread_mutex_init`; `mutexattr_destroy` failing → abort; `return -err`.
    Third component: the type RECURSIVE was applied to the attribute used. -/
def rmutexInit (attrInit settype mutexInit attrDestroy : Int) : Out × Bool × Bool :=
  if attrInit ≠ 0 then (.abort, false, false)
  else if settype ≠ 0 then (.abort, false, false)
  else if attrDestroy ≠ 0 then (.abort, mutexInit = 0, true)
  else (.ret (-mutexInit), mutexInit = 0, true)

/-- `uv_mutex_init` (glibc), `uv_rwlock_init`, `uv_barrier_init`, `uv_key_create`:
    `return UV__ERR(pthread_xxx_init(...))` -/
def simpleInit (err : Int) : Out × Bool := (.ret (-err), err = 0)

/-- thread.c:639-643 `uv__sem_init`: `if (sem_init(sem, 0, value)) return UV__ERR(errno); return 0;` -/
def semInit (r errno : Int) : Out × Bool := if r ≠ 0 then (.ret (-errno), false) else (.ret 0, true)

/-- thread.c:172-180 of `uv_thread_create_ex`: `pthread_attr_init` failing → abort;
    `pthread_attr_setstacksize` failing → abort; otherwise pthread_create is reached -/
def attrSetup (attrInit setstack : Int) : Option Out :=
  if attrInit ≠ 0 then some .abort else if setstack ≠ 0 then some .abort else none

/-! ## which clock `uv__hrtime` reads (linux.c:1622-1660) -/
def CLOCK_MONOTONIC : Int := 1
def CLOCK_MONOTONIC_COARSE : Int := 6

/-- `fast` = `type == UV_CLOCK_FAST`; `cache` = the static `fast_clock_id` (-1 = not probed);
    `res` = answer of `clock_getres(CLOCK_MONOTONIC_COARSE)` (`none` = failed, else tv_nsec).
    Returns (clock id read, new cache). -/
def hrtimeClock (fast : Bool) (cache : Int) (res : Option Nat) : Int × Int :=
  if !fast then (CLOCK_MONOTONIC, cache)                      -- :1640-1642
  else if cache ≠ -1 then (cache, cache)                       -- :1644-1646
  else
    let id := match res with                                   -- :1648-1651
      | some ns => if ns ≤ 1000000 then CLOCK_MONOTONIC_COARSE else CLOCK_MONOTONIC
      | none => CLOCK_MONOTONIC
    (id, id)                                                   -- :1653

/-! ## stack size -/

/-- environment read by the stack-size code -/
structure Env where
  /-- `getpagesize()` -/
  pagesize : Nat
  /-- `PTHREAD_STACK_MIN` (glibc >= 2.34: `sysconf(_SC_THREAD_STACK_MIN)`) -/
  stackMin : Nat
  /-- `getrlimit(RLIMIT_STACK, &lim)` returned 0 -/
  rlimOk : Bool
  /-- `lim.rlim_cur` (64-bit `rlim_t`; `RLIM_INFINITY` = 2^64-1) -/
  rlimCur : Nat
  deriving Repr

def RLIM_INFINITY : Nat := 2 ^ 64 - 1

/-- thread.c:72-81 `uv__min_stack_size`: `min = 8192; if (min < PTHREAD_STACK_MIN) return
    PTHREAD_STACK_MIN; return min;` -/
def minStackSize (e : Env) : Nat :=
  if 8192 < e.stackMin then e.stackMin else 8192

/-- thread.c:87-95 `uv__default_stack_size` on Linux, non-PPC: `2 << 20` -/
def defaultStackSize : Nat := 2 <<< 20

/-- thread.c:101-123 `uv__thread_stack_size` -/
def threadStackSize (e : Env) : Nat :=
  if !e.rlimOk then defaultStackSize                    -- :109-110
  else if e.rlimCur = RLIM_INFINITY then defaultStackSize  -- :112-113
  else
    let cur := e.rlimCur - e.rlimCur % e.pagesize        -- :116
    if cur ≥ minStackSize e then cur                      -- :118-119
    else defaultStackSize                                 -- :122

/-- `~x` on a 64-bit word -/
def not64 (x : Nat) : Nat := 2 ^ 64 - 1 - x

/-- outcome of the stack-size part of `uv_thread_create_ex` -/
inductive StackOut where
  /-- returned `UV_EINVAL` before touching pthread -/
  | einval
  /-- reached `pthread_create`; `some n` = `pthread_attr_setstacksize(attr, n)` was called,
      `none` = `attr == NULL` -/
  | create (setstack : Option Nat)
  deriving DecidableEq, Repr

def UV_THREAD_HAS_STACK_SIZE : Nat := 1

/-- thread.c:155-180 of `uv_thread_create_ex` -/
def createExStack (e : Env) (flags stackSizeParam : Nat) : StackOut :=
  let req := if flags &&& UV_THREAD_HAS_STACK_SIZE ≠ 0 then stackSizeParam else 0   -- :155-156
  if req = 0 then
    let s := threadStackSize e                                                      -- :160
    .create (if s > 0 then some s else none)                                        -- :172-179
  else
    let pagesize := e.pagesize                                                      -- :162
    if req > SIZE_MAX - (pagesize - 1) then .einval                                 -- :163-164
    else
      let s := ((req + pagesize - 1) % 2 ^ 64) &&& not64 (pagesize - 1)             -- :166
      let m := minStackSize e                                                       -- :167
      let s := if s < m then m else s                                               -- :168-169
      .create (if s > 0 then some s else none)                                      -- :172-179

/-- thread.c:183-188: value returned once `pthread_create` answered `err` -/
def createRet (err : Int) : Int := -err

/-- whole function: (what was passed to `pthread_attr_setstacksize`, return value);
    `createErr` = what `pthread_create` returns if it is reached -/
def createEx (e : Env) (flags stackSizeParam : Nat) (createErr : Int) : Option Nat × Int :=
  match createExStack e flags stackSizeParam with
  | .einval => (none, UV_EINVAL)
  | .create ss => (ss, createRet createErr)

/-! ## `uv_cond_timedwait` deadline -/

def NANOSEC : Nat := 1000000000

/-- linux.c:1622-1660 `uv__hrtime`: `t.tv_sec * (uint64_t) 1e9 + t.tv_nsec` in uint64 -/
def hrtime (sec nsec : Nat) : Nat := (sec * NANOSEC + nsec) % 2 ^ 64

/-- thread.c:860-871: `now = uv__hrtime(UV_CLOCK_PRECISE); if (timeout > UINT64_MAX - now)
    timeout = UINT64_MAX; else timeout += now; ts.tv_sec = timeout / NANOSEC;
    ts.tv_nsec = timeout % NANOSEC;` — returns `(tv_sec, tv_nsec)` -/
def deadline (now timeout : Nat) : Nat × Nat :=
  let t := if timeout > (2 ^ 64 - 1) - now then 2 ^ 64 - 1 else (timeout + now) % 2 ^ 64
  (t / NANOSEC, t % NANOSEC)

/-- the instant (ns on CLOCK_MONOTONIC) a timespec denotes -/
def tsNs (ts : Nat × Nat) : Nat := ts.1 * NANOSEC + ts.2

end UvModel.ThreadArith
