/-!
# C14 — I/O watcher registry, epoll interest synchronisation, uv_poll

Executable model of
* `src/unix/core.c:870-1001`  (`maybe_resize`, `uv__io_init/start/stop/close/feed`, `uv__fd_exists`)
* `src/unix/core.c:842-856`   (`uv__run_pending`), the `UV_RUN_ONCE` body of `uv_run` (core.c:427-490)
* `src/unix/linux.c:702-753`  (`uv__platform_invalidate_fd`, `uv__io_check_fd`)
* `src/unix/linux.c:1246-1347` (`uv__epoll_ctl_prep/flush`, the 256-slot ctl ring)
* `src/unix/linux.c:1350-1620` (`uv__io_poll`)
* `src/unix/poll.c:29-159`    (`uv__poll_io`, `uv_poll_init/start/stop`, `uv__poll_close`)

The kernel is part of the model only as far as the epoll interest list goes: entries are keyed by
(open file description, descriptor number) as in Linux, a description dies with its last reference.
Readiness (the batches `epoll_pwait` returns) is an *input*.  User callbacks are scripts.
Masks are records of the six event bits the code ever looks at (POLLIN, POLLPRI, POLLOUT, POLLERR,
POLLHUP, POLLRDHUP); every other bit of an `epoll_event.events` word is removed by the first thing
`uv__io_poll` does with it (`pe->events &= w->pevents | POLLERR | POLLHUP`, linux.c:1536).
-/
namespace UvModel.IoWatch

/-- event bits: i=POLLIN(1) p=POLLPRI(2) o=POLLOUT(4) e=POLLERR(8) h=POLLHUP(0x10) r=POLLRDHUP(0x2000) -/
structure Mask where
  i : Bool := false
  p : Bool := false
  o : Bool := false
  e : Bool := false
  h : Bool := false
  r : Bool := false
deriving DecidableEq, Repr, Inhabited

namespace Mask
def none : Mask := {}
/-- `POLLIN | POLLOUT | UV__POLLRDHUP | UV__POLLPRI` -/
def all4 : Mask := { i := true, p := true, o := true, r := true }
def errhup : Mask := { e := true, h := true }
def errOnly : Mask := { e := true }
def hupOnly : Mask := { h := true }
def pollout : Mask := { o := true }
def pollin : Mask := { i := true }
def or (a b : Mask) : Mask := ⟨a.i || b.i, a.p || b.p, a.o || b.o, a.e || b.e, a.h || b.h, a.r || b.r⟩
def and (a b : Mask) : Mask := ⟨a.i && b.i, a.p && b.p, a.o && b.o, a.e && b.e, a.h && b.h, a.r && b.r⟩
/-- `a & ~b` -/
def diff (a b : Mask) : Mask :=
  ⟨a.i && !b.i, a.p && !b.p, a.o && !b.o, a.e && !b.e, a.h && !b.h, a.r && !b.r⟩
/-- `a ⊆ b` bitwise -/
def sub (a b : Mask) : Prop := a.and b = a
instance (a b : Mask) : Decidable (sub a b) := inferInstanceAs (Decidable (_ = _))
def toNat (m : Mask) : Nat :=
  (if m.i then 1 else 0) + (if m.p then 2 else 0) + (if m.o then 4 else 0) +
  (if m.e then 8 else 0) + (if m.h then 16 else 0) + (if m.r then 0x2000 else 0)
def ofNat (n : Nat) : Mask :=
  ⟨n.testBit 0, n.testBit 1, n.testBit 2, n.testBit 3, n.testBit 4, n.testBit 13⟩
end Mask

/-- uv_poll event set: rd=UV_READABLE(1) wr=UV_WRITABLE(2) dc=UV_DISCONNECT(4) pr=UV_PRIORITIZED(8) -/
structure UvEv where
  rd : Bool := false
  wr : Bool := false
  dc : Bool := false
  pr : Bool := false
deriving DecidableEq, Repr, Inhabited

namespace UvEv
def none : UvEv := {}
def toNat (u : UvEv) : Nat :=
  (if u.rd then 1 else 0) + (if u.wr then 2 else 0) + (if u.dc then 4 else 0) + (if u.pr then 8 else 0)
def ofNat (n : Nat) : UvEv := ⟨n.testBit 0, n.testBit 1, n.testBit 2, n.testBit 3⟩
def sub (a b : UvEv) : Prop := (a.rd → b.rd) ∧ (a.wr → b.wr) ∧ (a.dc → b.dc) ∧ (a.pr → b.pr)
end UvEv

/-- poll.c:139-147 -/
def uvToPoll (u : UvEv) : Mask := { i := u.rd, p := u.pr, o := u.wr, r := u.dc }
/-- poll.c:53-61 -/
def pollToUv (m : Mask) : UvEv := { rd := m.i, pr := m.p, wr := m.o, dc := m.r }

/-! ## kernel: descriptor table and epoll interest list -/

inductive CtlOp | add | mod | del
deriving DecidableEq, Repr, Inhabited

/-- one epoll entry; `owner` is ghost (the watcher whose ADD/MOD wrote the entry) -/
structure Ent where
  ofd : Nat
  fd : Nat
  mask : Mask
  owner : Option Nat
deriving DecidableEq, Repr

structure Kernel where
  /-- descriptor number ↦ open file description -/
  fdtab : List (Nat × Nat) := []
  /-- references held elsewhere (dup'ed descriptors outside the watched range): handle ↦ description -/
  dups : List (Nat × Nat) := []
  ents : List Ent := []
  nextOfd : Nat := 0
  nextDup : Nat := 0
deriving Repr

namespace Kernel
def ofdAt (k : Kernel) (fd : Nat) : Option Nat := k.fdtab.lookup fd
def refd (k : Kernel) (o : Nat) : Bool := k.fdtab.any (·.2 == o) || k.dups.any (·.2 == o)
def hasEnt (k : Kernel) (o fd : Nat) : Bool := k.ents.any fun e => e.ofd == o && e.fd == fd
/-- last reference gone: the description's epoll entries disappear -/
def gc (k : Kernel) (o : Nat) : Kernel :=
  if k.refd o then k else { k with ents := k.ents.filter (·.ofd != o) }
def openFd (k : Kernel) (fd : Nat) : Kernel :=
  { k with fdtab := k.fdtab ++ [(fd, k.nextOfd)], nextOfd := k.nextOfd + 1 }
def closeFd (k : Kernel) (fd : Nat) : Kernel :=
  match k.ofdAt fd with
  | .none => k
  | some o => ({ k with fdtab := k.fdtab.filter (·.1 != fd) }).gc o
def dupFd (k : Kernel) (fd : Nat) : Kernel :=
  match k.ofdAt fd with
  | .none => k
  | some o => { k with dups := k.dups ++ [(k.nextDup, o)], nextDup := k.nextDup + 1 }
def closeDup (k : Kernel) (d : Nat) : Kernel :=
  match k.dups.lookup d with
  | .none => k
  | some o => ({ k with dups := k.dups.filter (·.1 != d) }).gc o
/-- `epoll_ctl`: 0 or -errno (EBADF 9, EEXIST 17, ENOENT 2) -/
def ctl (k : Kernel) (op : CtlOp) (fd : Nat) (m : Mask) (owner : Option Nat) : Kernel × Int :=
  match k.ofdAt fd with
  | .none => (k, -9)
  | some o =>
    match op with
    | .add => if k.hasEnt o fd then (k, -17) else ({ k with ents := k.ents ++ [⟨o, fd, m, owner⟩] }, 0)
    | .mod =>
      if k.hasEnt o fd then
        ({ k with ents := k.ents.map fun e =>
            if e.ofd == o && e.fd == fd then { e with mask := m, owner := owner } else e }, 0)
      else (k, -2)
    | .del =>
      if k.hasEnt o fd then ({ k with ents := k.ents.filter fun e => !(e.ofd == o && e.fd == fd) }, 0)
      else (k, -2)
end Kernel

/-! ## loop state -/

/-- one `uv__io_t` (embedded in a `uv_poll_t` when `poll`) -/
structure W where
  fd : Nat := 0
  poll : Bool := false
  pevents : Mask := {}
  events : Mask := {}
  /-- UV_HANDLE_ACTIVE (poll handles) -/
  active : Bool := false
  /-- uv_close / uv__io_close has been called -/
  closing : Bool := false
  /-- user-side bookkeeping: no `uv__io_start` since init / the last `uv__poll_stop` -/
  clean : Bool := true
  /-- callbacks delivered so far (index into the script) -/
  cbs : Nat := 0
deriving DecidableEq, Repr, Inhabited

inductive Op
  | openfd (fd kind : Nat) | closefd (fd : Nat) | dupfd (fd : Nat) | closedup (d : Nat)
  | peer (what fd : Nat)
  | pinit (fd : Nat) | pstart (id : Nat) (u : UvEv) | pstop (id : Nat) | pclose (id : Nat)
  | ioinit (fd : Nat) | iostart (id : Nat) (m : Mask) | iostop (id : Nat) (m : Mask)
  | ioclose (id : Nat) | iofeed (id : Nat)
deriving Repr, Inhabited

/-- the k-th callback of watcher `id` performs `sc id k` -/
abbrev Script := Nat → Nat → List Op

abbrev Batch := List (Option Nat × Mask)

inductive Ev
  | op (o : Op)
  | ret (r : Int)
  | refused
  | newId (id : Nat)
  | ctl (op : CtlOp) (fd : Nat) (m : Mask) (r : Int)
  | cbPoll (id : Nat) (status : Int) (ev : UvEv)
  | cbIo (id : Nat) (ev : Mask)
  | cbClose (id : Nat)
  | block (t0 : Bool) (interest : List (Nat × Mask))
  | batch (b : Batch)
  | obs (nfds : Int) (nw : Nat) (wq : List Nat) (ws : List (Nat × Mask × Mask × Bool))
  | abort
deriving Repr, Inhabited

structure St where
  ws : List W := []
  /-- `loop->watchers[0 .. nwatchers)` -/
  watchers : List (Option Nat) := []
  nfds : Int := 0
  /-- `loop->watcher_queue` -/
  wq : List Nat := []
  pending : List Nat := []
  /-- the local `pq` of `uv__run_pending` -/
  pendingRun : List Nat := []
  /-- `loop->closing_handles` (LIFO) -/
  closingQ : List Nat := []
  k : Kernel := {}
  /-- io_uring ctl ring available -/
  ring : Bool := false
  /-- submissions not yet flushed: op, fd, mask, owner -/
  sq : List (CtlOp × Nat × Mask × Nat) := []
  /-- `events[0..nfds)` of the batch being dispatched; `none` = `data.fd == -1` -/
  batch : Batch := []
  /-- `lfields->inv != NULL` -/
  inv : Bool := false
  /-- watchers libuv itself keeps registered (async wakeup): contribution to `loop->nfds` -/
  internal : Nat := 0
  /-- discipline switch (off in the theorems; on only to replay the witnesses of the negative results in
  Props.C14): allow a second handle to be *initialised* on a descriptor that already has a live handle,
  and allow closing a descriptor whose handle is stopped but not yet closed -/
  multi : Bool := false
  aborted : Bool := false
  /-- newest first -/
  log : List Ev := []
deriving Repr, Inhabited

def emit (s : St) (e : Ev) : St := { s with log := e :: s.log }
def abort (s : St) : St := { s with aborted := true, log := Ev.abort :: s.log }

def getW (s : St) (id : Nat) : W := s.ws.getD id default
def setW (s : St) (id : Nat) (w : W) : St := { s with ws := s.ws.set id w }
def watcherAt (s : St) (fd : Nat) : Option Nat := s.watchers.getD fd .none
/-- core.c:999-1001 -/
def fdExists (s : St) (fd : Nat) : Bool := (watcherAt s fd).isSome

/-- direct `epoll_ctl(2)` on the backend fd -/
def ctl (s : St) (op : CtlOp) (fd : Nat) (m : Mask) (owner : Option Nat) : St × Int :=
  let r := s.k.ctl op fd m owner
  ({ s with k := r.1, log := Ev.ctl op fd m r.2 :: s.log }, r.2)

/-- core.c:855-868 for 32-bit unsigned `val ≥ 1` -/
def nextPow2 (n : Nat) : Nat :=
  let v := n - 1
  let v := v ||| (v >>> 1)
  let v := v ||| (v >>> 2)
  let v := v ||| (v >>> 4)
  let v := v ||| (v >>> 8)
  let v := v ||| (v >>> 16)
  v + 1

/-- core.c:870-902 -/
def maybeResize (s : St) (len : Nat) : St :=
  if len ≤ s.watchers.length then s
  else
    let nw := nextPow2 (len + 2) - 2
    { s with watchers := s.watchers ++ List.replicate (nw - s.watchers.length) .none }

/-- core.c:917-942 -/
def ioStart (s : St) (id : Nat) (m : Mask) : St :=
  let w := getW s id
  let w := { w with pevents := w.pevents.or m, clean := false }
  let s := setW s id w
  let s := maybeResize s (w.fd + 1)
  if w.events = w.pevents then s
  else
    let s := if s.wq.contains id then s else { s with wq := s.wq ++ [id] }
    if watcherAt s w.fd = .none then
      { s with watchers := s.watchers.set w.fd (some id), nfds := s.nfds + 1 }
    else s

/-- core.c:945-973 -/
def ioStop (s : St) (id : Nat) (m : Mask) : St :=
  let w := getW s id
  if w.fd ≥ s.watchers.length then s
  else
    let pe := w.pevents.diff m
    if pe = Mask.none then
      let s := setW s id { w with pevents := pe, events := Mask.none }
      let s := { s with wq := s.wq.erase id }
      if watcherAt s w.fd = some id then
        { s with watchers := s.watchers.set w.fd .none, nfds := s.nfds - 1 }
      else s
    else
      let s := setW s id { w with pevents := pe }
      if s.wq.contains id then s else { s with wq := s.wq ++ [id] }

/-- linux.c:702-732 -/
def invalidate (s : St) (fd : Nat) : St :=
  let s := if s.inv then
      { s with batch := s.batch.map fun e => if e.1 = some fd then (.none, e.2) else e }
    else s
  (ctl s .del fd Mask.none .none).1

/-- core.c:976-983 -/
def ioClose (s : St) (id : Nat) : St :=
  let s := ioStop s id Mask.all4
  let s := { s with pending := s.pending.erase id, pendingRun := s.pendingRun.erase id }
  let s := invalidate s (getW s id).fd
  setW s id { getW s id with closing := true }

/-- core.c:986-989 -/
def ioFeed (s : St) (id : Nat) : St :=
  if s.pending.contains id || s.pendingRun.contains id then s
  else { s with pending := s.pending ++ [id] }

/-- poll.c:102-108 -/
def pollStop (s : St) (id : Nat) : St :=
  let s := ioStop s id Mask.all4
  let s := setW s id { getW s id with active := false }
  let s := invalidate s (getW s id).fd
  setW s id { getW s id with clean := true }

/-- poll.c:67-93 with linux.c:735-753; returns the new id on success -/
def pollInit (s : St) (fd : Nat) : St × Int × Option Nat :=
  if fdExists s fd then (s, -17, .none)
  else
    let (s, r) := ctl s .add fd Mask.pollin .none
    if r ≠ 0 ∧ r ≠ -17 then (s, r, .none)
    else
      let (s, r2) := ctl s .del fd Mask.none .none
      if r2 ≠ 0 then (abort s, 0, .none)
      else ({ s with ws := s.ws ++ [{ fd := fd, poll := true }] }, 0, some s.ws.length)

/-- poll.c:118-154 -/
def pollStart (s : St) (id : Nat) (u : UvEv) : St × Int :=
  let w := getW s id
  if fdExists s w.fd ∧ watcherAt s w.fd ≠ some id then (s, -17)
  else
    let s := pollStop s id
    if u = UvEv.none then (s, 0)
    else
      let s := ioStart s id (uvToPoll u)
      (setW s id { getW s id with active := true }, 0)

/-- uv_close on a poll handle: `uv__poll_close` + queued for the close callback -/
def pollClose (s : St) (id : Nat) : St :=
  let s := pollStop s id
  let s := setW s id { getW s id with closing := true }
  { s with closingQ := id :: s.closingQ }

/-! ## user operations with the harness' discipline guards -/

def sortPairs (l : List (Nat × Mask)) : List (Nat × Mask) :=
  l.mergeSort fun a b => a.1 * 65536 + a.2.toNat ≤ b.1 * 65536 + b.2.toNat

def interestOf (s : St) : List (Nat × Mask) := sortPairs (s.k.ents.map fun e => (e.fd, e.mask))

def obsOf (s : St) : Ev :=
  Ev.obs (s.nfds + s.internal) s.watchers.length s.wq
    (((List.range s.ws.length).map fun id => (id, getW s id)).filterMap fun (id, w) =>
      if w.closing then .none else some (id, w.pevents, w.events, w.active))

/-- the user may close a descriptor when every handle created on it is closed, or was never
started / was stopped with `uv_poll_stop` (which removes the kernel entry) -/
def fdIdle (s : St) (fd : Nat) : Bool :=
  s.ws.all fun w => w.fd != fd || w.closing || (w.clean && w.pevents == Mask.none)

def valid4 (m : Mask) : Bool := m != Mask.none && !m.e && !m.h

/-- some handle that is not closed lives on `fd` -/
def fdTaken (s : St) (fd : Nat) : Bool := !s.multi && s.ws.any fun w => w.fd == fd && !w.closing

def liveId (s : St) (id : Nat) (poll : Bool) : Bool :=
  id < s.ws.length && (getW s id).poll == poll && !(getW s id).closing

def doOp (s : St) : Op → St
  | .openfd fd _ =>
    if (s.k.ofdAt fd).isSome then emit s .refused else emit { s with k := s.k.openFd fd } (.ret 0)
  | .closefd fd =>
    if (s.k.ofdAt fd).isSome && (fdIdle s fd || s.multi) then emit { s with k := s.k.closeFd fd } (.ret 0)
    else emit s .refused
  | .dupfd fd =>
    if (s.k.ofdAt fd).isSome then emit { s with k := s.k.dupFd fd } (.newId s.k.nextDup)
    else emit s .refused
  | .closedup d =>
    if (s.k.dups.lookup d).isSome then emit { s with k := s.k.closeDup d } (.ret 0)
    else emit s .refused
  | .peer _ _ => s
  | .pinit fd =>
    -- a registered watcher makes uv_poll_init itself answer UV_EEXIST (poll.c:70); the user-side
    -- discipline only forbids a second handle where libuv would accept one
    if fdTaken s fd && !fdExists s fd then emit s .refused else
    match pollInit s fd with
    | (s, _, some id) => emit s (.newId id)
    | (s, r, .none) => if s.aborted then s else emit s (.ret r)
  | .pstart id u =>
    if liveId s id true && (s.k.ofdAt (getW s id).fd).isSome then
      let (s, r) := pollStart s id u
      emit s (.ret r)
    else emit s .refused
  | .pstop id => if liveId s id true then emit (pollStop s id) (.ret 0) else emit s .refused
  | .pclose id => if liveId s id true then emit (pollClose s id) (.ret 0) else emit s .refused
  | .ioinit fd =>
    if fdTaken s fd then emit s .refused else
    emit { s with ws := s.ws ++ [{ fd := fd, poll := false }] } (.newId s.ws.length)
  | .iostart id m =>
    let fd := (getW s id).fd
    if liveId s id false && valid4 m && (s.k.ofdAt fd).isSome
        && !(fdExists s fd && watcherAt s fd != some id) then
      emit (ioStart s id m) (.ret 0)
    else emit s .refused
  | .iostop id m =>
    if liveId s id false && valid4 m then emit (ioStop s id m) (.ret 0) else emit s .refused
  | .ioclose id => if liveId s id false then emit (ioClose s id) (.ret 0) else emit s .refused
  | .iofeed id => if liveId s id false then emit (ioFeed s id) (.ret 0) else emit s .refused

def execOp (s : St) (o : Op) : St :=
  if s.aborted then s
  else
    let s := doOp (emit s (.op o)) o
    emit s (obsOf s)

def execOps (s : St) (ops : List Op) : St := ops.foldl execOp s

/-! ## uv__io_poll -/

/-- ring flush (linux.c:1282-1347): the kernel runs every submission in order; an ADD answered
EEXIST is re-submitted as MOD; any other failure of ADD/MOD is `abort()` -/
def flushStep (acc : Kernel × List (CtlOp × Nat × Mask × Nat) × Bool) (c : CtlOp × Nat × Mask × Nat) :
    Kernel × List (CtlOp × Nat × Mask × Nat) × Bool :=
  let r := acc.1.ctl c.1 c.2.1 c.2.2.1 (some c.2.2.2)
  if r.2 = 0 then (r.1, acc.2.1, acc.2.2)
  else if c.1 = .add ∧ r.2 = -17 then (r.1, acc.2.1 ++ [(.mod, c.2.1, c.2.2.1, c.2.2.2)], acc.2.2)
  else (r.1, acc.2.1, true)

def flushOnce (s : St) : St :=
  let r := s.sq.foldl flushStep (s.k, [], false)
  let s := { s with k := r.1, sq := r.2.1 }
  if r.2.2 then abort s else s

/-- `while (*ctl->sqhead != *ctl->sqtail) uv__epoll_ctl_flush(...)`: retries are MODs, which never
produce further retries, so two rounds empty the ring -/
def flushAll (s : St) : St := flushOnce (flushOnce s)

/-- linux.c:1246-1279 -/
def prep (s : St) (c : CtlOp × Nat × Mask × Nat) : St :=
  let s := { s with sq := s.sq ++ [c] }
  if s.sq.length = 256 then
    let s := flushOnce s
    if s.sq.length = 256 then flushOnce s else s
  else s

/-- body of the `while (!uv__queue_empty(&loop->watcher_queue))` loop, linux.c:1406-1435 -/
def applyOne (s : St) (id : Nat) : St :=
  let w := getW s id
  let op := if w.events = Mask.none then CtlOp.add else CtlOp.mod
  let s := setW s id { w with events := w.pevents }
  if s.ring then prep s (op, w.fd, w.pevents, id)
  else
    let (s, r) := ctl s op w.fd w.pevents (some id)
    if r = 0 then s
    else if op = .add ∧ r = -17 then
      let (s, r2) := ctl s .mod w.fd w.pevents (some id)
      if r2 ≠ 0 then abort s else s
    else abort s

def applyQueue (s : St) : St := s.wq.foldl applyOne { s with wq := [] }

/-- poll.c:29-64 resp. the raw watcher's callback, then the scripted user code -/
def deliver (sc : Script) (s : St) (id : Nat) (ev : Mask) : St :=
  let w := getW s id
  let s := setW s id { w with cbs := w.cbs + 1 }
  if w.poll then
    if ev.e ∧ ¬ ev.p then
      let s := ioStop s id Mask.all4
      let s := setW s id { getW s id with active := false }
      execOps (emit s (.cbPoll id (-9) UvEv.none)) (sc id w.cbs)
    else execOps (emit s (.cbPoll id 0 (pollToUv ev))) (sc id w.cbs)
  else execOps (emit s (.cbIo id ev)) (sc id w.cbs)

/-- the event mask the callback gets, linux.c:1536-1555 -/
def filterEv (pevents m : Mask) : Mask :=
  let m1 := m.and (pevents.or Mask.errhup)
  if m1 = Mask.errOnly ∨ m1 = Mask.hupOnly then m1.or (pevents.and Mask.all4) else m1

/-- one iteration of `for (i = 0; i < nfds; i++)`, linux.c:1498-1570; the flag says `nevents++` -/
def dispatchOne (sc : Script) (s : St) (i : Nat) : St × Bool :=
  match s.batch.getD i (.none, Mask.none) with
  | (.none, _) => (s, false)
  | (some fd, m) =>
    if fd ≥ s.watchers.length then (abort s, false)
    else
      match watcherAt s fd with
      | .none => ((ctl s .del fd Mask.none .none).1, false)
      | some id =>
        let ev := filterEv (getW s id).pevents m
        if ev ≠ Mask.none then (deliver sc s id ev, true) else (s, false)

def dispatchFrom (sc : Script) (s : St) (i : Nat) : Nat → St × Nat
  | 0 => (s, 0)
  | n + 1 =>
    if s.aborted then (s, 0)
    else
      let r := dispatchOne sc s i
      let r2 := dispatchFrom sc r.1 (i + 1) n
      (r2.1, r2.2 + r.2.toNat)

/-- `for (;;)` of linux.c:1441-1615.  `t0` = `timeout == 0`; `count` starts at 48; the list holds
what successive `epoll_pwait` calls return (exhausted = 0 events). -/
def pollLoop (sc : Script) (s : St) (t0 : Bool) (count : Nat) : List Batch → St
  | [] =>
    if s.nfds + s.internal = 0 then s
    else
      let s := flushAll s
      emit (emit s (.block t0 (interestOf s))) (.batch [])
  | b :: rest =>
    if s.nfds + s.internal = 0 then s
    else
      let s := flushAll s
      if s.aborted then s else
      let s := emit (emit s (.block t0 (interestOf s))) (.batch b)
      if b = [] then s
      else
        let r := dispatchFrom sc { s with batch := b, inv := true } 0 b.length
        let s := { r.1 with inv := false, batch := [] }
        if s.aborted then s
        else if r.2 ≠ 0 then
          if b.length = 1024 ∧ count - 1 ≠ 0 then pollLoop sc s true (count - 1) rest else s
        else if t0 then s
        else pollLoop sc s false count rest

def ioPoll (sc : Script) (s : St) (t0 : Bool) (bs : List Batch) : St :=
  let s := applyQueue s
  if s.aborted then s else
  flushAll (pollLoop sc s t0 48 bs)

/-- core.c:842-856 -/
def runPend (sc : Script) (s : St) : Nat → St
  | 0 => s
  | n + 1 =>
    match s.pendingRun with
    | [] => s
    | id :: rest => runPend sc (deliver sc { s with pendingRun := rest } id Mask.pollout) n

def runPending (sc : Script) (s : St) : St :=
  runPend sc { s with pendingRun := s.pending, pending := [] } s.pending.length

def pend8 (sc : Script) : Nat → St → St
  | 0, s => s
  | n + 1, s => if s.pending = [] then s else pend8 sc n (runPending sc s)

def runClosing (s : St) : St :=
  s.closingQ.foldl (fun s id => emit s (.cbClose id)) { s with closingQ := [] }

/-- one `uv_run(loop, UV_RUN_ONCE)` with a far-away timer keeping the loop alive (core.c:427-490) -/
def run (sc : Script) (s : St) (bs : List Batch) : St :=
  if s.aborted then s else
  let canSleep := s.pending.isEmpty
  let s := runPending sc s
  let t0 := !(canSleep && s.pending.isEmpty && s.closingQ.isEmpty)
  let s := ioPoll sc s t0 bs
  let s := pend8 sc 8 s
  let s := runClosing s
  emit s (obsOf s)

end UvModel.IoWatch
