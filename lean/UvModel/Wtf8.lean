/-!
  C18 (text half): executable model of the WTF-8 / UTF-16 converters of /repo/src/idna.c:
  `uv__wtf8_decode1` (:28-68), `uv_wtf8_length_as_utf16` (:370-384), `uv_wtf8_to_utf16`
  (:387-409), `uv__get_surrogate_value` (:412-424), `uv_utf16_length_as_wtf8` (:427-457),
  `uv_utf16_to_wtf8` (:460-560).

  Conventions.  A NUL-terminated C string is the list of its bytes / code units *before* the
  terminator; reading at the end of the list yields the terminator 0 (`headD 0`).  The UTF-16
  source of the `utf16 → wtf8` functions is `(z, src)`: `z = true` means `w_source_len = -1`
  (NUL-terminated, `src` = the units before the terminator; an embedded 0 stops the loops exactly
  as in C), `z = false` means `w_source_len = src.length`.  The C variable `w_source_len`
  (decremented only while positive) is therefore implicit: it is `src.length` of the remaining
  list, or negative.
-/
namespace UvModel.Wtf8

/-- `uv__wtf8_decode1` idna.c:28-68 on the remaining bytes.  Result: (code point or `none` for -1,
    number of times `*input` was advanced — the pointer is left *on* the last byte read). -/
def decode1 (l : List Nat) : Option Nat × Nat :=
  let b1 := l.headD 0
  if b1 ≤ 0x7F then (some b1, 0)
  else if b1 < 0xC2 then (none, 0)
  else
    let b2 := (l.drop 1).headD 0
    if b2 &&& 0xC0 ≠ 0x80 then (none, 1)
    else
      let cp := (b1 <<< 6) ||| (b2 &&& 0x3F)
      if b1 ≤ 0xDF then (some (0x7FF &&& cp), 1)
      else
        let b3 := (l.drop 2).headD 0
        if b3 &&& 0xC0 ≠ 0x80 then (none, 2)
        else
          let cp := (cp <<< 6) ||| (b3 &&& 0x3F)
          if b1 ≤ 0xEF then (some (0xFFFF &&& cp), 2)
          else
            let b4 := (l.drop 3).headD 0
            if b4 &&& 0xC0 ≠ 0x80 then (none, 3)
            else
              let cp := (cp <<< 6) ||| (b4 &&& 0x3F)
              if b1 ≤ 0xF4 ∧ (cp &&& 0x1FFFFF) ≤ 0x10FFFF then (some (cp &&& 0x1FFFFF), 3)
              else (none, 3)

theorem drop_lt_of_headD_ne {l : List Nat} {k : Nat} (h : (l.drop k).headD 0 ≠ 0) :
    (l.drop (k + 1)).length < l.length := by
  have : k < l.length := by
    by_cases hk : k < l.length
    · exact hk
    · rw [List.drop_eq_nil_of_le (by omega)] at h; simp at h
  simp only [List.length_drop]; omega

/-- `uv_wtf8_length_as_utf16` idna.c:370-384: number of UTF-16 units *including the terminator*,
    `none` for the C result -1.  `do … while (*source_ptr++)` tests the last byte of the character
    just decoded, so the loop ends after the terminator itself has been counted. -/
def lengthAsUtf16 (l : List Nat) (acc : Nat := 0) : Option Nat :=
  match decode1 l with
  | (none, _) => none
  | (some cp, adv) =>
    let acc := if cp > 0xFFFF then acc + 2 else acc + 1
    if h : (l.drop adv).headD 0 ≠ 0 then lengthAsUtf16 (l.drop (adv + 1)) acc else some acc
termination_by l.length
decreasing_by exact drop_lt_of_headD_ne h

/-- `uv_wtf8_to_utf16` idna.c:387-409: the units stored (terminator included); `none` where the C
    code would hit `assert(code_point >= 0)` (the caller must have checked the length first). -/
def toUtf16 (l : List Nat) : Option (List Nat) :=
  match decode1 l with
  | (none, _) => none
  | (some cp, adv) =>
    let us := if cp > 0xFFFF then [((cp - 0x10000) >>> 10) + 0xD800, ((cp - 0x10000) &&& 0x3FF) + 0xDC00]
              else [cp]
    if _h : (l.drop adv).headD 0 ≠ 0 then (toUtf16 (l.drop (adv + 1))).map (us ++ ·) else some us
termination_by l.length
decreasing_by exact drop_lt_of_headD_ne _h

/-- a code point as WTF-8 bytes, the stores of idna.c:504-529 -/
def encode (cp : Nat) : List Nat :=
  if cp < 0x80 then [cp]
  else if cp < 0x800 then [0xC0 ||| (cp >>> 6), 0x80 ||| (cp &&& 0x3F)]
  else if cp < 0x10000 then [0xE0 ||| (cp >>> 12), 0x80 ||| ((cp >>> 6) &&& 0x3F), 0x80 ||| (cp &&& 0x3F)]
  else [0xF0 ||| (cp >>> 18), 0x80 ||| ((cp >>> 12) &&& 0x3F), 0x80 ||| ((cp >>> 6) &&& 0x3F),
        0x80 ||| (cp &&& 0x3F)]

def isHi (u : Nat) : Prop := 0xD800 ≤ u ∧ u ≤ 0xDBFF
def isLo (u : Nat) : Prop := 0xDC00 ≤ u ∧ u ≤ 0xDFFF
instance (u : Nat) : Decidable (isHi u) := by unfold isHi; infer_instance
instance (u : Nat) : Decidable (isLo u) := by unfold isLo; infer_instance

/-- `0x10000 + ((u - 0xD800) << 10) + (next - 0xDC00)` idna.c:421 -/
def pairValue (u next : Nat) : Nat := 0x10000 + ((u - 0xD800) <<< 10) + (next - 0xDC00)

/-- `uv_utf16_length_as_wtf8` idna.c:427-457 -/
def lengthAsWtf8 (z : Bool) : List Nat → Nat
  | [] => 0                                   -- `w_source_len == 0`, or the terminator when z
  | [u] =>                                    -- last unit: `w_source_len == 1`, or next = terminator
    if z ∧ u = 0 then 0
    else (encode u).length
  | u :: next :: rest =>
    if z ∧ u = 0 then 0                       -- :437-438
    else if isHi u ∧ isLo next then 4 + lengthAsWtf8 z rest          -- :445-450
    else (encode u).length + lengthAsWtf8 z (next :: rest)

/-- main loop of `uv_utf16_to_wtf8` idna.c:496-539.  `cap = target_end - *target_ptr`,
    `out` = bytes stored so far, `tlen` = the variable `target_len`.
    Result: (out, tlen, remaining source, `w_source_len != 0` at loop exit). -/
def toWtf8Loop (z : Bool) (cap : Nat) : List Nat → List Nat → Nat → List Nat × Nat × List Nat × Bool
  | [], out, tlen => (out, tlen, [], z && !(out.length != cap))
    -- z: at the terminator; `w_source_len` stays -1 only if the loop condition `target != target_end`
    -- failed, otherwise :500-503 set it to 0.   ¬z: `w_source_len == 0`.
  | u :: rest, out, tlen =>
    if out.length = cap then (out, tlen, u :: rest, true)            -- target == target_end
    else if z ∧ u = 0 then (out, tlen, u :: rest, false)             -- :500-503
    else
      let pair : Bool := match rest with
        | next :: _ => decide (isHi u ∧ isLo next)
        | [] => false
      let cp := if pair then pairValue u (rest.headD 0) else u
      let bs := encode cp
      let room := cap - out.length
      if bs.length > room then (out ++ bs.take room, tlen, u :: rest, true)   -- `break` inside a character
      else
        let out := out ++ bs
        if pair then toWtf8Loop z cap (rest.drop 1) out out.length
        else toWtf8Loop z cap rest out out.length
termination_by src => src.length
decreasing_by all_goals (simp only [List.length_drop, List.length_cons]; omega)

def UV_ENOBUFS : Int := -105

/-- result of `uv_utf16_to_wtf8`: return code, bytes stored in the target (the final NUL included),
    value left in `*target_len_ptr` -/
structure Res where
  rc : Int
  out : List Nat
  reported : Nat

/-- `uv_utf16_to_wtf8` idna.c:460-560 with a non-NULL `target_ptr`.
    `tgt = none`: `*target_ptr == NULL`, the function allocates `length + 1` bytes (allocation
    assumed to succeed); `tgt = some n`: caller's buffer with `*target_len_ptr = n` (n + 1 bytes). -/
def toWtf8 (z : Bool) (src : List Nat) (tgt : Option Nat) : Res :=
  let cap := match tgt with
    | none => lengthAsWtf8 z src                                     -- :473-476
    | some n => n                                                    -- :478
  let (out, tlen, rem, more) := toWtf8Loop z cap src [] 0              -- :494-495 `target_len = 0`
  let reported := if out.length ≠ cap then out.length else cap       -- :541-544
  let more := if z ∧ out.length = cap ∧ rem.headD 0 = 0 then false else more   -- :547-548
  let out := out ++ [0]                                              -- :550
  if more then ⟨UV_ENOBUFS, out, tlen + lengthAsWtf8 z rem⟩          -- :553-557
  else ⟨0, out, reported⟩

end UvModel.Wtf8
