/-!
# `src/queue.h` — libuv's intrusive circular doubly-linked list, statement by statement

Every loop model in this library (`Loop`: handle_queue / pending / idle / prepare / check / closing,
`IoWatch`: watcher_queue / pending_queue, `Accept`, `StreamW`, `Udp`: write queues) represents a libuv
queue as a Lean `List` of member ids.  This file models what the C really does — pointer writes into
`next` / `prev` cells, in the order `queue.h` performs them — and `Props/QueueRefine.lean` proves that
each function refines the list operation the models use, for every memory and every list.

Memory is a pair of total functions from node ids to node ids (a node id stands for the address of a
`struct uv__queue`, be it a head sentinel embedded in the loop or a member embedded in a handle).
-/
namespace UvModel.Queue

structure Mem where
  next : Nat → Nat
  prev : Nat → Nat

/-- `a->next = v` -/
def setNext (m : Mem) (a v : Nat) : Mem := { m with next := fun x => if x = a then v else m.next x }
/-- `a->prev = v` -/
def setPrev (m : Mem) (a v : Nat) : Mem := { m with prev := fun x => if x = a then v else m.prev x }

/-- queue.h:27-30 `uv__queue_init`: `q->next = q; q->prev = q;` -/
def init (m : Mem) (q : Nat) : Mem :=
  let m := setNext m q q
  setPrev m q q

/-- queue.h:32-34 `uv__queue_empty`: `return q == q->next;` -/
def empty (m : Mem) (q : Nat) : Bool := q == m.next q

/-- queue.h:36-38 `uv__queue_head`, 40-42 `uv__queue_next`: `return q->next;` -/
def head (m : Mem) (q : Nat) : Nat := m.next q

/-- queue.h:44-49 `uv__queue_add(h, n)`:
`h->prev->next = n->next; n->next->prev = h->prev; h->prev = n->prev; h->prev->next = h;` -/
def add (m : Mem) (h n : Nat) : Mem :=
  let m := setNext m (m.prev h) (m.next n)
  let m := setPrev m (m.next n) (m.prev h)
  let m := setPrev m h (m.prev n)
  setNext m (m.prev h) h

/-- queue.h:51-60 `uv__queue_split(h, q, n)`:
`n->prev = h->prev; n->prev->next = n; n->next = q; h->prev = q->prev; h->prev->next = h; q->prev = n;` -/
def split (m : Mem) (h q n : Nat) : Mem :=
  let m := setPrev m n (m.prev h)
  let m := setNext m (m.prev n) n
  let m := setNext m n q
  let m := setPrev m h (m.prev q)
  let m := setNext m (m.prev h) h
  setPrev m q n

/-- queue.h:62-67 `uv__queue_move(h, n)`: `if (uv__queue_empty(h)) uv__queue_init(n); else
uv__queue_split(h, h->next, n);` -/
def move (m : Mem) (h n : Nat) : Mem :=
  if empty m h then init m n else split m h (m.next h) n

/-- queue.h:69-75 `uv__queue_insert_head(h, q)`:
`q->next = h->next; q->prev = h; q->next->prev = q; h->next = q;` -/
def insertHead (m : Mem) (h q : Nat) : Mem :=
  let m := setNext m q (m.next h)
  let m := setPrev m q h
  let m := setPrev m (m.next q) q
  setNext m h q

/-- queue.h:77-83 `uv__queue_insert_tail(h, q)`:
`q->next = h; q->prev = h->prev; q->prev->next = q; h->prev = q;` -/
def insertTail (m : Mem) (h q : Nat) : Mem :=
  let m := setNext m q h
  let m := setPrev m q (m.prev h)
  let m := setNext m (m.prev q) q
  setPrev m h q

/-- queue.h:85-88 `uv__queue_remove(q)`: `q->prev->next = q->next; q->next->prev = q->prev;` -/
def remove (m : Mem) (q : Nat) : Mem :=
  let m := setNext m (m.prev q) (m.next q)
  setPrev m (m.next q) (m.prev q)

/-- queue.h:24-25 `uv__queue_foreach(q, h)`: `for (q = h->next; q != h; q = q->next)` with at most
`fuel` steps (the driver's dump; `Props/QueueRefine.foreach_refines` shows `l.length` steps suffice). -/
def walk (m : Mem) (h : Nat) : Nat → Nat → List Nat
  | 0, _ => []
  | fuel + 1, q => if q = h then [] else q :: walk m h fuel (m.next q)

def foreach (m : Mem) (h : Nat) (fuel : Nat) : List Nat := walk m h fuel (m.next h)

/-- the same walk through `prev` (used only by the correspondence dump) -/
def walkBack (m : Mem) (h : Nat) : Nat → Nat → List Nat
  | 0, _ => []
  | fuel + 1, q => if q = h then [] else q :: walkBack m h fuel (m.prev q)

def foreachBack (m : Mem) (h : Nat) (fuel : Nat) : List Nat := walkBack m h fuel (m.prev h)

/-! ## the abstraction relation -/

/-- consecutive nodes of `ns` are linked both ways -/
def Linked (m : Mem) : List Nat → Prop
  | [] => True
  | [_] => True
  | x :: y :: r => (m.next x = y ∧ m.prev y = x) ∧ Linked m (y :: r)

/-- the ring with head sentinel `h` holds exactly the members `l`, in this order -/
def Ring (m : Mem) (h : Nat) (l : List Nat) : Prop :=
  Linked m (h :: l ++ [h]) ∧ (h :: l).Nodup

/-- the loop idiom of `uv__run_pending`, `uv__run_idle/prepare/check`, `uv__io_poll`'s watcher pass …:
`while (!uv__queue_empty(&pq)) { q = uv__queue_head(&pq); uv__queue_remove(q); uv__queue_init(q); visit q }`
(no mutation by the visit), at most `fuel` rounds; returns the visited nodes and the final memory -/
def drain (m : Mem) (pq : Nat) : Nat → Mem × List Nat
  | 0 => (m, [])
  | fuel + 1 =>
    if empty m pq then (m, [])
    else
      let q := head m pq
      let m := remove m q
      let m := init m q
      let (m', vs) := drain m pq fuel
      (m', q :: vs)

end UvModel.Queue
