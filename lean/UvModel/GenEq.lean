import UvModel.Generated.Kernels
import UvModel.Timer
import UvModel.HandleKernels
/-!
  Tie A obligations (DESIGN.md §2.2): the kernels *generated from /repo's current C text*
  (UvModel/Generated/Kernels.lean, rewritten by tools/gen_lean.py on every run) equal the
  hand-written model kernels on which the property theorems are stated.  A change of the C
  text changes the generated term; if it changes the meaning, the proof below stops checking.

  This file holds the obligations of the loop core and the timers (C01–C04); the other properties'
  obligations live in `UvModel/GenEq/C07.lean`, `C12.lean`, `C19.lean`, `C20.lean`, each built by
  its own check only, so that a change in one property's C text cannot break another's tie.

  Range hypotheses (`0 ≤ x < 2^64` …) are the C types' ranges; counters additionally need the
  "no underflow / no wrap" facts, which are exactly the invariants the loop model proves.
-/
namespace UvModel.GenEq
open UvModel UvModel.Generated

/-! ### C04: timer arithmetic -/

/-- `uv_timer_start`'s clamp = `Timer.clampC` -/
theorem timer_clamp_eq (time timeout : Nat) (ht : time < Timer.U64) (hto : timeout < Timer.U64) :
    timer_clamp (time : Int) (timeout : Int)
      = some { ret := 0, clamped_timeout := (Timer.clampC time timeout : Nat) } := by
  unfold timer_clamp Timer.clampC CSem.u64 Timer.U64 at *
  simp only []
  have h1 : ((time : Int) + (timeout : Int)) % 18446744073709551616
      = (((time + timeout) % 18446744073709551616 : Nat) : Int) := by omega
  have h2 : (-(1 : Int)) % 18446744073709551616 = ((2 ^ 64 - 1 : Nat) : Int) := by decide
  rw [h1, h2]
  by_cases h : (time + timeout) % 18446744073709551616 < timeout
  · have : (2:Nat)^64 = 18446744073709551616 := by decide
    simp [h, this]
    omega
  · have : (2:Nat)^64 = 18446744073709551616 := by decide
    simp [h, this]
    omega

/-- `uv_timer_get_due_in` = `Timer.dueIn` arithmetic -/
theorem timer_due_in_eq (time due : Nat) (hd : due < Timer.U64) :
    timer_due_in (time : Int) (due : Int)
      = some { ret := ((if time ≥ due then 0 else due - time : Nat) : Int) } := by
  unfold timer_due_in CSem.u64 Timer.U64 at *
  by_cases h : time ≥ due
  · have h3 : (time : Int) ≥ (due : Int) := by omega
    simp [h, h3]
  · have h3 : ¬ ((time : Int) ≥ (due : Int)) := by omega
    have h4 : ¬ (due ≤ time) := by omega
    simp only [h3, decide_false, Bool.false_eq_true, ↓reduceIte, ge_iff_le, h4]
    congr 2
    omega

/-- `timer_less_than` = `Heap.lt` -/
theorem timer_less_than_eq (a b : Heap.Ent) (ha hb oa ob : Int) :
    (timer_less_than a.startId a.timeout b.startId b.timeout ha hb oa ob).map (·.ret)
      = some (CSem.b2i (Heap.lt a b)) := by
  unfold timer_less_than Heap.lt CSem.b2i
  by_cases h1 : a.timeout < b.timeout
  · simp [h1]
  · by_cases h2 : b.timeout < a.timeout
    · simp [h1, h2]
    · simp [h1, h2]

/-- `uv__next_timeout` = `Timer.nextTimeout` given the heap minimum -/
theorem next_timeout_eq (s : Timer.S) (hm : Int) (opq : Int)
    (hnull : (hm = 0) ↔ Heap.min? s.heap = none)
    (hrange : ∀ e, Heap.min? s.heap = some e → e.timeout < Timer.U64) (htime : s.time < Timer.U64) :
    (next_timeout hm (((Heap.min? s.heap).map (·.timeout)).getD 0 : Nat) (s.time : Int) opq).map (·.ret)
      = some (Timer.nextTimeout s) := by
  unfold next_timeout Timer.nextTimeout CSem.u64 CSem.i32 Timer.INT_MAX Timer.U64 at *
  cases hmin : Heap.min? s.heap with
  | none =>
    have : hm = 0 := hnull.mpr hmin
    simp [this]
  | some e =>
    have hne : hm ≠ 0 := fun h => by have := hnull.mp h; simp [hmin] at this
    have he := hrange e hmin
    simp only [Option.map_some, Option.getD_some]
    by_cases h1 : e.timeout ≤ s.time
    · have h1' : ((e.timeout : Int) ≤ (s.time : Int)) := by omega
      simp [hne, h1, h1']
    · have h1' : ¬ ((e.timeout : Int) ≤ (s.time : Int)) := by omega
      have hd : ((e.timeout : Int) - (s.time : Int)) % 18446744073709551616
          = ((e.timeout - s.time : Nat) : Int) := by omega
      by_cases h2 : e.timeout - s.time > 2147483647
      · have h2' : ((e.timeout - s.time : Nat) : Int) > 2147483647 := by omega
        simp [hne, h1, h1', hd, h2, h2']
      · have h2' : ¬ (((e.timeout - s.time : Nat) : Int) > 2147483647) := by omega
        simp [hne, h1, h1', hd, h2, h2']
        omega

end UvModel.GenEq

/-! ### C01 / C03: handle and loop accounting kernels (uv-common.h macros, core.c) -/
namespace UvModel.GenEq
open UvModel UvModel.Generated UvModel.HandleKernels

/-- the counter range in which C's `unsigned int` arithmetic is plain integer arithmetic -/
def InU32 (n : Int) : Prop := 0 ≤ n ∧ n < 4294967296

theorem u32_id {n : Int} (h : InU32 n) : CSem.u32 n = n := by
  unfold CSem.u32 InU32 at *; omega

/-- `uv__handle_start` (macro expanded from /repo) = `HandleKernels.handleStart`,
    provided the counter does not wrap (`ah + 1 < 2^32`) -/
theorem handle_start_eq (k : HK) (h : InU32 k.ah) (h' : InU32 (k.ah + 1)) :
    handle_start k.active k.ref k.ah
      = some { ret := 0, h_flags__UV_HANDLE_ACTIVE := (handleStart k).active,
               h_loop_active_handles := (handleStart k).ah } := by
  unfold handle_start handleStart
  cases ha : k.active <;> cases hr : k.ref <;> simp_all [u32_id]

/-- `uv__handle_stop` = `HandleKernels.handleStop`, provided the counter does not underflow
    when it is decremented (`ah ≥ 1` for an active referenced handle: the loop model's count_inv) -/
theorem handle_stop_eq (k : HK) (h : InU32 k.ah) (h' : k.active → k.ref → InU32 (k.ah - 1)) :
    handle_stop k.active k.ref k.ah
      = some { ret := 0, h_flags__UV_HANDLE_ACTIVE := (handleStop k).active,
               h_loop_active_handles := (handleStop k).ah } := by
  unfold handle_stop handleStop
  cases ha : k.active <;> cases hr : k.ref <;> simp_all [u32_id]

theorem handle_ref_eq (k : HK) (h : InU32 k.ah) (h' : InU32 (k.ah + 1)) :
    handle_ref k.active k.closing k.ref k.ah
      = some { ret := 0, h_flags__UV_HANDLE_REF := (handleRef k).ref,
               h_loop_active_handles := (handleRef k).ah } := by
  unfold handle_ref handleRef
  cases ha : k.active <;> cases hr : k.ref <;> cases hc : k.closing <;> simp_all [u32_id]

theorem handle_unref_eq (k : HK) (h : InU32 k.ah)
    (h' : k.active → k.ref → ¬ k.closing → InU32 (k.ah - 1)) :
    handle_unref k.active k.closing k.ref k.ah
      = some { ret := 0, h_flags__UV_HANDLE_REF := (handleUnref k).ref,
               h_loop_active_handles := (handleUnref k).ah } := by
  unfold handle_unref handleUnref
  cases ha : k.active <;> cases hr : k.ref <;> cases hc : k.closing <;> simp_all [u32_id]

theorem is_active_eq (k : HK) : is_active k.active = some { ret := CSem.b2i (isActive k) } := by
  simp [is_active, isActive]

theorem is_closing_eq (k : HK) :
    is_closing k.closed k.closing = some { ret := CSem.b2i (isClosing k) } := by
  simp [is_closing, isClosing]

theorem has_ref_eq (k : HK) : has_ref k.ref = some { ret := CSem.b2i (hasRef k) } := by
  simp [has_ref, hasRef]

theorem req_register_eq (ar : Int) (h : InU32 (ar + 1)) :
    req_register ar = some { ret := 0, loop_active_reqs_count := reqRegister ar } := by
  simp [req_register, reqRegister, u32_id h]

theorem req_unregister_eq (ar : Int) (h : InU32 (ar - 1)) :
    req_unregister ar = some { ret := 0, loop_active_reqs_count := reqUnregister ar } := by
  simp [req_unregister, reqUnregister, u32_id h]

theorem has_active_handles_eq (ah : Int) :
    has_active_handles ah = some { ret := CSem.b2i (hasActiveHandles ah) } := by
  simp [has_active_handles, hasActiveHandles, CSem.u32]

theorem has_active_reqs_eq (ar : Int) :
    has_active_reqs ar = some { ret := CSem.b2i (hasActiveReqs ar) } := by
  simp [has_active_reqs, hasActiveReqs, CSem.u32]

/-- `uv__loop_alive` (core.c) = `HandleKernels.loopAlive`; `closing` is the `closing_handles` pointer -/
theorem loop_alive_eq (ah ar closing : Int) (pendingEmpty : Bool) :
    loop_alive ah ar closing pendingEmpty
      = some { ret := CSem.b2i (loopAlive ah ar pendingEmpty (decide (closing = 0))) } := by
  simp [loop_alive, loopAlive, hasActiveHandles, hasActiveReqs, CSem.u32]

/-- `uv__backend_timeout` (core.c) = `HandleKernels.backendTimeout` -/
theorem backend_timeout_eq (next ah ar closing : Int) (reap idleEmpty pendingEmpty : Bool) (stop : Int) :
    backend_timeout next ah ar closing reap idleEmpty pendingEmpty stop
      = some { ret := backendTimeout (decide (stop ≠ 0)) ah ar pendingEmpty idleEmpty reap (decide (closing = 0)) next } := by
  unfold backend_timeout backendTimeout hasActiveHandles hasActiveReqs CSem.u32
  by_cases hs : stop = 0 <;> by_cases hc : closing = 0 <;>
    cases reap <;> cases idleEmpty <;> cases pendingEmpty <;>
    by_cases h1 : ah > 0 <;> by_cases h2 : ar > 0 <;> simp [hs, hc, h1, h2]

theorem backend_timeout_api_eq (bt : Int) (wqEmpty : Bool) :
    backend_timeout_api bt wqEmpty = some { ret := uvBackendTimeout wqEmpty bt } := by
  unfold backend_timeout_api uvBackendTimeout
  cases wqEmpty <;> simp

/-- encoding of `uv_run_mode` as the C enum values -/
def modeVal : Mode → Int
  | .default => CEnum.UV_RUN_DEFAULT
  | .once => CEnum.UV_RUN_ONCE
  | .nowait => 2

/-- `can_sleep` and the mode → timeout decision inside `uv_run` = `canSleep` / `runTimeout` -/
theorem run_timeout_decision_eq (bt : Int) (idleEmpty pendingEmpty : Bool) (m : Mode) :
    run_timeout_decision bt idleEmpty pendingEmpty (modeVal m)
      = some { ret := 0, can_sleep := CSem.b2i (canSleep pendingEmpty idleEmpty),
               timeout := runTimeout m (canSleep pendingEmpty idleEmpty) bt } := by
  unfold run_timeout_decision runTimeout canSleep CSem.u32 CSem.b2i modeVal
  cases m <;> cases idleEmpty <;> cases pendingEmpty <;> simp [CEnum.UV_RUN_DEFAULT, CEnum.UV_RUN_ONCE] <;> decide

end UvModel.GenEq
