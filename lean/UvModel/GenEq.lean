import UvModel.Generated.Kernels
import UvModel.Timer
/-!
  Tie A obligations (DESIGN.md §2.2): the kernels *generated from /repo's current C text*
  (UvModel/Generated/Kernels.lean, rewritten by tools/gen_lean.py on every run) equal the
  hand-written model kernels on which the property theorems are stated.  A change of the C
  text changes the generated term; if it changes the meaning, the proof below stops checking.

  Range hypotheses (`0 ≤ x < 2^64` …) are the C types' ranges; counters additionally need the
  "no underflow / no wrap" facts, which are exactly the invariants the loop model proves.
-/
namespace UvModel.GenEq
open UvModel UvModel.Generated

/-! ### C04: timer arithmetic -/

/-- `uv_timer_start`'s clamp = `Timer.clampC` -/
theorem timer_clamp_eq (time timeout : Nat) (ht : time < Timer.U64) (hto : timeout < Timer.U64) :
    timer_clamp (time : Int) (timeout : Int)
      = some { ret := 0, clamped_timeout := (Timer.clampC time timeout : Nat) } := by
  unfold timer_clamp Timer.clampC CSem.u64 Timer.U64 at *
  simp only []
  have h1 : ((time : Int) + (timeout : Int)) % 18446744073709551616
      = (((time + timeout) % 18446744073709551616 : Nat) : Int) := by omega
  have h2 : (-(1 : Int)) % 18446744073709551616 = ((2 ^ 64 - 1 : Nat) : Int) := by decide
  rw [h1, h2]
  by_cases h : (time + timeout) % 18446744073709551616 < timeout
  · have : (2:Nat)^64 = 18446744073709551616 := by decide
    simp [h, this]
    omega
  · have : (2:Nat)^64 = 18446744073709551616 := by decide
    simp [h, this]
    omega

/-- `uv_timer_get_due_in` = `Timer.dueIn` arithmetic -/
theorem timer_due_in_eq (time due : Nat) (hd : due < Timer.U64) :
    timer_due_in (time : Int) (due : Int)
      = some { ret := ((if time ≥ due then 0 else due - time : Nat) : Int) } := by
  unfold timer_due_in CSem.u64 Timer.U64 at *
  by_cases h : time ≥ due
  · have h3 : (time : Int) ≥ (due : Int) := by omega
    simp [h, h3]
  · have h3 : ¬ ((time : Int) ≥ (due : Int)) := by omega
    have h4 : ¬ (due ≤ time) := by omega
    simp only [h3, decide_false, Bool.false_eq_true, ↓reduceIte, ge_iff_le, h4]
    congr 2
    omega

/-- `timer_less_than` = `Heap.lt` -/
theorem timer_less_than_eq (a b : Heap.Ent) (ha hb oa ob : Int) :
    (timer_less_than a.startId a.timeout b.startId b.timeout ha hb oa ob).map (·.ret)
      = some (CSem.b2i (Heap.lt a b)) := by
  unfold timer_less_than Heap.lt CSem.b2i
  by_cases h1 : a.timeout < b.timeout
  · simp [h1]
  · by_cases h2 : b.timeout < a.timeout
    · simp [h1, h2]
    · simp [h1, h2]

/-- `uv__next_timeout` = `Timer.nextTimeout` given the heap minimum -/
theorem next_timeout_eq (s : Timer.S) (hm : Int) (opq : Int)
    (hnull : (hm = 0) ↔ Heap.min? s.heap = none)
    (hrange : ∀ e, Heap.min? s.heap = some e → e.timeout < Timer.U64) (htime : s.time < Timer.U64) :
    (next_timeout hm (((Heap.min? s.heap).map (·.timeout)).getD 0 : Nat) (s.time : Int) opq).map (·.ret)
      = some (Timer.nextTimeout s) := by
  unfold next_timeout Timer.nextTimeout CSem.u64 CSem.i32 Timer.INT_MAX Timer.U64 at *
  cases hmin : Heap.min? s.heap with
  | none =>
    have : hm = 0 := hnull.mpr hmin
    simp [this]
  | some e =>
    have hne : hm ≠ 0 := fun h => by have := hnull.mp h; simp [hmin] at this
    have he := hrange e hmin
    simp only [Option.map_some, Option.getD_some]
    by_cases h1 : e.timeout ≤ s.time
    · have h1' : ((e.timeout : Int) ≤ (s.time : Int)) := by omega
      simp [hne, h1, h1']
    · have h1' : ¬ ((e.timeout : Int) ≤ (s.time : Int)) := by omega
      have hd : ((e.timeout : Int) - (s.time : Int)) % 18446744073709551616
          = ((e.timeout - s.time : Nat) : Int) := by omega
      by_cases h2 : e.timeout - s.time > 2147483647
      · have h2' : ((e.timeout - s.time : Nat) : Int) > 2147483647 := by omega
        simp [hne, h1, h1', hd, h2, h2']
      · have h2' : ¬ (((e.timeout - s.time : Nat) : Int) > 2147483647) := by omega
        simp [hne, h1, h1', hd, h2, h2']
        omega

end UvModel.GenEq
