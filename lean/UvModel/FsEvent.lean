/-!
  Model of the inotify half of src/unix/linux.c (2546-2727): `struct watcher_list`, find_watcher,
  maybe_free_watcher_list, uv__inotify_read, uv_fs_event_start/stop, uv__fs_event_close — C17.

  * `loop->inotify_watchers` (RB tree keyed by wd) is the finite map `lists : wd → Option WL`; only
    lookups by wd, insert and remove are used.  A `watcher_list` that was freed is simply absent: every access
    the C code makes through a pointer it still holds is modelled as a lookup, and a failed lookup
    where the C code would dereference the stale pointer sets `err` (use after free).
  * `queue` is the local `struct uv__queue queue` of uv__inotify_read (the detached watchers not yet
    called); `uv__queue_remove(&handle->watchers)` in uv_fs_event_stop unlinks the handle from
    whichever queue it is on, i.e. from its list's `watchers` and from `queue`.
  * inputs: the wd `inotify_add_watch` returns for a path (`start h cb wd alias`: path "w<wd>_<alias>",
    wd 0 = ENOENT) and the records `read(2)` returns.  User callbacks are a script (k-th callback runs
    `script k`: start/stop/close of any handle, including the one being called).
  Not modelled: which records the kernel produces, uv__inotify_fork, ENOMEM, init_inotify failure.
-/
namespace UvModel.FsEvent

structure WL where
  wd : Nat
  path : String                  -- w->path's basename (set by the start that created the list)
  watchers : List Nat := []
  iterating : Bool := false
deriving Repr, Inhabited, DecidableEq

structure Handle where
  active : Bool := false
  closing : Bool := false
  wd : Nat := 0
  cb : Nat := 0
deriving Repr, Inhabited, DecidableEq

inductive Op where
  | start (h cb wd alias : Nat)
  | stop (h : Nat)
  | close (h : Nat)
deriving DecidableEq, Repr, Inhabited

inductive Obs where
  | api (o : Op)
  | ret (rc : Int) (active : Bool)
  | misuse
  | addwatch (r : Int)
  | rmwatch (wd : Nat)
  | cb (h f : Nat) (name : String) (events : Nat)
deriving DecidableEq, Repr, Inhabited

/-- one `struct inotify_event`: wd, mask, name (none = `len == 0`) -/
structure Rec where
  wd : Nat
  mask : Nat
  name : Option String
deriving DecidableEq, Repr, Inhabited

abbrev Script := Nat → List Op

structure S where
  lists : Nat → Option WL := fun _ => none
  hs : Nat → Handle := fun _ => {}
  queue : List Nat := []
  inited : Bool := false        -- init_inotify ran
  ncb : Nat := 0
  err : Bool := false
  trace : List Obs := []        -- newest first

instance : Inhabited S := ⟨{}⟩

def upd {α : Type} (f : Nat → α) (i : Nat) (v : α) : Nat → α := fun j => if j = i then v else f j
def S.emit (s : S) (o : Obs) : S := { s with trace := o :: s.trace }

/-- find_watcher -/
def find (s : S) (wd : Nat) : Option WL := s.lists wd

/-- compare_watchers, linux.c:2465-2470: the order of the RB tree `watcher_root` the map `lists`
    stands for (keys = watch descriptors, `int`); tied to the C text and shown to be a strict total
    order in UvModel/GenEq/C17.lean -/
def cmpWd (a b : Int) : Int := if a < b then -1 else if a > b then 1 else 0

/-- write back a list record (RB_INSERT for a new one, in-place update otherwise) -/
def setList (s : S) (w : WL) : S := { s with lists := upd s.lists w.wd (some w) }

/-- the mask uv_fs_event_start registers, linux.c:2673-2680:
    IN_ATTRIB|IN_CREATE|IN_MODIFY|IN_DELETE|IN_DELETE_SELF|IN_MOVE_SELF|IN_MOVED_FROM|IN_MOVED_TO -/
def WATCH_MASK : Nat := 0x4 ||| 0x100 ||| 0x2 ||| 0x200 ||| 0x400 ||| 0x800 ||| 0x40 ||| 0x80

def UV_RENAME : Nat := 1
def UV_CHANGE : Nat := 2
def IN_MODIFY : Nat := 2
def IN_ATTRIB : Nat := 4

/-- linux.c:2594-2598 -/
def eventsOf (mask : Nat) : Nat :=
  (if mask &&& (IN_ATTRIB ||| IN_MODIFY) ≠ 0 then UV_CHANGE else 0) |||
  (if (mask % 2 ^ 32) &&& (2 ^ 32 - 1 - (IN_ATTRIB ||| IN_MODIFY)) ≠ 0 then UV_RENAME else 0)

/-- maybe_free_watcher_list, linux.c:2553-2561 (`w` is still referenced by the caller: absent = use after free) -/
def maybeFree (s : S) (wd : Nat) : S :=
  match find s wd with
  | none => { s with err := true }
  | some w =>
    if !w.iterating && w.watchers.isEmpty then
      ({ s with lists := upd s.lists wd none }).emit (.rmwatch wd)
    else s

/-- uv_fs_event_start, linux.c:2646-2702 -/
def apiStart (s : S) (h cb wd alias : Nat) : S :=
  let H := s.hs h
  if H.closing then s.emit .misuse
  else if H.active then s.emit (.ret (-22) true)
  else
    let s := { s with inited := true }
    if wd = 0 then (s.emit (.addwatch (-2))).emit (.ret (-2) false)
    else
      let s := s.emit (.addwatch wd)
      let s := match find s wd with
        | some _ => s
        | none => setList s { wd := wd, path := s!"w{wd}_{alias}" }
      match find s wd with
      | none => { s with err := true }
      | some w =>
        let s := setList s { w with watchers := w.watchers ++ [h] }
        ({ s with hs := upd s.hs h { H with active := true, wd := wd, cb := cb } }).emit (.ret 0 true)

/-- uv_fs_event_stop, linux.c:2705-2722 -/
def stopCore (s : S) (h : Nat) : S :=
  let H := s.hs h
  if !H.active then s
  else match find s H.wd with
    | none => { s with err := true }                       -- assert(w != NULL)
    | some w =>
      let s := { s with hs := upd s.hs h { H with active := false, wd := 0 } }
      let s := setList s { w with watchers := w.watchers.erase h }
      let s := { s with queue := s.queue.erase h }
      maybeFree s w.wd

def apiStop (s : S) (h : Nat) : S :=
  if (s.hs h).closing then s.emit .misuse      -- harness refuses: the handle may already be freed
  else
    let s1 := stopCore s h
    s1.emit (.ret 0 (s1.hs h).active)

/-- uv_close -> uv__fs_event_close, linux.c:2725-2727 -/
def apiClose (s : S) (h : Nat) : S :=
  let H := s.hs h
  if H.closing then s.emit .misuse
  else
    let s1 := stopCore { s with hs := upd s.hs h { H with closing := true } } h
    s1.emit (.ret 0 (s1.hs h).active)

def applyOp (s : S) (o : Op) : S :=
  let s := s.emit (.api o)
  match o with
  | .start h cb wd a => apiStart s h cb wd a
  | .stop h => apiStop s h
  | .close h => apiClose s h

def runCb (sc : Script) (s : S) : S :=
  (sc s.ncb).foldl applyOp { s with ncb := s.ncb + 1 }

/-- the `while (!uv__queue_empty(&queue))` loop, linux.c:2623-2631; fuel = initial queue length -/
def dispatchLoop (sc : Script) (wd : Nat) (name : String) (events : Nat) : Nat → S → S
  | 0, s => s
  | fuel + 1, s =>
    match s.queue with
    | [] => s
    | h :: rest =>
      let s := { s with queue := rest }
      match find s wd with
      | none => { s with err := true }
      | some w =>
        let s := setList s { w with watchers := w.watchers ++ [h] }
        let s := runCb sc (s.emit (.cb h (s.hs h).cb name events))
        dispatchLoop sc wd name events fuel s

/-- one record of the read buffer, linux.c:2591-2635 -/
def dispatchRec (sc : Script) (s : S) (r : Rec) : S :=
  match find s r.wd with
  | none => s                                                -- stale event
  | some w =>
    let name := r.name.getD w.path
    let s := setList s { w with iterating := true, watchers := [] }
    let s := { s with queue := w.watchers }
    let s := dispatchLoop sc r.wd name (eventsOf r.mask) w.watchers.length s
    match find s r.wd with
    | none => { s with err := true }                         -- w was freed while iterating
    | some w' => maybeFree (setList s { w' with iterating := false }) r.wd

def dispatch (sc : Script) (s : S) (rs : List Rec) : S := rs.foldl (dispatchRec sc) s

inductive In where
  | op (o : Op)
  | dispatch (rs : List Rec)
deriving Repr, Inhabited

def step (sc : Script) (s : S) : In → S
  | .op o => applyOp s o
  | .dispatch rs => dispatch sc s rs

def run (sc : Script) (s : S) (ins : List In) : S := ins.foldl (step sc) s

/-! ### Specification vocabulary (used by Props/C17) -/

/-- callbacks in the trace, newest first: (handle, reported name, events) -/
def cbsOf : List Obs → List (Nat × String × Nat)
  | [] => []
  | .cb h _ name ev :: t => (h, name, ev) :: cbsOf t
  | _ :: t => cbsOf t

/-- the handle an API call stops, if any -/
def stopTarget : Op → Option Nat
  | .stop h => some h
  | .close h => some h
  | .start _ _ _ _ => none

/-- what a callback's script does to the handles still waiting for their turn -/
def eraseAll (q : List Nat) (ops : List Op) : List Nat :=
  ops.foldl (fun q o => match stopTarget o with | some h => q.erase h | none => q) q

/-- who is called for one record: the head of the detached queue, then — after removing whatever its
    callback (the k-th of the run) stopped or closed — the rest, in order.  `fuel` ≥ queue length. -/
def specDeliver (sc : Script) : Nat → Nat → List Nat → List Nat
  | 0, _, _ => []
  | _ + 1, _, [] => []
  | f + 1, k, h :: rest => h :: specDeliver sc f (k + 1) (eraseAll rest (sc k))

end UvModel.FsEvent
