/-!
  Model of src/fs-poll.c (uv_fs_poll_start/stop/getpath, uv__fs_poll_close, poll_cb, timer_cb,
  timer_close_cb, statbuf_eq) — C17, fs_poll half.

  * A `poll_ctx` is a record in the table `ctxs` (index = creation order, never reused).  Its
    embedded timer and stat request are three booleans: `statInFlight` (uv_fs_stat submitted, poll_cb
    not yet run), `timerActive` (uv_timer_start'ed, not yet fired/stopped), `timerClosing` (uv_close on
    the timer, timer_close_cb not yet run).  `freed` = uv__free(ctx) happened.
  * The singly linked chain `handle->poll_ctx -> previous -> ...` is the list `Handle.chain`
    (head = `handle->poll_ctx`, next element = `->previous`); the unlink loop of timer_close_cb
    (fs-poll.c:256-261) is `List.erase` on the tail.
  * Kernel / loop outcomes are inputs: `statDone c r` (the thread pool finished the stat of context
    c with result r and the loop runs poll_cb), `timerFire c`, `timerClosed c` (closing phase runs
    timer_close_cb), `closeCb h` (uv__finish_close of the fs_poll handle), `advance n` (clock).
    Events that are not enabled (no stat in flight, timer not armed/not due, ...) are rejected with
    `badEvent` and change nothing: the environment only delivers what libuv asked for.
  * User callbacks are a script: the k-th poll callback of the run performs `script k`, a list of
    API calls (start/stop/close of any handle, including the one being called back).
  * Ownership discipline: touching a freed context, a closed (= user-freed) handle, a NULL chain,
    a failing assert or the `abort()` after uv_timer_start sets `err`.  The theorems show `err` is
    unreachable.
  * API misuse that libuv does not define (uv_close twice, start/stop on a handle whose close_cb
    has run, start on a closing handle) is rejected as `misuse` (the harness refuses identically).
  Not modelled: ENOMEM in uv_fs_poll_start (C16), Windows.
-/
namespace UvModel.FsPoll

/-- the fields compared by statbuf_eq (fs-poll.c:267-282), in that order -/
structure Stat where
  ctimNs : Nat := 0
  mtimNs : Nat := 0
  btimNs : Nat := 0
  ctimS : Nat := 0
  mtimS : Nat := 0
  btimS : Nat := 0
  size : Nat := 0
  mode : Nat := 0
  uid : Nat := 0
  gid : Nat := 0
  ino : Nat := 0
  dev : Nat := 0
  flags : Nat := 0
  gen : Nat := 0
deriving DecidableEq, Repr, Inhabited

/-- `zero_statbuf` -/
def Stat.zero : Stat := {}

/-- statbuf_eq, fs-poll.c:267-282 -/
def statbufEq (a b : Stat) : Bool :=
  a.ctimNs == b.ctimNs && a.mtimNs == b.mtimNs && a.btimNs == b.btimNs &&
  a.ctimS == b.ctimS && a.mtimS == b.mtimS && a.btimS == b.btimS &&
  a.size == b.size && a.mode == b.mode && a.uid == b.uid && a.gid == b.gid &&
  a.ino == b.ino && a.dev == b.dev && a.flags == b.flags && a.gen == b.gen

/-- result of one stat: success with the metadata, or `err e` = status `-(e+1)` (a negative errno) -/
inductive Res where
  | ok (st : Stat)
  | err (e : Nat)
deriving DecidableEq, Repr, Inhabited

def Res.status : Res → Int
  | .ok _ => 0
  | .err e => -((e : Int) + 1)

/-- what poll_cb passes as `curr` -/
def Res.curr : Res → Stat
  | .ok st => st
  | .err _ => Stat.zero

structure Ctx where
  handle : Nat := 0
  path : Nat := 0
  cb : Nat := 0
  interval : Nat := 1
  startTime : Nat := 0
  busy : Int := 0               -- busy_polling: 0 first time, <0 last error, 1 have statbuf
  statbuf : Stat := {}
  timerActive : Bool := false
  timerClosing : Bool := false
  statInFlight : Bool := false
  freed : Bool := false
  due : Nat := 0
deriving Repr, Inhabited

structure Handle where
  active : Bool := false
  closing : Bool := false
  closePending : Bool := false    -- uv__make_close_pending called
  closed : Bool := false          -- close_cb ran (the user frees the handle there)
  chain : List Nat := []          -- poll_ctx, poll_ctx->previous, ...
deriving Repr, Inhabited

inductive Op where
  | start (h cb path interval : Nat)
  | stop (h : Nat)
  | close (h : Nat)
deriving DecidableEq, Repr, Inhabited

inductive Obs where
  | cb (c h cbid : Nat) (status : Int) (prev curr : Stat)  -- user callback made by context c
  | stat (c path : Nat)                                    -- uv_fs_stat submitted by context c
  | arm (c n : Nat)                                        -- uv_timer_start(timer of c, n)
  | closeTimer (c : Nat)                                   -- uv_close(timer of c)
  | res (c : Nat) (r : Res) (live : Bool)                  -- input log: stat result seen by poll_cb
  | ret (rc : Int) (active : Bool)                         -- API return + uv_is_active afterwards
  | api (o : Op)                                           -- an API call is being made (main program or script)
  | misuse
  | badEvent
deriving DecidableEq, Repr, Inhabited

abbrev Script := Nat → List Op

structure S where
  now : Nat := 0
  nctx : Nat := 0
  ctxs : Nat → Ctx := fun _ => {}
  hs : Nat → Handle := fun _ => {}
  ncb : Nat := 0
  err : Bool := false
  trace : List Obs := []          -- newest first

instance : Inhabited S := ⟨{}⟩

def upd {α : Type} (f : Nat → α) (i : Nat) (v : α) : Nat → α := fun j => if j = i then v else f j

def S.emit (s : S) (o : Obs) : S := { s with trace := o :: s.trace }
def S.setCtx (s : S) (c : Nat) (v : Ctx) : S := { s with ctxs := upd s.ctxs c v }
def S.setH (s : S) (h : Nat) (v : Handle) : S := { s with hs := upd s.hs h v }
def S.fail (s : S) : S := { s with err := true }

/-- `uv_is_active(handle) && !uv__is_closing(handle) && handle->poll_ctx == ctx` (fs-poll.c:197-202, 227-229) -/
def liveB (s : S) (c : Nat) : Bool :=
  let H := s.hs (s.ctxs c).handle
  H.active && !H.closing && H.chain.head? == some c

/-- uv_fs_poll_start, fs-poll.c:66-113 (allocation failures not modelled) -/
def apiStart (s : S) (h cb path iv : Nat) : S :=
  let H := s.hs h
  if H.closing then s.emit .misuse
  else if H.active then s.emit (.ret 0 true)
  else
    let c := s.nctx
    let ctx : Ctx := { handle := h, path := path, cb := cb, interval := if iv = 0 then 1 else iv,
                       startTime := s.now, statInFlight := true }
    let s1 : S := { s with nctx := c + 1, ctxs := upd s.ctxs c ctx,
                           hs := upd s.hs h { H with active := true, chain := c :: H.chain } }
    (s1.emit (.stat c path)).emit (.ret 0 true)

/-- uv_fs_poll_stop, fs-poll.c:116-135 -/
def stopCore (s : S) (h : Nat) : S :=
  let H := s.hs h
  if !H.active then s
  else match H.chain with
    | [] => s.fail                                          -- assert(ctx != NULL)
    | c :: _ =>
      let C := s.ctxs c
      let s0 := if C.freed then s.fail else s
      let s1 := if C.timerActive then
                  (s0.setCtx c { C with timerActive := false, timerClosing := true }).emit (.closeTimer c)
                else s0
      s1.setH h { H with active := false }

def apiStop (s : S) (h : Nat) : S :=
  if (s.hs h).closed then s.emit .misuse
  else
    let s1 := stopCore s h
    s1.emit (.ret 0 (s1.hs h).active)

/-- uv_close on the fs_poll handle: uv__fs_poll_close, fs-poll.c:167-172 -/
def apiClose (s : S) (h : Nat) : S :=
  let H := s.hs h
  if H.closing then s.emit .misuse
  else
    let s1 := s.setH h { H with closing := true }
    let s2 := stopCore s1 h
    let H2 := s2.hs h
    let s3 := if H2.chain.isEmpty then s2.setH h { H2 with closePending := true } else s2
    s3.emit (.ret 0 false)

def applyOp (s : S) (o : Op) : S :=
  let s := s.emit (.api o)
  match o with
  | .start h cb p iv => apiStart s h cb p iv
  | .stop h => apiStop s h
  | .close h => apiClose s h

/-- the k-th user callback runs `script k` -/
def runCb (sc : Script) (s : S) : S :=
  (sc s.ncb).foldl applyOp { s with ncb := s.ncb + 1 }

/-- the comparison part of poll_cb (fs-poll.c:204-219): is the callback made for result `r`? -/
def fires (busy : Int) (statbuf : Stat) : Res → Bool
  | .err e => busy != (Res.err e).status
  | .ok st => busy != 0 && (decide (busy < 0) || !statbufEq statbuf st)

/-- the bookkeeping after the callback (fs-poll.c:210, 221-222) -/
def noteResult (C : Ctx) (fired : Bool) : Res → Ctx
  | .err e => if fired then { C with busy := (Res.err e).status } else C
  | .ok st => { C with statbuf := st, busy := 1 }

/-- poll_cb from label `out:` on (fs-poll.c:224-240) -/
def finishPoll (s : S) (c : Nat) : S :=
  let C := s.ctxs c
  -- uv_close twice asserts; uv_timer_start on a closing timer -> UV_EINVAL -> abort()
  let s0 := if C.timerClosing then s.fail else s
  if !liveB s c then
    (s0.setCtx c { C with statInFlight := false, timerActive := false, timerClosing := true }).emit (.closeTimer c)
  else
    let n := C.interval - (s.now - C.startTime) % C.interval
    (s0.setCtx c { C with statInFlight := false, timerActive := true, due := s.now + n }).emit (.arm c n)

/-- poll_cb, fs-poll.c:188-240 -/
def statDone (sc : Script) (s : S) (c : Nat) (r : Res) : S :=
  let C := s.ctxs c
  if !(decide (c < s.nctx) && C.statInFlight) then s.emit .badEvent
  else
    let s0 := if C.freed || (s.hs C.handle).closed then s.fail else s
    let live := liveB s0 c
    let s1 := s0.emit (.res c r live)
    let fired := live && fires C.busy C.statbuf r
    let s2 := if fired then runCb sc (s1.emit (.cb c C.handle C.cb r.status C.statbuf r.curr)) else s1
    let s3 := if live then s2.setCtx c (noteResult (s2.ctxs c) fired r) else s2
    finishPoll s3 c

/-- uv__run_timers stops the (non-repeating) timer and calls timer_cb, fs-poll.c:175-185 -/
def timerFire (s : S) (c : Nat) : S :=
  let C := s.ctxs c
  if !(decide (c < s.nctx) && C.timerActive && decide (C.due ≤ s.now)) then s.emit .badEvent
  else
    let H := s.hs C.handle
    let s0 := if C.freed || H.closed || C.statInFlight || !(H.chain.head? == some c) then s.fail else s
    (s0.setCtx c { C with timerActive := false, startTime := s.now, statInFlight := true }).emit (.stat c C.path)

/-- timer_close_cb, fs-poll.c:243-264 -/
def timerClosed (s : S) (c : Nat) : S :=
  let C := s.ctxs c
  if !(decide (c < s.nctx) && C.timerClosing && !C.freed) then s.emit .badEvent
  else
    let h := C.handle
    let H := s.hs h
    let s0 := if H.closed then s.fail else s
    let s1 : S := match H.chain with
      | [] => s0.fail                                        -- handle->poll_ctx == NULL: NULL->previous
      | hd :: tl =>
        if hd = c then
          if tl.isEmpty && H.closing then
            (if H.closePending then s0.fail else s0).setH h { H with chain := tl, closePending := true }
          else s0.setH h { H with chain := tl }
        else if c ∈ tl then s0.setH h { H with chain := hd :: tl.erase c }
        else s0.fail                                         -- walks off the end of the chain
    s1.setCtx c { C with freed := true, timerClosing := false }

/-- uv__finish_close of the fs_poll handle: the user's close_cb runs and frees the handle -/
def closeCb (s : S) (h : Nat) : S :=
  let H := s.hs h
  if !(H.closePending && !H.closed) then s.emit .badEvent
  else s.setH h { H with closed := true }

inductive In where
  | op (o : Op)
  | statDone (c : Nat) (r : Res)
  | timerFire (c : Nat)
  | timerClosed (c : Nat)
  | closeCb (h : Nat)
  | advance (n : Nat)
deriving DecidableEq, Repr, Inhabited

def step (sc : Script) (s : S) : In → S
  | .op o => applyOp s o
  | .statDone c r => statDone sc s c r
  | .timerFire c => timerFire s c
  | .timerClosed c => timerClosed s c
  | .closeCb h => closeCb s h
  | .advance n => { s with now := s.now + n }

def run (sc : Script) (s : S) (ins : List In) : S := ins.foldl (step sc) s

/-- uv_fs_poll_getpath (return code, path id), fs-poll.c:138-164 with a large enough buffer -/
def getpath (s : S) (h : Nat) : Int × Option Nat :=
  let H := s.hs h
  if !H.active then (-22, none)
  else match H.chain with
    | [] => (-22, none)
    | c :: _ => (0, some (s.ctxs c).path)

/-! ### Specification vocabulary (used by Props/C17): projections of the trace and the intended
    callback sequence as a function of the results a context saw while it was the live one. -/

structure CbRec where
  status : Int
  prev : Stat
  curr : Stat
deriving DecidableEq, Repr, Inhabited

/-- results delivered to context `c` while it was live, newest first -/
def histOf (c : Nat) : List Obs → List Res
  | [] => []
  | .res c' r live :: t => if live && c' == c then r :: histOf c t else histOf c t
  | _ :: t => histOf c t

/-- user callbacks made by context `c`, newest first -/
def cbsOf (c : Nat) : List Obs → List CbRec
  | [] => []
  | .cb c' _ _ st p cu :: t => if c' == c then ⟨st, p, cu⟩ :: cbsOf c t else cbsOf c t
  | _ :: t => cbsOf c t

/-- stat requests submitted by context `c`, newest first (the path each one used) -/
def statsOf (c : Nat) : List Obs → List Nat
  | [] => []
  | .stat c' p :: t => if c' == c then p :: statsOf c t else statsOf c t
  | _ :: t => statsOf c t

/-- timer (re)arms by context `c` -/
def armsOf (c : Nat) : List Obs → List Nat
  | [] => []
  | .arm c' n :: t => if c' == c then n :: armsOf c t else armsOf c t
  | _ :: t => armsOf c t

/-- two consecutive poll results differ in status or in the compared metadata -/
def differ : Res → Res → Bool
  | .ok a, .ok b => !statbufEq a b
  | .err e, .err f => e != f
  | _, _ => true

/-- metadata of the latest successful result (newest first), `zero_statbuf` if none -/
def lastOk : List Res → Stat
  | [] => Stat.zero
  | .ok st :: _ => st
  | .err _ :: t => lastOk t

/-- is result `r`, arriving after `older` (newest first), reported?  Exactly when it differs from the
    immediately preceding result; the very first result is reported only if it is an error. -/
def reported (older : List Res) (r : Res) : Bool :=
  match older, r with
  | [], .err _ => true
  | [], .ok _ => false
  | p :: _, r => differ p r

/-- the callbacks the property prescribes for a result history (both newest first) -/
def specCbs : List Res → List CbRec
  | [] => []
  | r :: older =>
    (if reported older r then [⟨r.status, lastOk older, r.curr⟩] else []) ++ specCbs older

/-- value of `busy_polling` after a history -/
def busyOf : List Res → Int
  | [] => 0
  | .ok _ :: _ => 1
  | .err e :: _ => (Res.err e).status

/-- the latest callback with status 0, if any (newest first) -/
def newestOkCb : List CbRec → Option CbRec
  | [] => none
  | cb :: t => if cb.status = 0 then some cb else newestOkCb t

end UvModel.FsPoll
