import UvModel.FdLedger
namespace UvModel.FdLedger
end UvModel.FdLedger
