import UvModel.FdLedger
/-! C15 helper lemmas: the ledger invariant `LInv` is preserved by every descriptor primitive -/
namespace UvModel.FdLedger
/-- every descriptor created by libuv carries FD_CLOEXEC -/
def CxInv (l : Ledger) : Prop := ∀ e ∈ l.led, e.bylib = true → e.cx = true

theorem siteCloexec_true (s : Site) : siteCloexec s = true := by cases s <;> rfl

theorem mem_displace {led : List Entry} {o : Owner} {e : Entry} (h : e ∈ displace led o) :
    ∃ e0 ∈ led, e.id = e0.id ∧ e.cx = e0.cx ∧ e.bylib = e0.bylib ∧ e.stdio = e0.stdio ∧ e.kind = e0.kind ∧
      (e.owner = e0.owner ∨ (e.owner = .leaked ∧ e0.owner = o ∧ o.unique = true)) := by
  unfold displace at h
  split at h
  · rw [List.mem_map] at h
    obtain ⟨e0, h0, rfl⟩ := h
    refine ⟨e0, h0, ?_⟩
    split <;> simp_all
  · exact ⟨e, h, rfl, rfl, rfl, rfl, rfl, Or.inl rfl⟩

theorem mem_setOwner {led : List Entry} {id : Nat} {o : Owner} {e : Entry} (h : e ∈ setOwner led id o) :
    ∃ e0 ∈ led, e.id = e0.id ∧ e.cx = e0.cx ∧ e.bylib = e0.bylib ∧ e.stdio = e0.stdio ∧ e.kind = e0.kind ∧
      ((e0.id ≠ id ∧ e.owner = e0.owner) ∨ (e0.id = id ∧ e.owner = o)) := by
  unfold setOwner at h
  rw [List.mem_map] at h
  obtain ⟨e0, h0, rfl⟩ := h
  refine ⟨e0, h0, ?_⟩
  split <;> simp_all

theorem cx_exec1raw (l : Ledger) (p : Prim) (h : CxInv l) : CxInv (exec1raw l p) := by
  intro e he hb
  cases p with
  | create site kind o =>
    simp only [exec1raw, List.mem_append, List.mem_singleton] at he
    rcases he with he | rfl
    · obtain ⟨e0, h0, _, hc, hbl, _⟩ := mem_displace he
      rw [hc]; exact h e0 h0 (hbl ▸ hb)
    · exact siteCloexec_true _
  | createGive site kind =>
    simp only [exec1raw, List.mem_append, List.mem_singleton] at he
    rcases he with he | rfl
    · exact h e he hb
    · exact siteCloexec_true _
  | userCreate kind stdio =>
    simp only [exec1raw, List.mem_append, List.mem_singleton] at he
    rcases he with he | rfl
    · exact h e he hb
    · simp at hb
  | closeOwner o guard =>
    simp only [exec1raw] at he
    split at he
    · exact h e he hb
    · split at he
      · obtain ⟨e0, h0, _, hc, hbl, _⟩ := mem_setOwner he
        rw [hc]; exact h e0 h0 (hbl ▸ hb)
      · exact h e (List.mem_filter.mp he).1 hb
  | closeUser id =>
    simp only [exec1raw] at he
    split at he
    · exact h e he hb
    · split at he
      · exact h e (List.mem_filter.mp he).1 hb
      · exact h e he hb
  | userClose id =>
    simp only [exec1raw] at he
    split at he
    · exact h e he hb
    · split at he
      · exact h e (List.mem_filter.mp he).1 hb
      · exact h e he hb
  | userCloseAll =>
    simp only [exec1raw] at he
    exact h e (List.mem_filter.mp he).1 hb
  | closeQ hq =>
    simp only [exec1raw] at he
    exact h e (List.mem_filter.mp he).1 hb
  | transfer src dst =>
    simp only [exec1raw] at he
    split at he
    · exact h e he hb
    · obtain ⟨e1, h1, _, hc, hbl, _⟩ := mem_setOwner he
      obtain ⟨e0, h0, _, hc0, hbl0, _⟩ := mem_displace h1
      rw [hc, hc0]; exact h e0 h0 (hbl0 ▸ hbl ▸ hb)
  | adopt id dst =>
    simp only [exec1raw] at he
    split at he
    · exact h e he hb
    · split at he
      · obtain ⟨e1, h1, _, hc, hbl, _⟩ := mem_setOwner he
        obtain ⟨e0, h0, _, hc0, hbl0, _⟩ := mem_displace h1
        rw [hc, hc0]; exact h e0 h0 (hbl0 ▸ hbl ▸ hb)
      · exact h e he hb
  | say line => exact h e he hb


theorem find?_owner {led : List Entry} {o : Owner} {e : Entry} (h : find? led o = some e) : e ∈ led ∧ e.owner = o := by
  unfold find? at h
  exact ⟨List.mem_of_find?_eq_some h, by simpa using List.find?_some h⟩

theorem findId?_id {led : List Entry} {id : Nat} {e : Entry} (h : findId? led id = some e) : e ∈ led ∧ e.id = id := by
  unfold findId? at h
  exact ⟨List.mem_of_find?_eq_some h, by simpa using List.find?_some h⟩

/-- descriptors 0-2 are never created by libuv and are only ever held by the caller or by a handle's
    `io_watcher.fd` (or orphaned) -/
def StdioInv (l : Ledger) : Prop :=
  ∀ e ∈ l.led, e.stdio = true → e.bylib = false ∧ (e.owner = .user ∨ (∃ h, e.owner = .handle h .io) ∨ e.owner = .leaked)

/-- what libuv did so far: every creation was close-on-exec, every close(2) was on a descriptor that
    libuv owned at that moment (or that the caller asked it to close) and never on 0-2 -/
def EvInv (l : Ledger) : Prop :=
  ∀ ev ∈ l.evs, match ev with
    | .close e auth => e.stdio = false ∧ (e.owner.libuv = true ∨ auth = true)
    | .create e => e.cx = true ∧ e.bylib = true

/-- ids identify ledger entries -/
def IdInv (l : Ledger) : Prop :=
  (∀ e ∈ l.led, e.id < l.next) ∧ (∀ e1 ∈ l.led, ∀ e2 ∈ l.led, e1.id = e2.id → e1 = e2)

theorem stdio_exec1raw (l : Ledger) (p : Prim) (hok : p.ok = true) (hI : IdInv l) (h : StdioInv l) : StdioInv (exec1raw l p) := by
  intro e he hs
  cases p with
  | create site kind o =>
    simp only [exec1raw, List.mem_append, List.mem_singleton] at he
    rcases he with he | rfl
    · obtain ⟨e0, h0, _, _, hbl, hst, _, ho⟩ := mem_displace he
      have := h e0 h0 (hst ▸ hs)
      rcases ho with ho | ⟨ho, _, _⟩
      · rw [hbl, ho]; exact this
      · rw [hbl, ho]; exact ⟨this.1, Or.inr (Or.inr rfl)⟩
    · simp at hs
  | createGive site kind =>
    simp only [exec1raw, List.mem_append, List.mem_singleton] at he
    rcases he with he | rfl
    · exact h e he hs
    · simp at hs
  | userCreate kind stdio =>
    simp only [exec1raw, List.mem_append, List.mem_singleton] at he
    rcases he with he | rfl
    · exact h e he hs
    · exact ⟨rfl, Or.inl rfl⟩
  | closeOwner o guard =>
    simp only [exec1raw] at he
    split at he
    · exact h e he hs
    · split at he
      · obtain ⟨e0, h0, _, _, hbl, hst, _, ho⟩ := mem_setOwner he
        have := h e0 h0 (hst ▸ hs)
        rcases ho with ⟨_, ho⟩ | ⟨_, ho⟩
        · rw [hbl, ho]; exact this
        · rw [hbl, ho]; exact ⟨this.1, Or.inl rfl⟩
      · exact h e (List.mem_filter.mp he).1 hs
  | closeUser id =>
    simp only [exec1raw] at he
    split at he
    · exact h e he hs
    · split at he
      · exact h e (List.mem_filter.mp he).1 hs
      · exact h e he hs
  | userClose id =>
    simp only [exec1raw] at he
    split at he
    · exact h e he hs
    · split at he
      · exact h e (List.mem_filter.mp he).1 hs
      · exact h e he hs
  | userCloseAll =>
    simp only [exec1raw] at he
    exact h e (List.mem_filter.mp he).1 hs
  | closeQ hq =>
    simp only [exec1raw] at he
    exact h e (List.mem_filter.mp he).1 hs
  | transfer src dst =>
    simp only [exec1raw] at he
    split at he
    · exact h e he hs
    · rename_i em hf
      obtain ⟨hem, hsrc⟩ := find?_owner hf
      obtain ⟨e1, h1, _, _, hbl, hst, _, ho⟩ := mem_setOwner he
      obtain ⟨e0, h0, hid0, _, hbl0, hst0, _, ho0⟩ := mem_displace h1
      have h00 := h e0 h0 (hst0 ▸ hst ▸ hs)
      rcases ho with ⟨_, ho⟩ | ⟨hid, ho⟩
      · rcases ho0 with ho0 | ⟨ho0, _, _⟩
        · rw [hbl, hbl0, ho, ho0]; exact h00
        · rw [hbl, hbl0, ho, ho0]; exact ⟨h00.1, Or.inr (Or.inr rfl)⟩
      · -- the moved entry: cannot be a stdio descriptor (its old owner was `src`)
        exfalso
        have : e0 = em := hI.2 e0 h0 em hem (by rw [← hid0]; exact hid)
        subst this
        rw [hsrc] at h00
        simp only [Prim.ok, Bool.and_eq_true, bne_iff_ne, ne_eq] at hok
        rcases h00.2 with h1 | ⟨hh, h1⟩ | h1 <;> subst h1 <;> simp_all [Owner.libuv]
  | adopt id dst =>
    simp only [exec1raw] at he
    split at he
    · exact h e he hs
    · split at he
      · obtain ⟨e1, h1, _, _, hbl, hst, _, ho⟩ := mem_setOwner he
        obtain ⟨e0, h0, _, _, hbl0, hst0, _, ho0⟩ := mem_displace h1
        have h00 := h e0 h0 (hst0 ▸ hst ▸ hs)
        rcases ho with ⟨_, ho⟩ | ⟨_, ho⟩
        · rcases ho0 with ho0 | ⟨ho0, _, _⟩
          · rw [hbl, hbl0, ho, ho0]; exact h00
          · rw [hbl, hbl0, ho, ho0]; exact ⟨h00.1, Or.inr (Or.inr rfl)⟩
        · rw [hbl, hbl0, ho]
          refine ⟨h00.1, ?_⟩
          cases dst with
          | handle hh sl => cases sl <;> simp_all [Prim.ok]
          | _ => simp [Prim.ok] at hok
      · exact h e he hs
  | say line => exact h e he hs


theorem ev_exec1raw (l : Ledger) (p : Prim) (hok : p.ok = true) (hst : StdioInv l) (h : EvInv l) : EvInv (exec1raw l p) := by
  intro ev hev
  cases p with
  | create site kind o =>
    simp only [exec1raw, List.mem_cons] at hev
    rcases hev with rfl | hev
    · exact ⟨siteCloexec_true _, rfl⟩
    · exact h ev hev
  | createGive site kind =>
    simp only [exec1raw, List.mem_cons] at hev
    rcases hev with rfl | hev
    · exact ⟨siteCloexec_true _, rfl⟩
    · exact h ev hev
  | userCreate kind stdio => exact h ev hev
  | closeOwner o guard =>
    simp only [exec1raw] at hev
    split at hev
    · exact h ev hev
    · rename_i em hf
      obtain ⟨hem, ho⟩ := find?_owner hf
      split at hev
      · exact h ev hev
      · rename_i hg
        simp only [List.mem_cons] at hev
        rcases hev with rfl | hev
        · simp only [Prim.ok, Bool.and_eq_true, bne_iff_ne, ne_eq] at hok
          refine ⟨?_, Or.inl (ho ▸ hok.1.1)⟩
          cases hs : em.stdio with
          | false => rfl
          | true =>
            exfalso
            have := (hst em hem hs).2
            rw [ho] at this
            rcases this with h1 | ⟨hh, h1⟩ | h1
            · subst h1; simp [Owner.libuv] at hok
            · subst h1; simp_all
            · subst h1; simp at hok
        · exact h ev hev
  | closeUser id =>
    simp only [exec1raw] at hev
    split at hev
    · exact h ev hev
    · split at hev
      · rename_i hc
        simp only [List.mem_cons] at hev
        rcases hev with rfl | hev
        · simp only [Bool.and_eq_true, Bool.not_eq_true', decide_eq_true_eq] at hc
          exact ⟨hc.2, Or.inr rfl⟩
        · exact h ev hev
      · exact h ev hev
  | userClose id =>
    simp only [exec1raw] at hev
    split at hev
    · exact h ev hev
    · split at hev <;> exact h ev hev
  | userCloseAll => exact h ev hev
  | closeQ hq =>
    simp only [exec1raw, List.mem_append, List.mem_reverse, List.mem_map, List.mem_filter, decide_eq_true_eq] at hev
    rcases hev with ⟨e, ⟨hem, ho⟩, rfl⟩ | hev
    · refine ⟨?_, Or.inl (by rw [ho]; rfl)⟩
      cases hs : e.stdio with
      | false => rfl
      | true =>
        exfalso
        have := (hst e hem hs).2
        rw [ho] at this
        rcases this with h1 | ⟨hh, h1⟩ | h1 <;> cases h1
    · exact h ev hev
  | transfer src dst =>
    simp only [exec1raw] at hev
    split at hev <;> exact h ev hev
  | adopt id dst =>
    simp only [exec1raw] at hev
    split at hev
    · exact h ev hev
    · split at hev <;> exact h ev hev
  | say line => exact h ev hev


def IdP (led : List Entry) (n : Nat) : Prop :=
  (∀ e ∈ led, e.id < n) ∧ (∀ e1 ∈ led, ∀ e2 ∈ led, e1.id = e2.id → e1 = e2)

theorem idp_map {led : List Entry} {n : Nat} (f : Entry → Entry) (hf : ∀ e, (f e).id = e.id) (h : IdP led n) :
    IdP (led.map f) n := by
  constructor
  · intro e he
    obtain ⟨e0, h0, rfl⟩ := List.mem_map.mp he
    rw [hf]; exact h.1 e0 h0
  · intro e1 h1 e2 h2 hid
    obtain ⟨a, ha, rfl⟩ := List.mem_map.mp h1
    obtain ⟨b, hb, rfl⟩ := List.mem_map.mp h2
    rw [hf, hf] at hid
    rw [h.2 a ha b hb hid]

theorem idp_displace {led : List Entry} {n : Nat} (o : Owner) (h : IdP led n) : IdP (displace led o) n := by
  unfold displace
  split
  · exact idp_map _ (by intro e; split <;> rfl) h
  · exact h

theorem idp_setOwner {led : List Entry} {n : Nat} (id : Nat) (o : Owner) (h : IdP led n) : IdP (setOwner led id o) n :=
  idp_map _ (by intro e; split <;> rfl) h

theorem idp_filter {led : List Entry} {n : Nat} (p : Entry → Bool) (h : IdP led n) : IdP (led.filter p) n :=
  ⟨fun e he => h.1 e (List.mem_filter.mp he).1,
   fun e1 h1 e2 h2 => h.2 e1 (List.mem_filter.mp h1).1 e2 (List.mem_filter.mp h2).1⟩

theorem idp_snoc {led : List Entry} {n : Nat} (e : Entry) (he : e.id = n) (h : IdP led n) : IdP (led ++ [e]) (n + 1) := by
  constructor
  · intro x hx
    rcases List.mem_append.mp hx with hx | hx
    · exact Nat.lt_succ_of_lt (h.1 x hx)
    · rw [List.mem_singleton.mp hx, he]; exact Nat.lt_succ_self n
  · intro a ha b hb hid
    rcases List.mem_append.mp ha with ha | ha <;> rcases List.mem_append.mp hb with hb | hb
    · exact h.2 a ha b hb hid
    · rw [List.mem_singleton.mp hb, he] at hid
      exact absurd hid (Nat.ne_of_lt (h.1 a ha))
    · rw [List.mem_singleton.mp ha, he] at hid
      exact absurd hid.symm (Nat.ne_of_lt (h.1 b hb))
    · rw [List.mem_singleton.mp ha, List.mem_singleton.mp hb]

theorem id_exec1raw (l : Ledger) (p : Prim) (h : IdInv l) : IdInv (exec1raw l p) := by
  have h' : IdP l.led l.next := h
  show IdP (exec1raw l p).led (exec1raw l p).next
  cases p with
  | create site kind o => exact idp_snoc _ rfl (idp_displace o h')
  | createGive site kind => exact idp_snoc _ rfl h'
  | userCreate kind stdio => exact idp_snoc _ rfl h'
  | closeOwner o guard =>
    simp only [exec1raw]
    split
    · exact h'
    · split
      · exact idp_setOwner _ _ h'
      · exact idp_filter _ h'
  | closeUser id =>
    simp only [exec1raw]
    split
    · exact h'
    · split
      · exact idp_filter _ h'
      · exact h'
  | userClose id =>
    simp only [exec1raw]
    split
    · exact h'
    · split
      · exact idp_filter _ h'
      · exact h'
  | userCloseAll => exact idp_filter _ h'
  | closeQ hq => exact idp_filter _ h'
  | transfer src dst =>
    simp only [exec1raw]
    split
    · exact h'
    · exact idp_setOwner _ _ (idp_displace dst h')
  | adopt id dst =>
    simp only [exec1raw]
    split
    · exact h'
    · split
      · exact idp_setOwner _ _ (idp_displace dst h')
      · exact h'
  | say line => exact h'

/-- a loop field / handle field / local variable holds at most one descriptor:
    no descriptor is owned twice, no field refers to two descriptors -/
def UniqP (led : List Entry) : Prop :=
  ∀ e1 ∈ led, ∀ e2 ∈ led, e1.owner = e2.owner → e1.owner.unique = true → e1.id = e2.id

theorem uniq_filter {led : List Entry} (p : Entry → Bool) (h : UniqP led) : UniqP (led.filter p) :=
  fun e1 h1 e2 h2 => h e1 (List.mem_filter.mp h1).1 e2 (List.mem_filter.mp h2).1

/-- after `displace led o` nothing is owned by the single-valued `o` any more -/
theorem displace_free {led : List Entry} {o : Owner} (ho : o.unique = true) : ∀ e ∈ displace led o, e.owner ≠ o := by
  intro e he
  unfold displace at he
  rw [if_pos ho] at he
  obtain ⟨e0, _, rfl⟩ := List.mem_map.mp he
  split
  · intro hc; simp at hc; subst hc; simp [Owner.unique] at ho
  · assumption

theorem uniq_displace {led : List Entry} (o : Owner) (h : UniqP led) : UniqP (displace led o) := by
  intro e1 h1 e2 h2 hoo hu
  obtain ⟨a, ha, hida, _, _, _, _, hoa⟩ := mem_displace h1
  obtain ⟨b, hb, hidb, _, _, _, _, hob⟩ := mem_displace h2
  rcases hoa with hoa | ⟨hoa, _, _⟩
  · rcases hob with hob | ⟨hob, _, _⟩
    · rw [hida, hidb]; exact h a ha b hb (by rw [← hoa, ← hob]; exact hoo) (by rw [← hoa]; exact hu)
    · rw [hoo, hob] at hu; simp [Owner.unique] at hu
  · rw [hoa] at hu; simp [Owner.unique] at hu

/-- storing descriptor `id` into field `o` that holds nothing -/
theorem uniq_setOwner {led : List Entry} (id : Nat) (o : Owner) (hfree : o.unique = true → ∀ e ∈ led, e.owner ≠ o)
    (h : UniqP led) : UniqP (setOwner led id o) := by
  intro e1 h1 e2 h2 hoo hu
  obtain ⟨a, ha, hida, _, _, _, _, hoa⟩ := mem_setOwner h1
  obtain ⟨b, hb, hidb, _, _, _, _, hob⟩ := mem_setOwner h2
  rcases hoa with ⟨_, hoa⟩ | ⟨hia, hoa⟩ <;> rcases hob with ⟨_, hob⟩ | ⟨hib, hob⟩
  · rw [hida, hidb]; exact h a ha b hb (by rw [← hoa, ← hob]; exact hoo) (by rw [← hoa]; exact hu)
  · exfalso; rw [hoo, hob] at hu; exact hfree hu a ha (by rw [← hoa, hoo, hob])
  · exfalso; rw [hoa] at hu; exact hfree hu b hb (by rw [← hob, ← hoo, hoa])
  · rw [hida, hidb, hia, hib]

theorem uniq_snoc {led : List Entry} (e : Entry) (hfree : e.owner.unique = true → ∀ x ∈ led, x.owner ≠ e.owner)
    (h : UniqP led) : UniqP (led ++ [e]) := by
  intro a ha b hb hoo hu
  rcases List.mem_append.mp ha with ha | ha <;> rcases List.mem_append.mp hb with hb | hb
  · exact h a ha b hb hoo hu
  · rw [List.mem_singleton.mp hb] at hoo
    exfalso; exact hfree (hoo ▸ hu) a ha hoo
  · rw [List.mem_singleton.mp ha] at hoo hu
    exfalso; exact hfree hu b hb hoo.symm
  · rw [List.mem_singleton.mp ha, List.mem_singleton.mp hb]

theorem uniq_exec1raw (l : Ledger) (p : Prim) (h : UniqP l.led) : UniqP (exec1raw l p).led := by
  cases p with
  | create site kind o =>
    simp only [exec1raw]
    exact uniq_snoc _ (fun hu => displace_free hu) (uniq_displace o h)
  | createGive site kind =>
    simp only [exec1raw]
    exact uniq_snoc _ (fun hu => by simp [Owner.unique] at hu) h
  | userCreate kind stdio =>
    simp only [exec1raw]
    exact uniq_snoc _ (fun hu => by simp [Owner.unique] at hu) h
  | closeOwner o guard =>
    simp only [exec1raw]
    split
    · exact h
    · split
      · exact uniq_setOwner _ _ (fun hu => by simp [Owner.unique] at hu) h
      · exact uniq_filter _ h
  | closeUser id =>
    simp only [exec1raw]
    split
    · exact h
    · split
      · exact uniq_filter _ h
      · exact h
  | userClose id =>
    simp only [exec1raw]
    split
    · exact h
    · split
      · exact uniq_filter _ h
      · exact h
  | userCloseAll => exact uniq_filter _ h
  | closeQ hq => exact uniq_filter _ h
  | transfer src dst =>
    simp only [exec1raw]
    split
    · exact h
    · exact uniq_setOwner _ _ (fun hu => displace_free hu) (uniq_displace dst h)
  | adopt id dst =>
    simp only [exec1raw]
    split
    · exact h
    · split
      · exact uniq_setOwner _ _ (fun hu => displace_free hu) (uniq_displace dst h)
      · exact h
  | say line => exact h


/-- the ledger invariant: everything the four C15 theorems need, preserved by every primitive -/
structure LInv (l : Ledger) : Prop where
  cx : CxInv l
  stdio : StdioInv l
  ev : EvInv l
  id : IdInv l
  uniq : UniqP l.led

theorem linv_empty : LInv {} :=
  ⟨by intro e he; simp at he, by intro e he; simp at he, by intro e he; simp at he,
   ⟨by intro e he; simp at he, by intro e he; simp at he⟩, by intro e he; simp at he⟩

theorem linv_exec1 (l : Ledger) (p : Prim) (h : LInv l) : LInv (exec1 l p) := by
  unfold exec1
  split
  · rename_i hok
    exact ⟨cx_exec1raw l p h.cx, stdio_exec1raw l p hok h.id h.stdio, ev_exec1raw l p hok h.stdio h.ev,
           id_exec1raw l p h.id, uniq_exec1raw l p h.uniq⟩
  · exact ⟨h.cx, h.stdio, h.ev, h.id, h.uniq⟩

theorem linv_exec (l : Ledger) (ps : List Prim) (h : LInv l) : LInv (exec l ps) := by
  unfold exec
  induction ps generalizing l with
  | nil => exact h
  | cons p ps ih => exact ih _ (linv_exec1 l p h)

theorem linv_clearOut (l : Ledger) (h : LInv l) : LInv { l with out := [] } :=
  ⟨h.cx, h.stdio, h.ev, h.id, h.uniq⟩

/-- closing a single-valued libuv field removes exactly the descriptor it holds -/
theorem closeOwner_led (l : Ledger) (h : LInv l) (o : Owner) (hok : (Prim.closeOwner o false).ok = true)
    (hu : o.unique = true) : (exec1 l (.closeOwner o false)).led = l.led.filter (fun e => decide (e.owner ≠ o)) := by
  unfold exec1
  rw [if_pos hok]
  simp only [exec1raw]
  split
  · rename_i hf
    symm
    rw [List.filter_eq_self]
    intro e he
    have := List.find?_eq_none.mp hf e he
    simpa using this
  · rename_i em hf
    obtain ⟨hem, ho⟩ := find?_owner hf
    simp only [Bool.false_and, Bool.false_eq_true, if_false]
    apply List.filter_congr
    intro e he
    by_cases hc : e.owner = o
    · have : e.id = em.id := h.uniq e he em hem (hc.trans ho.symm) (hc ▸ hu)
      simp [hc, this]
    · have : e.id ≠ em.id := fun hid => hc ((h.id.2 e he em hem hid) ▸ ho)
      simp [hc, this]

def loopClosePrims : List Prim :=
  [.closeOwner (.loop .sig0) false, .closeOwner (.loop .sig1) false, .closeOwner (.loop .ring) false,
   .closeOwner (.loop .inotify) false, .closeOwner (.loop .async) false,
   .closeOwner (.loop .emfile) false, .closeOwner (.loop .backend) false]

theorem loopClose_led (l : Ledger) (h : LInv l) :
    ∀ e ∈ (exec l loopClosePrims).led, e ∈ l.led ∧ ∀ f, e.owner ≠ .loop f := by
  intro e he
  simp only [exec, loopClosePrims, List.foldl] at he
  have h1 := linv_exec1 l (.closeOwner (.loop .sig0) false) h
  have h2 := linv_exec1 _ (.closeOwner (.loop .sig1) false) h1
  have h3 := linv_exec1 _ (.closeOwner (.loop .ring) false) h2
  have h4 := linv_exec1 _ (.closeOwner (.loop .inotify) false) h3
  have h5 := linv_exec1 _ (.closeOwner (.loop .async) false) h4
  have h6 := linv_exec1 _ (.closeOwner (.loop .emfile) false) h5
  rw [closeOwner_led _ h6 _ rfl rfl, closeOwner_led _ h5 _ rfl rfl, closeOwner_led _ h4 _ rfl rfl,
      closeOwner_led _ h3 _ rfl rfl, closeOwner_led _ h2 _ rfl rfl, closeOwner_led _ h1 _ rfl rfl,
      closeOwner_led _ h _ rfl rfl] at he
  simp only [List.mem_filter, decide_eq_true_eq] at he
  refine ⟨he.1.1.1.1.1.1.1, ?_⟩
  intro f
  cases f <;> simp_all


end UvModel.FdLedger
