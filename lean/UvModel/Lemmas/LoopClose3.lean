import UvModel.Lemmas.LoopClose2
/-!
  Silence after the close callback: once a handle's record has been unlinked (`uv__finish_close`), no handle
  callback for that id is ever emitted again — ids are never reused and every callback site looks the record up.
-/
namespace UvModel.Loop
open UvModel.HandleKernels

/-- the record of `id` is gone for good: not in `handle_queue`, and the id has been handed out already -/
def Gone (id : Nat) (s : State) : Prop := id ∉ hids s ∧ id < s.nextId

/-- the event is not a handle-kind callback for `id` (request callbacks carry request ids: another namespace) -/
def NoH (id : Nat) (e : Event) : Prop :=
  ∀ ph k a b, e = Event.cb ph k id a b → k = .work ∨ k = .udpSend ∨ k = .connect

def SilRel (id : Nat) (s s' : State) : Prop :=
  Gone id s → Gone id s' ∧ ∃ new, s'.trace = new ++ s.trace ∧ ∀ e ∈ new, NoH id e

theorem Gone.keep {id : Nat} {s s' : State} (h : Keep s s') (hg : Gone id s) : Gone id s' := by
  refine ⟨fun hm => ?_, Nat.lt_of_lt_of_le hg.2 h.nextId⟩
  rcases h.hnew id hm with h1 | h1
  · exact hg.1 h1
  · exact absurd hg.2 (by omega)

theorem Gone.opRes {id : Nat} {s s' : State} (h : OpRes s s') (hg : Gone id s) : Gone id s' := by
  rcases h with h | ⟨j, h, _⟩ | ⟨j, s2, hk, rfl, _⟩
  · exact hg.keep h.1
  · exact hg.keep h.1
  · exact ⟨(hg.keep hk.1).1, (hg.keep hk.1).2⟩

theorem SilRel.refl (id : Nat) (s : State) : SilRel id s s := fun hg => ⟨hg, [], rfl, fun _ h => by cases h⟩
theorem SilRel.trans {id : Nat} {a b c : State} (h1 : SilRel id a b) (h2 : SilRel id b c) : SilRel id a c := by
  intro hg
  obtain ⟨g1, n1, e1, p1⟩ := h1 hg
  obtain ⟨g2, n2, e2, p2⟩ := h2 g1
  refine ⟨g2, n2 ++ n1, by rw [e2, e1, List.append_assoc], ?_⟩
  intro e he
  rcases List.mem_append.mp he with h | h
  · exact p2 e h
  · exact p1 e h

theorem SilRel.of_keep {id : Nat} {s s' : State} (h : Keep s s') (ht : s'.trace = s.trace) : SilRel id s s' :=
  fun hg => ⟨hg.keep h, [], by simpa using ht, fun _ h => by cases h⟩

theorem SilRel.emit_any {id : Nat} (s : State) (e : Event) (he : NoH id e) : SilRel id s (emit s e) := by
  intro hg
  refine ⟨hg.keep (KeepQ.of_kp (kp_emit _ _)).1, ?_⟩
  unfold emit
  split
  · exact ⟨[], rfl, fun _ h => by cases h⟩
  · exact ⟨[e], rfl, fun e' h => by rw [List.mem_singleton.mp h]; exact he⟩

theorem SilRel.stepOp (id : Nat) (s : State) (o : Op) : SilRel id s (stepOp s o) := by
  unfold Loop.stepOp
  refine SilRel.trans (b := (applyOp s o).1) ?_ ?_
  · exact fun hg => ⟨hg.opRes (applyOp_keep s o), [], by simpa using trOf (tr_applyOp s o), fun _ h => by cases h⟩
  · exact (SilRel.emit_any _ _ (fun _ _ _ _ h => by cases h)).trans (SilRel.emit_any _ _ (fun _ _ _ _ h => by cases h))

theorem silRel (id : Nat) : PhaseRel (SilRel id) where
  refl := SilRel.refl id
  trans := SilRel.trans
  keep := SilRel.of_keep
  emit := fun s e he => SilRel.emit_any s e (fun ph k a b h => absurd h (he ph k id a b))
  stepOp := SilRel.stepOp id
  cbH := by
    intro s ph k i a b hi _ hg
    have hne : i ≠ id := fun h => hg.1 (h ▸ hi)
    exact SilRel.emit_any s _ (fun _ _ _ _ h => by cases h; exact absurd rfl hne) hg
  cbR := fun s ph k r a b hk => SilRel.emit_any s _ (fun _ _ _ _ h => by cases h; exact hk)
  halt := fun s hg => ⟨hg, [], rfl, fun _ h => by cases h⟩

/-- a callback for another id -/
theorem SilRel.runCb_ne {id i : Nat} (hne : i ≠ id) (sc : Script) (ph : Phase) (k : CbKind) (key : CbKey) (a b : Int) (occ : Nat)
    (s : State) : SilRel id s (runCb sc ph k key i a b occ s) := by
  unfold Loop.runCb
  simp only
  refine SilRel.trans ?_ ((silRel id).emitObs' _)
  refine SilRel.trans ?_ ((silRel id).emit _ _ (fun _ _ _ _ _ h => by cases h))
  refine SilRel.trans ?_ ((silRel id).foldl_stepOp _ _)
  refine SilRel.trans ?_ ((silRel id).emitObs' _)
  refine SilRel.trans (b := { s with ncbTotal := s.ncbTotal + 1 }) ((silRel id).frame rfl rfl) ?_
  exact SilRel.emit_any _ _ (fun _ _ _ _ h => by cases h; exact absurd rfl hne)

theorem SilRel.finishClose (id : Nat) (sc : Script) (j : Nat) (s : State) : SilRel id s (finishClose sc j s) := by
  intro hg
  revert hg
  show SilRel id s (Loop.finishClose sc j s)
  unfold Loop.finishClose
  split
  · exact SilRel.refl _ _
  · rename_i h hgj
    intro hg
    have hne : j ≠ id := fun he => hg.1 (he ▸ getH_some_mem hgj)
    revert hg
    show SilRel id s _
    simp only
    have h1 : SilRel id s (withKernel s j setClosed) := SilRel.of_keep (keepQ_withKernel _ _ _ clMono_setClosed).1 rfl
    generalize hs2 : (if h.kind == .udp then udpFinishClose sc .closing j (withKernel s j setClosed)
        else if h.kind == .pipe || h.kind == .tcp then streamDestroy sc j (withKernel s j setClosed)
        else withKernel s j setClosed) = s2
    have h2 : SilRel id s s2 := by
      refine h1.trans ?_
      rw [← hs2]; split
      · exact (silRel id).udpFinishClose _ _ _ _
      · split
        · exact (silRel id).streamDestroy _ _ _
        · exact SilRel.refl _ _
    have h3 : SilRel id s (withKernel s2 j handleUnref) :=
      h2.trans (SilRel.of_keep (keepQ_withKernel _ _ _ clMono_unref).1 rfl)
    split
    · exact h3
    · refine SilRel.trans ?_ (SilRel.runCb_ne hne _ _ _ _ _ _ _ _)
      refine h3.trans ?_
      intro hg3
      refine ⟨⟨fun hm => hg3.1 ?_, hg3.2⟩, [], rfl, fun _ h => by cases h⟩
      simp only [hids, List.mem_map, List.mem_filter] at hm ⊢
      obtain ⟨x, ⟨hx, _⟩, he⟩ := hm
      exact ⟨x, hx, he⟩

theorem SilRel.runClosingLoop (id : Nat) (sc : Script) (fuel : Nat) (s : State) : SilRel id s (runClosingLoop sc fuel s) := by
  induction fuel generalizing s with
  | zero => exact SilRel.refl _ _
  | succ n ih =>
    unfold Loop.runClosingLoop
    split
    · exact SilRel.refl _ _
    · simp only
      refine SilRel.trans ?_ (ih _)
      refine SilRel.trans ?_ (SilRel.finishClose id _ _ _)
      exact fun hg => ⟨⟨hg.1, hg.2⟩, [], rfl, fun _ h => by cases h⟩

theorem SilRel.runClosing (id : Nat) (sc : Script) (s : State) : SilRel id s (runClosing sc s) := by
  unfold Loop.runClosing
  simp only
  refine SilRel.trans ?_ (SilRel.runClosingLoop id _ _ _)
  exact fun hg => ⟨⟨hg.1, hg.2⟩, [], rfl, fun _ h => by cases h⟩

theorem SilRel.runMain (id : Nat) (sc : Script) (fuel : Nat) (prog : List MainOp) (s : State) :
    SilRel id s (runMain sc fuel s prog) :=
  (silRel id).runMain (SilRel.runClosing id) sc fuel prog s

theorem kp_stepOp (s : State) (o : Op) : kp (stepOp s o) = kp (applyOp s o).1 := by
  unfold Loop.stepOp; simp

/-- ids are only ever handed out upwards -/
def NidRel (s s' : State) : Prop := s.nextId ≤ s'.nextId

theorem nidRel0 : PhaseRel0 NidRel where
  refl := fun _ => Nat.le_refl _
  trans := fun h1 h2 => Nat.le_trans h1 h2
  keep := fun h _ => h.nextId
  emit := fun _ _ _ => (KeepQ.of_kp (kp_emit _ _)).1.nextId
  stepOp := fun s o => by
    refine Nat.le_trans (m := (applyOp s o).1.nextId) ?_ (KeepQ.of_kp (kp_stepOp s o)).1.nextId
    rcases applyOp_keep s o with h | ⟨j, h, _⟩ | ⟨j, s2, hk, he, _⟩
    · exact h.1.nextId
    · exact h.1.nextId
    · rw [he]; exact hk.1.nextId
  cbH := fun _ _ _ _ _ _ _ _ => (KeepQ.of_kp (kp_emit _ _)).1.nextId
  cbR := fun _ _ _ _ _ _ _ => (KeepQ.of_kp (kp_emit _ _)).1.nextId

/-- `Gone` is stable under everything a callback can do -/
def GoneRel (id : Nat) (s s' : State) : Prop := Gone id s → Gone id s'

theorem goneRel0 (id : Nat) : PhaseRel0 (GoneRel id) where
  refl := fun _ h => h
  trans := fun h1 h2 h => h2 (h1 h)
  keep := fun h _ hg => hg.keep h
  emit := fun _ _ _ hg => hg.keep (KeepQ.of_kp (kp_emit _ _)).1
  stepOp := fun s o hg => ((SilRel.stepOp id s o) hg).1
  cbH := fun _ _ _ _ _ _ _ _ hg => hg.keep (KeepQ.of_kp (kp_emit _ _)).1
  cbR := fun _ _ _ _ _ _ _ hg => hg.keep (KeepQ.of_kp (kp_emit _ _)).1

theorem GoneRel.runCb (id : Nat) (sc : Script) (ph : Phase) (k : CbKind) (key : CbKey) (i : Nat) (a b : Int) (occ : Nat)
    (s : State) : GoneRel id s (runCb sc ph k key i a b occ s) := by
  unfold Loop.runCb
  simp only
  refine (goneRel0 id).trans ?_ ((goneRel0 id).emitObs' _)
  refine (goneRel0 id).trans ?_ (fun hg => hg.keep (KeepQ.of_kp (kp_emit _ _)).1)
  refine (goneRel0 id).trans ?_ ((goneRel0 id).foldl_stepOp _ _)
  refine (goneRel0 id).trans ?_ ((goneRel0 id).emitObs' _)
  refine (goneRel0 id).trans (b := { s with ncbTotal := s.ncbTotal + 1 }) ((goneRel0 id).frame rfl rfl) ?_
  exact fun hg => hg.keep (KeepQ.of_kp (kp_emit _ _)).1

/-- `uv__finish_close` of a live record leaves it `Gone`: the close callback already runs on a state without it -/
theorem finishClose_gone (sc : Script) (j : Nat) (s : State) (hw : CloseWF' (some j) s) (hn : j < s.nextId) :
    Gone j (finishClose sc j s) := by
  obtain ⟨hjm, _⟩ := hw.2 j (by simp [clList])
  obtain ⟨h, hg⟩ := Option.isSome_iff_exists.mp ((getH_isSome_iff s j).mpr hjm)
  unfold Loop.finishClose
  simp only [hg]
  have k1 : KeepQ s (withKernel s j setClosed) := keepQ_withKernel s j _ clMono_setClosed
  generalize hs2 : (if h.kind == .udp then udpFinishClose sc .closing j (withKernel s j setClosed)
      else if h.kind == .pipe || h.kind == .tcp then streamDestroy sc j (withKernel s j setClosed)
      else withKernel s j setClosed) = s2
  have w2 : WFStep (withKernel s j setClosed) s2 := by
    rw [← hs2]; split
    · exact wfRel0.udpFinishClose _ _ _ _
    · split
      · exact wfRel0.streamDestroy _ _ _
      · exact WFStep.refl _
  have n2 : s.nextId ≤ s2.nextId := by
    have : NidRel (withKernel s j setClosed) s2 := by
      rw [← hs2]; split
      · exact nidRel0.udpFinishClose _ _ _ _
      · split
        · exact nidRel0.streamDestroy _ _ _
        · exact Nat.le_refl _
    exact this
  have hw3 : CloseWF' (some j) (withKernel s2 j handleUnref) :=
    (w2.1 _ (hw.keep k1.1)).keep (keepQ_withKernel s2 j _ clMono_unref).1
  obtain ⟨_, f3, hf3, _⟩ := hw3.2 j (by simp [clList])
  simp only [hf3]
  apply GoneRel.runCb
  refine ⟨?_, Nat.lt_of_lt_of_le hn n2⟩
  simp [hids]

/-- (copy of `Props.C01.initLoop_inv`, needed for a reachable witness) -/
theorem sInv_initLoop (clock0 : Nat) (metrics : Bool) (oracle : List PollRes) : SInv (initLoop clock0 metrics oracle) := by
  unfold initLoop
  simp only
  have h0 : SInv ({ clock := clock0, metrics := metrics, oracle := oracle } : State) :=
    ⟨⟨rfl, by intro e he; cases he⟩, by intro e he; cases he⟩
  have h1 : SInv (ioStart { updateTime ({ clock := clock0, metrics := metrics, oracle := oracle } : State) with wSignal := { hasFd := true } } .signal POLLIN) :=
    SInv.of_sig (s := ({ clock := clock0, metrics := metrics, oracle := oracle } : State)) (by rw [sig_ioStart]; rfl) h0
  have h2 := addHandle_inv _ .signal h1
  have h3 := Steps.inv (s' := withKernel _ 0 handleUnref) ⟨CStep.unref _ _, rfl⟩ h2
  have h4 := Steps.inv (s' := withKernel _ 0 setInternal) ⟨CStep.setInternal _ _, rfl⟩ h3
  have h5 : SInv (ioStart { withKernel _ 0 setInternal with wAsync := { hasFd := true } } .async POLLIN) :=
    SInv.of_sig (by rw [sig_ioStart]; rfl) h4
  have h6 := initH_inv _ .async h5
  have h7 := Steps.inv (s' := withKernel _ 1 handleUnref) ⟨CStep.unref _ _, rfl⟩ h6
  exact Steps.inv (s' := withKernel _ 1 setInternal) ⟨CStep.setInternal _ _, rfl⟩ h7

end UvModel.Loop
