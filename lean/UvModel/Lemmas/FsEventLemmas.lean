import UvModel.FsEvent
/-! Invariants of the fs_event model (UvModel.FsEvent): structural invariant `Inv`, iteration invariant
    `Iter`, idle invariant `Idle`, their preservation by every API call / callback script / record
    dispatch, and the delivery specification lemmas. -/
namespace UvModel.FsEvent

@[simp] theorem upd_same {α} (f : Nat → α) (i : Nat) (v : α) : upd f i v i = v := by simp [upd]
@[grind =] theorem upd_apply {α} (f : Nat → α) (i j : Nat) (v : α) : upd f i v j = if j = i then v else f j := rfl

/-- structural invariant (holds in every reachable state, also in the middle of a dispatch) -/
structure Inv (s : S) : Prop where
  noErr : s.err = false
  key : ∀ wd w, s.lists wd = some w → w.wd = wd
  memW : ∀ wd w h, s.lists wd = some w → h ∈ w.watchers → (s.hs h).active = true ∧ (s.hs h).wd = wd
  memQ : ∀ h, h ∈ s.queue → (s.hs h).active = true
  memQ2 : ∀ h w, h ∈ s.queue → s.lists (s.hs h).wd = some w → w.iterating = true ∧ h ∉ w.watchers
  actSome : ∀ h, (s.hs h).active = true → s.lists (s.hs h).wd ≠ none
  act : ∀ h w, (s.hs h).active = true → s.lists (s.hs h).wd = some w → (h ∈ w.watchers ∨ h ∈ s.queue)
  ndW : ∀ wd w, s.lists wd = some w → w.watchers.Nodup
  ndQ : s.queue.Nodup
  nonempty : ∀ wd w, s.lists wd = some w → w.iterating = false → w.watchers ≠ []
  closing : ∀ h, (s.hs h).closing = true → (s.hs h).active = false

theorem inv_emit {s : S} (hi : Inv s) (o : Obs) : Inv (s.emit o) :=
  ⟨hi.noErr, hi.key, hi.memW, hi.memQ, hi.memQ2, hi.actSome, hi.act, hi.ndW, hi.ndQ, hi.nonempty, hi.closing⟩

theorem inv_init : Inv ({} : S) := by
  constructor <;> simp

theorem inv_apiStart {s : S} (hi : Inv s) (h cb wd a : Nat) : Inv (apiStart s h cb wd a) := by
  unfold apiStart
  by_cases hc : (s.hs h).closing = true
  · simp only [hc, if_true]; exact inv_emit hi _
  by_cases ha : (s.hs h).active = true
  · simp only [hc, ha, if_true]; exact inv_emit hi _
  by_cases hw : wd = 0
  · simp only [hc, ha, hw, if_true]
    apply inv_emit; apply inv_emit
    exact ⟨hi.noErr, hi.key, hi.memW, hi.memQ, hi.memQ2, hi.actSome, hi.act, hi.ndW, hi.ndQ, hi.nonempty, hi.closing⟩
  simp only [hc, ha, hw, Bool.false_eq_true, if_false, find, setList, S.emit]
  obtain ⟨h1,h2,h3,h4,h4b,h5a,h5,h6,h7,h8,h9⟩ := hi
  have hnq : h ∉ s.queue := fun hm => by have := h4 h hm; simp_all
  cases hl : s.lists wd with
  | none =>
    simp only [upd_same]
    constructor <;> simp only [] <;> grind
  | some w =>
    have hnw : h ∉ w.watchers := fun hm => by have := (h3 wd w h hl hm).1; simp_all
    have hk := h2 wd w hl
    simp only [hl, hk]
    constructor <;> simp only [] <;> grind [List.nodup_append]

theorem inv_stopCore {s : S} (hi : Inv s) (h : Nat) : Inv (stopCore s h) := by
  unfold stopCore
  by_cases ha : (s.hs h).active = true
  · simp only [ha, Bool.not_true, Bool.false_eq_true, if_false, find]
    cases hl : s.lists (s.hs h).wd with
    | none => exact absurd hl (hi.actSome h ha)
    | some w =>
      have hk := hi.key _ w hl
      have hndw := hi.ndW _ w hl
      obtain ⟨h1,h2,h3,h4,h4b,h5a,h5,h6,h7,h8,h9⟩ := hi
      simp only [maybeFree, find, setList, S.emit, hk, upd_same]
      by_cases hf : (!w.iterating && (w.watchers.erase h).isEmpty) = true
      · simp only [hf, if_true]
        constructor <;> simp only [] <;>
          grind [List.Nodup.mem_erase_iff, List.Nodup.erase, List.mem_of_mem_erase, List.isEmpty_iff]
      · simp only [hf, Bool.false_eq_true, if_false]
        constructor <;> simp only [] <;>
          grind [List.Nodup.mem_erase_iff, List.Nodup.erase, List.mem_of_mem_erase, List.isEmpty_iff]
  · simp only [ha, Bool.not_false, if_true]; exact hi

theorem inv_apiStop {s : S} (hi : Inv s) (h : Nat) : Inv (apiStop s h) := by
  unfold apiStop
  split
  · exact inv_emit hi _
  · exact inv_emit (inv_stopCore hi h) _

theorem inv_apiClose {s : S} (hi : Inv s) (h : Nat) : Inv (apiClose s h) := by
  unfold apiClose
  by_cases hc : (s.hs h).closing = true
  · simp only [hc, if_true]; exact inv_emit hi _
  · simp only [hc, Bool.false_eq_true, if_false]
    apply inv_emit
    unfold stopCore
    simp only [upd_same]
    by_cases ha : (s.hs h).active = true
    · simp only [ha, Bool.not_true, Bool.false_eq_true, if_false, find]
      cases hl : s.lists (s.hs h).wd with
      | none => exact absurd hl (hi.actSome h ha)
      | some w =>
        have hk := hi.key _ w hl
        have hndw := hi.ndW _ w hl
        obtain ⟨h1,h2,h3,h4,h4b,h5a,h5,h6,h7,h8,h9⟩ := hi
        simp only [maybeFree, find, setList, S.emit, hk, upd_same]
        by_cases hf : (!w.iterating && (w.watchers.erase h).isEmpty) = true
        · simp only [hf, if_true]
          constructor <;> simp only [] <;>
            grind [List.Nodup.mem_erase_iff, List.Nodup.erase, List.mem_of_mem_erase, List.isEmpty_iff]
        · simp only [hf, Bool.false_eq_true, if_false]
          constructor <;> simp only [] <;>
            grind [List.Nodup.mem_erase_iff, List.Nodup.erase, List.mem_of_mem_erase, List.isEmpty_iff]
    · simp only [ha, Bool.not_false, if_true]
      obtain ⟨h1,h2,h3,h4,h4b,h5a,h5,h6,h7,h8,h9⟩ := hi
      constructor <;> simp only [] <;> grind

theorem inv_applyOp {s : S} (hi : Inv s) (o : Op) : Inv (applyOp s o) := by
  unfold applyOp
  cases o with
  | start h cb wd a => exact inv_apiStart (inv_emit hi _) h cb wd a
  | stop h => exact inv_apiStop (inv_emit hi _) h
  | close h => exact inv_apiClose (inv_emit hi _) h

theorem inv_foldOps {s : S} (hi : Inv s) (ops : List Op) : Inv (ops.foldl applyOp s) := by
  induction ops generalizing s with
  | nil => exact hi
  | cons o t ih => exact ih (inv_applyOp hi o)

theorem inv_runCb {s : S} (sc : Script) (hi : Inv s) : Inv (runCb sc s) :=
  inv_foldOps (s := { s with ncb := s.ncb + 1 })
    ⟨hi.noErr, hi.key, hi.memW, hi.memQ, hi.memQ2, hi.actSome, hi.act, hi.ndW, hi.ndQ, hi.nonempty, hi.closing⟩ _


/-- while the list of `wd` is being iterated (between `w->iterating = 1` and `= 0`) -/
structure Iter (s : S) (wd : Nat) : Prop where
  ex : s.lists wd ≠ none
  it : ∀ w, s.lists wd = some w → w.iterating = true
  others : ∀ wd' w', wd' ≠ wd → s.lists wd' = some w' → w'.iterating = false
  qwd : ∀ h, h ∈ s.queue → (s.hs h).wd = wd

/-- outside uv__inotify_read -/
structure Idle (s : S) : Prop where
  q : s.queue = []
  noIt : ∀ wd w, s.lists wd = some w → w.iterating = false

theorem iter_emit {s : S} {wd : Nat} (hl : Iter s wd) (o : Obs) : Iter (s.emit o) wd :=
  ⟨hl.ex, hl.it, hl.others, hl.qwd⟩

theorem iter_apiStart {s : S} {wd : Nat} (hi : Inv s) (hl : Iter s wd) (h cb wd' a : Nat) :
    Iter (apiStart s h cb wd' a) wd := by
  unfold apiStart
  by_cases hc : (s.hs h).closing = true
  · simp only [hc, if_true]; exact iter_emit hl _
  by_cases ha : (s.hs h).active = true
  · simp only [hc, ha, if_true]; exact iter_emit hl _
  by_cases hw : wd' = 0
  · simp only [hc, ha, hw, if_true]
    apply iter_emit; apply iter_emit
    exact ⟨hl.ex, hl.it, hl.others, hl.qwd⟩
  simp only [hc, ha, hw, Bool.false_eq_true, if_false, find, setList, S.emit]
  obtain ⟨h1,h2,h3,h4,h4b,h5a,h5,h6,h7,h8,h9⟩ := hi
  obtain ⟨l1,l2,l3,l4⟩ := hl
  have hnq : h ∉ s.queue := fun hm => by have := h4 h hm; simp_all
  cases hl : s.lists wd' with
  | none =>
    simp only [upd_same]
    constructor <;> simp only [] <;> grind
  | some w =>
    have hk := h2 wd' w hl
    simp only [hl, hk]
    constructor <;> simp only [] <;> grind

theorem iter_stopCore {s : S} {wd : Nat} (hi : Inv s) (hl : Iter s wd) (h : Nat) (cl : Bool) :
    Iter (stopCore { s with hs := upd s.hs h { (s.hs h) with closing := cl } } h) wd := by
  unfold stopCore
  simp only [upd_same]
  by_cases ha : (s.hs h).active = true
  · simp only [ha, Bool.not_true, Bool.false_eq_true, if_false, find]
    cases hll : s.lists (s.hs h).wd with
    | none => exact absurd hll (hi.actSome h ha)
    | some w =>
      have hk := hi.key _ w hll
      obtain ⟨h1,h2,h3,h4,h4b,h5a,h5,h6,h7,h8,h9⟩ := hi
      obtain ⟨l1,l2,l3,l4⟩ := hl
      simp only [maybeFree, find, setList, S.emit, hk, upd_same]
      by_cases hf : (!w.iterating && (w.watchers.erase h).isEmpty) = true
      · simp only [hf, if_true]
        constructor <;> simp only [] <;> grind [List.Nodup.mem_erase_iff, List.mem_of_mem_erase]
      · simp only [hf, Bool.false_eq_true, if_false]
        constructor <;> simp only [] <;> grind [List.Nodup.mem_erase_iff, List.mem_of_mem_erase]
  · simp only [ha, Bool.not_false, if_true]
    obtain ⟨l1,l2,l3,l4⟩ := hl
    constructor <;> simp only [] <;> grind

theorem stopCore_self (s : S) (h : Nat) :
    { s with hs := upd s.hs h { (s.hs h) with closing := (s.hs h).closing } } = s := by
  have : upd s.hs h { (s.hs h) with closing := (s.hs h).closing } = s.hs := by
    funext j; simp [upd]; intro hj; subst hj; rfl
  cases s; simp_all

theorem iter_applyOp {s : S} {wd : Nat} (hi : Inv s) (hl : Iter s wd) (o : Op) : Iter (applyOp s o) wd := by
  unfold applyOp
  cases o with
  | start h cb wd' a => exact iter_apiStart (inv_emit hi _) (iter_emit hl _) h cb wd' a
  | stop h =>
    simp only [apiStop]
    split
    · exact iter_emit (iter_emit hl _) _
    · apply iter_emit
      have := iter_stopCore (inv_emit hi (.api (.stop h))) (iter_emit hl (.api (.stop h))) h ((s.emit (.api (.stop h))).hs h).closing
      rw [stopCore_self] at this; exact this
  | close h =>
    simp only [apiClose]
    split
    · exact iter_emit (iter_emit hl _) _
    · apply iter_emit
      exact iter_stopCore (inv_emit hi (.api (.close h))) (iter_emit hl (.api (.close h))) h true

theorem iter_foldOps {s : S} {wd : Nat} (hi : Inv s) (hl : Iter s wd) (ops : List Op) :
    Iter (ops.foldl applyOp s) wd := by
  induction ops generalizing s with
  | nil => exact hl
  | cons o t ih => exact ih (inv_applyOp hi o) (iter_applyOp hi hl o)

theorem iter_runCb {s : S} {wd : Nat} (sc : Script) (hi : Inv s) (hl : Iter s wd) : Iter (runCb sc s) wd :=
  iter_foldOps (s := { s with ncb := s.ncb + 1 })
    ⟨hi.noErr, hi.key, hi.memW, hi.memQ, hi.memQ2, hi.actSome, hi.act, hi.ndW, hi.ndQ, hi.nonempty, hi.closing⟩
    ⟨hl.ex, hl.it, hl.others, hl.qwd⟩ _


theorem queue_applyOp_len {s : S} (o : Op) : (applyOp s o).queue.length ≤ s.queue.length := by
  have hst : ∀ (s : S) h, (stopCore s h).queue.length ≤ s.queue.length := by
    intro s h
    unfold stopCore
    by_cases ha : (s.hs h).active = true
    · simp only [ha, Bool.not_true, Bool.false_eq_true, if_false, find]
      cases s.lists (s.hs h).wd with
      | none => simp
      | some w =>
        simp only [maybeFree, find, setList, S.emit, upd_same]
        split <;> simp [List.length_erase] <;> split <;> omega
    · simp [ha]
  unfold applyOp
  cases o with
  | start h cb wd a =>
    simp only [apiStart, S.emit, find, setList]
    by_cases hc : (s.hs h).closing = true
    · simp [hc]
    by_cases ha : (s.hs h).active = true
    · simp [hc, ha]
    by_cases hw : wd = 0
    · simp [hc, ha, hw]
    simp only [hc, ha, hw, Bool.false_eq_true, if_false]
    cases hl : s.lists wd with
    | none => simp [hl]
    | some w => simp [hl]
  | stop h =>
    simp only [apiStop, S.emit]
    by_cases hc : (s.hs h).closing = true
    · simp [hc]
    · simp only [hc, Bool.false_eq_true, if_false]
      exact hst { s with trace := Obs.api (Op.stop h) :: s.trace } h
  | close h =>
    simp only [apiClose, S.emit]
    by_cases hc : (s.hs h).closing = true
    · simp [hc]
    · simp only [hc, Bool.false_eq_true, if_false]
      exact hst _ h

theorem queue_foldOps_len {s : S} (ops : List Op) : (ops.foldl applyOp s).queue.length ≤ s.queue.length := by
  induction ops generalizing s with
  | nil => exact Nat.le_refl _
  | cons o t ih => exact Nat.le_trans ih (queue_applyOp_len o)

/-- one turn of the loop body up to (and including) re-appending the handle to `w->watchers` -/
theorem inv_pop {s : S} {wd h : Nat} {rest : List Nat} (hi : Inv s) (hl : Iter s wd) (hq : s.queue = h :: rest)
    {w : WL} (hw : s.lists wd = some w) :
    Inv (setList { s with queue := rest } { w with watchers := w.watchers ++ [h] }) ∧
    Iter (setList { s with queue := rest } { w with watchers := w.watchers ++ [h] }) wd := by
  have hk := hi.key wd w hw
  obtain ⟨h1,h2,h3,h4,h4b,h5a,h5,h6,h7,h8,h9⟩ := hi
  obtain ⟨l1,l2,l3,l4⟩ := hl
  have hhq : h ∈ s.queue := by simp [hq]
  have hwd := l4 h hhq
  have hnw := (h4b h w hhq (by rw [hwd]; exact hw)).2
  rw [hq] at h7
  simp only [setList, hk]
  refine ⟨?_, ?_⟩
  · constructor <;> simp only [] <;> grind [List.nodup_append, List.nodup_cons]
  · constructor <;> simp only [] <;> grind

theorem loop_inv (sc : Script) (wd : Nat) (name : String) (ev : Nat) (fuel : Nat) {s : S}
    (hi : Inv s) (hl : Iter s wd) (hf : s.queue.length ≤ fuel) :
    Inv (dispatchLoop sc wd name ev fuel s) ∧ Iter (dispatchLoop sc wd name ev fuel s) wd ∧
    (dispatchLoop sc wd name ev fuel s).queue = [] := by
  induction fuel generalizing s with
  | zero =>
    simp only [dispatchLoop]
    exact ⟨hi, hl, List.eq_nil_of_length_eq_zero (Nat.le_zero.1 hf)⟩
  | succ n ih =>
    unfold dispatchLoop
    cases hq : s.queue with
    | nil => simp only []; exact ⟨hi, hl, hq⟩
    | cons h rest =>
      simp only [find]
      cases hw : s.lists wd with
      | none => exact absurd hw hl.ex
      | some w =>
        simp only []
        have hp := inv_pop hi hl hq hw
        have hi2 := inv_runCb sc (inv_emit hp.1 (.cb h ((setList { s with queue := rest } { w with watchers := w.watchers ++ [h] }).hs h).cb name ev))
        have hl2 := iter_runCb sc (inv_emit hp.1 (.cb h ((setList { s with queue := rest } { w with watchers := w.watchers ++ [h] }).hs h).cb name ev)) (iter_emit hp.2 _)
        apply ih hi2 hl2
        have := queue_foldOps_len (s := { ((setList { s with queue := rest } { w with watchers := w.watchers ++ [h] }).emit
          (.cb h ((setList { s with queue := rest } { w with watchers := w.watchers ++ [h] }).hs h).cb name ev)) with
            ncb := s.ncb + 1 }) (sc s.ncb)
        rw [hq] at hf
        simp only [runCb, setList, S.emit] at this ⊢
        simp only [List.length_cons] at hf
        omega

theorem inv_dispatchRec (sc : Script) {s : S} (hi : Inv s) (hd : Idle s) (r : Rec) :
    Inv (dispatchRec sc s r) ∧ Idle (dispatchRec sc s r) := by
  unfold dispatchRec
  simp only [find]
  cases hw : s.lists r.wd with
  | none => exact ⟨hi, hd⟩
  | some w =>
    simp only []
    have hk := hi.key _ w hw
    -- entering the iteration
    have hi1 : Inv { (setList s { w with iterating := true, watchers := [] }) with queue := w.watchers } := by
      obtain ⟨h1,h2,h3,h4,h4b,h5a,h5,h6,h7,h8,h9⟩ := hi
      obtain ⟨d1,d2⟩ := hd
      simp only [setList, hk]
      constructor <;> simp only [] <;> grind
    have hl1 : Iter { (setList s { w with iterating := true, watchers := [] }) with queue := w.watchers } r.wd := by
      obtain ⟨h1,h2,h3,h4,h4b,h5a,h5,h6,h7,h8,h9⟩ := hi
      obtain ⟨d1,d2⟩ := hd
      simp only [setList, hk]
      constructor <;> simp only [] <;> grind
    have hlp := loop_inv sc r.wd (r.name.getD w.path) (eventsOf r.mask) w.watchers.length hi1 hl1 (Nat.le_refl _)
    generalize dispatchLoop sc r.wd (r.name.getD w.path) (eventsOf r.mask) w.watchers.length
      { (setList s { w with iterating := true, watchers := [] }) with queue := w.watchers } = s2 at hlp
    obtain ⟨hi2, hl2, hq2⟩ := hlp
    cases hw2 : s2.lists r.wd with
    | none => exact absurd hw2 hl2.ex
    | some w2 =>
      have hk2 := hi2.key _ w2 hw2
      obtain ⟨h1,h2,h3,h4,h4b,h5a,h5,h6,h7,h8,h9⟩ := hi2
      obtain ⟨l1,l2,l3,l4⟩ := hl2
      simp only [maybeFree, find, setList, hk2, upd_same, S.emit]
      by_cases hf : (!false && w2.watchers.isEmpty) = true
      · simp only [hf, if_true]
        refine ⟨?_, ?_⟩
        · constructor <;> simp only [] <;> grind [List.isEmpty_iff]
        · constructor <;> simp only [] <;> grind
      · simp only [hf, Bool.false_eq_true, if_false]
        refine ⟨?_, ?_⟩
        · constructor <;> simp only [] <;> grind [List.isEmpty_iff]
        · constructor <;> simp only [] <;> grind


theorem idle_emit {s : S} (hd : Idle s) (o : Obs) : Idle (s.emit o) := ⟨hd.q, hd.noIt⟩

theorem idle_apiStart {s : S} (hi : Inv s) (hd : Idle s) (h cb wd' a : Nat) :
    Idle (apiStart s h cb wd' a) := by
  unfold apiStart
  by_cases hc : (s.hs h).closing = true
  · simp only [hc, if_true]; exact idle_emit hd _
  by_cases ha : (s.hs h).active = true
  · simp only [hc, ha, if_true]; exact idle_emit hd _
  by_cases hw : wd' = 0
  · simp only [hc, ha, hw, if_true]
    apply idle_emit; apply idle_emit
    exact ⟨hd.q, hd.noIt⟩
  simp only [hc, ha, hw, Bool.false_eq_true, if_false, find, setList, S.emit]
  obtain ⟨h1,h2,h3,h4,h4b,h5a,h5,h6,h7,h8,h9⟩ := hi
  obtain ⟨d1,d2⟩ := hd
  cases hl : s.lists wd' with
  | none =>
    simp only [upd_same]
    constructor <;> simp only [] <;> grind
  | some w =>
    have hk := h2 wd' w hl
    simp only [hl, hk]
    constructor <;> simp only [] <;> grind

theorem idle_stopCore {s : S} (hi : Inv s) (hd : Idle s) (h : Nat) (cl : Bool) :
    Idle (stopCore { s with hs := upd s.hs h { (s.hs h) with closing := cl } } h) := by
  unfold stopCore
  simp only [upd_same]
  by_cases ha : (s.hs h).active = true
  · simp only [ha, Bool.not_true, Bool.false_eq_true, if_false, find]
    cases hll : s.lists (s.hs h).wd with
    | none => exact absurd hll (hi.actSome h ha)
    | some w =>
      have hk := hi.key _ w hll
      obtain ⟨d1,d2⟩ := hd
      simp only [maybeFree, find, setList, S.emit, hk, upd_same]
      by_cases hf : (!w.iterating && (w.watchers.erase h).isEmpty) = true
      · simp only [hf, if_true]
        constructor <;> simp only [] <;> grind
      · simp only [hf, Bool.false_eq_true, if_false]
        constructor <;> simp only [] <;> grind
  · simp only [ha, Bool.not_false, if_true]
    exact ⟨hd.q, hd.noIt⟩

theorem idle_applyOp {s : S} (hi : Inv s) (hd : Idle s) (o : Op) : Idle (applyOp s o) := by
  unfold applyOp
  cases o with
  | start h cb wd' a => exact idle_apiStart (inv_emit hi _) (idle_emit hd _) h cb wd' a
  | stop h =>
    simp only [apiStop]
    split
    · exact idle_emit (idle_emit hd _) _
    · apply idle_emit
      have := idle_stopCore (inv_emit hi (.api (.stop h))) (idle_emit hd (.api (.stop h))) h ((s.emit (.api (.stop h))).hs h).closing
      rw [stopCore_self] at this; exact this
  | close h =>
    simp only [apiClose]
    split
    · exact idle_emit (idle_emit hd _) _
    · apply idle_emit
      exact idle_stopCore (inv_emit hi (.api (.close h))) (idle_emit hd (.api (.close h))) h true

theorem inv_dispatch (sc : Script) {s : S} (hi : Inv s) (hd : Idle s) (rs : List Rec) :
    Inv (dispatch sc s rs) ∧ Idle (dispatch sc s rs) := by
  unfold dispatch
  induction rs generalizing s with
  | nil => exact ⟨hi, hd⟩
  | cons r t ih =>
    have := inv_dispatchRec sc hi hd r
    exact ih this.1 this.2

theorem inv_step (sc : Script) {s : S} (hi : Inv s) (hd : Idle s) (i : In) :
    Inv (step sc s i) ∧ Idle (step sc s i) := by
  cases i with
  | op o => exact ⟨inv_applyOp hi o, idle_applyOp hi hd o⟩
  | dispatch rs => exact inv_dispatch sc hi hd rs

theorem inv_run (sc : Script) {s : S} (hi : Inv s) (hd : Idle s) (ins : List In) :
    Inv (run sc s ins) ∧ Idle (run sc s ins) := by
  unfold run
  induction ins generalizing s with
  | nil => exact ⟨hi, hd⟩
  | cons i t ih =>
    have := inv_step sc hi hd i
    exact ih this.1 this.2

theorem idle_init : Idle ({} : S) := by constructor <;> simp


theorem stopCore_queue {s : S} (hi : Inv s) (h : Nat) (cl : Bool) :
    (stopCore { s with hs := upd s.hs h { (s.hs h) with closing := cl } } h).queue = s.queue.erase h ∧
    (stopCore { s with hs := upd s.hs h { (s.hs h) with closing := cl } } h).ncb = s.ncb ∧
    cbsOf (stopCore { s with hs := upd s.hs h { (s.hs h) with closing := cl } } h).trace = cbsOf s.trace := by
  unfold stopCore
  simp only [upd_same]
  by_cases ha : (s.hs h).active = true
  · simp only [ha, Bool.not_true, Bool.false_eq_true, if_false, find]
    cases hll : s.lists (s.hs h).wd with
    | none => exact absurd hll (hi.actSome h ha)
    | some w =>
      simp only [maybeFree, find, setList, S.emit, upd_same]
      split <;> simp [cbsOf]
  · have hnq : h ∉ s.queue := fun hm => ha (hi.memQ h hm)
    simp [ha, List.erase_of_not_mem hnq]

theorem applyOp_queue {s : S} (hi : Inv s) (o : Op) :
    (applyOp s o).queue = (match stopTarget o with | some h => s.queue.erase h | none => s.queue) ∧
    (applyOp s o).ncb = s.ncb ∧ cbsOf (applyOp s o).trace = cbsOf s.trace := by
  unfold applyOp
  cases o with
  | start h cb wd a =>
    simp only [apiStart, S.emit, find, setList, stopTarget]
    by_cases hc : (s.hs h).closing = true
    · simp [hc, cbsOf]
    by_cases ha : (s.hs h).active = true
    · simp [hc, ha, cbsOf]
    by_cases hw : wd = 0
    · simp [hc, ha, hw, cbsOf]
    simp only [hc, ha, hw, Bool.false_eq_true, if_false]
    cases hl : s.lists wd with
    | none => simp [cbsOf]
    | some w => simp [hl, cbsOf]
  | stop h =>
    simp only [apiStop, S.emit, stopTarget]
    by_cases hc : (s.hs h).closing = true
    · have hnq : h ∉ s.queue := fun hm => by have := hi.memQ h hm; have := hi.closing h hc; simp_all
      simp [hc, cbsOf, List.erase_of_not_mem hnq]
    · simp only [hc, Bool.false_eq_true, if_false]
      have := stopCore_queue (inv_emit hi (.api (.stop h))) h ((s.emit (.api (.stop h))).hs h).closing
      rw [stopCore_self] at this
      simp only [S.emit] at this
      simp [cbsOf, this]
  | close h =>
    simp only [apiClose, S.emit, stopTarget]
    by_cases hc : (s.hs h).closing = true
    · have hnq : h ∉ s.queue := fun hm => by have := hi.memQ h hm; have := hi.closing h hc; simp_all
      simp [hc, cbsOf, List.erase_of_not_mem hnq]
    · simp only [hc, Bool.false_eq_true, if_false]
      have := stopCore_queue (inv_emit hi (.api (.close h))) h true
      simp only [S.emit] at this
      simp [cbsOf, this]

theorem foldOps_queue {s : S} (hi : Inv s) (ops : List Op) :
    (ops.foldl applyOp s).queue = eraseAll s.queue ops ∧ (ops.foldl applyOp s).ncb = s.ncb ∧
    cbsOf (ops.foldl applyOp s).trace = cbsOf s.trace := by
  induction ops generalizing s with
  | nil => simp [eraseAll]
  | cons o t ih =>
    have h1 := applyOp_queue hi o
    have h2 := ih (inv_applyOp hi o)
    simp only [List.foldl_cons, eraseAll] at h2 ⊢
    rw [h2.1, h2.2.1, h2.2.2, h1.1, h1.2.1, h1.2.2]
    exact ⟨rfl, rfl, rfl⟩

theorem loop_cbs (sc : Script) (wd : Nat) (name : String) (ev : Nat) (fuel : Nat) {s : S}
    (hi : Inv s) (hl : Iter s wd) :
    cbsOf (dispatchLoop sc wd name ev fuel s).trace =
      ((specDeliver sc fuel s.ncb s.queue).map (fun h => (h, name, ev))).reverse ++ cbsOf s.trace := by
  induction fuel generalizing s with
  | zero => simp [dispatchLoop, specDeliver]
  | succ n ih =>
    unfold dispatchLoop
    cases hq : s.queue with
    | nil => simp [specDeliver]
    | cons h rest =>
      simp only [find]
      cases hw : s.lists wd with
      | none => exact absurd hw hl.ex
      | some w =>
        simp only []
        have hp := inv_pop hi hl hq hw
        have hi1 := inv_emit hp.1 (.cb h ((setList { s with queue := rest } { w with watchers := w.watchers ++ [h] }).hs h).cb name ev)
        have hi2 := inv_runCb sc hi1
        have hl2 := iter_runCb sc hi1 (iter_emit hp.2 _)
        rw [ih hi2 hl2]
        have fq := foldOps_queue (s := { ((setList { s with queue := rest } { w with watchers := w.watchers ++ [h] }).emit
          (.cb h ((setList { s with queue := rest } { w with watchers := w.watchers ++ [h] }).hs h).cb name ev)) with
            ncb := s.ncb + 1 })
          ⟨hi1.noErr, hi1.key, hi1.memW, hi1.memQ, hi1.memQ2, hi1.actSome, hi1.act, hi1.ndW, hi1.ndQ, hi1.nonempty, hi1.closing⟩
          (sc s.ncb)
        simp only [runCb, setList, S.emit] at fq ⊢
        rw [fq.1, fq.2.1, fq.2.2]
        simp [specDeliver, cbsOf]


theorem rec_cbs (sc : Script) {s : S} (hi : Inv s) (hd : Idle s) (r : Rec) {w : WL}
    (hw : s.lists r.wd = some w) :
    cbsOf (dispatchRec sc s r).trace =
      ((specDeliver sc w.watchers.length s.ncb w.watchers).map
        (fun h => (h, r.name.getD w.path, eventsOf r.mask))).reverse ++ cbsOf s.trace := by
  unfold dispatchRec
  simp only [find, hw]
  have hk := hi.key _ w hw
  have hi1 : Inv { (setList s { w with iterating := true, watchers := [] }) with queue := w.watchers } := by
    obtain ⟨h1,h2,h3,h4,h4b,h5a,h5,h6,h7,h8,h9⟩ := hi
    obtain ⟨d1,d2⟩ := hd
    simp only [setList, hk]
    constructor <;> simp only [] <;> grind
  have hl1 : Iter { (setList s { w with iterating := true, watchers := [] }) with queue := w.watchers } r.wd := by
    obtain ⟨h1,h2,h3,h4,h4b,h5a,h5,h6,h7,h8,h9⟩ := hi
    obtain ⟨d1,d2⟩ := hd
    simp only [setList, hk]
    constructor <;> simp only [] <;> grind
  have hc := loop_cbs sc r.wd (r.name.getD w.path) (eventsOf r.mask) w.watchers.length hi1 hl1
  have hlp := loop_inv sc r.wd (r.name.getD w.path) (eventsOf r.mask) w.watchers.length hi1 hl1 (Nat.le_refl _)
  generalize dispatchLoop sc r.wd (r.name.getD w.path) (eventsOf r.mask) w.watchers.length
    { (setList s { w with iterating := true, watchers := [] }) with queue := w.watchers } = s2 at hc hlp
  simp only [setList] at hc
  cases hw2 : s2.lists r.wd with
  | none => exact absurd hw2 hlp.2.1.ex
  | some w2 =>
    have hk2 := hlp.1.key _ w2 hw2
    simp only [maybeFree, find, setList, hk2, upd_same, S.emit]
    split <;> simp [cbsOf, hc]

theorem eraseAll_sublist (q : List Nat) (ops : List Op) : (eraseAll q ops).Sublist q := by
  unfold eraseAll
  induction ops generalizing q with
  | nil => exact List.Sublist.refl _
  | cons o t ih =>
    simp only [List.foldl_cons]
    cases stopTarget o with
    | none => exact ih q
    | some h => exact (ih (q.erase h)).trans (List.erase_sublist)

/-- (a) only handles of the list at dispatch start, each at most once, in list order -/
theorem specDeliver_sublist (sc : Script) (f k : Nat) (q : List Nat) : (specDeliver sc f k q).Sublist q := by
  induction f generalizing k q with
  | zero => simp [specDeliver]
  | succ n ih =>
    cases q with
    | nil => simp [specDeliver]
    | cons h rest =>
      simp only [specDeliver]
      exact List.Sublist.cons_cons h ((ih (k + 1) _).trans (eraseAll_sublist rest (sc k)))

theorem eraseAll_lost {q : List Nat} {ops : List Op} {h : Nat} (hm : h ∈ q) (hn : h ∉ eraseAll q ops) :
    ∃ o ∈ ops, stopTarget o = some h := by
  unfold eraseAll at hn
  induction ops generalizing q with
  | nil => exact absurd hm hn
  | cons o t ih =>
    simp only [List.foldl_cons] at hn
    cases hs : stopTarget o with
    | none =>
      rw [hs] at hn
      obtain ⟨o', ho', h'⟩ := ih hm hn
      exact ⟨o', List.mem_cons_of_mem _ ho', h'⟩
    | some x =>
      rw [hs] at hn
      by_cases hx : x = h
      · exact ⟨o, List.mem_cons_self, by rw [hs, hx]⟩
      · have : h ∈ q.erase x := (List.mem_erase_of_ne (fun e => hx e.symm)).2 hm
        obtain ⟨o', ho', h'⟩ := ih this hn
        exact ⟨o', List.mem_cons_of_mem _ ho', h'⟩

/-- (b) a watcher that is skipped was stopped or closed by one of the callbacks run for this record -/
theorem specDeliver_skipped (sc : Script) (f k : Nat) (q : List Nat) (h : Nat) (hf : q.length ≤ f)
    (hm : h ∈ q) (hn : h ∉ specDeliver sc f k q) :
    ∃ j, j < (specDeliver sc f k q).length ∧ ∃ o ∈ sc (k + j), stopTarget o = some h := by
  induction f generalizing k q with
  | zero => cases q with
    | nil => cases hm
    | cons _ _ => simp at hf
  | succ n ih =>
    cases q with
    | nil => cases hm
    | cons x rest =>
      simp only [specDeliver, List.mem_cons, not_or] at hn hm ⊢
      have hr : h ∈ rest := by
        rcases hm with e | e
        · exact absurd e hn.1
        · exact e
      by_cases hq' : h ∈ eraseAll rest (sc k)
      · have hlen : (eraseAll rest (sc k)).length ≤ n :=
          Nat.le_trans (eraseAll_sublist rest (sc k)).length_le (by simpa using hf)
        obtain ⟨j, hj, o, ho, hs⟩ := ih (k + 1) _ hlen hq' hn.2
        refine ⟨j + 1, by simpa using hj, o, ?_, hs⟩
        have : k + (j + 1) = k + 1 + j := by omega
        rw [this]; exact ho
      · obtain ⟨o, ho, hs⟩ := eraseAll_lost hr hq'
        exact ⟨0, by simp, o, by simpa using ho, hs⟩

theorem eraseAll_gone {q : List Nat} (hnd : q.Nodup) {ops : List Op} {o : Op} {h : Nat} (ho : o ∈ ops)
    (hs : stopTarget o = some h) : h ∉ eraseAll q ops := by
  unfold eraseAll
  induction ops generalizing q with
  | nil => cases ho
  | cons o' t ih =>
    simp only [List.foldl_cons]
    rcases List.mem_cons.1 ho with e | e
    · subst e
      rw [hs]
      intro hm
      have := (eraseAll_sublist (q.erase h) t).subset hm
      exact (List.Nodup.mem_erase_iff hnd).1 this |>.1 rfl
    · cases hs' : stopTarget o' with
      | none => exact ih hnd e
      | some x => exact ih (hnd.erase x) e

/-- (c) once the j-th callback of this record has stopped or closed `h`, `h` is not called any more for
    this record (even if the same callback starts it again on the same path) -/
theorem specDeliver_no_later (sc : Script) (f k : Nat) (q : List Nat) (hnd : q.Nodup) (j : Nat) (o : Op) (h : Nat)
    (ho : o ∈ sc (k + j)) (hs : stopTarget o = some h) (hj : j < (specDeliver sc f k q).length) :
    h ∉ (specDeliver sc f k q).drop (j + 1) := by
  induction f generalizing k q j with
  | zero => simp [specDeliver] at hj
  | succ n ih =>
    cases q with
    | nil => simp [specDeliver] at hj
    | cons x rest =>
      simp only [specDeliver, List.drop_succ_cons] at hj ⊢
      have hndr : rest.Nodup := (List.nodup_cons.1 hnd).2
      have hnd' : (eraseAll rest (sc k)).Nodup := hndr.sublist (eraseAll_sublist rest (sc k))
      cases j with
      | zero =>
        simp only [List.drop_zero]
        intro hm
        have := (specDeliver_sublist sc n (k + 1) _).subset hm
        exact eraseAll_gone hndr (by simpa using ho) hs this
      | succ j' =>
        have hj' : j' < (specDeliver sc n (k + 1) (eraseAll rest (sc k))).length := by simpa using hj
        have : k + (j' + 1) = k + 1 + j' := by omega
        rw [this] at ho
        exact ih (k + 1) _ hnd' j' ho hj'

end UvModel.FsEvent
