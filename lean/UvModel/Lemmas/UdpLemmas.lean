import UvModel.Udp
/-! helper lemmas for C10 (UDP) -/
namespace UvModel.Udp

theorem errnoOf_pos (e : Nat) : 1 ≤ errnoOf e := by
  unfold errnoOf; split <;> omega

theorem wireOf_append (a b : List KCall) : wireOf (a ++ b) = wireOf a ++ wireOf b := by
  simp [wireOf]

theorem wireOf_nil : wireOf [] = [] := rfl

/-- what one (retried) system call hands to the OS -/
theorem kRetry_wire (m : List Dgram) (mmsg : Bool) (outs : List SOut) :
    wireOf (kRetry m mmsg outs).log = m.take (kRetry m mmsg outs).r.toNat := by
  induction outs with
  | nil => simp [kRetry, wireOf, KCall.accepted]
  | cons o t ih =>
    cases o with
    | sent k => simp [kRetry, wireOf, KCall.accepted]
    | err e =>
      simp only [kRetry]
      split
      · simp only [wireOf, List.flatMap_cons] at ih ⊢
        rw [ih]; simp [KCall.accepted, EINTR]
      · have := errnoOf_pos e
        simp [wireOf, KCall.accepted]

/-- result range of a sendmmsg call on a non-empty vector: error, or 1..vlen -/
theorem kRetry_mmsg_range (m : List Dgram) (outs : List SOut) (hm : m ≠ []) :
    (kRetry m true outs).r < 0 ∨ (1 ≤ (kRetry m true outs).r ∧ (kRetry m true outs).r ≤ m.length) := by
  have hl : 1 ≤ m.length := by cases m <;> simp_all
  induction outs with
  | nil => right; simp [kRetry]; omega
  | cons o t ih =>
    cases o with
    | sent k => right; simp [kRetry]; omega
    | err e =>
      simp only [kRetry]
      split
      · exact ih
      · left; have := errnoOf_pos e; simp; omega

/-- result of a sendmsg call: error or 1 -/
theorem kRetry_msg_range (m : List Dgram) (outs : List SOut) (hm : m.length = 1) :
    (kRetry m false outs).r < 0 ∨ (kRetry m false outs).r = 1 := by
  induction outs with
  | nil => right; simp [kRetry, hm]
  | cons o t ih =>
    cases o with
    | sent k => right; simp [kRetry]
    | err e =>
      simp only [kRetry]
      split
      · exact ih
      · left; have := errnoOf_pos e; simp; omega

theorem mapErr_neg {r : Int} (h : r < 0) : mapErr r < 0 := by
  unfold mapErr UV_EAGAIN; split <;> omega

/-- the inner fill loop collects exactly the next ≤ f datagrams starting at index i -/
theorem fill_eq (all : List Dgram) (i n f : Nat) :
    fill all i all.length n f = (all.drop (i + n)).take f := by
  induction f generalizing n with
  | zero => simp [fill]
  | succ f ih =>
    simp only [fill]
    split
    · rename_i h
      rw [ih (n + 1)]
      have : all.drop (i + n) = all[i + n] :: all.drop (i + n + 1) := List.drop_eq_getElem_cons h
      rw [this]; simp [List.getElem?_eq_getElem h, Nat.add_assoc]
    · rename_i h
      have : all.drop (i + n) = [] := List.drop_eq_nil_of_le (by omega)
      simp [this]

theorem mapErr_nonpos {r : Int} (h : r ≤ 0) : mapErr r ≤ 0 := by
  unfold mapErr UV_EAGAIN; split <;> omega

theorem sendmsg1_spec (d : Dgram) (outs : List SOut) :
    ((sendmsg1 d outs).r = 1 ∧ wireOf (sendmsg1 d outs).log = [d]) ∨
    ((sendmsg1 d outs).r < 0 ∧ wireOf (sendmsg1 d outs).log = []) := by
  have hw := kRetry_wire [d] false outs
  have hr := kRetry_msg_range [d] outs rfl
  unfold sendmsg1
  split
  · right; exact ⟨by show UV_EINVAL < 0; decide, rfl⟩
  rcases hr with h | h
  · right; simp only [h, if_true]; refine ⟨mapErr_neg h, ?_⟩
    rw [hw]; have : (kRetry [d] false outs).r.toNat = 0 := by omega
    simp [this]
  · left; have : ¬ (kRetry [d] false outs).r < 0 := by omega
    simp only [this, if_false]; refine ⟨by simp, ?_⟩
    rw [hw, h]; simp

/-- invariant of the sendmmsg loop: what has gone to the OS is exactly the first `nsent` datagrams -/
theorem mmsgLoop_spec (all : List Dgram) (fuel i : Nat) (r : Int) (outs : List SOut) (log : List KCall)
    (hi : i ≤ all.length) (hw : wireOf log = all.take i) (hr : i = 0 → r ≤ 0) :
    wireOf (mmsgLoop all all.length fuel i i r outs log).log
        = all.take (mmsgLoop all all.length fuel i i r outs log).nsent
    ∧ (mmsgLoop all all.length fuel i i r outs log).nsent ≤ all.length
    ∧ ((mmsgLoop all all.length fuel i i r outs log).nsent = 0 →
        (mmsgLoop all all.length fuel i i r outs log).r ≤ 0) := by
  induction fuel generalizing i r outs log with
  | zero => simp [mmsgLoop, hw, hi]; exact hr
  | succ f ih =>
    simp only [mmsgLoop]
    split
    · rename_i hlt
      split
      · have hm : fill all i all.length 0 20 = (all.drop i).take 20 := by simpa using fill_eq all i 0 20
        have hne : (all.drop i).take 20 ≠ [] := by
          intro h
          have := congrArg List.length h
          simp at this; omega
        rw [hm]
        have hrange := kRetry_mmsg_range _ outs hne
        have hwk := kRetry_wire ((all.drop i).take 20) true outs
        generalize kRetry ((all.drop i).take 20) true outs = k at hrange hwk
        split
        · rename_i hlt1
          have h0 : k.r.toNat = 0 := by omega
          refine ⟨?_, hi, fun _ => by show k.r ≤ 0; omega⟩
          simp [wireOf_append, hw, hwk, h0]
        · rename_i hge
          have hlen : ((all.drop i).take 20).length = min 20 (all.length - i) := by simp
          have hk1 : 1 ≤ k.r.toNat := by omega
          have hk2 : k.r.toNat ≤ 20 ∧ k.r.toNat ≤ all.length - i := by omega
          apply ih
          · omega
          · rw [wireOf_append, hw, hwk, List.take_take]
            have : min k.r.toNat 20 = k.r.toNat := by omega
            rw [this, List.take_add]
          · intro h; omega
      · exact ⟨hw, hi, fun _ => by show UV_EINVAL ≤ 0; decide⟩
    · exact ⟨hw, hi, hr⟩

/-- uv__udp_sendmsgv: a positive return value n means exactly datagrams 0..n-1 went to the OS; a
non-positive one means nothing did — for every batch size and outcome schedule -/
theorem sendmsgv_spec (all : List Dgram) (outs : List SOut) :
    ((sendmsgv all outs).ret > 0 →
        wireOf (sendmsgv all outs).log = all.take (sendmsgv all outs).ret.toNat
        ∧ (sendmsgv all outs).ret ≤ all.length)
    ∧ ((sendmsgv all outs).ret ≤ 0 → wireOf (sendmsgv all outs).log = []) := by
  by_cases hc : all.length > 1
  · simp only [sendmsgv, hc, if_true]
    have h := mmsgLoop_spec all all.length 0 0 outs [] (Nat.zero_le _) (by simp [wireOf]) (fun _ => Int.le_refl 0)
    generalize mmsgLoop all all.length all.length 0 0 0 outs [] = l at h
    obtain ⟨h1, h2, h3⟩ := h
    simp only [vExit]
    by_cases hn : l.nsent > 0
    · simp only [hn, if_true]
      refine ⟨fun _ => ⟨by simpa using h1, by omega⟩, fun h => by omega⟩
    · have hz : l.nsent = 0 := by omega
      have hr := h3 hz
      simp only [hn, if_false]
      constructor
      · intro h; split at h
        · have := mapErr_nonpos hr; omega
        · omega
      · intro _; rw [h1, hz]; simp
  · simp only [sendmsgv, hc, if_false]
    match all, hc with
    | [], _ => simp [msgLoop, vExit, wireOf]
    | [d], _ =>
      simp only [msgLoop, List.nil_append]
      rcases sendmsg1_spec d outs with ⟨h1, h2⟩ | ⟨h1, h2⟩
      · simp [h1, vExit, h2]
      · have hne : (sendmsg1 d outs).r ≠ 0 := by omega
        have hm := mapErr_neg h1
        simp only [hne, ne_eq, not_false_eq_true, if_true, vExit, Nat.lt_irrefl, if_false, h2, Bool.false_eq_true]
        refine ⟨fun h => by omega, fun _ => trivial⟩
    | _ :: _ :: _, h => simp at h

/-- fuel of the sendmmsg loop is irrelevant once it covers the remaining datagrams -/
theorem mmsgLoop_fuel (all : List Dgram) (count f1 f2 i nsent : Nat) (r : Int) (outs : List SOut) (log : List KCall)
    (h1 : count - i ≤ f1) (h2 : count - i ≤ f2) :
    mmsgLoop all count f1 i nsent r outs log = mmsgLoop all count f2 i nsent r outs log := by
  induction f1 generalizing f2 i nsent r outs log with
  | zero =>
    cases f2 with
    | zero => rfl
    | succ f2 => have : ¬ i < count := by omega
                 simp [mmsgLoop, this]
  | succ f1 ih =>
    cases f2 with
    | zero => have : ¬ i < count := by omega
              simp [mmsgLoop, this]
    | succ f2 =>
      simp only [mmsgLoop]
      split
      · split
        · split
          · rfl
          · apply ih <;> omega
        · rfl
      · rfl

end UvModel.Udp

/-! ## receive path -/
namespace UvModel.Udp

def hasChunk (flags : Nat) : Bool := flags / FLAG_CHUNK % 2 == 1

/-- tiny specification of the buffer protocol: after `n` alloc_cb calls the handle is `idle` (owes nothing),
`refused` (alloc gave no buffer: one UV_ENOBUFS callback without buffer is due) or `owed len` (buffer n-1 of
length len is out: MMSG_CHUNK callbacks may point into it, exactly one non-chunk callback returns it) -/
inductive PMode
  | idle | refused | owed (len : Nat)
  deriving DecidableEq, Repr

structure PSt where
  n : Nat
  m : PMode
  deriving DecidableEq, Repr

def pstep (p : PSt) : REv → Option PSt
  | .alloc len =>
    match p.m with
    | .idle => some ⟨p.n + 1, if len = 0 then .refused else .owed len⟩
    | _ => none
  | .cb args =>
    match p.m, args.buf with
    | .refused, none => if args.nread = UV_ENOBUFS then some ⟨p.n, .idle⟩ else none
    | .owed len, some b =>
      if b.a + 1 = p.n then
        if hasChunk args.flags then (if b.off + b.len ≤ len then some p else none)
        else if b.off = 0 ∧ b.len = len then some ⟨p.n, .idle⟩ else none
      else none
    | _, _ => none

def runP (p : PSt) (evs : List REv) : Option PSt := evs.foldlM pstep p

theorem runP_append (p : PSt) (a b : List REv) : runP p (a ++ b) = (runP p a).bind (fun p' => runP p' b) := by
  simp [runP, List.foldlM_append]

theorem runP_snoc {p0 p p' : PSt} {evs : List REv} {e : REv} (h : runP p0 evs = some p) (hs : pstep p e = some p') :
    runP p0 (evs ++ [e]) = some p' := by
  rw [runP_append, h]; simp [runP, hs]

theorem takeDgs_length (n : Nat) (q : List RItem) : (takeDgs n q).1.length ≤ n := by
  induction n generalizing q with
  | zero => simp [takeDgs]
  | succ n ih =>
    match q with
    | [] => simp [takeDgs]
    | .dg d :: t => simp [takeDgs]; exact ih t
    | .err e :: t => simp [takeDgs]
    | .brk :: t => simp [takeDgs]

/-- recvmmsg with room for ≥ 1 message: an error, or between 1 and vlen datagrams -/
theorem kRecvmmsg_ok (vlen : Nat) (hv : 1 ≤ vlen) (q : List RItem) :
    ∀ ds, (kRecvmmsg vlen q).1 = .ok ds → ds ≠ [] ∧ ds.length ≤ vlen := by
  induction q with
  | nil => intro ds h; have : vlen ≠ 0 := by omega
           simp [kRecvmmsg, this] at h
  | cons it t ih =>
    cases it with
    | brk => simpa [kRecvmmsg] using ih
    | err e =>
      have : vlen ≠ 0 := by omega
      simp only [kRecvmmsg, this, if_false]
      split
      · exact ih
      · intro ds h; simp at h
    | dg d =>
      intro ds h
      simp only [kRecvmmsg] at h
      injection h with h
      subst h
      refine ⟨?_, takeDgs_length _ _⟩
      obtain ⟨v, rfl⟩ : ∃ v, vlen = v + 1 := ⟨vlen - 1, by omega⟩
      simp [takeDgs]

section
variable {σ : Type} (u : RecvUser σ)

theorem chunkLoop_paired (a len : Nat) (p0 : PSt) :
    ∀ (ds : List RDg) (k : Nat) (s : σ) (evs : List REv),
      (k + ds.length) * DGRAM_MAX ≤ len →
      runP p0 evs = some ⟨a + 1, .owed len⟩ →
      runP p0 (chunkLoop u a ds k s evs).2 = some ⟨a + 1, .owed len⟩ := by
  intro ds
  induction ds with
  | nil => intro k s evs _ hp; exact hp
  | cons d ds ih =>
    intro k s evs hb hp
    simp only [chunkLoop]
    split
    · have hfl : hasChunk (FLAG_CHUNK + if d.trunc = true then FLAG_PARTIAL else 0) = true := by
        cases d.trunc <;> decide
      apply ih
      · simp only [List.length_cons] at hb
        have : k + 1 + ds.length = k + (ds.length + 1) := by omega
        rw [this]; exact hb
      · apply runP_snoc hp
        simp only [pstep, hfl, if_true]
        have : k * DGRAM_MAX + DGRAM_MAX ≤ len := by
          simp only [List.length_cons] at hb
          have h1 : (k + 1) * DGRAM_MAX ≤ (k + (ds.length + 1)) * DGRAM_MAX := Nat.mul_le_mul_right _ (by omega)
          rw [Nat.add_mul] at h1; omega
        simp [this]
    · exact hp

theorem chunks_pos {len : Nat} (hlen : DGRAM_MAX ≤ len) : 1 ≤ min (len / DGRAM_MAX) 20 := by
  have : 1 ≤ len / DGRAM_MAX := (Nat.one_le_div_iff (by decide)).mpr hlen
  omega

theorem recvmmsg_nread (a len : Nat) (hlen : DGRAM_MAX ≤ len) (s : σ) (q : List RItem) :
    (recvmmsg u a len s q).nread = -1 ∨ 1 ≤ (recvmmsg u a len s q).nread := by
  have hk := kRecvmmsg_ok _ (chunks_pos hlen) q
  unfold recvmmsg
  generalize kRecvmmsg (min (len / DGRAM_MAX) 20) q = kr at hk
  match kr, hk with
  | (.err e, q'), _ => left; rfl
  | (.ok [], q'), hk => exact absurd rfl (hk [] rfl).1
  | (.ok (d :: ds), q'), _ =>
    right
    simp only [recvmmsgK]
    simp; omega

theorem recvmmsg_paired (a len : Nat) (hlen : DGRAM_MAX ≤ len) (p0 : PSt)
    (s : σ) (q : List RItem) (evs : List REv)
    (hp : runP p0 evs = some ⟨a + 1, .owed len⟩) :
    runP p0 (evs ++ (recvmmsg u a len s q).evs) = some ⟨a + 1, .idle⟩ := by
  have hk := kRecvmmsg_ok _ (chunks_pos hlen) q
  unfold recvmmsg
  generalize kRecvmmsg (min (len / DGRAM_MAX) 20) q = kr at hk
  match kr, hk with
  | (.err e, q'), _ =>
    apply runP_snoc hp
    simp [pstep, hasChunk, FLAG_CHUNK]
  | (.ok [], q'), hk => exact absurd rfl (hk [] rfl).1
  | (.ok (d :: ds), q'), hk =>
    have hl := (hk _ rfl).2
    have hb : (0 + (d :: ds).length) * DGRAM_MAX ≤ len := by
      rw [Nat.zero_add]
      have h1 : (d :: ds).length ≤ len / DGRAM_MAX := by omega
      have := Nat.mul_le_mul_right DGRAM_MAX h1
      have h2 := Nat.div_mul_le_self len DGRAM_MAX
      omega
    have hc := chunkLoop_paired u a len ⟨a + 1, .owed len⟩ (d :: ds) 0 s [] hb rfl
    simp only [recvmmsgK]
    rw [← List.append_assoc]
    apply runP_snoc (p := ⟨a + 1, .owed len⟩)
    · rw [runP_append, hp]; exact hc
    · simp [pstep, hasChunk, FLAG_CHUNK, FLAG_FREE]

/-- every alloc'd buffer is handed back exactly once; the loop stops within its fuel -/
theorem recvLoop_paired :
    ∀ (f a : Nat) (count : Int) (s : σ) (q : List RItem) (evs : List REv),
      runP ⟨0, .idle⟩ evs = some ⟨a, .idle⟩ →
      ∃ n, runP ⟨0, .idle⟩ (recvLoop u f a count s q evs).evs = some ⟨n, .idle⟩ := by
  intro f
  induction f with
  | zero => intro a count s q evs hp; exact ⟨a, hp⟩
  | succ f ih =>
    intro a count s q evs hp
    simp only [recvLoop]
    split
    · rename_i h0
      refine ⟨a + 1, ?_⟩
      apply runP_snoc (p := ⟨a + 1, .refused⟩)
      · apply runP_snoc hp; simp [pstep, h0]
      · simp [pstep]
    · rename_i h0
      have hp1 : runP ⟨0, .idle⟩ (evs ++ [.alloc (u.alloc s).2]) = some ⟨a + 1, .owed (u.alloc s).2⟩ := by
        apply runP_snoc hp; simp [pstep, h0]
      split
      · rename_i hm
        have hpm := recvmmsg_paired u a _ hm.2 ⟨0, .idle⟩ (u.alloc s).1 q _ hp1
        split
        · exact ih _ _ _ _ _ hpm
        · exact ⟨_, hpm⟩
      · have hp2 : runP ⟨0, .idle⟩ (evs ++ [.alloc (u.alloc s).2] ++
            [.cb (plainArgs ⟨a, 0, (u.alloc s).2⟩ (kRecvmsg q).1)]) = some ⟨a + 1, .idle⟩ := by
          apply runP_snoc hp1
          cases (kRecvmsg q).1 <;> simp [pstep, plainArgs, hasChunk, FLAG_CHUNK, FLAG_PARTIAL] <;>
            (split <;> simp)
        split
        · exact ⟨_, hp2⟩
        · split
          · exact ih _ _ _ _ _ hp2
          · exact ⟨_, hp2⟩

/-- the budget loop terminates: with fuel ≥ count the model never runs out of fuel -/
theorem recvLoop_terminates :
    ∀ (f a : Nat) (count : Int) (s : σ) (q : List RItem) (evs : List REv),
      0 < count → count ≤ f → (recvLoop u f a count s q evs).spun = false := by
  intro f
  induction f with
  | zero => intro a count s q evs h1 h2; omega
  | succ f ih =>
    intro a count s q evs h1 h2
    simp only [recvLoop]
    split
    · rfl
    · split
      · rename_i hm
        have hn := recvmmsg_nread u a _ hm.2 (u.alloc s).1 q
        split
        · rename_i hc
          apply ih
          · exact hc.2.1
          · unfold mmsgCount; split <;> omega
        · rfl
      · split
        · rfl
        · split
          · rename_i hc
            apply ih
            · exact hc.1
            · omega
          · rfl

@[simp] def isAlloc : REv → Bool
  | .alloc _ => true
  | _ => false

theorem chunkLoop_allocs (a : Nat) : ∀ (ds : List RDg) (k : Nat) (s : σ) (evs : List REv),
    (chunkLoop u a ds k s evs).2.countP isAlloc = evs.countP isAlloc := by
  intro ds
  induction ds with
  | nil => intros; rfl
  | cons d ds ih =>
    intro k s evs
    simp only [chunkLoop]
    split
    · rw [ih]; simp
    · rfl

theorem recvmmsg_allocs (a len : Nat) (s : σ) (q : List RItem) :
    (recvmmsg u a len s q).evs.countP isAlloc = 0 := by
  unfold recvmmsg
  generalize kRecvmmsg (min (len / DGRAM_MAX) 20) q = kr
  match kr with
  | (.err e, q') => simp [recvmmsgK]
  | (.ok [], q') => simp [recvmmsgK]
  | (.ok (d :: ds), q') =>
    have := chunkLoop_allocs u a (d :: ds) 0 s []
    simp only [recvmmsgK]
    simp_all

/-- at most `fuel` alloc_cb calls (= loop iterations) per invocation -/
theorem recvLoop_allocs :
    ∀ (f a : Nat) (count : Int) (s : σ) (q : List RItem) (evs : List REv),
      (recvLoop u f a count s q evs).evs.countP isAlloc ≤ evs.countP isAlloc + f := by
  intro f
  induction f with
  | zero => intros; simp [recvLoop]
  | succ f ih =>
    intro a count s q evs
    simp only [recvLoop]
    split
    · simp [List.countP_cons, List.countP_append]
    · split
      · have hm := recvmmsg_allocs u a (u.alloc s).2 (u.alloc s).1 q
        split
        · refine Nat.le_trans (ih _ _ _ _ _) ?_
          simp [List.countP_cons, List.countP_append, hm]; omega
        · simp [List.countP_cons, List.countP_append, hm]
      · split
        · simp [List.countP_cons, List.countP_append]
        · split
          · refine Nat.le_trans (ih _ _ _ _ _) ?_
            simp [List.countP_cons, List.countP_append]; omega
          · simp [List.countP_cons, List.countP_append]
end

end UvModel.Udp

/-! ## handle invariants -/
namespace UvModel.Udp

/-- requests still owed a callback, oldest first: completed queue then write queue -/
def H.owed (s : H) : List Dgram := s.cq.map (·.1) ++ s.wq

structure Inv (s : H) : Prop where
  count : s.sqCount = s.owed.length
  size : s.sqSize = ((s.owed.map Dgram.bytes).sum : Nat)
  reqs : s.activeReqs = s.owed.length
  part : s.accepted.map (·.seq) = s.cbs.map (·.1) ++ s.owed.map (·.seq)
  sub : (s.wire ++ s.wq).Sublist s.submitted
  seqs : s.submitted.map (·.seq) = List.range s.nseq
  acc : s.accepted.Sublist s.submitted

theorem sendmsgv_nonneg (all : List Dgram) (outs : List SOut) (h : (sendmsgv all outs).ret ≥ 0) :
    wireOf (sendmsgv all outs).log = all.take (sendmsgv all outs).ret.toNat
    ∧ (sendmsgv all outs).ret.toNat ≤ all.length := by
  have hs := sendmsgv_spec all outs
  by_cases h0 : (sendmsgv all outs).ret > 0
  · have := hs.1 h0; exact ⟨this.1, by omega⟩
  · have hz : (sendmsgv all outs).ret = 0 := by omega
    have := hs.2 (by omega)
    simp [this, hz]

theorem sendmsgv_neg (all : List Dgram) (outs : List SOut) (h : (sendmsgv all outs).ret < 0) :
    wireOf (sendmsgv all outs).log = [] := (sendmsgv_spec all outs).2 (by omega)

@[simp] theorem cbs_emit_ret (s : H) (r : Int) : (emit s (.ret r)).cbs = s.cbs := by simp [emit, H.cbs]
@[simp] theorem cbs_emit_skipped (s : H) : (emit s .skipped).cbs = s.cbs := by simp [emit, H.cbs]
@[simp] theorem cbs_emit_close (s : H) : (emit s .closeCb).cbs = s.cbs := by simp [emit, H.cbs]
@[simp] theorem cbs_emit_alloc (s : H) (k l : Nat) : (emit s (.alloc k l)).cbs = s.cbs := by simp [emit, H.cbs]
@[simp] theorem cbs_emit_recv (s : H) (n : Int) (b : Option BufRef) (p f : Nat) :
    (emit s (.recvCb n b p f)).cbs = s.cbs := by simp [emit, H.cbs]
@[simp] theorem cbs_emit_send (s : H) (q : Nat) (st : Int) : (emit s (.sendCb q st)).cbs = s.cbs ++ [(q, st)] := by
  simp [emit, H.cbs]

/-- Inv only depends on these fields -/
theorem Inv.of_eq {s t : H} (h : Inv s)
    (h1 : t.sqCount = s.sqCount) (h2 : t.sqSize = s.sqSize) (h3 : t.activeReqs = s.activeReqs)
    (h4 : t.accepted = s.accepted) (h5 : t.cbs = s.cbs) (h6 : t.cq = s.cq) (h7 : t.wq = s.wq)
    (h8 : t.klog = s.klog) (h9 : t.submitted = s.submitted) (h10 : t.nseq = s.nseq) : Inv t := by
  obtain ⟨a, b, c, d, e, f, g⟩ := h
  constructor <;> simp only [H.owed, H.wire, h1, h2, h3, h4, h5, h6, h7, h8, h9, h10] at * <;> assumption

theorem inv_emit {s : H} (h : Inv s) (e : Ev) (he : ∀ q st, e ≠ .sendCb q st) : Inv (emit s e) := by
  apply h.of_eq <;> try rfl
  cases e <;> simp_all

theorem sendmsgAgain_inv (f : Nat) (s : H) (h : Inv s) : Inv (sendmsgAgain f s) := by
  induction f generalizing s with
  | zero => exact h
  | succ f ih =>
    simp only [sendmsgAgain]
    split
    · rename_i hret
      have hv := sendmsgv_nonneg (s.wq.take 20) s.souts hret
      generalize sendmsgv (s.wq.take 20) s.souts = v at hv hret
      have hn : v.ret.toNat ≤ 20 ∧ v.ret.toNat ≤ s.wq.length := by
        have := hv.2; simp at this; omega
      have key : Inv { s with souts := v.outs, klog := s.klog ++ v.log,
                              cq := s.cq ++ (s.wq.take v.ret.toNat).map (fun d => (d, (d.bytes : Int))),
                              wq := s.wq.drop v.ret.toNat } := by
        obtain ⟨a, b, c, d, e, g, i⟩ := h
        have ho : (s.cq ++ (s.wq.take v.ret.toNat).map (fun d => (d, (d.bytes : Int)))).map (·.1)
            ++ s.wq.drop v.ret.toNat = s.cq.map (·.1) ++ s.wq := by
          simp [List.map_append, List.map_map, Function.comp_def, List.append_assoc]
        constructor <;> simp only [H.owed, H.wire, H.cbs] at * <;> try (rw [ho]; assumption)
        · rw [wireOf_append, hv.1, List.take_take]
          have : min v.ret.toNat 20 = v.ret.toNat := by omega
          rw [this, List.append_assoc, List.take_append_drop]; exact e
        · exact g
        · exact i
      split
      · exact key.of_eq rfl rfl rfl rfl rfl rfl rfl rfl rfl rfl
      · exact ih _ key
    · rename_i hret
      have hv := sendmsgv_neg (s.wq.take 20) s.souts (by omega)
      generalize sendmsgv (s.wq.take 20) s.souts = v at hv hret
      have key : Inv { s with souts := v.outs, klog := s.klog ++ v.log } := by
        obtain ⟨a, b, c, d, e, g, i⟩ := h
        constructor <;> simp only [H.owed, H.wire, H.cbs] at * <;> try assumption
        rw [wireOf_append, hv]; simpa using e
      split
      · exact key
      · split
        · exact key
        · rename_i d rest hwq
          obtain ⟨a, b, c, d', e, g, i⟩ := key
          have ho : (s.cq ++ [(d, v.ret)]).map (·.1) ++ rest = s.cq.map (·.1) ++ d :: rest := by simp
          simp only [H.owed, H.wire, H.cbs, hwq] at a b c d' e g i
          refine ⟨?_, ?_, ?_, ?_, ?_, ?_, ?_⟩ <;> simp only [H.owed, H.wire, H.cbs, feed]
          · rw [ho]; exact a
          · rw [ho]; exact b
          · rw [ho]; exact c
          · rw [ho]; exact d'
          · exact (List.Sublist.append_left (List.sublist_cons_self d rest) _).trans e
          · exact g
          · exact i

theorem uvSendmsg_inv (s : H) (h : Inv s) : Inv (uvSendmsg s) := by
  unfold uvSendmsg; split
  · exact h
  · exact sendmsgAgain_inv _ _ h

/-- a new datagram enters `submitted` (every send / try_send call) -/
theorem inv_submit {s : H} (h : Inv s) (ds : List Dgram) (hd : ds.map (·.seq) = (List.range ds.length).map (s.nseq + ·)) :
    Inv { s with nseq := s.nseq + ds.length, submitted := s.submitted ++ ds } := by
  obtain ⟨a, b, c, d, e, g, i⟩ := h
  refine ⟨a, b, c, d, ?_, ?_, ?_⟩
  · exact e.trans (List.sublist_append_left _ _)
  · show List.map _ (s.submitted ++ ds) = _
    rw [List.map_append, g, hd, List.range_add]
  · exact i.trans (List.sublist_append_left _ _)

theorem mkDgrams_seq (n c : Nat) (b : List Nat) (d : Nat) :
    (mkDgrams n c b d).map (·.seq) = (List.range (mkDgrams n c b d).length).map (n + ·) := by
  simp [mkDgrams, List.map_map, Function.comp_def]

theorem owed_nil_of_count {s : H} (h : Inv s) (h0 : s.sqCount = 0) : s.wq = [] ∧ s.cq = [] := by
  have := h.count; rw [h0] at this
  have hl : s.owed.length = 0 := by omega
  have := List.eq_nil_of_length_eq_zero hl
  simp [H.owed] at this; exact ⟨this.2, this.1⟩

theorem udpSend_inv (s : H) (d : Dgram) (en : Bool) (h : Inv s) (hd : d.seq = s.nseq) :
    Inv (udpSend { s with nseq := s.nseq + 1, submitted := s.submitted ++ [d] } d en).1 := by
  have h1 : Inv { s with nseq := s.nseq + 1, submitted := s.submitted ++ [d] } :=
    inv_submit h [d] (by simp [hd])
  unfold udpSend
  simp only
  split
  · apply h1.of_eq <;> try rfl
    show s.activeReqs + 1 - 1 = s.activeReqs; omega
  · have key : Inv { s with nseq := s.nseq + 1, submitted := s.submitted ++ [d], activeReqs := s.activeReqs + 1,
                             sqSize := s.sqSize + d.bytes, sqCount := s.sqCount + 1, wq := s.wq ++ [d],
                             active := true, accepted := s.accepted ++ [d] } := by
      obtain ⟨a, b, c, d', e, g, i⟩ := h
      obtain ⟨_, _, _, _, _, g1, _⟩ := h1
      have ho : s.cq.map (·.1) ++ (s.wq ++ [d]) = (s.cq.map (·.1) ++ s.wq) ++ [d] := by simp
      simp only [H.owed, H.wire, H.cbs] at a b c d' e g i g1
      refine ⟨?_, ?_, ?_, ?_, ?_, g1, ?_⟩ <;> simp only [H.owed, H.wire, H.cbs]
      · rw [ho, List.length_append, a]; simp
      · rw [ho, List.map_append, List.sum_append, b]; simp
      · rw [ho, List.length_append, c]; simp
      · rw [ho, List.map_append, List.map_append, d']; simp
      · rw [← List.append_assoc]; exact e.append (List.Sublist.refl _)
      · exact i.append (List.Sublist.refl _)
    split
    · have k2 := uvSendmsg_inv _ key
      split
      · exact k2.of_eq rfl rfl rfl rfl rfl rfl rfl rfl rfl rfl
      · exact k2
    · exact key.of_eq rfl rfl rfl rfl rfl rfl rfl rfl rfl rfl

theorem applyOp_inv (s : H) (op : Op) (h : Inv s) : Inv (applyOp s op) := by
  unfold applyOp
  split
  · exact inv_emit h _ (by intros; simp)
  · cases op with
    | send bufs dest en =>
      simp only
      have h1 : Inv { s with nseq := s.nseq + 1, submitted := s.submitted ++ [⟨s.nseq, bufs, dest⟩] } :=
        inv_submit h [⟨s.nseq, bufs, dest⟩] (by simp)
      split
      · exact inv_emit h1 _ (by intros; simp)
      · have := udpSend_inv s ⟨s.nseq, bufs, dest⟩ en h rfl
        generalize udpSend _ _ _ = r at this
        exact inv_emit this _ (by intros; simp)
    | trySend bufs dest =>
      simp only
      have h1 : Inv { s with nseq := s.nseq + 1, submitted := s.submitted ++ [⟨s.nseq, bufs, dest⟩] } :=
        inv_submit h [⟨s.nseq, bufs, dest⟩] (by simp)
      split
      · exact inv_emit h1 _ (by intros; simp)
      · split
        · exact inv_emit h1 _ (by intros; simp)
        · split
          · exact inv_emit h1 _ (by intros; simp)
          · rename_i hq
            have hq0 : s.sqCount = 0 := by simpa using hq
            obtain ⟨hwq, _⟩ := owed_nil_of_count h hq0
            apply inv_emit _ _ (by intros; simp)
            obtain ⟨a, b, c, d', e, g, i⟩ := h
            obtain ⟨_, _, _, _, _, g1, i1⟩ := h1
            simp only [H.owed, H.wire, H.cbs, hwq, List.append_nil] at a b c d' e g i g1 i1
            refine ⟨?_, ?_, ?_, ?_, ?_, g1, i1⟩ <;> simp only [H.owed, H.wire, H.cbs, hwq, List.append_nil]
            · exact a
            · exact b
            · exact c
            · exact d'
            · rw [wireOf_append]
              rcases sendmsg1_spec ⟨s.nseq, bufs, dest⟩ s.souts with ⟨_, hw⟩ | ⟨_, hw⟩
              · rw [hw]; exact e.append (List.Sublist.refl _)
              · rw [hw, List.append_nil]; exact e.trans (List.sublist_append_left _ _)
    | trySend2 count bufs dest =>
      simp only
      have hlen : (mkDgrams s.nseq count bufs dest).length = count := by simp [mkDgrams]
      have h1 : Inv { s with nseq := s.nseq + count, submitted := s.submitted ++ mkDgrams s.nseq count bufs dest } := by
        have := inv_submit h (mkDgrams s.nseq count bufs dest) (mkDgrams_seq _ _ _ _)
        rw [hlen] at this; exact this
      split
      · exact inv_emit h1 _ (by intros; simp)
      · split
        · exact inv_emit h1 _ (by intros; simp)
        · rename_i hq
          split
          · exact inv_emit h1 _ (by intros; simp)
          · have hq0 : s.sqCount = 0 := by
              have := h.count; simp only [gt_iff_lt, Int.not_lt] at hq; omega
            obtain ⟨hwq, _⟩ := owed_nil_of_count h hq0
            apply inv_emit _ _ (by intros; simp)
            obtain ⟨a, b, c, d', e, g, i⟩ := h
            obtain ⟨_, _, _, _, _, g1, i1⟩ := h1
            simp only [H.owed, H.wire, H.cbs, hwq, List.append_nil] at a b c d' e g i g1 i1
            refine ⟨?_, ?_, ?_, ?_, ?_, g1, i1⟩ <;> simp only [H.owed, H.wire, H.cbs, hwq, List.append_nil]
            · exact a
            · exact b
            · exact c
            · exact d'
            · rw [wireOf_append]
              have hs := sendmsgv_spec (mkDgrams s.nseq count bufs dest) s.souts
              by_cases hp : (sendmsgv (mkDgrams s.nseq count bufs dest) s.souts).ret > 0
              · rw [(hs.1 hp).1]; exact e.append (List.take_sublist _ _)
              · rw [hs.2 (by omega), List.append_nil]; exact e.trans (List.sublist_append_left _ _)
    | recvStart =>
      simp only
      split
      · exact inv_emit h _ (by intros; simp)
      · apply inv_emit _ _ (by intros; simp)
        exact h.of_eq rfl rfl rfl rfl rfl rfl rfl rfl rfl rfl
    | recvStop =>
      simp only
      apply inv_emit _ _ (by intros; simp)
      exact h.of_eq rfl rfl rfl rfl rfl rfl rfl rfl rfl rfl
    | close =>
      simp only
      exact h.of_eq rfl rfl rfl rfl rfl rfl rfl rfl rfl rfl

theorem applyOps_inv (ops : List Op) (s : H) (h : Inv s) : Inv (applyOps s ops) := by
  induction ops generalizing s with
  | nil => exact h
  | cons op ops ih => exact ih _ (applyOp_inv s op h)

theorem inv_pop {s : H} (h : Inv s) {d : Dgram} {st : Int} {rest : List (Dgram × Int)}
    (hcq : s.cq = (d, st) :: rest) (st' : Int) :
    Inv (emit { s with cq := rest, activeReqs := s.activeReqs - 1, sqSize := s.sqSize - d.bytes,
                       sqCount := s.sqCount - 1, nSendCb := s.nSendCb + 1 } (.sendCb d.seq st')) := by
  obtain ⟨a, b, c, d', e, g, i⟩ := h
  simp only [H.owed, H.wire, hcq, List.map_cons, List.cons_append, List.length_cons, List.sum_cons] at a b c d' e g i
  refine ⟨?_, ?_, ?_, ?_, e, g, i⟩ <;> simp only [H.owed, H.wire, cbs_emit_send] <;> simp only [emit]
  · rw [a]; simp
  · rw [b]; simp; omega
  · rw [c]; simp
  · rw [d']; simp [H.cbs]

theorem runCompletedLoop_inv (sc : Script) (f : Nat) (s : H) (h : Inv s) : Inv (runCompletedLoop sc f s) := by
  induction f generalizing s with
  | zero => exact h
  | succ f ih =>
    simp only [runCompletedLoop]
    split
    · exact h
    · rename_i d st rest hcq
      apply ih
      apply applyOps_inv
      exact inv_pop h hcq _

theorem runCompleted_inv (sc : Script) (s : H) (h : Inv s) : Inv (runCompleted sc s) := by
  unfold runCompleted
  simp only
  have h1 : Inv { s with processing := true } := h.of_eq rfl rfl rfl rfl rfl rfl rfl rfl rfl rfl
  have h2 := runCompletedLoop_inv sc s.cq.length _ h1
  split <;> exact h2.of_eq rfl rfl rfl rfl rfl rfl rfl rfl rfl rfl

theorem ioOut_inv (sc : Script) (s : H) (h : Inv s) : Inv (ioOut sc s) := by
  unfold ioOut; split
  · exact runCompleted_inv _ _ (uvSendmsg_inv _ h)
  · exact h

theorem finishClose_inv (sc : Script) (s : H) (h : Inv s) : Inv (finishClose sc s) := by
  unfold finishClose; split
  · exact h
  · simp only
    apply inv_emit _ _ (by intros; simp)
    refine (runCompleted_inv sc _ ?_).of_eq rfl rfl rfl rfl rfl rfl rfl rfl rfl rfl
    obtain ⟨a, b, c, d', e, g, i⟩ := h
    have ho : (s.cq ++ s.wq.map (fun d => (d, UV_ECANCELED))).map (·.1) ++ [] = s.cq.map (·.1) ++ s.wq := by
      simp [List.map_map, Function.comp_def]
    simp only [H.owed, H.wire, H.cbs] at a b c d' e g i
    refine ⟨?_, ?_, ?_, ?_, ?_, g, i⟩ <;> simp only [H.owed, H.wire, H.cbs]
    · rw [ho]; exact a
    · rw [ho]; exact b
    · rw [ho]; exact c
    · rw [ho]; exact d'
    · rw [List.append_nil]; exact (List.sublist_append_left _ _).trans e

section
variable {σ : Type} (u : RecvUser σ) (P : σ → Prop)
  (hcb : ∀ s a, P s → P (u.cb s a)) (hal : ∀ s, P s → P (u.alloc s).1)
include hcb hal

theorem chunkLoop_pres (a : Nat) : ∀ (ds : List RDg) (k : Nat) (s : σ) (evs : List REv), P s →
    P (chunkLoop u a ds k s evs).1 := by
  intro ds
  induction ds with
  | nil => intro _ _ _ h; exact h
  | cons d ds ih =>
    intro k s evs h
    simp only [chunkLoop]; split
    · exact ih _ _ _ (hcb _ _ h)
    · exact h

theorem recvmmsg_pres (a len : Nat) (s : σ) (q : List RItem) (h : P s) : P (recvmmsg u a len s q).s := by
  unfold recvmmsg
  generalize kRecvmmsg (min (len / DGRAM_MAX) 20) q = kr
  match kr with
  | (.err e, q') => exact hcb _ _ h
  | (.ok [], q') => exact hcb _ _ h
  | (.ok (d :: ds), q') =>
    have := chunkLoop_pres u P hcb hal a (d :: ds) 0 s [] h
    simp only [recvmmsgK]
    exact hcb _ _ this

theorem recvLoop_pres : ∀ (f a : Nat) (count : Int) (s : σ) (q : List RItem) (evs : List REv), P s →
    P (recvLoop u f a count s q evs).s := by
  intro f
  induction f with
  | zero => intro _ _ _ _ _ h; exact h
  | succ f ih =>
    intro a count s q evs h
    have ha := hal s h
    simp only [recvLoop]
    split
    · exact hcb _ _ ha
    · split
      · have hm := recvmmsg_pres u P hcb hal a (u.alloc s).2 (u.alloc s).1 q ha
        split
        · exact ih _ _ _ _ _ hm
        · exact hm
      · have hc := hcb (u.alloc s).1 (plainArgs ⟨a, 0, (u.alloc s).2⟩ (kRecvmsg q).1) ha
        split
        · exact hc
        · split
          · exact ih _ _ _ _ _ hc
          · exact hc
end

theorem ioIn_inv (sc : Script) (s : H) (q : List RItem) (h : Inv s) : Inv (ioIn sc s q).1 := by
  unfold ioIn; split
  · apply recvLoop_pres (hUser sc) Inv
    · intro s a hs
      apply applyOps_inv
      apply inv_emit _ _ (by intros; simp)
      exact hs.of_eq rfl rfl rfl rfl rfl rfl rfl rfl rfl rfl
    · intro s hs
      show Inv (emit _ _)
      apply inv_emit _ _ (by intros; simp)
      exact hs.of_eq rfl rfl rfl rfl rfl rfl rfl rfl rfl rfl
    · exact h
  · exact h

theorem pendingRounds_inv (sc : Script) (n : Nat) (s : H) (h : Inv s) : Inv (pendingRounds sc n s) := by
  induction n generalizing s with
  | zero => exact h
  | succ n ih =>
    simp only [pendingRounds]; split
    · exact ih _ (ioOut_inv _ _ (h.of_eq rfl rfl rfl rfl rfl rfl rfl rfl rfl rfl))
    · exact h

theorem uvRun_inv (sc : Script) (s : H) (q : List RItem) (h : Inv s) : Inv (uvRun sc s q).1 := by
  unfold uvRun
  simp only
  have h1 := pendingRounds_inv sc 1 s h
  generalize pendingRounds sc 1 s = s1 at h1
  apply finishClose_inv
  apply pendingRounds_inv
  have h2 : Inv (if s1.pollin = true then ioIn sc s1 q else (s1, q, false)).1 := by
    split
    · exact ioIn_inv _ _ _ h1
    · exact h1
  split
  · exact ioOut_inv _ _ h2
  · exact h2

theorem inv_init (c m : Bool) : Inv { connected := c, mmsg := m } := by
  refine ⟨?_, ?_, ?_, ?_, ?_, ?_, ?_⟩ <;> simp [H.owed, H.wire, H.cbs, wireOf]

end UvModel.Udp

/-! ## recv_payload_exact -/
namespace UvModel.Udp

def dgsOf (q : List RItem) : List RDg := q.filterMap fun | .dg d => some d | _ => none
/-- recv_cb calls that carry a datagram (addr != NULL) -/
def deliveries (evs : List REv) : List CbArgs :=
  evs.filterMap fun | .cb a => if a.peer ≠ 0 then some a else none | _ => none

/-- the callback arguments report datagram d as the kernel did -/
def Rel (a : CbArgs) (d : RDg) : Prop :=
  a.peer = d.peer ∧ (a.flags / FLAG_PARTIAL % 2 = 1 ↔ d.trunc = true) ∧ ∃ b, a.buf = some b ∧ a.nread = min d.len b.len

def allRel : List CbArgs → List RDg → Prop
  | [], [] => True
  | a :: as, d :: ds => Rel a d ∧ allRel as ds
  | _, _ => False

theorem allRel_append {a1 a2 : List CbArgs} {d1 d2 : List RDg} (h1 : allRel a1 d1) (h2 : allRel a2 d2) :
    allRel (a1 ++ a2) (d1 ++ d2) := by
  induction a1 generalizing d1 with
  | nil => cases d1 with
    | nil => simpa using h2
    | cons _ _ => simp [allRel] at h1
  | cons a as ih => cases d1 with
    | nil => simp [allRel] at h1
    | cons d ds => exact ⟨h1.1, ih h1.2⟩

theorem allRel_zip {as : List CbArgs} {ds : List RDg} (h : allRel as ds) :
    as.length = ds.length ∧ ∀ p ∈ as.zip ds, Rel p.1 p.2 := by
  induction as generalizing ds with
  | nil => cases ds with
    | nil => simp
    | cons _ _ => simp [allRel] at h
  | cons a as ih => cases ds with
    | nil => simp [allRel] at h
    | cons d ds =>
      obtain ⟨h1, h2⟩ := ih h.2
      refine ⟨by simp [h1], ?_⟩
      intro p hp
      simp only [List.zip_cons_cons, List.mem_cons] at hp
      rcases hp with rfl | hp
      · exact h.1
      · exact h2 p hp

@[simp] theorem dgsOf_append (a b : List RItem) : dgsOf (a ++ b) = dgsOf a ++ dgsOf b := by simp [dgsOf]
@[simp] theorem deliveries_append (a b : List REv) : deliveries (a ++ b) = deliveries a ++ deliveries b := by
  simp [deliveries]

/-- what recvmsg consumed: skipped markers and at most one datagram -/
theorem kRecvmsg_consumed (q : List RItem) :
    ∃ pre, q = pre ++ (kRecvmsg q).2 ∧
      ((∃ d, (kRecvmsg q).1 = .ok [d] ∧ dgsOf pre = [d]) ∨ ((kRecvmsg q).1.isErr = true ∧ dgsOf pre = [])) := by
  induction q with
  | nil => exact ⟨[], rfl, Or.inr ⟨rfl, rfl⟩⟩
  | cons it t ih =>
    obtain ⟨pre, hq, hr⟩ := ih
    cases it with
    | brk =>
      refine ⟨.brk :: pre, by simp [kRecvmsg, ← hq], ?_⟩
      simpa [kRecvmsg, dgsOf] using hr
    | err e =>
      simp only [kRecvmsg]
      split
      · refine ⟨.err e :: pre, by simp [← hq], ?_⟩
        simpa [dgsOf] using hr
      · exact ⟨[.err e], rfl, Or.inr ⟨rfl, rfl⟩⟩
    | dg d => exact ⟨[.dg d], rfl, Or.inl ⟨d, rfl, rfl⟩⟩

theorem takeDgs_consumed (n : Nat) (q : List RItem) : q = (takeDgs n q).1.map .dg ++ (takeDgs n q).2 := by
  induction n generalizing q with
  | zero => simp [takeDgs]
  | succ n ih =>
    match q with
    | [] => simp [takeDgs]
    | .dg d :: t => simp only [takeDgs, List.map_cons, List.cons_append]; rw [← ih t]
    | .err e :: t => simp [takeDgs]
    | .brk :: t => simp [takeDgs]

theorem dgsOf_map_dg (ds : List RDg) : dgsOf (ds.map .dg) = ds := by
  induction ds with
  | nil => rfl
  | cons d ds ih => simp [dgsOf] at ih ⊢; exact ih

theorem kRecvmmsg_consumed (vlen : Nat) (hv : 1 ≤ vlen) (q : List RItem) :
    ∃ pre, q = pre ++ (kRecvmmsg vlen q).2 ∧
      ((∃ ds, (kRecvmmsg vlen q).1 = .ok ds ∧ dgsOf pre = ds) ∨ ((kRecvmmsg vlen q).1.isErr = true ∧ dgsOf pre = [])) := by
  have hv0 : vlen ≠ 0 := by omega
  induction q with
  | nil => exact ⟨[], by simp [kRecvmmsg, hv0], Or.inr ⟨by simp [kRecvmmsg, hv0, KRecv.isErr], rfl⟩⟩
  | cons it t ih =>
    obtain ⟨pre, hq, hr⟩ := ih
    cases it with
    | brk =>
      refine ⟨.brk :: pre, by simp [kRecvmmsg, ← hq], ?_⟩
      simpa [kRecvmmsg, dgsOf] using hr
    | err e =>
      simp only [kRecvmmsg, hv0, if_false]
      split
      · refine ⟨.err e :: pre, by simp [← hq], ?_⟩
        simpa [dgsOf] using hr
      · exact ⟨[.err e], rfl, Or.inr ⟨rfl, rfl⟩⟩
    | dg d =>
      simp only [kRecvmmsg]
      refine ⟨(takeDgs vlen (.dg d :: t)).1.map .dg, takeDgs_consumed _ _, Or.inl ⟨_, rfl, dgsOf_map_dg _⟩⟩

section
variable {σ : Type} (u : RecvUser σ)

/-- the user does not call uv_udp_recv_stop from inside a UV_UDP_MMSG_CHUNK callback (if it does, the rest of
the batch already read from the kernel is dropped — accepted behaviour) -/
def NoStopInChunk : Prop := ∀ s a, hasChunk a.flags = true → u.recvSet s = true → u.recvSet (u.cb s a) = true
/-- alloc_cb does not stop the handle (libuv would call a NULL recv_cb) -/
def AllocKeeps : Prop := ∀ s, u.recvSet (u.alloc s).1 = u.recvSet s

theorem flag_chunk_partial (t : Bool) :
    (FLAG_CHUNK + (if t = true then FLAG_PARTIAL else 0)) / FLAG_PARTIAL % 2 = 1 ↔ t = true := by cases t <;> decide
theorem flag_partial (t : Bool) : (if t = true then FLAG_PARTIAL else 0) / FLAG_PARTIAL % 2 = 1 ↔ t = true := by
  cases t <;> decide

theorem rel_chunk (a k : Nat) (d : RDg) :
    Rel ⟨min d.len DGRAM_MAX, some ⟨a, k * DGRAM_MAX, DGRAM_MAX⟩, d.peer,
         FLAG_CHUNK + (if d.trunc then FLAG_PARTIAL else 0)⟩ d := by
  refine ⟨rfl, ?_, _, rfl, ?_⟩
  · exact flag_chunk_partial d.trunc
  · show min (d.len : Int) (DGRAM_MAX : Int) = ((min d.len DGRAM_MAX : Nat) : Int); omega

theorem chunkLoop_deliv (hC : NoStopInChunk u) (a : Nat) :
    ∀ (ds : List RDg) (k : Nat) (s : σ) (evs : List REv), (∀ d ∈ ds, d.peer ≠ 0) → u.recvSet s = true →
      ∃ new, (chunkLoop u a ds k s evs).2 = evs ++ new ∧ allRel (deliveries new) ds := by
  intro ds
  induction ds with
  | nil => intro k s evs _ _; exact ⟨[], by simp [chunkLoop], trivial⟩
  | cons d ds ih =>
    intro k s evs hp hs
    have hpd : d.peer ≠ 0 := hp d (List.mem_cons_self ..)
    have hfl : hasChunk (FLAG_CHUNK + if d.trunc = true then FLAG_PARTIAL else 0) = true := by
      cases d.trunc <;> decide
    generalize hargs : (⟨min d.len DGRAM_MAX, some ⟨a, k * DGRAM_MAX, DGRAM_MAX⟩, d.peer,
        FLAG_CHUNK + (if d.trunc then FLAG_PARTIAL else 0)⟩ : CbArgs) = args
    have hstep : chunkLoop u a (d :: ds) k s evs = chunkLoop u a ds (k + 1) (u.cb s args) (evs ++ [.cb args]) := by
      simp [chunkLoop, hs, ← hargs]
    rw [hstep]
    obtain ⟨new, h1, h2⟩ := ih (k + 1) (u.cb s args) (evs ++ [.cb args])
      (fun x hx => hp x (List.mem_cons_of_mem _ hx)) (hC s args (by rw [← hargs]; exact hfl) hs)
    refine ⟨.cb args :: new, by rw [h1]; simp, ?_⟩
    have hpa : args.peer ≠ 0 := by rw [← hargs]; exact hpd
    have : deliveries (.cb args :: new) = args :: deliveries new := by simp [deliveries, hpa]
    rw [this]
    exact ⟨by rw [← hargs]; exact rel_chunk a k d, h2⟩

theorem recvmmsg_deliv (hC : NoStopInChunk u) (a len : Nat) (hlen : DGRAM_MAX ≤ len) (s : σ) (q : List RItem)
    (hs : u.recvSet s = true) (hq : ∀ d ∈ dgsOf q, d.peer ≠ 0) :
    ∃ pre, q = pre ++ (recvmmsg u a len s q).q ∧ allRel (deliveries (recvmmsg u a len s q).evs) (dgsOf pre) := by
  obtain ⟨pre, hpre, hr⟩ := kRecvmmsg_consumed _ (chunks_pos hlen) q
  unfold recvmmsg
  generalize kRecvmmsg (min (len / DGRAM_MAX) 20) q = kr at hpre hr
  have hsub : ∀ d ∈ dgsOf pre, d.peer ≠ 0 := by
    intro d hd; apply hq; rw [hpre]; simp [hd]
  match kr, hpre, hr with
  | (.err e, q'), hpre, hr =>
    rcases hr with ⟨ds, h, _⟩ | ⟨_, h⟩
    · simp at h
    · exact ⟨pre, hpre, by simp [recvmmsgK, deliveries, h, allRel]⟩
  | (.ok [], q'), hpre, hr =>
    rcases hr with ⟨ds, h, h2⟩ | ⟨h, _⟩
    · simp only [KRecv.ok.injEq] at h
      exact ⟨pre, hpre, by simp [recvmmsgK, deliveries, h2, ← h, allRel]⟩
    · simp [KRecv.isErr] at h
  | (.ok (d :: ds), q'), hpre, hr =>
    rcases hr with ⟨ds', h, h2⟩ | ⟨h, _⟩
    · simp only [KRecv.ok.injEq] at h
      subst h
      obtain ⟨new, h1, h3⟩ := chunkLoop_deliv u hC a (d :: ds) 0 s [] (by rw [← h2]; exact hsub) hs
      refine ⟨pre, hpre, ?_⟩
      simp only [recvmmsgK, h1, List.nil_append, deliveries_append]
      rw [h2]
      simpa [deliveries] using h3
    · simp [KRecv.isErr] at h

theorem rel_plain (a len : Nat) (d : RDg) : Rel (plainArgs ⟨a, 0, len⟩ (.ok [d])) d := by
  refine ⟨rfl, ?_, _, rfl, ?_⟩
  · exact flag_partial d.trunc
  · show min (d.len : Int) (len : Int) = ((min d.len len : Nat) : Int); omega

theorem recvLoop_deliv (hC : NoStopInChunk u) (hA : AllocKeeps u) (Q : List RItem) (hQ : ∀ d ∈ dgsOf Q, d.peer ≠ 0) :
    ∀ (f a : Nat) (count : Int) (s : σ) (q : List RItem) (evs : List REv), u.recvSet s = true →
      (∃ pre, Q = pre ++ q ∧ allRel (deliveries evs) (dgsOf pre)) →
      ∃ pre, Q = pre ++ (recvLoop u f a count s q evs).q
        ∧ allRel (deliveries (recvLoop u f a count s q evs).evs) (dgsOf pre) := by
  intro f
  induction f with
  | zero => intro a count s q evs _ h; exact h
  | succ f ih =>
    intro a count s q evs hs ⟨pre, hpre, hrel⟩
    have hs' : u.recvSet (u.alloc s).1 = true := by rw [hA]; exact hs
    have hqd : ∀ d ∈ dgsOf q, d.peer ≠ 0 := by
      intro d hd; apply hQ; rw [hpre]; simp [hd]
    simp only [recvLoop]
    split
    · exact ⟨pre, hpre, by simpa [deliveries] using hrel⟩
    · split
      · rename_i hm
        obtain ⟨pre2, h1, h2⟩ := recvmmsg_deliv u hC a _ hm.2 (u.alloc s).1 q hs' hqd
        have hnew : ∃ pre', Q = pre' ++ (recvmmsg u a (u.alloc s).2 (u.alloc s).1 q).q ∧
            allRel (deliveries (evs ++ [.alloc (u.alloc s).2] ++ (recvmmsg u a (u.alloc s).2 (u.alloc s).1 q).evs))
              (dgsOf pre') := by
          refine ⟨pre ++ pre2, by rw [List.append_assoc, ← h1]; exact hpre, ?_⟩
          rw [deliveries_append, dgsOf_append]
          exact allRel_append (by simpa [deliveries] using hrel) h2
        split
        · rename_i hc
          exact ih _ _ _ _ _ (by simpa using hc.2.2.2) hnew
        · exact hnew
      · obtain ⟨pre2, h1, h2⟩ := kRecvmsg_consumed q
        have hnew : ∃ pre', Q = pre' ++ (kRecvmsg q).2 ∧
            allRel (deliveries (evs ++ [.alloc (u.alloc s).2] ++
              [.cb (plainArgs ⟨a, 0, (u.alloc s).2⟩ (kRecvmsg q).1)])) (dgsOf pre') := by
          refine ⟨pre ++ pre2, by rw [List.append_assoc, ← h1]; exact hpre, ?_⟩
          rw [deliveries_append, dgsOf_append]
          apply allRel_append (by simpa [deliveries] using hrel)
          rcases h2 with ⟨d, hk, hd⟩ | ⟨hk, hd⟩
          · have hpd : d.peer ≠ 0 := by
              apply hqd; rw [h1]; simp [hd]
            rw [hk, hd]
            have : (plainArgs ⟨a, 0, (u.alloc s).2⟩ (.ok [d])).peer = d.peer := rfl
            simp only [deliveries, List.filterMap_cons, List.filterMap_nil, this, hpd, ne_eq, not_false_eq_true, if_true]
            exact ⟨rel_plain a _ d, trivial⟩
          · rw [hd]
            cases hres : (kRecvmsg q).1 with
            | ok ds => rw [hres] at hk; simp [KRecv.isErr] at hk
            | err e => simp [deliveries, plainArgs, allRel]
        split
        · exact hnew
        · split
          · rename_i hc
            exact ih _ _ _ _ _ (by simpa using hc.2.2) hnew
          · exact hnew
end

end UvModel.Udp

/-! ## send_cb status -/
namespace UvModel.Udp

theorem mapErr_idem (r : Int) : mapErr (mapErr r) = mapErr r := by
  unfold mapErr UV_EAGAIN EAGAIN ENOBUFS
  repeat' split
  all_goals omega

/-- a failed (retried) system call leaves a log entry with that result for that vector -/
theorem kRetry_err (m : List Dgram) (mm : Bool) (outs : List SOut) (h : (kRetry m mm outs).r < 0) :
    ∃ k ∈ (kRetry m mm outs).log, k.res = (kRetry m mm outs).r ∧ k.offered = m := by
  induction outs with
  | nil => simp [kRetry] at h; omega
  | cons o t ih =>
    cases o with
    | sent k => simp [kRetry] at h; split at h <;> omega
    | err e =>
      simp only [kRetry] at h ⊢
      split
      · rename_i he
        simp only [he, if_true] at h
        obtain ⟨k, hk, h1, h2⟩ := ih h
        exact ⟨k, List.mem_cons_of_mem _ hk, h1, h2⟩
      · exact ⟨_, List.mem_singleton.mpr rfl, rfl, rfl⟩

theorem mmsgLoop_nsent_ge (all : List Dgram) (count : Nat) :
    ∀ (f i nsent : Nat) (r : Int) (outs : List SOut) (log : List KCall),
      nsent ≤ (mmsgLoop all count f i nsent r outs log).nsent := by
  intro f
  induction f with
  | zero => intros; simp [mmsgLoop]
  | succ f ih =>
    intro i nsent r outs log
    simp only [mmsgLoop]
    split
    · split
      · split
        · exact Nat.le_refl _
        · exact Nat.le_trans (Nat.le_add_right _ _) (ih _ _ _ _ _)
      · exact Nat.le_refl _
    · exact Nat.le_refl _

/-- uv__udp_sendmsgv returning an error: nothing was sent and the error is (the mapped errno of) a failed system
call whose first datagram is the first of the batch -/
theorem sendmsgv_err (all : List Dgram) (outs : List SOut) (hall : ∀ d ∈ all, prepOk d = true)
    (h : (sendmsgv all outs).ret < 0) :
    ∃ k ∈ (sendmsgv all outs).log, k.res < 0 ∧ k.offered.head? = all.head? ∧ (sendmsgv all outs).ret = mapErr k.res := by
  by_cases hc : all.length > 1
  · simp only [sendmsgv, hc, if_true] at h ⊢
    rw [mmsgLoop_fuel all all.length all.length ((all.length - 1) + 1) 0 0 0 outs [] (by omega) (by omega)] at h ⊢
    simp only [mmsgLoop, show 0 < all.length by omega, if_true, List.nil_append] at h ⊢
    have hm : fill all 0 all.length 0 20 = all.take 20 := by simpa using fill_eq all 0 0 20
    rw [hm] at h ⊢
    have hall20 : (all.take 20).all prepOk = true := by
      rw [List.all_eq_true]; intro d hd; exact hall d (List.mem_of_mem_take hd)
    simp only [hall20, if_true] at h ⊢
    split at h
    · rename_i hlt
      simp only [hlt, if_true]
      simp only [vExit, Nat.lt_irrefl, if_false, if_true] at h ⊢
      have hneg : (kRetry (all.take 20) true outs).r < 0 := by
        by_cases hn : (kRetry (all.take 20) true outs).r < 0
        · exact hn
        · have h0 : (kRetry (all.take 20) true outs).r = 0 := by omega
          rw [h0] at h; simp [mapErr, UV_EAGAIN, EAGAIN, ENOBUFS] at h
      obtain ⟨k, hk, h1, h2⟩ := kRetry_err _ _ _ hneg
      refine ⟨k, hk, by omega, ?_, by rw [h1]⟩
      rw [h2]; cases all with
      | nil => simp at hc
      | cons a t => simp
    · rename_i hge
      exfalso
      have := mmsgLoop_nsent_ge all all.length (all.length - 1) (0 + (kRetry (all.take 20) true outs).r.toNat)
        (0 + (kRetry (all.take 20) true outs).r.toNat) (kRetry (all.take 20) true outs).r
        (kRetry (all.take 20) true outs).outs (kRetry (all.take 20) true outs).log
      generalize mmsgLoop all all.length (all.length - 1) _ _ _ _ _ = l at this h
      simp only [vExit] at h
      have h1 : 0 < l.nsent := by omega
      simp only [h1, if_true] at h
      omega
  · simp only [sendmsgv, hc, if_false] at h ⊢
    match all, hc with
    | [], _ => simp [msgLoop, vExit] at h
    | [d], _ =>
      simp only [msgLoop, List.nil_append] at h ⊢
      have hr := kRetry_msg_range [d] outs rfl
      have hp : prepOk d = true := hall d (by simp)
      simp only [sendmsg1, hp, Bool.not_true, Bool.false_eq_true, if_false] at h ⊢
      rcases hr with hneg | h1
      · have hm := mapErr_neg hneg
        have hne : mapErr (kRetry [d] false outs).r ≠ 0 := by omega
        simp only [hneg, if_true, hne, ne_eq, not_false_eq_true, vExit, Nat.lt_irrefl, if_false, Bool.false_eq_true] at h ⊢
        obtain ⟨k, hk, h1, h2⟩ := kRetry_err _ _ _ hneg
        exact ⟨k, hk, by omega, by rw [h2], by rw [h1]⟩
      · have : ¬ (kRetry [d] false outs).r < 0 := by omega
        simp [this, vExit] at h
    | _ :: _ :: _, hc => simp at hc

def H.W (s : H) : List Nat := s.wire.map (·.seq)

/-- the status is the (mapped) errno of a failed system call whose first datagram was request q -/
def OsErr (s : H) (q : Nat) (st : Int) : Prop :=
  ∃ k ∈ s.klog, k.res < 0 ∧ k.offered.head?.map (·.seq) = some q ∧ st = mapErr k.res
def Fail (s : H) (q : Nat) (st : Int) : Prop :=
  (q ∈ s.cancelled ∧ st = UV_ECANCELED) ∨ (q ∉ s.cancelled ∧ OsErr s q st)

structure St (s : H) : Prop where
  n1 : ∀ p ∈ s.cq, p.2 < 0 → p.1.seq ∉ s.W ∧ Fail s p.1.seq p.2
  s1 : ∀ p ∈ s.cq, 0 ≤ p.2 → p.1.seq ∈ s.W ∧ p.1.seq ∉ s.cancelled
  c1 : ∀ c ∈ s.cbs, c.2 = 0 → c.1 ∈ s.W ∧ c.1 ∉ s.cancelled
  c2 : ∀ c ∈ s.cbs, c.2 ≠ 0 → c.1 ∉ s.W ∧ Fail s c.1 c.2
  k1 : ∀ x ∈ s.cancelled, x ∈ s.cbs.map (·.1) ∨ x ∈ s.cq.map (·.1.seq)
  pq : ∀ d ∈ s.wq, prepOk d = true      -- queued requests passed uv__udp_check_before_send

theorem Fail.mono {s t : H} {q : Nat} {st : Int} (h : Fail s q st) (hcan : t.cancelled = s.cancelled)
    (hk : ∃ l, t.klog = s.klog ++ l) : Fail t q st := by
  obtain ⟨l, hl⟩ := hk
  rcases h with ⟨h1, h2⟩ | ⟨h1, k, hk1, hk2⟩
  · exact Or.inl ⟨by rw [hcan]; exact h1, h2⟩
  · exact Or.inr ⟨by rw [hcan]; exact h1, k, by rw [hl]; exact List.mem_append_left _ hk1, hk2⟩

theorem St.of_eq {s t : H} (h : St s) (h1 : t.cq = s.cq) (h2 : t.cbs = s.cbs) (h3 : t.klog = s.klog)
    (h4 : t.cancelled = s.cancelled) (h5 : t.wq = s.wq) : St t := by
  obtain ⟨a, b, c, d, e, pq⟩ := h
  have hW : t.W = s.W := by simp [H.W, H.wire, h3]
  have hF : ∀ q st, Fail s q st → Fail t q st := fun q st hf => hf.mono h4 ⟨[], by simp [h3]⟩
  refine ⟨?_, ?_, ?_, ?_, ?_, ?_⟩ <;> simp only [h1, h2, h4, h5, hW]
  · exact fun p hp hn => ⟨(a p hp hn).1, hF _ _ (a p hp hn).2⟩
  · exact b
  · exact c
  · exact fun p hp hn => ⟨(d p hp hn).1, hF _ _ (d p hp hn).2⟩
  · exact e
  · exact pq

/-- the wire and the completed queue grow, the log is appended to, callbacks and cancellations unchanged -/
theorem St.grow {s t : H} (hs : St s) (hcb : t.cbs = s.cbs) (hcan : t.cancelled = s.cancelled)
    (hk : ∃ l, t.klog = s.klog ++ l) (X : List Nat) (hW : t.W = s.W ++ X)
    (hXcq : ∀ p ∈ s.cq, p.1.seq ∉ X) (hXcb : ∀ c ∈ s.cbs, c.1 ∉ X)
    (new : List (Dgram × Int)) (hcq : t.cq = s.cq ++ new)
    (hneg : ∀ p ∈ new, p.2 < 0 → p.1.seq ∉ t.W ∧ Fail t p.1.seq p.2)
    (hpos : ∀ p ∈ new, 0 ≤ p.2 → p.1.seq ∈ t.W ∧ p.1.seq ∉ t.cancelled)
    (hwq : ∀ d ∈ t.wq, d ∈ s.wq) : St t := by
  obtain ⟨a, b, c, d, e, pq⟩ := hs
  refine ⟨?_, ?_, ?_, ?_, ?_, fun d hd => pq d (hwq d hd)⟩
  · intro p hp hn
    rw [hcq, List.mem_append] at hp
    rcases hp with hp | hp
    · refine ⟨?_, (a p hp hn).2.mono hcan hk⟩
      rw [hW, List.mem_append]; exact fun h => h.elim (a p hp hn).1 (hXcq p hp)
    · exact hneg p hp hn
  · intro p hp hn
    rw [hcq, List.mem_append] at hp
    rcases hp with hp | hp
    · exact ⟨by rw [hW]; exact List.mem_append_left _ (b p hp hn).1, by rw [hcan]; exact (b p hp hn).2⟩
    · exact hpos p hp hn
  · intro x hx h0
    rw [hcb] at hx
    exact ⟨by rw [hW]; exact List.mem_append_left _ (c x hx h0).1, by rw [hcan]; exact (c x hx h0).2⟩
  · intro x hx h0
    rw [hcb] at hx
    refine ⟨?_, (d x hx h0).2.mono hcan hk⟩
    rw [hW, List.mem_append]; exact fun h => h.elim (d x hx h0).1 (hXcb x hx)
  · intro x hx
    rw [hcan] at hx
    rcases e x hx with h | h
    · exact Or.inl (by rw [hcb]; exact h)
    · refine Or.inr ?_
      rw [hcq, List.map_append, List.mem_append]; exact Or.inl h

/-- consequences of Inv: ids of owed / called-back requests are pairwise distinct and below nseq -/
theorem inv_support {s : H} (h : Inv s) :
    (∀ p ∈ s.cq, ∀ d ∈ s.wq, p.1.seq ≠ d.seq) ∧ (∀ c ∈ s.cbs, ∀ d ∈ s.wq, c.1 ≠ d.seq)
    ∧ (∀ p ∈ s.cq, p.1.seq < s.nseq) ∧ (∀ c ∈ s.cbs, c.1 < s.nseq)
    ∧ (∀ d ∈ s.wq, d.seq ∉ s.W) ∧ (∀ x ∈ s.W, x < s.nseq) := by
  have hsub : (s.accepted.map (·.seq)).Sublist (List.range s.nseq) := by rw [← h.seqs]; exact h.acc.map _
  have hnd : (s.cbs.map (·.1) ++ s.owed.map (·.seq)).Nodup := by rw [← h.part]; exact hsub.nodup List.nodup_range
  have hlt : ∀ x ∈ s.cbs.map (·.1) ++ s.owed.map (·.seq), x < s.nseq := by
    intro x hx; rw [← h.part] at hx; exact List.mem_range.mp (hsub.subset hx)
  have hws : ((s.wire ++ s.wq).map (·.seq)).Sublist (List.range s.nseq) := by rw [← h.seqs]; exact h.sub.map _
  have hwn := hws.nodup List.nodup_range
  simp only [H.owed, List.map_append, List.map_map] at hnd hlt
  rw [List.map_append] at hwn
  rw [List.nodup_append] at hwn
  rw [List.nodup_append] at hnd
  obtain ⟨_, hnd2, hd1⟩ := hnd
  rw [List.nodup_append] at hnd2
  obtain ⟨_, _, hd2⟩ := hnd2
  refine ⟨?_, ?_, ?_, ?_, ?_, ?_⟩
  · intro p hp d hd
    exact hd2 _ (List.mem_map.mpr ⟨p, hp, rfl⟩) _ (List.mem_map.mpr ⟨d, hd, rfl⟩)
  · intro c hc d hd
    exact hd1 _ (List.mem_map.mpr ⟨c, hc, rfl⟩) _ (List.mem_append_right _ (List.mem_map.mpr ⟨d, hd, rfl⟩))
  · intro p hp
    exact hlt _ (List.mem_append_right _ (List.mem_append_left _ (List.mem_map.mpr ⟨p, hp, rfl⟩)))
  · intro c hc
    exact hlt _ (List.mem_append_left _ (List.mem_map.mpr ⟨c, hc, rfl⟩))
  · intro d hd hw
    exact hwn.2.2 _ hw _ (List.mem_map.mpr ⟨d, hd, rfl⟩) rfl
  · intro x hx
    exact List.mem_range.mp (hws.subset (by rw [List.map_append]; exact List.mem_append_left _ hx))

theorem wq_not_cancelled {s : H} (h : Inv s) (hs : St s) : ∀ d ∈ s.wq, d.seq ∉ s.cancelled := by
  obtain ⟨d1, d2, _⟩ := inv_support h
  intro d hd hc
  rcases hs.k1 _ hc with hx | hx
  · obtain ⟨c, hc1, hc2⟩ := List.mem_map.mp hx
    exact d2 c hc1 d hd hc2
  · obtain ⟨p, hp1, hp2⟩ := List.mem_map.mp hx
    exact d1 p hp1 d hd hp2

theorem again_succ_inv (s : H) (h : Inv s) (v : VRes)
    (hv : wireOf v.log = (s.wq.take 20).take v.ret.toNat) (hn : v.ret.toNat ≤ 20) :
    Inv { s with souts := v.outs, klog := s.klog ++ v.log,
                 cq := s.cq ++ (s.wq.take v.ret.toNat).map (fun d => (d, (d.bytes : Int))),
                 wq := s.wq.drop v.ret.toNat } := by
  obtain ⟨a, b, c, d, e, g, i⟩ := h
  have ho : (s.cq ++ (s.wq.take v.ret.toNat).map (fun d => (d, (d.bytes : Int)))).map (·.1)
      ++ s.wq.drop v.ret.toNat = s.cq.map (·.1) ++ s.wq := by
    simp [List.map_append, List.map_map, Function.comp_def, List.append_assoc]
  constructor <;> simp only [H.owed, H.wire, H.cbs] at * <;> try (rw [ho]; assumption)
  · rw [wireOf_append, hv, List.take_take]
    have : min v.ret.toNat 20 = v.ret.toNat := by omega
    rw [this, List.append_assoc, List.take_append_drop]; exact e
  · exact g
  · exact i

theorem sendmsgAgain_st (f : Nat) (s : H) (h : Inv s) (hs : St s) : St (sendmsgAgain f s) := by
  induction f generalizing s with
  | zero => exact hs
  | succ f ih =>
    obtain ⟨d1, d2, _, _, d5, _⟩ := inv_support h
    have hnc := wq_not_cancelled h hs
    simp only [sendmsgAgain]
    split
    · rename_i hret
      have hv := sendmsgv_nonneg (s.wq.take 20) s.souts hret
      generalize sendmsgv (s.wq.take 20) s.souts = v at hv hret
      have hn : v.ret.toNat ≤ 20 ∧ v.ret.toNat ≤ s.wq.length := by
        have := hv.2; simp at this; omega
      have hv1 : wireOf v.log = s.wq.take v.ret.toNat := by
        rw [hv.1, List.take_take]
        have : min v.ret.toNat 20 = v.ret.toNat := by omega
        rw [this]
      have key := again_succ_inv s h v hv.1 hn.1
      have kst : St { s with souts := v.outs, klog := s.klog ++ v.log,
                             cq := s.cq ++ (s.wq.take v.ret.toNat).map (fun d => (d, (d.bytes : Int))),
                             wq := s.wq.drop v.ret.toNat } := by
        have hmem : ∀ x ∈ (s.wq.take v.ret.toNat).map (·.seq), ∃ d ∈ s.wq, d.seq = x := by
          intro x hx
          obtain ⟨d, hd, rfl⟩ := List.mem_map.mp hx
          exact ⟨d, List.mem_of_mem_take hd, rfl⟩
        refine hs.grow ?_ ?_ ?_ ((s.wq.take v.ret.toNat).map (·.seq)) ?_ ?_ ?_
          ((s.wq.take v.ret.toNat).map (fun d => (d, (d.bytes : Int)))) ?_ ?_ ?_ (fun d hd => List.mem_of_mem_drop hd)
        · rfl
        · rfl
        · exact ⟨v.log, rfl⟩
        · simp [H.W, H.wire, wireOf_append, hv1]
        · intro p hp hx
          obtain ⟨d, hd, he⟩ := hmem _ hx
          exact d1 p hp d hd he.symm
        · intro c hc hx
          obtain ⟨d, hd, he⟩ := hmem _ hx
          exact d2 c hc d hd he.symm
        · rfl
        · intro p hp hneg
          obtain ⟨d, _, rfl⟩ := List.mem_map.mp hp
          simp at hneg; omega
        · intro p hp _
          obtain ⟨d, hd, rfl⟩ := List.mem_map.mp hp
          refine ⟨?_, hnc d (List.mem_of_mem_take hd)⟩
          simp only [H.W, H.wire, wireOf_append, hv1, List.map_append, List.mem_append]
          exact Or.inr (List.mem_map.mpr ⟨d, hd, rfl⟩)
      split
      · exact kst.of_eq rfl rfl rfl rfl rfl
      · exact ih _ key kst
    · rename_i hret
      have hneg : (sendmsgv (s.wq.take 20) s.souts).ret < 0 := by omega
      have hv := sendmsgv_neg (s.wq.take 20) s.souts hneg
      have herr := sendmsgv_err (s.wq.take 20) s.souts (fun d hd => hs.pq d (List.mem_of_mem_take hd)) hneg
      generalize sendmsgv (s.wq.take 20) s.souts = v at hv hret herr hneg
      have kst : St { s with souts := v.outs, klog := s.klog ++ v.log } := by
        refine hs.grow ?_ ?_ ?_ [] ?_ (by simp) (by simp) [] ?_ (by simp) (by simp) (fun d hd => hd)
        · rfl
        · rfl
        · exact ⟨v.log, rfl⟩
        · simp [H.W, H.wire, wireOf_append, hv]
        · simp
      split
      · exact kst
      · split
        · exact kst
        · rename_i d rest hwq
          have hd : d ∈ s.wq := by rw [hwq]; exact List.mem_cons_self ..
          refine St.of_eq (s := { s with souts := v.outs, klog := s.klog ++ v.log, cq := s.cq ++ [(d, v.ret)],
                                         wq := rest }) ?_ rfl rfl rfl rfl rfl
          refine hs.grow ?_ ?_ ?_ [] ?_ (by simp) (by simp) [(d, v.ret)] ?_ ?_ ?_
            (fun d' hd' => by rw [hwq]; exact List.mem_cons_of_mem _ hd')
          · rfl
          · rfl
          · exact ⟨v.log, rfl⟩
          · simp [H.W, H.wire, wireOf_append, hv]
          · rfl
          · intro p hp _
            rw [List.mem_singleton] at hp; subst hp
            refine ⟨?_, Or.inr ⟨hnc d hd, ?_⟩⟩
            · simp only [H.W, H.wire, wireOf_append, hv, List.append_nil]
              exact d5 d hd
            · obtain ⟨k, hk, h1, h2, h3⟩ := herr
              refine ⟨k, List.mem_append_right _ hk, h1, ?_, h3⟩
              rw [h2, hwq]; simp
          · intro p hp h0
            rw [List.mem_singleton] at hp; subst hp
            simp at h0; omega

theorem uvSendmsg_st (s : H) (h : Inv s) (hs : St s) : St (uvSendmsg s) := by
  unfold uvSendmsg; split
  · exact hs
  · exact sendmsgAgain_st _ _ h hs

theorem enqueue_inv (s : H) (d : Dgram) (h : Inv s) (hd : d.seq = s.nseq) :
    Inv { s with nseq := s.nseq + 1, submitted := s.submitted ++ [d], activeReqs := s.activeReqs + 1,
                 sqSize := s.sqSize + d.bytes, sqCount := s.sqCount + 1, wq := s.wq ++ [d],
                 active := true, accepted := s.accepted ++ [d] } := by
  have h1 : Inv { s with nseq := s.nseq + 1, submitted := s.submitted ++ [d] } :=
    inv_submit h [d] (by simp [hd])
  obtain ⟨a, b, c, d', e, g, i⟩ := h
  obtain ⟨_, _, _, _, _, g1, _⟩ := h1
  have ho : s.cq.map (·.1) ++ (s.wq ++ [d]) = (s.cq.map (·.1) ++ s.wq) ++ [d] := by simp
  simp only [H.owed, H.wire, H.cbs] at a b c d' e g i g1
  refine ⟨?_, ?_, ?_, ?_, ?_, g1, ?_⟩ <;> simp only [H.owed, H.wire, H.cbs]
  · rw [ho, List.length_append, a]; simp
  · rw [ho, List.map_append, List.sum_append, b]; simp
  · rw [ho, List.length_append, c]; simp
  · rw [ho, List.map_append, List.map_append, d']; simp
  · rw [← List.append_assoc]; exact e.append (List.Sublist.refl _)
  · exact i.append (List.Sublist.refl _)

theorem St.enq {s t : H} (hs : St s) (d : Dgram) (hp : prepOk d = true) (h1 : t.cq = s.cq) (h2 : t.cbs = s.cbs)
    (h3 : t.klog = s.klog) (h4 : t.cancelled = s.cancelled) (h5 : t.wq = s.wq ++ [d]) : St t := by
  have := hs.of_eq (t := { t with wq := s.wq }) h1 h2 h3 h4 rfl
  obtain ⟨a, b, c, e, k, pq⟩ := this
  refine ⟨a, b, c, e, k, ?_⟩
  intro x hx
  rw [h5, List.mem_append, List.mem_singleton] at hx
  rcases hx with hx | rfl
  · exact pq x hx
  · exact hp

theorem udpSend_st (s : H) (d : Dgram) (en : Bool) (h : Inv s) (hs : St s) (hd : d.seq = s.nseq)
    (hp : prepOk d = true) :
    St (udpSend { s with nseq := s.nseq + 1, submitted := s.submitted ++ [d] } d en).1 := by
  unfold udpSend
  simp only
  split
  · exact hs.of_eq rfl rfl rfl rfl rfl
  · have key := enqueue_inv s d h hd
    have kst : St { s with nseq := s.nseq + 1, submitted := s.submitted ++ [d], activeReqs := s.activeReqs + 1,
                           sqSize := s.sqSize + d.bytes, sqCount := s.sqCount + 1, wq := s.wq ++ [d],
                           active := true, accepted := s.accepted ++ [d] } := hs.enq d hp rfl rfl rfl rfl rfl
    split
    · have k2 := uvSendmsg_st _ key kst
      split
      · exact k2.of_eq rfl rfl rfl rfl rfl
      · exact k2
    · exact kst.of_eq rfl rfl rfl rfl rfl

theorem st_emit {s : H} (h : St s) (e : Ev) (he : ∀ q st, e ≠ .sendCb q st) : St (emit s e) := by
  apply h.of_eq <;> try rfl
  cases e <;> simp_all

theorem mem_mkDgrams {n c : Nat} {b : List Nat} {dst : Nat} {d : Dgram} (h : d ∈ mkDgrams n c b dst) : n ≤ d.seq := by
  simp only [mkDgrams, List.mem_map, List.mem_range] at h
  obtain ⟨i, _, rfl⟩ := h
  simp

theorem applyOp_st (s : H) (op : Op) (h : Inv s) (hs : St s) : St (applyOp s op) := by
  obtain ⟨_, _, d3, d4, _, _⟩ := inv_support h
  unfold applyOp
  split
  · exact st_emit hs _ (by intros; simp)
  · cases op with
    | send bufs dest en =>
      simp only
      split
      · apply st_emit _ _ (by intros; simp)
        exact hs.of_eq rfl rfl rfl rfl rfl
      · rename_i hchk
        have hp : prepOk ⟨s.nseq, bufs, dest⟩ = true := by
          simp only [prepOk, decide_eq_true_eq]
          simp only [checkBeforeSend] at hchk
          by_cases h2 : dest > 2
          · exfalso; apply hchk
            split; · decide
            split; · decide
            simp [h2, UV_EINVAL]
          · omega
        have := udpSend_st s ⟨s.nseq, bufs, dest⟩ en h hs rfl hp
        generalize udpSend _ _ _ = r at this
        exact st_emit this _ (by intros; simp)
    | trySend bufs dest =>
      simp only
      split
      · apply st_emit _ _ (by intros; simp)
        exact hs.of_eq rfl rfl rfl rfl rfl
      · split
        · apply st_emit _ _ (by intros; simp)
          exact hs.of_eq rfl rfl rfl rfl rfl
        · split
          · apply st_emit _ _ (by intros; simp)
            exact hs.of_eq rfl rfl rfl rfl rfl
          · apply st_emit _ _ (by intros; simp)
            have hsp := sendmsg1_spec ⟨s.nseq, bufs, dest⟩ s.souts
            refine hs.grow ?_ ?_ ?_
              ((wireOf (sendmsg1 ⟨s.nseq, bufs, dest⟩ s.souts).log).map (·.seq)) ?_ ?_ ?_ [] ?_ (by simp) (by simp) (fun d hd => hd)
            · rfl
            · rfl
            · exact ⟨(sendmsg1 ⟨s.nseq, bufs, dest⟩ s.souts).log, rfl⟩
            · simp [H.W, H.wire, wireOf_append]
            rotate_left 2
            · simp
            · intro p hp hx
              rcases hsp with ⟨_, hw⟩ | ⟨_, hw⟩
              · rw [hw] at hx; simp at hx; have := d3 p hp; omega
              · rw [hw] at hx; simp at hx
            · intro c hc hx
              rcases hsp with ⟨_, hw⟩ | ⟨_, hw⟩
              · rw [hw] at hx; simp at hx; have := d4 c hc; omega
              · rw [hw] at hx; simp at hx
    | trySend2 count bufs dest =>
      simp only
      split
      · apply st_emit _ _ (by intros; simp)
        exact hs.of_eq rfl rfl rfl rfl rfl
      · split
        · apply st_emit _ _ (by intros; simp)
          exact hs.of_eq rfl rfl rfl rfl rfl
        · split
          · apply st_emit _ _ (by intros; simp)
            exact hs.of_eq rfl rfl rfl rfl rfl
          · apply st_emit _ _ (by intros; simp)
            have hsp := sendmsgv_spec (mkDgrams s.nseq count bufs dest) s.souts
            have hsub : ∀ x ∈ (wireOf (sendmsgv (mkDgrams s.nseq count bufs dest) s.souts).log).map (·.seq), s.nseq ≤ x := by
              intro x hx
              obtain ⟨d, hd, rfl⟩ := List.mem_map.mp hx
              by_cases hp : (sendmsgv (mkDgrams s.nseq count bufs dest) s.souts).ret > 0
              · rw [(hsp.1 hp).1] at hd; exact mem_mkDgrams (List.mem_of_mem_take hd)
              · rw [hsp.2 (by omega)] at hd; simp at hd
            refine hs.grow ?_ ?_ ?_
              ((wireOf (sendmsgv (mkDgrams s.nseq count bufs dest) s.souts).log).map (·.seq)) ?_ ?_ ?_ [] ?_ (by simp) (by simp) (fun d hd => hd)
            · rfl
            · rfl
            · exact ⟨(sendmsgv (mkDgrams s.nseq count bufs dest) s.souts).log, rfl⟩
            · simp [H.W, H.wire, wireOf_append]
            rotate_left 2
            · simp
            · intro p hp hx
              have := hsub _ hx; have := d3 p hp; omega
            · intro c hc hx
              have := hsub _ hx; have := d4 c hc; omega
    | recvStart =>
      simp only
      split
      · exact st_emit hs _ (by intros; simp)
      · apply st_emit _ _ (by intros; simp)
        exact hs.of_eq rfl rfl rfl rfl rfl
    | recvStop =>
      simp only
      apply st_emit _ _ (by intros; simp)
      exact hs.of_eq rfl rfl rfl rfl rfl
    | close =>
      simp only
      exact hs.of_eq rfl rfl rfl rfl rfl

/-- the combined invariant -/
def Inv2 (s : H) : Prop := Inv s ∧ St s

theorem applyOps_inv2 (ops : List Op) (s : H) (h : Inv2 s) : Inv2 (applyOps s ops) := by
  induction ops generalizing s with
  | nil => exact h
  | cons op ops ih => exact ih _ ⟨applyOp_inv s op h.1, applyOp_st s op h.1 h.2⟩

theorem St.pop {s t : H} (hs : St s) {d : Dgram} {st : Int} {rest : List (Dgram × Int)}
    (hcq : s.cq = (d, st) :: rest) (h1 : t.cq = rest)
    (h2 : t.cbs = s.cbs ++ [(d.seq, if st ≥ 0 then 0 else st)]) (h3 : t.klog = s.klog)
    (h4 : t.cancelled = s.cancelled) (h5 : t.wq = s.wq) : St t := by
  obtain ⟨a, b, c, e, k, pq⟩ := hs
  have hW : t.W = s.W := by simp [H.W, H.wire, h3]
  have hF : ∀ q x, Fail s q x → Fail t q x := fun q x hf => hf.mono h4 ⟨[], by simp [h3]⟩
  have hin : (d, st) ∈ s.cq := by rw [hcq]; exact List.mem_cons_self ..
  have hsub : ∀ p ∈ rest, p ∈ s.cq := fun p hp => by rw [hcq]; exact List.mem_cons_of_mem _ hp
  refine ⟨?_, ?_, ?_, ?_, ?_, by rw [h5]; exact pq⟩ <;> simp only [h1, h2, h4, hW]
  · intro p hp hn
    exact ⟨(a p (hsub p hp) hn).1, hF _ _ (a p (hsub p hp) hn).2⟩
  · intro p hp hn
    exact b p (hsub p hp) hn
  · intro x hx h0
    rw [List.mem_append] at hx
    rcases hx with hx | hx
    · exact c x hx h0
    · rw [List.mem_singleton] at hx; subst hx
      by_cases hst : st ≥ 0
      · exact b _ hin hst
      · simp only [hst, if_false] at h0; omega
  · intro x hx h0
    rw [List.mem_append] at hx
    rcases hx with hx | hx
    · exact ⟨(e x hx h0).1, hF _ _ (e x hx h0).2⟩
    · rw [List.mem_singleton] at hx; subst hx
      by_cases hst : st ≥ 0
      · simp only [hst, if_true] at h0; exact absurd rfl h0
      · simp only [hst, if_false]
        have := a _ hin (by omega)
        exact ⟨this.1, hF _ _ this.2⟩
  · intro x hx
    rcases k x hx with h | h
    · exact Or.inl (by rw [List.map_append]; exact List.mem_append_left _ h)
    · rw [hcq, List.map_cons, List.mem_cons] at h
      rcases h with h | h
      · exact Or.inl (by rw [List.map_append]; exact List.mem_append_right _ (by simp [h]))
      · exact Or.inr h

theorem runCompletedLoop_inv2 (sc : Script) (f : Nat) (s : H) (h : Inv2 s) : Inv2 (runCompletedLoop sc f s) := by
  induction f generalizing s with
  | zero => exact h
  | succ f ih =>
    simp only [runCompletedLoop]
    split
    · exact h
    · rename_i d st rest hcq
      apply ih
      apply applyOps_inv2
      exact ⟨inv_pop h.1 hcq _, h.2.pop hcq rfl (cbs_emit_send _ _ _) rfl rfl rfl⟩

theorem runCompleted_inv2 (sc : Script) (s : H) (h : Inv2 s) : Inv2 (runCompleted sc s) := by
  unfold runCompleted
  simp only
  have h1 : Inv2 { s with processing := true } :=
    ⟨h.1.of_eq rfl rfl rfl rfl rfl rfl rfl rfl rfl rfl, h.2.of_eq rfl rfl rfl rfl rfl⟩
  have h2 := runCompletedLoop_inv2 sc s.cq.length _ h1
  split <;> exact ⟨h2.1.of_eq rfl rfl rfl rfl rfl rfl rfl rfl rfl rfl, h2.2.of_eq rfl rfl rfl rfl rfl⟩

theorem ioOut_inv2 (sc : Script) (s : H) (h : Inv2 s) : Inv2 (ioOut sc s) := by
  unfold ioOut; split
  · exact runCompleted_inv2 _ _ ⟨uvSendmsg_inv _ h.1, uvSendmsg_st _ h.1 h.2⟩
  · exact h

theorem Inv2.of_eq {s t : H} (h : Inv2 s)
    (h1 : t.sqCount = s.sqCount) (h2 : t.sqSize = s.sqSize) (h3 : t.activeReqs = s.activeReqs)
    (h4 : t.accepted = s.accepted) (h5 : t.cbs = s.cbs) (h6 : t.cq = s.cq) (h7 : t.wq = s.wq)
    (h8 : t.klog = s.klog) (h9 : t.submitted = s.submitted) (h10 : t.nseq = s.nseq)
    (h11 : t.cancelled = s.cancelled) : Inv2 t :=
  ⟨h.1.of_eq h1 h2 h3 h4 h5 h6 h7 h8 h9 h10, h.2.of_eq h6 h5 h8 h11 h7⟩

theorem inv2_emit {s : H} (h : Inv2 s) (e : Ev) (he : ∀ q st, e ≠ .sendCb q st) : Inv2 (emit s e) :=
  ⟨inv_emit h.1 e he, st_emit h.2 e he⟩

theorem St.cancel {s t : H} (hi : Inv s) (hs : St s)
    (h1 : t.cq = s.cq ++ s.wq.map (fun d => (d, UV_ECANCELED))) (h2 : t.cbs = s.cbs) (h3 : t.klog = s.klog)
    (h4 : t.cancelled = s.cancelled ++ s.wq.map (·.seq)) (h5 : t.wq = []) : St t := by
  obtain ⟨d1, d2, _, _, d5, _⟩ := inv_support hi
  obtain ⟨a, b, c, e, k, _⟩ := hs
  have hW : t.W = s.W := by simp [H.W, H.wire, h3]
  have hnc : ∀ q, q ∉ s.cancelled → (∀ d ∈ s.wq, q ≠ d.seq) → q ∉ t.cancelled := by
    intro q f1 hq
    rw [h4, List.mem_append]
    rintro (hm | hm)
    · exact f1 hm
    · obtain ⟨d, hd, he⟩ := List.mem_map.mp hm
      exact hq d hd he.symm
  have hF : ∀ q x, Fail s q x → (∀ d ∈ s.wq, q ≠ d.seq) → Fail t q x := by
    intro q x hf hq
    rcases hf with ⟨f1, f2⟩ | ⟨f1, kk, hk1, hk2⟩
    · exact Or.inl ⟨by rw [h4]; exact List.mem_append_left _ f1, f2⟩
    · exact Or.inr ⟨hnc q f1 hq, kk, by rw [h3]; exact hk1, hk2⟩
  refine ⟨?_, ?_, ?_, ?_, ?_, by rw [h5]; simp⟩
  · intro p hp hn
    rw [hW]
    rw [h1, List.mem_append] at hp
    rcases hp with hp | hp
    · exact ⟨(a p hp hn).1, hF _ _ (a p hp hn).2 (fun d hd => d1 p hp d hd)⟩
    · obtain ⟨d, hd, rfl⟩ := List.mem_map.mp hp
      refine ⟨d5 d hd, Or.inl ⟨?_, rfl⟩⟩
      rw [h4]; exact List.mem_append_right _ (List.mem_map.mpr ⟨d, hd, rfl⟩)
  · intro p hp hn
    rw [hW]
    rw [h1, List.mem_append] at hp
    rcases hp with hp | hp
    · exact ⟨(b p hp hn).1, hnc _ (b p hp hn).2 (fun d hd => d1 p hp d hd)⟩
    · obtain ⟨d, hd, rfl⟩ := List.mem_map.mp hp
      simp [UV_ECANCELED] at hn
  · intro x hx h0
    rw [h2] at hx; rw [hW]
    exact ⟨(c x hx h0).1, hnc _ (c x hx h0).2 (fun d hd => d2 x hx d hd)⟩
  · intro x hx h0
    rw [h2] at hx; rw [hW]
    exact ⟨(e x hx h0).1, hF _ _ (e x hx h0).2 (fun d hd => d2 x hx d hd)⟩
  · intro x hx
    rw [h4, List.mem_append] at hx
    rw [h2, h1, List.map_append, List.mem_append]
    rcases hx with hx | hx
    · rcases k x hx with h | h
      · exact Or.inl h
      · exact Or.inr (Or.inl h)
    · obtain ⟨d, hd, rfl⟩ := List.mem_map.mp hx
      exact Or.inr (Or.inr (List.mem_map.mpr ⟨(d, UV_ECANCELED), List.mem_map.mpr ⟨d, hd, rfl⟩, rfl⟩))

theorem cancel_inv2 (s : H) (h : Inv2 s) :
    Inv2 { s with cq := s.cq ++ s.wq.map (fun d => (d, UV_ECANCELED)), wq := [],
                  cancelled := s.cancelled ++ s.wq.map (·.seq) } := by
  refine ⟨?_, St.cancel h.1 h.2 rfl rfl rfl rfl rfl⟩
  obtain ⟨a, b, c, d', e, g, i⟩ := h.1
  have ho : (s.cq ++ s.wq.map (fun d => (d, UV_ECANCELED))).map (·.1) ++ [] = s.cq.map (·.1) ++ s.wq := by
    simp [List.map_map, Function.comp_def]
  simp only [H.owed, H.wire, H.cbs] at a b c d' e g i
  refine ⟨?_, ?_, ?_, ?_, ?_, g, i⟩ <;> simp only [H.owed, H.wire, H.cbs]
  · rw [ho]; exact a
  · rw [ho]; exact b
  · rw [ho]; exact c
  · rw [ho]; exact d'
  · rw [List.append_nil]; exact (List.sublist_append_left _ _).trans e

theorem finishClose_inv2 (sc : Script) (s : H) (h : Inv2 s) : Inv2 (finishClose sc s) := by
  unfold finishClose; split
  · exact h
  · simp only
    apply inv2_emit _ _ (by intros; simp)
    exact (runCompleted_inv2 sc _ (cancel_inv2 s h)).of_eq rfl rfl rfl rfl rfl rfl rfl rfl rfl rfl rfl

theorem ioIn_inv2 (sc : Script) (s : H) (q : List RItem) (h : Inv2 s) : Inv2 (ioIn sc s q).1 := by
  unfold ioIn; split
  · apply recvLoop_pres (hUser sc) Inv2
    · intro s a hs
      apply applyOps_inv2
      apply inv2_emit _ _ (by intros; simp)
      exact hs.of_eq rfl rfl rfl rfl rfl rfl rfl rfl rfl rfl rfl
    · intro s hs
      show Inv2 (emit _ _)
      apply inv2_emit _ _ (by intros; simp)
      exact hs.of_eq rfl rfl rfl rfl rfl rfl rfl rfl rfl rfl rfl
    · exact h
  · exact h

theorem pendingRounds_inv2 (sc : Script) (n : Nat) (s : H) (h : Inv2 s) : Inv2 (pendingRounds sc n s) := by
  induction n generalizing s with
  | zero => exact h
  | succ n ih =>
    simp only [pendingRounds]; split
    · exact ih _ (ioOut_inv2 _ _ (h.of_eq rfl rfl rfl rfl rfl rfl rfl rfl rfl rfl rfl))
    · exact h

theorem uvRun_inv2 (sc : Script) (s : H) (q : List RItem) (h : Inv2 s) : Inv2 (uvRun sc s q).1 := by
  unfold uvRun
  simp only
  have h1 := pendingRounds_inv2 sc 1 s h
  generalize pendingRounds sc 1 s = s1 at h1
  apply finishClose_inv2
  apply pendingRounds_inv2
  have h2 : Inv2 (if s1.pollin = true then ioIn sc s1 q else (s1, q, false)).1 := by
    split
    · exact ioIn_inv2 _ _ _ h1
    · exact h1
  split
  · exact ioOut_inv2 _ _ h2
  · exact h2

theorem inv2_init (c m : Bool) : Inv2 { connected := c, mmsg := m } := by
  refine ⟨inv_init c m, ?_, ?_, ?_, ?_, ?_, ?_⟩ <;> simp [H.cbs]

end UvModel.Udp
