import UvModel.Udp
/-! helper lemmas for C10 (UDP) -/
namespace UvModel.Udp

theorem errnoOf_pos (e : Nat) : 1 ≤ errnoOf e := by
  unfold errnoOf; split <;> omega

theorem wireOf_append (a b : List KCall) : wireOf (a ++ b) = wireOf a ++ wireOf b := by
  simp [wireOf]

theorem wireOf_nil : wireOf [] = [] := rfl

/-- what one (retried) system call hands to the OS -/
theorem kRetry_wire (m : List Dgram) (mmsg : Bool) (outs : List SOut) :
    wireOf (kRetry m mmsg outs).log = m.take (kRetry m mmsg outs).r.toNat := by
  induction outs with
  | nil => simp [kRetry, wireOf, KCall.accepted]
  | cons o t ih =>
    cases o with
    | sent k => simp [kRetry, wireOf, KCall.accepted]
    | err e =>
      simp only [kRetry]
      split
      · simp only [wireOf, List.flatMap_cons] at ih ⊢
        rw [ih]; simp [KCall.accepted, EINTR]
      · have := errnoOf_pos e
        simp [wireOf, KCall.accepted]

/-- result range of a sendmmsg call on a non-empty vector: error, or 1..vlen -/
theorem kRetry_mmsg_range (m : List Dgram) (outs : List SOut) (hm : m ≠ []) :
    (kRetry m true outs).r < 0 ∨ (1 ≤ (kRetry m true outs).r ∧ (kRetry m true outs).r ≤ m.length) := by
  have hl : 1 ≤ m.length := by cases m <;> simp_all
  induction outs with
  | nil => right; simp [kRetry]; omega
  | cons o t ih =>
    cases o with
    | sent k => right; simp [kRetry]; omega
    | err e =>
      simp only [kRetry]
      split
      · exact ih
      · left; have := errnoOf_pos e; simp; omega

/-- result of a sendmsg call: error or 1 -/
theorem kRetry_msg_range (m : List Dgram) (outs : List SOut) (hm : m.length = 1) :
    (kRetry m false outs).r < 0 ∨ (kRetry m false outs).r = 1 := by
  induction outs with
  | nil => right; simp [kRetry, hm]
  | cons o t ih =>
    cases o with
    | sent k => right; simp [kRetry]
    | err e =>
      simp only [kRetry]
      split
      · exact ih
      · left; have := errnoOf_pos e; simp; omega

theorem mapErr_neg {r : Int} (h : r < 0) : mapErr r < 0 := by
  unfold mapErr UV_EAGAIN; split <;> omega

/-- the inner fill loop collects exactly the next ≤ f datagrams starting at index i -/
theorem fill_eq (all : List Dgram) (i n f : Nat) :
    fill all i all.length n f = (all.drop (i + n)).take f := by
  induction f generalizing n with
  | zero => simp [fill]
  | succ f ih =>
    simp only [fill]
    split
    · rename_i h
      rw [ih (n + 1)]
      have : all.drop (i + n) = all[i + n] :: all.drop (i + n + 1) := List.drop_eq_getElem_cons h
      rw [this]; simp [List.getElem?_eq_getElem h, Nat.add_assoc]
    · rename_i h
      have : all.drop (i + n) = [] := List.drop_eq_nil_of_le (by omega)
      simp [this]

theorem sendmsg1_spec (d : Dgram) (outs : List SOut) :
    ((sendmsg1 d outs).r = 1 ∧ wireOf (sendmsg1 d outs).log = [d]) ∨
    ((sendmsg1 d outs).r < 0 ∧ wireOf (sendmsg1 d outs).log = []) := by
  have hw := kRetry_wire [d] false outs
  have hr := kRetry_msg_range [d] outs rfl
  unfold sendmsg1
  rcases hr with h | h
  · right; simp only [h, if_true]; refine ⟨mapErr_neg h, ?_⟩
    rw [hw]; have : (kRetry [d] false outs).r.toNat = 0 := by omega
    simp [this]
  · left; have : ¬ (kRetry [d] false outs).r < 0 := by omega
    simp only [this, if_false]; refine ⟨by simp, ?_⟩
    rw [hw, h]; simp

/-- invariant of the sendmmsg loop: what has gone to the OS is exactly the first `nsent` datagrams -/
theorem mmsgLoop_spec (all : List Dgram) (fuel i : Nat) (r : Int) (outs : List SOut) (log : List KCall)
    (hi : i ≤ all.length) (hw : wireOf log = all.take i) (hr : i = 0 → r ≤ 0) :
    wireOf (mmsgLoop all all.length fuel i i r outs log).log
        = all.take (mmsgLoop all all.length fuel i i r outs log).nsent
    ∧ (mmsgLoop all all.length fuel i i r outs log).nsent ≤ all.length
    ∧ ((mmsgLoop all all.length fuel i i r outs log).nsent = 0 →
        (mmsgLoop all all.length fuel i i r outs log).r ≤ 0) := by
  induction fuel generalizing i r outs log with
  | zero => simp [mmsgLoop, hw, hi]; exact hr
  | succ f ih =>
    simp only [mmsgLoop]
    split
    · rename_i hlt
      have hm : fill all i all.length 0 20 = (all.drop i).take 20 := by simpa using fill_eq all i 0 20
      have hne : (all.drop i).take 20 ≠ [] := by
        intro h
        have := congrArg List.length h
        simp at this; omega
      rw [hm]
      have hrange := kRetry_mmsg_range _ outs hne
      have hwk := kRetry_wire ((all.drop i).take 20) true outs
      generalize kRetry ((all.drop i).take 20) true outs = k at hrange hwk
      split
      · rename_i hlt1
        have h0 : k.r.toNat = 0 := by omega
        refine ⟨?_, hi, fun _ => by show k.r ≤ 0; omega⟩
        simp [wireOf_append, hw, hwk, h0]
      · rename_i hge
        have hlen : ((all.drop i).take 20).length = min 20 (all.length - i) := by simp
        have hk1 : 1 ≤ k.r.toNat := by omega
        have hk2 : k.r.toNat ≤ 20 ∧ k.r.toNat ≤ all.length - i := by omega
        apply ih
        · omega
        · rw [wireOf_append, hw, hwk, List.take_take]
          have : min k.r.toNat 20 = k.r.toNat := by omega
          rw [this, List.take_add]
        · intro h; omega
    · exact ⟨hw, hi, hr⟩

/-- uv__udp_sendmsgv: a positive return value n means exactly datagrams 0..n-1 went to the OS; a
non-positive one means nothing did — for every batch size and outcome schedule -/
theorem sendmsgv_spec (all : List Dgram) (outs : List SOut) :
    ((sendmsgv all outs).ret > 0 →
        wireOf (sendmsgv all outs).log = all.take (sendmsgv all outs).ret.toNat
        ∧ (sendmsgv all outs).ret ≤ all.length)
    ∧ ((sendmsgv all outs).ret ≤ 0 → wireOf (sendmsgv all outs).log = []) := by
  by_cases hc : all.length > 1
  · simp only [sendmsgv, hc, if_true]
    have h := mmsgLoop_spec all all.length 0 0 outs [] (Nat.zero_le _) (by simp [wireOf]) (fun _ => Int.le_refl 0)
    generalize mmsgLoop all all.length all.length 0 0 0 outs [] = l at h
    obtain ⟨h1, h2, h3⟩ := h
    simp only [vExit]
    by_cases hn : l.nsent > 0
    · simp only [hn, if_true]
      refine ⟨fun _ => ⟨by simpa using h1, by omega⟩, fun h => by omega⟩
    · have hz : l.nsent = 0 := by omega
      have hr := h3 hz
      simp only [hn, if_false]
      constructor
      · intro h; split at h
        · have := mapErr_neg (r := l.r) (by assumption); omega
        · omega
      · intro _; rw [h1, hz]; simp
  · simp only [sendmsgv, hc, if_false]
    match all, hc with
    | [], _ => simp [msgLoop, vExit, wireOf]
    | [d], _ =>
      simp only [msgLoop, List.nil_append]
      rcases sendmsg1_spec d outs with ⟨h1, h2⟩ | ⟨h1, h2⟩
      · simp [h1, vExit, h2]
      · have hne : (sendmsg1 d outs).r ≠ 0 := by omega
        have hm := mapErr_neg h1
        simp only [hne, ne_eq, not_false_eq_true, if_true, vExit, Nat.lt_irrefl, if_false, h1, h2]
        refine ⟨fun h => by omega, fun _ => trivial⟩
    | _ :: _ :: _, h => simp at h

/-- fuel of the sendmmsg loop is irrelevant once it covers the remaining datagrams -/
theorem mmsgLoop_fuel (all : List Dgram) (count f1 f2 i nsent : Nat) (r : Int) (outs : List SOut) (log : List KCall)
    (h1 : count - i ≤ f1) (h2 : count - i ≤ f2) :
    mmsgLoop all count f1 i nsent r outs log = mmsgLoop all count f2 i nsent r outs log := by
  induction f1 generalizing f2 i nsent r outs log with
  | zero =>
    cases f2 with
    | zero => rfl
    | succ f2 => have : ¬ i < count := by omega
                 simp [mmsgLoop, this]
  | succ f1 ih =>
    cases f2 with
    | zero => have : ¬ i < count := by omega
              simp [mmsgLoop, this]
    | succ f2 =>
      simp only [mmsgLoop]
      split
      · split
        · rfl
        · apply ih <;> omega
      · rfl

end UvModel.Udp
