import UvModel.Udp
/-! helper lemmas for C10 (UDP) -/
namespace UvModel.Udp

theorem errnoOf_pos (e : Nat) : 1 ≤ errnoOf e := by
  unfold errnoOf; split <;> omega

theorem wireOf_append (a b : List KCall) : wireOf (a ++ b) = wireOf a ++ wireOf b := by
  simp [wireOf]

theorem wireOf_nil : wireOf [] = [] := rfl

/-- what one (retried) system call hands to the OS -/
theorem kRetry_wire (m : List Dgram) (mmsg : Bool) (outs : List SOut) :
    wireOf (kRetry m mmsg outs).log = m.take (kRetry m mmsg outs).r.toNat := by
  induction outs with
  | nil => simp [kRetry, wireOf, KCall.accepted]
  | cons o t ih =>
    cases o with
    | sent k => simp [kRetry, wireOf, KCall.accepted]
    | err e =>
      simp only [kRetry]
      split
      · simp only [wireOf, List.flatMap_cons] at ih ⊢
        rw [ih]; simp [KCall.accepted, EINTR]
      · have := errnoOf_pos e
        simp [wireOf, KCall.accepted]

/-- result range of a sendmmsg call on a non-empty vector: error, or 1..vlen -/
theorem kRetry_mmsg_range (m : List Dgram) (outs : List SOut) (hm : m ≠ []) :
    (kRetry m true outs).r < 0 ∨ (1 ≤ (kRetry m true outs).r ∧ (kRetry m true outs).r ≤ m.length) := by
  have hl : 1 ≤ m.length := by cases m <;> simp_all
  induction outs with
  | nil => right; simp [kRetry]; omega
  | cons o t ih =>
    cases o with
    | sent k => right; simp [kRetry]; omega
    | err e =>
      simp only [kRetry]
      split
      · exact ih
      · left; have := errnoOf_pos e; simp; omega

/-- result of a sendmsg call: error or 1 -/
theorem kRetry_msg_range (m : List Dgram) (outs : List SOut) (hm : m.length = 1) :
    (kRetry m false outs).r < 0 ∨ (kRetry m false outs).r = 1 := by
  induction outs with
  | nil => right; simp [kRetry, hm]
  | cons o t ih =>
    cases o with
    | sent k => right; simp [kRetry]
    | err e =>
      simp only [kRetry]
      split
      · exact ih
      · left; have := errnoOf_pos e; simp; omega

theorem mapErr_neg {r : Int} (h : r < 0) : mapErr r < 0 := by
  unfold mapErr UV_EAGAIN; split <;> omega

/-- the inner fill loop collects exactly the next ≤ f datagrams starting at index i -/
theorem fill_eq (all : List Dgram) (i n f : Nat) :
    fill all i all.length n f = (all.drop (i + n)).take f := by
  induction f generalizing n with
  | zero => simp [fill]
  | succ f ih =>
    simp only [fill]
    split
    · rename_i h
      rw [ih (n + 1)]
      have : all.drop (i + n) = all[i + n] :: all.drop (i + n + 1) := List.drop_eq_getElem_cons h
      rw [this]; simp [List.getElem?_eq_getElem h, Nat.add_assoc]
    · rename_i h
      have : all.drop (i + n) = [] := List.drop_eq_nil_of_le (by omega)
      simp [this]

theorem sendmsg1_spec (d : Dgram) (outs : List SOut) :
    ((sendmsg1 d outs).r = 1 ∧ wireOf (sendmsg1 d outs).log = [d]) ∨
    ((sendmsg1 d outs).r < 0 ∧ wireOf (sendmsg1 d outs).log = []) := by
  have hw := kRetry_wire [d] false outs
  have hr := kRetry_msg_range [d] outs rfl
  unfold sendmsg1
  rcases hr with h | h
  · right; simp only [h, if_true]; refine ⟨mapErr_neg h, ?_⟩
    rw [hw]; have : (kRetry [d] false outs).r.toNat = 0 := by omega
    simp [this]
  · left; have : ¬ (kRetry [d] false outs).r < 0 := by omega
    simp only [this, if_false]; refine ⟨by simp, ?_⟩
    rw [hw, h]; simp

/-- invariant of the sendmmsg loop: what has gone to the OS is exactly the first `nsent` datagrams -/
theorem mmsgLoop_spec (all : List Dgram) (fuel i : Nat) (r : Int) (outs : List SOut) (log : List KCall)
    (hi : i ≤ all.length) (hw : wireOf log = all.take i) (hr : i = 0 → r ≤ 0) :
    wireOf (mmsgLoop all all.length fuel i i r outs log).log
        = all.take (mmsgLoop all all.length fuel i i r outs log).nsent
    ∧ (mmsgLoop all all.length fuel i i r outs log).nsent ≤ all.length
    ∧ ((mmsgLoop all all.length fuel i i r outs log).nsent = 0 →
        (mmsgLoop all all.length fuel i i r outs log).r ≤ 0) := by
  induction fuel generalizing i r outs log with
  | zero => simp [mmsgLoop, hw, hi]; exact hr
  | succ f ih =>
    simp only [mmsgLoop]
    split
    · rename_i hlt
      have hm : fill all i all.length 0 20 = (all.drop i).take 20 := by simpa using fill_eq all i 0 20
      have hne : (all.drop i).take 20 ≠ [] := by
        intro h
        have := congrArg List.length h
        simp at this; omega
      rw [hm]
      have hrange := kRetry_mmsg_range _ outs hne
      have hwk := kRetry_wire ((all.drop i).take 20) true outs
      generalize kRetry ((all.drop i).take 20) true outs = k at hrange hwk
      split
      · rename_i hlt1
        have h0 : k.r.toNat = 0 := by omega
        refine ⟨?_, hi, fun _ => by show k.r ≤ 0; omega⟩
        simp [wireOf_append, hw, hwk, h0]
      · rename_i hge
        have hlen : ((all.drop i).take 20).length = min 20 (all.length - i) := by simp
        have hk1 : 1 ≤ k.r.toNat := by omega
        have hk2 : k.r.toNat ≤ 20 ∧ k.r.toNat ≤ all.length - i := by omega
        apply ih
        · omega
        · rw [wireOf_append, hw, hwk, List.take_take]
          have : min k.r.toNat 20 = k.r.toNat := by omega
          rw [this, List.take_add]
        · intro h; omega
    · exact ⟨hw, hi, hr⟩

/-- uv__udp_sendmsgv: a positive return value n means exactly datagrams 0..n-1 went to the OS; a
non-positive one means nothing did — for every batch size and outcome schedule -/
theorem sendmsgv_spec (all : List Dgram) (outs : List SOut) :
    ((sendmsgv all outs).ret > 0 →
        wireOf (sendmsgv all outs).log = all.take (sendmsgv all outs).ret.toNat
        ∧ (sendmsgv all outs).ret ≤ all.length)
    ∧ ((sendmsgv all outs).ret ≤ 0 → wireOf (sendmsgv all outs).log = []) := by
  by_cases hc : all.length > 1
  · simp only [sendmsgv, hc, if_true]
    have h := mmsgLoop_spec all all.length 0 0 outs [] (Nat.zero_le _) (by simp [wireOf]) (fun _ => Int.le_refl 0)
    generalize mmsgLoop all all.length all.length 0 0 0 outs [] = l at h
    obtain ⟨h1, h2, h3⟩ := h
    simp only [vExit]
    by_cases hn : l.nsent > 0
    · simp only [hn, if_true]
      refine ⟨fun _ => ⟨by simpa using h1, by omega⟩, fun h => by omega⟩
    · have hz : l.nsent = 0 := by omega
      have hr := h3 hz
      simp only [hn, if_false]
      constructor
      · intro h; split at h
        · have := mapErr_neg (r := l.r) (by assumption); omega
        · omega
      · intro _; rw [h1, hz]; simp
  · simp only [sendmsgv, hc, if_false]
    match all, hc with
    | [], _ => simp [msgLoop, vExit, wireOf]
    | [d], _ =>
      simp only [msgLoop, List.nil_append]
      rcases sendmsg1_spec d outs with ⟨h1, h2⟩ | ⟨h1, h2⟩
      · simp [h1, vExit, h2]
      · have hne : (sendmsg1 d outs).r ≠ 0 := by omega
        have hm := mapErr_neg h1
        simp only [hne, ne_eq, not_false_eq_true, if_true, vExit, Nat.lt_irrefl, if_false, h1, h2]
        refine ⟨fun h => by omega, fun _ => trivial⟩
    | _ :: _ :: _, h => simp at h

/-- fuel of the sendmmsg loop is irrelevant once it covers the remaining datagrams -/
theorem mmsgLoop_fuel (all : List Dgram) (count f1 f2 i nsent : Nat) (r : Int) (outs : List SOut) (log : List KCall)
    (h1 : count - i ≤ f1) (h2 : count - i ≤ f2) :
    mmsgLoop all count f1 i nsent r outs log = mmsgLoop all count f2 i nsent r outs log := by
  induction f1 generalizing f2 i nsent r outs log with
  | zero =>
    cases f2 with
    | zero => rfl
    | succ f2 => have : ¬ i < count := by omega
                 simp [mmsgLoop, this]
  | succ f1 ih =>
    cases f2 with
    | zero => have : ¬ i < count := by omega
              simp [mmsgLoop, this]
    | succ f2 =>
      simp only [mmsgLoop]
      split
      · split
        · rfl
        · apply ih <;> omega
      · rfl

end UvModel.Udp

/-! ## receive path -/
namespace UvModel.Udp

def hasChunk (flags : Nat) : Bool := flags / FLAG_CHUNK % 2 == 1

/-- tiny specification of the buffer protocol: after `n` alloc_cb calls the handle is `idle` (owes nothing),
`refused` (alloc gave no buffer: one UV_ENOBUFS callback without buffer is due) or `owed len` (buffer n-1 of
length len is out: MMSG_CHUNK callbacks may point into it, exactly one non-chunk callback returns it) -/
inductive PMode
  | idle | refused | owed (len : Nat)
  deriving DecidableEq, Repr

structure PSt where
  n : Nat
  m : PMode
  deriving DecidableEq, Repr

def pstep (p : PSt) : REv → Option PSt
  | .alloc len =>
    match p.m with
    | .idle => some ⟨p.n + 1, if len = 0 then .refused else .owed len⟩
    | _ => none
  | .cb args =>
    match p.m, args.buf with
    | .refused, none => if args.nread = UV_ENOBUFS then some ⟨p.n, .idle⟩ else none
    | .owed len, some b =>
      if b.a + 1 = p.n then
        if hasChunk args.flags then (if b.off + b.len ≤ len then some p else none)
        else if b.off = 0 ∧ b.len = len then some ⟨p.n, .idle⟩ else none
      else none
    | _, _ => none

def runP (p : PSt) (evs : List REv) : Option PSt := evs.foldlM pstep p

theorem runP_append (p : PSt) (a b : List REv) : runP p (a ++ b) = (runP p a).bind (fun p' => runP p' b) := by
  simp [runP, List.foldlM_append]

theorem runP_snoc {p0 p p' : PSt} {evs : List REv} {e : REv} (h : runP p0 evs = some p) (hs : pstep p e = some p') :
    runP p0 (evs ++ [e]) = some p' := by
  rw [runP_append, h]; simp [runP, hs]

theorem takeDgs_length (n : Nat) (q : List RItem) : (takeDgs n q).1.length ≤ n := by
  induction n generalizing q with
  | zero => simp [takeDgs]
  | succ n ih =>
    match q with
    | [] => simp [takeDgs]
    | .dg d :: t => simp [takeDgs]; exact ih t
    | .err e :: t => simp [takeDgs]
    | .brk :: t => simp [takeDgs]

/-- recvmmsg with room for ≥ 1 message: an error, or between 1 and vlen datagrams -/
theorem kRecvmmsg_ok (vlen : Nat) (hv : 1 ≤ vlen) (q : List RItem) :
    ∀ ds, (kRecvmmsg vlen q).1 = .ok ds → ds ≠ [] ∧ ds.length ≤ vlen := by
  induction q with
  | nil => intro ds h; have : vlen ≠ 0 := by omega
           simp [kRecvmmsg, this] at h
  | cons it t ih =>
    cases it with
    | brk => simpa [kRecvmmsg] using ih
    | err e =>
      have : vlen ≠ 0 := by omega
      simp only [kRecvmmsg, this, if_false]
      split
      · exact ih
      · intro ds h; simp at h
    | dg d =>
      intro ds h
      simp only [kRecvmmsg] at h
      injection h with h
      subst h
      refine ⟨?_, takeDgs_length _ _⟩
      obtain ⟨v, rfl⟩ : ∃ v, vlen = v + 1 := ⟨vlen - 1, by omega⟩
      simp [takeDgs]

section
variable {σ : Type} (u : RecvUser σ)

theorem chunkLoop_paired (a len : Nat) (p0 : PSt) :
    ∀ (ds : List RDg) (k : Nat) (s : σ) (evs : List REv),
      (k + ds.length) * DGRAM_MAX ≤ len →
      runP p0 evs = some ⟨a + 1, .owed len⟩ →
      runP p0 (chunkLoop u a ds k s evs).2 = some ⟨a + 1, .owed len⟩ := by
  intro ds
  induction ds with
  | nil => intro k s evs _ hp; exact hp
  | cons d ds ih =>
    intro k s evs hb hp
    simp only [chunkLoop]
    split
    · have hfl : hasChunk (FLAG_CHUNK + if d.trunc = true then FLAG_PARTIAL else 0) = true := by
        cases d.trunc <;> decide
      apply ih
      · simp only [List.length_cons] at hb
        have : k + 1 + ds.length = k + (ds.length + 1) := by omega
        rw [this]; exact hb
      · apply runP_snoc hp
        simp only [pstep, hfl, if_true]
        have : k * DGRAM_MAX + DGRAM_MAX ≤ len := by
          simp only [List.length_cons] at hb
          have h1 : (k + 1) * DGRAM_MAX ≤ (k + (ds.length + 1)) * DGRAM_MAX := Nat.mul_le_mul_right _ (by omega)
          rw [Nat.add_mul] at h1; omega
        simp [this]
    · exact hp

theorem chunks_pos {len : Nat} (hlen : DGRAM_MAX ≤ len) : 1 ≤ min (len / DGRAM_MAX) 20 := by
  have : 1 ≤ len / DGRAM_MAX := (Nat.one_le_div_iff (by decide)).mpr hlen
  omega

theorem recvmmsg_nread (a len : Nat) (hlen : DGRAM_MAX ≤ len) (s : σ) (q : List RItem) :
    (recvmmsg u a len s q).nread = -1 ∨ 1 ≤ (recvmmsg u a len s q).nread := by
  have hk := kRecvmmsg_ok _ (chunks_pos hlen) q
  unfold recvmmsg
  generalize kRecvmmsg (min (len / DGRAM_MAX) 20) q = kr at hk
  match kr, hk with
  | (.err e, q'), _ => left; rfl
  | (.ok [], q'), hk => exact absurd rfl (hk [] rfl).1
  | (.ok (d :: ds), q'), _ =>
    right
    simp only [recvmmsgK]
    simp; omega

theorem recvmmsg_paired (a len : Nat) (hlen : DGRAM_MAX ≤ len) (p0 : PSt)
    (s : σ) (q : List RItem) (evs : List REv)
    (hp : runP p0 evs = some ⟨a + 1, .owed len⟩) :
    runP p0 (evs ++ (recvmmsg u a len s q).evs) = some ⟨a + 1, .idle⟩ := by
  have hk := kRecvmmsg_ok _ (chunks_pos hlen) q
  unfold recvmmsg
  generalize kRecvmmsg (min (len / DGRAM_MAX) 20) q = kr at hk
  match kr, hk with
  | (.err e, q'), _ =>
    apply runP_snoc hp
    simp [pstep, hasChunk, FLAG_CHUNK]
  | (.ok [], q'), hk => exact absurd rfl (hk [] rfl).1
  | (.ok (d :: ds), q'), hk =>
    have hl := (hk _ rfl).2
    have hb : (0 + (d :: ds).length) * DGRAM_MAX ≤ len := by
      rw [Nat.zero_add]
      have h1 : (d :: ds).length ≤ len / DGRAM_MAX := by omega
      have := Nat.mul_le_mul_right DGRAM_MAX h1
      have h2 := Nat.div_mul_le_self len DGRAM_MAX
      omega
    have hc := chunkLoop_paired u a len ⟨a + 1, .owed len⟩ (d :: ds) 0 s [] hb rfl
    simp only [recvmmsgK]
    rw [← List.append_assoc]
    apply runP_snoc (p := ⟨a + 1, .owed len⟩)
    · rw [runP_append, hp]; exact hc
    · simp [pstep, hasChunk, FLAG_CHUNK, FLAG_FREE]

/-- every alloc'd buffer is handed back exactly once; the loop stops within its fuel -/
theorem recvLoop_paired :
    ∀ (f a : Nat) (count : Int) (s : σ) (q : List RItem) (evs : List REv),
      runP ⟨0, .idle⟩ evs = some ⟨a, .idle⟩ →
      ∃ n, runP ⟨0, .idle⟩ (recvLoop u f a count s q evs).evs = some ⟨n, .idle⟩ := by
  intro f
  induction f with
  | zero => intro a count s q evs hp; exact ⟨a, hp⟩
  | succ f ih =>
    intro a count s q evs hp
    simp only [recvLoop]
    split
    · rename_i h0
      refine ⟨a + 1, ?_⟩
      apply runP_snoc (p := ⟨a + 1, .refused⟩)
      · apply runP_snoc hp; simp [pstep, h0]
      · simp [pstep]
    · rename_i h0
      have hp1 : runP ⟨0, .idle⟩ (evs ++ [.alloc (u.alloc s).2]) = some ⟨a + 1, .owed (u.alloc s).2⟩ := by
        apply runP_snoc hp; simp [pstep, h0]
      split
      · rename_i hm
        have hpm := recvmmsg_paired u a _ hm.2 ⟨0, .idle⟩ (u.alloc s).1 q _ hp1
        split
        · exact ih _ _ _ _ _ hpm
        · exact ⟨_, hpm⟩
      · have hp2 : runP ⟨0, .idle⟩ (evs ++ [.alloc (u.alloc s).2] ++
            [.cb (plainArgs ⟨a, 0, (u.alloc s).2⟩ (kRecvmsg q).1)]) = some ⟨a + 1, .idle⟩ := by
          apply runP_snoc hp1
          cases (kRecvmsg q).1 <;> simp [pstep, plainArgs, hasChunk, FLAG_CHUNK, FLAG_PARTIAL] <;>
            (split <;> simp)
        split
        · exact ⟨_, hp2⟩
        · split
          · exact ih _ _ _ _ _ hp2
          · exact ⟨_, hp2⟩

/-- the budget loop terminates: with fuel ≥ count the model never runs out of fuel -/
theorem recvLoop_terminates :
    ∀ (f a : Nat) (count : Int) (s : σ) (q : List RItem) (evs : List REv),
      0 < count → count ≤ f → (recvLoop u f a count s q evs).spun = false := by
  intro f
  induction f with
  | zero => intro a count s q evs h1 h2; omega
  | succ f ih =>
    intro a count s q evs h1 h2
    simp only [recvLoop]
    split
    · rfl
    · split
      · rename_i hm
        have hn := recvmmsg_nread u a _ hm.2 (u.alloc s).1 q
        split
        · rename_i hc
          apply ih
          · exact hc.2.1
          · unfold mmsgCount; split <;> omega
        · rfl
      · split
        · rfl
        · split
          · rename_i hc
            apply ih
            · exact hc.1
            · omega
          · rfl

@[simp] def isAlloc : REv → Bool
  | .alloc _ => true
  | _ => false

theorem chunkLoop_allocs (a : Nat) : ∀ (ds : List RDg) (k : Nat) (s : σ) (evs : List REv),
    (chunkLoop u a ds k s evs).2.countP isAlloc = evs.countP isAlloc := by
  intro ds
  induction ds with
  | nil => intros; rfl
  | cons d ds ih =>
    intro k s evs
    simp only [chunkLoop]
    split
    · rw [ih]; simp
    · rfl

theorem recvmmsg_allocs (a len : Nat) (s : σ) (q : List RItem) :
    (recvmmsg u a len s q).evs.countP isAlloc = 0 := by
  unfold recvmmsg
  generalize kRecvmmsg (min (len / DGRAM_MAX) 20) q = kr
  match kr with
  | (.err e, q') => simp [recvmmsgK]
  | (.ok [], q') => simp [recvmmsgK]
  | (.ok (d :: ds), q') =>
    have := chunkLoop_allocs u a (d :: ds) 0 s []
    simp only [recvmmsgK]
    simp_all

/-- at most `fuel` alloc_cb calls (= loop iterations) per invocation -/
theorem recvLoop_allocs :
    ∀ (f a : Nat) (count : Int) (s : σ) (q : List RItem) (evs : List REv),
      (recvLoop u f a count s q evs).evs.countP isAlloc ≤ evs.countP isAlloc + f := by
  intro f
  induction f with
  | zero => intros; simp [recvLoop]
  | succ f ih =>
    intro a count s q evs
    simp only [recvLoop]
    split
    · simp [List.countP_cons, List.countP_append]
    · split
      · have hm := recvmmsg_allocs u a (u.alloc s).2 (u.alloc s).1 q
        split
        · refine Nat.le_trans (ih _ _ _ _ _) ?_
          simp [List.countP_cons, List.countP_append, hm]; omega
        · simp [List.countP_cons, List.countP_append, hm]
      · split
        · simp [List.countP_cons, List.countP_append]
        · split
          · refine Nat.le_trans (ih _ _ _ _ _) ?_
            simp [List.countP_cons, List.countP_append]; omega
          · simp [List.countP_cons, List.countP_append]
end

end UvModel.Udp

/-! ## handle invariants -/
namespace UvModel.Udp

/-- requests still owed a callback, oldest first: completed queue then write queue -/
def H.owed (s : H) : List Dgram := s.cq.map (·.1) ++ s.wq

structure Inv (s : H) : Prop where
  count : s.sqCount = s.owed.length
  size : s.sqSize = ((s.owed.map Dgram.bytes).sum : Nat)
  reqs : s.activeReqs = s.owed.length
  part : s.accepted.map (·.seq) = s.cbs.map (·.1) ++ s.owed.map (·.seq)
  sub : (s.wire ++ s.wq).Sublist s.submitted
  seqs : s.submitted.map (·.seq) = List.range s.nseq
  acc : s.accepted.Sublist s.submitted

theorem sendmsgv_nonneg (all : List Dgram) (outs : List SOut) (h : (sendmsgv all outs).ret ≥ 0) :
    wireOf (sendmsgv all outs).log = all.take (sendmsgv all outs).ret.toNat
    ∧ (sendmsgv all outs).ret.toNat ≤ all.length := by
  have hs := sendmsgv_spec all outs
  by_cases h0 : (sendmsgv all outs).ret > 0
  · have := hs.1 h0; exact ⟨this.1, by omega⟩
  · have hz : (sendmsgv all outs).ret = 0 := by omega
    have := hs.2 (by omega)
    simp [this, hz]

theorem sendmsgv_neg (all : List Dgram) (outs : List SOut) (h : (sendmsgv all outs).ret < 0) :
    wireOf (sendmsgv all outs).log = [] := (sendmsgv_spec all outs).2 (by omega)

@[simp] theorem cbs_emit_ret (s : H) (r : Int) : (emit s (.ret r)).cbs = s.cbs := by simp [emit, H.cbs]
@[simp] theorem cbs_emit_skipped (s : H) : (emit s .skipped).cbs = s.cbs := by simp [emit, H.cbs]
@[simp] theorem cbs_emit_close (s : H) : (emit s .closeCb).cbs = s.cbs := by simp [emit, H.cbs]
@[simp] theorem cbs_emit_alloc (s : H) (k l : Nat) : (emit s (.alloc k l)).cbs = s.cbs := by simp [emit, H.cbs]
@[simp] theorem cbs_emit_recv (s : H) (n : Int) (b : Option BufRef) (p f : Nat) :
    (emit s (.recvCb n b p f)).cbs = s.cbs := by simp [emit, H.cbs]
@[simp] theorem cbs_emit_send (s : H) (q : Nat) (st : Int) : (emit s (.sendCb q st)).cbs = s.cbs ++ [(q, st)] := by
  simp [emit, H.cbs]

/-- Inv only depends on these fields -/
theorem Inv.of_eq {s t : H} (h : Inv s)
    (h1 : t.sqCount = s.sqCount) (h2 : t.sqSize = s.sqSize) (h3 : t.activeReqs = s.activeReqs)
    (h4 : t.accepted = s.accepted) (h5 : t.cbs = s.cbs) (h6 : t.cq = s.cq) (h7 : t.wq = s.wq)
    (h8 : t.klog = s.klog) (h9 : t.submitted = s.submitted) (h10 : t.nseq = s.nseq) : Inv t := by
  obtain ⟨a, b, c, d, e, f, g⟩ := h
  constructor <;> simp only [H.owed, H.wire, h1, h2, h3, h4, h5, h6, h7, h8, h9, h10] at * <;> assumption

theorem inv_emit {s : H} (h : Inv s) (e : Ev) (he : ∀ q st, e ≠ .sendCb q st) : Inv (emit s e) := by
  apply h.of_eq <;> try rfl
  cases e <;> simp_all

theorem sendmsgAgain_inv (f : Nat) (s : H) (h : Inv s) : Inv (sendmsgAgain f s) := by
  induction f generalizing s with
  | zero => exact h
  | succ f ih =>
    simp only [sendmsgAgain]
    split
    · rename_i hret
      have hv := sendmsgv_nonneg (s.wq.take 20) s.souts hret
      generalize sendmsgv (s.wq.take 20) s.souts = v at hv hret
      have hn : v.ret.toNat ≤ 20 ∧ v.ret.toNat ≤ s.wq.length := by
        have := hv.2; simp at this; omega
      have key : Inv { s with souts := v.outs, klog := s.klog ++ v.log,
                              cq := s.cq ++ (s.wq.take v.ret.toNat).map (fun d => (d, (d.bytes : Int))),
                              wq := s.wq.drop v.ret.toNat } := by
        obtain ⟨a, b, c, d, e, g, i⟩ := h
        have ho : (s.cq ++ (s.wq.take v.ret.toNat).map (fun d => (d, (d.bytes : Int)))).map (·.1)
            ++ s.wq.drop v.ret.toNat = s.cq.map (·.1) ++ s.wq := by
          simp [List.map_append, List.map_map, Function.comp_def, List.append_assoc]
        constructor <;> simp only [H.owed, H.wire, H.cbs] at * <;> try (rw [ho]; assumption)
        · rw [wireOf_append, hv.1, List.take_take]
          have : min v.ret.toNat 20 = v.ret.toNat := by omega
          rw [this, List.append_assoc, List.take_append_drop]; exact e
        · exact g
        · exact i
      split
      · exact key.of_eq rfl rfl rfl rfl rfl rfl rfl rfl rfl rfl
      · exact ih _ key
    · rename_i hret
      have hv := sendmsgv_neg (s.wq.take 20) s.souts (by omega)
      generalize sendmsgv (s.wq.take 20) s.souts = v at hv hret
      have key : Inv { s with souts := v.outs, klog := s.klog ++ v.log } := by
        obtain ⟨a, b, c, d, e, g, i⟩ := h
        constructor <;> simp only [H.owed, H.wire, H.cbs] at * <;> try assumption
        rw [wireOf_append, hv]; simpa using e
      split
      · exact key
      · split
        · exact key
        · rename_i d rest hwq
          obtain ⟨a, b, c, d', e, g, i⟩ := key
          have ho : (s.cq ++ [(d, v.ret)]).map (·.1) ++ rest = s.cq.map (·.1) ++ d :: rest := by simp
          simp only [H.owed, H.wire, H.cbs, hwq] at a b c d' e g i
          refine ⟨?_, ?_, ?_, ?_, ?_, ?_, ?_⟩ <;> simp only [H.owed, H.wire, H.cbs, feed]
          · rw [ho]; exact a
          · rw [ho]; exact b
          · rw [ho]; exact c
          · rw [ho]; exact d'
          · exact (List.Sublist.append_left (List.sublist_cons_self d rest) _).trans e
          · exact g
          · exact i

theorem uvSendmsg_inv (s : H) (h : Inv s) : Inv (uvSendmsg s) := by
  unfold uvSendmsg; split
  · exact h
  · exact sendmsgAgain_inv _ _ h

/-- a new datagram enters `submitted` (every send / try_send call) -/
theorem inv_submit {s : H} (h : Inv s) (ds : List Dgram) (hd : ds.map (·.seq) = (List.range ds.length).map (s.nseq + ·)) :
    Inv { s with nseq := s.nseq + ds.length, submitted := s.submitted ++ ds } := by
  obtain ⟨a, b, c, d, e, g, i⟩ := h
  refine ⟨a, b, c, d, ?_, ?_, ?_⟩
  · exact e.trans (List.sublist_append_left _ _)
  · show List.map _ (s.submitted ++ ds) = _
    rw [List.map_append, g, hd, List.range_add]
  · exact i.trans (List.sublist_append_left _ _)

theorem mkDgrams_seq (n c : Nat) (b : List Nat) (d : Nat) :
    (mkDgrams n c b d).map (·.seq) = (List.range (mkDgrams n c b d).length).map (n + ·) := by
  simp [mkDgrams, List.map_map, Function.comp_def]

theorem owed_nil_of_count {s : H} (h : Inv s) (h0 : s.sqCount = 0) : s.wq = [] ∧ s.cq = [] := by
  have := h.count; rw [h0] at this
  have hl : s.owed.length = 0 := by omega
  have := List.eq_nil_of_length_eq_zero hl
  simp [H.owed] at this; exact ⟨this.2, this.1⟩

theorem udpSend_inv (s : H) (d : Dgram) (en : Bool) (h : Inv s) (hd : d.seq = s.nseq) :
    Inv (udpSend { s with nseq := s.nseq + 1, submitted := s.submitted ++ [d] } d en).1 := by
  have h1 : Inv { s with nseq := s.nseq + 1, submitted := s.submitted ++ [d] } :=
    inv_submit h [d] (by simp [hd])
  unfold udpSend
  simp only
  split
  · apply h1.of_eq <;> try rfl
    show s.activeReqs + 1 - 1 = s.activeReqs; omega
  · have key : Inv { s with nseq := s.nseq + 1, submitted := s.submitted ++ [d], activeReqs := s.activeReqs + 1,
                             sqSize := s.sqSize + d.bytes, sqCount := s.sqCount + 1, wq := s.wq ++ [d],
                             active := true, accepted := s.accepted ++ [d] } := by
      obtain ⟨a, b, c, d', e, g, i⟩ := h
      obtain ⟨_, _, _, _, _, g1, _⟩ := h1
      have ho : s.cq.map (·.1) ++ (s.wq ++ [d]) = (s.cq.map (·.1) ++ s.wq) ++ [d] := by simp
      simp only [H.owed, H.wire, H.cbs] at a b c d' e g i g1
      refine ⟨?_, ?_, ?_, ?_, ?_, g1, ?_⟩ <;> simp only [H.owed, H.wire, H.cbs]
      · rw [ho, List.length_append, a]; simp
      · rw [ho, List.map_append, List.sum_append, b]; simp
      · rw [ho, List.length_append, c]; simp
      · rw [ho, List.map_append, List.map_append, d']; simp
      · rw [← List.append_assoc]; exact e.append (List.Sublist.refl _)
      · exact i.append (List.Sublist.refl _)
    split
    · have k2 := uvSendmsg_inv _ key
      split
      · exact k2.of_eq rfl rfl rfl rfl rfl rfl rfl rfl rfl rfl
      · exact k2
    · exact key.of_eq rfl rfl rfl rfl rfl rfl rfl rfl rfl rfl

theorem applyOp_inv (s : H) (op : Op) (h : Inv s) : Inv (applyOp s op) := by
  unfold applyOp
  split
  · exact inv_emit h _ (by intros; simp)
  · cases op with
    | send bufs dest en =>
      simp only
      have h1 : Inv { s with nseq := s.nseq + 1, submitted := s.submitted ++ [⟨s.nseq, bufs, dest⟩] } :=
        inv_submit h [⟨s.nseq, bufs, dest⟩] (by simp)
      split
      · exact inv_emit h1 _ (by intros; simp)
      · have := udpSend_inv s ⟨s.nseq, bufs, dest⟩ en h rfl
        generalize udpSend _ _ _ = r at this
        exact inv_emit this _ (by intros; simp)
    | trySend bufs dest =>
      simp only
      have h1 : Inv { s with nseq := s.nseq + 1, submitted := s.submitted ++ [⟨s.nseq, bufs, dest⟩] } :=
        inv_submit h [⟨s.nseq, bufs, dest⟩] (by simp)
      split
      · exact inv_emit h1 _ (by intros; simp)
      · split
        · exact inv_emit h1 _ (by intros; simp)
        · split
          · exact inv_emit h1 _ (by intros; simp)
          · rename_i hq
            have hq0 : s.sqCount = 0 := by simpa using hq
            obtain ⟨hwq, _⟩ := owed_nil_of_count h hq0
            apply inv_emit _ _ (by intros; simp)
            obtain ⟨a, b, c, d', e, g, i⟩ := h
            obtain ⟨_, _, _, _, _, g1, i1⟩ := h1
            simp only [H.owed, H.wire, H.cbs, hwq, List.append_nil] at a b c d' e g i g1 i1
            refine ⟨?_, ?_, ?_, ?_, ?_, g1, i1⟩ <;> simp only [H.owed, H.wire, H.cbs, hwq, List.append_nil]
            · exact a
            · exact b
            · exact c
            · exact d'
            · rw [wireOf_append]
              rcases sendmsg1_spec ⟨s.nseq, bufs, dest⟩ s.souts with ⟨_, hw⟩ | ⟨_, hw⟩
              · rw [hw]; exact e.append (List.Sublist.refl _)
              · rw [hw, List.append_nil]; exact e.trans (List.sublist_append_left _ _)
    | trySend2 count bufs dest =>
      simp only
      have hlen : (mkDgrams s.nseq count bufs dest).length = count := by simp [mkDgrams]
      have h1 : Inv { s with nseq := s.nseq + count, submitted := s.submitted ++ mkDgrams s.nseq count bufs dest } := by
        have := inv_submit h (mkDgrams s.nseq count bufs dest) (mkDgrams_seq _ _ _ _)
        rw [hlen] at this; exact this
      split
      · exact inv_emit h1 _ (by intros; simp)
      · split
        · exact inv_emit h1 _ (by intros; simp)
        · rename_i hq
          split
          · exact inv_emit h1 _ (by intros; simp)
          · have hq0 : s.sqCount = 0 := by
              have := h.count; simp only [gt_iff_lt, Int.not_lt] at hq; omega
            obtain ⟨hwq, _⟩ := owed_nil_of_count h hq0
            apply inv_emit _ _ (by intros; simp)
            obtain ⟨a, b, c, d', e, g, i⟩ := h
            obtain ⟨_, _, _, _, _, g1, i1⟩ := h1
            simp only [H.owed, H.wire, H.cbs, hwq, List.append_nil] at a b c d' e g i g1 i1
            refine ⟨?_, ?_, ?_, ?_, ?_, g1, i1⟩ <;> simp only [H.owed, H.wire, H.cbs, hwq, List.append_nil]
            · exact a
            · exact b
            · exact c
            · exact d'
            · rw [wireOf_append]
              have hs := sendmsgv_spec (mkDgrams s.nseq count bufs dest) s.souts
              by_cases hp : (sendmsgv (mkDgrams s.nseq count bufs dest) s.souts).ret > 0
              · rw [(hs.1 hp).1]; exact e.append (List.take_sublist _ _)
              · rw [hs.2 (by omega), List.append_nil]; exact e.trans (List.sublist_append_left _ _)
    | recvStart =>
      simp only
      split
      · exact inv_emit h _ (by intros; simp)
      · apply inv_emit _ _ (by intros; simp)
        exact h.of_eq rfl rfl rfl rfl rfl rfl rfl rfl rfl rfl
    | recvStop =>
      simp only
      apply inv_emit _ _ (by intros; simp)
      exact h.of_eq rfl rfl rfl rfl rfl rfl rfl rfl rfl rfl
    | close =>
      simp only
      exact h.of_eq rfl rfl rfl rfl rfl rfl rfl rfl rfl rfl

theorem applyOps_inv (ops : List Op) (s : H) (h : Inv s) : Inv (applyOps s ops) := by
  induction ops generalizing s with
  | nil => exact h
  | cons op ops ih => exact ih _ (applyOp_inv s op h)

theorem inv_pop {s : H} (h : Inv s) {d : Dgram} {st : Int} {rest : List (Dgram × Int)}
    (hcq : s.cq = (d, st) :: rest) (st' : Int) :
    Inv (emit { s with cq := rest, activeReqs := s.activeReqs - 1, sqSize := s.sqSize - d.bytes,
                       sqCount := s.sqCount - 1, nSendCb := s.nSendCb + 1 } (.sendCb d.seq st')) := by
  obtain ⟨a, b, c, d', e, g, i⟩ := h
  simp only [H.owed, H.wire, hcq, List.map_cons, List.cons_append, List.length_cons, List.sum_cons] at a b c d' e g i
  refine ⟨?_, ?_, ?_, ?_, e, g, i⟩ <;> simp only [H.owed, H.wire, cbs_emit_send] <;> simp only [emit]
  · rw [a]; simp
  · rw [b]; simp; omega
  · rw [c]; simp
  · rw [d']; simp [H.cbs]

theorem runCompletedLoop_inv (sc : Script) (f : Nat) (s : H) (h : Inv s) : Inv (runCompletedLoop sc f s) := by
  induction f generalizing s with
  | zero => exact h
  | succ f ih =>
    simp only [runCompletedLoop]
    split
    · exact h
    · rename_i d st rest hcq
      apply ih
      apply applyOps_inv
      exact inv_pop h hcq _

theorem runCompleted_inv (sc : Script) (s : H) (h : Inv s) : Inv (runCompleted sc s) := by
  unfold runCompleted
  simp only
  have h1 : Inv { s with processing := true } := h.of_eq rfl rfl rfl rfl rfl rfl rfl rfl rfl rfl
  have h2 := runCompletedLoop_inv sc s.cq.length _ h1
  split <;> exact h2.of_eq rfl rfl rfl rfl rfl rfl rfl rfl rfl rfl

theorem ioOut_inv (sc : Script) (s : H) (h : Inv s) : Inv (ioOut sc s) := by
  unfold ioOut; split
  · exact runCompleted_inv _ _ (uvSendmsg_inv _ h)
  · exact h

theorem finishClose_inv (sc : Script) (s : H) (h : Inv s) : Inv (finishClose sc s) := by
  unfold finishClose; split
  · exact h
  · simp only
    apply inv_emit _ _ (by intros; simp)
    refine (runCompleted_inv sc _ ?_).of_eq rfl rfl rfl rfl rfl rfl rfl rfl rfl rfl
    obtain ⟨a, b, c, d', e, g, i⟩ := h
    have ho : (s.cq ++ s.wq.map (fun d => (d, UV_ECANCELED))).map (·.1) ++ [] = s.cq.map (·.1) ++ s.wq := by
      simp [List.map_map, Function.comp_def]
    simp only [H.owed, H.wire, H.cbs] at a b c d' e g i
    refine ⟨?_, ?_, ?_, ?_, ?_, g, i⟩ <;> simp only [H.owed, H.wire, H.cbs]
    · rw [ho]; exact a
    · rw [ho]; exact b
    · rw [ho]; exact c
    · rw [ho]; exact d'
    · rw [List.append_nil]; exact (List.sublist_append_left _ _).trans e

section
variable {σ : Type} (u : RecvUser σ) (P : σ → Prop)
  (hcb : ∀ s a, P s → P (u.cb s a)) (hal : ∀ s, P s → P (u.alloc s).1)
include hcb hal

theorem chunkLoop_pres (a : Nat) : ∀ (ds : List RDg) (k : Nat) (s : σ) (evs : List REv), P s →
    P (chunkLoop u a ds k s evs).1 := by
  intro ds
  induction ds with
  | nil => intro _ _ _ h; exact h
  | cons d ds ih =>
    intro k s evs h
    simp only [chunkLoop]; split
    · exact ih _ _ _ (hcb _ _ h)
    · exact h

theorem recvmmsg_pres (a len : Nat) (s : σ) (q : List RItem) (h : P s) : P (recvmmsg u a len s q).s := by
  unfold recvmmsg
  generalize kRecvmmsg (min (len / DGRAM_MAX) 20) q = kr
  match kr with
  | (.err e, q') => exact hcb _ _ h
  | (.ok [], q') => exact hcb _ _ h
  | (.ok (d :: ds), q') =>
    have := chunkLoop_pres u P hcb hal a (d :: ds) 0 s [] h
    simp only [recvmmsgK]
    exact hcb _ _ this

theorem recvLoop_pres : ∀ (f a : Nat) (count : Int) (s : σ) (q : List RItem) (evs : List REv), P s →
    P (recvLoop u f a count s q evs).s := by
  intro f
  induction f with
  | zero => intro _ _ _ _ _ h; exact h
  | succ f ih =>
    intro a count s q evs h
    have ha := hal s h
    simp only [recvLoop]
    split
    · exact hcb _ _ ha
    · split
      · have hm := recvmmsg_pres u P hcb hal a (u.alloc s).2 (u.alloc s).1 q ha
        split
        · exact ih _ _ _ _ _ hm
        · exact hm
      · have hc := hcb (u.alloc s).1 (plainArgs ⟨a, 0, (u.alloc s).2⟩ (kRecvmsg q).1) ha
        split
        · exact hc
        · split
          · exact ih _ _ _ _ _ hc
          · exact hc
end

theorem ioIn_inv (sc : Script) (s : H) (q : List RItem) (h : Inv s) : Inv (ioIn sc s q).1 := by
  unfold ioIn; split
  · apply recvLoop_pres (hUser sc) Inv
    · intro s a hs
      apply applyOps_inv
      apply inv_emit _ _ (by intros; simp)
      exact hs.of_eq rfl rfl rfl rfl rfl rfl rfl rfl rfl rfl
    · intro s hs
      show Inv (emit _ _)
      apply inv_emit _ _ (by intros; simp)
      exact hs.of_eq rfl rfl rfl rfl rfl rfl rfl rfl rfl rfl
    · exact h
  · exact h

theorem pendingRounds_inv (sc : Script) (n : Nat) (s : H) (h : Inv s) : Inv (pendingRounds sc n s) := by
  induction n generalizing s with
  | zero => exact h
  | succ n ih =>
    simp only [pendingRounds]; split
    · exact ih _ (ioOut_inv _ _ (h.of_eq rfl rfl rfl rfl rfl rfl rfl rfl rfl rfl))
    · exact h

theorem uvRun_inv (sc : Script) (s : H) (q : List RItem) (h : Inv s) : Inv (uvRun sc s q).1 := by
  unfold uvRun
  simp only
  have h1 := pendingRounds_inv sc 1 s h
  generalize pendingRounds sc 1 s = s1 at h1
  apply finishClose_inv
  apply pendingRounds_inv
  have h2 : Inv (if s1.pollin = true then ioIn sc s1 q else (s1, q, false)).1 := by
    split
    · exact ioIn_inv _ _ _ h1
    · exact h1
  split
  · exact ioOut_inv _ _ h2
  · exact h2

theorem inv_init (c m : Bool) : Inv { connected := c, mmsg := m } := by
  refine ⟨?_, ?_, ?_, ?_, ?_, ?_, ?_⟩ <;> simp [H.owed, H.wire, H.cbs, wireOf]

end UvModel.Udp
