import UvModel.Lemmas.IoWatchLemmas
/-! C14: the kernel-side invariant `KCore` carried through the composite operations
(uv_poll_stop/start/init/close, uv__io_close, descriptor open/close/dup, user ops, callbacks, dispatch) -/
namespace UvModel.IoWatch

/-- full invariant: registry + kernel side -/
structure FInv (s : St) : Prop where
  si : SInv s
  kc : KCore s

theorem KCore.emit {s : St} (c : KCore s) (e : Ev) : KCore (emit s e) := c.frame rfl rfl rfl rfl rfl rfl
theorem KCore.abort {s : St} (c : KCore s) : KCore (abort s) := c.frame rfl rfl rfl rfl rfl rfl

theorem stopped_all {s : St} (i : SInv s) (c : KCore s) (id : Nat) :
    (getW (ioStop s id Mask.all4) id).pevents = Mask.none := by
  have hd : (getW s id).pevents.diff Mask.all4 = Mask.none := by
    have := i.mask4 id
    cases hp : (getW s id).pevents
    rw [hp] at this; simp at this
    simp [Mask.diff, Mask.all4, Mask.none, this]
  rw [(ioStop_spec s id Mask.all4).1 id]
  by_cases hc : id = id ∧ id < s.ws.length ∧ (getW s id).fd < s.watchers.length
  · rw [if_pos hc, if_pos hd]; exact hd
  · rw [if_neg hc]
    by_cases hp : (getW s id).pevents = Mask.none
    · exact hp
    · exfalso
      have hl : id < s.ws.length := by
        by_cases h : id < s.ws.length
        · exact h
        · rw [getW_oob s id (by omega)] at hp; exact absurd rfl hp
      exact hc ⟨rfl, hl, watcherAt_lt (c.live id hl hp).2.2.2⟩

theorem ioStop_fields (s : St) (id : Nat) (m : Mask) (j : Nat) :
    (getW (ioStop s id m) j).fd = (getW s j).fd ∧ (getW (ioStop s id m) j).closing = (getW s j).closing ∧
    (getW (ioStop s id m) j).clean = (getW s j).clean ∧ (getW (ioStop s id m) j).poll = (getW s j).poll := by
  rw [(ioStop_spec s id m).1 j]; split
  · rename_i e; rw [e.1]; split <;> exact ⟨rfl, rfl, rfl, rfl⟩
  · exact ⟨rfl, rfl, rfl, rfl⟩

theorem unarmed_on_fd {s : St} (c : KCore s) (id : Nat) (hid : id < s.ws.length)
    (hcl : (getW s id).closing = false) (hp : (getW s id).pevents = Mask.none) :
    ∀ j, j < s.ws.length → (getW s j).fd = (getW s id).fd → (getW s j).events = Mask.none := by
  intro j hj hfd
  by_cases he : (getW s j).events = Mask.none
  · exact he
  · exfalso
    have hpj : (getW s j).pevents ≠ Mask.none := fun h0 => he (c.quiet j h0)
    have := c.uniq j id hj hid hfd (c.live j hj hpj).1 hcl
    subst this; exact hpj hp

theorem invalidate_frame (s : St) (fd : Nat) :
    (invalidate s fd).ws = s.ws ∧ (invalidate s fd).watchers = s.watchers ∧ (invalidate s fd).wq = s.wq ∧
    (∀ f, (invalidate s fd).k.ofdAt f = s.k.ofdAt f) := by
  unfold invalidate; split
  · exact ⟨rfl, rfl, rfl, fun f => ctl_ofdAt _ _ _ _ _ _⟩
  · exact ⟨rfl, rfl, rfl, fun f => ctl_ofdAt _ _ _ _ _ _⟩

/-- poll.c:102-108 preserves the invariant and leaves the handle stopped with no kernel entry on its fd -/
theorem pollStop_kcore {s : St} (f : FInv s) (id : Nat) (hid : id < s.ws.length)
    (hcl : (getW s id).closing = false) :
    KCore (pollStop s id) ∧ (getW (pollStop s id) id).pevents = Mask.none ∧
    (getW (pollStop s id) id).closing = false ∧ (getW (pollStop s id) id).fd = (getW s id).fd ∧
    (getW (pollStop s id) id).poll = (getW s id).poll ∧
    (∀ o, (pollStop s id).k.maskAt o (getW s id).fd = none) ∧
    (pollStop s id).ws.length = s.ws.length ∧ (∀ g, (pollStop s id).k.ofdAt g = s.k.ofdAt g) ∧
    (pollStop s id).watchers = (ioStop s id Mask.all4).watchers := by
  generalize hs1 : ioStop s id Mask.all4 = s1
  have c1 : KCore s1 := by rw [← hs1]; exact f.kc.stop f.si id _
  have p1 : (getW s1 id).pevents = Mask.none := by rw [← hs1]; exact stopped_all f.si f.kc id
  have f1 := ioStop_fields s id Mask.all4 id; rw [hs1] at f1
  have l1 : s1.ws.length = s.ws.length := by rw [← hs1]; exact (ioStop_spec s id _).2.1
  have k1 : s1.k = s.k := by rw [← hs1]; exact (ioStop_k s id _).1
  generalize hs2 : setW s1 id { getW s1 id with active := false } = s2
  have c2 : KCore s2 := by rw [← hs2]; exact c1.setFlags id _ rfl rfl rfl rfl rfl
  have g2 : getW s2 id = { getW s1 id with active := false } := by
    rw [← hs2, getW_setW]; simp [l1, hid]
  have l2 : s2.ws.length = s.ws.length := by rw [← hs2]; simp [l1]
  have k2 : s2.k = s.k := by rw [← hs2]; exact k1
  have w2 : s2.watchers = s1.watchers := by rw [← hs2]; rfl
  have fd2 : (getW s2 id).fd = (getW s id).fd := by rw [g2]; exact f1.1
  have hun := unarmed_on_fd c2 id (by omega) (by rw [g2]; exact f1.2.1.trans hcl) (by rw [g2]; exact p1)
  generalize hs3 : invalidate s2 (getW s2 id).fd = s3
  obtain ⟨c3, hno⟩ := c2.invalidate (getW s2 id).fd hun
  rw [hs3] at c3 hno
  obtain ⟨iw, iwa, _, iof⟩ := invalidate_frame s2 (getW s2 id).fd
  rw [hs3] at iw iwa iof
  have g3 : getW s3 id = getW s2 id := by simp [getW, iw]
  have e : pollStop s id = setW s3 id { getW s3 id with clean := true } := by
    rw [← hs3, ← hs2, ← hs1]; rfl
  have c4 : KCore (setW s3 id { getW s3 id with clean := true }) :=
    c3.retire id _ rfl (by rw [g3, g2]; exact p1) (by rw [g3]; exact c2.quiet id (by rw [g2]; exact p1))
      (by rw [g3, g2]; exact p1) (Or.inr rfl) (by rw [g3]; exact hno)
  have g4 : getW (setW s3 id { getW s3 id with clean := true }) id = { getW s3 id with clean := true } := by
    rw [getW_setW]; simp [iw, l2, hid]
  rw [e]
  refine ⟨c4, by rw [g4, g3, g2]; exact p1, by rw [g4, g3, g2]; exact f1.2.1.trans hcl,
    by rw [g4, g3, g2]; exact f1.1, by rw [g4, g3, g2]; exact f1.2.2.2, ?_, by simp [iw, l2], ?_, ?_⟩
  · intro o; rw [← fd2]; exact hno o
  · intro g; show s3.k.ofdAt g = _; rw [iof, k2]
  · show s3.watchers = _; rw [iwa, w2]

theorem ioClose_kcore {s : St} (f : FInv s) (id : Nat) (hid : id < s.ws.length)
    (hcl : (getW s id).closing = false) : KCore (ioClose s id) := by
  generalize hs1 : ioStop s id Mask.all4 = s1
  have c1 : KCore s1 := by rw [← hs1]; exact f.kc.stop f.si id _
  have p1 : (getW s1 id).pevents = Mask.none := by rw [← hs1]; exact stopped_all f.si f.kc id
  have f1 := ioStop_fields s id Mask.all4 id; rw [hs1] at f1
  have l1 : s1.ws.length = s.ws.length := by rw [← hs1]; exact (ioStop_spec s id _).2.1
  generalize hs2 : ({ s1 with pending := s1.pending.erase id, pendingRun := s1.pendingRun.erase id } : St) = s2
  have c2 : KCore s2 := by rw [← hs2]; exact c1.frame rfl rfl rfl rfl rfl rfl
  have g2 : getW s2 id = getW s1 id := by rw [← hs2]; rfl
  have l2 : s2.ws.length = s.ws.length := by rw [← hs2]; exact l1
  have hun := unarmed_on_fd c2 id (by omega) (by rw [g2]; exact f1.2.1.trans hcl) (by rw [g2]; exact p1)
  generalize hs3 : invalidate s2 (getW s2 id).fd = s3
  obtain ⟨c3, hno⟩ := c2.invalidate (getW s2 id).fd hun
  rw [hs3] at c3 hno
  obtain ⟨iw, _, _, _⟩ := invalidate_frame s2 (getW s2 id).fd
  rw [hs3] at iw
  have g3 : getW s3 id = getW s2 id := by simp [getW, iw]
  have e : ioClose s id = setW s3 id { getW s3 id with closing := true } := by
    rw [← hs3, ← hs2, ← hs1]; rfl
  rw [e]
  exact c3.retire id _ rfl (by rw [g3, g2]; exact p1) (by rw [g3]; exact c2.quiet id (by rw [g2]; exact p1))
    (by rw [g3, g2]; exact p1) (Or.inl rfl) (by rw [g3]; exact hno)

theorem pollClose_kcore {s : St} (f : FInv s) (id : Nat) (hid : id < s.ws.length)
    (hcl : (getW s id).closing = false) : KCore (pollClose s id) := by
  obtain ⟨c, p, _, hfd, _, hno, hl, _, _⟩ := pollStop_kcore f id hid hcl
  have c5 : KCore (setW (pollStop s id) id { getW (pollStop s id) id with closing := true }) :=
    c.retire id _ rfl p (c.quiet id p) p (Or.inl rfl) (by rw [hfd]; exact hno)
  unfold pollClose
  exact c5.frame rfl rfl rfl rfl rfl rfl

/-- nobody alive on `fd` -/
theorem free_of_not_taken {s : St} (c : KCore s) (fd : Nat) (h : fdTaken s fd = false) :
    ∀ j, j < s.ws.length → (getW s j).fd = fd → (getW s j).closing = true := by
  intro j hj hfd
  simp [fdTaken, c.multi] at h
  have hm : s.ws[j] ∈ s.ws := List.getElem_mem hj
  have := h _ hm
  have hg : getW s j = s.ws[j] := by simp [getW, List.getD_eq_getElem?_getD, hj]
  rw [hg] at hfd ⊢
  exact this hfd

theorem pollInit_eq (s : St) (fd : Nat) :
    pollInit s fd =
      if fdExists s fd then (s, -17, none)
      else if (ctl s .add fd Mask.pollin none).2 ≠ 0 ∧ (ctl s .add fd Mask.pollin none).2 ≠ -17 then
        ((ctl s .add fd Mask.pollin none).1, (ctl s .add fd Mask.pollin none).2, none)
      else if (ctl (ctl s .add fd Mask.pollin none).1 .del fd Mask.none none).2 ≠ 0 then
        (abort (ctl (ctl s .add fd Mask.pollin none).1 .del fd Mask.none none).1, 0, none)
      else
        ({ (ctl (ctl s .add fd Mask.pollin none).1 .del fd Mask.none none).1 with
            ws := (ctl (ctl s .add fd Mask.pollin none).1 .del fd Mask.none none).1.ws ++ [{ fd := fd, poll := true }] },
          0, some (ctl (ctl s .add fd Mask.pollin none).1 .del fd Mask.none none).1.ws.length) := by
  unfold pollInit; rfl

theorem pollInit_kcore {s : St} (c : KCore s) (fd : Nat)
    (hg : fdTaken s fd = false ∨ fdExists s fd = true) : KCore (pollInit s fd).1 := by
  rw [pollInit_eq]
  by_cases hx : fdExists s fd = true
  · rw [if_pos hx]; exact c
  · rw [if_neg hx]
    have hfree := free_of_not_taken c fd (by rcases hg with h | h; exact h; exact absurd h hx)
    have hun : ∀ id, id < s.ws.length → (getW s id).fd = fd → (getW s id).events = Mask.none := by
      intro id hid hfd
      by_cases he : (getW s id).events = Mask.none
      · exact he
      · have hp : (getW s id).pevents ≠ Mask.none := fun h0 => he (c.quiet id h0)
        have := (c.live id hid hp).1; rw [hfree id hid hfd] at this; cases this
    -- the probe: ADD then DEL
    have key : KCore (ctl (ctl s .add fd Mask.pollin none).1 .del fd Mask.none none).1 := by
      cases ho : s.k.ofdAt fd with
      | none =>
        have e1 : (ctl s .add fd Mask.pollin none).1.k = s.k := by
          show (s.k.ctl .add fd Mask.pollin none).1 = s.k; rw [ctl_closed _ _ _ _ _ ho]
        have c1 : KCore (ctl s .add fd Mask.pollin none).1 := c.frame rfl rfl rfl e1 rfl rfl
        exact (c1.ctlDel fd _ _ hun).1
      | some o =>
        cases hm : s.k.maskAt o fd with
        | some x =>
          have hne : s.k.maskAt o fd ≠ none := by rw [hm]; simp
          have e1 : (ctl s .add fd Mask.pollin none).1.k = s.k := by
            show (s.k.ctl .add fd Mask.pollin none).1 = s.k; rw [ctl_add_exists _ _ _ _ _ ho hne]
          have c1 : KCore (ctl s .add fd Mask.pollin none).1 := c.frame rfl rfl rfl e1 rfl rfl
          exact (c1.ctlDel fd _ _ hun).1
        | none =>
          have a := ctl_add_new s.k fd o Mask.pollin none ho hm
          refine c.congr rfl rfl rfl ⟨fun g => ?_, fun o' g => ?_⟩ rfl rfl
          · show ((s.k.ctl .add fd Mask.pollin none).1.ctl .del fd Mask.none none).1.ofdAt g = _
            rw [ctl_ofdAt, ctl_ofdAt]
          · show ((s.k.ctl .add fd Mask.pollin none).1.ctl .del fd Mask.none none).1.maskAt o' g = _
            rw [ctl_del_maskAt _ _ o _ _ (by rw [ctl_ofdAt]; exact ho), a.2]
            by_cases hk : o' = o ∧ g = fd
            · rw [if_pos hk]; obtain ⟨rfl, rfl⟩ := hk; exact hm.symm
            · rw [if_neg hk, if_neg hk]
    by_cases hr : (ctl s .add fd Mask.pollin none).2 ≠ 0 ∧ (ctl s .add fd Mask.pollin none).2 ≠ -17
    · rw [if_pos hr]
      cases ho : s.k.ofdAt fd with
      | none =>
        have e1 : (ctl s .add fd Mask.pollin none).1.k = s.k := by
          show (s.k.ctl .add fd Mask.pollin none).1 = s.k; rw [ctl_closed _ _ _ _ _ ho]
        exact c.frame rfl rfl rfl e1 rfl rfl
      | some o =>
        exfalso
        cases hm : s.k.maskAt o fd with
        | none =>
          have r : (ctl s .add fd Mask.pollin none).2 = 0 := (ctl_add_new s.k fd o Mask.pollin none ho hm).1
          exact hr.1 r
        | some x =>
          have hne : s.k.maskAt o fd ≠ none := by rw [hm]; simp
          have r : (ctl s .add fd Mask.pollin none).2 = -17 := by
            show (s.k.ctl .add fd Mask.pollin none).2 = -17; rw [ctl_add_exists _ _ _ _ _ ho hne]
          exact hr.2 r
    · rw [if_neg hr]
      by_cases hd : (ctl (ctl s .add fd Mask.pollin none).1 .del fd Mask.none none).2 ≠ 0
      · rw [if_pos hd]; exact key.abort
      · rw [if_neg hd]
        exact key.push { fd := fd, poll := true } rfl rfl (fun j hj hfd => hfree j hj hfd)

theorem watcherAt_after_stop (s : St) (id : Nat) (fd : Nat)
    (h : watcherAt s fd = none ∨ watcherAt s fd = some id) (i : SInv s) :
    watcherAt (ioStop s id Mask.all4) fd = none ∨ watcherAt (ioStop s id Mask.all4) fd = some id := by
  rw [(ioStop_spec s id Mask.all4).2.2.2.1 fd]
  split
  · left; rfl
  · exact h

theorem pollStart_kcore {s : St} (f : FInv s) (id : Nat) (u : UvEv) (hid : id < s.ws.length)
    (hcl : (getW s id).closing = false) (hopen : (s.k.ofdAt (getW s id).fd).isSome = true) :
    KCore (pollStart s id u).1 := by
  unfold pollStart; simp only []
  split
  · exact f.kc
  · rename_i hg
    obtain ⟨c, p, hcl', hfd, _, _, hl, hof, hwat⟩ := pollStop_kcore f id hid hcl
    split
    · exact c
    · rename_i hu
      have hw0 : watcherAt s (getW s id).fd = none ∨ watcherAt s (getW s id).fd = some id := by
        by_cases h1 : watcherAt s (getW s id).fd = some id
        · right; exact h1
        · left
          cases hh : watcherAt s (getW s id).fd with
          | none => rfl
          | some x =>
            exfalso; apply hg
            refine ⟨by simp [fdExists, hh], ?_⟩
            rw [hh] at h1 ⊢; exact h1
      have hw : watcherAt (pollStop s id) (getW (pollStop s id) id).fd = none ∨
          watcherAt (pollStop s id) (getW (pollStop s id) id).fd = some id := by
        rw [hfd]
        have := watcherAt_after_stop s id (getW s id).fd hw0 f.si
        simpa only [watcherAt, hwat] using this
      have cs := c.start id (uvToPoll u) (by omega) (uvToPoll_ne u hu) hcl'
        (by rw [hfd, hof]; exact hopen) hw
      exact cs.setFlags id _ rfl rfl rfl rfl rfl

/-! descriptor table -/

theorem lookup_append_new (l : List (Nat × Nat)) (fd o f : Nat) (h : l.lookup fd = none) :
    (l ++ [(fd, o)]).lookup f = if f = fd then some o else l.lookup f := by
  induction l with
  | nil =>
    simp only [List.nil_append, List.lookup_cons, List.lookup_nil]
    by_cases e : f = fd
    · simp [e]
    · have : (f == fd) = false := by simp [e]
      simp [this, e]
  | cons a r ih =>
    obtain ⟨a1, a2⟩ := a
    simp only [List.cons_append, List.lookup_cons] at h ⊢
    cases hfa : (f == a1)
    · simp only []
      have h' : r.lookup fd = none := by
        cases hda : (fd == a1)
        · rw [hda] at h; exact h
        · rw [hda] at h; cases h
      exact ih h'
    · simp only []
      have e1 : f = a1 := by simpa using hfa
      have : ¬ f = fd := by
        intro e2; subst e2; rw [hfa] at h; cases h
      rw [if_neg this]

theorem lookup_filter_ne (l : List (Nat × Nat)) (fd f : Nat) :
    (l.filter fun p => p.1 != fd).lookup f = if f = fd then none else l.lookup f := by
  induction l with
  | nil => simp
  | cons a r ih =>
    obtain ⟨a1, a2⟩ := a
    simp only [List.filter_cons]
    by_cases e : a1 = fd
    · have : ((a1, a2).1 != fd) = false := by simp [e]
      simp only [this, Bool.false_eq_true, ↓reduceIte, ih, List.lookup_cons]
      by_cases e2 : f = fd
      · simp [e2]
      · rw [if_neg e2]
        have : (f == a1) = false := by simp [e, e2]
        simp only [if_neg e2, this]
    · have : ((a1, a2).1 != fd) = true := by simp [e]
      simp only [this, ↓reduceIte, List.lookup_cons, ih]
      cases hfa : (f == a1)
      · rfl
      · have e1 : f = a1 := by simpa using hfa
        have : ¬ f = fd := by rw [e1]; exact e
        simp [this]

theorem refd_of_ofdAt (k : Kernel) (fd o : Nat) (h : k.ofdAt fd = some o) : k.refd o = true := by
  have hm : (fd, o) ∈ k.fdtab := by
    unfold Kernel.ofdAt at h
    generalize k.fdtab = l at h
    induction l with
    | nil => simp at h
    | cons a r ih =>
      obtain ⟨a1, a2⟩ := a
      simp only [List.lookup_cons] at h
      cases hfa : (fd == a1)
      · rw [hfa] at h; exact List.mem_cons_of_mem _ (ih h)
      · rw [hfa] at h
        have e1 : fd = a1 := by simpa using hfa
        simp at h; subst h; subst e1; simp
  unfold Kernel.refd
  simp only [Bool.or_eq_true, List.any_eq_true]
  left; exact ⟨(fd, o), hm, by simp⟩

/-- the kernel replaced by one that agrees on every descriptor some live started handle sits on -/
theorem KCore.kernel {s : St} (c : KCore s) (k' : Kernel)
    (hof : ∀ fd o, s.k.ofdAt fd = some o → (∃ id, id < s.ws.length ∧ (getW s id).fd = fd ∧
        (getW s id).closing = false ∧ ¬((getW s id).clean = true ∧ (getW s id).pevents = Mask.none)) →
      k'.ofdAt fd = some o)
    (hm1 : ∀ o fd, k'.maskAt o fd ≠ none → k'.maskAt o fd = s.k.maskAt o fd)
    (hm2 : ∀ o fd, k'.ofdAt fd = some o → k'.maskAt o fd = s.k.maskAt o fd) :
    KCore { s with k := k' } := by
  refine ⟨c.sq, c.multi, ?_, ?_, c.uniq, c.quiet, ?_, c.queued⟩
  · intro id hl hne
    show ∃ o, k'.ofdAt (getW s id).fd = some o ∧ k'.maskAt o (getW s id).fd = some (getW s id).events
    have hne' : (getW s id).events ≠ Mask.none := hne
    obtain ⟨o, h1, h2⟩ := c.armed id hl hne'
    have hp : (getW s id).pevents ≠ Mask.none := fun h0 => hne' (c.quiet id h0)
    have lv := c.live id hl hp
    have h3 := hof _ o h1 ⟨id, hl, rfl, lv.1, by rw [lv.2.1]; simp⟩
    exact ⟨o, h3, by rw [hm2 o _ h3]; exact h2⟩
  · intro o fd h
    have h0 : k'.maskAt o fd ≠ none := h
    have h' := hm1 o fd h0
    obtain ⟨a, b⟩ := c.owned o fd (by rw [← h']; exact h0)
    exact ⟨hof fd o a b, b⟩
  · intro id hl hp
    have hp' : (getW s id).pevents ≠ Mask.none := hp
    have lv := c.live id hl hp'
    refine ⟨lv.1, lv.2.1, ?_, lv.2.2.2⟩
    show (k'.ofdAt (getW s id).fd).isSome = true
    cases ho : s.k.ofdAt (getW s id).fd with
    | none => rw [ho] at lv; simp at lv
    | some o => rw [hof _ o ho ⟨id, hl, rfl, lv.1, by rw [lv.2.1]; simp⟩]; rfl

end UvModel.IoWatch
