import UvModel.Queue
/-! helper lemmas for `Props/QueueRefine.lean` (the `Linked` chain predicate: append, frame) -/
namespace UvModel.Queue

@[simp] theorem setNext_next (m a v x) : (setNext m a v).next x = if x = a then v else m.next x := rfl
@[simp] theorem setNext_prev (m a v x) : (setNext m a v).prev x = m.prev x := rfl
@[simp] theorem setPrev_prev (m a v x) : (setPrev m a v).prev x = if x = a then v else m.prev x := rfl
@[simp] theorem setPrev_next (m a v x) : (setPrev m a v).next x = m.next x := rfl

@[simp] theorem linked_nil (m) : Linked m [] = True := rfl
@[simp] theorem linked_single (m x) : Linked m [x] = True := rfl
@[simp] theorem linked_cons_cons (m x y r) :
    Linked m (x :: y :: r) = ((m.next x = y ∧ m.prev y = x) ∧ Linked m (y :: r)) := rfl

theorem linked_append (m : Mem) : ∀ (l1 : List Nat) (x : Nat) (l2 : List Nat),
    Linked m (l1 ++ x :: l2) ↔ Linked m (l1 ++ [x]) ∧ Linked m (x :: l2)
  | [], x, l2 => by simp
  | [a], x, l2 => by simp
  | a :: b :: r, x, l2 => by
      have := linked_append m (b :: r) x l2
      simp only [List.cons_append, linked_cons_cons] at this ⊢
      rw [this]; exact ⟨fun ⟨a, b, c⟩ => ⟨⟨a, b⟩, c⟩, fun ⟨⟨a, b⟩, c⟩ => ⟨a, b, c⟩⟩

theorem linked_frame {m m' : Mem} : ∀ (ns : List Nat), Linked m ns →
    (∀ x ∈ ns.dropLast, m'.next x = m.next x) → (∀ y ∈ ns.tail, m'.prev y = m.prev y) → Linked m' ns
  | [], _, _, _ => trivial
  | [_], _, _, _ => trivial
  | x :: y :: r, h, hn, hp => by
      simp only [linked_cons_cons] at h ⊢
      refine ⟨⟨?_, ?_⟩, linked_frame (y :: r) h.2 ?_ ?_⟩
      · rw [hn x (by simp)]; exact h.1.1
      · rw [hp y (by simp)]; exact h.1.2
      · intro z hz; exact hn z (by simp [List.dropLast]; right; simpa using hz)
      · intro z hz; exact hp z (by simp at hz ⊢; right; exact hz)
theorem snoc_decomp (h : Nat) (l : List Nat) : ∃ A t, h :: l = A ++ [t] :=
  ⟨(h :: l).dropLast, (h :: l).getLast (by simp), (List.dropLast_concat_getLast (by simp)).symm⟩

theorem cons_decomp (l : List Nat) (h : Nat) : ∃ n B, l ++ [h] = n :: B := by
  cases l with
  | nil => exact ⟨h, [], rfl⟩
  | cons a r => exact ⟨a, r ++ [h], rfl⟩

theorem linked_next_mem {m : Mem} : ∀ (ns : List Nat), Linked m ns → ∀ x ∈ ns.dropLast, m.next x ∈ ns.tail
  | [], _, x, hx => by simp at hx
  | [_], _, x, hx => by simp at hx
  | a :: b :: r, h, x, hx => by
      simp only [linked_cons_cons] at h
      have hx' : x = a ∨ x ∈ (b :: r).dropLast := by simpa [List.dropLast] using hx
      rcases hx' with e | hx'
      · subst e; simp [h.1.1]
      · have := linked_next_mem (b :: r) h.2 x hx'
        simp at this ⊢; right; exact this

theorem linked_prev_mem {m : Mem} : ∀ (ns : List Nat), Linked m ns → ∀ y ∈ ns.tail, m.prev y ∈ ns.dropLast
  | [], _, y, hy => by simp at hy
  | [_], _, y, hy => by simp at hy
  | a :: b :: r, h, y, hy => by
      simp only [linked_cons_cons] at h
      have hy' : y = b ∨ y ∈ (b :: r).tail := by simpa using hy
      rcases hy' with e | hy'
      · subst e; simp [h.1.2, List.dropLast]
      · have := linked_prev_mem (b :: r) h.2 y hy'
        simp [List.dropLast] at this ⊢; right; exact this

end UvModel.Queue
