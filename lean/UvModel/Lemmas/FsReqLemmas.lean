import UvModel.FsReq
/-! helper lemmas for `UvModel.Props.C11Req` -/
namespace UvModel.FsReq
open UvModel.FsBuf

theorem runFrom_append (a : Args) (s : St) (xs ys : List Ev) :
    runFrom a s (xs ++ ys) = runFrom a (runFrom a s xs) ys := by
  induction xs generalizing s with
  | nil => rfl
  | cons e es ih => simp [runFrom, ih]

/-- invariants of the state machine hold in every reachable state -/
theorem run_induct (a : Args) (P : St → Prop) (h0 : P (init a))
    (hstep : ∀ s e, P s → P (step a s e).1) (evs : List Ev) : P (run a evs) := by
  unfold run
  generalize init a = s at h0
  induction evs generalizing s with
  | nil => exact h0
  | cons e es ih => exact ih _ (hstep s e h0)

theorem attempt_op (q : Req) (l : Ledger) (o : Outcome) : (attempt q l o).1.op = q.op := by
  unfold attempt
  split <;> try rfl
  all_goals (try split) <;> rfl

theorem finishWork_op (q : Req) (o : Outcome) : (finishWork q o).op = q.op := by
  unfold finishWork; split <;> rfl

theorem work_nil (q : Req) (l : Ledger) :
    work q l [] = (finishWork (attempt q l (.fail EIO)).1 (attempt q l (.fail EIO)).2.2, (attempt q l (.fail EIO)).2.1) := rfl

theorem work_cons (q : Req) (l : Ledger) (o : Outcome) (rest : List Outcome) :
    work q l (o :: rest) =
      match (attempt q l o).2.2 with
      | .fail e =>
        if e = EINTR ∧ retryOnEintr q.op = true then work (attempt q l o).1 (attempt q l o).2.1 rest
        else (finishWork (attempt q l o).1 (.fail e), (attempt q l o).2.1)
      | .ok n => (finishWork (attempt q l o).1 (.ok n), (attempt q l o).2.1) := rfl

theorem work_op (q : Req) (l : Ledger) (outs : List Outcome) : (work q l outs).1.op = q.op := by
  induction outs generalizing q l with
  | nil => simp [work, finishWork_op, attempt_op]
  | cons o rest ih =>
    rw [work_cons]
    split
    · split
      · rw [ih, attempt_op]
      · simp [finishWork_op, attempt_op]
    · simp [finishWork_op, attempt_op]

/-- the value the action reports is an answer of the kernel or 0 -/
theorem attempt_out (q : Req) (l : Ledger) (o : Outcome) :
    (∃ n, (attempt q l o).2.2 = .ok n ∧ (o = .ok n ∨ n = 0)) ∨ (∃ e, (attempt q l o).2.2 = .fail e ∧ o = .fail e) := by
  unfold attempt
  cases o with
  | ok n => cases n <;> (split <;> simp <;> try (split <;> simp))
  | fail e => split <;> simp <;> first | done | exact Decidable.em _ | (split <;> simp)

end UvModel.FsReq

namespace UvModel.FsReq
open UvModel.FsBuf

def inFlight (p : Phase) : Bool := p == .queued || p == .cancelled || p == .worked || p == .uring

theorem step_submit (a : Args) (s : St) : step a s .submit = if s.phase = .idle then submit a s else (s, .illegal) := rfl
theorem step_cancel (a : Args) (s : St) : step a s .cancel =
    match s.phase with
    | .queued => ({ s with phase := .cancelled }, .ret 0)
    | .worked | .uring => (s, .ret UV_EBUSY)
    | _ => (s, .illegal) := rfl
theorem step_work (a : Args) (s : St) (outs : List Outcome) : step a s (.work outs) =
    if s.phase = .queued then
      ({ s with req := (work s.req s.l outs).1, l := (work s.req s.l outs).2, phase := .worked }, .none)
    else (s, .illegal) := rfl
theorem step_done (a : Args) (s : St) : step a s .done =
    match s.phase with
    | .worked => fsDone s false
    | .cancelled => fsDone s true
    | _ => (s, .illegal) := rfl
theorem step_cqe (a : Args) (s : St) (res : Int) : step a s (.cqe res) = if s.phase = .uring then cqe s res else (s, .illegal) := rfl
theorem step_next (a : Args) (s : St) : step a s .next =
    if s.phase = .done ∧ s.req.op = .scandir then scandirNext s else (s, .illegal) := rfl
theorem step_cleanup (a : Args) (s : St) : step a s .cleanup =
    if s.phase = .done ∨ s.phase = .rejected then (cleanup s, .none) else (s, .illegal) := rfl

/-- counters as a function of the phase -/
structure InvC (a : Args) (s : St) : Prop where
  cbs : s.cbs = (if a.cb = true ∧ s.phase = .done then 1 else 0)
  active : s.active = (if inFlight s.phase = true then 1 else 0)
  sync : a.cb = false → s.regs = 0 ∧ inFlight s.phase = false

theorem invC_init (a : Args) : InvC a (init a) := by
  constructor <;> simp [init, inFlight]

theorem invC_submit (a : Args) (s : St) (h : InvC a s) (hp : s.phase = .idle) : InvC a (submit a s).1 := by
  obtain ⟨h1, h2, h3⟩ := h
  simp [hp, inFlight] at h1 h2 h3
  unfold submit
  simp only []
  split
  · constructor <;> simp_all [inFlight]
  · split
    · constructor <;> simp_all [inFlight]
    · split
      · constructor <;> simp_all [inFlight]
      · split
        · rename_i hc
          simp at hc
          constructor <;> simp_all [inFlight]
        · split
          · rename_i hc
            constructor <;> simp_all [inFlight]
          · rename_i hc
            simp at hc
            constructor <;> simp_all [inFlight]

theorem invC_step (a : Args) (s : St) (e : Ev) (h : InvC a s) : InvC a (step a s e).1 := by
  cases e with
  | submit =>
    rw [step_submit]
    split
    · exact invC_submit a s h ‹_›
    · exact h
  | cancel =>
    obtain ⟨h1, h2, h3⟩ := h
    rw [step_cancel]
    split <;> (try exact ⟨h1, h2, h3⟩)
    rename_i hp
    constructor <;> simp_all [inFlight]
  | work outs =>
    obtain ⟨h1, h2, h3⟩ := h
    rw [step_work]
    split
    · rename_i hp
      constructor <;> simp_all [inFlight]
    · exact ⟨h1, h2, h3⟩
  | done =>
    obtain ⟨h1, h2, h3⟩ := h
    rw [step_done]
    split <;> (try exact ⟨h1, h2, h3⟩)
    all_goals
      rename_i hp
      have hcb : a.cb = true := by
        cases hc : a.cb with
        | true => rfl
        | false => have := (h3 hc).2; simp [hp, inFlight] at this
      constructor <;> simp_all [inFlight, fsDone]
  | cqe res =>
    obtain ⟨h1, h2, h3⟩ := h
    rw [step_cqe]
    split
    · rename_i hp
      have hcb : a.cb = true := by
        cases hc : a.cb with
        | true => rfl
        | false => have := (h3 hc).2; simp [hp, inFlight] at this
      unfold cqe
      simp only []
      split
      · constructor <;> simp_all [inFlight]
      · constructor <;> simp_all [inFlight]
    · exact ⟨h1, h2, h3⟩
  | next =>
    obtain ⟨h1, h2, h3⟩ := h
    rw [step_next]
    split
    · rename_i hp
      unfold scandirNext
      simp only []
      split
      · exact ⟨h1, h2, h3⟩
      · split
        · exact ⟨h1, h2, h3⟩
        · split <;> exact ⟨h1, h2, h3⟩
    · exact ⟨h1, h2, h3⟩
  | cleanup =>
    obtain ⟨h1, h2, h3⟩ := h
    rw [step_cleanup]
    split
    · exact ⟨h1, h2, h3⟩
    · exact ⟨h1, h2, h3⟩

theorem invC_run (a : Args) (evs : List Ev) : InvC a (run a evs) :=
  run_induct a (InvC a) (invC_init a) (fun s e h => invC_step a s e h) evs

theorem cleanup_cleaned (s : St) : (cleanup s).cleaned = true := by
  unfold cleanup; simp only []

theorem cleanup_of_nulls (t : St) (h1 : t.req.path = .null) (h2 : t.req.newPath = false) (h3 : t.req.bufs = .null)
    (h4 : t.req.ptr = .null) (h5 : t.cleaned = true) : cleanup t = t := by
  obtain ⟨⟨op, cb, path, np, bufs, ptr, res, nb⟩, l, ph, ac, rg, cbs, cl⟩ := t
  simp at h1 h2 h3 h4 h5
  subst h1 h2 h3 h4 h5
  simp [cleanup]

/-- all kernel answers that occur in a life cycle -/
def answers (a : Args) (evs : List Ev) : List Outcome :=
  a.outs ++ evs.flatMap fun e => match e with | .work os => os | _ => []

def cqeResults (evs : List Ev) : List Int :=
  evs.filterMap fun e => match e with | .cqe r => some r | _ => none

theorem work_result_cases (q : Req) (l : Ledger) (outs : List Outcome) :
    (∃ n : Nat, ((.ok n ∈ outs) ∨ n = 0) ∧ (work q l outs).1.result = (n : Int)) ∨
    (∃ e : Nat, ((.fail e ∈ outs) ∨ e = FsBuf.EIO) ∧ (work q l outs).1.result = -(e : Int)) := by
  induction outs generalizing q l with
  | nil =>
    rw [work_nil]
    rcases attempt_out q l (.fail EIO) with ⟨n, hn, h | h⟩ | ⟨e, he, h⟩
    · cases h
    · left; refine ⟨0, Or.inr rfl, ?_⟩; subst h; simp [hn, finishWork]
    · right; cases h; refine ⟨EIO, Or.inr rfl, ?_⟩; simp [he, finishWork]
  | cons o rest ih =>
    rw [work_cons]
    rcases attempt_out q l o with ⟨n, hn, h⟩ | ⟨e, he, h⟩
    · rw [hn]; simp only []
      left
      rcases h with h | h
      · exact ⟨n, Or.inl (by simp [h]), by simp [finishWork]⟩
      · subst h; exact ⟨0, Or.inr rfl, by simp [finishWork]⟩
    · rw [he]; simp only []
      split
      · rcases ih (attempt q l o).1 (attempt q l o).2.1 with ⟨n, hn, hr⟩ | ⟨e', hn, hr⟩
        · left; refine ⟨n, ?_, hr⟩; rcases hn with hn | hn
          · exact Or.inl (List.mem_cons_of_mem _ hn)
          · exact Or.inr hn
        · right; refine ⟨e', ?_, hr⟩; rcases hn with hn | hn
          · exact Or.inl (List.mem_cons_of_mem _ hn)
          · exact Or.inr hn
      · right; exact ⟨e, Or.inl (by simp [h]), by simp [finishWork]⟩

def evAns : Ev → List Outcome
  | .work os => os
  | _ => []

def evCqe : Ev → List Int
  | .cqe r => [r]
  | _ => []

/-- `req->result` is a count, UV_ECANCELED, the negated errno of a failed answer, or a CQE result -/
def ResOk (A : List Outcome) (C : List Int) (r : Int) : Prop :=
  r ≥ 0 ∨ r = UV_ECANCELED ∨ (∃ e : Nat, ((.fail e ∈ A) ∨ e = FsBuf.EIO) ∧ r = -(e : Int)) ∨ (∃ c, c ∈ C ∧ r = c)

theorem ResOk_mono {A A' : List Outcome} {C C' : List Int} {r : Int} (hA : ∀ o, o ∈ A → o ∈ A') (hC : ∀ c, c ∈ C → c ∈ C')
    (h : ResOk A C r) : ResOk A' C' r := by
  rcases h with h | h | ⟨e, he, hr⟩ | ⟨c, hc, hr⟩
  · exact Or.inl h
  · exact Or.inr (Or.inl h)
  · refine Or.inr (Or.inr (Or.inl ⟨e, ?_, hr⟩))
    rcases he with he | he
    · exact Or.inl (hA _ he)
    · exact Or.inr he
  · exact Or.inr (Or.inr (Or.inr ⟨c, hC _ hc, hr⟩))

theorem work_resok (q : Req) (l : Ledger) (outs : List Outcome) (A : List Outcome) (C : List Int)
    (h : ∀ o, o ∈ outs → o ∈ A) : ResOk A C (work q l outs).1.result := by
  rcases work_result_cases q l outs with ⟨n, _, hr⟩ | ⟨e, he, hr⟩
  · left; rw [hr]; omega
  · refine Or.inr (Or.inr (Or.inl ⟨e, ?_, hr⟩))
    rcases he with he | he
    · exact Or.inl (h _ he)
    · exact Or.inr he

def J (A : List Outcome) (C : List Int) (s : St) : Prop :=
  (s.phase = .worked ∨ s.phase = .done) → ResOk A C s.req.result

theorem cleanup_result (s : St) : (cleanup s).req.result = s.req.result ∧ (cleanup s).phase = s.phase := by
  unfold cleanup
  simp only []
  constructor <;> (repeat' split) <;> first | rfl | trivial

theorem next_result (s : St) : (scandirNext s).1.req.result = s.req.result ∧ (scandirNext s).1.phase = s.phase := by
  unfold scandirNext
  simp only []
  constructor <;> (repeat' split) <;> first | rfl | trivial

theorem J_step (a : Args) (A : List Outcome) (C : List Int) (s : St) (e : Ev) (hA : ∀ o, o ∈ a.outs → o ∈ A)
    (h : J A C s) : J (A ++ evAns e) (C ++ evCqe e) (step a s e).1 := by
  have mono : ∀ r, ResOk A C r → ResOk (A ++ evAns e) (C ++ evCqe e) r :=
    fun r hr => ResOk_mono (fun o ho => List.mem_append_left _ ho) (fun c hc => List.mem_append_left _ hc) hr
  cases e with
  | submit =>
    rw [step_submit]
    split
    · unfold submit
      simp only []
      split
      · intro hp; simp at hp
      · split
        · intro hp; simp at hp
        · split
          · intro hp; simp at hp
          · split
            · intro hp; simp at hp
            · split
              · intro hp; simp at hp
              · intro _
                exact work_resok _ _ _ _ _ (fun o ho => List.mem_append_left _ (hA o ho))
    · exact fun hp => mono _ (h hp)
  | cancel =>
    rw [step_cancel]
    split
    · intro hp; simp at hp
    all_goals exact fun hp => mono _ (h hp)
  | work outs =>
    rw [step_work]
    split
    · intro _
      exact work_resok _ _ _ _ _ (fun o ho => List.mem_append_right _ (by simpa [evAns] using ho))
    · exact fun hp => mono _ (h hp)
  | done =>
    rw [step_done]
    split
    · rename_i hp
      intro _
      exact mono _ (h (Or.inl hp))
    · intro _
      exact Or.inr (Or.inl rfl)
    · exact fun hp => mono _ (h hp)
  | cqe res =>
    rw [step_cqe]
    split
    · unfold cqe
      simp only []
      split
      · intro hp; simp at hp
      · intro _
        refine Or.inr (Or.inr (Or.inr ⟨res, by simp [evCqe], ?_⟩))
        split <;> rfl
    · exact fun hp => mono _ (h hp)
  | next =>
    rw [step_next]
    split
    · intro hp
      rw [(next_result s).2] at hp
      rw [(next_result s).1]
      exact mono _ (h hp)
    · exact fun hp => mono _ (h hp)
  | cleanup =>
    rw [step_cleanup]
    split
    · intro hp
      simp only [] at hp ⊢
      rw [(cleanup_result s).2] at hp
      rw [(cleanup_result s).1]
      exact mono _ (h hp)
    · exact fun hp => mono _ (h hp)

theorem J_run (a : Args) (evs : List Ev) : ∀ (A : List Outcome) (C : List Int) (s : St),
    (∀ o, o ∈ a.outs → o ∈ A) → J A C s → J (A ++ evs.flatMap evAns) (C ++ evs.flatMap evCqe) (runFrom a s evs) := by
  induction evs with
  | nil => intro A C s _ h; simpa [runFrom] using h
  | cons e es ih =>
    intro A C s hA h
    have := ih (A ++ evAns e) (C ++ evCqe e) (step a s e).1 (fun o ho => List.mem_append_left _ (hA o ho)) (J_step a A C s e hA h)
    simpa [runFrom, List.flatMap_cons, List.append_assoc] using this

theorem answers_eq (a : Args) (evs : List Ev) : answers a evs = a.outs ++ evs.flatMap evAns := by
  unfold answers
  congr 1

theorem cqes_eq (evs : List Ev) : cqeResults evs = evs.flatMap evCqe := by
  unfold cqeResults
  induction evs with
  | nil => rfl
  | cons e es ih => cases e <;> simp [List.flatMap_cons, List.filterMap_cons, evCqe, ih]

/-- the ledger counts agree with the request's pointer fields -/
structure Rel (q : Req) (l : Ledger) : Prop where
  bad : l.badFree = 0
  pathH : q.path = .heap → l.get (pathRole q.op) = 1 ∧ (q.cb = true ∨ q.op = .mkdtemp ∨ q.op = .mkstemp)
  pathS : l.path + l.path2 = if q.path = .heap then 1 else 0
  pathU : q.path = .user → q.cb = false ∧ q.op ≠ .mkdtemp ∧ q.op ≠ .mkstemp
  bufs : l.bufs = if q.bufs = .heap then 1 else 0
  statx : l.statx = if q.ptr = .statx then 1 else 0
  res : l.res = if q.ptr = .res then 1 else 0
  dentsY : q.ptr = .dents → q.op = .scandir ∧ 0 ≤ q.result ∧ (q.nbufs : Int) ≤ q.result ∧ l.dents = 1 ∧
            l.dent = q.result.toNat - (q.nbufs - 1)
  dentsN : q.ptr ≠ .dents → l.dents = 0 ∧ l.dent = 0
  name : l.name = if q.op = .readdir ∧ q.ptr = .dir ∧ 0 < q.result then q.result.toNat else 0
  dirY : q.ptr = .dir → l.dir = 1 ∧ l.dirstream = 1 ∧ (q.op = .opendir ∨ q.op = .readdir ∨ q.op = .closedir)
  heapOp : q.ptr = .statx ∨ q.ptr = .res → q.op ≠ .opendir ∧ q.op ≠ .closedir ∧ q.op ≠ .readdir ∧ q.op ≠ .scandir
  rdPtr : q.op = .readdir → q.ptr = .null ∨ q.ptr = .dir
  scPtr : q.op = .scandir → q.ptr = .null ∨ q.ptr = .dents


set_option hygiene false in
macro "cl_tail" : tactic => `(tactic|
  (by_cases hk : pathKind op = .two <;> cases path <;> cases bufs <;>
      simp [hk, pathRole] at hb h2 h3 h4 h5 ⊢ <;>
      simp [cleanup, freePath, Ledger.free, Ledger.set, Ledger.get, Ledger.bad, Ledger.reqOwned, Ledger.userOwned, pathRole, hk, *] <;>
      (try omega)))

set_option hygiene false in
macro "cl_tail0" : tactic => `(tactic|
  (cases path <;> cases bufs <;>
      simp [pathRole, pathKind] at hb h2 h3 h4 h5 ⊢ <;>
      simp [cleanup, freePath, Ledger.free, Ledger.set, Ledger.get, Ledger.bad, Ledger.reqOwned, Ledger.userOwned, pathRole, pathKind, *] <;>
      (try omega)))

set_option maxHeartbeats 1000000 in
theorem cleanup_of_rel (s : St) (ha : Rel s.req s.l) (hb : s.req.bufs ≠ .user) :
    (cleanup s).l.reqOwned = 0 ∧ (cleanup s).l.badFree = 0 ∧ (cleanup s).l.userOwned = s.l.userOwned := by
  obtain ⟨⟨op, cb, path, np, bufs, ptr, res, nb⟩, l, ph, ac, rg, cbs, cl⟩ := s
  obtain ⟨l1, l2, l3, l4, l5, l6, l7, l8, l9, l10, l11⟩ := l
  obtain ⟨h1, h2, h3, h4, h5, h6, h7, h8, h9, h10, h11, h12, h13, h14⟩ := ha
  simp only [Ledger.get] at *
  cases ptr
  case null =>
    simp at h6 h7 h9 h10
    obtain ⟨h9a, h9b⟩ := h9
    subst h1 h6 h7 h9a h9b h10
    clear h8 h11 h12 h13 h14
    cl_tail
  case statbuf =>
    simp at h6 h7 h9 h10 h13 h14
    obtain ⟨h9a, h9b⟩ := h9
    subst h1 h6 h7 h9a h9b h10
    clear h8 h11 h12
    cl_tail
  case statx =>
    simp at h6 h7 h9 h10 h12
    obtain ⟨h9a, h9b⟩ := h9
    obtain ⟨o1, o2, o3, o4⟩ := h12
    subst h1 h6 h7 h9a h9b h10
    clear h8 h11 h13 h14
    cl_tail
  case res =>
    simp at h6 h7 h9 h10 h12
    obtain ⟨h9a, h9b⟩ := h9
    obtain ⟨o1, o2, o3, o4⟩ := h12
    subst h1 h6 h7 h9a h9b h10
    clear h8 h11 h13 h14
    cl_tail
  case dents =>
    simp at h6 h7 h8 h10
    obtain ⟨ho, hr0, hnb, h8a, h8b⟩ := h8
    subst h1 h6 h7 ho h8a h10
    clear h9 h11 h12 h13 h14
    cl_tail0
  case dir =>
    simp at h6 h7 h9 h10 h11
    obtain ⟨h9a, h9b⟩ := h9
    obtain ⟨d1, d2, ho⟩ := h11
    subst h1 h6 h7 h9a h9b d1 d2
    clear h8 h12 h13 h14
    rcases ho with ho | ho | ho <;> subst ho <;> simp at h10
    · subst h10; cl_tail0
    · by_cases hr : 0 < res <;> simp [hr] at h10 <;> subst h10 <;> cl_tail0
    · subst h10; cl_tail0

theorem next_rel (s : St) (ha : Rel s.req s.l) (hop : s.req.op = .scandir) :
    Rel (scandirNext s).1.req (scandirNext s).1.l ∧ (scandirNext s).1.req.bufs = s.req.bufs := by
  obtain ⟨⟨op, cb, path, np, bufs, ptr, res, nb⟩, l, ph, ac, rg, cbs, cl⟩ := s
  obtain ⟨l1, l2, l3, l4, l5, l6, l7, l8, l9, l10, l11⟩ := l
  simp only [] at hop
  subst hop
  unfold scandirNext
  simp only []
  split
  · exact ⟨ha, rfl⟩
  · split
    · exact ⟨ha, rfl⟩
    · rename_i hneg hnn
      obtain ⟨h1, h2, h3, h4, h5, h6, h7, h8, h9, h10, h11, h12, h13, h14⟩ := ha
      simp only [Ledger.get] at *
      have hp : ptr = .dents := by
        rcases (by simpa using h14 : ptr = .null ∨ ptr = .dents) with h | h
        · exact absurd h hnn
        · exact h
      subst hp
      simp at h6 h7 h8 h10
      obtain ⟨hr0, hnb, h8a, h8b⟩ := h8
      subst h1 h6 h7 h8a h10
      clear h9 h11 h12 h13 h14 hnn
      simp [pathRole, pathKind] at h2 h4
      by_cases hpos : 0 < nb
      · have hl7 : ¬ l7 = 0 := by omega
        split
        · refine ⟨⟨?_, ?_, ?_, ?_, ?_, ?_, ?_, ?_, ?_, ?_, ?_, ?_, ?_, ?_⟩, rfl⟩ <;>
            simp [Ledger.free, Ledger.get, Ledger.set, Ledger.bad, pathRole, pathKind, hpos, hl7] <;> (try omega) <;> (try assumption)
        · refine ⟨⟨?_, ?_, ?_, ?_, ?_, ?_, ?_, ?_, ?_, ?_, ?_, ?_, ?_, ?_⟩, rfl⟩ <;>
            simp [Ledger.free, Ledger.get, Ledger.set, Ledger.bad, pathRole, pathKind, hpos, hl7] <;> (try omega) <;> (try assumption)
      · split
        · refine ⟨⟨?_, ?_, ?_, ?_, ?_, ?_, ?_, ?_, ?_, ?_, ?_, ?_, ?_, ?_⟩, rfl⟩ <;>
            simp [Ledger.free, Ledger.get, Ledger.set, Ledger.bad, pathRole, pathKind, hpos] <;> (try omega) <;> (try assumption)
        · refine ⟨⟨?_, ?_, ?_, ?_, ?_, ?_, ?_, ?_, ?_, ?_, ?_, ?_, ?_, ?_⟩, rfl⟩ <;>
            simp [Ledger.free, Ledger.get, Ledger.set, Ledger.bad, pathRole, pathKind, hpos] <;> (try omega) <;> (try assumption)

/-- `finishWork` on a request whose `ptr` is still NULL and that is no readdir / scandir -/
theorem finish_rel_null (q : Req) (l : Ledger) (o : Outcome) (ha : Rel q l) (hp : q.ptr = .null) (hr : q.result = 0)
    (h1 : q.op ≠ .readdir) (h2 : q.op ≠ .scandir) : Rel (finishWork q o) l := by
  obtain ⟨op, cb, path, np, bufs, ptr, res, nb⟩ := q
  simp only [] at hp hr h1 h2
  subst hp hr
  obtain ⟨a1, a2, a3, a4, a5, a6, a7, a8, a9, a10, a11, a12, a13, a14⟩ := ha
  simp at a6 a7 a9 a10
  cases o with
  | fail e =>
    refine ⟨a1, a2, a3, a4, a5, ?_, ?_, ?_, ?_, ?_, ?_, ?_, ?_, ?_⟩ <;> simp [finishWork, *]
  | ok n =>
    by_cases hs : n = 0 ∧ isStat op = true
    · refine ⟨a1, a2, a3, a4, a5, ?_, ?_, ?_, ?_, ?_, ?_, ?_, ?_, ?_⟩ <;> simp [finishWork, hs, *]
    · refine ⟨a1, a2, a3, a4, a5, ?_, ?_, ?_, ?_, ?_, ?_, ?_, ?_, ?_⟩ <;> simp [finishWork, hs, *]

/-- the request and ledger before a pass of `uv__fs_work` -/
structure PreW (q : Req) (l : Ledger) : Prop where
  res0 : q.result = 0
  ptr : q.ptr = .null ∨ q.ptr = .dir
  dirOp : q.ptr = .dir ↔ (q.op = .readdir ∨ q.op = .closedir)
  bufsU : q.bufs = .user → q.cb = false ∧ q.op = .read
  od : q.op = .opendir → l.dir = 0 ∧ l.dirstream = 0
  rdh : q.bufs = .heap → q.op = .read → q.cb = true

theorem attempt_simple (q : Req) (l : Ledger) (o : Outcome)
    (h1 : q.op ≠ .read) (h2 : q.op ≠ .write) (h3 : q.op ≠ .scandir) (h4 : q.op ≠ .opendir) (h5 : q.op ≠ .readdir)
    (h6 : q.op ≠ .closedir) (h7 : q.op ≠ .statfs) (h8 : q.op ≠ .readlink) (h9 : q.op ≠ .realpath) :
    (attempt q l o).1 = q ∧ (attempt q l o).2.1 = l := by
  unfold attempt
  split <;> first | (exfalso; simp_all; done) | (constructor <;> (repeat' split) <;> rfl)

set_option hygiene false in
macro "rel_fin" : tactic => `(tactic|
  (refine ⟨?_, ?_, ?_, ?_, ?_, ?_, ?_, ?_, ?_, ?_, ?_, ?_, ?_, ?_⟩ <;>
    simp [finishWork, Ledger.alloc, Ledger.free, Ledger.get, Ledger.set, Ledger.bad, pathRole, pathKind, isStat, *] <;>
    (try omega) <;> (try assumption)))

theorem attempt_rel (q : Req) (l : Ledger) (o : Outcome) (hp : PreW q l) (ha : Rel q l) :
    (∀ e, (attempt q l o).2.2 = .fail e →
      PreW (attempt q l o).1 (attempt q l o).2.1 ∧ Rel (attempt q l o).1 (attempt q l o).2.1 ∧ (attempt q l o).1.bufs ≠ .user) ∧
    (∀ n, (attempt q l o).2.2 = .ok n →
      Rel (finishWork (attempt q l o).1 (.ok n)) (attempt q l o).2.1 ∧ (attempt q l o).1.bufs ≠ .user) := by
  by_cases c1 : q.op = .read
  ·
    obtain ⟨op, cb, path, np, bufs, ptr, res, nb⟩ := q
    obtain ⟨r0, hptr, hdo, hbu, hod, hrh⟩ := hp
    simp only [] at c1 r0 hptr hdo hbu hod hrh
    subst c1 r0
    have hpn : ptr = .null := by
      rcases hptr with h | h
      · exact h
      · simp [h] at hdo
    subst hpn
    obtain ⟨a1, a2, a3, a4, a5, a6, a7, a8, a9, a10, a11, a12, a13, a14⟩ := ha
    simp only [] at a1 a2 a3 a4 a5 a6 a7 a8 a9 a10 a11 a12 a13 a14
    simp [pathRole, pathKind, Ledger.get] at a2 a4 a6 a7 a9 a10 hbu
    clear a8 a11 a12 a13 a14
    cases o <;> cases bufs <;> cases cb <;> simp at hbu a5 a2 a4 hrh <;> simp [attempt] <;>
      (first
        | (refine ⟨⟨rfl, Or.inl rfl, by simp, by simp, by simp, by simp⟩, ?_⟩; rel_fin)
        | rel_fin)

  by_cases c2 : q.op = .write
  ·
    obtain ⟨op, cb, path, np, bufs, ptr, res, nb⟩ := q
    obtain ⟨r0, hptr, hdo, hbu, hod, hrh⟩ := hp
    simp only [] at c2 r0 hptr hdo hbu hod hrh
    subst c2 r0
    have hpn : ptr = .null := by
      rcases hptr with h | h
      · exact h
      · simp [h] at hdo
    subst hpn
    obtain ⟨a1, a2, a3, a4, a5, a6, a7, a8, a9, a10, a11, a12, a13, a14⟩ := ha
    simp only [] at a1 a2 a3 a4 a5 a6 a7 a8 a9 a10 a11 a12 a13 a14
    simp [pathRole, pathKind, Ledger.get] at a2 a4 a6 a7 a9 a10 hbu
    clear a8 a11 a12 a13 a14
    cases o <;> cases bufs <;> cases cb <;> simp at hbu a5 a2 a4 <;> simp [attempt] <;>
      (first
        | (refine ⟨⟨rfl, by simp, by simp, by simp, by simp [Ledger.alloc, Ledger.free, Ledger.get, Ledger.set, *], by simp⟩, ?_⟩; rel_fin)
        | rel_fin)

  by_cases c3 : q.op = .scandir
  ·
    obtain ⟨op, cb, path, np, bufs, ptr, res, nb⟩ := q
    obtain ⟨r0, hptr, hdo, hbu, hod, hrh⟩ := hp
    simp only [] at c3 r0 hptr hdo hbu hod hrh
    subst c3 r0
    have hpn : ptr = .null := by
      rcases hptr with h | h
      · exact h
      · simp [h] at hdo
    subst hpn
    obtain ⟨a1, a2, a3, a4, a5, a6, a7, a8, a9, a10, a11, a12, a13, a14⟩ := ha
    simp only [] at a1 a2 a3 a4 a5 a6 a7 a8 a9 a10 a11 a12 a13 a14
    simp [pathRole, pathKind, Ledger.get] at a2 a4 a6 a7 a9 a10 hbu
    clear a8 a11 a12 a13 a14
    rcases o with (_ | n) | e <;> cases bufs <;> simp at hbu a5 <;> simp [attempt] <;>
      (first
        | (refine ⟨⟨rfl, by simp, by simp, by simp, by simp [Ledger.alloc, Ledger.free, Ledger.get, Ledger.set, *], by simp⟩, ?_⟩; rel_fin)
        | rel_fin)

  by_cases c4 : q.op = .opendir
  ·
    obtain ⟨op, cb, path, np, bufs, ptr, res, nb⟩ := q
    obtain ⟨r0, hptr, hdo, hbu, hod, hrh⟩ := hp
    simp only [] at c4 r0 hptr hdo hbu hod hrh
    subst c4 r0
    have hpn : ptr = .null := by
      rcases hptr with h | h
      · exact h
      · simp [h] at hdo
    subst hpn
    obtain ⟨a1, a2, a3, a4, a5, a6, a7, a8, a9, a10, a11, a12, a13, a14⟩ := ha
    simp only [] at a1 a2 a3 a4 a5 a6 a7 a8 a9 a10 a11 a12 a13 a14
    simp [pathRole, pathKind, Ledger.get] at a2 a4 a6 a7 a9 a10 hbu
    clear a8 a11 a12 a13 a14
    simp at hod
    cases o <;> cases bufs <;> simp at hbu a5 <;> simp [attempt] <;>
      (first
        | (refine ⟨⟨rfl, by simp, by simp, by simp, by simp [Ledger.alloc, Ledger.free, Ledger.get, Ledger.set, *], by simp⟩, ?_⟩; rel_fin)
        | rel_fin)

  by_cases c5 : q.op = .readdir
  ·
    obtain ⟨op, cb, path, np, bufs, ptr, res, nb⟩ := q
    obtain ⟨r0, hptr, hdo, hbu, hod, hrh⟩ := hp
    simp only [] at c5 r0 hptr hdo hbu hod hrh
    subst c5 r0
    have hpd : ptr = .dir := hdo.mpr (by simp)
    subst hpd
    obtain ⟨a1, a2, a3, a4, a5, a6, a7, a8, a9, a10, a11, a12, a13, a14⟩ := ha
    simp only [] at a1 a2 a3 a4 a5 a6 a7 a8 a9 a10 a11 a12 a13 a14
    simp [pathRole, pathKind, Ledger.get] at a2 a4 a6 a7 a9 a10 a11 hbu
    clear a8 a12 a13 a14
    cases o <;> cases bufs <;> simp at hbu a5 <;> simp [attempt] <;>
      (first
        | (refine ⟨⟨rfl, by simp, by simp, by simp, by simp [Ledger.alloc, Ledger.free, Ledger.get, Ledger.set, *], by simp⟩, ?_⟩; rel_fin)
        | rel_fin)

  by_cases c6 : q.op = .closedir
  ·
    obtain ⟨op, cb, path, np, bufs, ptr, res, nb⟩ := q
    obtain ⟨r0, hptr, hdo, hbu, hod, hrh⟩ := hp
    simp only [] at c6 r0 hptr hdo hbu hod hrh
    subst c6 r0
    have hpd : ptr = .dir := hdo.mpr (by simp)
    subst hpd
    obtain ⟨a1, a2, a3, a4, a5, a6, a7, a8, a9, a10, a11, a12, a13, a14⟩ := ha
    simp only [] at a1 a2 a3 a4 a5 a6 a7 a8 a9 a10 a11 a12 a13 a14
    simp [pathRole, pathKind, Ledger.get] at a2 a4 a6 a7 a9 a10 a11 hbu
    clear a8 a12 a13 a14
    cases o <;> cases bufs <;> simp at hbu a5 <;> simp [attempt] <;>
      (first
        | (refine ⟨⟨rfl, by simp, by simp, by simp, by simp [Ledger.alloc, Ledger.free, Ledger.get, Ledger.set, *], by simp⟩, ?_⟩; rel_fin)
        | rel_fin)

  by_cases c7 : q.op = .statfs ∨ q.op = .readlink ∨ q.op = .realpath
  · rcases c7 with c | c | c
    ·
      obtain ⟨op, cb, path, np, bufs, ptr, res, nb⟩ := q
      obtain ⟨r0, hptr, hdo, hbu, hod, hrh⟩ := hp
      simp only [] at c r0 hptr hdo hbu hod hrh
      subst c r0
      have hpn : ptr = .null := by
        rcases hptr with h | h
        · exact h
        · simp [h] at hdo
      subst hpn
      obtain ⟨a1, a2, a3, a4, a5, a6, a7, a8, a9, a10, a11, a12, a13, a14⟩ := ha
      simp only [] at a1 a2 a3 a4 a5 a6 a7 a8 a9 a10 a11 a12 a13 a14
      simp [pathRole, pathKind, Ledger.get] at a2 a4 a6 a7 a9 a10 hbu
      clear a8 a11 a12 a13 a14
      cases o <;> cases bufs <;> simp at hbu a5 <;> simp [attempt] <;>
        (first
          | (refine ⟨⟨rfl, by simp, by simp, by simp, by simp [Ledger.alloc, Ledger.free, Ledger.get, Ledger.set, *], by simp⟩, ?_⟩; rel_fin)
          | rel_fin)
  
    ·
      obtain ⟨op, cb, path, np, bufs, ptr, res, nb⟩ := q
      obtain ⟨r0, hptr, hdo, hbu, hod, hrh⟩ := hp
      simp only [] at c r0 hptr hdo hbu hod hrh
      subst c r0
      have hpn : ptr = .null := by
        rcases hptr with h | h
        · exact h
        · simp [h] at hdo
      subst hpn
      obtain ⟨a1, a2, a3, a4, a5, a6, a7, a8, a9, a10, a11, a12, a13, a14⟩ := ha
      simp only [] at a1 a2 a3 a4 a5 a6 a7 a8 a9 a10 a11 a12 a13 a14
      simp [pathRole, pathKind, Ledger.get] at a2 a4 a6 a7 a9 a10 hbu
      clear a8 a11 a12 a13 a14
      cases o <;> cases bufs <;> simp at hbu a5 <;> simp [attempt] <;>
        (first
          | (refine ⟨⟨rfl, by simp, by simp, by simp, by simp [Ledger.alloc, Ledger.free, Ledger.get, Ledger.set, *], by simp⟩, ?_⟩; rel_fin)
          | rel_fin)
  
    ·
      obtain ⟨op, cb, path, np, bufs, ptr, res, nb⟩ := q
      obtain ⟨r0, hptr, hdo, hbu, hod, hrh⟩ := hp
      simp only [] at c r0 hptr hdo hbu hod hrh
      subst c r0
      have hpn : ptr = .null := by
        rcases hptr with h | h
        · exact h
        · simp [h] at hdo
      subst hpn
      obtain ⟨a1, a2, a3, a4, a5, a6, a7, a8, a9, a10, a11, a12, a13, a14⟩ := ha
      simp only [] at a1 a2 a3 a4 a5 a6 a7 a8 a9 a10 a11 a12 a13 a14
      simp [pathRole, pathKind, Ledger.get] at a2 a4 a6 a7 a9 a10 hbu
      clear a8 a11 a12 a13 a14
      cases o <;> cases bufs <;> simp at hbu a5 <;> simp [attempt] <;>
        (first
          | (refine ⟨⟨rfl, by simp, by simp, by simp, by simp [Ledger.alloc, Ledger.free, Ledger.get, Ledger.set, *], by simp⟩, ?_⟩; rel_fin)
          | rel_fin)
  
  · have c7' : q.op ≠ .statfs ∧ q.op ≠ .readlink ∧ q.op ≠ .realpath := by
      refine ⟨fun h => c7 (Or.inl h), fun h => c7 (Or.inr (Or.inl h)), fun h => c7 (Or.inr (Or.inr h))⟩
    obtain ⟨e1, e2⟩ := attempt_simple q l o c1 c2 c3 c4 c5 c6 c7'.1 c7'.2.1 c7'.2.2
    rw [e1, e2]
    have hpn : q.ptr = .null := by
      rcases hp.ptr with h | h
      · exact h
      · rcases hp.dirOp.mp h with h' | h'
        · exact absurd h' c5
        · exact absurd h' c6
    have hbu : q.bufs ≠ .user := fun h => c1 (hp.bufsU h).2
    exact ⟨fun e _ => ⟨hp, ha, hbu⟩, fun n _ => ⟨finish_rel_null q l _ ha hpn hp.res0 c5 c3, hbu⟩⟩

theorem finishWork_bufs (q : Req) (o : Outcome) : (finishWork q o).bufs = q.bufs := by
  cases o <;> rfl

theorem finish_fail_rel (q : Req) (l : Ledger) (e : Nat) (hp : PreW q l) (ha : Rel q l) :
    Rel (finishWork q (.fail e)) l := by
  obtain ⟨op, cb, path, np, bufs, ptr, res, nb⟩ := q
  obtain ⟨r0, hptr, hdo, hbu, hod, hrh⟩ := hp
  simp only [] at r0 hptr hdo hbu hod hrh
  subst r0
  obtain ⟨a1, a2, a3, a4, a5, a6, a7, a8, a9, a10, a11, a12, a13, a14⟩ := ha
  simp only [] at a1 a2 a3 a4 a5 a6 a7 a8 a9 a10 a11 a12 a13 a14
  rcases hptr with h | h <;> subst h <;> simp at a6 a7 a9 a10 a11 a13 a14 hdo
  · refine ⟨a1, a2, a3, a4, a5, ?_, ?_, ?_, ?_, ?_, ?_, ?_, ?_, ?_⟩ <;> simp [finishWork, *]
  · refine ⟨a1, a2, a3, a4, a5, ?_, ?_, ?_, ?_, ?_, ?_, ?_, ?_, ?_⟩ <;> simp [finishWork, *] <;> (try omega)

theorem work_rel (q : Req) (l : Ledger) (outs : List Outcome) (hp : PreW q l) (ha : Rel q l) :
    Rel (work q l outs).1 (work q l outs).2 ∧ (work q l outs).1.bufs ≠ .user := by
  induction outs generalizing q l with
  | nil =>
    rw [work_nil]
    obtain ⟨hf, hk⟩ := attempt_rel q l (.fail EIO) hp ha
    cases h : (attempt q l (.fail EIO)).2.2 with
    | ok n => simp only []; rw [finishWork_bufs]; exact hk n h
    | fail e =>
      simp only []; rw [finishWork_bufs]
      obtain ⟨h1, h2, h3⟩ := hf e h
      exact ⟨finish_fail_rel _ _ e h1 h2, h3⟩
  | cons o rest ih =>
    rw [work_cons]
    obtain ⟨hf, hk⟩ := attempt_rel q l o hp ha
    cases h : (attempt q l o).2.2 with
    | ok n => simp only []; rw [finishWork_bufs]; exact hk n h
    | fail e =>
      simp only []
      obtain ⟨h1, h2, h3⟩ := hf e h
      split
      · exact ih _ _ h1 h2
      · rw [finishWork_bufs]; exact ⟨finish_fail_rel _ _ e h1 h2, h3⟩

theorem cleanup_fields_null (s : St) :
    (cleanup s).req.path = .null ∧ (cleanup s).req.newPath = false ∧ (cleanup s).req.bufs = .null ∧ (cleanup s).req.ptr = .null := by
  unfold cleanup
  simp only []
  refine ⟨?_, ?_, ?_, ?_⟩ <;> (repeat' split) <;> first | rfl | trivial

theorem rel_null (q : Req) (l : Ledger) (h1 : q.path = .null) (h2 : q.bufs = .null) (h3 : q.ptr = .null)
    (h4 : l.reqOwned = 0) (h5 : l.badFree = 0) : Rel q l := by
  obtain ⟨op, cb, path, np, bufs, ptr, res, nb⟩ := q
  obtain ⟨l1, l2, l3, l4, l5, l6, l7, l8, l9, l10, l11⟩ := l
  simp only [] at h1 h2 h3 h5
  simp [Ledger.reqOwned] at h4
  subst h1 h2 h3 h5
  obtain ⟨⟨⟨⟨⟨⟨⟨e1, e2⟩, e3⟩, e4⟩, e5⟩, e6⟩, e7⟩, e8⟩ := h4
  subst e1 e2 e3 e4 e5 e6 e7 e8
  refine ⟨?_, ?_, ?_, ?_, ?_, ?_, ?_, ?_, ?_, ?_, ?_, ?_, ?_, ?_⟩ <;> simp

theorem cleanup_rel (s : St) (ha : Rel s.req s.l) (hb : s.req.bufs ≠ .user) : Rel (cleanup s).req (cleanup s).l := by
  obtain ⟨n1, _, n3, n4⟩ := cleanup_fields_null s
  obtain ⟨c1, c2, _⟩ := cleanup_of_rel s ha hb
  exact rel_null _ _ n1 n3 n4 c1 c2

theorem cancel_rel (q : Req) (l : Ledger) (hp : PreW q l) (ha : Rel q l) : Rel { q with result := UV_ECANCELED } l := by
  have := finish_fail_rel q l 125 hp ha
  simpa [finishWork, UV_ECANCELED] using this

structure UrOk (q : Req) : Prop where
  r0 : q.result = 0
  ptr : q.ptr = (if isStat q.op = true then .statx else .null)
  sub : hasSubmitter q.op = true
  bufs : q.bufs ≠ .user
  cb : q.cb = true

theorem cqe_rel (s : St) (res : Int) (ha : Rel s.req s.l) (hu : UrOk s.req) :
    Rel (cqe s res).1.req (cqe s res).1.l ∧ (cqe s res).1.req.bufs ≠ .user ∧
    ((cqe s res).1.phase = .queued → PreW (cqe s res).1.req (cqe s res).1.l) ∧
    ((cqe s res).1.phase = .queued ∨ (cqe s res).1.phase = .done) := by
  obtain ⟨⟨op, cb, path, np, bufs, ptr, rs, nb⟩, l, ph, ac, rg, cbs, cl⟩ := s
  obtain ⟨u1, u2, u3, u4, u5⟩ := hu
  simp only [] at u1 u2 u3 u4 u5 ha
  subst u1 u5
  have n1 : op ≠ .readdir := by intro h; subst h; simp [hasSubmitter] at u3
  have n2 : op ≠ .scandir := by intro h; subst h; simp [hasSubmitter] at u3
  have n3 : op ≠ .opendir := by intro h; subst h; simp [hasSubmitter] at u3
  have n4 : op ≠ .closedir := by intro h; subst h; simp [hasSubmitter] at u3
  have n5 : op ≠ .mkdtemp := by intro h; subst h; simp [hasSubmitter] at u3
  have n6 : op ≠ .mkstemp := by intro h; subst h; simp [hasSubmitter] at u3
  obtain ⟨a1, a2, a3, a4, a5, a6, a7, a8, a9, a10, a11, a12, a13, a14⟩ := ha
  simp only [] at a1 a2 a3 a4 a5 a6 a7 a8 a9 a10 a11 a12 a13 a14
  by_cases hs : isStat op = true
  · simp [hs] at u2
    subst u2
    simp [n1] at a6 a7 a9 a10
    clear a8 a11 a12 a13 a14
    unfold cqe
    by_cases hr : res = EOPNOTSUPP_neg
    · subst hr; simp [hs]
      refine ⟨?_, u4, ?_⟩
      · refine ⟨?_, ?_, ?_, ?_, ?_, ?_, ?_, ?_, ?_, ?_, ?_, ?_, ?_, ?_⟩ <;> simp [Ledger.free, Ledger.get, Ledger.set, n1, *] <;>
        (try (intro hh; first | (have h2' := a2 hh; by_cases hk : pathKind op = .two <;> simp_all [pathRole, Ledger.get]; done) | (have h4' := a4 hh; simp_all; done)))
      · refine ⟨rfl, Or.inl rfl, ?_, ?_, ?_, ?_⟩ <;> simp [n1, n3, n4, u4]
    · by_cases h0 : res = 0
      · subst h0; simp [hs, EOPNOTSUPP_neg]
        refine ⟨?_, u4⟩
        refine ⟨?_, ?_, ?_, ?_, ?_, ?_, ?_, ?_, ?_, ?_, ?_, ?_, ?_, ?_⟩ <;> simp [Ledger.free, Ledger.get, Ledger.set, n1, n2, *] <;>
        (try (intro hh; first | (have h2' := a2 hh; by_cases hk : pathKind op = .two <;> simp_all [pathRole, Ledger.get]; done) | (have h4' := a4 hh; simp_all; done)))
      · simp [hr, hs, h0]
        refine ⟨?_, u4⟩
        refine ⟨?_, ?_, ?_, ?_, ?_, ?_, ?_, ?_, ?_, ?_, ?_, ?_, ?_, ?_⟩ <;> simp [Ledger.free, Ledger.get, Ledger.set, n1, n2, *] <;>
        (try (intro hh; first | (have h2' := a2 hh; by_cases hk : pathKind op = .two <;> simp_all [pathRole, Ledger.get]; done) | (have h4' := a4 hh; simp_all; done)))
  · simp [hs] at u2
    subst u2
    simp [n1] at a6 a7 a9 a10
    clear a8 a11 a12 a13 a14
    unfold cqe
    by_cases hr : res = EOPNOTSUPP_neg
    · subst hr; simp [hs]
      refine ⟨?_, u4, ?_⟩
      · refine ⟨?_, ?_, ?_, ?_, ?_, ?_, ?_, ?_, ?_, ?_, ?_, ?_, ?_, ?_⟩ <;> simp [n1, *] <;>
        (try (intro hh; first | (have h2' := a2 hh; by_cases hk : pathKind op = .two <;> simp_all [pathRole, Ledger.get]; done) | (have h4' := a4 hh; simp_all; done)))
      · refine ⟨rfl, Or.inl rfl, ?_, ?_, ?_, ?_⟩ <;> simp [n1, n3, n4, u4]
    · simp [hr, hs]
      refine ⟨?_, u4⟩
      refine ⟨?_, ?_, ?_, ?_, ?_, ?_, ?_, ?_, ?_, ?_, ?_, ?_, ?_, ?_⟩ <;> simp [n1, n2, *] <;>
        (try (intro hh; first | (have h2' := a2 hh; by_cases hk : pathKind op = .two <;> simp_all [pathRole, Ledger.get]; done) | (have h4' := a4 hh; simp_all; done)))

/-- the ledger invariant of the state machine -/
structure LInv (a : Args) (s : St) : Prop where
  idle : s.phase = .idle → s = init a
  rel : s.phase ≠ .idle → Rel s.req s.l
  pre : s.phase = .queued ∨ s.phase = .cancelled → PreW s.req s.l
  ur : s.phase = .uring → UrOk s.req
  bufs : s.phase ≠ .idle → s.req.bufs ≠ .user

theorem tmpl_ops (op : Op) (h : pathKind op = .tmpl) : op = .mkdtemp ∨ op = .mkstemp := by
  cases op <;> simp [pathKind] at h ⊢

set_option hygiene false in
macro "cp_fin" : tactic => `(tactic|
  (refine ⟨⟨?_, ?_, ?_, ?_, ?_, ?_, ?_, ?_, ?_, ?_, ?_, ?_, ?_, ?_⟩, ?_, ?_, ?_, ?_, ?_, ?_, ?_⟩ <;>
    (try simp [Ledger.alloc, Ledger.get, Ledger.set, pathRole, heq, *])))

theorem copyPaths_spec (a : Args) (l0 : Ledger) (h0 : l0.reqOwned = 0) (hb : l0.badFree = 0) (q1 : Req) (l1 : Ledger)
    (h : copyPaths a (initReq a) l0 = some (q1, l1)) :
    Rel q1 l1 ∧ q1.op = a.op ∧ q1.cb = a.cb ∧ q1.bufs = .null ∧ q1.ptr = .null ∧ q1.result = 0 ∧
    l1.dir = l0.dir ∧ l1.dirstream = l0.dirstream := by
  obtain ⟨m1, m2, m3, m4, m5, m6, m7, m8, m9, m10, m11⟩ := l0
  simp only [] at hb
  simp [Ledger.reqOwned] at h0
  obtain ⟨⟨⟨⟨⟨⟨⟨e1, e2⟩, e3⟩, e4⟩, e5⟩, e6⟩, e7⟩, e8⟩ := h0
  subst e1 e2 e3 e4 e5 e6 e7 e8 hb
  unfold copyPaths at h
  split at h
  · rename_i heq
    simp at h; obtain ⟨hq, hl⟩ := h; subst hq hl
    simp only [initReq]
    cp_fin
  · rename_i heq
    have hm : a.op ≠ .mkdtemp ∧ a.op ≠ .mkstemp := by
      constructor <;> (intro hh; rw [hh] at heq; simp [pathKind] at heq)
    split at h
    · rename_i hc
      simp at h hc; obtain ⟨hq, hl⟩ := h; subst hq hl
      simp only [initReq]
      cp_fin
    · rename_i hc
      simp at hc
      split at h
      · simp at h
      · simp at h; obtain ⟨hq, hl⟩ := h; subst hq hl
        simp only [initReq]
        cp_fin
  · rename_i heq
    have hm : a.op ≠ .mkdtemp ∧ a.op ≠ .mkstemp := by
      constructor <;> (intro hh; rw [hh] at heq; simp [pathKind] at heq)
    split at h
    · rename_i hc
      simp at h hc; obtain ⟨hq, hl⟩ := h; subst hq hl
      simp only [initReq]
      cp_fin
    · rename_i hc
      simp at hc
      split at h
      · simp at h
      · simp at h; obtain ⟨hq, hl⟩ := h; subst hq hl
        simp only [initReq]
        cp_fin
  · rename_i heq
    have hm := tmpl_ops a.op heq
    split at h
    · simp at h
    · simp at h; obtain ⟨hq, hl⟩ := h; subst hq hl
      simp only [initReq]
      cp_fin

set_option hygiene false in
macro "cb_fin" : tactic => `(tactic|
  (refine ⟨⟨?_, ?_, ?_, ?_, ?_, ?_, ?_, ?_, ?_, ?_, ?_, ?_, ?_, ?_⟩, ⟨?_, ?_, ?_, ?_, ?_, ?_⟩, ?_, ?_, ?_⟩ <;>
    (try simp [Ledger.alloc, Ledger.get, Ledger.set, heq, *]) <;>
    (try assumption) <;>
    (try (intro hh; first
      | (have h2' := a2 hh; by_cases hk : pathKind a.op = .two <;> simp_all [pathRole, Ledger.get, Ledger.alloc, Ledger.set]; done)
      | (have h4' := a4 hh; simp_all; done))) <;>
    (try (simp_all; done))))

theorem copyBufs_spec (a : Args) (q1 : Req) (l1 : Ledger) (ha : Rel q1 l1) (ho : q1.op = a.op) (hc : q1.cb = a.cb)
    (hbn : q1.bufs = .null) (hpn : q1.ptr = .null) (hr : q1.result = 0)
    (hd : (a.op = .readdir ∨ a.op = .closedir) → l1.dir = 1 ∧ l1.dirstream = 1)
    (hod : a.op = .opendir → l1.dir = 0 ∧ l1.dirstream = 0)
    (q2 : Req) (l2 : Ledger) (h : copyBufs a q1 l1 = some (q2, l2)) :
    Rel q2 l2 ∧ PreW q2 l2 ∧ q2.op = a.op ∧ q2.cb = a.cb ∧ (q2.bufs = .user → a.cb = false) := by
  obtain ⟨op, cb, path, np, bufs, ptr, res, nb⟩ := q1
  simp only [] at ho hc hbn hpn hr
  subst hbn hpn hr
  obtain ⟨a1, a2, a3, a4, a5, a6, a7, a8, a9, a10, a11, a12, a13, a14⟩ := ha
  simp only [] at a1 a2 a3 a4 a5 a6 a7 a8 a9 a10 a11 a12 a13 a14
  simp at a5 a6 a7 a9 a10
  clear a8 a11 a12 a13 a14
  subst ho hc
  unfold copyBufs at h
  split at h
  · rename_i heq
    try simp only [] at heq
    split at h
    · rename_i hcb
      simp at h hcb; obtain ⟨hq, hl⟩ := h; subst hq hl
      cb_fin
    · rename_i hcb
      simp at hcb
      split at h
      · split at h
        · simp at h
        · simp at h; obtain ⟨hq, hl⟩ := h; subst hq hl
          cb_fin
      · simp at h; obtain ⟨hq, hl⟩ := h; subst hq hl
        cb_fin
  · rename_i heq
    try simp only [] at heq
    split at h
    · split at h
      · simp at h
      · simp at h; obtain ⟨hq, hl⟩ := h; subst hq hl
        cb_fin
    · simp at h; obtain ⟨hq, hl⟩ := h; subst hq hl
      cb_fin
  · rename_i heq
    try simp only [] at heq
    simp at h; obtain ⟨hq, hl⟩ := h; subst hq hl
    have := hd (Or.inl heq)
    cb_fin
  · rename_i heq
    try simp only [] at heq
    simp at h; obtain ⟨hq, hl⟩ := h; subst hq hl
    have := hd (Or.inr heq)
    cb_fin
  · have heq : True := trivial
    simp at h; obtain ⟨hq, hl⟩ := h; subst hq hl
    cb_fin

theorem rel_statx (q : Req) (l : Ledger) (ha : Rel q l) (hp : q.ptr = .null) (hs : isStat q.op = true) :
    Rel { q with ptr := .statx } (l.alloc .statx 1) := by
  obtain ⟨op, cb, path, np, bufs, ptr, res, nb⟩ := q
  simp only [] at hp hs
  subst hp
  have n1 : op ≠ .readdir := by intro h; subst h; simp [isStat] at hs
  have n2 : op ≠ .scandir := by intro h; subst h; simp [isStat] at hs
  have n3 : op ≠ .opendir := by intro h; subst h; simp [isStat] at hs
  have n4 : op ≠ .closedir := by intro h; subst h; simp [isStat] at hs
  obtain ⟨a1, a2, a3, a4, a5, a6, a7, a8, a9, a10, a11, a12, a13, a14⟩ := ha
  simp only [] at a1 a2 a3 a4 a5 a6 a7 a8 a9 a10 a11 a12 a13 a14
  simp [n1] at a6 a7 a9 a10
  clear a8 a11 a12 a13 a14
  refine ⟨?_, ?_, ?_, ?_, ?_, ?_, ?_, ?_, ?_, ?_, ?_, ?_, ?_, ?_⟩ <;> simp [Ledger.alloc, Ledger.get, Ledger.set, n1, n2, n3, n4, *] <;>
    (try (intro hh; first
      | (have h2' := a2 hh; by_cases hk : pathKind op = .two <;> simp_all [pathRole, Ledger.get, Ledger.alloc, Ledger.set]; done)
      | (have h4' := a4 hh; simp_all; done)))

theorem submit_linv (a : Args) : LInv a (submit a (init a)).1 := by
  have hL0 : (init a).l.reqOwned = 0 ∧ (init a).l.badFree = 0 := by
    simp only [init]; split <;> simp [Ledger.reqOwned, Ledger.empty]
  unfold submit
  simp only []
  split
  · refine ⟨?_, ?_, ?_, ?_, ?_⟩ <;> simp
    · exact rel_null _ _ rfl rfl rfl hL0.1 hL0.2
    · simp [initReq]
  · rename_i hchk
    split
    · refine ⟨?_, ?_, ?_, ?_, ?_⟩ <;> simp
      · exact rel_null _ _ rfl rfl rfl hL0.1 hL0.2
      · simp [initReq]
    · rename_i q1 l1 hcp
      obtain ⟨r1, o1, c1, b1, p1, z1, d1, d2⟩ := copyPaths_spec a _ hL0.1 hL0.2 q1 l1 hcp
      have hd : (a.op = .readdir ∨ a.op = .closedir) → l1.dir = 1 ∧ l1.dirstream = 1 := by
        intro hh
        have hc : hasArgCheck a.op = true := by rcases hh with hh | hh <;> simp [hh, hasArgCheck]
        have hao : a.argsOk = true := by simpa [hc] using hchk
        rw [d1, d2]; simp [init, hh, hao]
      have hod : a.op = .opendir → l1.dir = 0 ∧ l1.dirstream = 0 := by
        intro hh
        rw [d1, d2]; simp [init, hh, Ledger.empty]
      split
      · refine ⟨?_, ?_, ?_, ?_, ?_⟩ <;> simp
        · exact r1
        · simp [b1]
      · rename_i q2 l2 hcb
        obtain ⟨r2, w2, o2, c2, u2⟩ := copyBufs_spec a q1 l1 r1 o1 c1 b1 p1 z1 hd hod q2 l2 hcb
        split
        · rename_i hur
          simp at hur
          obtain ⟨⟨hcb1, hsub⟩, hring⟩ := hur
          have hnu : q2.bufs ≠ .user := fun hh => by have := u2 hh; simp [hcb1] at this
          have hpn : q2.ptr = .null := by
            rcases w2.ptr with hh | hh
            · exact hh
            · rcases w2.dirOp.mp hh with h' | h' <;> (rw [o2] at h'; rw [h'] at hsub; simp [hasSubmitter] at hsub)
          by_cases hs : isStat a.op = true
          · simp [hs]
            refine ⟨?_, ?_, ?_, ?_, ?_⟩ <;> simp
            · exact rel_statx q2 l2 r2 hpn (by rw [o2]; exact hs)
            · exact ⟨w2.res0, by simp [o2, hs], by rw [o2]; exact hsub, hnu, by rw [c2]; exact hcb1⟩
            · exact hnu
          · simp [hs]
            refine ⟨?_, ?_, ?_, ?_, ?_⟩ <;> simp
            · exact r2
            · exact ⟨w2.res0, by simp [o2, hs, hpn], by rw [o2]; exact hsub, hnu, by rw [c2]; exact hcb1⟩
            · exact hnu
        · split
          · rename_i hcb1
            have hnu : q2.bufs ≠ .user := fun hh => by have := u2 hh; simp [hcb1] at this
            refine ⟨?_, ?_, ?_, ?_, ?_⟩ <;> simp
            · exact r2
            · exact w2
            · exact hnu
          · obtain ⟨x1, x2⟩ := work_rel q2 l2 a.outs w2 r2
            refine ⟨?_, ?_, ?_, ?_, ?_⟩ <;> simp
            · exact x1
            · exact x2

theorem linv_init (a : Args) : LInv a (init a) := by
  refine ⟨fun _ => rfl, ?_, ?_, ?_, ?_⟩ <;> simp [init]

theorem linv_step (a : Args) (s : St) (e : Ev) (h : LInv a s) : LInv a (step a s e).1 := by
  obtain ⟨h1, h2, h3, h4, h5⟩ := h
  cases e with
  | submit =>
    rw [step_submit]
    split
    · rename_i hp
      rw [h1 hp]
      exact submit_linv a
    · exact ⟨h1, h2, h3, h4, h5⟩
  | cancel =>
    rw [step_cancel]
    split
    · rename_i hp
      have hq : s.phase ≠ .idle := by simp [hp]
      refine ⟨?_, ?_, ?_, ?_, ?_⟩ <;> simp
      · exact h2 hq
      · exact h3 (Or.inl hp)
      · exact h5 hq
    all_goals exact ⟨h1, h2, h3, h4, h5⟩
  | work outs =>
    rw [step_work]
    split
    · rename_i hp
      have hq : s.phase ≠ .idle := by simp [hp]
      obtain ⟨w1, w2⟩ := work_rel s.req s.l outs (h3 (Or.inl hp)) (h2 hq)
      refine ⟨?_, ?_, ?_, ?_, ?_⟩ <;> simp
      · exact w1
      · exact w2
    · exact ⟨h1, h2, h3, h4, h5⟩
  | done =>
    rw [step_done]
    split
    · rename_i hp
      have hq : s.phase ≠ .idle := by simp [hp]
      refine ⟨?_, ?_, ?_, ?_, ?_⟩ <;> simp [fsDone]
      · exact h2 hq
      · exact h5 hq
    · rename_i hp
      have hq : s.phase ≠ .idle := by simp [hp]
      refine ⟨?_, ?_, ?_, ?_, ?_⟩ <;> simp [fsDone]
      · exact cancel_rel _ _ (h3 (Or.inr hp)) (h2 hq)
      · exact h5 hq
    · exact ⟨h1, h2, h3, h4, h5⟩
  | cqe res =>
    rw [step_cqe]
    split
    · rename_i hp
      have hq : s.phase ≠ .idle := by simp [hp]
      obtain ⟨c1, c2, c3, c4⟩ := cqe_rel s res (h2 hq) (h4 hp)
      refine ⟨?_, fun _ => c1, ?_, ?_, fun _ => c2⟩
      · intro hi; rcases c4 with c | c <;> simp [c] at hi
      · intro hi
        rcases hi with hi | hi
        · exact c3 hi
        · rcases c4 with c | c <;> simp [c] at hi
      · intro hi; rcases c4 with c | c <;> simp [c] at hi
    · exact ⟨h1, h2, h3, h4, h5⟩
  | next =>
    rw [step_next]
    split
    · rename_i hp
      have hq : s.phase ≠ .idle := by simp [hp.1]
      obtain ⟨n1, n2⟩ := next_rel s (h2 hq) hp.2
      have hph := (next_result s).2
      refine ⟨?_, fun _ => n1, ?_, ?_, ?_⟩
      · intro hi; rw [hph, hp.1] at hi; simp at hi
      · intro hi; rw [hph, hp.1] at hi; simp at hi
      · intro hi; rw [hph, hp.1] at hi; simp at hi
      · intro _; rw [n2]; exact h5 hq
    · exact ⟨h1, h2, h3, h4, h5⟩
  | cleanup =>
    rw [step_cleanup]
    split
    · rename_i hp
      have hq : s.phase ≠ .idle := by rcases hp with hp | hp <;> simp [hp]
      have hph := (cleanup_result s).2
      refine ⟨?_, fun _ => cleanup_rel s (h2 hq) (h5 hq), ?_, ?_, ?_⟩
      · intro hi; simp only [] at hi; rw [hph] at hi; exact absurd hi hq
      · intro hi; simp only [] at hi; rw [hph] at hi; rcases hp with hp | hp <;> simp [hp] at hi
      · intro hi; simp only [] at hi; rw [hph] at hi; rcases hp with hp | hp <;> simp [hp] at hi
      · intro _; simp only []; rw [(cleanup_fields_null s).2.2.1]; simp
    · exact ⟨h1, h2, h3, h4, h5⟩

theorem linv_run (a : Args) (evs : List Ev) : LInv a (run a evs) :=
  run_induct a (LInv a) (linv_init a) (fun s e h => linv_step a s e h) evs

/-- the value `req->path` has from the front end until cleanup -/
def pathVal (a : Args) : PathF :=
  match pathKind a.op with
  | .none => .null
  | .tmpl => .heap
  | _ => if a.cb then .heap else .user

theorem attempt_frame (q : Req) (l : Ledger) (o : Outcome) :
    (attempt q l o).1.path = q.path ∧ (attempt q l o).1.cb = q.cb := by
  unfold attempt
  split <;> (constructor <;> (repeat' split) <;> rfl)

theorem finishWork_frame (q : Req) (o : Outcome) : (finishWork q o).path = q.path ∧ (finishWork q o).cb = q.cb := by
  cases o <;> exact ⟨rfl, rfl⟩

theorem work_frame (q : Req) (l : Ledger) (outs : List Outcome) :
    (work q l outs).1.path = q.path ∧ (work q l outs).1.cb = q.cb := by
  induction outs generalizing q l with
  | nil =>
    rw [work_nil]
    simp only [(finishWork_frame _ _).1, (finishWork_frame _ _).2, (attempt_frame _ _ _).1, (attempt_frame _ _ _).2]
    exact ⟨trivial, trivial⟩
  | cons o rest ih =>
    rw [work_cons]
    split
    · split
      · rw [(ih _ _).1, (ih _ _).2, (attempt_frame _ _ _).1, (attempt_frame _ _ _).2]; exact ⟨rfl, rfl⟩
      · simp only [(finishWork_frame _ _).1, (finishWork_frame _ _).2, (attempt_frame _ _ _).1, (attempt_frame _ _ _).2]
        exact ⟨trivial, trivial⟩
    · simp only [(finishWork_frame _ _).1, (finishWork_frame _ _).2, (attempt_frame _ _ _).1, (attempt_frame _ _ _).2]
      exact ⟨trivial, trivial⟩

theorem copyPaths_path (a : Args) (l0 : Ledger) (q1 : Req) (l1 : Ledger)
    (h : copyPaths a (initReq a) l0 = some (q1, l1)) : q1.path = pathVal a := by
  unfold copyPaths at h
  unfold pathVal
  split at h <;> rename_i heq <;> simp only [heq]
  · simp at h; rw [← h.1]; rfl
  · split at h
    · rename_i hc; simp at h hc; rw [← h.1]; simp [hc]
    · rename_i hc; simp at hc
      split at h
      · simp at h
      · simp at h; rw [← h.1]; simp [hc]
  · split at h
    · rename_i hc; simp at h hc; rw [← h.1]; simp [hc]
    · rename_i hc; simp at hc
      split at h
      · simp at h
      · simp at h; rw [← h.1]; simp [hc]
  · split at h
    · simp at h
    · simp at h; rw [← h.1]

theorem copyBufs_path (a : Args) (q1 : Req) (l1 : Ledger) (q2 : Req) (l2 : Ledger)
    (h : copyBufs a q1 l1 = some (q2, l2)) : q2.path = q1.path := by
  unfold copyBufs at h
  split at h <;> (repeat' split at h) <;> simp at h <;> (try (rw [← h.1]))

theorem copyBufs_opcb (a : Args) (q1 : Req) (l1 : Ledger) (q2 : Req) (l2 : Ledger)
    (h : copyBufs a q1 l1 = some (q2, l2)) : q2.op = q1.op ∧ q2.cb = q1.cb := by
  unfold copyBufs at h
  split at h <;> (repeat' split at h) <;> simp at h <;> (try (rw [← h.1])) <;> exact ⟨rfl, rfl⟩

theorem copyPaths_opcb (a : Args) (l0 : Ledger) (q1 : Req) (l1 : Ledger)
    (h : copyPaths a (initReq a) l0 = some (q1, l1)) : q1.op = a.op ∧ q1.cb = a.cb := by
  unfold copyPaths at h
  split at h <;> (repeat' split at h) <;> simp at h <;> (try (rw [← h.1])) <;> exact ⟨rfl, rfl⟩

structure PInv (a : Args) (s : St) : Prop where
  idle : s.phase = .idle → s = init a
  oc : s.phase ≠ .idle → s.req.op = a.op ∧ s.req.cb = a.cb
  pv : s.phase ≠ .idle → s.phase ≠ .rejected → s.cleaned = false → s.req.path = pathVal a
  pn : s.phase ≠ .idle → s.req.path = pathVal a ∨ s.req.path = .null

theorem submit_pinv (a : Args) : PInv a (submit a (init a)).1 := by
  unfold submit
  simp only []
  split
  · refine ⟨?_, ?_, ?_, ?_⟩ <;> simp [initReq]
  · split
    · refine ⟨?_, ?_, ?_, ?_⟩ <;> simp [initReq]
    · rename_i q1 l1 hcp
      have p1 := copyPaths_path a _ q1 l1 hcp
      obtain ⟨o1, c1⟩ := copyPaths_opcb a _ q1 l1 hcp
      split
      · refine ⟨?_, ?_, ?_, ?_⟩ <;> simp [*]
      · rename_i q2 l2 hcb
        have p2 := copyBufs_path a q1 l1 q2 l2 hcb
        obtain ⟨o2, c2⟩ := copyBufs_opcb a q1 l1 q2 l2 hcb
        split
        · by_cases hs : isStat a.op = true <;> simp [hs] <;>
            (refine ⟨?_, ?_, ?_, ?_⟩ <;> simp [init, *])
        · split
          · refine ⟨?_, ?_, ?_, ?_⟩ <;> simp [init, *]
          · refine ⟨?_, ?_, ?_, ?_⟩ <;> simp [init, work_op, (work_frame _ _ _).1, (work_frame _ _ _).2, *]

theorem cqe_frame (s : St) (res : Int) :
    (cqe s res).1.req.path = s.req.path ∧ (cqe s res).1.req.op = s.req.op ∧ (cqe s res).1.req.cb = s.req.cb ∧
    (cqe s res).1.cleaned = s.cleaned ∧ ((cqe s res).1.phase = .queued ∨ (cqe s res).1.phase = .done) := by
  unfold cqe
  simp only []
  refine ⟨?_, ?_, ?_, ?_, ?_⟩ <;> (repeat' split) <;> simp

theorem next_frame (s : St) :
    (scandirNext s).1.req.path = s.req.path ∧ (scandirNext s).1.req.op = s.req.op ∧ (scandirNext s).1.req.cb = s.req.cb ∧
    (scandirNext s).1.cleaned = s.cleaned := by
  unfold scandirNext
  simp only []
  refine ⟨?_, ?_, ?_, ?_⟩ <;> (repeat' split) <;> first | rfl | trivial

theorem cleanup_frame (s : St) : (cleanup s).req.op = s.req.op ∧ (cleanup s).req.cb = s.req.cb := by
  unfold cleanup
  simp only []
  refine ⟨?_, ?_⟩ <;> (repeat' split) <;> first | rfl | trivial

theorem pinv_step (a : Args) (s : St) (e : Ev) (h : PInv a s) : PInv a (step a s e).1 := by
  obtain ⟨h1, h2, h3, h4⟩ := h
  cases e with
  | submit =>
    rw [step_submit]
    split
    · rename_i hp; rw [h1 hp]; exact submit_pinv a
    · exact ⟨h1, h2, h3, h4⟩
  | cancel =>
    rw [step_cancel]
    split
    · rename_i hp
      have hq : s.phase ≠ .idle := by simp [hp]
      refine ⟨?_, ?_, ?_, ?_⟩ <;> simp
      · exact h2 hq
      · exact h3 hq (by simp [hp])
      · exact h4 hq
    all_goals exact ⟨h1, h2, h3, h4⟩
  | work outs =>
    rw [step_work]
    split
    · rename_i hp
      have hq : s.phase ≠ .idle := by simp [hp]
      refine ⟨?_, ?_, ?_, ?_⟩ <;> simp [work_op, (work_frame _ _ _).1, (work_frame _ _ _).2]
      · exact h2 hq
      · exact h3 hq (by simp [hp])
      · exact h4 hq
    · exact ⟨h1, h2, h3, h4⟩
  | done =>
    rw [step_done]
    split
    · rename_i hp
      have hq : s.phase ≠ .idle := by simp [hp]
      refine ⟨?_, ?_, ?_, ?_⟩ <;> simp [fsDone]
      · exact h2 hq
      · exact h3 hq (by simp [hp])
      · exact h4 hq
    · rename_i hp
      have hq : s.phase ≠ .idle := by simp [hp]
      refine ⟨?_, ?_, ?_, ?_⟩ <;> simp [fsDone]
      · exact h2 hq
      · exact h3 hq (by simp [hp])
      · exact h4 hq
    · exact ⟨h1, h2, h3, h4⟩
  | cqe res =>
    rw [step_cqe]
    split
    · rename_i hp
      have hq : s.phase ≠ .idle := by simp [hp]
      obtain ⟨f1, f2, f3, f4, f5⟩ := cqe_frame s res
      refine ⟨?_, ?_, ?_, ?_⟩
      · intro hi; rcases f5 with c | c <;> simp [c] at hi
      · intro _; rw [f2, f3]; exact h2 hq
      · intro _ _ hc; rw [f1]; rw [f4] at hc; exact h3 hq (by simp [hp]) hc
      · intro _; rw [f1]; exact h4 hq
    · exact ⟨h1, h2, h3, h4⟩
  | next =>
    rw [step_next]
    split
    · rename_i hp
      have hq : s.phase ≠ .idle := by simp [hp.1]
      obtain ⟨f1, f2, f3, f4⟩ := next_frame s
      have hph := (next_result s).2
      refine ⟨?_, ?_, ?_, ?_⟩
      · intro hi; rw [hph, hp.1] at hi; simp at hi
      · intro _; rw [f2, f3]; exact h2 hq
      · intro _ _ hc; rw [f1]; rw [f4] at hc; exact h3 hq (by simp [hp.1]) hc
      · intro _; rw [f1]; exact h4 hq
    · exact ⟨h1, h2, h3, h4⟩
  | cleanup =>
    rw [step_cleanup]
    split
    · rename_i hp
      have hq : s.phase ≠ .idle := by rcases hp with hp | hp <;> simp [hp]
      have hph := (cleanup_result s).2
      obtain ⟨f2, f3⟩ := cleanup_frame s
      refine ⟨?_, ?_, ?_, ?_⟩
      · intro hi; simp only [] at hi; rw [hph] at hi; exact absurd hi hq
      · intro _; simp only []; rw [f2, f3]; exact h2 hq
      · intro _ _ hc; simp only [] at hc; rw [cleanup_cleaned] at hc; simp at hc
      · intro _; simp only []; right; exact (cleanup_fields_null s).1
    · exact ⟨h1, h2, h3, h4⟩

theorem pinv_run (a : Args) (evs : List Ev) : PInv a (run a evs) :=
  run_induct a (PInv a) ⟨fun _ => rfl, by simp [init], by simp [init], by simp [init]⟩ (fun s e h => pinv_step a s e h) evs

theorem attempt_stat (q : Req) (l : Ledger) (o : Outcome) (hs : isStat q.op = true) : attempt q l o = (q, l, o) := by
  unfold attempt
  split <;> simp_all [isStat]

theorem work_stat (q : Req) (l : Ledger) (outs : List Outcome) (hs : isStat q.op = true) (hp : q.ptr = .null)
    (hnz : Outcome.fail 0 ∉ outs) :
    (work q l outs).1.ptr = if (work q l outs).1.result = 0 then .statbuf else .null := by
  induction outs generalizing q l with
  | nil =>
    rw [work_nil, attempt_stat q l _ hs]
    simp [finishWork, hp, FsBuf.EIO]
  | cons o rest ih =>
    rw [work_cons, attempt_stat q l _ hs]
    simp only []
    cases o with
    | ok n =>
      simp only [finishWork]
      by_cases hn : n = 0
      · simp [hn, hs]
      · simp [hn, hp]
    | fail e =>
      simp only []
      split
      · exact ih q l hs hp (fun h => hnz (List.mem_cons_of_mem _ h))
      · have he : e ≠ 0 := by
          intro h; subst h; exact hnz (List.mem_cons_self ..)
        simp [finishWork, hp]; omega

theorem run_induct_mem (a : Args) (P : St → Prop) (evs : List Ev) (h0 : P (init a))
    (hstep : ∀ s e, e ∈ evs → P s → P (step a s e).1) : P (run a evs) := by
  unfold run
  suffices h : ∀ (es : List Ev) (s : St), (∀ e, e ∈ es → e ∈ evs) → P s → P (runFrom a s es) from h evs _ (fun _ h => h) h0
  intro es
  induction es with
  | nil => intro s _ h; exact h
  | cons e es ih =>
    intro s hm h
    exact ih _ (fun e' he' => hm e' (List.mem_cons_of_mem _ he')) (hstep s e (hm e (List.mem_cons_self ..)) h)

def SInv (a : Args) (s : St) : Prop :=
  (s.phase = .worked ∨ s.phase = .done) → s.cleaned = false →
  s.req.ptr = (if s.req.result = 0 then .statbuf else .null)

theorem stat_not_dirop (op : Op) (hs : isStat op = true) : op ≠ .readdir ∧ op ≠ .closedir ∧ op ≠ .scandir := by
  cases op <;> simp [isStat] at hs ⊢

theorem submit_sinv (a : Args) (hs : isStat a.op = true) (hnz : Outcome.fail 0 ∉ a.outs) : SInv a (submit a (init a)).1 := by
  have hL0 : (init a).l.reqOwned = 0 ∧ (init a).l.badFree = 0 := by
    simp only [init]; split <;> simp [Ledger.reqOwned, Ledger.empty]
  have hn := stat_not_dirop a.op hs
  unfold submit
  simp only []
  split
  · intro hp; simp at hp
  · split
    · intro hp; simp at hp
    · rename_i q1 l1 hcp
      obtain ⟨r1, o1, c1, b1, p1, z1, d1, d2⟩ := copyPaths_spec a _ hL0.1 hL0.2 q1 l1 hcp
      split
      · intro hp; simp at hp
      · rename_i q2 l2 hcb
        have hd : (a.op = .readdir ∨ a.op = .closedir) → l1.dir = 1 ∧ l1.dirstream = 1 := by
          intro hh; rcases hh with hh | hh
          · exact absurd hh hn.1
          · exact absurd hh hn.2.1
        have hod : a.op = .opendir → l1.dir = 0 ∧ l1.dirstream = 0 := by
          intro hh; rw [hh] at hs; simp [isStat] at hs
        obtain ⟨r2, w2, o2, c2, u2⟩ := copyBufs_spec a q1 l1 r1 o1 c1 b1 p1 z1 hd hod q2 l2 hcb
        have hpn : q2.ptr = .null := by
          rcases w2.ptr with hh | hh
          · exact hh
          · rcases w2.dirOp.mp hh with h' | h' <;> rw [o2] at h'
            · exact absurd h' hn.1
            · exact absurd h' hn.2.1
        split
        · by_cases hs' : isStat a.op = true <;> simp [hs'] <;> (intro hp; simp at hp)
        · split
          · intro hp; simp at hp
          · intro _ _
            exact work_stat q2 l2 a.outs (by rw [o2]; exact hs) hpn hnz

theorem sinv_step (a : Args) (hs : isStat a.op = true) (s : St) (e : Ev)
    (hnz0 : Outcome.fail 0 ∉ a.outs) (hnz : ∀ os, e = .work os → Outcome.fail 0 ∉ os)
    (hL : LInv a s) (hP : PInv a s) (h : SInv a s) : SInv a (step a s e).1 := by
  have hn := stat_not_dirop a.op hs
  cases e with
  | submit =>
    rw [step_submit]
    split
    · rename_i hp; rw [hP.idle hp]; exact submit_sinv a hs hnz0
    · exact h
  | cancel =>
    rw [step_cancel]
    split
    · intro hp; simp at hp
    all_goals exact h
  | work outs =>
    rw [step_work]
    split
    · rename_i hp
      have hq : s.phase ≠ .idle := by simp [hp]
      have w := hL.pre (Or.inl hp)
      have ho := (hP.oc hq).1
      have hpn : s.req.ptr = .null := by
        rcases w.ptr with hh | hh
        · exact hh
        · rcases w.dirOp.mp hh with h' | h' <;> rw [ho] at h'
          · exact absurd h' hn.1
          · exact absurd h' hn.2.1
      intro _ _
      exact work_stat s.req s.l outs (by rw [ho]; exact hs) hpn (hnz outs rfl)
    · exact h
  | done =>
    rw [step_done]
    split
    · rename_i hp
      intro _ hc
      exact h (Or.inl hp) hc
    · rename_i hp
      have hq : s.phase ≠ .idle := by simp [hp]
      have w := hL.pre (Or.inr hp)
      have ho := (hP.oc hq).1
      have hpn : s.req.ptr = .null := by
        rcases w.ptr with hh | hh
        · exact hh
        · rcases w.dirOp.mp hh with h' | h' <;> rw [ho] at h'
          · exact absurd h' hn.1
          · exact absurd h' hn.2.1
      intro _ _
      simp [fsDone, hpn, UV_ECANCELED]
    · exact h
  | cqe res =>
    rw [step_cqe]
    split
    · rename_i hp
      have hq : s.phase ≠ .idle := by simp [hp]
      have ho := (hP.oc hq).1
      have hs' : isStat s.req.op = true := by rw [ho]; exact hs
      unfold cqe
      simp only []
      split
      · intro hp'; simp at hp'
      · intro _ _
        simp [hs']
    · exact h
  | next =>
    rw [step_next]
    split
    · rename_i hp
      have hq : s.phase ≠ .idle := by simp [hp.1]
      have ho := (hP.oc hq).1
      rw [hp.2] at ho
      exact absurd ho.symm hn.2.2
    · exact h
  | cleanup =>
    rw [step_cleanup]
    split
    · intro _ hc
      simp only [] at hc
      rw [cleanup_cleaned] at hc
      simp at hc
    · exact h

theorem work_opendir (q : Req) (l : Ledger) (outs : List Outcome) (ho : q.op = .opendir)
    (hd : l.dir = 0 ∧ l.dirstream = 0) (hnz : Outcome.fail 0 ∉ outs) :
    (work q l outs).2.userOwned = if (work q l outs).1.result = 0 then 2 else 0 := by
  induction outs generalizing q l with
  | nil =>
    rw [work_nil]
    simp [attempt, ho, finishWork, Ledger.userOwned, hd, FsBuf.EIO]
  | cons o rest ih =>
    rw [work_cons]
    cases o with
    | ok n =>
      simp [attempt, ho, finishWork, Ledger.userOwned, Ledger.alloc, Ledger.get, Ledger.set, hd]
    | fail e =>
      have he : e ≠ 0 := by
        intro h; subst h; exact hnz (List.mem_cons_self ..)
      simp only [attempt, ho]
      split
      · exact ih _ l (by simp [ho]) hd (fun h => hnz (List.mem_cons_of_mem _ h))
      · simp [finishWork, Ledger.userOwned, hd]; omega

def DInv (a : Args) (s : St) : Prop :=
  (s.phase = .worked ∨ s.phase = .done) → s.l.userOwned = (if s.req.result = 0 then 2 else 0)

theorem submit_dinv (a : Args) (ho : a.op = .opendir) (hnz : Outcome.fail 0 ∉ a.outs) : DInv a (submit a (init a)).1 := by
  have hL0 : (init a).l.reqOwned = 0 ∧ (init a).l.badFree = 0 := by
    simp only [init]; split <;> simp [Ledger.reqOwned, Ledger.empty]
  unfold submit
  simp only []
  split
  · intro hp; simp at hp
  · split
    · intro hp; simp at hp
    · rename_i q1 l1 hcp
      obtain ⟨r1, o1, c1, b1, p1, z1, d1, d2⟩ := copyPaths_spec a _ hL0.1 hL0.2 q1 l1 hcp
      split
      · intro hp; simp at hp
      · rename_i q2 l2 hcb
        have hd : (a.op = .readdir ∨ a.op = .closedir) → l1.dir = 1 ∧ l1.dirstream = 1 := by
          intro hh; rw [ho] at hh; simp at hh
        have hod : a.op = .opendir → l1.dir = 0 ∧ l1.dirstream = 0 := by
          intro hh; rw [d1, d2]; simp [init, hh, Ledger.empty]
        obtain ⟨r2, w2, o2, c2, u2⟩ := copyBufs_spec a q1 l1 r1 o1 c1 b1 p1 z1 hd hod q2 l2 hcb
        split
        · rename_i hur
          simp [ho, hasSubmitter] at hur
        · split
          · intro hp; simp at hp
          · intro _
            exact work_opendir q2 l2 a.outs (by rw [o2]; exact ho) (w2.od (by rw [o2]; exact ho)) hnz

theorem dinv_step (a : Args) (ho : a.op = .opendir) (s : St) (e : Ev)
    (hnz0 : Outcome.fail 0 ∉ a.outs) (hnz : ∀ os, e = .work os → Outcome.fail 0 ∉ os)
    (hL : LInv a s) (hP : PInv a s) (h : DInv a s) : DInv a (step a s e).1 := by
  cases e with
  | submit =>
    rw [step_submit]
    split
    · rename_i hp; rw [hP.idle hp]; exact submit_dinv a ho hnz0
    · exact h
  | cancel =>
    rw [step_cancel]
    split
    · intro hp; simp at hp
    all_goals exact h
  | work outs =>
    rw [step_work]
    split
    · rename_i hp
      have hq : s.phase ≠ .idle := by simp [hp]
      have w := hL.pre (Or.inl hp)
      have hop : s.req.op = .opendir := by rw [(hP.oc hq).1]; exact ho
      intro _
      exact work_opendir s.req s.l outs hop (w.od hop) (hnz outs rfl)
    · exact h
  | done =>
    rw [step_done]
    split
    · rename_i hp
      intro _
      exact h (Or.inl hp)
    · rename_i hp
      have hq : s.phase ≠ .idle := by simp [hp]
      have w := hL.pre (Or.inr hp)
      have hop : s.req.op = .opendir := by rw [(hP.oc hq).1]; exact ho
      intro _
      simp [fsDone, UV_ECANCELED, Ledger.userOwned, w.od hop]
    · exact h
  | cqe res =>
    rw [step_cqe]
    split
    · rename_i hp
      have hq : s.phase ≠ .idle := by simp [hp]
      have hop : s.req.op = .opendir := by rw [(hP.oc hq).1]; exact ho
      have := (hL.ur hp).sub
      rw [hop] at this
      simp [hasSubmitter] at this
    · exact h
  | next =>
    rw [step_next]
    split
    · rename_i hp
      have hq : s.phase ≠ .idle := by simp [hp.1]
      have hop : s.req.op = .opendir := by rw [(hP.oc hq).1]; exact ho
      rw [hp.2] at hop
      simp at hop
    · exact h
  | cleanup =>
    rw [step_cleanup]
    split
    · rename_i hp
      have hq : s.phase ≠ .idle := by rcases hp with hp | hp <;> simp [hp]
      intro hp'
      simp only [] at hp' ⊢
      rw [(cleanup_result s).2] at hp'
      rw [(cleanup_result s).1, (cleanup_of_rel s (hL.rel hq) (hL.bufs hq)).2.2]
      exact h hp'
    · exact h

end UvModel.FsReq
