import UvModel.Lemmas.AsyncLemmas2
/-! C09: the combined invariant over reachable states, stability of closed handles, memory contract -/
namespace UvModel.Async

structure Inv (s : State) : Prop where
  L : InvL s
  S : InvS s
  W : NoLost s
  C : CbLe s
  J : SeenOrPending s
  B : InvB s

theorem countP_replicate_idle (n h : Nat) : (List.replicate n ({} : Sender)).countP (critB h) = 0 := by
  rw [List.countP_eq_zero]; intro a ha; rw [List.mem_replicate] at ha; simp [ha.2, critB]

theorem inv_init (nh ns cap : Nat) : Inv (init nh ns cap) := by
  refine ⟨?_, ?_, ?_, ?_, ?_, ?_⟩
  · constructor <;> simp [init, qMustBeEmpty]
  · constructor <;> simp [init, List.getElem?_replicate] <;> grind
  · intro h; simp [init]
  · intro h; simp [init]
  · intro t x hx hp; simp [init, List.getElem?_replicate] at hx; obtain ⟨_, rfl⟩ := hx; simp [published] at hp
  · constructor
    · intro h; simp [init, countP_replicate_idle]
    · intro t x hx hp; simp [init, List.getElem?_replicate] at hx; obtain ⟨_, rfl⟩ := hx; simp at hp

theorem inv_step {s s' : State} {a : Act} (hI : Inv s) (hs : step? s a = some s') : Inv s' :=
  ⟨invL_step hI.L hs, invS_step hI.S hs, noLost_step hI.L hI.S hI.W hs, cbLe_step hI.L hI.C hs,
   seenOrPending_step hI.S hI.J hs, invB_step hI.L hI.S hI.B hs⟩

theorem inv_step' {s : State} (a : Act) (hI : Inv s) : Inv (step s a) := by
  unfold step
  cases h : step? s a with
  | none => simpa using hI
  | some s' => simpa using inv_step hI h

theorem inv_run {s : State} (acts : List Act) (hI : Inv s) : Inv (run s acts) := by
  induction acts generalizing s with
  | nil => exact hI
  | cons a as ih => exact ih (inv_step' a hI)

theorem inv_reachable {s : State} (h : Reachable s) : Inv s := by
  obtain ⟨nh, ns, cap, acts, rfl⟩ := h
  exact inv_run acts (inv_init nh ns cap)

theorem reachable_run {s : State} (h : Reachable s) (acts : List Act) : Reachable (run s acts) := by
  obtain ⟨nh, ns, cap, a0, rfl⟩ := h
  exact ⟨nh, ns, cap, a0 ++ acts, by simp [run, List.foldl_append]⟩

/-! ## a handle whose uv__async_close returned stays closed and gets no further callback -/
theorem closed_step {s s' : State} {a : Act} {h : Nat} (hL : InvL s) (hu : (s.hs h).unlinked = true)
    (hs : step? s a = some s') : (s'.hs h).unlinked = true ∧ (s'.hs h).cbs = (s.hs h).cbs := by
  have h1 := hL.scanIn h
  have h2 := hL.unl h hu
  have h3 := hL.cloPc h
  cases a with
  | begin t h0 =>
    simp only [step?] at hs
    repeat' split at hs
    all_goals first | (simp at hs; done) | skip
    all_goals (simp only [Option.some.injEq] at hs; subst hs; simp [setSnd, setH, upd]; first | done | grind)
  | snd t =>
    simp only [step?, sndStep] at hs
    repeat' split at hs
    all_goals first | (simp at hs; done) | skip
    all_goals (simp only [Option.some.injEq] at hs; subst hs; simp [setSnd, setH, upd]; first | done | grind)
  | loop =>
    simp only [step?, loopStep] at hs
    cases hl : s.lpc <;> simp only [hl] at hs <;> (try split at hs) <;> (try (simp at hs; done)) <;>
      (simp only [Option.some.injEq] at hs; subst hs; simp [setH, upd] at * <;> first | done | grind)
  | close h0 =>
    simp only [step?] at hs
    repeat' split at hs
    all_goals first | (simp at hs; done) | skip
    all_goals (simp only [Option.some.injEq] at hs; subst hs; simp [setH, upd]; first | done | grind)
  | fork =>
    simp only [step?] at hs
    split at hs
    · simp only [Option.some.injEq] at hs; subst hs; simp [h2.2, hu]
    · simp at hs
  | eintr w => cases step?_eintr hs; exact ⟨hu, rfl⟩
  | closeCbs =>
    simp only [step?] at hs
    repeat' split at hs
    all_goals first | (simp at hs; done) | skip
    all_goals (simp only [Option.some.injEq] at hs; subst hs; simp; first | done | grind)

theorem closed_run {s : State} {h : Nat} (hI : Inv s) (hu : (s.hs h).unlinked = true) (acts : List Act) :
    ((run s acts).hs h).unlinked = true ∧ ((run s acts).hs h).cbs = (s.hs h).cbs := by
  induction acts generalizing s with
  | nil => exact ⟨hu, rfl⟩
  | cons a as ih =>
    show ((run (step s a) as).hs h).unlinked = true ∧ ((run (step s a) as).hs h).cbs = (s.hs h).cbs
    have hI' := inv_step' a hI
    have hc : ((step s a).hs h).unlinked = true ∧ ((step s a).hs h).cbs = (s.hs h).cbs := by
      unfold step
      cases hs : step? s a with
      | none => simpa using hu
      | some s' => simpa using closed_step hI.L hu hs
    have := ih hI' hc.1
    exact ⟨this.1, this.2.trans hc.2⟩

/-! ## handle memory: safe exactly under the user contract -/
/-- the user contract: the close callback releases the handle memory only when no uv_async_send call on it is in flight -/
def Contract (s : State) (a : Act) : Prop :=
  a = .closeCbs → ∀ (t : Nat) (x : Sender), s.snd[t]? = some x → x.pc ≠ .idle → (s.hs x.h).unlinked = false

inductive ReachC : State → Prop
  | init (nh ns cap : Nat) : ReachC (init nh ns cap)
  | step {s s' : State} {a : Act} : ReachC s → Contract s a → step? s a = some s' → ReachC s'

/-- no thread is inside uv_async_send on a handle whose memory has been released -/
def MemSafe (s : State) : Prop :=
  ∀ (t : Nat) (x : Sender), s.snd[t]? = some x → x.pc ≠ .idle → (s.hs x.h).freed = false

theorem memSafe_step {s s' : State} {a : Act} (hL : InvL s) (hM : MemSafe s) (hC : Contract s a)
    (hs : step? s a = some s') : MemSafe s' := by
  have hM0 := hM
  simp only [MemSafe] at hM0
  cases a with
  | begin t h0 =>
    simp only [step?] at hs
    repeat' split at hs
    all_goals first | (simp at hs; done) | skip
    all_goals (simp only [Option.some.injEq] at hs; subst hs; intro t' x' hx' hp; have := hM t' x'
               have h1 := hL.freedUnl h0; have h2 := hL.unlSto h0; have h3 := hL.sto h0
               simp [setSnd, setH, upd, List.getElem?_set] at *; first | done | grind)
  | snd t =>
    simp only [step?, sndStep] at hs
    repeat' split at hs
    all_goals first | (simp at hs; done) | skip
    all_goals (simp only [Option.some.injEq] at hs; subst hs; intro t' x' hx' hp; have := hM t' x'
               simp [setSnd, setH, upd, List.getElem?_set] at *; first | done | grind)
  | loop =>
    simp only [step?, loopStep] at hs
    cases hl : s.lpc <;> simp only [hl] at hs <;> (try split at hs) <;> (try (simp at hs; done)) <;>
      (simp only [Option.some.injEq] at hs; subst hs; intro t' x' hx' hp; simp at hx'; have := hM t' x' hx' hp
       simp [setH, upd] at * <;> first | done | grind)
  | close h0 =>
    simp only [step?] at hs
    repeat' split at hs
    all_goals first | (simp at hs; done) | skip
    all_goals (simp only [Option.some.injEq] at hs; subst hs; intro t' x' hx' hp; have := hM t' x' hx' hp
               simp [setH, upd] at *; first | done | grind)
  | fork =>
    simp only [step?] at hs
    split at hs
    · simp only [Option.some.injEq] at hs; subst hs
      intro t' x' hx' hp
      simp [List.getElem?_map] at hx'
      obtain ⟨y, _, rfl⟩ := hx'
      simp at hp
    · simp at hs
  | eintr w => cases step?_eintr hs; exact hM
  | closeCbs =>
    have hC' := hC rfl
    simp only [step?] at hs
    repeat' split at hs
    all_goals first | (simp at hs; done) | skip
    all_goals (simp only [Option.some.injEq] at hs; subst hs; intro t' x' hx' hp; have := hM t' x' hx' hp
               have := hC' t' x' hx' hp
               simp at *; first | done | grind)

theorem reachC_inv {s : State} (h : ReachC s) : InvL s ∧ MemSafe s := by
  induction h with
  | init nh ns cap =>
    refine ⟨(inv_init nh ns cap).L, ?_⟩
    intro t x hx hp; simp [init, List.getElem?_replicate] at hx; obtain ⟨_, rfl⟩ := hx; simp at hp
  | step _ hC hs ih => exact ⟨invL_step ih.1 hs, memSafe_step ih.1 ih.2 hC hs⟩

/-! ## no deadlock while a callback is owed -/
theorem snd_enabled_of_active {s : State} {t : Nat} {x : Sender} (hx : s.snd[t]? = some x) (hp : x.pc ≠ .idle) :
    (step? s (.snd t)).isSome = true := by
  simp only [step?, sndStep, hx]
  cases hpc : x.pc <;> simp [hpc] at hp ⊢ <;> split <;> simp

/-- while a callback is owed on an open handle some thread can always take a step: the loop thread, or — when
the loop is asleep with the eventfd at 0 or spinning in uv__async_spin — a sender that is inside uv_async_send -/
theorem owed_implies_some_thread_enabled {s : State} (hI : Inv s) (h : Nat)
    (hp : (s.hs h).pending ≠ 0) (ho : (s.hs h).closing = false) :
    (step? s .loop).isSome = true ∨ ∃ t, (step? s (.snd t)).isSome = true := by
  cases hl : s.lpc with
  | idle =>
    rcases hI.W h hp ho with h1 | ⟨t, x, hx, hw⟩ | h1
    · left; simp [step?, loopStep, hl, h1]
    · right; exact ⟨t, snd_enabled_of_active hx (by simp [hw])⟩
    · simp [willScan, hl] at h1
  | drain => left; simp [step?, loopStep, hl]
  | scan h' => left; simp only [step?, loopStep, hl]; split <;> simp
  | inCb h' => left; simp [step?, loopStep, hl]
  | closeStore h' r => left; simp [step?, loopStep, hl]
  | closeSpin h' r =>
    by_cases hb : (s.hs h').busy = 0
    · left; simp [step?, loopStep, hl, hb]
    · right
      have := hI.B.busyEq h' (hI.L.cloPc h' r (Or.inr hl)).2
      have hpos : 0 < s.snd.countP (critB h') := by omega
      obtain ⟨x, hx, hc⟩ := List.countP_pos_iff.mp hpos
      obtain ⟨t, ht⟩ := List.getElem?_of_mem hx
      refine ⟨t, snd_enabled_of_active ht ?_⟩
      intro hid; simp [critB, hid] at hc


end UvModel.Async
