import UvModel.Lemmas.LoopPhases
/-!
  `uv__run_idle/prepare/check`: counting the callbacks of one handle through the detached queue.
  The counting predicate `f` is abstract: false on `op`/`obs`/`endcb` events, and on a callback event it
  tests "kind = the watcher kind ∧ handle = id".
-/
namespace UvModel.Loop.Phases
open UvModel.Loop UvModel.HandleKernels

def cntF (f : Event → Bool) (l : List Event) : Nat := (l.filter f).length

section
variable (f : Event → Bool) (hop : ∀ o r, f (.op o r) = false) (hobs : ∀ o, f (.obs o) = false)
  (hend : f .endcb = false)
include hop hobs hend

omit hop hobs hend in
theorem cntF_emit_le (s : State) (e : Event) :
    cntF f (emit s e).trace ≤ cntF f s.trace + (if f e then 1 else 0) := by
  unfold emit cntF
  split
  · omega
  · simp only [List.filter_cons]
    split <;> simp

omit hop hobs hend in
theorem cntF_emit_false (s : State) (e : Event) (h : f e = false) : cntF f (emit s e).trace = cntF f s.trace := by
  unfold emit cntF
  split
  · rfl
  · simp [h]

omit hop hend in
theorem cntF_emitObs (s : State) : cntF f (emitObs s).trace = cntF f s.trace :=
  cntF_emit_false f s _ (hobs _)

omit hend in
theorem cntF_stepOp (s : State) (o : Op) : cntF f (stepOp s o).trace = cntF f s.trace := by
  unfold stepOp
  simp only
  rw [cntF_emitObs f hobs, cntF_emit_false f _ _ (hop _ _)]
  have h := tr_applyOp s o
  simp only [tr, Prod.mk.injEq] at h
  rw [h.1]

omit hend in
theorem cntF_foldl (ops : List Op) (s : State) : cntF f (ops.foldl stepOp s).trace = cntF f s.trace := by
  induction ops generalizing s with
  | nil => rfl
  | cons o t ih => simp only [List.foldl]; rw [ih, cntF_stepOp f hop hobs]

theorem cntF_runCb (sc : Script) (ph : Phase) (k : CbKind) (key : CbKey) (id : Nat) (a b : Int) (occ : Nat) (s : State) :
    cntF f (runCb sc ph k key id a b occ s).trace ≤ cntF f s.trace + (if f (.cb ph k id a b) then 1 else 0) := by
  unfold runCb
  simp only
  rw [cntF_emitObs f hobs, cntF_emit_false f _ _ hend, cntF_foldl f hop hobs, cntF_emitObs f hobs]
  exact cntF_emit_le f { s with ncbTotal := s.ncbTotal + 1 } _

theorem cntF_runHandleCb (sc : Script) (ph : Phase) (k : CbKind) (id : Nat) (a b : Int) (s : State) :
    cntF f (runHandleCb sc ph k id a b s).trace ≤ cntF f s.trace + (if f (.cb ph k id a b) then 1 else 0) := by
  unfold runHandleCb
  split
  · omega
  · exact cntF_runCb f hop hobs hend sc ph k _ id a b _ (modH s id _)
end

theorem OW_runCb (sc : Script) (ph : Phase) (k : CbKind) (key : CbKey) (id : Nat) (a b : Int) (occ : Nat) (s : State) :
    OW s (runCb sc ph k key id a b occ s) := by
  unfold runCb
  simp only
  have h1 : OW s (emitObs (emit { s with ncbTotal := s.ncbTotal + 1 } (.cb ph k id a b))) :=
    OW.of_eq (by simp; rfl)
  have h2 := OW_foldl (sc key occ s.ncbTotal) (emitObs (emit { s with ncbTotal := s.ncbTotal + 1 } (.cb ph k id a b)))
  exact OW.trans (OW.trans h1 h2) (OW.of_eq (by simp))

theorem OW_runHandleCb (sc : Script) (ph : Phase) (k : CbKind) (id : Nat) (a b : Int) (s : State) :
    OW s (runHandleCb sc ph k id a b s) := by
  unfold runHandleCb
  split
  · exact OW.refl s
  · exact OW.trans (OW.of_eq (by simp)) (OW_runCb sc ph k _ id a b _ (modH s id _))

section
variable (f : Event → Bool) (hop : ∀ o r, f (.op o r) = false) (hobs : ∀ o, f (.obs o) = false)
  (hend : f .endcb = false) (k : WKind) (id : Nat)
  (hcb : ∀ ph kk i a b, f (.cb ph kk i a b) = (kk == wCb k && i == id))
include hop hobs hend hcb

/-- a handle still in the detached queue is called at most once more; one that has left it, never -/
theorem runWatchersLoop_cnt (sc : Script) (fuel : Nat) (s : State) (hn : s.watcherLocal.Nodup) :
    cntF f (runWatchersLoop sc k fuel s).trace ≤ cntF f s.trace + (if id ∈ s.watcherLocal then 1 else 0) := by
  induction fuel generalizing s with
  | zero => unfold runWatchersLoop; omega
  | succ n ih =>
    unfold runWatchersLoop
    split
    · omega
    · rename_i j rest heq
      simp only
      have f1 : (setWList { s with watcherLocal := rest } k (wList { s with watcherLocal := rest } k ++ [j])).watcherLocal = rest ∧
          (setWList { s with watcherLocal := rest } k (wList { s with watcherLocal := rest } k ++ [j])).trace = s.trace := by
        cases k <;> exact ⟨rfl, rfl⟩
      generalize setWList { s with watcherLocal := rest } k (wList { s with watcherLocal := rest } k ++ [j]) = s1 at f1 ⊢
      obtain ⟨w1, t1⟩ := f1
      have hc := cntF_runHandleCb f hop hobs hend sc (wPhase k) (wCb k) j 0 0 s1
      have hw := (OW_runHandleCb sc (wPhase k) (wCb k) j 0 0 s1).2
      rw [w1] at hw
      rw [t1, hcb] at hc
      rw [heq] at hn
      obtain ⟨hj, hr⟩ := List.nodup_cons.1 hn
      generalize runHandleCb sc (wPhase k) (wCb k) j 0 0 s1 = s2 at hc hw ⊢
      have h2 := ih s2 (hw.nodup hr)
      rw [heq]
      by_cases hji : j = id
      · subst hji
        have hnot : j ∉ s2.watcherLocal := fun h => hj (hw.subset h)
        rw [if_neg hnot] at h2
        rw [if_pos List.mem_cons_self]
        split at hc <;> omega
      · have hfalse : ¬ ((wCb k == wCb k && j == id) = true) := by simp [hji]
        rw [if_neg hfalse] at hc
        by_cases hm : id ∈ s2.watcherLocal
        · rw [if_pos hm] at h2
          rw [if_pos (List.mem_cons_of_mem _ (hw.subset hm))]
          omega
        · rw [if_neg hm] at h2
          split <;> omega

theorem runWatchers_cnt (sc : Script) (s : State) (hn : (wList s k).Nodup) :
    cntF f (runWatchers sc k s).trace ≤ cntF f s.trace + 1 := by
  unfold runWatchers
  simp only
  have f1 : (setWList { s with watcherLocal := wList s k } k []).watcherLocal = wList s k ∧
      (setWList { s with watcherLocal := wList s k } k []).trace = s.trace := by
    cases k <;> exact ⟨rfl, rfl⟩
  generalize setWList { s with watcherLocal := wList s k } k [] = s1 at f1 ⊢
  obtain ⟨w1, t1⟩ := f1
  have := runWatchersLoop_cnt f hop hobs hend k id hcb sc (s1.watcherLocal.length + 1) s1 (by rw [w1]; exact hn)
  rw [t1] at this
  split at this <;> omega
end

end UvModel.Loop.Phases
