import UvModel.Lemmas.AsyncLemmas3
/-! C09 liveness: a termination measure for the uv__async_io scan under interleaved sender steps, helpful threads,
    and the weak-fairness argument over infinite schedules -/
namespace UvModel.Async

/-- position of the loop thread relative to handle `h`, in loop steps still to go (an upper bound) -/
def rankL (s : State) (h : Nat) : Nat :=
  let tot := s.handles.length + s.queue.length
  match s.lpc with
  | .idle => 2 * tot + 5
  | .drain => 2 * tot + 4
  | .scan h' => if h' = h then 1 else if h ∈ s.queue then 2 * s.queue.idxOf h + 3 else 2 * tot + 5 + 2 * s.queue.length + 2
  | .inCb _ => if h ∈ s.queue then 2 * s.queue.idxOf h + 2 else 2 * tot + 5 + 2 * s.queue.length + 1
  | _ => 0

def mu (s : State) (h : Nat) : Nat :=
  2 * rankL s h + (if s.lpc = .idle ∧ s.efd = 0 then 1 else 0)

def noClosePc (s : State) : Prop := ∀ h' r, s.lpc ≠ .closeStore h' r ∧ s.lpc ≠ .closeSpin h' r

/-- a callback of `h` is owed and has not started since the count was `c0` -/
structure Owed (s : State) (h c0 : Nat) : Prop where
  inv : Inv s
  pend : (s.hs h).pending ≠ 0
  opn : (s.hs h).closing = false
  cnt : (s.hs h).cbs = c0
  pc : noClosePc s

/-- continuation actions of the liveness theorem: no uv_close, no fork (a fork drops undelivered sends in the child by design) -/
def notClose : Act → Prop
  | .close _ => False
  | .fork => False
  | _ => True

/-- an enabled loop step starts the callback or strictly decreases the measure -/
theorem loop_step_dec {s s' : State} {h c0 : Nat} (ho : Owed s h c0) (hs : step? s .loop = some s') :
    (s'.hs h).cbs > c0 ∨ (Owed s' h c0 ∧ mu s' h < mu s h) := by
  have hi : Inv s' := inv_step ho.inv hs
  have hp := ho.pend; have hop := ho.opn; have hc := ho.cnt; have hpc := ho.pc
  simp only [step?, loopStep] at hs
  cases hl : s.lpc with
  | closeStore h' r => exact absurd hl (hpc h' r).1
  | closeSpin h' r => exact absurd hl (hpc h' r).2
  | idle =>
    simp only [hl] at hs; split at hs
    · simp only [Option.some.injEq] at hs; subst hs; right
      refine ⟨⟨hi, ?_, ?_, ?_, ?_⟩, ?_⟩ <;> simp [noClosePc, mu, rankL, hl] at * <;> first | done | grind
    · simp at hs
  | drain =>
    simp only [hl] at hs
    have hq := ho.inv.L.qEmpty (by simp [hl, qMustBeEmpty])
    have hin : h ∈ s.handles := by
      have h1 := ho.inv.S.pendLt h hp
      have h2 := ho.inv.L.linked h h1
      have h3 := ho.inv.L.unlSto h
      have h4 := ho.inv.L.sto h
      simp [hq] at h2
      grind
    rcases hh : s.handles with _ | ⟨h0, hs0⟩
    · simp [hh] at hin
    · simp only [Option.some.injEq] at hs; subst hs; right
      have hlt := @List.idxOf_lt_length_iff _ _ _ hs0 h
      refine ⟨⟨hi, ?_, ?_, ?_, ?_⟩, ?_⟩ <;> simp [nextScan, hh, hq, noClosePc, mu, rankL, hl] at * <;> first | done | grind
  | scan h' =>
    simp only [hl] at hs
    by_cases hh' : h' = h
    · subst hh'; left
      simp only [hp, if_false] at hs
      simp only [Option.some.injEq] at hs; subst hs
      simp [setH, upd, hc]
    · rcases hq : s.queue with _ | ⟨q0, qs⟩ <;> split at hs <;>
      (simp only [Option.some.injEq] at hs; subst hs; right
       have hne : h ≠ h' := fun e => hh' e.symm
       have hlt := fun (l : List Nat) => @List.idxOf_lt_length_iff _ _ _ l h
       refine ⟨⟨hi, ?_, ?_, ?_, ?_⟩, ?_⟩ <;>
         simp [nextScan, hq, setH, upd, noClosePc, mu, rankL, hl, hh', hne, List.idxOf_cons] at * <;> first | done | grind)
  | inCb h' =>
    simp only [hl] at hs
    rcases hq : s.queue with _ | ⟨q0, qs⟩ <;>
      (simp only [Option.some.injEq] at hs; subst hs; right
       have hlt := fun (l : List Nat) => @List.idxOf_lt_length_iff _ _ _ l h
       refine ⟨⟨hi, ?_, ?_, ?_, ?_⟩, ?_⟩ <;>
         simp [nextScan, hq, noClosePc, mu, rankL, hl, List.idxOf_cons] at * <;> first | done | grind)


/-- one step of a continuation without uv_close: the callback starts, or it stays owed and the measure does not grow -/
theorem owed_step {s : State} {h c0 : Nat} (a : Act) (ha : notClose a) (ho : Owed s h c0) :
    ((step s a).hs h).cbs > c0 ∨ (Owed (step s a) h c0 ∧ mu (step s a) h ≤ mu s h) := by
  have hinv' := inv_step' a ho.inv
  have hp := ho.pend; have hop := ho.opn; have hc := ho.cnt; have hpc := ho.pc
  unfold step
  cases hs : step? s a with
  | none => right; simp only [Option.getD_none]; exact ⟨ho, Nat.le_refl _⟩
  | some s' =>
    have hi : Inv s' := by simpa [step, hs] using hinv'
    simp only [Option.getD_some]
    cases a with
    | close _ => exact absurd ha (by simp [notClose])
    | fork => exact absurd ha (by simp [notClose])
    | eintr w => right; cases step?_eintr hs; exact ⟨ho, Nat.le_refl _⟩
    | begin t h0 =>
      simp only [step?] at hs
      repeat' split at hs
      all_goals first | (simp at hs; done) | skip
      all_goals (simp only [Option.some.injEq] at hs; subst hs; right
                 refine ⟨⟨hi, ?_, ?_, ?_, ?_⟩, ?_⟩ <;> simp [setSnd, setH, upd, noClosePc, mu, rankL] at * <;> first | done | grind)
    | snd t =>
      simp only [step?, sndStep] at hs
      repeat' split at hs
      all_goals first | (simp at hs; done) | skip
      all_goals (simp only [Option.some.injEq] at hs; subst hs; right
                 refine ⟨⟨hi, ?_, ?_, ?_, ?_⟩, ?_⟩ <;> simp [setSnd, setH, upd, noClosePc, mu, rankL] at * <;> first | done | grind)
    | closeCbs =>
      simp only [step?] at hs
      repeat' split at hs
      all_goals first | (simp at hs; done) | skip
      all_goals (simp only [Option.some.injEq] at hs; subst hs; right
                 refine ⟨⟨hi, ?_, ?_, ?_, ?_⟩, ?_⟩ <;> simp [noClosePc, mu, rankL] at * <;> first | done | grind)
    | loop =>
      rcases loop_step_dec ho hs with h1 | ⟨h1, h2⟩
      · exact Or.inl h1
      · exact Or.inr ⟨h1, Nat.le_of_lt h2⟩

/-! ### helpful threads -/
def Helpful (s : State) : Act → Prop
  | .loop => s.lpc ≠ .idle ∨ s.efd > 0
  | .snd t => s.lpc = .idle ∧ s.efd = 0 ∧ ∃ x : Sender, s.snd[t]? = some x ∧ x.pc = .write
  | _ => False

theorem step_snd_length (s : State) (a : Act) : (step s a).snd.length = s.snd.length := by
  unfold step
  cases hs : step? s a with
  | none => rfl
  | some s' =>
    simp only [Option.getD_some]
    cases a with
    | begin t h0 =>
      simp only [step?] at hs
      repeat' split at hs
      all_goals first | (simp at hs; done) | skip
      all_goals (simp only [Option.some.injEq] at hs; subst hs; simp [setSnd, setH])
    | snd t =>
      simp only [step?, sndStep] at hs
      repeat' split at hs
      all_goals first | (simp at hs; done) | skip
      all_goals (simp only [Option.some.injEq] at hs; subst hs; simp [setSnd, setH])
    | loop =>
      simp only [step?, loopStep] at hs
      repeat' split at hs
      all_goals first | (simp at hs; done) | skip
      all_goals (simp only [Option.some.injEq] at hs; subst hs; simp [setH])
    | close h0 =>
      simp only [step?] at hs
      repeat' split at hs
      all_goals first | (simp at hs; done) | skip
      all_goals (simp only [Option.some.injEq] at hs; subst hs; simp [setH])
    | fork =>
      simp only [step?] at hs
      split at hs
      · simp only [Option.some.injEq] at hs; subst hs; simp
      · simp at hs
    | eintr w => cases step?_eintr hs; rfl
    | closeCbs =>
      simp only [step?] at hs
      repeat' split at hs
      all_goals first | (simp at hs; done) | skip
      all_goals (simp only [Option.some.injEq] at hs; subst hs; simp)

theorem exists_helpful {s : State} {h c0 : Nat} (ho : Owed s h c0) :
    ∃ a, Helpful s a ∧ (a = .loop ∨ ∃ t, a = .snd t ∧ t < s.snd.length) := by
  by_cases hl : s.lpc = .idle
  · by_cases he : s.efd = 0
    · rcases ho.inv.W h ho.pend ho.opn with h1 | ⟨t, x, hx, hw⟩ | h1
      · omega
      · refine ⟨.snd t, ⟨hl, he, x, hx, hw⟩, Or.inr ⟨t, rfl, ?_⟩⟩
        rcases Nat.lt_or_ge t s.snd.length with h2 | h2
        · exact h2
        · rw [List.getElem?_eq_none h2] at hx; cases hx
      · simp [willScan, hl] at h1
    · exact ⟨.loop, Or.inr (by omega), Or.inl rfl⟩
  · exact ⟨.loop, Or.inl hl, Or.inl rfl⟩

theorem helpful_dec {s : State} {h c0 : Nat} {a : Act} (ho : Owed s h c0) (hh : Helpful s a) :
    ((step s a).hs h).cbs > c0 ∨ (Owed (step s a) h c0 ∧ mu (step s a) h < mu s h) := by
  cases a with
  | loop =>
    have hen : ∃ s', step? s .loop = some s' := by
      have hpc := ho.pc
      simp only [step?, loopStep]
      cases hl : s.lpc with
      | idle => simp [Helpful, hl] at hh; simp [hh]
      | drain => simp
      | scan h' => simp only []; split <;> simp
      | inCb h' => simp
      | closeStore h' r => exact absurd hl (hpc h' r).1
      | closeSpin h' r => exact absurd hl (hpc h' r).2
    obtain ⟨s', hs⟩ := hen
    simpa [step, hs] using loop_step_dec ho hs
  | snd t =>
    obtain ⟨hl, he, x, hx, hw⟩ := hh
    have hi := inv_step' (.snd t) ho.inv
    have hp := ho.pend; have hop := ho.opn; have hc := ho.cnt; have hpc := ho.pc
    right
    have hs : step? s (.snd t) = some (setSnd { s with efd := if s.efd ≤ s.capm1 then s.efd + 1 else s.efd } t { x with pc := .dec }) := by
      simp [step?, sndStep, hx, hw]
    simp only [step, hs, Option.getD_some] at hi ⊢
    refine ⟨⟨hi, ?_, ?_, ?_, ?_⟩, ?_⟩ <;> simp [setSnd, noClosePc, mu, rankL, hl, he] at * <;> first | done | grind
  | begin _ _ => exact absurd hh (by simp [Helpful])
  | close _ => exact absurd hh (by simp [Helpful])
  | closeCbs => exact absurd hh (by simp [Helpful])
  | eintr _ => exact absurd hh (by simp [Helpful])
  | fork => exact absurd hh (by simp [Helpful])

/-- a step that is not a loop step and not uv_close leaves the loop thread where it is; the eventfd counter can only grow;
other senders are untouched -/
theorem nonloop_frame (s : State) (b : Act) (hb : notClose b) (hnl : b ≠ .loop) :
    (step s b).lpc = s.lpc ∧ (step s b).queue = s.queue ∧ (step s b).handles = s.handles ∧ s.efd ≤ (step s b).efd ∧
    (∀ t, b ≠ .snd t → (∀ x : Sender, s.snd[t]? = some x → x.pc ≠ .idle → (step s b).snd[t]? = some x)) := by
  unfold step
  cases hs : step? s b with
  | none => simp; intro t _ x hx _; exact hx
  | some s' =>
    simp only [Option.getD_some]
    cases b with
    | loop => exact absurd rfl hnl
    | close _ => exact absurd hb (by simp [notClose])
    | fork => exact absurd hb (by simp [notClose])
    | begin t h0 =>
      simp only [step?] at hs
      repeat' split at hs
      all_goals first | (simp at hs; done) | skip
      all_goals (simp only [Option.some.injEq] at hs; subst hs; simp [setSnd, setH, List.getElem?_set]; grind)
    | snd t =>
      simp only [step?, sndStep] at hs
      repeat' split at hs
      all_goals first | (simp at hs; done) | skip
      all_goals (simp only [Option.some.injEq] at hs; subst hs; simp [setSnd, setH, List.getElem?_set]; first | done | grind)
    | eintr w => cases step?_eintr hs; simp; intros; assumption
    | closeCbs =>
      simp only [step?] at hs
      repeat' split at hs
      all_goals first | (simp at hs; done) | skip
      all_goals (simp only [Option.some.injEq] at hs; subst hs; simp; intro t x hx _; exact hx)

theorem rankL_congr {s s' : State} (h : Nat) (h1 : s'.lpc = s.lpc) (h2 : s'.queue = s.queue) (h3 : s'.handles = s.handles) :
    rankL s' h = rankL s h := by
  simp [rankL, h1, h2, h3]

/-- a helpful thread stays helpful until it is scheduled, unless the measure drops in the meantime -/
theorem helpful_persist {s : State} {h : Nat} {a b : Act} (hh : Helpful s a)
    (hb : notClose b) (hne : b ≠ a) : Helpful (step s b) a ∨ mu (step s b) h < mu s h := by
  cases a with
  | loop =>
    obtain ⟨h1, _, _, h4, _⟩ := nonloop_frame s b hb hne
    left
    rcases hh with hh | hh
    · exact Or.inl (by rw [h1]; exact hh)
    · exact Or.inr (by omega)
  | snd t =>
    obtain ⟨hl, he, x, hx, hw⟩ := hh
    by_cases hbl : b = .loop
    · subst hbl
      have : step? s .loop = none := by simp [step?, loopStep, hl, he]
      left; simp only [step, this, Option.getD_none]; exact ⟨hl, he, x, hx, hw⟩
    · obtain ⟨h1, h2, h3, h4, h5⟩ := nonloop_frame s b hb hbl
      have hx' := h5 t (fun e => hne e) x hx (by simp [hw])
      by_cases he' : (step s b).efd = 0
      · left; exact ⟨by rw [h1]; exact hl, he', x, hx', hw⟩
      · right
        have := rankL_congr h h1 h2 h3
        simp [mu, this, h1, hl, he, he']
  | begin _ _ => exact absurd hh (by simp [Helpful])
  | close _ => exact absurd hh (by simp [Helpful])
  | closeCbs => exact absurd hh (by simp [Helpful])
  | eintr _ => exact absurd hh (by simp [Helpful])
  | fork => exact absurd hh (by simp [Helpful])

/-! ### the infinite-schedule argument -/
def runN (σ : Nat → Act) (n : Nat) (s : State) : State := (List.range n).foldl (fun s i => step s (σ i)) s

theorem runN_succ (σ : Nat → Act) (n : Nat) (s : State) : runN σ (n + 1) s = step (runN σ n s) (σ n) := by
  simp [runN, List.range_succ, List.foldl_append]

theorem runN_snd_length (σ : Nat → Act) (n : Nat) (s : State) : (runN σ n s).snd.length = s.snd.length := by
  induction n with
  | zero => simp [runN]
  | succ n ih => rw [runN_succ, step_snd_length, ih]

/-- from a state where `a` is helpful and `a` is scheduled at time m ≥ n: the callback starts, or the measure
drops strictly at some later time at which the callback is still owed -/
theorem reach_drop (σ : Nat → Act) (hσ : ∀ n, notClose (σ n)) (s0 : State) (h c0 : Nat) (a : Act) :
    ∀ (d n : Nat), σ (n + d) = a → Owed (runN σ n s0) h c0 → Helpful (runN σ n s0) a →
      (∃ n', ((runN σ n' s0).hs h).cbs > c0) ∨
      (∃ j, Owed (runN σ j s0) h c0 ∧ mu (runN σ j s0) h < mu (runN σ n s0) h) := by
  intro d
  induction d with
  | zero =>
    intro n hm ho hh
    simp only [Nat.add_zero] at hm
    rcases helpful_dec ho hh with h1 | ⟨h1, h2⟩
    · left; exact ⟨n + 1, by rw [runN_succ, hm]; exact h1⟩
    · right; exact ⟨n + 1, by rw [runN_succ, hm]; exact h1, by rw [runN_succ, hm]; exact h2⟩
  | succ d ih =>
    intro n hm ho hh
    by_cases hna : σ n = a
    · rcases helpful_dec ho hh with h1 | ⟨h1, h2⟩
      · left; exact ⟨n + 1, by rw [runN_succ, hna]; exact h1⟩
      · right; exact ⟨n + 1, by rw [runN_succ, hna]; exact h1, by rw [runN_succ, hna]; exact h2⟩
    · rcases owed_step (σ n) (hσ n) ho with h1 | ⟨h1, h2⟩
      · left; exact ⟨n + 1, by rw [runN_succ]; exact h1⟩
      · rcases helpful_persist hh (hσ n) hna with h3 | h3
        · have hm' : σ (n + 1 + d) = a := by rw [← hm]; congr 1; omega
          rcases ih (n + 1) hm' (by rw [runN_succ]; exact h1) (by rw [runN_succ]; exact h3) with h4 | ⟨j, h4, h5⟩
          · exact Or.inl h4
          · right; refine ⟨j, h4, ?_⟩
            rw [runN_succ] at h5; omega
        · right; exact ⟨n + 1, by rw [runN_succ]; exact h1, by rw [runN_succ]; exact h3⟩

theorem liveness_aux (σ : Nat → Act) (hσ : ∀ n, notClose (σ n)) (s0 : State) (h c0 : Nat)
    (fairL : ∀ n, ∃ m, m ≥ n ∧ σ m = .loop)
    (fairS : ∀ n t, t < s0.snd.length → ∃ m, m ≥ n ∧ σ m = .snd t) :
    ∀ (k n : Nat), mu (runN σ n s0) h ≤ k → Owed (runN σ n s0) h c0 → ∃ n', ((runN σ n' s0).hs h).cbs > c0 := by
  intro k
  induction k using Nat.strongRecOn with
  | _ k ih =>
    intro n hk ho
    obtain ⟨a, hh, ha⟩ := exists_helpful ho
    have hm : ∃ m, m ≥ n ∧ σ m = a := by
      rcases ha with rfl | ⟨t, rfl, ht⟩
      · exact fairL n
      · exact fairS n t (by rw [runN_snd_length] at ht; exact ht)
    obtain ⟨m, hge, hma⟩ := hm
    have hm' : σ (n + (m - n)) = a := by rw [← hma]; congr 1; omega
    rcases reach_drop σ hσ s0 h c0 a (m - n) n hm' ho hh with h1 | ⟨j, h1, h2⟩
    · exact h1
    · exact ih (mu (runN σ j s0) h) (by omega) j (Nat.le_refl _) h1

end UvModel.Async
