import UvModel.FsBuf
/-! helper lemmas and specification vocabulary for C11 (a): model of fs.c buffer arithmetic -/
namespace UvModel.FsBuf
variable {α : Type}

def measure (l : List (List α)) : Nat := l.flatten.length + l.length

theorem writeSys_none (off : Int) (n : Nat) : writeSys off n = none ↔ n = 0 := by
  unfold writeSys; split <;> split <;> (try split) <;> simp <;> omega

theorem writeLoop_nil (iovmax : Nat) (off : Int) (bufs : List (List α)) (total : Int) :
    writeLoop iovmax [] off bufs total =
      match writeSys off (bufs.take iovmax).length with
      | none => ⟨total, 0, [], off⟩
      | some sys => ⟨if total = 0 then -1 else total, EIO, [⟨sys, off, bufs.take iovmax, .fail EIO⟩], off⟩ := by
  rw [writeLoop]; cases writeSys off (bufs.take iovmax).length <;> rfl

theorem writeLoop_cons (iovmax : Nat) (o : Outcome) (os : List Outcome) (off : Int) (bufs : List (List α)) (total : Int) :
    writeLoop iovmax (o :: os) off bufs total =
      match writeSys off (bufs.take iovmax).length with
      | none => ⟨total, 0, [], off⟩
      | some sys =>
        match round off bufs (bufs.take iovmax) total o with
        | .stop r e => ⟨r, e, [⟨sys, off, bufs.take iovmax, o⟩], off⟩
        | .cont off' bufs' total' =>
          { writeLoop iovmax os off' bufs' total' with calls := ⟨sys, off, bufs.take iovmax, o⟩ :: (writeLoop iovmax os off' bufs' total').calls } := by
  rw [writeLoop]; cases writeSys off (bufs.take iovmax).length <;> rfl

theorem bufOffset_flatten (bufs : List (List α)) (size : Nat) (h : size ≤ bufs.flatten.length) :
    ((bufOffset bufs size).2.drop (bufOffset bufs size).1).flatten = bufs.flatten.drop size := by
  induction bufs generalizing size with
  | nil => simp [bufOffset]
  | cons b rest ih =>
    unfold bufOffset
    simp only [List.flatten_cons, List.length_append] at h ⊢
    split
    · next hc =>
      simp only [List.drop_succ_cons]
      rw [ih _ (by omega), List.drop_append, List.drop_eq_nil_of_le hc.2]
      simp
    · split
      · next h1 h2 =>
        rw [List.drop_append_of_le_length (by omega)]; simp
      · next h1 h2 =>
        have : size = 0 := by omega
        simp [this]

theorem bufOffset_measure_le (bufs : List (List α)) (size : Nat) :
    measure ((bufOffset bufs size).2.drop (bufOffset bufs size).1) ≤ measure bufs := by
  induction bufs generalizing size with
  | nil => simp [bufOffset, measure]
  | cons b rest ih =>
    unfold bufOffset
    split
    · simp only [List.drop_succ_cons]
      have := ih (size - b.length)
      simp only [measure, List.flatten_cons, List.length_append, List.length_cons] at this ⊢
      omega
    · split <;> simp [measure] <;> omega

theorem bufOffset_measure_lt (bufs : List (List α)) (size : Nat) (hs : 0 < size) (hb : bufs ≠ []) :
    measure ((bufOffset bufs size).2.drop (bufOffset bufs size).1) < measure bufs := by
  cases bufs with
  | nil => exact absurd rfl hb
  | cons b rest =>
    unfold bufOffset
    split
    · simp only [List.drop_succ_cons]
      have := bufOffset_measure_le rest (size - b.length)
      simp only [measure, List.flatten_cons, List.length_append, List.length_cons] at this ⊢
      omega
    · simp [measure]; omega

theorem leadingEmpty_le (l : List (List α)) : leadingEmpty l ≤ l.length := by
  induction l with
  | nil => simp [leadingEmpty]
  | cons b r ih => unfold leadingEmpty; split <;> simp <;> omega

theorem leadingEmpty_drop_flatten (bufs : List (List α)) (k : Nat) :
    (bufs.drop (leadingEmpty (bufs.take k))).flatten = bufs.flatten := by
  induction bufs generalizing k with
  | nil => simp
  | cons b rest ih =>
    cases k with
    | zero => simp [leadingEmpty]
    | succ k =>
      simp only [List.take_succ_cons, leadingEmpty]
      split
      · next h =>
        have : b = [] := List.eq_nil_of_length_eq_zero h
        simp [ih k, this]
      · simp

theorem leadingEmpty_pos (chunk : List (List α)) (hne : chunk ≠ []) (h0 : chunk.flatten.length = 0) :
    0 < leadingEmpty chunk := by
  cases chunk with
  | nil => exact absurd rfl hne
  | cons b r =>
    simp only [List.flatten_cons, List.length_append] at h0
    unfold leadingEmpty
    rw [if_pos (by omega)]; omega

theorem take_flatten_le (bufs : List (List α)) (k : Nat) :
    (bufs.take k).flatten.length ≤ bufs.flatten.length := by
  conv => rhs; rw [← List.take_append_drop k bufs]
  simp only [List.flatten_append, List.length_append]; omega

theorem take_flatten_take (bufs : List (List α)) (k n : Nat) (h : n ≤ (bufs.take k).flatten.length) :
    (bufs.take k).flatten.take n = bufs.flatten.take n := by
  conv => rhs; rw [← List.take_append_drop k bufs]
  rw [List.flatten_append, List.take_append_of_le_length h]

/-! ### specification vocabulary -/

/-- the kernel never reports more bytes than the iovec holds -/
def Bounded (calls : List (Call α)) : Prop := ∀ c ∈ calls, ∀ n, c.out = .ok n → n ≤ c.iov.flatten.length
/-- a call that was given at least one byte and did not fail transferred at least one byte -/
def Progress (calls : List (Call α)) : Prop := ∀ c ∈ calls, c.out = .ok 0 → c.iov.flatten.length = 0
/-- no call reported an error other than EINTR -/
def NoError (calls : List (Call α)) : Prop := ∀ c ∈ calls, ∀ e, c.out = .fail e → e = EINTR
/-- each call is issued at the offset where the previous one stopped (off ≥ 0), or always with the
    "current position" convention (off < 0) -/
def Consecutive : Int → List (Call α) → Prop
  | _, [] => True
  | off, c :: cs => c.off = off ∧ Consecutive (if 0 ≤ off then off + (c.written.length : Int) else off) cs

/-- the answer is not an EINTR retry -/
def notEintr (o : Outcome) : Bool := decide (o ≠ .fail EINTR)

@[simp] theorem notEintr_eintr : notEintr (.fail EINTR) = false := by simp [notEintr]
@[simp] theorem notEintr_ok (n : Nat) : notEintr (.ok n) = true := by simp [notEintr]
@[simp] theorem notEintr_eio : notEintr (.fail EIO) = true := by decide
theorem notEintr_of_ne {o : Outcome} (h : o ≠ .fail EINTR) : notEintr o = true := by simp [notEintr, h]

theorem filter_cons_len_le {β : Type} (p : β → Bool) (c : β) (cs : List β) :
    ((c :: cs).filter p).length ≤ (cs.filter p).length + 1 := by
  rw [List.filter_cons]; split <;> simp

def writtenAll (calls : List (Call α)) : List α := calls.flatMap Call.written

theorem round_fail (off : Int) (bufs chunk : List (List α)) (total : Int) (e : Nat) :
    round off bufs chunk total (.fail e) =
      if e = EINTR then .cont off bufs total else .stop (if total = 0 then -1 else total) e := rfl
theorem round_zero (off : Int) (bufs chunk : List (List α)) (total : Int) :
    round off bufs chunk total (.ok 0) =
      if leadingEmpty chunk = 0 then .stop total 0 else .cont off (bufs.drop (leadingEmpty chunk)) total := rfl
theorem round_succ (off : Int) (bufs chunk : List (List α)) (total : Int) (n : Nat) :
    round off bufs chunk total (.ok (n + 1)) =
      .cont (if 0 ≤ off then off + ((n + 1 : Nat) : Int) else off)
        ((bufOffset bufs (n + 1)).2.drop (bufOffset bufs (n + 1)).1) (total + ((n + 1 : Nat) : Int)) := rfl

theorem chunk_nil_iff (iovmax : Nat) (hi : 0 < iovmax) (bufs : List (List α)) :
    (bufs.take iovmax).length = 0 ↔ bufs = [] := by
  cases bufs with
  | nil => simp
  | cons b r => simp; omega

theorem writeLoop_inv (iovmax : Nat) (hi : 0 < iovmax) (os : List Outcome) :
    ∀ (off : Int) (bufs : List (List α)) (total : Int), 0 ≤ total →
      Bounded (writeLoop iovmax os off bufs total).calls →
      Progress (writeLoop iovmax os off bufs total).calls →
      writtenAll (writeLoop iovmax os off bufs total).calls <+: bufs.flatten ∧
      Consecutive off (writeLoop iovmax os off bufs total).calls ∧
      ((NoError (writeLoop iovmax os off bufs total).calls ∧
        writtenAll (writeLoop iovmax os off bufs total).calls = bufs.flatten ∧
        (writeLoop iovmax os off bufs total).ret = total + (bufs.flatten.length : Int)) ∨
       (∃ e, e ≠ EINTR ∧ (∃ c ∈ (writeLoop iovmax os off bufs total).calls, c.out = .fail e) ∧
        (writeLoop iovmax os off bufs total).errno = e ∧
        (writeLoop iovmax os off bufs total).ret =
          (if total + ((writtenAll (writeLoop iovmax os off bufs total).calls).length : Int) = 0 then -1
           else total + ((writtenAll (writeLoop iovmax os off bufs total).calls).length : Int)))) := by
  induction os with
  | nil =>
    intro off bufs total ht
    rw [writeLoop_nil]
    cases hs : writeSys off (bufs.take iovmax).length with
    | none =>
      have hb : bufs = [] := (chunk_nil_iff iovmax hi bufs).1 ((writeSys_none _ _).1 hs)
      subst hb
      intro _ _
      simp [writtenAll, Consecutive, NoError]
    | some sys =>
      intro _ _
      refine ⟨by simp [writtenAll, Call.written], by simp [Consecutive], Or.inr ⟨EIO, by decide, ?_, rfl, ?_⟩⟩
      · exact ⟨_, List.mem_singleton.2 rfl, rfl⟩
      · simp [writtenAll, Call.written]
  | cons o os ih =>
    intro off bufs total ht
    rw [writeLoop_cons]
    cases hs : writeSys off (bufs.take iovmax).length with
    | none =>
      have hb : bufs = [] := (chunk_nil_iff iovmax hi bufs).1 ((writeSys_none _ _).1 hs)
      subst hb
      intro _ _
      simp [writtenAll, Consecutive, NoError]
    | some sys =>
      have hne : bufs.take iovmax ≠ [] := by
        intro h
        have : writeSys off (bufs.take iovmax).length = none := (writeSys_none _ _).2 (by simp [h])
        rw [this] at hs; cases hs
      cases o with
      | fail e =>
        simp only [round_fail]
        by_cases he : e = EINTR
        · subst he
          simp only [if_true]
          intro hB hP
          have hB' : Bounded (writeLoop iovmax os off bufs total).calls := fun c hc => hB c (List.mem_cons_of_mem _ hc)
          have hP' : Progress (writeLoop iovmax os off bufs total).calls := fun c hc => hP c (List.mem_cons_of_mem _ hc)
          obtain ⟨h1, h2, h3⟩ := ih off bufs total ht hB' hP'
          have hw : ∀ cs : List (Call α), writtenAll ((⟨sys, off, bufs.take iovmax, .fail EINTR⟩ : Call α) :: cs) = writtenAll cs := by
            intro cs; simp [writtenAll, Call.written]
          simp only [hw]
          refine ⟨h1, ?_, ?_⟩
          · simp only [Consecutive, Call.written, List.length_nil, Int.natCast_zero, Int.add_zero, ite_self]
            exact ⟨trivial, h2⟩
          · rcases h3 with ⟨a, b, c⟩ | ⟨e, a, ⟨c, hc, hce⟩, b, d⟩
            · left
              refine ⟨?_, b, c⟩
              intro c hc e' he'
              rcases List.mem_cons.1 hc with rfl | hc
              · simp at he'; exact he'.symm
              · exact a c hc e' he'
            · right
              exact ⟨e, a, ⟨c, List.mem_cons_of_mem _ hc, hce⟩, b, d⟩
        · simp only [if_neg he]
          intro _ _
          refine ⟨by simp [writtenAll, Call.written], by simp [Consecutive], Or.inr ⟨e, he, ?_, rfl, ?_⟩⟩
          · exact ⟨_, List.mem_singleton.2 rfl, rfl⟩
          · simp [writtenAll, Call.written]
      | ok n =>
        cases n with
        | zero =>
          simp only [round_zero]
          by_cases hl : leadingEmpty (bufs.take iovmax) = 0
          · simp only [if_pos hl]
            intro _ hP
            have h0 : (bufs.take iovmax).flatten.length = 0 :=
              hP ⟨sys, off, bufs.take iovmax, .ok 0⟩ (List.mem_singleton.2 rfl) rfl
            have := leadingEmpty_pos _ hne h0
            omega
          · simp only [if_neg hl]
            intro hB hP
            have hB' : Bounded (writeLoop iovmax os off (bufs.drop (leadingEmpty (bufs.take iovmax))) total).calls :=
              fun c hc => hB c (List.mem_cons_of_mem _ hc)
            have hP' : Progress (writeLoop iovmax os off (bufs.drop (leadingEmpty (bufs.take iovmax))) total).calls :=
              fun c hc => hP c (List.mem_cons_of_mem _ hc)
            obtain ⟨h1, h2, h3⟩ := ih off _ total ht hB' hP'
            rw [leadingEmpty_drop_flatten] at h1 h3
            have hw : ∀ cs : List (Call α), writtenAll ((⟨sys, off, bufs.take iovmax, .ok 0⟩ : Call α) :: cs) = writtenAll cs := by
              intro cs; simp [writtenAll, Call.written]
            simp only [hw]
            refine ⟨h1, ?_, ?_⟩
            · simp only [Consecutive, Call.written, List.take_zero, List.length_nil, Int.natCast_zero, Int.add_zero, ite_self]
              exact ⟨trivial, h2⟩
            · rcases h3 with ⟨a, b, c⟩ | ⟨e, a, ⟨c, hc, hce⟩, b, d⟩
              · left
                refine ⟨?_, b, c⟩
                intro c hc e' he'
                rcases List.mem_cons.1 hc with rfl | hc
                · simp at he'
                · exact a c hc e' he'
              · right
                exact ⟨e, a, ⟨c, List.mem_cons_of_mem _ hc, hce⟩, b, d⟩
        | succ n =>
          simp only [round_succ]
          intro hB hP
          have hn : n + 1 ≤ (bufs.take iovmax).flatten.length :=
            hB ⟨sys, off, bufs.take iovmax, .ok (n + 1)⟩ List.mem_cons_self (n + 1) rfl
          have hn' : n + 1 ≤ bufs.flatten.length := Nat.le_trans hn (take_flatten_le _ _)
          have hfl := bufOffset_flatten bufs (n + 1) hn'
          have hB' := fun c hc => hB c (List.mem_cons_of_mem _ hc)
          have hP' := fun c hc => hP c (List.mem_cons_of_mem _ hc)
          obtain ⟨h1, h2, h3⟩ := ih _ _ (total + ((n + 1 : Nat) : Int)) (by omega) hB' hP'
          rw [hfl] at h1 h3
          have hcw : (⟨sys, off, bufs.take iovmax, .ok (n + 1)⟩ : Call α).written = bufs.flatten.take (n + 1) := by
            simp only [Call.written]; exact take_flatten_take _ _ _ hn
          have hw : ∀ cs : List (Call α), writtenAll ((⟨sys, off, bufs.take iovmax, .ok (n + 1)⟩ : Call α) :: cs)
              = bufs.flatten.take (n + 1) ++ writtenAll cs := by
            intro cs; simp only [writtenAll, List.flatMap_cons, hcw]
          have hlt : (bufs.flatten.take (n + 1)).length = n + 1 := by
            rw [List.length_take]; omega
          simp only [hw]
          refine ⟨?_, ?_, ?_⟩
          · obtain ⟨t, ht⟩ := h1
            exact ⟨t, by rw [List.append_assoc, ht, List.take_append_drop]⟩
          · simp only [Consecutive, hcw, hlt]
            exact ⟨trivial, h2⟩
          · rcases h3 with ⟨a, b, c⟩ | ⟨e, a, ⟨c, hc, hce⟩, b, d⟩
            · left
              refine ⟨?_, by rw [b, List.take_append_drop], ?_⟩
              · intro c hc e' he'
                rcases List.mem_cons.1 hc with rfl | hc
                · simp at he'
                · exact a c hc e' he'
              · rw [c, List.length_drop]; omega
            · right
              refine ⟨e, a, ⟨c, List.mem_cons_of_mem _ hc, hce⟩, b, ?_⟩
              rw [d, List.length_append, hlt]
              simp only [Int.natCast_add, Int.add_assoc]

theorem writeLoop_of_none (iovmax : Nat) (os : List Outcome) (off : Int) (bufs : List (List α)) (total : Int)
    (h : writeSys off (bufs.take iovmax).length = none) :
    writeLoop iovmax os off bufs total = ⟨total, 0, [], off⟩ := by
  cases os with
  | nil => rw [writeLoop_nil, h]
  | cons o os => rw [writeLoop_cons, h]

theorem measure_pos (bufs : List (List α)) (h : bufs ≠ []) : 0 < measure bufs := by
  cases bufs with
  | nil => exact absurd rfl h
  | cons b r => simp [measure]; omega

theorem measure_drop_skip (bufs : List (List α)) (iovmax : Nat) (h : leadingEmpty (bufs.take iovmax) ≠ 0) :
    measure (bufs.drop (leadingEmpty (bufs.take iovmax))) < measure bufs := by
  have h1 := leadingEmpty_le (bufs.take iovmax)
  have h2 : (bufs.take iovmax).length ≤ bufs.length := by simp [List.length_take]; omega
  unfold measure
  rw [leadingEmpty_drop_flatten, List.length_drop]
  omega

/-- number of answered calls other than EINTR retries ≤ bytes + buffers -/
theorem writeLoop_calls_bound (iovmax : Nat) (os : List Outcome) :
    ∀ (off : Int) (bufs : List (List α)) (total : Int),
      ((writeLoop iovmax os off bufs total).calls.filter (fun c => notEintr c.out)).length
        ≤ measure bufs := by
  induction os with
  | nil =>
    intro off bufs total
    rw [writeLoop_nil]
    cases hs : writeSys off (bufs.take iovmax).length with
    | none => simp
    | some sys =>
      have hne : bufs ≠ [] := by
        intro h; subst h
        rw [(writeSys_none _ _).2 (by simp)] at hs; cases hs
      have := measure_pos bufs hne
      refine Nat.le_trans (filter_cons_len_le _ _ _) ?_
      simp; omega
  | cons o os ih =>
    intro off bufs total
    rw [writeLoop_cons]
    cases hs : writeSys off (bufs.take iovmax).length with
    | none => simp
    | some sys =>
      have hne : bufs ≠ [] := by
        intro h; subst h
        rw [(writeSys_none _ _).2 (by simp)] at hs; cases hs
      have hpos := measure_pos bufs hne
      cases o with
      | fail e =>
        simp only [round_fail]
        by_cases he : e = EINTR
        · subst he
          simp only [if_true]
          rw [List.filter_cons, if_neg (by simp)]
          exact ih off bufs total
        · simp only [if_neg he]
          refine Nat.le_trans (filter_cons_len_le _ _ _) ?_
          simp; omega
      | ok n =>
        cases n with
        | zero =>
          simp only [round_zero]
          by_cases hl : leadingEmpty (bufs.take iovmax) = 0
          · simp only [if_pos hl]
            refine Nat.le_trans (filter_cons_len_le _ _ _) ?_
            simp; omega
          · simp only [if_neg hl]
            refine Nat.le_trans (filter_cons_len_le _ _ _) ?_
            have h1 := ih off (bufs.drop (leadingEmpty (bufs.take iovmax))) total
            have h2 := measure_drop_skip bufs iovmax hl
            omega
        | succ n =>
          simp only [round_succ]
          refine Nat.le_trans (filter_cons_len_le _ _ _) ?_
          have h1 := ih (if 0 ≤ off then off + ((n + 1 : Nat) : Int) else off)
            ((bufOffset bufs (n + 1)).2.drop (bufOffset bufs (n + 1)).1) (total + ((n + 1 : Nat) : Int))
          have h2 := bufOffset_measure_lt bufs (n + 1) (by omega) hne
          omega

/-- a script with at least bytes + buffers non-EINTR answers is never exhausted: anything after it
    is not looked at -/
theorem writeLoop_fuel (iovmax : Nat) (os extra : List Outcome) :
    ∀ (off : Int) (bufs : List (List α)) (total : Int),
      measure bufs ≤ (os.filter notEintr).length →
      writeLoop iovmax (os ++ extra) off bufs total = writeLoop iovmax os off bufs total := by
  induction os with
  | nil =>
    intro off bufs total h
    have hb : bufs = [] := by
      cases bufs with
      | nil => rfl
      | cons b r => simp [measure] at h
    subst hb
    rw [writeLoop_of_none _ _ _ _ _ (by simp [writeSys]), writeLoop_of_none _ _ _ _ _ (by simp [writeSys])]
  | cons o os ih =>
    intro off bufs total h
    rw [List.cons_append, writeLoop_cons, writeLoop_cons]
    cases hs : writeSys off (bufs.take iovmax).length with
    | none => rfl
    | some sys =>
      have hne : bufs ≠ [] := by
        intro h; subst h
        rw [(writeSys_none _ _).2 (by simp)] at hs; cases hs
      cases o with
      | fail e =>
        simp only [round_fail]
        by_cases he : e = EINTR
        · subst he
          simp only [if_true]
          rw [ih off bufs total (by simpa using h)]
        · simp only [if_neg he]
      | ok n =>
        have h' : measure bufs ≤ (os.filter notEintr).length + 1 := by
          simpa using h
        cases n with
        | zero =>
          simp only [round_zero]
          by_cases hl : leadingEmpty (bufs.take iovmax) = 0
          · simp only [if_pos hl]
          · simp only [if_neg hl]
            have := measure_drop_skip bufs iovmax hl
            rw [ih _ _ _ (by omega)]
        | succ n =>
          simp only [round_succ]
          have := bufOffset_measure_lt bufs (n + 1) (by omega) hne
          rw [ih _ _ _ (by omega)]

theorem writeLoop_eintr_filter (iovmax : Nat) (os : List Outcome) :
    ∀ (off : Int) (bufs : List (List α)) (total : Int),
      (writeLoop iovmax (os.filter notEintr) off bufs total).ret
        = (writeLoop iovmax os off bufs total).ret ∧
      (writeLoop iovmax (os.filter notEintr) off bufs total).errno
        = (writeLoop iovmax os off bufs total).errno ∧
      (writeLoop iovmax (os.filter notEintr) off bufs total).off
        = (writeLoop iovmax os off bufs total).off ∧
      (writeLoop iovmax (os.filter notEintr) off bufs total).calls
        = (writeLoop iovmax os off bufs total).calls.filter (fun c => notEintr c.out) := by
  induction os with
  | nil =>
    intro off bufs total
    simp only [List.filter_nil]
    rw [writeLoop_nil]
    cases writeSys off (bufs.take iovmax).length with
    | none => simp
    | some sys => simp
  | cons o os ih =>
    intro off bufs total
    cases hs : writeSys off (bufs.take iovmax).length with
    | none => rw [writeLoop_of_none _ _ _ _ _ hs, writeLoop_of_none _ _ _ _ _ hs]; simp
    | some sys =>
      by_cases ho : o = .fail EINTR
      · subst ho
        have : (Outcome.fail EINTR :: os).filter notEintr
            = os.filter notEintr := by simp
        rw [this, writeLoop_cons (o := .fail EINTR), hs]
        simp only [round_fail, if_true]
        obtain ⟨a, b, c, d⟩ := ih off bufs total
        exact ⟨a, b, c, by rw [d]; simp⟩
      · have : (o :: os).filter notEintr
            = o :: os.filter notEintr := by simp [notEintr_of_ne ho]
        rw [this, writeLoop_cons, writeLoop_cons, hs]
        simp only []
        cases hr : round off bufs (bufs.take iovmax) total o with
        | stop r e => simp [notEintr_of_ne ho]
        | cont off' bufs' total' =>
          obtain ⟨a, b, c, d⟩ := ih off' bufs' total'
          simp only []
          exact ⟨a, b, c, by rw [d]; simp [notEintr_of_ne ho]⟩

/-- bytes in the first `k` buffers -/
def prefixBytes (bufs : List (List α)) (k : Nat) : Nat := (bufs.take k).flatten.length

theorem bufOffset_spec (bufs : List (List α)) (size : Nat) (h : size ≤ bufs.flatten.length) :
    prefixBytes bufs (bufOffset bufs size).1 ≤ size ∧
    (bufOffset bufs size).2 = bufs.take (bufOffset bufs size).1 ++
      (match bufs.drop (bufOffset bufs size).1 with
       | [] => []
       | b :: r => b.drop (size - prefixBytes bufs (bufOffset bufs size).1) :: r) ∧
    (∀ b r, bufs.drop (bufOffset bufs size).1 = b :: r →
      size - prefixBytes bufs (bufOffset bufs size).1 = 0 ∨
      size - prefixBytes bufs (bufOffset bufs size).1 < b.length) ∧
    (0 < (bufOffset bufs size).1 → prefixBytes bufs ((bufOffset bufs size).1 - 1) < size) := by
  induction bufs generalizing size with
  | nil => simp [bufOffset, prefixBytes]
  | cons b rest ih =>
    simp only [List.flatten_cons, List.length_append] at h
    unfold bufOffset
    split
    · next hc =>
      obtain ⟨i1, i2, i3, i4⟩ := ih (size - b.length) (by omega)
      have hp : ∀ k, prefixBytes (b :: rest) (k + 1) = b.length + prefixBytes rest k := by
        intro k; simp [prefixBytes]
      simp only [hp, List.take_succ_cons, List.drop_succ_cons, List.cons_append]
      have hsub : size - (b.length + prefixBytes rest (bufOffset rest (size - b.length)).1)
          = size - b.length - prefixBytes rest (bufOffset rest (size - b.length)).1 := by omega
      rw [hsub]
      refine ⟨by omega, by rw [← i2], i3, ?_⟩
      intro _
      simp only [Nat.add_sub_cancel]
      cases hk : (bufOffset rest (size - b.length)).1 with
      | zero => simp [prefixBytes]; omega
      | succ k =>
        rw [hp]
        have := i4 (by omega)
        rw [hk] at this
        simp only [Nat.add_sub_cancel] at this
        omega
    · next hc =>
      split
      · simp [prefixBytes]; omega
      · have : size = 0 := by omega
        simp [prefixBytes, this]

theorem scatter_lengths (bufs : List (List α)) (d : List α) :
    (scatter bufs d).map List.length = bufs.map List.length := by
  induction bufs generalizing d with
  | nil => simp [scatter]
  | cons b bs ih =>
    simp only [scatter, List.map_cons, ih, List.length_append, List.length_take, List.length_drop]
    congr 1; omega

theorem scatter_flatten (bufs : List (List α)) (d : List α) (h : d.length ≤ bufs.flatten.length) :
    (scatter bufs d).flatten = d ++ bufs.flatten.drop d.length := by
  induction bufs generalizing d with
  | nil =>
    have : d = [] := List.eq_nil_of_length_eq_zero (by simpa using h)
    simp [scatter, this]
  | cons b bs ih =>
    simp only [List.flatten_cons, List.length_append] at h
    simp only [scatter, List.flatten_cons]
    by_cases hd : d.length ≤ b.length
    · have h1 : d.take b.length = d := List.take_of_length_le hd
      have h2 : d.drop b.length = [] := List.drop_eq_nil_of_le hd
      rw [h1, h2, ih [] (by simp), List.drop_append_of_le_length hd]
      simp
    · have h3 : b.drop d.length = [] := List.drop_eq_nil_of_le (by omega)
      rw [h3, ih (d.drop b.length) (by rw [List.length_drop]; omega), List.drop_append]
      simp only [List.append_nil, List.length_drop, h3, List.nil_append]
      rw [← List.append_assoc, List.take_append_drop]

theorem workLoop_eintr_prefix (k : Nat) (os : List Outcome) :
    workLoop true (List.replicate k (.fail EINTR) ++ os) = ((workLoop true os).1, (workLoop true os).2 + k) := by
  induction k with
  | zero => simp
  | succ k ih =>
    rw [List.replicate_succ, List.cons_append, workLoop]
    simp [ih]; omega

theorem filter_replicate_eintr (k : Nat) : (List.replicate k (Outcome.fail EINTR)).filter notEintr = [] := by
  induction k with
  | zero => rfl
  | succ k ih => rw [List.replicate_succ, List.filter_cons, if_neg (by simp)]; exact ih

theorem fsRead_ok (iovmax : Nat) (off : Int) (bufs : List (List α)) (n : Nat) (src : List α) (sys : Sys)
    (h : readSys off (bufs.take iovmax).length = some sys) :
    fsRead iovmax off bufs (.ok n) src =
      ⟨n, 0, [⟨sys, off, bufs.take iovmax, .ok n⟩], scatter (bufs.take iovmax) (src.take n) ++ bufs.drop iovmax⟩ := by
  simp only [fsRead, h]

theorem fsRead_fail (iovmax : Nat) (off : Int) (bufs : List (List α)) (e : Nat) (src : List α) (sys : Sys)
    (h : readSys off (bufs.take iovmax).length = some sys) :
    fsRead iovmax off bufs (.fail e) src = ⟨-1, e, [⟨sys, off, bufs.take iovmax, .fail e⟩], bufs⟩ := by
  simp only [fsRead, h]

end UvModel.FsBuf
