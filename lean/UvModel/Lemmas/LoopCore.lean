import UvModel.Loop
/-!
  Accounting invariants of the loop core (`Core` = handle flags in handle_queue order +
  `active_handles`): every macro kernel application that the model performs is a `CStep`, and
  `CStep` preserves `Core.Inv` (counter = number of active ∧ ref ∧ ¬closing handles, and
  closing ⇒ ¬active).
-/
namespace UvModel.Loop
open UvModel.HandleKernels

/-- 1 if the handle counts towards `active_handles` -/
def cInd (f : HFlags) : Int := if f.active && f.ref && !f.closing then 1 else 0

def countAR : List (Nat × HFlags) → Int
  | [] => 0
  | e :: t => cInd e.2 + countAR t

theorem countAR_nonneg (fl : List (Nat × HFlags)) : 0 ≤ countAR fl := by
  induction fl with
  | nil => simp [countAR]
  | cons e t ih => simp only [countAR, cInd]; split <;> omega

theorem countAR_append (a b : List (Nat × HFlags)) : countAR (a ++ b) = countAR a + countAR b := by
  induction a with
  | nil => simp [countAR]
  | cons e t ih => simp [countAR, ih]; omega

structure Core.Inv (c : Core) : Prop where
  count : c.ah = countAR c.fl
  closInact : ∀ e ∈ c.fl, e.2.closing = true → e.2.active = false

theorem findF_updF (fl : List (Nat × HFlags)) (id : Nat) (f f' : HFlags)
    (h : lookF fl id = some f) :
    countAR (updF fl id f') = countAR fl - cInd f + cInd f' := by
  induction fl with
  | nil => simp [lookF] at h
  | cons e t ih =>
    by_cases he : (e.1 == id) = true
    · simp [lookF, he] at h
      simp [updF, he, countAR, h]; omega
    · have he' : (e.1 == id) = false := by simpa using he
      simp [lookF, he'] at h
      simp [updF, he', countAR, ih h]; omega

theorem mem_updF {fl : List (Nat × HFlags)} {id : Nat} {f' : HFlags} {e : Nat × HFlags}
    (h : e ∈ updF fl id f') : e ∈ fl ∨ e = (id, f') := by
  induction fl with
  | nil => simp [updF] at h
  | cons x t ih =>
    simp only [updF] at h
    split at h
    · rcases List.mem_cons.mp h with h | h
      · exact Or.inr h
      · exact Or.inl (List.mem_cons_of_mem _ h)
    · rcases List.mem_cons.mp h with h | h
      · exact Or.inl (h ▸ List.mem_cons_self)
      · rcases ih h with h | h
        · exact Or.inl (List.mem_cons_of_mem _ h)
        · exact Or.inr h

theorem lookF_mem {fl : List (Nat × HFlags)} {id : Nat} {f : HFlags} (h : lookF fl id = some f) :
    ∃ e ∈ fl, e.2 = f := by
  induction fl with
  | nil => simp [lookF] at h
  | cons e t ih =>
    simp only [lookF] at h
    split at h
    · exact ⟨e, List.mem_cons_self, by simpa using h⟩
    · obtain ⟨e', he', hf⟩ := ih h
      exact ⟨e', List.mem_cons_of_mem _ he', hf⟩

theorem get_mem {c : Core} {id : Nat} {f : HFlags} (h : c.get id = some f) : ∃ e ∈ c.fl, e.2 = f :=
  lookF_mem h

/-- a kernel whose effect on (flags, counter) keeps `counter - indicator` and which keeps
    "closing ⇒ inactive", possibly under a precondition `P` on the old flags -/
structure GoodK (P : HFlags → Prop) (k : HK → HK) : Prop where
  count : ∀ f ah, P f → (k (toHK f ah)).ah - cInd (ofHK (k (toHK f ah))) = ah - cInd f
  clos : ∀ f ah, P f → (f.closing = true → f.active = false) →
    ((ofHK (k (toHK f ah))).closing = true → (ofHK (k (toHK f ah))).active = false)

theorem apply_inv {c : Core} {id : Nat} {k : HK → HK} {P : HFlags → Prop} (g : GoodK P k)
    (hP : ∀ f, c.get id = some f → P f) (hi : c.Inv) : (c.apply id k).Inv := by
  unfold Core.apply
  cases hg : c.get id with
  | none => simpa using hi
  | some f =>
    have hPf := hP f hg
    obtain ⟨e0, he0, he0f⟩ := get_mem hg
    constructor
    · simp only
      have := findF_updF c.fl id f (ofHK (k (toHK f c.ah))) (by simpa [Core.get] using hg)
      have h1 := g.count f c.ah hPf
      rw [this, ← hi.count]; omega
    · intro e he
      simp only at he
      rcases mem_updF he with he | he
      · exact hi.closInact e he
      · subst he
        exact g.clos f c.ah hPf (by intro h; have := hi.closInact e0 he0 (by rw [he0f]; exact h); rw [he0f] at this; exact this)

theorem good_stop : GoodK (fun f => f.closing = true → f.active = false) handleStop := by
  constructor
  · intro f ah hp
    rcases f with ⟨a, r, c, d, i⟩
    cases a <;> cases r <;> cases c <;> simp_all [handleStop, toHK, ofHK, cInd]
  · intro f ah hp _
    rcases f with ⟨a, r, c, d, i⟩
    cases a <;> cases r <;> cases c <;> simp_all [handleStop, toHK, ofHK]

theorem good_ref : GoodK (fun f => f.closing = true → f.active = false) handleRef := by
  constructor
  · intro f ah hp
    rcases f with ⟨a, r, c, d, i⟩
    cases a <;> cases r <;> cases c <;> simp_all [handleRef, toHK, ofHK, cInd]
  · intro f ah hp _
    rcases f with ⟨a, r, c, d, i⟩
    cases a <;> cases r <;> cases c <;> simp_all [handleRef, toHK, ofHK]

theorem good_unref : GoodK (fun f => f.closing = true → f.active = false) handleUnref := by
  constructor
  · intro f ah hp
    rcases f with ⟨a, r, c, d, i⟩
    cases a <;> cases r <;> cases c <;> simp_all [handleUnref, toHK, ofHK, cInd]
  · intro f ah hp _
    rcases f with ⟨a, r, c, d, i⟩
    cases a <;> cases r <;> cases c <;> simp_all [handleUnref, toHK, ofHK]

theorem good_start : GoodK (fun f => f.closing = false) handleStart := by
  constructor
  · intro f ah hp
    rcases f with ⟨a, r, c, d, i⟩
    cases a <;> cases r <;> cases c <;> simp_all [handleStart, toHK, ofHK, cInd]
  · intro f ah hp _
    rcases f with ⟨a, r, c, d, i⟩
    cases a <;> cases r <;> cases c <;> simp_all [handleStart, toHK, ofHK]

theorem good_setClosed : GoodK (fun _ => True) setClosed := by
  constructor
  · intro f ah _; rcases f with ⟨a, r, c, d, i⟩; simp [setClosed, toHK, ofHK, cInd]
  · intro f ah _ h; rcases f with ⟨a, r, c, d, i⟩; simpa [setClosed, toHK, ofHK] using h

theorem good_setInternal : GoodK (fun _ => True) setInternal := by
  constructor
  · intro f ah _; rcases f with ⟨a, r, c, d, i⟩; simp [setInternal, toHK, ofHK, cInd]
  · intro f ah _ h; rcases f with ⟨a, r, c, d, i⟩; simpa [setInternal, toHK, ofHK] using h

/-- uv_close's flag effect: CLOSING, then (type teardown ends in) uv__handle_stop -/
def closeK (k : HK) : HK := handleStop (setClosing k)

theorem good_close : GoodK (fun f => f.closing = false) closeK := by
  constructor
  · intro f ah hp
    rcases f with ⟨a, r, c, d, i⟩
    cases a <;> cases r <;> cases c <;> simp_all [closeK, setClosing, handleStop, toHK, ofHK, cInd]
  · intro f ah hp _
    rcases f with ⟨a, r, c, d, i⟩
    cases a <;> cases r <;> cases c <;> simp_all [closeK, setClosing, handleStop, toHK, ofHK]

theorem get_updF_same (fl : List (Nat × HFlags)) (id : Nat) (f f' : HFlags)
    (h : lookF fl id = some f) :
    lookF (updF fl id f') id = some f' := by
  induction fl with
  | nil => simp [lookF] at h
  | cons e t ih =>
    by_cases he : (e.1 == id) = true
    · simp [updF, he, lookF]
    · have he' : (e.1 == id) = false := by simpa using he
      simp [lookF, he'] at h
      simp [updF, he', lookF, ih h]

theorem updF_updF (fl : List (Nat × HFlags)) (id : Nat) (f1 f2 : HFlags) :
    updF (updF fl id f1) id f2 = updF fl id f2 := by
  induction fl with
  | nil => simp [updF]
  | cons e t ih =>
    by_cases he : (e.1 == id) = true
    · simp [updF, he]
    · have he' : (e.1 == id) = false := by simpa using he
      simp [updF, he', ih]

/-- two kernel applications on the same handle compose -/
theorem apply_apply (c : Core) (id : Nat) (k1 k2 : HK → HK) :
    (c.apply id k1).apply id k2 = c.apply id (fun x => k2 (k1 x)) := by
  unfold Core.apply
  cases hg : c.get id with
  | none => simp [hg]
  | some f =>
    have h2 : (Core.get { fl := updF c.fl id (ofHK (k1 (toHK f c.ah))), ah := (k1 (toHK f c.ah)).ah } id)
        = some (ofHK (k1 (toHK f c.ah))) := by
      simpa [Core.get] using get_updF_same c.fl id f _ (by simpa [Core.get] using hg)
    simp only [h2, updF_updF]
    have : toHK (ofHK (k1 (toHK f c.ah))) (k1 (toHK f c.ah)).ah = k1 (toHK f c.ah) := by
      simp [toHK, ofHK]
    rw [this]

theorem eraseF_count (fl : List (Nat × HFlags)) (id : Nat) (f : HFlags)
    (h : lookF fl id = some f) : countAR (eraseF fl id) = countAR fl - cInd f := by
  induction fl with
  | nil => simp [lookF] at h
  | cons e t ih =>
    by_cases he : (e.1 == id) = true
    · simp [lookF, he] at h
      simp [eraseF, he, countAR, h]; omega
    · have he' : (e.1 == id) = false := by simpa using he
      simp [lookF, he'] at h
      simp [eraseF, he', countAR, ih h]; omega

theorem eraseF_none (fl : List (Nat × HFlags)) (id : Nat)
    (h : lookF fl id = none) : eraseF fl id = fl := by
  induction fl with
  | nil => simp [eraseF]
  | cons e t ih =>
    by_cases he : (e.1 == id) = true
    · simp [lookF, he] at h
    · have he' : (e.1 == id) = false := by simpa using he
      simp [lookF, he'] at h
      simp [eraseF, he', ih h]

theorem mem_eraseF {fl : List (Nat × HFlags)} {id : Nat} {e : Nat × HFlags} (h : e ∈ eraseF fl id) : e ∈ fl := by
  induction fl with
  | nil => simp [eraseF] at h
  | cons x t ih =>
    simp only [eraseF] at h
    split at h
    · exact List.mem_cons_of_mem _ h
    · rcases List.mem_cons.mp h with h | h
      · exact h ▸ List.mem_cons_self
      · exact List.mem_cons_of_mem _ (ih h)

theorem remove_inv {c : Core} {id : Nat} (hc : ∀ f, c.get id = some f → f.ref = false) (hi : c.Inv) :
    (c.remove id).Inv := by
  unfold Core.remove
  cases hg : c.get id with
  | none =>
    have := eraseF_none c.fl id (by simpa [Core.get] using hg)
    simpa [this] using hi
  | some f =>
    constructor
    · have := eraseF_count c.fl id f (by simpa [Core.get] using hg)
      have hcl := hc f hg
      simp only [this, hi.count, cInd, hcl]; simp
    · intro e he; exact hi.closInact e (mem_eraseF he)

theorem add_inv {c : Core} {id : Nat} (hi : c.Inv) : (c.add id).Inv := by
  constructor
  · simp [Core.add, countAR_append, countAR, cInd, ofHK, handleInit, hi.count]
  · intro e he
    simp only [Core.add, List.mem_append, List.mem_singleton] at he
    rcases he with he | he
    · exact hi.closInact e he
    · subst he; simp [ofHK, handleInit]

/-- the kernel applications the model performs -/
inductive CStep : Core → Core → Prop
  | refl (c) : CStep c c
  | stop (c id) : CStep c (c.apply id handleStop)
  | ref (c id) : CStep c (c.apply id handleRef)
  | unref (c id) : CStep c (c.apply id handleUnref)
  | setClosed (c id) : CStep c (c.apply id setClosed)
  | setInternal (c id) : CStep c (c.apply id setInternal)
  | start (c id) (h : ∀ f, c.get id = some f → f.closing = false) : CStep c (c.apply id handleStart)
  | close (c id) (h : ∀ f, c.get id = some f → f.closing = false) : CStep c (c.apply id closeK)
  | remove (c id) (h : ∀ f, c.get id = some f → f.ref = false) : CStep c (c.remove id)
  | trans {a b c} : CStep a b → CStep b c → CStep a c

theorem CStep.inv {c c' : Core} (h : CStep c c') : c.Inv → c'.Inv := by
  induction h with
  | refl => exact id
  | stop c id => intro hi; exact apply_inv good_stop (fun f hf => by
      obtain ⟨e, he, hef⟩ := get_mem hf; intro h; exact hef ▸ hi.closInact e he (hef ▸ h)) hi
  | ref c id => intro hi; exact apply_inv good_ref (fun f hf => by
      obtain ⟨e, he, hef⟩ := get_mem hf; intro h; exact hef ▸ hi.closInact e he (hef ▸ h)) hi
  | unref c id => intro hi; exact apply_inv good_unref (fun f hf => by
      obtain ⟨e, he, hef⟩ := get_mem hf; intro h; exact hef ▸ hi.closInact e he (hef ▸ h)) hi
  | setClosed c id => intro hi; exact apply_inv good_setClosed (fun _ _ => trivial) hi
  | setInternal c id => intro hi; exact apply_inv good_setInternal (fun _ _ => trivial) hi
  | start c id h => intro hi; exact apply_inv good_start h hi
  | close c id h => intro hi; exact apply_inv good_close h hi
  | remove c id h => intro hi; exact remove_inv h hi
  | trans _ _ ih1 ih2 => intro hi; exact ih2 (ih1 hi)

end UvModel.Loop
