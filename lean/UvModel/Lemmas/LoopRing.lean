import UvModel.LoopRun
/-!
  Frame lemma for `ringTake` (the part of uv__poll_io_uring that reads the completion queue): it only moves
  request ids from `ringQ` to `doneLocal`, so every projection of the state that ignores these two fields is
  unchanged.
-/
namespace UvModel.Loop

theorem ringTake_nil (s : State) : ringTake s [] = s := rfl

theorem ringTake_cons (s : State) (r : Nat) (cq : List Nat) :
    ringTake s (r :: cq) =
      ringTake (if s.ringQ.contains r then
        { s with ringQ := s.ringQ.erase r, doneLocal := s.doneLocal ++ [(r, false)] } else s) cq := rfl

theorem ringTake_frame {α : Type} (f : State → α)
    (hf : ∀ (s : State) (q : List Nat) (d : List (Nat × Bool)), f { s with ringQ := q, doneLocal := d } = f s)
    (s : State) (cq : List Nat) : f (ringTake s cq) = f s := by
  induction cq generalizing s with
  | nil => rfl
  | cons r t ih =>
    rw [ringTake_cons, ih]
    split
    · exact hf s _ _
    · rfl

end UvModel.Loop
