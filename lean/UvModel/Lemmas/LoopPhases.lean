import UvModel.Lemmas.LoopRunInv
import UvModel.Lemmas.LoopTrace
/-!
  Trace extension through every phase of `uv_run` (used by Props/C03).

  * `ow s = (s.oracle, s.watcherLocal)`: no API helper touches the future poll results; the detached
    watcher queue is only ever filtered (`uv_idle_stop` & co.) — `OW`.
  * `Ext ph s0 s`: the trace of `s` extends the trace of `s0` by events that are neither `poll` events nor
    callbacks of a phase other than `ph`, and the oracle is the same.  Pushed through every function of
    `LoopRun.lean` that runs callbacks (except the poll loop itself, see `LoopPhases2`).
-/
namespace UvModel.Loop.Phases
open UvModel.Loop UvModel.HandleKernels

/-! ### oracle and detached watcher queue under the API helpers -/
def ow (s : State) : List PollRes × List Nat := (s.oracle, s.watcherLocal)

@[simp] theorem ow_modH (s : State) (id : Nat) (g : Handle → Handle) : ow (modH s id g) = ow s := rfl
@[simp] theorem ow_withKernel (s : State) (id : Nat) (k : HK → HK) : ow (withKernel s id k) = ow s := rfl
@[simp] theorem ow_hStart (s : State) (id : Nat) : ow (hStart s id) = ow s := rfl
@[simp] theorem ow_hStop (s : State) (id : Nat) : ow (hStop s id) = ow s := rfl
@[simp] theorem ow_setIo (s : State) (w : W) (io : IoW) : ow (setIo s w io) = ow s := by cases w <;> rfl
@[simp] theorem ow_ioStart (s : State) (w : W) (ev : Nat) : ow (ioStart s w ev) = ow s := by
  unfold ioStart; simp only
  have := ow_setIo s w { getIo s w with pevents := (getIo s w).pevents ||| ev }
  split
  · exact this
  · split
    · exact this
    · simp only [ow, Prod.mk.injEq] at this ⊢; exact this
@[simp] theorem ow_ioStop (s : State) (w : W) (ev : Nat) : ow (ioStop s w ev) = ow s := by
  unfold ioStop; simp only
  split; · rfl
  split
  · have := ow_setIo s w { getIo s w with pevents := 0, events := 0 }
    simp only [ow, Prod.mk.injEq] at this ⊢; exact this
  · have := ow_setIo s w { getIo s w with pevents := clearBits (getIo s w).pevents ev }
    split
    · exact this
    · simp only [ow, Prod.mk.injEq] at this ⊢; exact this
@[simp] theorem ow_invalidate (s : State) (id : Nat) : ow (invalidate s id) = ow s := rfl
@[simp] theorem ow_ioClose (s : State) (id : Nat) : ow (ioClose s id) = ow s := by
  unfold ioClose; simp only
  have := ow_ioStop s (.h id) POLLALL
  split <;> (simp only [ow, invalidate, Prod.mk.injEq] at this ⊢; exact this)
@[simp] theorem ow_ioFeed (s : State) (id : Nat) : ow (ioFeed s id) = ow s := by
  unfold ioFeed; split <;> rfl
@[simp] theorem ow_updateTime (s : State) : ow (updateTime s) = ow s := rfl
@[simp] theorem ow_asyncSend (s : State) (id : Nat) : ow (asyncSend s id) = ow s := by
  unfold asyncSend; split; · rfl
  split <;> rfl
@[simp] theorem ow_udpSendmsg (s : State) (id : Nat) : ow (udpSendmsg s id) = ow s := by
  unfold udpSendmsg; split; · rfl
  split; · rfl
  simp
@[simp] theorem ow_pipeConnectBad (s : State) (id : Nat) : ow (pipeConnectBad s id) = ow s := by
  unfold pipeConnectBad; simp only; rw [ow_ioFeed]; rfl
@[simp] theorem ow_makeClosePending (s : State) (id : Nat) : ow (makeClosePending s id) = ow s := rfl
@[simp] theorem ow_initInotify (s : State) : ow (initInotify s) = ow s := by
  unfold initInotify; split; · rfl
  simp; rfl
@[simp] theorem ow_workSubmit (s : State) (api : Api) : ow (workSubmit s api) = ow s := by
  unfold workSubmit; simp only; split
  · split
    · rfl
    · rw [ow_asyncSend]; rfl
  · rfl
@[simp] theorem ow_ringInit (s : State) : ow (ringInit s) = ow s := by
  unfold ringInit; split <;> rfl
@[simp] theorem ow_submit (s : State) (api : Api) : ow (submit s api) = ow s := by
  unfold submit; simp only; split
  · split
    · unfold ringSubmit; simp only; exact ow_ringInit s
    · rw [ow_workSubmit, ow_ringInit]
  · rw [ow_workSubmit]
@[simp] theorem ow_workCancel (s : State) (r : Nat) : ow (workCancel s r).1 = ow s := by
  unfold workCancel; split
  · simp; rfl
  · split
    · simp; rfl
    · rfl
@[simp] theorem ow_setWList (s : State) (k : WKind) (l : List Nat) : ow (setWList s k l) = ow s := by cases k <;> rfl
@[simp] theorem ow_timerStop (s : State) (id : Nat) : ow (timerStop s id) = ow s := rfl
@[simp] theorem ow_timerStart (s : State) (id a b : Nat) : ow (timerStart s id a b).1 = ow s := by
  unfold timerStart; split; · rfl
  simp only; split <;> rfl
@[simp] theorem ow_timerAgain (s : State) (id : Nat) : ow (timerAgain s id).1 = ow s := by
  unfold timerAgain; simp only
  split; · rfl
  split
  · rw [ow_timerStart, ow_timerStop]
  · rfl
@[simp] theorem ow_watcherStart (s : State) (k : WKind) (id : Nat) : ow (watcherStart s k id) = ow s := by
  unfold watcherStart; split; · rfl
  rw [ow_hStart, ow_setWList]
@[simp] theorem ow_pollStop (s : State) (id : Nat) : ow (pollStop s id) = ow s := by
  show ow (invalidate (hStop (ioStop s (.h id) POLLALL) id) id) = ow s
  simp
@[simp] theorem ow_pollStart (s : State) (id mask : Nat) : ow (pollStart s id mask) = ow s := by
  unfold pollStart; simp only; split <;> simp
@[simp] theorem ow_asyncClose (s : State) (id : Nat) : ow (asyncClose s id) = ow s := rfl
@[simp] theorem ow_streamListen (s : State) (id : Nat) : ow (streamListen s id) = ow s := by
  show ow (hStart (ioStart (modH s id _) (.h id) POLLIN) id) = ow s
  simp
@[simp] theorem ow_streamClose (s : State) (id : Nat) : ow (streamClose s id) = ow s := by
  show ow (modH (hStop (ioClose s id) id) id _) = ow s
  simp
@[simp] theorem ow_udpClose (s : State) (id : Nat) : ow (udpClose s id) = ow s := by
  show ow (modH (hStop (ioClose s id) id) id _) = ow s
  simp
@[simp] theorem ow_udpRecvStart (s : State) (id : Nat) : ow (udpRecvStart s id).1 = ow s := by
  unfold udpRecvStart; split; · rfl
  show ow (hStart (ioStart (modH s id _) (.h id) POLLIN) id) = ow s
  simp
@[simp] theorem ow_udpRecvStop (s : State) (id : Nat) : ow (udpRecvStop s id) = ow s := by
  unfold udpRecvStop; simp only; split <;> simp
@[simp] theorem ow_udpSendEnqueue (s : State) (id : Nat) : ow (udpSendEnqueue s id) = ow s := rfl
@[simp] theorem ow_udpSendKick (s : State) (id : Nat) (a b : Bool) : ow (udpSendKick s id a b) = ow s := by
  unfold udpSendKick
  split
  · simp only
    split
    · simp
    · split <;> simp
  · simp
@[simp] theorem ow_udpSend (s : State) (id : Nat) : ow (udpSend s id) = ow s := by
  unfold udpSend; split; · rfl
  simp
@[simp] theorem ow_fsEventStop (s : State) (id : Nat) : ow (fsEventStop s id) = ow s := by
  unfold fsEventStop; split <;> rfl

def OW (s s' : State) : Prop := s'.oracle = s.oracle ∧ s'.watcherLocal.Sublist s.watcherLocal

theorem OW.refl (s : State) : OW s s := ⟨rfl, List.Sublist.refl _⟩
theorem OW.trans {a b c : State} (h1 : OW a b) (h2 : OW b c) : OW a c :=
  ⟨h2.1.trans h1.1, h2.2.trans h1.2⟩
theorem OW.of_eq {s s' : State} (h : ow s' = ow s) : OW s s' := by
  simp only [ow, Prod.mk.injEq] at h
  exact ⟨h.1, by rw [h.2]; exact List.Sublist.refl _⟩

theorem OW_watcherStop (s : State) (k : WKind) (id : Nat) : OW s (watcherStop s k id) := by
  unfold watcherStop; split; · exact OW.refl s
  cases k <;> exact ⟨rfl, List.filter_sublist⟩

theorem OW_closeKind (s : State) (k : Kind) (id : Nat) : OW s (closeKind s k id) := by
  cases k <;> simp only [closeKind] <;> first | exact OW_watcherStop _ _ _ | (apply OW.of_eq; rfl) | (apply OW.of_eq; simp)

theorem OW_closeH (s : State) (k : Kind) (id : Nat) : OW s (closeH s k id) := by
  show OW s (makeClosePending (closeKind (withKernel s id setClosing) k id) id)
  have h := OW_closeKind (withKernel s id setClosing) k id
  exact ⟨h.1, h.2⟩

@[simp] theorem ow_initH (s : State) (k : Kind) : ow (initH s k) = ow s := by
  cases k <;> rfl
@[simp] theorem ow_emit (s : State) (e : Event) : ow (emit s e) = ow s := by
  unfold emit; split <;> rfl
@[simp] theorem ow_emitObs (s : State) : ow (emitObs s) = ow s := by simp [emitObs]
@[simp] theorem ow_completeWorks (s : State) (k : Nat) : ow (completeWorks s k) = ow s := by
  unfold completeWorks; split; · rfl
  simp; rfl
@[simp] theorem tr_completeWorks (s : State) (k : Nat) : tr (completeWorks s k) = tr s := by
  unfold completeWorks; split; · rfl
  simp; rfl

theorem OW_applyOp (s : State) (o : Op) : OW s (applyOp s o).1 := by
  unfold applyOp
  split
  · exact OW.of_eq rfl
  · cases o <;> simp only <;> (repeat' split) <;>
      first | exact OW.of_eq rfl | exact OW_watcherStop _ _ _ | exact OW_closeH _ _ _
            | (apply OW.of_eq; simp [ok]) | (apply OW.of_eq; simp [ok]; rfl)

theorem OW_stepOp (s : State) (o : Op) : OW s (stepOp s o) := by
  unfold stepOp
  have h := OW_applyOp s o
  refine OW.trans h (OW.of_eq ?_)
  simp

theorem OW_foldl (ops : List Op) (s : State) : OW s (ops.foldl stepOp s) := by
  induction ops generalizing s with
  | nil => exact OW.refl s
  | cons o t ih => exact OW.trans (OW_stepOp s o) (ih _)

/-! ### trace extension -/
/-- admissible new events while phase `ph` runs: no `poll` event, no callback of another phase -/
def EvOK (ph : Phase) : Event → Prop
  | .cb ph' _ _ _ _ => ph' = ph
  | .poll _ _ _ => False
  | _ => True

/-- the trace of `s` extends the trace of `s0` by admissible events; same oracle -/
def Ext (ph : Phase) (s0 s : State) : Prop :=
  ∃ new, s.trace = new ++ s0.trace ∧ (∀ e ∈ new, EvOK ph e) ∧ s.oracle = s0.oracle

variable {ph : Phase} {s0 : State}

theorem Ext.refl (ph : Phase) (s : State) : Ext ph s s := ⟨[], rfl, by simp, rfl⟩

theorem Ext.trans {a b c : State} (h1 : Ext ph a b) (h2 : Ext ph b c) : Ext ph a c := by
  obtain ⟨n1, t1, p1, o1⟩ := h1
  obtain ⟨n2, t2, p2, o2⟩ := h2
  refine ⟨n2 ++ n1, by rw [t2, t1, List.append_assoc], ?_, o2.trans o1⟩
  intro e he
  rcases List.mem_append.1 he with h | h
  · exact p2 e h
  · exact p1 e h

theorem Ext.upd {s s' : State} (hi : Ext ph s0 s) (h1 : s'.trace = s.trace) (h2 : s'.oracle = s.oracle) :
    Ext ph s0 s' := by
  obtain ⟨n, t, p, o⟩ := hi
  exact ⟨n, h1.trans t, p, h2.trans o⟩

theorem Ext.iff_of {s s' : State} (h1 : tr s' = tr s) (h2 : ow s' = ow s) : Ext ph s0 s' ↔ Ext ph s0 s := by
  simp only [tr, ow, Prod.mk.injEq] at h1 h2
  exact ⟨fun h => h.upd h1.1.symm h2.1.symm, fun h => h.upd h1.1 h2.1⟩

theorem Ext_emit {s : State} {e : Event} (he : EvOK ph e) (hi : Ext ph s0 s) : Ext ph s0 (emit s e) := by
  unfold emit
  split
  · exact hi
  · obtain ⟨n, t, p, o⟩ := hi
    refine ⟨e :: n, by simp [t], ?_, o⟩
    intro x hx
    rcases List.mem_cons.1 hx with h | h
    · exact h ▸ he
    · exact p x h

theorem Ext_emitObs {s : State} (hi : Ext ph s0 s) : Ext ph s0 (emitObs s) := Ext_emit trivial hi

@[simp] theorem Ext_modH (s : State) (id : Nat) (g : Handle → Handle) : Ext ph s0 (modH s id g) ↔ Ext ph s0 s := Ext.iff_of (by simp) (by simp)
@[simp] theorem Ext_withKernel (s : State) (id : Nat) (k : HK → HK) : Ext ph s0 (withKernel s id k) ↔ Ext ph s0 s := Ext.iff_of (by simp) (by simp)
@[simp] theorem Ext_hStop (s : State) (id : Nat) : Ext ph s0 (hStop s id) ↔ Ext ph s0 s := Ext.iff_of (by simp) (by simp)
@[simp] theorem Ext_updateTime (s : State) : Ext ph s0 (updateTime s) ↔ Ext ph s0 s := Ext.iff_of (by simp) (by simp)
@[simp] theorem Ext_ioStop (s : State) (w : W) (ev : Nat) : Ext ph s0 (ioStop s w ev) ↔ Ext ph s0 s := Ext.iff_of (by simp) (by simp)
@[simp] theorem Ext_udpSendmsg (s : State) (id : Nat) : Ext ph s0 (udpSendmsg s id) ↔ Ext ph s0 s := Ext.iff_of (by simp) (by simp)
@[simp] theorem Ext_setWList (s : State) (k : WKind) (l : List Nat) : Ext ph s0 (setWList s k l) ↔ Ext ph s0 s := Ext.iff_of (by simp) (by simp)
@[simp] theorem Ext_timerStop (s : State) (id : Nat) : Ext ph s0 (timerStop s id) ↔ Ext ph s0 s := Ext.iff_of (by simp) (by simp)
@[simp] theorem Ext_timerAgain (s : State) (id : Nat) : Ext ph s0 (timerAgain s id).1 ↔ Ext ph s0 s := Ext.iff_of (by simp) (by simp)

theorem stepOp_ext (s : State) (o : Op) (hi : Ext ph s0 s) : Ext ph s0 (stepOp s o) := by
  unfold stepOp
  apply Ext_emitObs
  refine Ext_emit ?_ ?_
  · exact trivial
  have h1 := tr_applyOp s o
  simp only [tr, Prod.mk.injEq] at h1
  exact hi.upd h1.1 (OW_applyOp s o).1

theorem foldl_stepOp_ext (ops : List Op) (s : State) (hi : Ext ph s0 s) : Ext ph s0 (ops.foldl stepOp s) := by
  induction ops generalizing s with
  | nil => exact hi
  | cons o t ih => exact ih _ (stepOp_ext s o hi)

theorem runCb_ext (sc : Script) (k : CbKind) (key : CbKey) (id : Nat) (a b : Int) (occ : Nat)
    (s : State) (hi : Ext ph s0 s) : Ext ph s0 (runCb sc ph k key id a b occ s) := by
  unfold runCb
  simp only
  apply Ext_emitObs
  refine Ext_emit ?_ ?_
  · exact trivial
  apply foldl_stepOp_ext
  apply Ext_emitObs
  refine Ext_emit ?_ ?_
  · exact rfl
  exact hi.upd rfl rfl

theorem runHandleCb_ext (sc : Script) (k : CbKind) (id : Nat) (a b : Int) (s : State) (hi : Ext ph s0 s) :
    Ext ph s0 (runHandleCb sc ph k id a b s) := by
  unfold runHandleCb
  split
  · exact hi
  · apply runCb_ext
    simpa using hi

theorem udpRunCompletedLoop_ext (sc : Script) (id : Nat) (fuel : Nat) (s : State) (hi : Ext ph s0 s) :
    Ext ph s0 (udpRunCompletedLoop sc ph id fuel s) := by
  induction fuel generalizing s with
  | zero => exact hi
  | succ n ih =>
    unfold udpRunCompletedLoop
    split
    · exact hi
    · split
      · exact hi
      · apply ih
        apply runCb_ext
        exact hi.upd rfl rfl

theorem udpRunCompleted_ext (sc : Script) (id : Nat) (s : State) (hi : Ext ph s0 s) :
    Ext ph s0 (udpRunCompleted sc ph id s) := by
  unfold udpRunCompleted
  split
  · exact hi
  · rename_i h _
    simp only
    have h1 : Ext ph s0 (udpRunCompletedLoop sc ph id (h.wcq.length + 1) (modH s id fun h => { h with processing := true })) :=
      udpRunCompletedLoop_ext _ _ _ _ (by simpa using hi)
    split
    · exact h1
    · simp only [Ext_modH]
      split
      · split
        · simpa using h1
        · simpa using h1
      · exact h1

theorem udpIo_ext (sc : Script) (id ev : Nat) (s : State) (hi : Ext ph s0 s) : Ext ph s0 (udpIo sc ph id ev s) := by
  unfold udpIo
  split
  · exact hi
  · split
    · apply udpRunCompleted_ext; simpa using hi
    · exact hi

theorem udpFinishClose_ext (sc : Script) (id : Nat) (s : State) (hi : Ext ph s0 s) :
    Ext ph s0 (udpFinishClose sc ph id s) := by
  unfold udpFinishClose
  apply udpRunCompleted_ext; simpa using hi

theorem streamIo_ext (sc : Script) (id : Nat) (s : State) (hi : Ext ph s0 s) : Ext ph s0 (streamIo sc ph id s) := by
  unfold streamIo
  split
  · exact hi
  · split
    · exact hi
    · apply runCb_ext
      simp only [Ext_ioStop]
      have : Ext ph s0 (modH s id fun h => { h with connReq := none }) := by simpa using hi
      exact this.upd rfl rfl

theorem streamDestroy_ext {s0 : State} (sc : Script) (id : Nat) (s : State) (hi : Ext .closing s0 s) :
    Ext .closing s0 (streamDestroy sc id s) := by
  unfold streamDestroy
  split
  · exact hi
  · split
    · exact hi
    · simp only [Ext_modH]
      apply runCb_ext
      exact hi.upd rfl rfl

theorem pendingIo_ext (sc : Script) (id : Nat) (s : State) (hi : Ext ph s0 s) : Ext ph s0 (pendingIo sc ph id s) := by
  unfold pendingIo
  split
  · exact hi
  · split
    · exact udpIo_ext _ _ _ _ hi
    · exact streamIo_ext _ _ _ hi

theorem runPendingLoop_ext (sc : Script) (fuel : Nat) (s : State) (hi : Ext ph s0 s) :
    Ext ph s0 (runPendingLoop sc ph fuel s) := by
  induction fuel generalizing s with
  | zero => exact hi
  | succ n ih =>
    unfold runPendingLoop
    split
    · exact hi
    · apply ih
      apply pendingIo_ext
      exact hi.upd rfl rfl

theorem runPending_ext (sc : Script) (s : State) (hi : Ext ph s0 s) : Ext ph s0 (runPending sc ph s) := by
  unfold runPending
  exact runPendingLoop_ext _ _ _ (hi.upd rfl rfl)

theorem runWatchersLoop_ext {s0 : State} (sc : Script) (k : WKind) (fuel : Nat) (s : State) (hi : Ext (wPhase k) s0 s) :
    Ext (wPhase k) s0 (runWatchersLoop sc k fuel s) := by
  induction fuel generalizing s with
  | zero => exact hi
  | succ n ih =>
    unfold runWatchersLoop
    split
    · exact hi
    · apply ih
      apply runHandleCb_ext
      simp only [Ext_setWList]
      exact hi.upd rfl rfl

theorem runWatchers_ext {s0 : State} (sc : Script) (k : WKind) (s : State) (hi : Ext (wPhase k) s0 s) :
    Ext (wPhase k) s0 (runWatchers sc k s) := by
  unfold runWatchers
  apply runWatchersLoop_ext
  simp only [Ext_setWList]
  exact hi.upd rfl rfl

theorem workDoneLoop_ext {s0 : State} (sc : Script) (fuel : Nat) (s : State) (hi : Ext .poll s0 s) :
    Ext .poll s0 (workDoneLoop sc fuel s) := by
  induction fuel generalizing s with
  | zero => exact hi
  | succ n ih =>
    unfold workDoneLoop
    split
    · exact hi
    · apply ih
      apply runCb_ext
      exact hi.upd rfl rfl

theorem workDone_ext {s0 : State} (sc : Script) (s : State) (hi : Ext .poll s0 s) : Ext .poll s0 (workDone sc s) := by
  unfold workDone
  exact workDoneLoop_ext _ _ _ (hi.upd rfl rfl)

theorem ringDone_ext {s0 : State} (sc : Script) (cq : List Nat) (s : State) (hi : Ext .poll s0 s) :
    Ext .poll s0 (ringDone sc cq s) := by
  unfold ringDone
  exact workDoneLoop_ext _ _ _ (hi.upd (ringTake_frame (·.trace) (fun _ _ _ => rfl) s cq)
    (ringTake_frame (·.oracle) (fun _ _ _ => rfl) s cq))

theorem asyncIoLoop_ext {s0 : State} (sc : Script) (fuel : Nat) (s : State) (hi : Ext .poll s0 s) :
    Ext .poll s0 (asyncIoLoop sc fuel s) := by
  induction fuel generalizing s with
  | zero => exact hi
  | succ n ih =>
    unfold asyncIoLoop
    split
    · exact hi
    · simp only
      split
      · apply ih; exact hi.upd rfl rfl
      · split
        · apply ih; exact hi.upd rfl rfl
        · apply ih
          split
          · apply workDone_ext; simp only [Ext_modH]; exact hi.upd rfl rfl
          · apply runHandleCb_ext; simp only [Ext_modH]; exact hi.upd rfl rfl

theorem asyncIo_ext {s0 : State} (sc : Script) (s : State) (hi : Ext .poll s0 s) : Ext .poll s0 (asyncIo sc s) := by
  unfold asyncIo
  exact asyncIoLoop_ext _ _ _ (hi.upd rfl rfl)

theorem pollIo_ext {s0 : State} (sc : Script) (id ev : Nat) (s : State) (hi : Ext .poll s0 s) :
    Ext .poll s0 (pollIo sc id ev s) := by
  unfold pollIo
  split
  · apply runHandleCb_ext; simpa using hi
  · apply runHandleCb_ext; exact hi

theorem dispatchLoop_ext {s0 : State} (sc : Script) (fuel : Nat) (s : State) (n : Nat) (sg : Bool) (hi : Ext .poll s0 s) :
    Ext .poll s0 (dispatchLoop sc fuel s n sg).1 := by
  induction fuel generalizing s n sg with
  | zero => exact hi
  | succ m ih =>
    unfold dispatchLoop
    split
    · exact hi
    · have h0 : ∀ b, Ext .poll s0 { s with batch := b } := fun b => hi.upd rfl rfl
      simp only
      split
      · apply ih; exact h0 _
      · split
        · apply ih; exact h0 _
        · apply ih; exact h0 _
      · split
        · apply ih; exact h0 _
        · apply ih; exact h0 _
      · split
        · apply ih; exact h0 _
        · apply ih; apply asyncIo_ext; exact h0 _
      · split
        · apply ih; exact h0 _
        · split
          · apply ih; exact h0 _
          · apply ih
            split
            · apply pollIo_ext; exact h0 _
            · apply udpIo_ext; exact h0 _
            · exact h0 _
      · split
        · apply ih; apply ringDone_ext; exact h0 _
        · apply ih; exact h0 _

theorem finishClose_ext {s0 : State} (sc : Script) (id : Nat) (s : State) (hi : Ext .closing s0 s) :
    Ext .closing s0 (finishClose sc id s) := by
  unfold finishClose
  split
  · exact hi
  · rename_i h _
    simp only
    have h1 : Ext .closing s0 (withKernel s id setClosed) := by simpa using hi
    have h2 : Ext .closing s0 (if h.kind == .udp then udpFinishClose sc .closing id (withKernel s id setClosed)
        else if h.kind == .pipe || h.kind == .tcp then streamDestroy sc id (withKernel s id setClosed) else withKernel s id setClosed) := by
      split
      · exact udpFinishClose_ext _ _ _ h1
      · split
        · exact streamDestroy_ext _ _ _ h1
        · exact h1
    have h3 : Ext .closing s0 (withKernel (if h.kind == .udp then udpFinishClose sc .closing id (withKernel s id setClosed)
        else if h.kind == .pipe || h.kind == .tcp then streamDestroy sc id (withKernel s id setClosed) else withKernel s id setClosed) id handleUnref) := by
      simpa using h2
    split
    · exact h3
    · apply runCb_ext
      exact h3.upd rfl rfl

theorem runClosingLoop_ext {s0 : State} (sc : Script) (fuel : Nat) (s : State) (hi : Ext .closing s0 s) :
    Ext .closing s0 (runClosingLoop sc fuel s) := by
  induction fuel generalizing s with
  | zero => exact hi
  | succ n ih =>
    unfold runClosingLoop
    split
    · exact hi
    · apply ih; apply finishClose_ext; exact hi.upd rfl rfl

theorem runClosing_ext {s0 : State} (sc : Script) (s : State) (hi : Ext .closing s0 s) : Ext .closing s0 (runClosing sc s) := by
  unfold runClosing
  apply runClosingLoop_ext; exact hi.upd rfl rfl

theorem collectTimers_ext (fuel : Nat) (s : State) (hi : Ext ph s0 s) : Ext ph s0 (collectTimers fuel s) := by
  induction fuel generalizing s with
  | zero => exact hi
  | succ n ih =>
    unfold collectTimers
    split
    · exact hi
    · split
      · exact hi
      · apply ih
        rename_i e _ _
        have : Ext ph s0 (timerStop s e.id) := by simpa using hi
        exact this.upd rfl rfl

theorem fireTimers_ext (sc : Script) (fuel : Nat) (s : State) (hi : Ext ph s0 s) : Ext ph s0 (fireTimers sc ph fuel s) := by
  induction fuel generalizing s with
  | zero => exact hi
  | succ n ih =>
    unfold fireTimers
    split
    · exact hi
    · apply ih
      apply runHandleCb_ext
      simp only [Ext_timerAgain]
      exact hi.upd rfl rfl

theorem runTimers_ext (sc : Script) (s : State) (hi : Ext ph s0 s) : Ext ph s0 (runTimers sc ph s) := by
  unfold runTimers
  exact fireTimers_ext _ _ _ (collectTimers_ext _ _ hi)

theorem pendingRounds_ext {s0 : State} (sc : Script) (n : Nat) (s : State) (hi : Ext .pending2 s0 s) :
    Ext .pending2 s0 (pendingRounds sc n s) := by
  induction n generalizing s with
  | zero => exact hi
  | succ m ih =>
    unfold pendingRounds
    split
    · exact hi
    · exact ih _ (runPending_ext _ _ hi)
end UvModel.Loop.Phases
