import UvModel.Async
/-! helper invariants for C09 (model: UvModel.Async): list / close-protocol structure -/
namespace UvModel.Async

@[simp] theorem upd_same (f : Nat → HS) (i : Nat) (v : HS) : upd f i v i = v := by simp [upd]
theorem upd_other (f : Nat → HS) (i : Nat) (v : HS) (j : Nat) (h : j ≠ i) : upd f i v j = f j := by simp [upd, h]

theorem step?_eintr {s s' : State} {w : Option Nat} (hs : step? s (.eintr w) = some s') : s' = s := by
  cases w with
  | none => simp only [step?] at hs; split at hs <;> simp at hs; exact hs.symm
  | some t => simp only [step?] at hs; repeat' split at hs
              all_goals first | (simp at hs; done) | (simp at hs; exact hs.symm)

def qMustBeEmpty : LPc → Bool
  | .idle | .drain | .closeStore _ .idle | .closeSpin _ .idle => true
  | _ => false

structure InvL (s : State) : Prop where
  qEmpty : qMustBeEmpty s.lpc = true → s.queue = []
  linked : ∀ h, h < s.nh → (s.hs h).unlinked = false → h ∈ s.queue ∨ h ∈ s.handles
  unl : ∀ h, (s.hs h).unlinked = true → h ∉ s.queue ∧ h ∉ s.handles
  scanIn : ∀ h, s.lpc = .scan h → h ∈ s.handles
  clo : ∀ h, (s.hs h).closing = true → (s.hs h).unlinked = true ∨ (∃ r, s.lpc = .closeStore h r) ∨ (∃ r, s.lpc = .closeSpin h r)
  cloPc : ∀ h r, (s.lpc = .closeStore h r ∨ s.lpc = .closeSpin h r) → (s.hs h).closing = true ∧ (s.hs h).unlinked = false
  sto : ∀ h, (s.hs h).stored = true → (s.hs h).closing = true ∧ ((s.hs h).unlinked = true ∨ ∃ r, s.lpc = .closeSpin h r)
  unlSto : ∀ h, (s.hs h).unlinked = true → (s.hs h).stored = true
  freedUnl : ∀ h, (s.hs h).freed = true → (s.hs h).unlinked = true
  stoPend : ∀ h, (s.hs h).stored = true → (s.hs h).pending ≠ 0
  spinSto : ∀ h r, s.lpc = .closeSpin h r → (s.hs h).stored = true

theorem invL_step_begin {s s' : State} {t h : Nat} (hI : InvL s) (hs : step? s (.begin t h) = some s') : InvL s' := by
    simp only [step?] at hs
    repeat' split at hs
    all_goals first | (simp at hs; done) | skip
    all_goals (simp only [Option.some.injEq] at hs; subst hs; constructor <;> simp [setSnd, setH, upd] <;> grind [InvL])

theorem invL_step_snd {s s' : State} {t : Nat} (hI : InvL s) (hs : step? s (.snd t) = some s') : InvL s' := by
    simp only [step?, sndStep] at hs
    repeat' split at hs
    all_goals first | (simp at hs; done) | skip
    all_goals (simp only [Option.some.injEq] at hs; subst hs; constructor <;> simp [setSnd, setH, upd] <;> grind [InvL])

theorem invL_step_loop {s s' : State} (hI : InvL s) (hs : step? s (.loop) = some s') : InvL s' := by
    simp only [step?, loopStep] at hs
    cases hl : s.lpc with
    | idle =>
      simp only [hl] at hs; split at hs
      · simp only [Option.some.injEq] at hs; subst hs; constructor <;> simp [qMustBeEmpty] <;> grind [InvL, qMustBeEmpty]
      · simp at hs
    | drain =>
      simp only [hl] at hs
      rcases hh : s.handles with _ | ⟨h0, hs0⟩ <;>
      (simp only [Option.some.injEq] at hs; subst hs; constructor <;> simp [nextScan, hh, qMustBeEmpty] <;> grind [InvL, qMustBeEmpty])
    | scan h =>
      simp only [hl] at hs
      rcases hq : s.queue with _ | ⟨q0, qs⟩ <;> split at hs <;>
      (simp only [Option.some.injEq] at hs; subst hs; constructor <;> simp [nextScan, hq, setH, upd, qMustBeEmpty] <;> grind [InvL, qMustBeEmpty])
    | inCb h =>
      simp only [hl] at hs
      rcases hq : s.queue with _ | ⟨q0, qs⟩ <;>
      (simp only [Option.some.injEq] at hs; subst hs; constructor <;> simp [nextScan, hq, qMustBeEmpty] <;> grind [InvL, qMustBeEmpty])
    | closeStore h r =>
      simp only [hl] at hs
      simp only [Option.some.injEq] at hs; subst hs; constructor <;> simp [setH, upd, qMustBeEmpty] <;> grind [InvL, qMustBeEmpty]
    | closeSpin h r =>
      simp only [hl] at hs; split at hs
      · cases r <;>
        (simp only [Option.some.injEq] at hs; subst hs; constructor <;> simp [setH, upd, qMustBeEmpty, LRet.toPc] <;> grind [InvL, qMustBeEmpty])
      · simp at hs

theorem invL_step_close {s s' : State} {h : Nat} (hI : InvL s) (hs : step? s (.close h) = some s') : InvL s' := by
    simp only [step?] at hs
    cases hl : s.lpc <;> simp only [hl, LPc.ret?] at hs <;> (try (simp at hs; done)) <;> split at hs <;> (try (simp at hs; done)) <;>
      (simp only [Option.some.injEq] at hs; subst hs; constructor <;> simp [setH, upd, qMustBeEmpty] <;> grind [InvL, qMustBeEmpty])

theorem invL_step_fork {s s' : State} (hI : InvL s) (hs : step? s (.fork) = some s') : InvL s' := by
    simp only [step?] at hs
    split at hs
    · simp only [Option.some.injEq] at hs; subst hs; constructor <;> simp [qMustBeEmpty] <;> grind [InvL, qMustBeEmpty]
    · simp at hs

theorem invL_step_eintr {s s' : State} {w : Option Nat} (hI : InvL s) (hs : step? s (.eintr w) = some s') : InvL s' := by
    cases step?_eintr hs; exact hI

theorem invL_step_closeCbs {s s' : State} (hI : InvL s) (hs : step? s (.closeCbs) = some s') : InvL s' := by
    simp only [step?] at hs
    repeat' split at hs
    all_goals first | (simp at hs; done) | skip
    all_goals (simp only [Option.some.injEq] at hs; subst hs; constructor <;> (try simp only []) <;> grind [InvL])

theorem invL_step {s s' : State} {a : Act} (hI : InvL s) (hs : step? s a = some s') : InvL s' := by
  cases a with
  | begin t h => exact invL_step_begin hI hs
  | snd t => exact invL_step_snd hI hs
  | loop  => exact invL_step_loop hI hs
  | close h => exact invL_step_close hI hs
  | fork  => exact invL_step_fork hI hs
  | eintr w => exact invL_step_eintr hI hs
  | closeCbs  => exact invL_step_closeCbs hI hs

@[simp] theorem toPc_ne_closeStore (r : LRet) (h : Nat) (r' : LRet) : r.toPc ≠ .closeStore h r' := by cases r <;> simp [LRet.toPc]
@[simp] theorem toPc_ne_closeSpin (r : LRet) (h : Nat) (r' : LRet) : r.toPc ≠ .closeSpin h r' := by cases r <;> simp [LRet.toPc]
@[simp] theorem toPc_ne_scan (r : LRet) (h : Nat) : r.toPc ≠ .scan h := by cases r <;> simp [LRet.toPc]
@[simp] theorem toPc_ne_drain (r : LRet) : r.toPc ≠ .drain := by cases r <;> simp [LRet.toPc]

/-- senders in the middle of a send work on an initialised handle; ghost sequence numbers are bounded by `pub` -/
structure InvS (s : State) : Prop where
  sndLt : ∀ (t : Nat) (x : Sender), s.snd[t]? = some x → x.pc ≠ .idle → x.h < s.nh
  pendLt : ∀ h, (s.hs h).pending ≠ 0 → h < s.nh
  seqLe : ∀ (t : Nat) (x : Sender), s.snd[t]? = some x → x.seq ≤ (s.hs x.h).pub
  seenLe : ∀ h, (s.hs h).seen ≤ (s.hs h).pub
  closeLt : ∀ h r, s.lpc = .closeStore h r → h < s.nh

theorem invS_step {s s' : State} {a : Act} (hI : InvS s) (hs : step? s a = some s') : InvS s' := by
  cases a with
  | begin t h =>
    simp only [step?] at hs
    repeat' split at hs
    all_goals first | (simp at hs; done) | skip
    all_goals (simp only [Option.some.injEq] at hs; subst hs; constructor <;> simp [setSnd, setH, upd, List.getElem?_set] <;> grind [InvS])
  | snd t =>
    simp only [step?, sndStep] at hs
    repeat' split at hs
    all_goals first | (simp at hs; done) | skip
    all_goals (simp only [Option.some.injEq] at hs; subst hs; constructor <;> simp [setSnd, setH, upd, List.getElem?_set] <;> grind [InvS])
  | loop =>
    simp only [step?, loopStep] at hs
    cases hl : s.lpc <;> simp only [hl] at hs <;> (try split at hs) <;> (try (simp at hs; done)) <;>
      (simp only [Option.some.injEq] at hs; subst hs; constructor <;> simp [nextScan, setH, upd] <;> (try split) <;> (try simp) <;> grind [InvS])
  | close h =>
    simp only [step?] at hs
    repeat' split at hs
    all_goals first | (simp at hs; done) | skip
    all_goals (simp only [Option.some.injEq] at hs; subst hs; constructor <;> simp [setH, upd] <;> grind [InvS, LPc.ret?])
  | fork =>
    simp only [step?] at hs
    split at hs
    · simp only [Option.some.injEq] at hs; subst hs; constructor <;> simp [List.getElem?_map] <;> grind [InvS]
    · simp at hs
  | eintr w => cases step?_eintr hs; exact hI
  | closeCbs =>
    simp only [step?] at hs
    repeat' split at hs
    all_goals first | (simp at hs; done) | skip
    all_goals (simp only [Option.some.injEq] at hs; subst hs; constructor <;> simp <;> grind [InvS])


end UvModel.Async
