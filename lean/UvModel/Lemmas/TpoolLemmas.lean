import UvModel.Tpool
/-! helper lemmas for C08: the locked loop of worker(), the location invariant `Inv` and its preservation -/
namespace UvModel.Tpool

@[simp] theorem upd_same {α} (f : Nat → α) (i : Nat) (x : α) : upd f i x i = x := by simp [upd]
theorem upd_ne {α} (f : Nat → α) (i j : Nat) (x : α) (h : j ≠ i) : upd f i x j = f j := by simp [upd, h]

/-- what one pass through the locked loop of worker() does to the queues -/
def DqSpec (T r : Int) (wq : List Ent) (sq : List Nat) : DqOut → Prop
  | .fuel => True
  | .wait wq' sq' => sq' = sq ∧ (∀ j, Ent.item j ∈ wq' ↔ Ent.item j ∈ wq) ∧ wq'.Nodup ∧
      (wq' = [] ∨ (wq' = [.marker] ∧ r ≥ T)) ∧ (Ent.marker ∈ wq' → Ent.marker ∈ wq) ∧
      (sq ≠ [] → Ent.marker ∈ wq → Ent.marker ∈ wq')
  | .take i false wq' sq' sig => sq' = sq ∧ sig = false ∧ Ent.item i ∈ wq ∧ wq'.Nodup ∧
      (∀ j, Ent.item j ∈ wq' ↔ (Ent.item j ∈ wq ∧ j ≠ i)) ∧ (Ent.marker ∈ wq' → Ent.marker ∈ wq) ∧
      (sq ≠ [] → Ent.marker ∈ wq → Ent.marker ∈ wq')
  | .take i true wq' sq' sig => sq = i :: sq' ∧ r < T ∧ (∀ j, Ent.item j ∈ wq' ↔ Ent.item j ∈ wq) ∧
      wq'.Nodup ∧ (sig = true ↔ sq' ≠ []) ∧ (Ent.marker ∈ wq' ↔ sq' ≠ []) ∧ Ent.marker ∈ wq

theorem dq_spec (T r : Int) (f : Nat) (wq : List Ent) (sq : List Nat) (h : wq.Nodup) :
    DqSpec T r wq sq (dqLoop T r f wq sq) := by
  induction f generalizing wq with
  | zero => simp [dqLoop, DqSpec]
  | succ f ih =>
    unfold dqLoop
    split
    · simp [DqSpec]
    · rename_i i rest
      simp only [DqSpec]
      grind
    · rename_i rest
      split
      · simp only [DqSpec]; grind
      · split
        · have h2 : (rest ++ [Ent.marker]).Nodup := by grind
          have := ih (rest ++ [Ent.marker]) h2
          revert this
          generalize dqLoop T r f (rest ++ [Ent.marker]) sq = o
          cases o with
          | fuel => simp [DqSpec]
          | wait a b => simp only [DqSpec]; grind
          | take i s a b c => cases s <;> simp only [DqSpec] <;> grind
        · split
          · have h2 : rest.Nodup := by grind
            have := ih rest h2
            revert this
            generalize dqLoop T r f rest [] = o
            cases o with
            | fuel => simp [DqSpec]
            | wait a b => simp only [DqSpec]; grind
            | take i s a b c => cases s <;> simp only [DqSpec] <;> grind
          · split <;> simp only [DqSpec] <;> grind


theorem dq_fuel (T r : Int) (f : Nat) (wq : List Ent) (sq : List Nat) (h : wq.Nodup) (hf : 2 ≤ f) :
    dqLoop T r f wq sq ≠ .fuel := by
  obtain ⟨f, rfl⟩ : ∃ g, f = g + 2 := ⟨f - 2, by omega⟩
  unfold dqLoop
  split
  · simp
  · simp
  · rename_i rest
    split
    · simp
    · split
      · cases rest with
        | nil => grind
        | cons e rest' =>
          cases e with
          | item j => simp [dqLoop]
          | marker => grind
      · split
        · cases rest with
          | nil => simp [dqLoop]
          | cons e rest' =>
            cases e with
            | item j => simp [dqLoop]
            | marker => grind
        · split <;> simp

/-! ## the invariant -/

def WPhase.gotItem : WPhase → Option Nat | .got i _ => some i | _ => none
def WPhase.inwItem : WPhase → Option Nat | .inwork i _ => some i | _ => none


/-- consistency of one item's real fields with its (ghost) location and counters -/
def ItemOk (it : Item) : Prop :=
  match it.loc with
  | .globalQ => it.work = .fn ∧ it.linked = true ∧ it.starts = 0 ∧ it.returned = false ∧ it.dones = 0 ∧
      it.cancelOk = false ∧ it.kind ≠ .slow
  | .slowQ => it.work = .fn ∧ it.linked = true ∧ it.starts = 0 ∧ it.returned = false ∧ it.dones = 0 ∧
      it.cancelOk = false ∧ it.kind = .slow
  | .got _ => it.work = .fn ∧ it.linked = false ∧ it.starts = 0 ∧ it.returned = false ∧ it.dones = 0 ∧
      it.cancelOk = false
  | .inwork _ => it.work = .fn ∧ it.linked = false ∧ it.starts = 1 ∧ it.returned = false ∧ it.dones = 0 ∧
      it.cancelOk = false
  | .loopQ => it.linked = true ∧ it.dones = 0 ∧
      ((it.work = .null ∧ it.starts = 1 ∧ it.returned = true ∧ it.cancelOk = false) ∨
       (it.work = .cancelled ∧ it.starts = 0 ∧ it.returned = false ∧ it.cancelOk = true))
  | .cmid => it.work ≠ .null ∧ it.linked = true ∧ it.starts = 0 ∧ it.returned = false ∧ it.dones = 0 ∧
      (it.cancelOk = true ↔ it.work = .cancelled)
  | .reported => it.dones = 1 ∧
      ((it.status = 0 ∧ it.starts = 1 ∧ it.returned = true ∧ it.cancelOk = false) ∨
       (it.status = ECANCELED ∧ it.starts = 0 ∧ it.returned = false ∧ it.cancelOk = true))

structure Inv (s : State) : Prop where
  itemOk : ∀ i, i < s.nItems → ItemOk (s.items i)
  wqLoc : ∀ i, Ent.item i ∈ s.wq → i < s.nItems ∧ (s.items i).loc = .globalQ
  sqLoc : ∀ i, i ∈ s.sq → i < s.nItems ∧ (s.items i).loc = .slowQ
  gotLoc : ∀ t i b, s.workers t = .got i b → i < s.nItems ∧ (s.items i).loc = .got t
  inwLoc : ∀ t i b, s.workers t = .inwork i b → i < s.nItems ∧ (s.items i).loc = .inwork t
  lqLoc : ∀ l i, (i ∈ (s.loops l).q ∨ i ∈ (s.loops l).lq) →
      i < s.nItems ∧ (s.items i).loc = .loopQ ∧ (s.items i).loop = l
  cmLoc : ∀ l i, (s.loops l).cmid = some (i, true) →
      i < s.nItems ∧ (s.items i).loc = .cmid ∧ (s.items i).loop = l
  wqNd : s.wq.Nodup
  sqNd : s.sq.Nodup
  lqNd : ∀ l, ((s.loops l).q ++ (s.loops l).lq).Nodup
  -- reverse direction: the ghost location is where the item really is
  wqRev : ∀ i, i < s.nItems → (s.items i).loc = .globalQ → Ent.item i ∈ s.wq
  sqRev : ∀ i, i < s.nItems → (s.items i).loc = .slowQ → i ∈ s.sq
  lqRev : ∀ i, i < s.nItems → (s.items i).loc = .loopQ →
      i ∈ (s.loops (s.items i).loop).q ∨ i ∈ (s.loops (s.items i).loop).lq
  cmRev : ∀ i, i < s.nItems → (s.items i).loc = .cmid → (s.loops (s.items i).loop).cmid = some (i, true)
  gotRev : ∀ i t, i < s.nItems → (s.items i).loc = .got t → (s.workers t).gotItem = some i
  inwRev : ∀ i t, i < s.nItems → (s.items i).loc = .inwork t → (s.workers t).inwItem = some i
  lqTop : ∀ l, (s.loops l).phase = .top → (s.loops l).lq = []

theorem inv_init (n L : Nat) : Inv (State.init n L) := by
  constructor <;> simp [State.init, LoopSt.init]


theorem signal_cases (s : State) (c : Nat) :
    signal s c = s ∨ ∃ w, s.workers w = .waiting ∧ signal s c = { s with workers := upd s.workers w .woken } := by
  unfold signal
  simp only []
  split
  · exact Or.inl rfl
  · rename_i w hw
    right
    refine ⟨w, ?_, rfl⟩
    have : w ∈ waiters s := List.mem_of_getElem? hw
    simp [waiters] at this
    exact this.2

theorem inv_wake {s : State} {w : Nat} (h : Inv s) (hw : s.workers w = .waiting) :
    Inv { s with workers := upd s.workers w .woken } := by
  have h1 := h.gotLoc; have h2 := h.inwLoc; have h3 := h.gotRev; have h4 := h.inwRev
  exact { h with
    gotLoc := by intro t i b; simp only [upd]; grind
    inwLoc := by intro t i b; simp only [upd]; grind
    gotRev := by intro i t; simp only [upd]; grind [WPhase.gotItem]
    inwRev := by intro i t; simp only [upd]; grind [WPhase.inwItem] }

theorem inv_signal {s : State} (c : Nat) (h : Inv s) : Inv (signal s c) := by
  rcases signal_cases s c with e | ⟨w, hw, e⟩
  · rw [e]; exact h
  · rw [e]; exact inv_wake h hw



macro "inv_fields" h:ident : tactic => `(tactic| (
  have h1 := ($h).itemOk; have h2 := ($h).wqLoc; have h3 := ($h).sqLoc; have h4 := ($h).gotLoc
  have h5 := ($h).inwLoc; have h6 := ($h).lqLoc; have h7 := ($h).cmLoc; have h8 := ($h).wqNd
  have h9 := ($h).sqNd; have h10 := ($h).lqNd; have h11 := ($h).wqRev; have h12 := ($h).sqRev
  have h13 := ($h).lqRev; have h14 := ($h).cmRev; have h15 := ($h).gotRev; have h16 := ($h).inwRev
  have h17 := ($h).lqTop
  constructor
  · clear h8 h9 h10 h11 h12 h13 h15 h16; intros; simp only [upd, ItemOk] at *; grind
  · clear h1 h9 h10 h11 h12 h13 h14 h15 h16; intros; simp only [upd] at *; grind
  · clear h1 h8 h10 h11 h12 h13 h14 h15 h16; intros; simp only [upd] at *; grind
  · clear h1 h8 h9 h10 h11 h12 h13 h14 h15 h16; intros; simp only [upd] at *; grind
  · clear h1 h8 h9 h10 h11 h12 h13 h14 h15 h16; intros; simp only [upd] at *; grind
  · clear h1 h8 h9 h11 h12 h13 h14 h15 h16; intros; simp only [upd] at *; grind
  · clear h1 h8 h9 h10 h11 h12 h13 h15 h16; intros; simp only [upd] at *; grind
  · clear h1 h3 h4 h5 h6 h7 h9 h10 h11 h12 h13 h14 h15 h16; simp only [upd] at *; grind
  · clear h1 h2 h4 h5 h6 h7 h8 h10 h11 h12 h13 h14 h15 h16; simp only [upd] at *; grind
  · clear h1 h8 h9 h11 h12 h13 h14 h15 h16; intros; simp only [upd] at *; grind
  · clear h1 h8 h9 h10 h12 h13 h14 h15 h16; intros; simp only [upd] at *; grind
  · clear h1 h8 h9 h10 h11 h13 h14 h15 h16; intros; simp only [upd] at *; grind
  · clear h1 h8 h9 h10 h11 h12 h14 h15 h16; intros; simp only [upd] at *; grind
  · clear h1 h8 h9 h10 h11 h12 h13 h15 h16; intros; simp only [upd] at *; grind
  · clear h1 h8 h9 h10 h11 h12 h13 h14 h16; intros; simp only [upd] at *; grind [WPhase.gotItem]
  · clear h1 h8 h9 h10 h11 h12 h13 h14 h15; intros; simp only [upd] at *; grind [WPhase.inwItem]
  · clear h1 h2 h3 h4 h5 h6 h7 h8 h9 h10 h11 h12 h13 h14 h15 h16; intros; simp only [upd] at *; grind))

theorem inv_sub {s : State} (l : Nat) (k : Kind) (c : Nat) (h : Inv s) : Inv (doSub s l k c).1 := by
  unfold doSub
  simp only []
  split
  · split
    · inv_fields h
    · split
      · apply inv_signal; inv_fields h
      · inv_fields h
  · split
    · apply inv_signal; inv_fields h
    · inv_fields h


theorem inv_can1 {s : State} {l i : Nat} (h : Inv s) (hi : i < s.nItems) (hl : (s.items i).loop = l)
    (hc : (s.loops l).cmid = none) (hd : (s.items i).dones = 0) : Inv (doCan1 s l i).1 := by
  unfold doCan1
  simp only []
  split
  · rename_i hok
    simp only [Bool.and_eq_true, decide_eq_true_eq] at hok
    have hloc : ((s.items i).loc = .globalQ ∨ (s.items i).loc = .slowQ ∨ (s.items i).loc = .loopQ) ∧
        ((s.items i).cancelOk = true ↔ (s.items i).work = .cancelled) ∧ (s.items i).starts = 0 ∧
        (s.items i).returned = false := by
      have a := h.itemOk i hi
      have b := h.cmRev i hi
      simp only [ItemOk] at a
      split at a <;> grind
    inv_fields h
  · inv_fields h

theorem inv_can2 {s : State} {l i : Nat} {ok : Bool} (h : Inv s) (hc : (s.loops l).cmid = some (i, ok)) :
    Inv (doCan2 s l i ok).1 := by
  unfold doCan2
  simp only []
  split
  · rename_i hok; subst hok
    inv_fields h
  · inv_fields h

theorem inv_report {s : State} {l : Nat} (h : Inv s) (hc : (s.loops l).cmid = none) : Inv (doReport s l).1 := by
  unfold doReport
  simp only []
  split
  · inv_fields h
  · inv_fields h

theorem inv_drain {s : State} {l : Nat} (h : Inv s) (hq : (s.loops l).phase = .top) :
    Inv (doDrain s l).1 := by
  unfold doDrain
  simp only []
  have := h.lqTop l hq
  inv_fields h


theorem inv_idle {s : State} (x : Int) (h : Inv s) : Inv { s with idle := x } := by
  cases h; constructor <;> assumption
theorem inv_slowRun {s : State} (x : Int) (h : Inv s) : Inv { s with slowRun := x } := by
  cases h; constructor <;> assumption

theorem inv_region {s : State} {t : Nat} (c : Nat) (h : Inv s)
    (hw : (s.workers t).gotItem = none ∧ (s.workers t).inwItem = none) : Inv (doRegion s t c).1 := by
  unfold doRegion
  have sp := dq_spec (threshold s.n) s.slowRun (dqFuel s.wq) s.wq s.sq h.wqNd
  revert sp
  generalize dqLoop (threshold s.n) s.slowRun (dqFuel s.wq) s.wq s.sq = o
  intro sp
  cases o with
  | fuel => exact h
  | wait wq' sq' =>
    simp only [DqSpec] at sp
    obtain ⟨e1, e2, e3, -, -, -⟩ := sp
    subst e1
    simp only []
    inv_fields h
  | take i slow wq' sq' sig =>
    cases slow
    · simp only [DqSpec] at sp
      obtain ⟨e1, e0, e2, e3, e4, -, -⟩ := sp
      subst e1 e0
      simp only [Bool.false_and, Bool.false_eq_true, ↓reduceIte]
      inv_fields h
    · simp only [DqSpec] at sp
      obtain ⟨e1, -, e2, e3, -, -, -⟩ := sp
      simp only []
      split
      · apply inv_signal; inv_fields h
      · inv_fields h

theorem fst_of_eq {α β} {p : α × β} {a : α} {b : β} (e : p = (a, b)) : p.1 = a := by rw [e]

theorem inv_worker {s s' : State} {t c : Nat} {evs : List Ev} (h : Inv s)
    (e : doWorker s t c = some (s', evs)) : Inv s' := by
  unfold doWorker at e
  split at e
  · simp at e
  · rename_i hp
    simp only [Option.some.injEq] at e
    rw [← fst_of_eq e]; exact inv_region c h (by simp [hp, WPhase.gotItem, WPhase.inwItem])
  · rename_i hp
    simp only [Option.some.injEq] at e
    rw [← fst_of_eq e]; exact inv_region c (inv_idle _ h) (by simp [hp, WPhase.gotItem, WPhase.inwItem])
  · rename_i slow hp
    simp only [Option.some.injEq] at e
    rw [← fst_of_eq e]; exact inv_region c (inv_slowRun _ h) (by simp [hp, WPhase.gotItem, WPhase.inwItem])
  · rename_i i slow hp
    simp only [Option.some.injEq] at e
    obtain ⟨rfl, -⟩ := Prod.mk.inj e
    have := h.gotLoc t i slow hp
    inv_fields h
  · rename_i i slow hp
    simp only [Option.some.injEq] at e
    obtain ⟨rfl, -⟩ := Prod.mk.inj e
    have := h.inwLoc t i slow hp
    inv_fields h

theorem inv_step {s s' : State} {a : Act} {evs : List Ev} (h : Inv s) (e : step s a = some (s', evs)) :
    Inv s' := by
  unfold step at e
  cases a with
  | sub l k c =>
    simp only [] at e
    split at e
    · simp only [Option.some.injEq] at e; rw [← fst_of_eq e]; exact inv_sub l k c h
    · simp at e
  | can l i =>
    simp only [] at e
    split at e
    · rename_i hc
      simp only [Option.some.injEq] at e; rw [← fst_of_eq e]
      have : (s.loops l).cmid = none := by
        have := hc.2.1; simp [loopReady] at this; exact this.1
      exact inv_can1 h hc.2.2.1 hc.2.2.2.1 this hc.2.2.2.2
    · simp at e
  | go l =>
    simp only [] at e
    split at e
    · split at e
      · rename_i i ok hc
        simp only [Option.some.injEq] at e; rw [← fst_of_eq e]; exact inv_can2 h hc
      · rename_i hc
        split at e
        · simp at e
        · simp only [Option.some.injEq] at e; rw [← fst_of_eq e]; exact inv_report h hc
    · simp at e
  | drn l =>
    simp only [] at e
    split at e
    · rename_i hc
      simp only [Option.some.injEq] at e; rw [← fst_of_eq e]; exact inv_drain h hc.2.1
    · simp at e
  | wk t c =>
    simp only [] at e
    split at e
    · exact inv_worker h e
    · simp at e
  | wake t =>
    simp only [] at e
    split at e
    · rename_i hc
      simp only [Option.some.injEq] at e; obtain ⟨rfl, -⟩ := Prod.mk.inj e; exact inv_wake h hc.2
    · simp at e

theorem inv_run {s : State} (as : List Act) (h : Inv s) : Inv (run s as) := by
  induction as generalizing s with
  | nil => exact h
  | cons a as ih =>
    simp only [run]
    split
    · rename_i s' evs e; exact ih (inv_step h e)
    · exact ih h

theorem inv_reach {n L : Nat} {s : State} (h : Reach n L s) : Inv s := by
  obtain ⟨as, rfl⟩ := h
  exact inv_run as (inv_init n L)

end UvModel.Tpool
