import UvModel.Tpool
/-! helper lemmas for C08: the locked loop of worker(), the location invariant `Inv` and its preservation -/
namespace UvModel.Tpool

@[simp] theorem upd_same {α} (f : Nat → α) (i : Nat) (x : α) : upd f i x i = x := by simp [upd]
theorem upd_ne {α} (f : Nat → α) (i j : Nat) (x : α) (h : j ≠ i) : upd f i x j = f j := by simp [upd, h]

/-- what one pass through the locked loop of worker() does to the queues -/
def DqSpec (T r : Int) (wq : List Ent) (sq : List Nat) : DqOut → Prop
  | .fuel => True
  | .wait wq' sq' => sq' = sq ∧ (∀ j, Ent.item j ∈ wq' ↔ Ent.item j ∈ wq) ∧ wq'.Nodup ∧
      (wq' = [] ∨ (wq' = [.marker] ∧ r ≥ T)) ∧ (Ent.marker ∈ wq' → Ent.marker ∈ wq) ∧
      (sq ≠ [] → Ent.marker ∈ wq → Ent.marker ∈ wq')
  | .take i false wq' sq' sig => sq' = sq ∧ sig = false ∧ Ent.item i ∈ wq ∧ wq'.Nodup ∧
      (∀ j, Ent.item j ∈ wq' ↔ (Ent.item j ∈ wq ∧ j ≠ i)) ∧ (Ent.marker ∈ wq' → Ent.marker ∈ wq) ∧
      (sq ≠ [] → Ent.marker ∈ wq → Ent.marker ∈ wq')
  | .take i true wq' sq' sig => sq = i :: sq' ∧ r < T ∧ (∀ j, Ent.item j ∈ wq' ↔ Ent.item j ∈ wq) ∧
      wq'.Nodup ∧ (sig = true ↔ sq' ≠ []) ∧ (Ent.marker ∈ wq' ↔ sq' ≠ []) ∧ Ent.marker ∈ wq

theorem dq_spec (T r : Int) (f : Nat) (wq : List Ent) (sq : List Nat) (h : wq.Nodup) :
    DqSpec T r wq sq (dqLoop T r f wq sq) := by
  induction f generalizing wq with
  | zero => simp [dqLoop, DqSpec]
  | succ f ih =>
    unfold dqLoop
    split
    · simp [DqSpec]
    · rename_i i rest
      simp only [DqSpec]
      grind
    · rename_i rest
      split
      · simp only [DqSpec]; grind
      · split
        · have h2 : (rest ++ [Ent.marker]).Nodup := by grind
          have := ih (rest ++ [Ent.marker]) h2
          revert this
          generalize dqLoop T r f (rest ++ [Ent.marker]) sq = o
          cases o with
          | fuel => simp [DqSpec]
          | wait a b => simp only [DqSpec]; grind
          | take i s a b c => cases s <;> simp only [DqSpec] <;> grind
        · split
          · have h2 : rest.Nodup := by grind
            have := ih rest h2
            revert this
            generalize dqLoop T r f rest [] = o
            cases o with
            | fuel => simp [DqSpec]
            | wait a b => simp only [DqSpec]; grind
            | take i s a b c => cases s <;> simp only [DqSpec] <;> grind
          · split <;> simp only [DqSpec] <;> grind


theorem dq_fuel (T r : Int) (f : Nat) (wq : List Ent) (sq : List Nat) (h : wq.Nodup) (hf : 2 ≤ f) :
    dqLoop T r f wq sq ≠ .fuel := by
  obtain ⟨f, rfl⟩ : ∃ g, f = g + 2 := ⟨f - 2, by omega⟩
  unfold dqLoop
  split
  · simp
  · simp
  · rename_i rest
    split
    · simp
    · split
      · cases rest with
        | nil => grind
        | cons e rest' =>
          cases e with
          | item j => simp [dqLoop]
          | marker => grind
      · split
        · cases rest with
          | nil => simp [dqLoop]
          | cons e rest' =>
            cases e with
            | item j => simp [dqLoop]
            | marker => grind
        · split <;> simp

/-! ## the invariant -/

def WPhase.gotItem : WPhase → Option Nat | .got i _ => some i | _ => none
def WPhase.inwItem : WPhase → Option Nat | .inwork i _ => some i | _ => none


/-- consistency of one item's real fields with its (ghost) location and counters -/
def ItemOk (it : Item) : Prop :=
  match it.loc with
  | .globalQ => it.work = .fn ∧ it.linked = true ∧ it.starts = 0 ∧ it.returned = false ∧ it.dones = 0 ∧
      it.cancelOk = false ∧ it.kind ≠ .slow
  | .slowQ => it.work = .fn ∧ it.linked = true ∧ it.starts = 0 ∧ it.returned = false ∧ it.dones = 0 ∧
      it.cancelOk = false ∧ it.kind = .slow
  | .got _ => it.work = .fn ∧ it.linked = false ∧ it.starts = 0 ∧ it.returned = false ∧ it.dones = 0 ∧
      it.cancelOk = false
  | .inwork _ => it.work = .fn ∧ it.linked = false ∧ it.starts = 1 ∧ it.returned = false ∧ it.dones = 0 ∧
      it.cancelOk = false
  | .loopQ => it.linked = true ∧ it.dones = 0 ∧
      ((it.work = .null ∧ it.starts = 1 ∧ it.returned = true ∧ it.cancelOk = false) ∨
       (it.work = .cancelled ∧ it.starts = 0 ∧ it.returned = false ∧ it.cancelOk = true))
  | .cmid => it.work ≠ .null ∧ it.linked = true ∧ it.starts = 0 ∧ it.returned = false ∧ it.dones = 0 ∧
      (it.cancelOk = true ↔ it.work = .cancelled)
  | .reported => it.dones = 1 ∧
      ((it.status = 0 ∧ it.starts = 1 ∧ it.returned = true ∧ it.cancelOk = false) ∨
       (it.status = ECANCELED ∧ it.starts = 0 ∧ it.returned = false ∧ it.cancelOk = true))

structure Inv (s : State) : Prop where
  itemOk : ∀ i, i < s.nItems → ItemOk (s.items i)
  wqLoc : ∀ i, Ent.item i ∈ s.wq → i < s.nItems ∧ (s.items i).loc = .globalQ
  sqLoc : ∀ i, i ∈ s.sq → i < s.nItems ∧ (s.items i).loc = .slowQ
  gotLoc : ∀ t i b, s.workers t = .got i b → i < s.nItems ∧ (s.items i).loc = .got t
  inwLoc : ∀ t i b, s.workers t = .inwork i b → i < s.nItems ∧ (s.items i).loc = .inwork t
  lqLoc : ∀ l i, (i ∈ (s.loops l).q ∨ i ∈ (s.loops l).lq) →
      i < s.nItems ∧ (s.items i).loc = .loopQ ∧ (s.items i).loop = l
  cmLoc : ∀ l i, (s.loops l).cmid = some (i, true) →
      i < s.nItems ∧ (s.items i).loc = .cmid ∧ (s.items i).loop = l
  wqNd : s.wq.Nodup
  sqNd : s.sq.Nodup
  lqNd : ∀ l, ((s.loops l).q ++ (s.loops l).lq).Nodup
  -- reverse direction: the ghost location is where the item really is
  wqRev : ∀ i, i < s.nItems → (s.items i).loc = .globalQ → Ent.item i ∈ s.wq
  sqRev : ∀ i, i < s.nItems → (s.items i).loc = .slowQ → i ∈ s.sq
  lqRev : ∀ i, i < s.nItems → (s.items i).loc = .loopQ →
      i ∈ (s.loops (s.items i).loop).q ∨ i ∈ (s.loops (s.items i).loop).lq
  cmRev : ∀ i, i < s.nItems → (s.items i).loc = .cmid → (s.loops (s.items i).loop).cmid = some (i, true)
  gotRev : ∀ i t, i < s.nItems → (s.items i).loc = .got t → (s.workers t).gotItem = some i
  inwRev : ∀ i t, i < s.nItems → (s.items i).loc = .inwork t → (s.workers t).inwItem = some i
  lqTop : ∀ l, (s.loops l).phase = .top → (s.loops l).lq = []

theorem inv_init (n L : Nat) : Inv (State.init n L) := by
  constructor <;> simp [State.init, LoopSt.init]


theorem signal_cases (s : State) (c : Nat) :
    signal s c = s ∨ ∃ w, s.workers w = .waiting ∧ signal s c = { s with workers := upd s.workers w .woken } := by
  unfold signal
  simp only []
  split
  · exact Or.inl rfl
  · rename_i w hw
    right
    refine ⟨w, ?_, rfl⟩
    have : w ∈ waiters s := List.mem_of_getElem? hw
    simp [waiters] at this
    exact this.2

theorem inv_wake {s : State} {w : Nat} (h : Inv s) (hw : s.workers w = .waiting) :
    Inv { s with workers := upd s.workers w .woken } := by
  have h1 := h.gotLoc; have h2 := h.inwLoc; have h3 := h.gotRev; have h4 := h.inwRev
  exact { h with
    gotLoc := by intro t i b; simp only [upd]; grind
    inwLoc := by intro t i b; simp only [upd]; grind
    gotRev := by intro i t; simp only [upd]; grind [WPhase.gotItem]
    inwRev := by intro i t; simp only [upd]; grind [WPhase.inwItem] }

theorem inv_signal {s : State} (c : Nat) (h : Inv s) : Inv (signal s c) := by
  rcases signal_cases s c with e | ⟨w, hw, e⟩
  · rw [e]; exact h
  · rw [e]; exact inv_wake h hw



macro "inv_fields" h:ident : tactic => `(tactic| (
  have h1 := ($h).itemOk; have h2 := ($h).wqLoc; have h3 := ($h).sqLoc; have h4 := ($h).gotLoc
  have h5 := ($h).inwLoc; have h6 := ($h).lqLoc; have h7 := ($h).cmLoc; have h8 := ($h).wqNd
  have h9 := ($h).sqNd; have h10 := ($h).lqNd; have h11 := ($h).wqRev; have h12 := ($h).sqRev
  have h13 := ($h).lqRev; have h14 := ($h).cmRev; have h15 := ($h).gotRev; have h16 := ($h).inwRev
  have h17 := ($h).lqTop
  constructor
  · clear h8 h9 h10 h11 h12 h13 h15 h16; intros; simp only [upd, ItemOk] at *; grind
  · clear h1 h9 h10 h11 h12 h13 h14 h15 h16; intros; simp only [upd] at *; grind
  · clear h1 h8 h10 h11 h12 h13 h14 h15 h16; intros; simp only [upd] at *; grind
  · clear h1 h8 h9 h10 h11 h12 h13 h14 h15 h16; intros; simp only [upd] at *; grind
  · clear h1 h8 h9 h10 h11 h12 h13 h14 h15 h16; intros; simp only [upd] at *; grind
  · clear h1 h8 h9 h11 h12 h13 h14 h15 h16; intros; simp only [upd] at *; grind
  · clear h1 h8 h9 h10 h11 h12 h13 h15 h16; intros; simp only [upd] at *; grind
  · clear h1 h3 h4 h5 h6 h7 h9 h10 h11 h12 h13 h14 h15 h16; simp only [upd] at *; grind
  · clear h1 h2 h4 h5 h6 h7 h8 h10 h11 h12 h13 h14 h15 h16; simp only [upd] at *; grind
  · clear h1 h8 h9 h11 h12 h13 h14 h15 h16; intros; simp only [upd] at *; grind
  · clear h1 h8 h9 h10 h12 h13 h14 h15 h16; intros; simp only [upd] at *; grind
  · clear h1 h8 h9 h10 h11 h13 h14 h15 h16; intros; simp only [upd] at *; grind
  · clear h1 h8 h9 h10 h11 h12 h14 h15 h16; intros; simp only [upd] at *; grind
  · clear h1 h8 h9 h10 h11 h12 h13 h15 h16; intros; simp only [upd] at *; grind
  · clear h1 h8 h9 h10 h11 h12 h13 h14 h16; intros; simp only [upd] at *; grind [WPhase.gotItem]
  · clear h1 h8 h9 h10 h11 h12 h13 h14 h15; intros; simp only [upd] at *; grind [WPhase.inwItem]
  · clear h1 h2 h3 h4 h5 h6 h7 h8 h9 h10 h11 h12 h13 h14 h15 h16; intros; simp only [upd] at *; grind))

theorem inv_sub {s : State} (l : Nat) (k : Kind) (c : Nat) (h : Inv s) : Inv (doSub s l k c).1 := by
  unfold doSub
  simp only []
  split
  · split
    · inv_fields h
    · split
      · apply inv_signal; inv_fields h
      · inv_fields h
  · split
    · apply inv_signal; inv_fields h
    · inv_fields h


theorem inv_can1 {s : State} {l i : Nat} (h : Inv s) (hi : i < s.nItems) (hl : (s.items i).loop = l)
    (hc : (s.loops l).cmid = none) (hd : (s.items i).dones = 0) : Inv (doCan1 s l i).1 := by
  unfold doCan1
  simp only []
  split
  · rename_i hok
    simp only [Bool.and_eq_true, decide_eq_true_eq] at hok
    have hloc : ((s.items i).loc = .globalQ ∨ (s.items i).loc = .slowQ ∨ (s.items i).loc = .loopQ) ∧
        ((s.items i).cancelOk = true ↔ (s.items i).work = .cancelled) ∧ (s.items i).starts = 0 ∧
        (s.items i).returned = false := by
      have a := h.itemOk i hi
      have b := h.cmRev i hi
      simp only [ItemOk] at a
      split at a <;> grind
    inv_fields h
  · inv_fields h

theorem inv_can2 {s : State} {l i : Nat} {ok : Bool} (h : Inv s) (hc : (s.loops l).cmid = some (i, ok)) :
    Inv (doCan2 s l i ok).1 := by
  unfold doCan2
  simp only []
  split
  · rename_i hok; subst hok
    inv_fields h
  · inv_fields h

theorem inv_report {s : State} {l : Nat} (h : Inv s) (hc : (s.loops l).cmid = none) : Inv (doReport s l).1 := by
  unfold doReport
  simp only []
  split
  · inv_fields h
  · inv_fields h

theorem inv_drain {s : State} {l : Nat} (h : Inv s) (hq : (s.loops l).phase = .top) :
    Inv (doDrain s l).1 := by
  unfold doDrain
  simp only []
  have := h.lqTop l hq
  inv_fields h


theorem inv_idle {s : State} (x : Int) (h : Inv s) : Inv { s with idle := x } := by
  cases h; constructor <;> assumption
theorem inv_slowRun {s : State} (x : Int) (h : Inv s) : Inv { s with slowRun := x } := by
  cases h; constructor <;> assumption

theorem inv_region {s : State} {t : Nat} (c : Nat) (h : Inv s)
    (hw : (s.workers t).gotItem = none ∧ (s.workers t).inwItem = none) : Inv (doRegion s t c).1 := by
  unfold doRegion
  have sp := dq_spec (threshold s.n) s.slowRun (dqFuel s.wq) s.wq s.sq h.wqNd
  revert sp
  generalize dqLoop (threshold s.n) s.slowRun (dqFuel s.wq) s.wq s.sq = o
  intro sp
  cases o with
  | fuel => exact h
  | wait wq' sq' =>
    simp only [DqSpec] at sp
    obtain ⟨e1, e2, e3, -, -, -⟩ := sp
    subst e1
    simp only []
    inv_fields h
  | take i slow wq' sq' sig =>
    cases slow
    · simp only [DqSpec] at sp
      obtain ⟨e1, e0, e2, e3, e4, -, -⟩ := sp
      subst e1 e0
      simp only [Bool.false_and, Bool.false_eq_true, ↓reduceIte]
      inv_fields h
    · simp only [DqSpec] at sp
      obtain ⟨e1, -, e2, e3, -, -, -⟩ := sp
      simp only []
      split
      · apply inv_signal; inv_fields h
      · inv_fields h

theorem fst_of_eq {α β} {p : α × β} {a : α} {b : β} (e : p = (a, b)) : p.1 = a := by rw [e]

theorem inv_worker {s s' : State} {t c : Nat} {evs : List Ev} (h : Inv s)
    (e : doWorker s t c = some (s', evs)) : Inv s' := by
  unfold doWorker at e
  split at e
  · simp at e
  · rename_i hp
    simp only [Option.some.injEq] at e
    rw [← fst_of_eq e]; exact inv_region c h (by simp [hp, WPhase.gotItem, WPhase.inwItem])
  · rename_i hp
    simp only [Option.some.injEq] at e
    rw [← fst_of_eq e]; exact inv_region c (inv_idle _ h) (by simp [hp, WPhase.gotItem, WPhase.inwItem])
  · rename_i slow hp
    simp only [Option.some.injEq] at e
    rw [← fst_of_eq e]; exact inv_region c (inv_slowRun _ h) (by simp [hp, WPhase.gotItem, WPhase.inwItem])
  · rename_i i slow hp
    simp only [Option.some.injEq] at e
    obtain ⟨rfl, -⟩ := Prod.mk.inj e
    have := h.gotLoc t i slow hp
    inv_fields h
  · rename_i i slow hp
    simp only [Option.some.injEq] at e
    obtain ⟨rfl, -⟩ := Prod.mk.inj e
    have := h.inwLoc t i slow hp
    inv_fields h

theorem inv_step {s s' : State} {a : Act} {evs : List Ev} (h : Inv s) (e : step s a = some (s', evs)) :
    Inv s' := by
  unfold step at e
  cases a with
  | sub l k c =>
    simp only [] at e
    split at e
    · simp only [Option.some.injEq] at e; rw [← fst_of_eq e]; exact inv_sub l k c h
    · simp at e
  | can l i =>
    simp only [] at e
    split at e
    · rename_i hc
      simp only [Option.some.injEq] at e; rw [← fst_of_eq e]
      have : (s.loops l).cmid = none := by
        have := hc.2.1; simp [loopReady] at this; exact this.1
      exact inv_can1 h hc.2.2.1 hc.2.2.2.1 this hc.2.2.2.2
    · simp at e
  | go l =>
    simp only [] at e
    split at e
    · split at e
      · rename_i i ok hc
        simp only [Option.some.injEq] at e; rw [← fst_of_eq e]; exact inv_can2 h hc
      · rename_i hc
        split at e
        · simp at e
        · simp only [Option.some.injEq] at e; rw [← fst_of_eq e]; exact inv_report h hc
    · simp at e
  | drn l =>
    simp only [] at e
    split at e
    · rename_i hc
      simp only [Option.some.injEq] at e; rw [← fst_of_eq e]; exact inv_drain h hc.2.1
    · simp at e
  | wk t c =>
    simp only [] at e
    split at e
    · exact inv_worker h e
    · simp at e
  | wake t =>
    simp only [] at e
    split at e
    · rename_i hc
      simp only [Option.some.injEq] at e; obtain ⟨rfl, -⟩ := Prod.mk.inj e; exact inv_wake h hc.2
    · simp at e

theorem inv_run {s : State} (as : List Act) (h : Inv s) : Inv (run s as) := by
  induction as generalizing s with
  | nil => exact h
  | cons a as ih =>
    simp only [run]
    split
    · rename_i s' evs e; exact ih (inv_step h e)
    · exact ih h

theorem inv_reach {n L : Nat} {s : State} (h : Reach n L s) : Inv s := by
  obtain ⟨as, rfl⟩ := h
  exact inv_run as (inv_init n L)


/-! ## counting, slow cap, stranded work, event soundness, cancel -/

/-! ## counting workers -/

def cnt {α : Type} (p : α → Bool) (w : Nat → α) : Nat → Nat
  | 0 => 0
  | n + 1 => cnt p w n + (if p (w n) then 1 else 0)

theorem cnt_upd_ge {α : Type} (p : α → Bool) (w : Nat → α) (t : Nat) (x : α) (n : Nat) (h : n ≤ t) :
    cnt p (upd w t x) n = cnt p w n := by
  induction n with
  | zero => rfl
  | succ n ih => simp only [cnt]; rw [ih (by omega)]; simp [upd, show n ≠ t by omega]

theorem cnt_upd {α : Type} (p : α → Bool) (w : Nat → α) (t : Nat) (x : α) (n : Nat) (h : t < n) :
    (cnt p (upd w t x) n : Int) = cnt p w n - (if p (w t) then 1 else 0) + (if p x then 1 else 0) := by
  induction n with
  | zero => omega
  | succ n ih =>
    simp only [cnt]
    by_cases e : t = n
    · subst e
      rw [cnt_upd_ge p w t x t (Nat.le_refl t)]
      simp only [upd_same]
      split <;> split <;> omega
    · have := ih (by omega)
      rw [show upd w t x n = w n from upd_ne w t n x (fun h => e h.symm)]
      push_cast
      omega

theorem cnt_le {α : Type} (p : α → Bool) (w : Nat → α) (n : Nat) : cnt p w n ≤ n := by
  induction n with
  | zero => simp [cnt]
  | succ n ih => simp only [cnt]; split <;> omega

theorem cnt_lt_exists {α : Type} (p : α → Bool) (w : Nat → α) (n : Nat) (h : cnt p w n < n) :
    ∃ t, t < n ∧ p (w t) = false := by
  induction n with
  | zero => omega
  | succ n ih =>
    simp only [cnt] at h
    by_cases e : p (w n) = true
    · simp only [e, if_true] at h
      obtain ⟨t, ht, hp⟩ := ih (by omega)
      exact ⟨t, by omega, hp⟩
    · exact ⟨n, by omega, by simpa using e⟩

theorem cnt_zero_all {α : Type} (p : α → Bool) (w : Nat → α) (n : Nat) (h : ∀ t, t < n → p (w t) = true) :
    cnt p w n = n := by
  induction n with
  | zero => rfl
  | succ n ih => simp only [cnt]; rw [ih (fun t ht => h t (by omega)), h n (by omega)]; simp

/-- occupied by slow I/O: from the dequeue of a slow item until the decrement (:106 … :137) -/
def isSlow : WPhase → Bool
  | .got _ true | .inwork _ true | .posted true => true
  | _ => false

/-- counted in idle_threads: from :76 until :78 -/
def isIdle : WPhase → Bool
  | .waiting | .woken => true
  | _ => false

structure Inv2 (s : State) : Prop where
  slowEq : s.slowRun = cnt isSlow s.workers s.n
  slowLe : s.slowRun ≤ threshold s.n
  idleEq : s.idle = cnt isIdle s.workers s.n

theorem upd_upd {α} (w : Nat → α) (t : Nat) (a b : α) : upd (upd w t a) t b = upd w t b := by
  funext j; simp [upd]; split <;> rfl
theorem upd_self {α} (w : Nat → α) (t : Nat) (a : α) (h : w t = a) : upd w t a = w := by
  funext j; simp only [upd]; split
  · rename_i e; rw [e, h]
  · rfl

theorem signal_cases' (s : State) (c : Nat) :
    signal s c = s ∨ ∃ w, w < s.n ∧ s.workers w = .waiting ∧
      signal s c = { s with workers := upd s.workers w .woken } := by
  unfold signal
  simp only []
  split
  · exact Or.inl rfl
  · rename_i w hw
    right
    have : w ∈ waiters s := List.mem_of_getElem? hw
    simp [waiters] at this
    exact ⟨w, this.1, this.2, rfl⟩

theorem inv2_signal {s : State} (c : Nat) (h : Inv2 s) : Inv2 (signal s c) := by
  rcases signal_cases' s c with e | ⟨w, hw, hp, e⟩
  · rw [e]; exact h
  · rw [e]
    have a := cnt_upd isSlow s.workers w .woken s.n hw
    have b := cnt_upd isIdle s.workers w .woken s.n hw
    simp only [hp, isSlow, isIdle] at a b
    constructor
    · simp only []; rw [a]; have := h.slowEq; simp; exact this
    · exact h.slowLe
    · simp only []; rw [b]; have := h.idleEq; simp; exact this

theorem inv2_region {s : State} {t : Nat} (c : Nat) (hn : s.wq.Nodup) (ht : t < s.n)
    (h1 : s.slowRun = cnt isSlow (upd s.workers t .start) s.n) (h2 : s.slowRun ≤ threshold s.n)
    (h3 : s.idle = cnt isIdle (upd s.workers t .start) s.n) : Inv2 (doRegion s t c).1 := by
  unfold doRegion
  have sp := dq_spec (threshold s.n) s.slowRun (dqFuel s.wq) s.wq s.sq hn
  have hf := dq_fuel (threshold s.n) s.slowRun (dqFuel s.wq) s.wq s.sq hn (by simp [dqFuel])
  revert sp hf
  generalize dqLoop (threshold s.n) s.slowRun (dqFuel s.wq) s.wq s.sq = o
  intro sp hf
  have ea : ∀ x p, (cnt p (upd s.workers t x) s.n : Int) =
      cnt p (upd s.workers t .start) s.n - (if p .start then 1 else 0) + (if p x then 1 else 0) := by
    intro x p
    have := cnt_upd p (upd s.workers t .start) t x s.n ht
    rw [upd_upd] at this
    simpa using this
  cases o with
  | fuel => exact absurd rfl hf
  | wait wq' sq' =>
    simp only []
    constructor
    · simp only []; rw [ea]; simp [isSlow, h1]
    · exact h2
    · simp only []; rw [ea]; simp [isIdle, h3]
  | take i slow wq' sq' sig =>
    cases slow
    · simp only [DqSpec] at sp
      obtain ⟨-, e0, -⟩ := sp
      subst e0
      simp only [Bool.false_and, Bool.false_eq_true, ↓reduceIte]
      constructor
      · simp only []; rw [ea]; simp [isSlow, h1]
      · exact h2
      · simp only []; rw [ea]; simp [isIdle, h3]
    · simp only [DqSpec] at sp
      obtain ⟨-, hlt, -⟩ := sp
      simp only [↓reduceIte]
      split
      · apply inv2_signal
        constructor
        · simp only []; rw [ea]; simp [isSlow, h1]
        · simp only []; omega
        · simp only []; rw [ea]; simp [isIdle, h3]
      · constructor
        · simp only []; rw [ea]; simp [isSlow, h1]
        · simp only []; omega
        · simp only []; rw [ea]; simp [isIdle, h3]


theorem inv2_step {s s' : State} {a : Act} {evs : List Ev} (hI : Inv s) (h : Inv2 s)
    (e : step s a = some (s', evs)) : Inv2 s' := by
  unfold step at e
  cases a with
  | sub l k c =>
    simp only [] at e
    split at e
    · simp only [Option.some.injEq] at e
      unfold doSub at e
      simp only [] at e
      (repeat' split at e) <;> obtain ⟨rfl, rfl⟩ := Prod.mk.inj e <;> (try apply inv2_signal) <;>
        exact ⟨h.slowEq, h.slowLe, h.idleEq⟩
    · simp at e
  | can l j =>
    simp only [] at e
    split at e
    · simp only [Option.some.injEq] at e
      unfold doCan1 at e
      simp only [] at e
      (repeat' split at e) <;> obtain ⟨rfl, rfl⟩ := Prod.mk.inj e <;> exact ⟨h.slowEq, h.slowLe, h.idleEq⟩
    · simp at e
  | go l =>
    simp only [] at e
    split at e
    · split at e
      · simp only [Option.some.injEq] at e
        unfold doCan2 at e
        simp only [] at e
        (repeat' split at e) <;> obtain ⟨rfl, rfl⟩ := Prod.mk.inj e <;> exact ⟨h.slowEq, h.slowLe, h.idleEq⟩
      · split at e
        · simp at e
        · simp only [Option.some.injEq] at e
          unfold doReport at e
          simp only [] at e
          (repeat' split at e) <;> obtain ⟨rfl, rfl⟩ := Prod.mk.inj e <;> exact ⟨h.slowEq, h.slowLe, h.idleEq⟩
    · simp at e
  | drn l =>
    simp only [] at e
    split at e
    · simp only [Option.some.injEq] at e
      unfold doDrain at e
      obtain ⟨rfl, rfl⟩ := Prod.mk.inj e
      exact ⟨h.slowEq, h.slowLe, h.idleEq⟩
    · simp at e
  | wk t c =>
    simp only [] at e
    split at e
    · rename_i ht
      have es := cnt_upd isSlow s.workers t
      have ei := cnt_upd isIdle s.workers t
      have q1 := h.slowEq; have q2 := h.slowLe; have q3 := h.idleEq
      unfold doWorker at e
      split at e
      · simp at e
      · rename_i hp
        simp only [Option.some.injEq] at e
        rw [← fst_of_eq e]
        exact inv2_region c hI.wqNd ht (by rw [upd_self _ _ _ hp]; exact q1) q2 (by rw [upd_self _ _ _ hp]; exact q3)
      · rename_i hp
        simp only [Option.some.injEq] at e
        rw [← fst_of_eq e]
        refine inv2_region c hI.wqNd ht ?_ q2 ?_
        · simp only []; rw [es _ _ ht, hp]; simp [isSlow, q1]
        · simp only []; rw [ei _ _ ht, hp]; simp [isIdle, q3]
      · rename_i slow hp
        simp only [Option.some.injEq] at e
        rw [← fst_of_eq e]
        refine inv2_region c hI.wqNd ht ?_ ?_ ?_
        · simp only []; rw [es _ _ ht, hp]; cases slow <;> simp [isSlow, q1]
        · simp only []; split <;> omega
        · simp only []; rw [ei _ _ ht, hp]; simp [isIdle, q3]
      · rename_i i slow hp
        simp only [Option.some.injEq] at e
        obtain ⟨rfl, rfl⟩ := Prod.mk.inj e
        constructor
        · simp only []; rw [es _ _ ht, hp]; cases slow <;> simp [isSlow, q1]
        · exact q2
        · simp only []; rw [ei _ _ ht, hp]; simp [isIdle, q3]
      · rename_i i slow hp
        simp only [Option.some.injEq] at e
        obtain ⟨rfl, rfl⟩ := Prod.mk.inj e
        constructor
        · simp only []; rw [es _ _ ht, hp]; cases slow <;> simp [isSlow, q1]
        · exact q2
        · simp only []; rw [ei _ _ ht, hp]; simp [isIdle, q3]
    · simp at e
  | wake t =>
    simp only [] at e
    split at e
    · rename_i hc
      simp only [Option.some.injEq] at e
      obtain ⟨rfl, rfl⟩ := Prod.mk.inj e
      have es := cnt_upd isSlow s.workers t .woken s.n hc.1
      have ei := cnt_upd isIdle s.workers t .woken s.n hc.1
      have q1 := h.slowEq; have q3 := h.idleEq
      constructor
      · simp only []; rw [es, hc.2]; simp [isSlow, q1]
      · exact h.slowLe
      · simp only []; rw [ei, hc.2]; simp [isIdle, q3]
    · simp at e

theorem inv2_init (n L : Nat) : Inv2 (State.init n L) := by
  have a : ∀ m, cnt isSlow (fun _ => WPhase.start) m = 0 := by
    intro m; induction m with
    | zero => rfl
    | succ m ih => simp [cnt, ih, isSlow]
  have b : ∀ m, cnt isIdle (fun _ => WPhase.start) m = 0 := by
    intro m; induction m with
    | zero => rfl
    | succ m ih => simp [cnt, ih, isIdle]
  constructor
  · simp [State.init, a]
  · simp [State.init, threshold]; omega
  · simp [State.init, b]

theorem inv12_run {s : State} (as : List Act) (h : Inv s) (h2 : Inv2 s) : Inv (run s as) ∧ Inv2 (run s as) := by
  induction as generalizing s with
  | nil => exact ⟨h, h2⟩
  | cons a as ih =>
    simp only [run]
    split
    · rename_i s' evs e; exact ih (inv_step h e) (inv2_step h h2 e)
    · exact ih h h2

theorem inv2_reach {n L : Nat} {s : State} (h : Reach n L s) : Inv2 s := by
  obtain ⟨as, rfl⟩ := h
  exact (inv12_run as (inv_init n L) (inv2_init n L)).2


/-! ## nothing is stranded -/

structure Inv3 (s : State) : Prop where
  markerFor : s.sq ≠ [] → Ent.marker ∈ s.wq
  asyncFor : ∀ l, (s.loops l).q ≠ [] → (s.loops l).async = true

theorem signal_q (s : State) (c : Nat) : (signal s c).loops = s.loops ∧ (signal s c).wq = s.wq ∧
    (signal s c).sq = s.sq := by
  rcases signal_cases s c with e | ⟨w, -, e⟩ <;> simp [e]

theorem inv3_signal {s : State} (c : Nat) (h : Inv3 s) : Inv3 (signal s c) := by
  have := signal_q s c
  constructor
  · rw [this.2.1, this.2.2]; exact h.markerFor
  · rw [this.1]; exact h.asyncFor

theorem inv3_region {s : State} {t : Nat} (c : Nat) (hn : s.wq.Nodup) (h : Inv3 s) : Inv3 (doRegion s t c).1 := by
  unfold doRegion
  have sp := dq_spec (threshold s.n) s.slowRun (dqFuel s.wq) s.wq s.sq hn
  revert sp
  generalize dqLoop (threshold s.n) s.slowRun (dqFuel s.wq) s.wq s.sq = o
  intro sp
  have m := h.markerFor; have a := h.asyncFor
  cases o with
  | fuel => exact h
  | wait wq' sq' =>
    simp only [DqSpec] at sp
    exact ⟨by simp only []; grind, a⟩
  | take i slow wq' sq' sig =>
    cases slow
    · simp only [DqSpec] at sp
      obtain ⟨e1, e0, -, -, -, -, e5⟩ := sp
      subst e1 e0
      simp only [Bool.false_and, Bool.false_eq_true, ↓reduceIte]
      exact ⟨by simp only []; grind, a⟩
    · simp only [DqSpec] at sp
      simp only [↓reduceIte]
      split
      · apply inv3_signal; exact ⟨by simp only []; grind, a⟩
      · exact ⟨by simp only []; grind, a⟩

theorem inv3_step {s s' : State} {a : Act} {evs : List Ev} (hI : Inv s) (h : Inv3 s)
    (e : step s a = some (s', evs)) : Inv3 s' := by
  have m := h.markerFor; have aa := h.asyncFor
  unfold step at e
  cases a with
  | sub l k c =>
    simp only [] at e
    split at e
    · simp only [Option.some.injEq] at e
      unfold doSub at e
      simp only [] at e
      (repeat' split at e) <;> obtain ⟨rfl, rfl⟩ := Prod.mk.inj e <;> (try apply inv3_signal) <;>
        constructor <;> simp only [upd] <;> grind
    · simp at e
  | can l j =>
    simp only [] at e
    split at e
    · simp only [Option.some.injEq] at e
      unfold doCan1 at e
      simp only [] at e
      (repeat' split at e) <;> obtain ⟨rfl, rfl⟩ := Prod.mk.inj e <;> constructor <;> simp only [upd] <;> grind
    · simp at e
  | go l =>
    simp only [] at e
    split at e
    · split at e
      · simp only [Option.some.injEq] at e
        unfold doCan2 at e
        simp only [] at e
        (repeat' split at e) <;> obtain ⟨rfl, rfl⟩ := Prod.mk.inj e <;> constructor <;> simp only [upd] <;> grind
      · split at e
        · simp at e
        · simp only [Option.some.injEq] at e
          unfold doReport at e
          simp only [] at e
          (repeat' split at e) <;> obtain ⟨rfl, rfl⟩ := Prod.mk.inj e <;> constructor <;> simp only [upd] <;> grind
    · simp at e
  | drn l =>
    simp only [] at e
    split at e
    · simp only [Option.some.injEq] at e
      unfold doDrain at e
      obtain ⟨rfl, rfl⟩ := Prod.mk.inj e
      constructor <;> simp only [upd] <;> grind
    · simp at e
  | wk t c =>
    simp only [] at e
    split at e
    · unfold doWorker at e
      split at e
      · simp at e
      · simp only [Option.some.injEq] at e
        rw [← fst_of_eq e]; exact inv3_region c hI.wqNd h
      · simp only [Option.some.injEq] at e
        rw [← fst_of_eq e]; exact inv3_region c hI.wqNd ⟨m, aa⟩
      · simp only [Option.some.injEq] at e
        rw [← fst_of_eq e]; exact inv3_region c hI.wqNd ⟨m, aa⟩
      · simp only [Option.some.injEq] at e
        obtain ⟨rfl, rfl⟩ := Prod.mk.inj e
        exact ⟨m, aa⟩
      · simp only [Option.some.injEq] at e
        obtain ⟨rfl, rfl⟩ := Prod.mk.inj e
        constructor <;> simp only [upd] <;> grind
    · simp at e
  | wake t =>
    simp only [] at e
    split at e
    · simp only [Option.some.injEq] at e
      obtain ⟨rfl, rfl⟩ := Prod.mk.inj e
      exact ⟨m, aa⟩
    · simp at e

theorem inv3_reach {n L : Nat} {s : State} (h : Reach n L s) : Inv3 s := by
  obtain ⟨as, rfl⟩ := h
  suffices ∀ s, Inv s → Inv3 s → Inv3 (run s as) from
    this _ (inv_init n L) ⟨by simp [State.init], by simp [State.init, LoopSt.init]⟩
  induction as with
  | nil => intro s _ h3; exact h3
  | cons a as ih =>
    intro s h1 h3
    simp only [run]
    split
    · rename_i s' evs e; exact ih s' (inv_step h1 e) (inv3_step h1 h3 e)
    · exact ih s h1 h3


theorem signal_items (s : State) (c : Nat) : (signal s c).items = s.items ∧ (signal s c).nItems = s.nItems ∧
    (signal s c).loops = s.loops ∧ (signal s c).wq = s.wq ∧ (signal s c).sq = s.sq ∧ (signal s c).n = s.n ∧
    (signal s c).slowRun = s.slowRun ∧ (signal s c).idle = s.idle := by
  rcases signal_cases s c with e | ⟨w, -, e⟩ <;> simp [e]

/-- ghost counters of an already submitted item change only together with the matching event -/
theorem counters_frame {s s' : State} {a : Act} {evs : List Ev} (e : step s a = some (s', evs)) (i : Nat)
    (hi : i < s.nItems) :
    (Ev.ws i ∈ evs → (s'.items i).starts = (s.items i).starts + 1) ∧
    (Ev.ws i ∉ evs → (s'.items i).starts = (s.items i).starts) ∧
    ((∃ st, Ev.dn i st ∈ evs) → (s'.items i).dones = (s.items i).dones + 1) ∧
    ((¬ ∃ st, Ev.dn i st ∈ evs) → (s'.items i).dones = (s.items i).dones) ∧
    ((s.items i).cancelOk = true → (s'.items i).cancelOk = true) ∧
    ((s.items i).returned = true → (s'.items i).returned = true) := by
  unfold step at e
  cases a with
  | sub l k c =>
    simp only [] at e
    split at e
    · simp only [Option.some.injEq] at e
      unfold doSub at e
      simp only [] at e
      have hne : i ≠ s.nItems := by omega
      (repeat' split at e) <;> obtain ⟨rfl, rfl⟩ := Prod.mk.inj e <;> simp [signal_items, upd, hne]
    · simp at e
  | can l j =>
    simp only [] at e
    split at e
    · simp only [Option.some.injEq] at e
      unfold doCan1 at e
      simp only [] at e
      (repeat' split at e) <;> obtain ⟨rfl, rfl⟩ := Prod.mk.inj e <;> simp [upd] <;> grind
    · simp at e
  | go l =>
    simp only [] at e
    split at e
    · split at e
      · simp only [Option.some.injEq] at e
        unfold doCan2 at e
        simp only [] at e
        (repeat' split at e) <;> obtain ⟨rfl, rfl⟩ := Prod.mk.inj e <;> simp [upd] <;> grind
      · split at e
        · simp at e
        · simp only [Option.some.injEq] at e
          unfold doReport at e
          simp only [] at e
          (repeat' split at e) <;> obtain ⟨rfl, rfl⟩ := Prod.mk.inj e <;> simp [upd] <;> grind
    · simp at e
  | drn l =>
    simp only [] at e
    split at e
    · simp only [Option.some.injEq] at e
      unfold doDrain at e
      obtain ⟨rfl, rfl⟩ := Prod.mk.inj e
      simp
    · simp at e
  | wk t c =>
    simp only [] at e
    split at e
    · unfold doWorker at e
      split at e
      · simp at e
      all_goals (try unfold doRegion at e)
      all_goals simp only [Option.some.injEq] at e
      all_goals (repeat' split at e)
      all_goals obtain ⟨rfl, rfl⟩ := Prod.mk.inj e
      all_goals simp [signal_items, upd]
      all_goals grind
    · simp at e
  | wake t =>
    simp only [] at e
    split at e
    · simp only [Option.some.injEq] at e
      obtain ⟨rfl, rfl⟩ := Prod.mk.inj e
      simp
    · simp at e


/-- a work function starts only on a pool worker that dequeued the item, and only if it never started before
    and no uv_cancel returned 0 for it -/
theorem work_start_sound {s s' : State} {a : Act} {evs : List Ev} (h : Inv s) (e : step s a = some (s', evs))
    {i : Nat} (hw : Ev.ws i ∈ evs) :
    ∃ t c b, a = .wk t c ∧ t < s.n ∧ s.workers t = .got i b ∧ i < s.nItems ∧
      (s.items i).starts = 0 ∧ (s.items i).cancelOk = false ∧ (s.items i).dones = 0 := by
  unfold step at e
  cases a with
  | sub l k c =>
    simp only [] at e
    split at e
    · simp only [Option.some.injEq] at e
      unfold doSub at e
      simp only [] at e
      (repeat' split at e) <;> obtain ⟨rfl, rfl⟩ := Prod.mk.inj e <;> simp at hw
    · simp at e
  | can l j =>
    simp only [] at e
    split at e
    · simp only [Option.some.injEq] at e
      unfold doCan1 at e
      simp only [] at e
      (repeat' split at e) <;> obtain ⟨rfl, rfl⟩ := Prod.mk.inj e <;> simp at hw
    · simp at e
  | go l =>
    simp only [] at e
    split at e
    · split at e
      · simp only [Option.some.injEq] at e
        unfold doCan2 at e
        simp only [] at e
        (repeat' split at e) <;> obtain ⟨rfl, rfl⟩ := Prod.mk.inj e <;> simp at hw
      · split at e
        · simp at e
        · simp only [Option.some.injEq] at e
          unfold doReport at e
          simp only [] at e
          (repeat' split at e) <;> obtain ⟨rfl, rfl⟩ := Prod.mk.inj e <;> simp at hw
    · simp at e
  | drn l =>
    simp only [] at e
    split at e
    · simp only [Option.some.injEq] at e
      unfold doDrain at e
      obtain ⟨rfl, rfl⟩ := Prod.mk.inj e
      simp at hw
    · simp at e
  | wk t c =>
    simp only [] at e
    split at e
    · rename_i ht
      unfold doWorker at e
      split at e
      · simp at e
      case h_5 j slow hp =>
        simp only [Option.some.injEq] at e
        obtain ⟨rfl, rfl⟩ := Prod.mk.inj e
        simp at hw
        subst hw
        have a1 := h.gotLoc t i slow hp
        have a2 := h.itemOk i a1.1
        simp only [ItemOk, a1.2] at a2
        exact ⟨t, c, slow, rfl, ht, hp, a1.1, a2.2.2.1, a2.2.2.2.2.2, a2.2.2.2.2.1⟩
      all_goals (try unfold doRegion at e)
      all_goals simp only [Option.some.injEq] at e
      all_goals (repeat' split at e)
      all_goals obtain ⟨rfl, rfl⟩ := Prod.mk.inj e
      all_goals simp at hw
    · simp at e
  | wake t =>
    simp only [] at e
    split at e
    · simp only [Option.some.injEq] at e
      obtain ⟨rfl, rfl⟩ := Prod.mk.inj e
      simp at hw
    · simp at e

/-- a done callback happens only in the owning loop's uv__work_done, for an item whose work function returned
    (status 0) or for which uv_cancel returned 0 (status ECANCELED, work never started), and never twice -/
theorem done_sound {s s' : State} {a : Act} {evs : List Ev} (h : Inv s) (e : step s a = some (s', evs))
    {i : Nat} {st : Int} (hd : Ev.dn i st ∈ evs) :
    a = .go (s.items i).loop ∧ i < s.nItems ∧ (s.items i).dones = 0 ∧
      (((s.items i).returned = true ∧ (s.items i).starts = 1 ∧ (s.items i).cancelOk = false ∧ st = 0) ∨
       ((s.items i).cancelOk = true ∧ (s.items i).starts = 0 ∧ (s.items i).returned = false ∧ st = ECANCELED)) := by
  unfold step at e
  cases a with
  | sub l k c =>
    simp only [] at e
    split at e
    · simp only [Option.some.injEq] at e
      unfold doSub at e
      simp only [] at e
      (repeat' split at e) <;> obtain ⟨rfl, rfl⟩ := Prod.mk.inj e <;> simp at hd
    · simp at e
  | can l j =>
    simp only [] at e
    split at e
    · simp only [Option.some.injEq] at e
      unfold doCan1 at e
      simp only [] at e
      (repeat' split at e) <;> obtain ⟨rfl, rfl⟩ := Prod.mk.inj e <;> simp at hd
    · simp at e
  | go l =>
    simp only [] at e
    split at e
    · split at e
      · simp only [Option.some.injEq] at e
        unfold doCan2 at e
        simp only [] at e
        (repeat' split at e) <;> obtain ⟨rfl, rfl⟩ := Prod.mk.inj e <;> simp at hd
      · split at e
        · simp at e
        · simp only [Option.some.injEq] at e
          unfold doReport at e
          simp only [] at e
          split at e
          · obtain ⟨rfl, rfl⟩ := Prod.mk.inj e; simp at hd
          · rename_i j rest hl
            obtain ⟨rfl, rfl⟩ := Prod.mk.inj e
            simp at hd
            obtain ⟨rfl, rfl⟩ := hd
            have a1 := h.lqLoc l i (Or.inr (by simp [hl]))
            have a2 := h.itemOk i a1.1
            simp only [ItemOk, a1.2.1] at a2
            refine ⟨by rw [a1.2.2], a1.1, a2.2.1, ?_⟩
            rcases a2.2.2 with ⟨w, x, y, z⟩ | ⟨w, x, y, z⟩
            · left; simp [w, x, y, z]
            · right; simp [w, x, y, z]
    · simp at e
  | drn l =>
    simp only [] at e
    split at e
    · simp only [Option.some.injEq] at e
      unfold doDrain at e
      obtain ⟨rfl, rfl⟩ := Prod.mk.inj e
      simp at hd
    · simp at e
  | wk t c =>
    simp only [] at e
    split at e
    · unfold doWorker at e
      split at e
      · simp at e
      all_goals (try unfold doRegion at e)
      all_goals simp only [Option.some.injEq] at e
      all_goals (repeat' split at e)
      all_goals obtain ⟨rfl, rfl⟩ := Prod.mk.inj e
      all_goals simp at hd
    · simp at e
  | wake t =>
    simp only [] at e
    split at e
    · simp only [Option.some.injEq] at e
      obtain ⟨rfl, rfl⟩ := Prod.mk.inj e
      simp at hd
    · simp at e


/-- "in a queue and not started", in terms of the real queues: the global queue, the slow-I/O queue, or the
    loop's completion queue as an already cancelled request -/
def QueuedNotStarted (s : State) (i : Nat) : Prop :=
  Ent.item i ∈ s.wq ∨ i ∈ s.sq ∨
  ((i ∈ (s.loops (s.items i).loop).q ∨ i ∈ (s.loops (s.items i).loop).lq) ∧ (s.items i).work = .cancelled)

theorem cancel_region1 {s s' : State} {l i : Nat} {evs : List Ev} (h : Inv s)
    (e : step s (.can l i) = some (s', evs)) :
    ∃ ok, (s'.loops l).cmid = some (i, ok) ∧ (ok = true ↔ QueuedNotStarted s i) ∧
      (ok = true → (s.items i).starts = 0 ∧ Ent.item i ∉ s'.wq ∧ i ∉ s'.sq ∧ (s'.items i).starts = 0) ∧
      (ok = false → s'.items = s.items ∧ s'.wq = s.wq ∧ s'.sq = s.sq ∧ s'.workers = s.workers ∧
        s'.slowRun = s.slowRun ∧ s'.idle = s.idle ∧ (s'.loops l).q = (s.loops l).q ∧
        (s'.loops l).lq = (s.loops l).lq ∧ (s'.loops l).async = (s.loops l).async ∧
        ∀ l', l' ≠ l → s'.loops l' = s.loops l') := by
  unfold step at e
  simp only [] at e
  split at e
  · rename_i hc
    obtain ⟨-, hrdy, hi, hl, hd⟩ := hc
    have hcm : (s.loops l).cmid = none := by simp [loopReady] at hrdy; exact hrdy.1
    simp only [Option.some.injEq] at e
    unfold doCan1 at e
    simp only [] at e
    have a := h.itemOk i hi
    have b := h.cmRev i hi
    have f1 := h.wqLoc i; have f2 := h.sqLoc i; have f3 := h.lqLoc l i
    have r1 := h.wqRev i hi; have r2 := h.sqRev i hi; have r3 := h.lqRev i hi
    have n1 := h.wqNd; have n2 := h.sqNd
    simp only [ItemOk] at a
    split at e
    · rename_i hok
      simp only [Bool.and_eq_true, decide_eq_true_eq] at hok
      obtain ⟨rfl, rfl⟩ := Prod.mk.inj e
      refine ⟨true, by simp [upd], ?_, ?_, by simp⟩
      · simp only [QueuedNotStarted, true_iff]
        split at a <;> grind
      · intro _
        simp only [upd]
        split at a <;> grind
    · rename_i hok
      simp only [Bool.and_eq_true, decide_eq_true_eq, not_and] at hok
      obtain ⟨rfl, rfl⟩ := Prod.mk.inj e
      refine ⟨false, by simp [upd], ?_, by simp, ?_⟩
      · simp only [QueuedNotStarted, Bool.false_eq_true, false_iff]
        split at a <;> grind
      · intro _
        simp only [upd]
        grind
  · simp at e

theorem cancel_region2 {s s' : State} {l i : Nat} {ok : Bool} {evs : List Ev}
    (e : step s (.go l) = some (s', evs)) (hc : (s.loops l).cmid = some (i, ok)) :
    (∀ v, Ev.ret v ∈ evs ↔ v = (if ok then 0 else EBUSY)) ∧
    (ok = true → (s'.items i).cancelOk = true ∧ (s'.items i).work = .cancelled ∧ i ∈ (s'.loops l).q ∧
      (s'.loops l).async = true ∧ (s'.items i).starts = (s.items i).starts) ∧
    (ok = false → s'.items = s.items ∧ s'.wq = s.wq ∧ s'.sq = s.sq ∧ s'.workers = s.workers ∧
      s'.slowRun = s.slowRun ∧ s'.idle = s.idle ∧ (s'.loops l).q = (s.loops l).q ∧
      (s'.loops l).lq = (s.loops l).lq) := by
  unfold step at e
  simp only [] at e
  split at e
  · simp only [hc, Option.some.injEq] at e
    unfold doCan2 at e
    simp only [] at e
    split at e
    · rename_i hok; subst hok
      obtain ⟨rfl, rfl⟩ := Prod.mk.inj e
      simp [upd]
    · rename_i hok
      simp only [Bool.not_eq_true] at hok; subst hok
      obtain ⟨rfl, rfl⟩ := Prod.mk.inj e
      simp [upd, EBUSY]
  · simp at e


theorem nItems_mono {s s' : State} {a : Act} {evs : List Ev} (e : step s a = some (s', evs)) :
    s.nItems ≤ s'.nItems := by
  unfold step at e
  cases a with
  | sub l k c =>
    simp only [] at e
    split at e
    · simp only [Option.some.injEq] at e
      unfold doSub at e
      simp only [] at e
      (repeat' split at e) <;> obtain ⟨rfl, rfl⟩ := Prod.mk.inj e <;> simp [signal_items]
    · simp at e
  | can l j =>
    simp only [] at e
    split at e
    · simp only [Option.some.injEq] at e
      unfold doCan1 at e
      simp only [] at e
      (repeat' split at e) <;> obtain ⟨rfl, rfl⟩ := Prod.mk.inj e <;> simp
    · simp at e
  | go l =>
    simp only [] at e
    split at e
    · split at e
      · simp only [Option.some.injEq] at e
        unfold doCan2 at e
        simp only [] at e
        (repeat' split at e) <;> obtain ⟨rfl, rfl⟩ := Prod.mk.inj e <;> simp
      · split at e
        · simp at e
        · simp only [Option.some.injEq] at e
          unfold doReport at e
          simp only [] at e
          (repeat' split at e) <;> obtain ⟨rfl, rfl⟩ := Prod.mk.inj e <;> simp
    · simp at e
  | drn l =>
    simp only [] at e
    split at e
    · simp only [Option.some.injEq] at e
      unfold doDrain at e
      obtain ⟨rfl, rfl⟩ := Prod.mk.inj e
      simp
    · simp at e
  | wk t c =>
    simp only [] at e
    split at e
    · unfold doWorker at e
      split at e
      · simp at e
      all_goals (try unfold doRegion at e)
      all_goals simp only [Option.some.injEq] at e
      all_goals (repeat' split at e)
      all_goals obtain ⟨rfl, rfl⟩ := Prod.mk.inj e
      all_goals simp [signal_items]
    · simp at e
  | wake t =>
    simp only [] at e
    split at e
    · simp only [Option.some.injEq] at e
      obtain ⟨rfl, rfl⟩ := Prod.mk.inj e
      simp
    · simp at e

theorem cancelOk_run {s : State} (as : List Act) {i : Nat} (hi : i < s.nItems)
    (hc : (s.items i).cancelOk = true) : i < (run s as).nItems ∧ ((run s as).items i).cancelOk = true := by
  induction as generalizing s with
  | nil => exact ⟨hi, hc⟩
  | cons a as ih =>
    simp only [run]
    split
    · rename_i s' evs e
      exact ih (Nat.lt_of_lt_of_le hi (nItems_mono e)) ((counters_frame e i hi).2.2.2.2.1 hc)
    · exact ih hi hc

theorem reach_run {n L : Nat} {s : State} (h : Reach n L s) (as : List Act) : Reach n L (run s as) := by
  obtain ⟨bs, rfl⟩ := h
  refine ⟨bs ++ as, ?_⟩
  generalize State.init n L = s0
  induction bs generalizing s0 with
  | nil => rfl
  | cons b bs ih => simp only [run, List.cons_append]; split <;> exact ih _


/-! ## no lost wake-up -/

def Takeable (wq : List Ent) (r T : Int) : Prop := wq ≠ [] ∧ ¬(wq = [.marker] ∧ r ≥ T)
def Awake (s : State) : Prop := ∃ t, t < s.n ∧ s.workers t ≠ .waiting
/-- no lost wake-up: if a worker may take work, some worker is not parked in uv_cond_wait -/
def Inv5 (s : State) : Prop := Takeable s.wq s.slowRun (threshold s.n) → Awake s

theorem signal_awake (s : State) (c : Nat) (h1 : 1 ≤ s.n) : Awake (signal s c) := by
  by_cases ha : Awake s
  · obtain ⟨t, ht, hw⟩ := ha
    rcases signal_cases' s c with e | ⟨w, hw', hp, e⟩
    · rw [e]; exact ⟨t, ht, hw⟩
    · rw [e]; refine ⟨t, ht, ?_⟩; simp only [upd]; split <;> simp_all
  · have hall : ∀ t, t < s.n → s.workers t = .waiting := by
      intro t ht; by_cases e : s.workers t = .waiting
      · exact e
      · exact absurd ⟨t, ht, e⟩ ha
    have hmem : 0 ∈ waiters s := by simp [waiters, hall 0 (by omega)]; omega
    unfold signal
    simp only []
    have hlen : 0 < (waiters s).length := List.length_pos_of_mem hmem
    have : (c % (waiters s).length) < (waiters s).length := Nat.mod_lt _ hlen
    rw [List.getElem?_eq_getElem this]
    simp only []
    have hm : (waiters s)[c % (waiters s).length] ∈ waiters s := List.getElem_mem this
    have hr := List.mem_range.mp (List.mem_filter.mp hm).1
    exact ⟨_, hr, by simp [upd]⟩

theorem cnt_eq_zero {α : Type} (p : α → Bool) (w : Nat → α) (n : Nat) (h : cnt p w n = 0) :
    ∀ t, t < n → p (w t) = false := by
  induction n with
  | zero => intro t ht; omega
  | succ n ih =>
    simp only [cnt] at h
    intro t ht
    by_cases e : t = n
    · subst e; by_cases q : p (w t) = true
      · simp [q] at h
      · simpa using q
    · exact ih (by omega) t (by omega)

theorem takeable_erase {wq : List Ent} {i : Nat} {r T : Int} (h : Takeable (wq.erase (.item i)) r T) :
    Takeable wq r T := by
  unfold Takeable at *
  grind

theorem inv5_region {s : State} {t : Nat} (c : Nat) (hn : s.wq.Nodup) (ht : t < s.n) :
    Inv5 (doRegion s t c).1 := by
  unfold doRegion
  have sp := dq_spec (threshold s.n) s.slowRun (dqFuel s.wq) s.wq s.sq hn
  have hf := dq_fuel (threshold s.n) s.slowRun (dqFuel s.wq) s.wq s.sq hn (by simp [dqFuel])
  revert sp hf
  generalize dqLoop (threshold s.n) s.slowRun (dqFuel s.wq) s.wq s.sq = o
  intro sp hf
  cases o with
  | fuel => exact absurd rfl hf
  | wait wq' sq' =>
    simp only [DqSpec] at sp
    intro tk
    simp only [Takeable] at tk
    grind
  | take i slow wq' sq' sig =>
    intro _
    simp only []
    split
    · apply signal_awake; simp only []; omega
    · exact ⟨t, ht, by simp [upd]⟩

theorem inv5_step {s s' : State} {a : Act} {evs : List Ev} (hI : Inv s) (h2 : Inv2 s) (h : Inv5 s)
    (h1 : 1 ≤ s.n) (e : step s a = some (s', evs)) : Inv5 s' := by
  unfold step at e
  cases a with
  | sub l k c =>
    simp only [] at e
    split at e
    · simp only [Option.some.injEq] at e
      unfold doSub at e
      simp only [] at e
      have hz : ¬ s.idle > 0 → Awake s := by
        intro hi
        have := h2.idleEq
        have := cnt_eq_zero isIdle s.workers s.n (by omega) 0 (by omega)
        refine ⟨0, by omega, ?_⟩
        intro hw; simp [hw, isIdle] at this
      (repeat' split at e) <;> obtain ⟨rfl, rfl⟩ := Prod.mk.inj e
      · exact h
      · intro _; exact signal_awake _ c h1
      · rename_i hi; intro _; exact hz hi
      · intro _; exact signal_awake _ c h1
      · rename_i hi; intro _; exact hz hi
    · simp at e
  | can l j =>
    simp only [] at e
    split at e
    · simp only [Option.some.injEq] at e
      unfold doCan1 at e
      simp only [] at e
      (repeat' split at e) <;> obtain ⟨rfl, rfl⟩ := Prod.mk.inj e
      · intro tk; exact h (takeable_erase tk)
      · exact h
    · simp at e
  | go l =>
    simp only [] at e
    split at e
    · split at e
      · simp only [Option.some.injEq] at e
        unfold doCan2 at e
        simp only [] at e
        (repeat' split at e) <;> obtain ⟨rfl, rfl⟩ := Prod.mk.inj e <;> exact h
      · split at e
        · simp at e
        · simp only [Option.some.injEq] at e
          unfold doReport at e
          simp only [] at e
          (repeat' split at e) <;> obtain ⟨rfl, rfl⟩ := Prod.mk.inj e <;> exact h
    · simp at e
  | drn l =>
    simp only [] at e
    split at e
    · simp only [Option.some.injEq] at e
      unfold doDrain at e
      obtain ⟨rfl, rfl⟩ := Prod.mk.inj e
      exact h
    · simp at e
  | wk t c =>
    simp only [] at e
    split at e
    · rename_i ht
      unfold doWorker at e
      split at e
      · simp at e
      · simp only [Option.some.injEq] at e
        rw [← fst_of_eq e]; exact inv5_region c hI.wqNd ht
      · simp only [Option.some.injEq] at e
        rw [← fst_of_eq e]; exact inv5_region c hI.wqNd ht
      · simp only [Option.some.injEq] at e
        rw [← fst_of_eq e]; exact inv5_region c hI.wqNd ht
      · simp only [Option.some.injEq] at e
        obtain ⟨rfl, rfl⟩ := Prod.mk.inj e
        intro _; exact ⟨t, ht, by simp [upd]⟩
      · simp only [Option.some.injEq] at e
        obtain ⟨rfl, rfl⟩ := Prod.mk.inj e
        intro _; exact ⟨t, ht, by simp [upd]⟩
    · simp at e
  | wake t =>
    simp only [] at e
    split at e
    · rename_i hc
      simp only [Option.some.injEq] at e
      obtain ⟨rfl, rfl⟩ := Prod.mk.inj e
      intro _; exact ⟨t, hc.1, by simp [upd]⟩
    · simp at e

theorem n_const {s s' : State} {a : Act} {evs : List Ev} (e : step s a = some (s', evs)) : s'.n = s.n := by
  unfold step at e
  cases a with
  | sub l k c =>
    simp only [] at e
    split at e
    · simp only [Option.some.injEq] at e
      unfold doSub at e
      simp only [] at e
      (repeat' split at e) <;> obtain ⟨rfl, rfl⟩ := Prod.mk.inj e <;> simp [signal_items]
    · simp at e
  | can l j =>
    simp only [] at e
    split at e
    · simp only [Option.some.injEq] at e
      unfold doCan1 at e
      simp only [] at e
      (repeat' split at e) <;> obtain ⟨rfl, rfl⟩ := Prod.mk.inj e <;> simp
    · simp at e
  | go l =>
    simp only [] at e
    split at e
    · split at e
      · simp only [Option.some.injEq] at e
        unfold doCan2 at e
        simp only [] at e
        (repeat' split at e) <;> obtain ⟨rfl, rfl⟩ := Prod.mk.inj e <;> simp
      · split at e
        · simp at e
        · simp only [Option.some.injEq] at e
          unfold doReport at e
          simp only [] at e
          (repeat' split at e) <;> obtain ⟨rfl, rfl⟩ := Prod.mk.inj e <;> simp
    · simp at e
  | drn l =>
    simp only [] at e
    split at e
    · simp only [Option.some.injEq] at e
      unfold doDrain at e
      obtain ⟨rfl, rfl⟩ := Prod.mk.inj e
      simp
    · simp at e
  | wk t c =>
    simp only [] at e
    split at e
    · unfold doWorker at e
      split at e
      · simp at e
      all_goals (try unfold doRegion at e)
      all_goals simp only [Option.some.injEq] at e
      all_goals (repeat' split at e)
      all_goals obtain ⟨rfl, rfl⟩ := Prod.mk.inj e
      all_goals simp [signal_items]
    · simp at e
  | wake t =>
    simp only [] at e
    split at e
    · simp only [Option.some.injEq] at e
      obtain ⟨rfl, rfl⟩ := Prod.mk.inj e
      simp
    · simp at e

theorem inv5_reach {n L : Nat} {s : State} (h1 : 1 ≤ n) (h : Reach n L s) : Inv5 s ∧ s.n = n := by
  obtain ⟨as, rfl⟩ := h
  suffices ∀ s, Inv s → Inv2 s → Inv5 s → s.n = n → Inv5 (run s as) ∧ (run s as).n = n from
    this _ (inv_init n L) (inv2_init n L) (by intro tk; simp [Takeable, State.init] at tk) rfl
  induction as with
  | nil => intro s _ _ h5 hn; exact ⟨h5, hn⟩
  | cons a as ih =>
    intro s hI h2 h5 hn
    simp only [run]
    split
    · rename_i s' evs e
      exact ih s' (inv_step hI e) (inv2_step hI h2 e) (inv5_step hI h2 h5 (by omega) e) (by rw [n_const e, hn])
    · exact ih s hI h2 h5 hn


/-! ## active_reqs = requests whose callback has not run -/

def pend (l : Nat) (it : Item) : Bool := decide (it.loop = l) && decide (it.dones = 0)

theorem cnt_upd_same {α : Type} (p : α → Bool) (w : Nat → α) (t : Nat) (x : α) (n : Nat) (h : p x = p (w t)) :
    cnt p (upd w t x) n = cnt p w n := by
  by_cases ht : t < n
  · have := cnt_upd p w t x n ht
    rw [h] at this
    omega
  · exact cnt_upd_ge p w t x n (by omega)

theorem cnt_pos {α : Type} (p : α → Bool) (w : Nat → α) (n t : Nat) (ht : t < n) (hp : p (w t) = true) :
    0 < cnt p w n := by
  induction n with
  | zero => omega
  | succ n ih =>
    simp only [cnt]
    by_cases e : t = n
    · subst e; simp [hp]
    · have := ih (by omega); omega

theorem pend_report (l' : Nat) (it : Item) (st : Int) :
    pend l' ({ it with dones := it.dones + 1, status := st, loc := Loc.reported } : Item) = false := by
  simp [pend]

def Inv4 (s : State) : Prop := ∀ l, (s.loops l).reqs = cnt (pend l) s.items s.nItems

theorem inv4_signal {s : State} (c : Nat) (h : Inv4 s) : Inv4 (signal s c) := by
  have := signal_items s c
  intro l; rw [this.1, this.2.1, this.2.2.1]; exact h l

theorem inv4_region {s : State} {t : Nat} (c : Nat) (h : Inv4 s) : Inv4 (doRegion s t c).1 := by
  unfold doRegion
  split
  · exact h
  · exact h
  · simp only []
    split
    · apply inv4_signal
      intro l; simp only []
      rw [cnt_upd_same _ _ _ _ _ (by simp [pend])]; exact h l
    · intro l; simp only []
      rw [cnt_upd_same _ _ _ _ _ (by simp [pend])]; exact h l

theorem inv4_step {s s' : State} {a : Act} {evs : List Ev} (hI : Inv s) (h : Inv4 s)
    (e : step s a = some (s', evs)) : Inv4 s' := by
  unfold step at e
  cases a with
  | sub l k c =>
    simp only [] at e
    split at e
    · simp only [Option.some.injEq] at e
      unfold doSub at e
      simp only [] at e
      have key : ∀ (it : Item), it.loop = l → it.dones = 0 → ∀ l',
          (upd s.loops l { (s.loops l) with reqs := (s.loops l).reqs + 1 } l').reqs =
            cnt (pend l') (upd s.items s.nItems it) (s.nItems + 1) := by
        intro it h1 h2 l'
        simp only [cnt, upd_same]
        rw [cnt_upd_ge _ _ _ _ _ (Nat.le_refl _)]
        have := h l'
        simp only [upd, pend, h1, h2]
        by_cases e : l' = l
        · subst e; simp; omega
        · have e' : ¬ l = l' := fun x => e x.symm
          simp [e, e']; omega
      (repeat' split at e) <;> obtain ⟨rfl, rfl⟩ := Prod.mk.inj e <;> (try apply inv4_signal) <;>
        exact key _ rfl rfl
    · simp at e
  | can l j =>
    simp only [] at e
    split at e
    · simp only [Option.some.injEq] at e
      unfold doCan1 at e
      simp only [] at e
      (repeat' split at e) <;> obtain ⟨rfl, rfl⟩ := Prod.mk.inj e <;> intro l' <;> simp only []
      · rw [cnt_upd_same _ _ _ _ _ (by simp [pend])]
        have := h l'; simp only [upd]; split <;> simp_all
      · have := h l'; simp only [upd]; split <;> simp_all
    · simp at e
  | go l =>
    simp only [] at e
    split at e
    · split at e
      · simp only [Option.some.injEq] at e
        unfold doCan2 at e
        simp only [] at e
        (repeat' split at e) <;> obtain ⟨rfl, rfl⟩ := Prod.mk.inj e <;> intro l' <;> simp only []
        · rw [cnt_upd_same _ _ _ _ _ (by simp [pend])]
          have := h l'; simp only [upd]; split <;> simp_all
        · have := h l'; simp only [upd]; split <;> simp_all
      · split at e
        · simp at e
        · simp only [Option.some.injEq] at e
          unfold doReport at e
          simp only [] at e
          split at e
          · obtain ⟨rfl, rfl⟩ := Prod.mk.inj e
            intro l'; have := h l'; simp only [upd]; split <;> simp_all
          · rename_i i rest hl
            obtain ⟨rfl, rfl⟩ := Prod.mk.inj e
            have a1 := hI.lqLoc l i (Or.inr (by simp [hl]))
            have a2 := hI.itemOk i a1.1
            simp only [ItemOk, a1.2.1] at a2
            intro l'
            have := h l'
            have cu := cnt_upd (pend l') s.items i
              { (s.items i) with dones := (s.items i).dones + 1,
                                 status := if (s.items i).work = Work.cancelled then ECANCELED else 0,
                                 loc := Loc.reported } s.nItems a1.1
            have po : pend l' (s.items i) = decide (l = l') := by simp [pend, a1.2.2, a2.2.1]
            rw [po, pend_report] at cu
            simp only []
            rw [cu]
            by_cases e : l' = l
            · subst e; rw [upd_same]; simp; omega
            · have e' : ¬ l = l' := fun x => e x.symm
              rw [upd_ne _ _ _ _ e]; simp [e']; omega
    · simp at e
  | drn l =>
    simp only [] at e
    split at e
    · simp only [Option.some.injEq] at e
      unfold doDrain at e
      obtain ⟨rfl, rfl⟩ := Prod.mk.inj e
      intro l'; have := h l'; simp only [upd]; split <;> simp_all
    · simp at e
  | wk t c =>
    simp only [] at e
    split at e
    · unfold doWorker at e
      split at e
      · simp at e
      · simp only [Option.some.injEq] at e
        rw [← fst_of_eq e]; exact inv4_region c h
      · simp only [Option.some.injEq] at e
        rw [← fst_of_eq e]; exact inv4_region c h
      · simp only [Option.some.injEq] at e
        rw [← fst_of_eq e]; exact inv4_region c h
      · simp only [Option.some.injEq] at e
        obtain ⟨rfl, rfl⟩ := Prod.mk.inj e
        intro l'; simp only []
        rw [cnt_upd_same _ _ _ _ _ (by simp [pend])]; exact h l'
      · simp only [Option.some.injEq] at e
        obtain ⟨rfl, rfl⟩ := Prod.mk.inj e
        intro l'; simp only []
        rw [cnt_upd_same _ _ _ _ _ (by simp [pend])]
        have := h l'; simp only [upd]; split <;> simp_all
    · simp at e
  | wake t =>
    simp only [] at e
    split at e
    · simp only [Option.some.injEq] at e
      obtain ⟨rfl, rfl⟩ := Prod.mk.inj e
      exact h
    · simp at e

theorem inv4_reach {n L : Nat} {s : State} (h : Reach n L s) : Inv4 s := by
  obtain ⟨as, rfl⟩ := h
  suffices ∀ s, Inv s → Inv4 s → Inv4 (run s as) from
    this _ (inv_init n L) (by intro l; simp [State.init, LoopSt.init, cnt])
  induction as with
  | nil => intro s _ h4; exact h4
  | cons a as ih =>
    intro s hI h4
    simp only [run]
    split
    · rename_i s' evs e; exact ih s' (inv_step hI e) (inv4_step hI h4 e)
    · exact ih s hI h4

end UvModel.Tpool
