import UvModel.Tpool
namespace UvModel.Tpool
end UvModel.Tpool
