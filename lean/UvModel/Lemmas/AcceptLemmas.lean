import UvModel.Accept
/-! helper lemmas for C07: list facts behind the queue arithmetic, and the invariant of `step` -/
namespace UvModel.Accept

/-! ### list facts -/

theorem take_set_succ {α} (l : List α) (n : Nat) (x : α) (h : n < l.length) :
    (l.set n x).take (n + 1) = l.take n ++ [x] := by
  induction l generalizing n with
  | nil => simp at h
  | cons a t ih =>
    cases n with
    | zero => simp
    | succ k => simp at h; simp [ih k h]

/-- the memmove of `uv_accept`: new head + shifted prefix is the old logical prefix -/
theorem shift_take {α} (l : List α) (d : α) (off : Nat) (h0 : 0 < off) (hle : off ≤ l.length) :
    l.headD d :: (((l.drop 1).take (off - 1) ++ l.drop (off - 1)).take (off - 1)) = l.take off := by
  cases l with
  | nil => simp at hle; omega
  | cons a t =>
    cases off with
    | zero => omega
    | succ k =>
      simp at hle
      simp [List.length_take, Nat.min_eq_left hle]

theorem shift_length {α} (l : List α) (off : Nat) (h : off + 1 ≤ l.length) :
    ((l.drop 1).take off ++ l.drop off).length = l.length := by
  simp [List.length_take, List.length_drop]; omega

/-! ### the invariant -/

structure QInv (q : Queue) : Prop where
  pos : 0 < q.offset
  le : q.offset ≤ q.fds.length
  sz : q.size = q.fds.length

structure Inv (s : St) : Prop where
  nofault : s.fault = false
  accNone : s.acceptedFd = none → s.queued = none
  qinv : ∀ q, s.queued = some q → QInv q
  listenQ : s.role = .listen → s.queued = none
  fifo : s.stored = s.taken.map (·.1) ++ pending s ++ s.byClose
  cons : List.Perm s.arrived (s.stored ++ s.dropped ++ s.shed)
  closedP : s.closed = true → s.acceptedFd = none ∧ s.pollin = false
  openB : s.closed = false → s.byClose = []
  ipcCb : s.role = .ipc → s.inCb = false
  pollCb : s.role = .listen → s.closed = false → s.inCb = true → s.pollin = true
  pollOut : s.role = .listen → s.closed = false → s.inCb = false →
    (s.acceptedFd.isSome → s.pollin = false) ∧ (s.acceptedFd = none → s.stuck = false → s.pollin = true)

theorem inv_init (role : Role) (ipc pollin : Bool) (h : role = .listen → pollin = true) :
    Inv (init role ipc pollin) := by
  constructor <;> simp_all [init, pending, qlist]

/-- what `uv__stream_queue_fd` does to a state whose queue is well-formed -/
theorem queueFd_spec (s : St) (fd : Fd) (ok : Bool)
    (hq : ∀ q, s.queued = some q → QInv q) :
    (∃ q', QInv q' ∧ (queueFd s fd ok).1 = { s with queued := some q' } ∧ (queueFd s fd ok).2.1 = 0 ∧
        qlist (some q') = qlist s.queued ++ [fd]) ∨
    ((queueFd s fd ok).1 = s ∧ (queueFd s fd ok).2.1 = ENOMEM) := by
  unfold queueFd
  cases hs : s.queued with
  | none =>
    cases ok with
    | false => right; simp
    | true =>
      left
      simp [putFd, slotsOf, allocBytes]
      refine ⟨_, ?_, rfl, ?_⟩
      · constructor <;> simp
      · simp [qlist]
  | some q =>
    have hi := hq q hs
    by_cases hfull : q.size = q.offset
    · cases ok with
      | false => right; simp [hfull]
      | true =>
        left
        have hlen : q.fds.length = q.offset := by rw [← hi.sz, hfull]
        have hn : slotsOf (allocBytes (q.size + 8)) = q.offset + 8 := by
          simp [slotsOf, allocBytes]; omega
        simp [hfull, putFd]
        rw [hfull] at hn
        simp [hn, hlen, List.length_take]
        refine ⟨_, ?_, rfl, ?_⟩
        · constructor <;> simp [hlen, List.length_take] <;> omega
        · have : q.fds.take (q.offset + 8) = q.fds := List.take_of_length_le (by omega)
          have h1 : q.fds.take (q.offset + 1) = q.fds := List.take_of_length_le (by omega)
          have h2 : q.fds.take q.offset = q.fds := List.take_of_length_le (by omega)
          simp [qlist, List.take_append, hlen, h2, this, h1]
    · left
      have hlt : q.offset < q.fds.length := by have := hi.le; have := hi.sz; omega
      simp [hfull, putFd, hlt]
      refine ⟨_, ?_, rfl, ?_⟩
      · constructor <;> simp <;> first | omega | (have := hi.sz; simpa using this)
      · simp [qlist, take_set_succ _ _ _ hlt]


theorem perm_snoc_a {l a b c : List Fd} (x : Fd) (h : l.Perm (a ++ b ++ c)) :
    (l ++ [x]).Perm (a ++ [x] ++ b ++ c) := by
  rw [List.perm_iff_count] at *
  intro y; have := h y
  simp only [List.count_append, List.count_cons, List.count_nil] at *
  split <;> omega

theorem inv_iff (s : St) : Inv s ↔
  (s.fault = false ∧ (s.acceptedFd = none → s.queued = none) ∧ (∀ q, s.queued = some q → QInv q) ∧
   (s.role = .listen → s.queued = none) ∧ (s.stored = s.taken.map (·.1) ++ pending s ++ s.byClose) ∧
   (List.Perm s.arrived (s.stored ++ s.dropped ++ s.shed)) ∧
   (s.closed = true → s.acceptedFd = none ∧ s.pollin = false) ∧ (s.closed = false → s.byClose = []) ∧
   (s.role = .ipc → s.inCb = false) ∧ (s.role = .listen → s.closed = false → s.inCb = true → s.pollin = true) ∧
   (s.role = .listen → s.closed = false → s.inCb = false →
    (s.acceptedFd.isSome → s.pollin = false) ∧ (s.acceptedFd = none → s.stuck = false → s.pollin = true))) :=
  ⟨fun h => ⟨h.1, h.2, h.3, h.4, h.5, h.6, h.7, h.8, h.9, h.10, h.11⟩,
   fun ⟨h1,h2,h3,h4,h5,h6,h7,h8,h9,h10,h11⟩ => ⟨h1,h2,h3,h4,h5,h6,h7,h8,h9,h10,h11⟩⟩

theorem inv_close (s : St) (h : Inv s) : Inv (close s) := by
  rw [inv_iff] at *
  unfold close
  rcases s with ⟨role, ipc, acc, q, pollin, inCb, closed, spare, fault, stuck, arrived, stored, taken, byClose, dropped, shed⟩
  simp only [pending] at *
  obtain ⟨h1,h2,h3,h4,h5,h6,h7,h8,h9,h10,h11⟩ := h
  subst h5
  cases closed <;> cases role <;> simp_all [qlist]

theorem inv_ioEnd (s : St) (h : Inv s) : Inv (ioEnd s) := by
  rw [inv_iff] at *
  unfold ioEnd
  rcases s with ⟨role, ipc, acc, q, pollin, inCb, closed, spare, fault, stuck, arrived, stored, taken, byClose, dropped, shed⟩
  simp only [pending] at *
  obtain ⟨h1,h2,h3,h4,h5,h6,h7,h8,h9,h10,h11⟩ := h
  subst h5
  cases inCb <;> cases role <;> cases acc <;> cases closed <;> simp_all [qlist]

theorem perm_snoc_b {l a b c : List Fd} (x : Fd) (h : l.Perm (a ++ b ++ c)) :
    (l ++ [x]).Perm (a ++ (b ++ [x]) ++ c) := by
  rw [List.perm_iff_count] at *
  intro y; have := h y
  simp only [List.count_append, List.count_cons, List.count_nil] at *
  split <;> omega

theorem perm_app_c {l a b c : List Fd} (t : List Fd) (h : l.Perm (a ++ b ++ c)) :
    (l ++ t).Perm (a ++ b ++ (c ++ t)) := by
  rw [List.perm_iff_count] at *
  intro y; have := h y
  simp only [List.count_append] at *
  omega

theorem inv_ioBegin (s : St) (r : AcceptRes) (t : Trick) (h : Inv s) : Inv (ioBegin s r t) := by
  rw [inv_iff] at *
  unfold ioBegin
  rcases s with ⟨role, ipc, acc, q, pollin, inCb, closed, spare, fault, stuck, arrived, stored, taken, byClose, dropped, shed⟩
  simp only [pending] at *
  obtain ⟨h1,h2,h3,h4,h5,h6,h7,h8,h9,h10,h11⟩ := h
  subst h5
  cases role <;> cases closed <;> cases pollin <;> cases inCb <;> simp_all [qlist]
  -- remaining: listen, open, armed, outside callback
  cases r with
  | ok fd =>
    simp
    have := perm_snoc_a (a := List.map (fun x => x.fst) taken) fd (by simpa [List.append_assoc] using h6)
    simpa [List.append_assoc] using this
  | err e =>
    simp
    split
    · split
      · simp_all
      · have := perm_app_c (a := List.map (fun x => x.fst) taken) t.shedFds (by simpa [List.append_assoc] using h6)
        simp_all [List.append_assoc]
    · simp_all

theorem take_one_headD {α} (l : List α) (d : α) (h : 1 ≤ l.length) : [l.headD d] = l.take 1 := by
  cases l with
  | nil => simp at h
  | cons a t => simp

theorem inv_uvAccept (s : St) (c : ClientTy) (e : Int) (h : Inv s) : Inv (uvAccept s c e).1 := by
  rw [inv_iff] at *
  unfold uvAccept
  rcases s with ⟨role, ipc, acc, q, pollin, inCb, closed, spare, fault, stuck, arrived, stored, taken, byClose, dropped, shed⟩
  simp only [pending] at *
  obtain ⟨h1,h2,h3,h4,h5,h6,h7,h8,h9,h10,h11⟩ := h
  subst h5
  cases acc with
  | none => simp_all [qlist]
  | some fd =>
    by_cases hc : c = .other
    · simp_all [qlist]
    · cases q with
      | none =>
        cases role <;> cases closed <;> cases inCb <;> simp_all [qlist]
      | some q =>
        have hi := h3 q rfl
        have hpos := hi.pos; have hle := hi.le; have hsz := hi.sz
        have hne : q.fds.isEmpty = false := by
          cases hf : q.fds with
          | nil => simp [hf] at hle; omega
          | cons a t => simp
        have hoff : (q.offset == 0) = false := by simp; omega
        by_cases h1' : q.offset - 1 = 0
        · have hone : q.offset = 1 := by omega
          have := take_one_headD q.fds default (by omega)
          cases role <;> cases closed <;> simp_all [qlist]
        · have hsh := shift_take q.fds default q.offset hpos hle
          have hlen := shift_length q.fds (q.offset - 1) (by omega)
          have hb : (decide (q.offset - 1 + 1 ≤ q.fds.length)) = true := by simp; omega
          cases role <;> cases closed <;> simp_all [qlist]
          all_goals (first | (constructor <;> simp_all <;> omega) | skip)


macro "perm_count" h:ident : tactic => `(tactic| (
  rw [List.perm_iff_count] at $h:ident ⊢; intro y; have := $h:ident y;
  simp only [List.count_append, List.count_cons, List.count_nil, List.append_assoc, Option.toList] at *;
  (try split) <;> omega))

theorem inv_storeFirst (s : St) (fd : Fd) (h : Inv s) (hr : s.role = .ipc) (hc : s.closed = false)
    (ha : s.acceptedFd = none) :
    Inv { s with arrived := s.arrived ++ [fd], acceptedFd := some fd, stored := s.stored ++ [fd] } := by
  rw [inv_iff] at *
  rcases s with ⟨role, ipc, acc, q, pollin, inCb, closed, spare, fault, stuck, arrived, stored, taken, byClose, dropped, shed⟩
  simp only [pending] at *
  obtain ⟨h1,h2,h3,h4,h5,h6,h7,h8,h9,h10,h11⟩ := h
  subst h5
  simp_all [qlist]
  perm_count h6

theorem inv_enqueue (s : St) (fd : Fd) (q' : Queue) (h : Inv s) (hr : s.role = .ipc) (hc : s.closed = false)
    (ha : s.acceptedFd.isSome = true) (hq : QInv q') (hl : qlist (some q') = qlist s.queued ++ [fd]) :
    Inv { s with arrived := s.arrived ++ [fd], queued := some q', stored := s.stored ++ [fd] } := by
  rw [inv_iff] at *
  rcases s with ⟨role, ipc, acc, q, pollin, inCb, closed, spare, fault, stuck, arrived, stored, taken, byClose, dropped, shed⟩
  simp only [pending] at *
  obtain ⟨h1,h2,h3,h4,h5,h6,h7,h8,h9,h10,h11⟩ := h
  subst h5
  cases acc with
  | none => simp at ha
  | some a =>
    simp_all
    perm_count h6

theorem inv_drop (s : St) (fd : Fd) (h : Inv s) :
    Inv { s with arrived := s.arrived ++ [fd], dropped := s.dropped ++ [fd] } := by
  rw [inv_iff] at *
  rcases s with ⟨role, ipc, acc, q, pollin, inCb, closed, spare, fault, stuck, arrived, stored, taken, byClose, dropped, shed⟩
  simp only [pending] at *
  obtain ⟨h1,h2,h3,h4,h5,h6,h7,h8,h9,h10,h11⟩ := h
  subst h5
  simp_all
  perm_count h6

theorem inv_recvLoop (fds : List Fd) : ∀ (s : St) (err : Int) (n : Nat) (f : Option Nat),
    Inv s → s.role = .ipc → s.closed = false →
    Inv (recvLoop s err n f fds).1 ∧ (recvLoop s err n f fds).1.role = .ipc := by
  induction fds with
  | nil => intro s err n f h hr hc; simp [recvLoop, h, hr]
  | cons fd rest ih =>
    intro s err n f h hr hc
    simp only [recvLoop]
    by_cases he : (err == 0) = true
    · simp only [he, if_true]
      have hq1 : ∀ q, ({ s with arrived := s.arrived ++ [fd] } : St).queued = some q → QInv q := h.qinv
      have spec := queueFd_spec { s with arrived := s.arrived ++ [fd] } fd (f != some n) hq1
      generalize queueFd { s with arrived := s.arrived ++ [fd] } fd (f != some n) = res at spec ⊢
      obtain ⟨s', e, al⟩ := res
      cases ha : s.acceptedFd with
      | none =>
        simp only []
        exact ih _ _ _ _ (inv_storeFirst s fd h hr hc ha) hr hc
      | some a =>
        simp only []
        rcases spec with ⟨q', hq', e1, e2, e3⟩ | ⟨e1, e2⟩
        · dsimp only at e1 e2
          subst e1 e2
          simp only [show ((0 : Int) == 0) = true from rfl, if_true]
          exact ih _ _ _ _ (inv_enqueue s fd q' h hr hc (by simp [ha]) hq' e3) hr hc
        · dsimp only at e1 e2
          subst e1 e2
          simp only [show (ENOMEM == (0 : Int)) = false from rfl]
          exact ih _ _ _ _ (inv_drop s fd h) hr hc
    · simp only [he]
      exact ih _ _ _ _ (inv_drop s fd h) hr hc

theorem inv_recv (s : St) (fds : List Fd) (f : Option Nat) (h : Inv s) : Inv (recv s fds f).1 := by
  unfold recv
  split
  · exact h
  · rename_i hg
    simp at hg
    exact (inv_recvLoop fds s 0 0 f h hg.1 hg.2).1

theorem inv_step (s : St) (op : Op) (h : Inv s) : Inv (step s op) := by
  cases op with
  | streamInit ok =>
    rw [inv_iff] at *
    simpa [step, streamInit, pending] using h
  | ioBegin r t => exact inv_ioBegin s r t h
  | ioEnd => exact inv_ioEnd s h
  | accept c e => exact inv_uvAccept s c e h
  | recv fds f => exact inv_recv s fds f h
  | close => exact inv_close s h

theorem inv_run (ops : List Op) : ∀ s, Inv s → Inv (run s ops) := by
  induction ops with
  | nil => intro s h; exact h
  | cons op rest ih => intro s h; exact ih _ (inv_step s op h)

/-! ### the ghost flag `stuck` changes only in `uv_accept` with a failing client open -/

theorem stuck_ioBegin (s : St) (r : AcceptRes) (t : Trick) : (ioBegin s r t).stuck = s.stuck := by
  rcases s with ⟨role, ipc, acc, q, pollin, inCb, closed, spare, fault, stuck, arrived, stored, taken, byClose, dropped, shed⟩
  unfold ioBegin
  cases r <;> simp only [] <;> repeat' split
  all_goals rfl

theorem stuck_ioEnd (s : St) : (ioEnd s).stuck = s.stuck := by
  unfold ioEnd; repeat' split
  all_goals rfl

theorem stuck_close (s : St) : (close s).stuck = s.stuck := by
  unfold close; split <;> rfl

theorem stuck_putFd (s : St) (q : Queue) (fd : Fd) : (putFd s q fd).stuck = s.stuck := by
  unfold putFd; split <;> rfl

theorem stuck_queueFd (s : St) (fd : Fd) (ok : Bool) : (queueFd s fd ok).1.stuck = s.stuck := by
  unfold queueFd; repeat' split
  all_goals (first | rfl | simp [stuck_putFd])

theorem stuck_recvLoop (f : Option Nat) (fds : List Fd) : ∀ (s : St) (err : Int) (n : Nat),
    (recvLoop s err n f fds).1.stuck = s.stuck := by
  induction fds with
  | nil => intro s err n; rfl
  | cons fd rest ih =>
    intro s err n
    simp only [recvLoop]
    have hq := stuck_queueFd { s with arrived := s.arrived ++ [fd] } fd (f != some n)
    generalize queueFd { s with arrived := s.arrived ++ [fd] } fd (f != some n) = res at hq ⊢
    obtain ⟨s', e, al⟩ := res
    repeat' split
    all_goals (rw [ih]; try (first | rfl | exact hq))

theorem stuck_uvAccept_ok (s : St) (c : ClientTy) : (uvAccept s c 0).1.stuck = s.stuck := by
  unfold uvAccept
  cases s.acceptedFd with
  | none => rfl
  | some fd =>
    simp only []
    split
    · rfl
    · cases s.queued with
      | none => simp
      | some q => simp only []; split <;> rfl


end UvModel.Accept
