import UvModel.Accept
/-! helper lemmas for C07: list facts behind the queue arithmetic, and the invariant of `step` -/
namespace UvModel.Accept

/-! ### list facts -/

theorem take_set_succ {α} (l : List α) (n : Nat) (x : α) (h : n < l.length) :
    (l.set n x).take (n + 1) = l.take n ++ [x] := by
  induction l generalizing n with
  | nil => simp at h
  | cons a t ih =>
    cases n with
    | zero => simp
    | succ k => simp at h; simp [ih k h]

/-- the memmove of `uv_accept`: new head + shifted prefix is the old logical prefix -/
theorem shift_take {α} (l : List α) (d : α) (off : Nat) (h0 : 0 < off) (hle : off ≤ l.length) :
    l.headD d :: (((l.drop 1).take (off - 1) ++ l.drop (off - 1)).take (off - 1)) = l.take off := by
  cases l with
  | nil => simp at hle; omega
  | cons a t =>
    cases off with
    | zero => omega
    | succ k =>
      simp at hle
      simp [List.length_take, Nat.min_eq_left hle]

theorem shift_length {α} (l : List α) (off : Nat) (h : off + 1 ≤ l.length) :
    ((l.drop 1).take off ++ l.drop off).length = l.length := by
  simp [List.length_take, List.length_drop]; omega

/-! ### the invariant -/

structure QInv (q : Queue) : Prop where
  pos : 0 < q.offset
  le : q.offset ≤ q.fds.length
  sz : q.size = q.fds.length

structure Inv (s : St) : Prop where
  nofault : s.fault = false
  accNone : s.acceptedFd = none → s.queued = none
  qinv : ∀ q, s.queued = some q → QInv q
  listenQ : s.role = .listen → s.queued = none
  fifo : s.admitted = s.taken.map (·.1) ++ pending s ++ s.byClose
  cons : List.Perm s.arrived (s.admitted ++ s.dropped ++ s.shed)
  closedP : s.closed = true → s.acceptedFd = none ∧ s.pollin = false
  openB : s.closed = false → s.byClose = []
  ipcCb : s.role = .ipc → s.inCb = false
  pollCb : s.role = .listen → s.closed = false → s.inCb = true → s.pollin = true
  pollOut : s.role = .listen → s.closed = false → s.inCb = false →
    (s.acceptedFd.isSome → s.pollin = false) ∧ (s.acceptedFd = none → s.stuck = false → s.pollin = true)

theorem inv_init (role : Role) (ipc pollin : Bool) (h : role = .listen → pollin = true) :
    Inv (init role ipc pollin) := by
  constructor <;> simp_all [init, pending, qlist]

/-- what `uv__stream_queue_fd` does to a state whose queue is well-formed -/
theorem queueFd_spec (s : St) (fd : Fd) (ok : Bool)
    (hq : ∀ q, s.queued = some q → QInv q) :
    (∃ q', QInv q' ∧ (queueFd s fd ok).1 = { s with queued := some q' } ∧ (queueFd s fd ok).2.1 = 0 ∧
        qlist (some q') = qlist s.queued ++ [fd]) ∨
    ((queueFd s fd ok).1 = s ∧ (queueFd s fd ok).2.1 = ENOMEM) := by
  unfold queueFd
  cases hs : s.queued with
  | none =>
    cases ok with
    | false => right; simp
    | true =>
      left
      simp [putFd, slotsOf, allocBytes]
      refine ⟨_, ?_, rfl, ?_⟩
      · constructor <;> simp
      · simp [qlist]
  | some q =>
    have hi := hq q hs
    by_cases hfull : q.size = q.offset
    · cases ok with
      | false => right; simp [hfull]
      | true =>
        left
        have hlen : q.fds.length = q.offset := by rw [← hi.sz, hfull]
        have hn : slotsOf (allocBytes (q.size + 8)) = q.offset + 8 := by
          simp [slotsOf, allocBytes]; omega
        simp [hfull, putFd]
        rw [hfull] at hn
        simp [hn, hlen, List.length_take]
        refine ⟨_, ?_, rfl, ?_⟩
        · constructor <;> simp [hlen, List.length_take] <;> omega
        · have : q.fds.take (q.offset + 8) = q.fds := List.take_of_length_le (by omega)
          have h1 : q.fds.take (q.offset + 1) = q.fds := List.take_of_length_le (by omega)
          have h2 : q.fds.take q.offset = q.fds := List.take_of_length_le (by omega)
          simp [qlist, List.take_append, hlen, h2, this, h1]
    · left
      have hlt : q.offset < q.fds.length := by have := hi.le; have := hi.sz; omega
      simp [hfull, putFd, hlt]
      refine ⟨_, ?_, rfl, ?_⟩
      · constructor <;> simp <;> first | omega | (have := hi.sz; simpa using this)
      · simp [qlist, take_set_succ _ _ _ hlt]


end UvModel.Accept
