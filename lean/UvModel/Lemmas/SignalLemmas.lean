import UvModel.Signal
/-! helper lemmas for C13: the ordered tree, `firstHandle`, and the invariant `Inv` preserved by every event -/
namespace UvModel.Signal


theorem Key.lt_trans {a b c : Key} : Key.lt a b → Key.lt b c → Key.lt a c := by
  unfold Key.lt; omega
theorem Key.lt_irrefl (a : Key) : ¬ Key.lt a a := by unfold Key.lt; omega
theorem Key.lt_sig {a b : Key} : Key.lt a b → a.sig ≤ b.sig := by unfold Key.lt; omega
theorem Key.lt_os {a b : Key} : Key.lt a b → a.sig = b.sig → a.os = true → b.os = true := by
  unfold Key.lt; cases a.os <;> cases b.os <;> simp <;> omega
theorem Key.lt_total {a b : Key} (h : a ≠ b) : Key.lt a b ∨ Key.lt b a := by
  rcases a with ⟨s1, o1, l1, i1⟩; rcases b with ⟨s2, o2, l2, i2⟩
  simp only [ne_eq, Key.mk.injEq] at h
  unfold Key.lt; cases o1 <;> cases o2 <;> simp at h ⊢ <;> omega

abbrev Sorted (t : List Key) : Prop := t.Pairwise Key.lt

theorem mem_treeInsert {k x : Key} {t : List Key} : x ∈ treeInsert k t ↔ x = k ∨ x ∈ t := by
  induction t with
  | nil => simp [treeInsert]
  | cons y ys ih =>
    simp only [treeInsert]; split
    · simp
    · simp only [List.mem_cons, ih]; constructor <;> (intro h; rcases h with h | h | h <;> simp [h])

theorem sorted_treeInsert {k : Key} {t : List Key} (hs : Sorted t) (hk : k ∉ t) : Sorted (treeInsert k t) := by
  induction t with
  | nil => simp [treeInsert]
  | cons y ys ih =>
    simp only [treeInsert]; split
    · rename_i hlt
      refine List.pairwise_cons.2 ⟨?_, hs⟩
      intro z hz
      rcases List.mem_cons.1 hz with rfl | hz
      · exact hlt
      · exact Key.lt_trans hlt ((List.pairwise_cons.1 hs).1 z hz)
    · rename_i hnlt
      have hne : k ≠ y := fun e => hk (by simp [e])
      have hyk : Key.lt y k := by
        rcases Key.lt_total hne with h | h
        · exact absurd h hnlt
        · exact h
      refine List.pairwise_cons.2 ⟨?_, ih (List.pairwise_cons.1 hs).2 (fun h => hk (by simp [h]))⟩
      intro z hz
      rcases mem_treeInsert.1 hz with rfl | hz
      · exact hyk
      · exact (List.pairwise_cons.1 hs).1 z hz

theorem sorted_nodup {t : List Key} (hs : Sorted t) : t.Nodup := by
  refine List.Pairwise.imp ?_ hs
  intro a b h e; subst e; exact Key.lt_irrefl _ h

theorem sorted_erase {t : List Key} (k : Key) (hs : Sorted t) : Sorted (t.erase k) :=
  List.Pairwise.sublist (List.erase_sublist) hs

theorem mem_erase_sorted {t : List Key} {k x : Key} (hs : Sorted t) : x ∈ t.erase k ↔ x ≠ k ∧ x ∈ t :=
  (sorted_nodup hs).mem_erase_iff


/-! ### firstHandle / handlerTargets on a sorted tree -/

theorem firstHandle_none {t : List Key} {sig : Nat} (hs : Sorted t) (h : firstHandle t sig = none) :
    ∀ k ∈ t, k.sig ≠ sig := by
  unfold firstHandle at h
  split at h
  · rename_i f hf
    split at h
    · simp at h
    · rename_i hne
      obtain ⟨hp, as, bs, rfl, has⟩ := List.find?_eq_some_iff_append.1 hf
      simp only [decide_eq_true_eq] at hp
      intro k hk
      rcases List.mem_append.1 hk with hk | hk
      · have := has k hk; simp at this; omega
      · rcases List.mem_cons.1 hk with rfl | hk
        · exact hne
        · have h1 := (List.pairwise_append.1 hs).2.1
          have := Key.lt_sig ((List.pairwise_cons.1 h1).1 k hk); omega
  · rename_i hf
    intro k hk
    have := List.find?_eq_none.1 hf k hk
    simp at this; omega

theorem firstHandle_some {t : List Key} {sig : Nat} {f : Key} (hs : Sorted t) (h : firstHandle t sig = some f) :
    f ∈ t ∧ f.sig = sig ∧ (f.os = true → ∀ k ∈ t, k.sig = sig → k.os = true) := by
  unfold firstHandle at h
  split at h
  · rename_i g hg
    split at h
    · rename_i he
      simp only [Option.some.injEq] at h; subst h
      obtain ⟨hp, as, bs, rfl, has⟩ := List.find?_eq_some_iff_append.1 hg
      refine ⟨by simp, he, ?_⟩
      intro hos k hk hks
      rcases List.mem_append.1 hk with hk | hk
      · have := has k hk; simp at this; omega
      · rcases List.mem_cons.1 hk with rfl | hk
        · exact hos
        · have h1 := (List.pairwise_append.1 hs).2.1
          exact Key.lt_os ((List.pairwise_cons.1 h1).1 k hk) (by omega) hos
    · simp at h
  · simp at h

theorem handlerTargets_eq_filter {t : List Key} (sig : Nat) (hs : Sorted t) :
    handlerTargets t sig = t.filter (fun k => k.sig = sig) := by
  unfold handlerTargets
  induction t with
  | nil => simp
  | cons x xs ih =>
    have hx := (List.pairwise_cons.1 hs)
    by_cases h1 : x.sig < sig
    · have : ¬ x.sig = sig := by omega
      simp [List.dropWhile_cons, h1, List.filter_cons, this, ih hx.2]
    · simp only [List.dropWhile_cons, h1, decide_false, Bool.false_eq_true, ↓reduceIte]
      by_cases h2 : x.sig = sig
      · simp only [List.takeWhile_cons, h2, decide_true, ↓reduceIte, List.filter_cons]
        congr 1
        have := ih hx.2
        -- nothing in xs is smaller than sig
        have hd : xs.dropWhile (fun k => decide (k.sig < sig)) = xs := by
          cases xs with
          | nil => rfl
          | cons y ys =>
            have := Key.lt_sig (hx.1 y (by simp))
            simp [List.dropWhile_cons]; omega
        rw [hd] at this; exact this
      · have hgt : sig < x.sig := by omega
        simp only [List.takeWhile_cons, h2, decide_false, Bool.false_eq_true, ↓reduceIte, List.filter_cons]
        symm
        apply List.filter_eq_nil_iff.2
        intro k hk
        have := Key.lt_sig (hx.1 k hk)
        simp; omega


/-! ### the invariant -/

/-- what the kernel disposition of `sig` must be, from the set of watchers (DESIGN §3 C13) -/
def expectedDisp (t : List Key) (delivered : Nat → Bool) (sig : Nat) : Disp :=
  if t.any (fun k => k.sig = sig && !k.os) then .uv false
  else if t.any (fun k => k.sig = sig) then (if delivered sig then .dflt else .uv true)
  else .dflt

theorem expectedDisp_congr {t t' : List Key} {d d' : Nat → Bool} {sig : Nat}
    (hm : ∀ k, k.sig = sig → (k ∈ t' ↔ k ∈ t)) (hd : d' sig = d sig) :
    expectedDisp t' d' sig = expectedDisp t d sig := by
  have h1 : t'.any (fun k => k.sig = sig && !k.os) = t.any (fun k => k.sig = sig && !k.os) := by
    rw [Bool.eq_iff_iff]; simp only [List.any_eq_true, Bool.and_eq_true, decide_eq_true_eq]
    constructor <;> rintro ⟨k, hk, h1, h2⟩ <;> exact ⟨k, by simpa [hm k h1] using hk, h1, h2⟩
  have h2 : t'.any (fun k => decide (k.sig = sig)) = t.any (fun k => decide (k.sig = sig)) := by
    rw [Bool.eq_iff_iff]; simp only [List.any_eq_true, decide_eq_true_eq]
    constructor <;> rintro ⟨k, hk, h1⟩ <;> exact ⟨k, by simpa [hm k h1] using hk, h1⟩
  unfold expectedDisp; rw [h1, h2, hd]

structure Inv (s : S) : Prop where
  sorted : Sorted s.tree
  key : ∀ k ∈ s.tree, k = keyOf k.id (s.hs k.id) ∧ k.sig ≠ 0
  started : ∀ h, (s.hs h).signum ≠ 0 → keyOf h (s.hs h) ∈ s.tree
  closing : ∀ h, (s.hs h).closing = true → (s.hs h).signum = 0
  disp : ∀ sig, s.disp sig = expectedDisp s.tree s.delivered sig

theorem inv_init (loopOf : Nat → Nat) : Inv (init loopOf) := by
  refine ⟨by simp [init], by simp [init], by simp [init], by simp [init], ?_⟩
  intro sig; simp [init, expectedDisp]

theorem sigStop_noop {s : S} {h : Nat} (h0 : (s.hs h).signum = 0) : sigStop s h = s := by
  simp [sigStop, h0]

theorem inv_sigStop {s : S} (h : Nat) (hi : Inv s) : Inv (sigStop s h) := by
  by_cases h0 : (s.hs h).signum = 0
  · rw [sigStop_noop h0]; exact hi
  have hK : keyOf h (s.hs h) ∈ s.tree := hi.started h h0
  have hsorted' := sorted_erase (keyOf h (s.hs h)) hi.sorted
  have hmem : ∀ x, x ∈ s.tree.erase (keyOf h (s.hs h)) ↔ x ≠ keyOf h (s.hs h) ∧ x ∈ s.tree :=
    fun x => mem_erase_sorted hi.sorted
  have hid : ∀ x ∈ s.tree.erase (keyOf h (s.hs h)), x.id ≠ h := by
    intro x hx e
    have := (hi.key x ((hmem x).1 hx).2).1
    rw [e] at this; exact ((hmem x).1 hx).1 this
  have htree : (sigStop s h).tree = s.tree.erase (keyOf h (s.hs h)) := by
    simp only [sigStop, h0, ↓reduceIte]; split <;> (try split) <;> rfl
  have hhs : (sigStop s h).hs = upd s.hs h { s.hs h with signum := 0 } := by
    simp only [sigStop, h0, ↓reduceIte]; split <;> (try split) <;> rfl
  refine ⟨by rw [htree]; exact hsorted', ?_, ?_, ?_, ?_⟩
  · intro k hk; rw [htree] at hk
    have hk' := (hmem k).1 hk
    rw [hhs, upd_other _ _ _ _ (hid k hk)]; exact hi.key k hk'.2
  · intro h' hh'; rw [hhs] at hh' ⊢
    by_cases e : h' = h
    · subst e; simp at hh'
    · rw [upd_other _ _ _ _ e] at hh' ⊢
      rw [htree]; refine (hmem _).2 ⟨?_, hi.started h' hh'⟩
      intro e2; simp [keyOf] at e2; exact e e2.2.2.2
  · intro h' hc; rw [hhs] at hc ⊢
    by_cases e : h' = h
    · subst e; simp
    · rw [upd_other _ _ _ _ e] at hc ⊢; exact hi.closing h' hc
  · intro sig
    have hKsig : (keyOf h (s.hs h)).sig = (s.hs h).signum := rfl
    have hother : sig ≠ (s.hs h).signum → expectedDisp (s.tree.erase (keyOf h (s.hs h))) s.delivered sig = s.disp sig := by
      intro hne; rw [hi.disp sig]
      apply expectedDisp_congr _ rfl
      intro k hk; rw [hmem]; constructor
      · exact fun h => h.2
      · intro hkt; refine ⟨?_, hkt⟩; intro e; rw [e, hKsig] at hk; exact hne hk.symm
    simp only [sigStop, h0, ↓reduceIte]
    split
    · -- no watcher left: SIG_DFL
      rename_i hf
      have hnone := firstHandle_none hsorted' hf
      simp only [unregister]
      by_cases e : sig = (s.hs h).signum
      · subst e; simp only [upd_same]
        have a1 : (s.tree.erase (keyOf h (s.hs h))).any (fun k => k.sig = (s.hs h).signum && !k.os) = false := by
          apply List.any_eq_false.2; intro k hk; simp [hnone k hk]
        have a2 : (s.tree.erase (keyOf h (s.hs h))).any (fun k => decide (k.sig = (s.hs h).signum)) = false := by
          apply List.any_eq_false.2; intro k hk; simp [hnone k hk]
        simp [expectedDisp, a1, a2]
      · rw [upd_other _ _ _ _ e, ← hother e]
        exact (expectedDisp_congr (fun _ _ => Iff.rfl) (upd_other _ _ _ _ e)).symm
    · rename_i f hf
      obtain ⟨hft, hfs, hfos⟩ := firstHandle_some hsorted' hf
      split
      · -- first remaining is one-shot, the removed one was regular: re-register with RESETHAND
        rename_i hc
        simp only [Bool.and_eq_true, Bool.not_eq_eq_eq_not, Bool.not_true] at hc
        simp only [register]
        by_cases e : sig = (s.hs h).signum
        · subst e; simp only [upd_same]
          have a1 : (s.tree.erase (keyOf h (s.hs h))).any (fun k => k.sig = (s.hs h).signum && !k.os) = false := by
            apply List.any_eq_false.2; intro k hk
            by_cases hks : k.sig = (s.hs h).signum
            · simp [hfos hc.1 k hk hks]
            · simp [hks]
          have a2 : (s.tree.erase (keyOf h (s.hs h))).any (fun k => decide (k.sig = (s.hs h).signum)) = true := by
            apply List.any_eq_true.2; exact ⟨f, hft, by simp [hfs]⟩
          simp [expectedDisp, a1, a2]
        · rw [upd_other _ _ _ _ e, ← hother e]
          exact (expectedDisp_congr (fun _ _ => Iff.rfl) (upd_other _ _ _ _ e)).symm
      · -- disposition untouched
        rename_i hc
        show s.disp sig = expectedDisp (s.tree.erase (keyOf h (s.hs h))) s.delivered sig
        by_cases e : sig = (s.hs h).signum
        · subst e
          rw [hi.disp]
          have hfin : f ∈ s.tree := ((hmem f).1 hft).2
          unfold expectedDisp
          by_cases hfo : f.os = true
          · -- all remaining one-shot, and so was the removed one
            have hHos : (s.hs h).oneshot = true := by
              cases hh : (s.hs h).oneshot <;> simp [hfo, hh] at hc ⊢
            have b1 : s.tree.any (fun k => k.sig = (s.hs h).signum && !k.os) = false := by
              apply List.any_eq_false.2; intro k hk
              by_cases hks : k.sig = (s.hs h).signum
              · by_cases ek : k = keyOf h (s.hs h)
                · subst ek; simp [keyOf, hHos]
                · simp [hfos hfo k ((hmem k).2 ⟨ek, hk⟩) hks]
              · simp [hks]
            have a1 : (s.tree.erase (keyOf h (s.hs h))).any (fun k => k.sig = (s.hs h).signum && !k.os) = false := by
              apply List.any_eq_false.2; intro k hk
              by_cases hks : k.sig = (s.hs h).signum
              · simp [hfos hfo k hk hks]
              · simp [hks]
            have a2 : (s.tree.erase (keyOf h (s.hs h))).any (fun k => decide (k.sig = (s.hs h).signum)) = true :=
              List.any_eq_true.2 ⟨f, hft, by simp [hfs]⟩
            have b2 : s.tree.any (fun k => decide (k.sig = (s.hs h).signum)) = true :=
              List.any_eq_true.2 ⟨f, hfin, by simp [hfs]⟩
            simp [a1, a2, b1, b2]
          · -- a regular watcher remains
            have a1 : (s.tree.erase (keyOf h (s.hs h))).any (fun k => k.sig = (s.hs h).signum && !k.os) = true :=
              List.any_eq_true.2 ⟨f, hft, by simp [hfs, hfo]⟩
            have b1 : s.tree.any (fun k => k.sig = (s.hs h).signum && !k.os) = true :=
              List.any_eq_true.2 ⟨f, hfin, by simp [hfs, hfo]⟩
            simp [a1, b1]
        · exact (hother e).symm


theorem inv_insert {s : S} (hi : Inv s) (h sig : Nat) (os : Bool) (h0 : (s.hs h).signum = 0)
    (hc : (s.hs h).closing = false) (hsig : sig ≠ 0) (d' : Nat → Disp) (dl' : Nat → Bool) (st : Bool)
    {cb : Nat} (H' : Handle) (hH' : H' = { s.hs h with signum := sig, oneshot := os, gen := (s.hs h).gen + 1, cb := cb })
    (hd : ∀ sig', d' sig' = expectedDisp (treeInsert (keyOf h H') s.tree) dl' sig') :
    Inv { s with hs := upd s.hs h H', tree := treeInsert (keyOf h H') s.tree, disp := d', delivered := dl', stale := st } := by
  have hnoid : ∀ k ∈ s.tree, k.id ≠ h := by
    intro k hk e
    have := hi.key k hk; rw [e] at this
    apply this.2; rw [this.1]; simp [keyOf, h0]
  have hnew : keyOf h H' ∉ s.tree := fun hin => hnoid _ hin rfl
  refine ⟨sorted_treeInsert hi.sorted hnew, ?_, ?_, ?_, hd⟩
  · intro k hk
    rcases mem_treeInsert.1 hk with rfl | hk
    · simp [keyOf, hH', hsig]
    · simp only; rw [upd_other _ _ _ _ (hnoid k hk)]; exact hi.key k hk
  · intro h' hh'
    simp only at hh' ⊢
    by_cases e : h' = h
    · subst e; simp only [upd_same]; exact mem_treeInsert.2 (Or.inl rfl)
    · rw [upd_other _ _ _ _ e] at hh' ⊢; exact mem_treeInsert.2 (Or.inr (hi.started h' hh'))
  · intro h' hc'
    simp only at hc' ⊢
    by_cases e : h' = h
    · subst e; simp [hH', hc] at hc'
    · rw [upd_other _ _ _ _ e] at hc' ⊢; exact hi.closing h' hc'

theorem any_treeInsert (p : Key → Bool) (k : Key) (t : List Key) :
    (treeInsert k t).any p = (p k || t.any p) := by
  rw [Bool.eq_iff_iff]; simp only [List.any_eq_true, Bool.or_eq_true, mem_treeInsert]
  constructor
  · rintro ⟨x, (rfl | hx), hp⟩
    · exact Or.inl hp
    · exact Or.inr ⟨x, hx, hp⟩
  · rintro (hp | ⟨x, hx, hp⟩)
    · exact ⟨k, Or.inl rfl, hp⟩
    · exact ⟨x, Or.inr hx, hp⟩

theorem expectedDisp_insert_other {t : List Key} {d d' : Nat → Bool} {k : Key} {sig : Nat} (hne : sig ≠ k.sig)
    (hd : d' sig = d sig) : expectedDisp (treeInsert k t) d' sig = expectedDisp t d sig := by
  apply expectedDisp_congr _ hd
  intro x hx; rw [mem_treeInsert]; constructor
  · rintro (rfl | h)
    · exact absurd hx.symm hne
    · exact h
  · exact Or.inr

/-- changes that leave tree, disposition and the key fields of every handle alone -/
theorem inv_frame {s s' : S} (hi : Inv s) (ht : s'.tree = s.tree) (hd : s'.disp = s.disp)
    (hdl : s'.delivered = s.delivered)
    (hk : ∀ h, keyOf h (s'.hs h) = keyOf h (s.hs h))
    (hc : ∀ h, (s'.hs h).closing = true → (s.hs h).closing = true ∨ (s.hs h).signum = 0) : Inv s' := by
  have hsg : ∀ h, (s'.hs h).signum = (s.hs h).signum := fun h => by
    have := hk h; simp only [keyOf, Key.mk.injEq] at this; exact this.1
  refine ⟨by rw [ht]; exact hi.sorted, ?_, ?_, ?_, ?_⟩
  · intro k hk'; rw [ht] at hk'; rw [hk]; exact hi.key k hk'
  · intro h hh; rw [ht, hk]; rw [hsg] at hh; exact hi.started h hh
  · intro h hh; rw [hsg]; rcases hc h hh with h1 | h1
    · exact hi.closing h h1
    · exact h1
  · intro sig; rw [hd, ht, hdl]; exact hi.disp sig

theorem inv_setCb {s : S} (h cb : Nat) (hi : Inv s) : Inv (setCb s h cb) := by
  unfold setCb
  refine inv_frame hi rfl rfl rfl ?_ ?_
  · intro h'; simp only [upd_apply]; split
    · rename_i e; subst e; simp [keyOf]
    · rfl
  · intro h' hc; simp only [upd_apply] at hc; split at hc
    · rename_i e; subst e; exact Or.inl hc
    · exact Or.inl hc

theorem inv_sigStart {s : S} (h sig : Nat) (os : Bool) (cb : Nat) (hi : Inv s) (hc : (s.hs h).closing = false) :
    Inv (sigStart s h sig os cb).1 := by
  unfold sigStart
  split
  · exact hi
  rename_i hsig
  split
  · exact inv_setCb h cb hi
  rename_i hne
  have hi1 := inv_sigStop h hi
  have h0 : ((sigStop s h).hs h).signum = 0 := by
    by_cases e : (s.hs h).signum = 0
    · rw [sigStop_noop e]; exact e
    · have hhs : (sigStop s h).hs = upd s.hs h { s.hs h with signum := 0 } := by
        simp only [sigStop, e, ↓reduceIte]; split <;> (try split) <;> rfl
      rw [hhs]; simp
  have hc1 : ((sigStop s h).hs h).closing = false := by
    by_cases e : (s.hs h).signum = 0
    · rw [sigStop_noop e]; exact hc
    · have hhs : (sigStop s h).hs = upd s.hs h { s.hs h with signum := 0 } := by
        simp only [sigStop, e, ↓reduceIte]; split <;> (try split) <;> rfl
      rw [hhs]; simp [hc]
  generalize sigStop s h = s1 at hi1 h0 hc1
  simp only
  cases hf : firstHandle s1.tree sig with
  | none =>
    have hnone := firstHandle_none hi1.sorted hf
    simp only [hf, Bool.true_and]
    split
    · exact hi1
    simp only [↓reduceIte, register]
    apply inv_insert hi1 h sig os h0 hc1 hsig _ _ _ _ rfl
    intro sig'
    by_cases e : sig' = sig
    · subst e
      have a1 : s1.tree.any (fun k => k.sig = sig' && !k.os) = false := by
        apply List.any_eq_false.2; intro k hk; simp [hnone k hk]
      have a2 : s1.tree.any (fun k => decide (k.sig = sig')) = false := by
        apply List.any_eq_false.2; intro k hk; simp [hnone k hk]
      simp only [upd_same, expectedDisp, any_treeInsert, a1, a2, keyOf]
      cases os <;> simp
    · rw [upd_other _ _ _ _ e, hi1.disp sig']
      exact (expectedDisp_insert_other (by simpa [keyOf] using e) (upd_other _ _ _ _ e)).symm
  | some f =>
    obtain ⟨hft, hfs, hfos⟩ := firstHandle_some hi1.sorted hf
    have b2 : s1.tree.any (fun k => decide (k.sig = sig)) = true :=
      List.any_eq_true.2 ⟨f, hft, by simp [hfs]⟩
    simp only [hf]
    by_cases hreg : (!os && f.os) = true
    · simp only [hreg, Bool.true_and]
      split
      · exact hi1
      simp only [↓reduceIte, register]
      simp only [Bool.and_eq_true, Bool.not_eq_eq_eq_not, Bool.not_true] at hreg
      apply inv_insert hi1 h sig os h0 hc1 hsig _ _ _ _ rfl
      intro sig'
      by_cases e : sig' = sig
      · subst e
        simp [upd_same, expectedDisp, any_treeInsert, keyOf, hreg.1]
      · rw [upd_other _ _ _ _ e, hi1.disp sig']
        exact (expectedDisp_insert_other (by simpa [keyOf] using e) (upd_other _ _ _ _ e)).symm
    · simp only [hreg, Bool.false_and, Bool.false_eq_true, ↓reduceIte]
      apply inv_insert hi1 h sig os h0 hc1 hsig _ _ _ _ rfl
      intro sig'
      by_cases e : sig' = sig
      · subst e
        rw [hi1.disp sig']
        simp only [expectedDisp, any_treeInsert, keyOf, b2]
        cases os
        · -- new regular watcher, first existing watcher is regular too
          have hfo : f.os = false := by simpa using hreg
          have b1 : s1.tree.any (fun k => k.sig = sig' && !k.os) = true :=
            List.any_eq_true.2 ⟨f, hft, by simp [hfs, hfo]⟩
          simp [b1]
        · simp
      · rw [hi1.disp sig']
        exact (expectedDisp_insert_other (by simpa [keyOf] using e) rfl).symm


theorem sigStop_signum (s : S) (h : Nat) : ((sigStop s h).hs h).signum = 0 := by
  by_cases e : (s.hs h).signum = 0
  · rw [sigStop_noop e]; exact e
  · have hhs : (sigStop s h).hs = upd s.hs h { s.hs h with signum := 0 } := by
      simp only [sigStop, e, ↓reduceIte]; split <;> (try split) <;> rfl
    rw [hhs]; simp

theorem inv_uvClose {s : S} (h : Nat) (hi : Inv s) : Inv (uvClose s h) := by
  unfold uvClose
  have hi1 := inv_sigStop h hi
  have h0 := sigStop_signum s h
  generalize sigStop s h = s1 at hi1 h0
  refine inv_frame hi1 rfl rfl rfl ?_ ?_
  · intro h'; simp only; by_cases e : h' = h
    · subst e; simp [keyOf]
    · rw [upd_other _ _ _ _ e]
  · intro h' hc; simp only at hc; by_cases e : h' = h
    · subst e; exact Or.inr h0
    · rw [upd_other _ _ _ _ e] at hc; exact Or.inl hc

theorem inv_setRef {s : S} (h : Nat) (r : Bool) (hi : Inv s) : Inv (setRef s h r) := by
  unfold setRef
  refine inv_frame hi rfl rfl rfl ?_ ?_
  · intro h'; simp only [upd_apply]; split
    · rename_i e; subst e; simp [keyOf]
    · rfl
  · intro h' hc; simp only [upd_apply] at hc; split at hc
    · rename_i e; subst e; exact Or.inl hc
    · exact Or.inl hc

theorem inv_applyOp {s : S} (o : Op) (hi : Inv s) : Inv (applyOp s o).1 := by
  cases o <;> simp only [applyOp] <;> split <;> (try exact hi)
  · rename_i hc; simp only [Bool.not_eq_true] at hc; exact inv_sigStart _ _ false _ hi hc
  · rename_i hc; simp only [Bool.not_eq_true] at hc; exact inv_sigStart _ _ true _ hi hc
  · exact inv_sigStop _ hi
  · exact inv_uvClose _ hi
  · exact inv_setRef _ _ hi
  · exact inv_setRef _ _ hi

theorem inv_runOps {s : S} (os : List Op) (hi : Inv s) : Inv (runOps s os) := by
  induction os generalizing s with
  | nil => exact hi
  | cons o os ih => exact ih (inv_applyOp o hi)

theorem inv_enqueue {s : S} (sig : Nat) (k : Key) (hi : Inv s) : Inv (enqueue sig s k) := by
  unfold enqueue
  refine inv_frame hi rfl rfl rfl ?_ ?_
  · intro h'; simp only; by_cases e : h' = k.id
    · subst e; simp [keyOf]
    · rw [upd_other _ _ _ _ e]
  · intro h' hc; simp only at hc; by_cases e : h' = k.id
    · subst e; simp only [upd_same] at hc; exact Or.inl hc
    · rw [upd_other _ _ _ _ e] at hc; exact Or.inl hc

theorem inv_enqueueCap {s : S} (sig : Nat) (k : Key) (hi : Inv s) : Inv (enqueueCap sig s k) := by
  unfold enqueueCap; split
  · exact hi
  · exact inv_enqueue sig k hi

theorem inv_foldl_enqueue {s : S} (sig : Nat) (ks : List Key) (hi : Inv s) : Inv (ks.foldl (enqueueCap sig) s) := by
  induction ks generalizing s with
  | nil => exact hi
  | cons k ks ih => exact ih (inv_enqueueCap sig k hi)

theorem inv_deliver {s : S} (sig : Nat) (hi : Inv s) : Inv (deliver s sig) := by
  unfold deliver
  split
  · exact hi
  rename_i reset hd
  apply inv_foldl_enqueue
  have hexp := hi.disp sig
  rw [hd] at hexp
  refine ⟨?_, ?_, ?_, ?_, ?_⟩
  · cases reset <;> exact hi.sorted
  · cases reset <;> exact hi.key
  · cases reset <;> exact hi.started
  · cases reset <;> exact hi.closing
  · intro sig'
    by_cases e : sig' = sig
    · subst e
      unfold expectedDisp at hexp ⊢
      cases reset
      · simp only [Bool.false_eq_true, ↓reduceIte] at hexp ⊢
        rw [hd]
        split at hexp
        · rename_i h1; simp [h1]
        · split at hexp
          · split at hexp <;> simp at hexp
          · simp at hexp
      · simp only [↓reduceIte, upd_same] at hexp ⊢
        split at hexp
        · simp at hexp
        · rename_i h1
          split at hexp
          · rename_i h2; simp [h1, h2]
          · simp at hexp
    · have : (if reset = true then { s with disp := upd s.disp sig Disp.dflt } else s).disp sig' = s.disp sig' := by
        cases reset
        · rfl
        · simp [upd_other _ _ _ _ e]
      have ht : (if reset = true then { s with disp := upd s.disp sig Disp.dflt } else s).tree = s.tree := by
        cases reset <;> rfl
      have hdl : (if reset = true then { s with disp := upd s.disp sig Disp.dflt } else s).delivered = s.delivered := by
        cases reset <;> rfl
      simp only [this, ht, hdl]
      rw [hi.disp sig']
      exact (expectedDisp_congr (fun _ _ => Iff.rfl) (upd_other _ _ _ _ e)).symm

theorem inv_dispatchMsg {s : S} (sc : Script) (L : Nat) (m : Msg) (hi : Inv s) : Inv (dispatchMsg sc s L m) := by
  unfold dispatchMsg
  simp only
  have step1 : Inv (if m.sig = (s.hs m.h).signum then
      runOps { s with trace := .signal m.h m.sig L m.gen (s.hs m.h).gen :: s.trace, ncb := s.ncb + 1, cbLog := (s.hs m.h).cb :: s.cbLog } (sc s.ncb)
    else s) := by
    split
    · apply inv_runOps
      exact inv_frame hi rfl rfl rfl (fun _ => rfl) (fun _ h => Or.inl h)
    · exact hi
  generalize (if m.sig = (s.hs m.h).signum then
      runOps { s with trace := .signal m.h m.sig L m.gen (s.hs m.h).gen :: s.trace, ncb := s.ncb + 1, cbLog := (s.hs m.h).cb :: s.cbLog } (sc s.ncb)
    else s) = s1 at step1
  have step2 : Inv { s1 with hs := upd s1.hs m.h { s1.hs m.h with dispatched := (s1.hs m.h).dispatched + 1 } } := by
    refine inv_frame step1 rfl rfl rfl ?_ ?_
    · intro h'; simp only; by_cases e : h' = m.h
      · subst e; simp [keyOf]
      · rw [upd_other _ _ _ _ e]
    · intro h' hc; simp only at hc; by_cases e : h' = m.h
      · subst e; simp only [upd_same] at hc; exact Or.inl hc
      · rw [upd_other _ _ _ _ e] at hc; exact Or.inl hc
  split
  · exact inv_sigStop _ step2
  · exact step2

theorem inv_dispatchN {s : S} (sc : Script) (n L : Nat) (hi : Inv s) : Inv (dispatchN sc n s L) := by
  induction n generalizing s with
  | zero => exact hi
  | succ n ih =>
    unfold dispatchN
    split
    · exact hi
    · apply ih; apply inv_dispatchMsg
      exact inv_frame hi rfl rfl rfl (fun _ => rfl) (fun _ h => Or.inl h)

theorem inv_finishClose {s : S} (h : Nat) (hi : Inv s) : Inv (finishClose s h) := by
  unfold finishClose
  simp only
  split
  · exact inv_frame hi rfl rfl rfl (fun _ => rfl) (fun _ h => Or.inl h)
  · refine inv_frame hi rfl rfl rfl ?_ ?_
    · intro h'; simp only; by_cases e : h' = h
      · subst e; simp [keyOf]
      · rw [upd_other _ _ _ _ e]
    · intro h' hc; simp only at hc; by_cases e : h' = h
      · subst e; simp only [upd_same] at hc; exact Or.inl hc
      · rw [upd_other _ _ _ _ e] at hc; exact Or.inl hc

theorem inv_foldl_finishClose {s : S} (q : List Nat) (hi : Inv s) : Inv (q.foldl finishClose s) := by
  induction q generalizing s with
  | nil => exact hi
  | cons k ks ih => exact ih (inv_finishClose k hi)

theorem inv_runClosing {s : S} (L : Nat) (hi : Inv s) : Inv (runClosing s L) := by
  unfold runClosing
  apply inv_foldl_finishClose
  exact inv_frame hi rfl rfl rfl (fun _ => rfl) (fun _ h => Or.inl h)

theorem inv_step {s : S} (sc : Script) (e : Ev) (hi : Inv s) : Inv (step sc s e) := by
  cases e with
  | op o => exact inv_applyOp o hi
  | deliver sig => exact inv_deliver sig hi
  | dispatch L => exact inv_dispatchN sc _ L hi
  | runClosing L => exact inv_runClosing L hi
  | run L =>
    simp only [step, runLoop]; split
    · exact inv_runClosing L (inv_dispatchN sc _ L hi)
    · exact hi

theorem inv_runEvs {s : S} (sc : Script) (evs : List Ev) (hi : Inv s) : Inv (runEvs sc s evs) := by
  unfold runEvs
  induction evs generalizing s with
  | nil => exact hi
  | cons e es ih => exact ih (inv_step sc e hi)


/-! ### second invariant: pipe contents vs counters, closed handles, freshness -/

def cntFor (s : S) (L h : Nat) : Nat := (s.pipes L).countP (fun m => m.h = h)

/-- `d h` = messages for `h` already taken out of the pipe but not yet counted in `dispatched`
(non-zero only in the middle of `dispatchMsg`). -/
structure AuxG (d : Nat → Nat) (s : S) : Prop where
  own : ∀ L, ∀ m ∈ s.pipes L, (s.hs m.h).loop = L ∧ m.sig ≠ 0
  cnt : ∀ h, (s.hs h).caught = (s.hs h).dispatched + cntFor s (s.hs h).loop h + d h
  closedDone : ∀ h, (s.hs h).closed = true → cntFor s (s.hs h).loop h + d h = 0 ∧ (s.hs h).closing = true
  cq : ∀ L, ∀ h ∈ s.closingQ L, (s.hs h).closing = true
  fresh : s.stale = false →
    (∀ L, ∀ m ∈ s.pipes L, m.sig = (s.hs m.h).signum → m.gen = (s.hs m.h).gen) ∧
    (∀ h sig L mg hg, Cb.signal h sig L mg hg ∈ s.trace → mg = hg)

abbrev Aux (s : S) : Prop := AuxG (fun _ => 0) s

theorem aux_init (loopOf : Nat → Nat) : Aux (init loopOf) := by
  refine ⟨by simp [init], by simp [init, cntFor], by simp [init], by simp [init], by simp [init]⟩

theorem aux_frame {d : Nat → Nat} {s s' : S} (ha : AuxG d s) (hp : s'.pipes = s.pipes)
    (hf : ∀ j, (s'.hs j).loop = (s.hs j).loop ∧ (s'.hs j).caught = (s.hs j).caught ∧
      (s'.hs j).dispatched = (s.hs j).dispatched ∧ (s'.hs j).closed = (s.hs j).closed ∧
      ((s.hs j).closing = true → (s'.hs j).closing = true))
    (hcq : ∀ L, ∀ h ∈ s'.closingQ L, (s'.hs h).closing = true)
    (hfr : s'.stale = false →
      (∀ L, ∀ m ∈ s.pipes L, m.sig = (s'.hs m.h).signum → m.gen = (s'.hs m.h).gen) ∧
      (∀ h sig L mg hg, Cb.signal h sig L mg hg ∈ s'.trace → mg = hg)) : AuxG d s' := by
  refine ⟨?_, ?_, ?_, hcq, ?_⟩
  · intro L m hm; rw [hp] at hm; rw [(hf m.h).1]; exact ha.own L m hm
  · intro h; obtain ⟨h1, h2, h3, _, _⟩ := hf h
    unfold cntFor; rw [hp, h1, h2, h3]; exact ha.cnt h
  · intro h hc; obtain ⟨h1, _, _, h4, h5⟩ := hf h
    rw [h4] at hc; have := ha.closedDone h hc
    unfold cntFor at this ⊢; rw [hp, h1]; exact ⟨this.1, h5 this.2⟩
  · intro hs; rw [hp]; exact hfr hs

theorem sigStop_hs {s : S} {h : Nat} (e : (s.hs h).signum ≠ 0) :
    (sigStop s h).hs = upd s.hs h { s.hs h with signum := 0 } := by
  simp only [sigStop, e, ↓reduceIte]; split <;> (try split) <;> rfl

theorem sigStop_fields (s : S) (h : Nat) :
    (sigStop s h).trace = s.trace ∧ (sigStop s h).pipes = s.pipes ∧ (sigStop s h).ncb = s.ncb ∧
    (sigStop s h).closingQ = s.closingQ ∧ (sigStop s h).stale = s.stale := by
  unfold sigStop; simp only
  split
  · exact ⟨rfl, rfl, rfl, rfl, rfl⟩
  · split <;> (try split) <;> exact ⟨rfl, rfl, rfl, rfl, rfl⟩

theorem aux_sigStop {d : Nat → Nat} {s : S} (h : Nat) (ha : AuxG d s) : AuxG d (sigStop s h) := by
  by_cases e : (s.hs h).signum = 0
  · rw [sigStop_noop e]; exact ha
  obtain ⟨ft, fp, _, fq, fs⟩ := sigStop_fields s h
  have hhs := sigStop_hs e
  have hj : ∀ j, (sigStop s h).hs j = if j = h then { s.hs h with signum := 0 } else s.hs j := by
    intro j; rw [hhs]; rfl
  refine aux_frame ha fp ?_ ?_ ?_
  · intro j; rw [hj]; split
    · rename_i e; subst e; simp
    · simp
  · intro L k hk; rw [fq] at hk; rw [hj]; split
    · rename_i e; subst e; exact ha.cq L k hk
    · exact ha.cq L k hk
  · intro hst; rw [fs] at hst; obtain ⟨f1, f2⟩ := ha.fresh hst
    refine ⟨?_, by rw [ft]; exact f2⟩
    intro L m hm; rw [hj]; split
    · intro e2; exact absurd e2 (ha.own L m hm).2
    · exact f1 L m hm

theorem aux_insert {d : Nat → Nat} {s : S} (ha : AuxG d s) (h sig : Nat) (os : Bool) (cb : Nat)
    (tr : List Key) (d' : Nat → Disp) (dl' : Nat → Bool) :
    AuxG d { s with hs := upd s.hs h { s.hs h with signum := sig, oneshot := os, gen := (s.hs h).gen + 1, cb := cb },
                    tree := tr, disp := d', delivered := dl', stale := s.stale || pendingSame s h sig } := by
  refine aux_frame ha rfl ?_ ?_ ?_
  · intro j; simp only [upd_apply]; split
    · rename_i e; subst e; simp
    · simp
  · intro L k hk; simp only [upd_apply]; split
    · rename_i e; subst e; exact ha.cq L k hk
    · exact ha.cq L k hk
  · intro hst
    simp only [Bool.or_eq_false_iff] at hst
    obtain ⟨f1, f2⟩ := ha.fresh hst.1
    refine ⟨?_, f2⟩
    intro L m hm; simp only [upd_apply]; split
    · rename_i e; intro e2; exfalso
      have hl := (ha.own L m hm).1; rw [e] at hl
      have := hst.2; unfold pendingSame at this
      rw [hl] at this
      have := List.any_eq_false.1 this m hm
      simp [e, e2] at this
    · exact f1 L m hm

theorem sigStart_shape (s : S) (h sig : Nat) (os : Bool) (cb : Nat) :
    (sigStart s h sig os cb).1 = s ∨ (sigStart s h sig os cb).1 = setCb s h cb ∨
    (sigStart s h sig os cb).1 = sigStop s h ∨
    ∃ tr d' dl', (sigStart s h sig os cb).1 =
      { sigStop s h with
        hs := upd (sigStop s h).hs h { (sigStop s h).hs h with signum := sig, oneshot := os, gen := ((sigStop s h).hs h).gen + 1, cb := cb },
        tree := tr, disp := d', delivered := dl',
        stale := (sigStop s h).stale || pendingSame (sigStop s h) h sig } := by
  unfold sigStart
  split
  · exact Or.inl rfl
  split
  · exact Or.inr (Or.inl rfl)
  generalize sigStop s h = s1
  simp only
  cases hf : firstHandle s1.tree sig with
  | none =>
    simp only [Bool.true_and]; split
    · exact Or.inr (Or.inr (Or.inl rfl))
    · exact Or.inr (Or.inr (Or.inr ⟨_, _, _, rfl⟩))
  | some f =>
    simp only; split
    · exact Or.inr (Or.inr (Or.inl rfl))
    · split
      · exact Or.inr (Or.inr (Or.inr ⟨_, _, _, rfl⟩))
      · exact Or.inr (Or.inr (Or.inr ⟨_, _, _, rfl⟩))

theorem aux_setCb {d : Nat → Nat} {s : S} (h cb : Nat) (ha : AuxG d s) : AuxG d (setCb s h cb) := by
  unfold setCb
  refine aux_frame ha rfl ?_ ?_ ?_
  · intro j; simp only [upd_apply]; split
    · rename_i e; subst e; simp
    · simp
  · intro L k hk; simp only [upd_apply]; split
    · rename_i e; subst e; exact ha.cq L k hk
    · exact ha.cq L k hk
  · intro hst; obtain ⟨f1, f2⟩ := ha.fresh hst
    refine ⟨?_, f2⟩
    intro L m hm; simp only [upd_apply]; split
    · rename_i e; have := f1 L m hm; rw [e] at this; exact this
    · exact f1 L m hm

theorem aux_sigStart {d : Nat → Nat} {s : S} (h sig : Nat) (os : Bool) (cb : Nat) (ha : AuxG d s) :
    AuxG d (sigStart s h sig os cb).1 := by
  rcases sigStart_shape s h sig os cb with e | e | e | ⟨tr, d', dl', e⟩
  · rw [e]; exact ha
  · rw [e]; exact aux_setCb h cb ha
  · rw [e]; exact aux_sigStop h ha
  · rw [e]; exact aux_insert (aux_sigStop h ha) h sig os cb tr d' dl'

theorem aux_uvClose {d : Nat → Nat} {s : S} (h : Nat) (ha : AuxG d s) : AuxG d (uvClose s h) := by
  unfold uvClose
  have h1 := aux_sigStop h ha
  generalize sigStop s h = s1 at h1
  refine aux_frame h1 rfl ?_ ?_ ?_
  · intro j; simp only [upd_apply]; split
    · rename_i e; subst e; simp
    · simp
  · intro L k hk
    by_cases ek : k = h
    · subst ek; simp
    · simp only [upd_apply, ek, ↓reduceIte]
      simp only [upd_apply] at hk
      split at hk
      · rcases List.mem_cons.1 hk with e | hk
        · exact absurd e ek
        · exact h1.cq _ k hk
      · exact h1.cq L k hk
  · intro hst; obtain ⟨f1, f2⟩ := h1.fresh hst
    refine ⟨?_, f2⟩
    intro L m hm; simp only [upd_apply]; split
    · rename_i e; have := f1 L m hm; rw [e] at this; exact this
    · exact f1 L m hm

theorem aux_setRef {d : Nat → Nat} {s : S} (h : Nat) (r : Bool) (ha : AuxG d s) : AuxG d (setRef s h r) := by
  unfold setRef
  refine aux_frame ha rfl ?_ ?_ ?_
  · intro j; simp only [upd_apply]; split
    · rename_i e; subst e; simp
    · simp
  · intro L k hk; simp only [upd_apply]; split
    · rename_i e; subst e; exact ha.cq L k hk
    · exact ha.cq L k hk
  · intro hst; obtain ⟨f1, f2⟩ := ha.fresh hst
    refine ⟨?_, f2⟩
    intro L m hm; simp only [upd_apply]; split
    · rename_i e; have := f1 L m hm; rw [e] at this; exact this
    · exact f1 L m hm

theorem aux_applyOp {d : Nat → Nat} {s : S} (o : Op) (ha : AuxG d s) : AuxG d (applyOp s o).1 := by
  cases o <;> simp only [applyOp] <;> split <;> (try exact ha)
  · exact aux_sigStart _ _ false _ ha
  · exact aux_sigStart _ _ true _ ha
  · exact aux_sigStop _ ha
  · exact aux_uvClose _ ha
  · exact aux_setRef _ _ ha
  · exact aux_setRef _ _ ha

theorem aux_runOps {d : Nat → Nat} {s : S} (os : List Op) (ha : AuxG d s) : AuxG d (runOps s os) := by
  induction os generalizing s with
  | nil => exact ha
  | cons o os ih => exact ih (aux_applyOp o ha)


/-! enqueue / deliver -/

theorem countP_append_single (l : List Msg) (x : Msg) (p : Msg → Bool) :
    (l ++ [x]).countP p = l.countP p + (if p x then 1 else 0) := by
  simp [List.countP_append, List.countP_cons]

theorem aux_enqueue {s : S} (sig : Nat) (k : Key) (ha : Aux s) (hsig : sig ≠ 0)
    (hncl : (s.hs k.id).closed = false) : Aux (enqueue sig s k) := by
  have hj : ∀ j, (enqueue sig s k).hs j = if j = k.id then { s.hs k.id with caught := (s.hs k.id).caught + 1 } else s.hs j := by
    intro j; rfl
  have hloop : ∀ j, ((enqueue sig s k).hs j).loop = (s.hs j).loop := by
    intro j; rw [hj]; split
    · rename_i e; rw [e]
    · rfl
  have hpipe : ∀ L, (enqueue sig s k).pipes L =
      if L = (s.hs k.id).loop then s.pipes L ++ [⟨k.id, sig, (s.hs k.id).gen⟩] else s.pipes L := by
    intro L; simp only [enqueue, upd_apply]; split
    · rename_i e; rw [e]
    · rfl
  refine ⟨?_, ?_, ?_, ?_, ?_⟩
  · intro L m hm; rw [hloop]; rw [hpipe] at hm
    by_cases eL : L = (s.hs k.id).loop
    · subst eL
      simp only [↓reduceIte] at hm
      rcases List.mem_append.1 hm with hm | hm
      · exact ha.own _ m hm
      · simp only [List.mem_singleton] at hm; subst hm; exact ⟨rfl, hsig⟩
    · simp only [eL, ↓reduceIte] at hm; exact ha.own L m hm
  · intro j
    have hc := ha.cnt j
    unfold cntFor at hc ⊢
    rw [hloop, hpipe, hj]
    by_cases ej : j = k.id
    · subst ej; simp only [↓reduceIte, countP_append_single, decide_true]; omega
    · simp only [ej, ↓reduceIte]
      split
      · rw [countP_append_single]
        have : ¬ (k.id = j) := fun e => ej e.symm
        simp only [this, decide_false, Bool.false_eq_true, ↓reduceIte]; omega
      · exact hc
  · intro j hc
    have ej : j ≠ k.id := by
      intro e; subst e; rw [hj] at hc; simp [hncl] at hc
    rw [hj] at hc ⊢; simp only [ej, ↓reduceIte] at hc ⊢
    have := ha.closedDone j hc
    unfold cntFor at this ⊢
    rw [hpipe]; split
    · rw [countP_append_single]
      have : ¬ (k.id = j) := fun e => ej e.symm
      simp only [this, decide_false, Bool.false_eq_true, ↓reduceIte]; assumption
    · exact this
  · intro L j hq; rw [hj]; split
    · rename_i e; subst e; exact ha.cq L _ hq
    · exact ha.cq L j hq
  · intro hst; obtain ⟨f1, f2⟩ := ha.fresh hst
    refine ⟨?_, f2⟩
    intro L m hm
    have hsg : ∀ j, ((enqueue sig s k).hs j).signum = (s.hs j).signum ∧ ((enqueue sig s k).hs j).gen = (s.hs j).gen := by
      intro j; rw [hj]; split
      · rename_i e; rw [e]; exact ⟨rfl, rfl⟩
      · exact ⟨rfl, rfl⟩
    rw [(hsg m.h).1, (hsg m.h).2]
    rw [hpipe] at hm; split at hm
    · rcases List.mem_append.1 hm with hm | hm
      · exact f1 L m hm
      · simp only [List.mem_singleton] at hm; subst hm; intro _; rfl
    · exact f1 L m hm

theorem aux_foldl_enqueue {s : S} (sig : Nat) (ks : List Key) (ha : Aux s)
    (hk : ∀ k ∈ ks, sig ≠ 0 ∧ (s.hs k.id).closed = false) : Aux (ks.foldl (enqueueCap sig) s) := by
  induction ks generalizing s with
  | nil => exact ha
  | cons k ks ih =>
    have hk0 := hk k (by simp)
    have hstep : Aux (enqueueCap sig s k) := by
      unfold enqueueCap; split
      · exact ha
      · exact aux_enqueue sig k ha hk0.1 hk0.2
    refine ih hstep ?_
    intro k' hk'
    have := hk k' (by simp [hk'])
    refine ⟨this.1, ?_⟩
    show ((enqueueCap sig s k).hs k'.id).closed = false
    unfold enqueueCap; split
    · exact this.2
    · simp only [enqueue, upd_apply]; split
      · rename_i e; rw [← e]; exact this.2
      · exact this.2

theorem aux_deliver {s : S} (sig : Nat) (hi : Inv s) (ha : Aux s) : Aux (deliver s sig) := by
  unfold deliver
  split
  · exact ha
  rename_i reset hd
  have hsub : ∀ k ∈ handlerTargets s.tree sig, sig ≠ 0 ∧ (s.hs k.id).closed = false := by
    intro k hk; rw [handlerTargets_eq_filter sig hi.sorted] at hk
    simp only [List.mem_filter, decide_eq_true_eq] at hk
    have hkey := hi.key k hk.1
    have hsg : (s.hs k.id).signum ≠ 0 := by
      have := hkey.2; rw [hkey.1] at this; simpa [keyOf] using this
    refine ⟨by rw [← hk.2]; exact hkey.2, ?_⟩
    cases hc : (s.hs k.id).closed
    · rfl
    · exact absurd (hi.closing k.id (ha.closedDone k.id hc).2) hsg
  cases reset
  · simp only [Bool.false_eq_true, ↓reduceIte]
    refine aux_foldl_enqueue sig _ ?_ hsub
    exact aux_frame ha rfl (fun _ => ⟨rfl, rfl, rfl, rfl, id⟩) ha.cq ha.fresh
  · simp only [↓reduceIte]
    refine aux_foldl_enqueue sig _ ?_ hsub
    exact aux_frame ha rfl (fun _ => ⟨rfl, rfl, rfl, rfl, id⟩) ha.cq ha.fresh


/-! dispatch -/

def debt (h : Nat) : Nat → Nat := fun j => if j = h then 1 else 0

theorem aux_pop {s : S} {L : Nat} {m : Msg} {rest : List Msg} (ha : Aux s) (hp : s.pipes L = m :: rest) :
    AuxG (debt m.h) { s with pipes := upd s.pipes L rest } := by
  have hown := ha.own L m (by rw [hp]; simp)
  have hpipe : ∀ L', ({ s with pipes := upd s.pipes L rest } : S).pipes L' = if L' = L then rest else s.pipes L' := fun _ => rfl
  have hsub : ∀ L' x, x ∈ ({ s with pipes := upd s.pipes L rest } : S).pipes L' → x ∈ s.pipes L' := by
    intro L' x hx; rw [hpipe] at hx; split at hx
    · rename_i e; rw [e, hp]; simp [hx]
    · exact hx
  have hcount : ∀ j, cntFor { s with pipes := upd s.pipes L rest } (s.hs j).loop j + debt m.h j = cntFor s (s.hs j).loop j := by
    intro j; unfold cntFor debt; rw [hpipe]
    by_cases eL : (s.hs j).loop = L
    · simp only [eL, ↓reduceIte, hp, List.countP_cons, decide_eq_true_eq]
      by_cases ej : j = m.h
      · subst ej; simp
      · have : ¬ m.h = j := fun e => ej e.symm
        simp [ej, this]
    · simp only [eL, ↓reduceIte]
      have : j ≠ m.h := by intro e; subst e; exact eL hown.1
      simp [this]
  refine ⟨?_, ?_, ?_, ha.cq, ?_⟩
  · intro L' x hx; exact ha.own L' x (hsub L' x hx)
  · intro j; have := ha.cnt j; have := hcount j; simp only at *; omega
  · intro j hc; have h1 := ha.closedDone j hc; have h2 := hcount j; simp only at *; exact ⟨by omega, h1.2⟩
  · intro hst; obtain ⟨f1, f2⟩ := ha.fresh hst
    exact ⟨fun L' x hx => f1 L' x (hsub L' x hx), f2⟩

theorem aux_pay {s : S} {h : Nat} (ha : AuxG (debt h) s) :
    Aux { s with hs := upd s.hs h { s.hs h with dispatched := (s.hs h).dispatched + 1 } } := by
  have hj : ∀ j, ({ s with hs := upd s.hs h { s.hs h with dispatched := (s.hs h).dispatched + 1 } } : S).hs j =
      if j = h then { s.hs h with dispatched := (s.hs h).dispatched + 1 } else s.hs j := fun _ => rfl
  refine ⟨?_, ?_, ?_, ?_, ?_⟩
  · intro L m hm; rw [hj]; split
    · rename_i e; have := ha.own L m hm; rw [e] at this; exact this
    · exact ha.own L m hm
  · intro j; have := ha.cnt j; unfold cntFor debt at *; rw [hj]
    by_cases e : j = h
    · subst e; simp only [↓reduceIte] at this ⊢; omega
    · simp only [e, ↓reduceIte] at this ⊢; omega
  · intro j hc; rw [hj] at hc ⊢; unfold cntFor debt at *
    by_cases e : j = h
    · subst e; simp only [↓reduceIte] at hc ⊢
      have := ha.closedDone j hc; simp at this
    · simp only [e, ↓reduceIte] at hc ⊢
      have := ha.closedDone j hc; simp only [e, ↓reduceIte] at this; exact this
  · intro L j hq; rw [hj]; split
    · rename_i e; subst e; exact ha.cq L _ hq
    · exact ha.cq L j hq
  · intro hst; obtain ⟨f1, f2⟩ := ha.fresh hst
    refine ⟨?_, f2⟩
    intro L m hm; rw [hj]; split
    · rename_i e; have := f1 L m hm; rw [e] at this; exact this
    · exact f1 L m hm

theorem aux_dispatchStep {s : S} (sc : Script) {L : Nat} {m : Msg} {rest : List Msg} (ha : Aux s)
    (hp : s.pipes L = m :: rest) : Aux (dispatchMsg sc { s with pipes := upd s.pipes L rest } L m) := by
  have hpop := aux_pop ha hp
  have hmfresh : s.stale = false → m.sig = (s.hs m.h).signum → m.gen = (s.hs m.h).gen :=
    fun hst => (ha.fresh hst).1 L m (by rw [hp]; simp)
  unfold dispatchMsg
  simp only
  have step1 : AuxG (debt m.h) (if m.sig = (s.hs m.h).signum then
      runOps { s with pipes := upd s.pipes L rest, trace := .signal m.h m.sig L m.gen (s.hs m.h).gen :: s.trace, ncb := s.ncb + 1, cbLog := (s.hs m.h).cb :: s.cbLog } (sc s.ncb)
    else { s with pipes := upd s.pipes L rest }) := by
    split
    · rename_i hm
      apply aux_runOps
      refine aux_frame hpop rfl (fun _ => ⟨rfl, rfl, rfl, rfl, id⟩) hpop.cq ?_
      intro hst; obtain ⟨f1, f2⟩ := hpop.fresh hst
      refine ⟨f1, ?_⟩
      intro h sig L' mg hg hin
      rcases List.mem_cons.1 hin with e | hin
      · simp only [Cb.signal.injEq] at e; obtain ⟨_, _, _, rfl, rfl⟩ := e; exact hmfresh hst hm
      · exact f2 h sig L' mg hg hin
    · exact hpop
  generalize (if m.sig = (s.hs m.h).signum then
      runOps { s with pipes := upd s.pipes L rest, trace := .signal m.h m.sig L m.gen (s.hs m.h).gen :: s.trace, ncb := s.ncb + 1, cbLog := (s.hs m.h).cb :: s.cbLog } (sc s.ncb)
    else { s with pipes := upd s.pipes L rest }) = s1 at step1
  have step2 := aux_pay step1
  split
  · exact aux_sigStop _ step2
  · exact step2

theorem aux_dispatchN {s : S} (sc : Script) (n L : Nat) (ha : Aux s) : Aux (dispatchN sc n s L) := by
  induction n generalizing s with
  | zero => exact ha
  | succ n ih =>
    unfold dispatchN
    split
    · exact ha
    · rename_i m rest hp; exact ih (aux_dispatchStep sc ha hp)

/-! closing -/

theorem aux_finishClose {s : S} (h : Nat) (ha : Aux s) (hc : (s.hs h).closing = true) : Aux (finishClose s h) := by
  unfold finishClose
  simp only
  split
  · refine aux_frame ha rfl (fun _ => ⟨rfl, rfl, rfl, rfl, id⟩) ?_ ha.fresh
    intro L k hk; simp only [upd_apply] at hk; split at hk
    · rcases List.mem_cons.1 hk with e | hk
      · rw [e]; exact hc
      · exact ha.cq _ k hk
    · exact ha.cq L k hk
  · rename_i hle
    have hj : ∀ j, ({ s with hs := upd s.hs h { s.hs h with closed := true }, trace := Cb.close h :: s.trace } : S).hs j =
        if j = h then { s.hs h with closed := true } else s.hs j := fun _ => rfl
    have hcnt := ha.cnt h
    refine ⟨?_, ?_, ?_, ?_, ?_⟩
    · intro L m hm; rw [hj]; split
      · rename_i e; have := ha.own L m hm; rw [e] at this; exact this
      · exact ha.own L m hm
    · intro j; have := ha.cnt j; unfold cntFor at *; rw [hj]; split
      · rename_i e; subst e; exact this
      · exact this
    · intro j hcl; rw [hj] at hcl ⊢; unfold cntFor at *
      by_cases e : j = h
      · subst e; simp only [↓reduceIte]; exact ⟨by omega, hc⟩
      · simp only [e, ↓reduceIte] at hcl ⊢; exact ha.closedDone j hcl
    · intro L j hq; rw [hj]; split
      · rename_i e; subst e; exact hc
      · exact ha.cq L j hq
    · intro hst; obtain ⟨f1, f2⟩ := ha.fresh hst
      refine ⟨?_, ?_⟩
      · intro L m hm; rw [hj]; split
        · rename_i e; have := f1 L m hm; rw [e] at this; exact this
        · exact f1 L m hm
      · intro h' sig L mg hg hin
        rcases List.mem_cons.1 hin with e | hin
        · cases e
        · exact f2 h' sig L mg hg hin

theorem finishClose_closing (s : S) (h j : Nat) : (s.hs j).closing = true → ((finishClose s h).hs j).closing = true := by
  intro hc; unfold finishClose; simp only; split
  · exact hc
  · simp only [upd_apply]; split
    · rename_i e; rw [e] at hc; exact hc
    · exact hc

theorem aux_foldl_finishClose {s : S} (q : List Nat) (ha : Aux s) (hq : ∀ h ∈ q, (s.hs h).closing = true) :
    Aux (q.foldl finishClose s) := by
  induction q generalizing s with
  | nil => exact ha
  | cons k ks ih =>
    refine ih (aux_finishClose k ha (hq k (by simp))) ?_
    intro h hh; exact finishClose_closing s k h (hq h (by simp [hh]))

theorem aux_runClosing {s : S} (L : Nat) (ha : Aux s) : Aux (runClosing s L) := by
  unfold runClosing
  refine aux_foldl_finishClose _ ?_ (fun h hh => ha.cq L h hh)
  refine aux_frame ha rfl (fun _ => ⟨rfl, rfl, rfl, rfl, id⟩) ?_ ha.fresh
  intro L' k hk; simp only [upd_apply] at hk; split at hk
  · simp at hk
  · exact ha.cq L' k hk

theorem aux_step {s : S} (sc : Script) (e : Ev) (hi : Inv s) (ha : Aux s) : Aux (step sc s e) := by
  cases e with
  | op o => exact aux_applyOp o ha
  | deliver sig => exact aux_deliver sig hi ha
  | dispatch L => exact aux_dispatchN sc _ L ha
  | runClosing L => exact aux_runClosing L ha
  | run L =>
    simp only [step, runLoop]; split
    · exact aux_runClosing L (aux_dispatchN sc _ L ha)
    · exact ha

theorem aux_runEvs {s : S} (sc : Script) (evs : List Ev) (hi : Inv s) (ha : Aux s) : Aux (runEvs sc s evs) := by
  unfold runEvs
  induction evs generalizing s with
  | nil => exact ha
  | cons e es ih => exact ih (inv_step sc e hi) (aux_step sc e hi ha)


/-! counting lemmas for the end-to-end `fanout` statement -/

theorem enqueue_hs_other (sig : Nat) (s : S) (k : Key) (j : Nat) :
    ((enqueue sig s k).hs j).loop = (s.hs j).loop ∧ ((enqueue sig s k).hs j).gen = (s.hs j).gen ∧
    ((enqueue sig s k).hs j).signum = (s.hs j).signum ∧
    ((enqueue sig s k).hs j).caught = (s.hs j).caught + (if k.id = j then 1 else 0) := by
  simp only [enqueue, upd_apply]
  by_cases e : j = k.id
  · subst e; simp
  · have : ¬ k.id = j := fun e2 => e e2.symm
    simp [e, this]

theorem foldl_enqueue_caught (sig : Nat) (ks : List Key) (s : S) (j : Nat) :
    ((ks.foldl (enqueue sig) s).hs j).caught = (s.hs j).caught + ks.countP (fun k => k.id = j) := by
  induction ks generalizing s with
  | nil => simp
  | cons k ks ih =>
    simp only [List.foldl_cons, List.countP_cons, decide_eq_true_eq]
    rw [ih, (enqueue_hs_other sig s k j).2.2.2]; omega

theorem foldl_enqueue_pipes (sig : Nat) (ks : List Key) (s : S) (L : Nat) :
    (ks.foldl (enqueue sig) s).pipes L =
      s.pipes L ++ (ks.filter (fun k => (s.hs k.id).loop = L)).map (fun k => ⟨k.id, sig, (s.hs k.id).gen⟩) := by
  induction ks generalizing s with
  | nil => simp
  | cons k ks ih =>
    simp only [List.foldl_cons]
    rw [ih]
    have h1 : (fun k' : Key => decide (((enqueue sig s k).hs k'.id).loop = L)) = (fun k' : Key => decide ((s.hs k'.id).loop = L)) := by
      funext k'; rw [(enqueue_hs_other sig s k k'.id).1]
    have h2 : (fun k' : Key => (⟨k'.id, sig, ((enqueue sig s k).hs k'.id).gen⟩ : Msg)) = (fun k' : Key => ⟨k'.id, sig, (s.hs k'.id).gen⟩) := by
      funext k'; rw [(enqueue_hs_other sig s k k'.id).2.1]
    rw [h1, h2]
    have hp : (enqueue sig s k).pipes L = if L = (s.hs k.id).loop then s.pipes L ++ [⟨k.id, sig, (s.hs k.id).gen⟩] else s.pipes L := by
      simp only [enqueue, upd_apply]; split
      · rename_i e; rw [e]
      · rfl
    rw [hp, List.filter_cons]
    by_cases e : (s.hs k.id).loop = L
    · simp [e]
    · have : ¬ L = (s.hs k.id).loop := fun e2 => e e2.symm
      simp [e, this]

theorem enqueue_pipe_length (sig : Nat) (s : S) (k : Key) (L : Nat) :
    ((enqueue sig s k).pipes L).length ≤ (s.pipes L).length + 1 := by
  simp only [enqueue, upd_apply]; split
  · rename_i e; subst e; simp
  · simp

/-- inside the property's envelope (room for one message per visited node in every pipe) the handler
never sees EAGAIN -/
theorem foldl_enqueueCap_eq (sig : Nat) (ks : List Key) (s : S)
    (hroom : ∀ L, (s.pipes L).length + ks.length ≤ pipeCap) :
    ks.foldl (enqueueCap sig) s = ks.foldl (enqueue sig) s := by
  induction ks generalizing s with
  | nil => rfl
  | cons k ks ih =>
    have h1 : enqueueCap sig s k = enqueue sig s k := by
      unfold enqueueCap
      have := hroom (s.hs k.id).loop
      simp only [List.length_cons] at this
      rw [if_neg (by omega)]
    simp only [List.foldl_cons, h1]
    apply ih
    intro L
    have := hroom L; simp only [List.length_cons] at this
    have := enqueue_pipe_length sig s k L
    omega

theorem countP_id_nodup (l : List Key) (hn : l.Nodup) (a : Key) (h : Nat) (ha : a.id = h)
    (huniq : ∀ k ∈ l, k.id = h → k = a) : l.countP (fun k => k.id = h) = if a ∈ l then 1 else 0 := by
  induction l with
  | nil => simp
  | cons x xs ih =>
    have hx := List.nodup_cons.1 hn
    have ih' := ih hx.2 (fun k hk => huniq k (by simp [hk]))
    rw [List.countP_cons, ih']
    by_cases e : x.id = h
    · have : x = a := huniq x (by simp) e
      subst this
      simp [e, hx.1]
    · have : ¬ a = x := by intro e2; subst e2; exact e ha
      simp [e, this]

end UvModel.Signal
