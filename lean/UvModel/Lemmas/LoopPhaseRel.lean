import UvModel.Lemmas.LoopClose
/-!
  A generic induction principle over the loop model: a relation respected by the primitive steps
  (`PhaseRel0` / `PhaseRel`) is respected by every callback, phase, `uv_run` and whole program, given the
  closing phase.  Used for the close-protocol invariants of C02.
-/
namespace UvModel.Loop
open UvModel.HandleKernels

/-- a relation between states that every step of the loop outside `uv__run_closing_handles` respects -/
structure PhaseRel0 (R : State → State → Prop) : Prop where
  refl : ∀ s, R s s
  trans : ∀ {a b c}, R a b → R b c → R a c
  keep : ∀ {s s'}, Keep s s' → s'.trace = s.trace → R s s'
  emit : ∀ s e, (∀ ph k i a b, e ≠ Event.cb ph k i a b) → R s (emit s e)
  stepOp : ∀ s o, R s (stepOp s o)
  cbH : ∀ s ph k i a b, i ∈ hids s → k ≠ CbKind.close → R s (Loop.emit s (.cb ph k i a b))
  cbR : ∀ s ph k r a b, (k = CbKind.work ∨ k = .udpSend ∨ k = .connect) → R s (Loop.emit s (.cb ph k r a b))

/-- … and also the simulator's "environment stopped answering" marker -/
structure PhaseRel (R : State → State → Prop) : Prop extends PhaseRel0 R where
  halt : ∀ s, R s { s with halted := true }

theorem trOf {s s' : State} (h : tr s' = tr s) : s'.trace = s.trace := congrArg Prod.fst h

theorem clTrace_completeWorks (s : State) (k : Nat) : (completeWorks s k).trace = s.trace := by
  unfold completeWorks; split; · rfl
  simp only; exact (trOf (tr_asyncSend _ _)).trans rfl
theorem clTrace_flushWatchers (s : State) : (flushWatchers s).trace = s.trace := by
  unfold flushWatchers
  have : ∀ (l : List W) (s : State), (l.foldl (fun s w => let io := getIo s w; setIo s w { io with events := io.pevents }) s).trace = s.trace := by
    intro l; induction l with
    | nil => intro s; rfl
    | cons w t ih => intro s; simp only [List.foldl]; rw [ih]; exact trOf (tr_setIo _ _ _)
  exact Eq.trans rfl (this s.watcherQ s)

namespace PhaseRel0
variable {R : State → State → Prop} (P : PhaseRel0 R)
include P

theorem frame {s s' : State} (h : kp s' = kp s) (ht : s'.trace = s.trace) : R s s' := P.keep (KeepQ.of_kp h).1 ht
theorem after {a b b' : State} (h : R a b) (hk : kp b' = kp b) (ht : b'.trace = b.trace) : R a b' :=
  P.trans h (P.frame hk ht)

theorem emitObs' (s : State) : R s (emitObs s) := P.emit _ _ (fun _ _ _ _ _ h => by cases h)

theorem foldl_stepOp (ops : List Op) (s : State) : R s (ops.foldl Loop.stepOp s) := by
  induction ops generalizing s with
  | nil => exact P.refl _
  | cons o t ih => exact P.trans (P.stepOp s o) (ih _)

def CbSite (s : State) (k : CbKind) (i : Nat) : Prop := (i ∈ hids s ∧ k ≠ .close) ∨ k = .work ∨ k = .udpSend ∨ k = .connect

theorem runCb {s : State} {k : CbKind} {i : Nat} (hs : CbSite s k i) (sc : Script) (ph : Phase) (key : CbKey) (a b : Int) (occ : Nat) :
    R s (Loop.runCb sc ph k key i a b occ s) := by
  unfold Loop.runCb
  simp only
  refine P.trans ?_ (P.emitObs' _)
  refine P.trans ?_ (P.emit _ _ (fun _ _ _ _ _ h => by cases h))
  refine P.trans ?_ (P.foldl_stepOp _ _)
  refine P.trans ?_ (P.emitObs' _)
  refine P.trans (b := { s with ncbTotal := s.ncbTotal + 1 }) (P.frame rfl rfl) ?_
  rcases hs with h | h
  · exact P.cbH _ _ _ _ _ _ h.1 h.2
  · exact P.cbR _ _ _ _ _ _ h

theorem runHandleCb (sc : Script) (ph : Phase) (k : CbKind) (hk : k ≠ .close) (id : Nat) (a b : Int) (s : State) :
    R s (Loop.runHandleCb sc ph k id a b s) := by
  unfold Loop.runHandleCb
  split
  · exact P.refl _
  · rename_i h hg
    simp only
    refine P.trans (P.keep (keepN_modH s id _ (by intro _; rfl)).1 rfl) (P.runCb ?_ _ _ _ _ _ _)
    exact Or.inl ⟨by rw [hids_modH _ _ _ (by intro _; rfl)]; exact getH_some_mem hg, hk⟩

theorem udpRunCompletedLoop (sc : Script) (ph : Phase) (id : Nat) (fuel : Nat) (s : State) :
    R s (Loop.udpRunCompletedLoop sc ph id fuel s) := by
  induction fuel generalizing s with
  | zero => exact P.refl _
  | succ n ih =>
    unfold Loop.udpRunCompletedLoop
    split
    · exact P.refl _
    · split
      · exact P.refl _
      · simp only
        refine P.trans ?_ (ih _)
        refine P.trans ?_ (P.runCb (Or.inr (Or.inr (Or.inl rfl))) _ _ _ _ _ _)
        refine P.after (b := modH s id _) ?_ rfl rfl
        exact P.keep (keepN_modH s id _ (by intro _; rfl)).1 rfl

theorem hStop' (s : State) (id : Nat) : R s (hStop s id) := P.keep (keepQ_hStop s id).1 rfl
theorem ioStop' (s : State) (w : W) (ev : Nat) : R s (ioStop s w ev) := P.frame (kp_ioStop _ _ _) (trOf (tr_ioStop _ _ _))
theorem modH' (s : State) (id : Nat) (g : Handle → Handle) (hg : ∀ h, (g h).id = h.id) : R s (modH s id g) :=
  P.keep (keepN_modH s id g hg).1 rfl

theorem udpRunCompleted (sc : Script) (ph : Phase) (id : Nat) (s : State) : R s (Loop.udpRunCompleted sc ph id s) := by
  unfold Loop.udpRunCompleted
  split
  · exact P.refl _
  · rename_i h0 _
    simp only
    have h1 := P.trans (P.modH' s id (fun h => { h with processing := true }) (by intro _; rfl))
      (P.udpRunCompletedLoop sc ph id (h0.wcq.length + 1) _)
    split
    · exact h1
    · refine P.trans h1 ?_
      refine P.trans ?_ (P.modH' _ id _ (by intro _; rfl))
      split
      · split
        · exact P.trans (P.ioStop' _ _ _) (P.hStop' _ _)
        · exact P.ioStop' _ _ _
      · exact P.refl _

theorem udpSendmsg' (s : State) (id : Nat) : R s (udpSendmsg s id) :=
  P.keep (keepN_udpSendmsg s id).1 (trOf (tr_udpSendmsg _ _))

theorem udpIo (sc : Script) (ph : Phase) (id ev : Nat) (s : State) : R s (Loop.udpIo sc ph id ev s) := by
  unfold Loop.udpIo
  split
  · exact P.refl _
  · split
    · exact P.trans (P.udpSendmsg' _ _) (P.udpRunCompleted _ _ _ _)
    · exact P.refl _

theorem udpFinishClose (sc : Script) (ph : Phase) (id : Nat) (s : State) : R s (Loop.udpFinishClose sc ph id s) := by
  unfold Loop.udpFinishClose
  exact P.trans (P.modH' s id _ (by intro _; rfl)) (P.udpRunCompleted _ _ _ _)

theorem streamIo (sc : Script) (ph : Phase) (id : Nat) (s : State) : R s (Loop.streamIo sc ph id s) := by
  unfold Loop.streamIo
  split
  · exact P.refl _
  · split
    · exact P.refl _
    · simp only
      refine P.trans ?_ (P.runCb (Or.inr (Or.inr (Or.inr rfl))) _ _ _ _ _ _)
      refine P.trans ?_ (P.ioStop' _ _ _)
      refine P.after (b := modH s id _) ?_ rfl rfl
      exact P.modH' s id _ (by intro _; rfl)

theorem streamDestroy (sc : Script) (id : Nat) (s : State) : R s (Loop.streamDestroy sc id s) := by
  unfold Loop.streamDestroy
  split
  · exact P.refl _
  · split
    · exact P.refl _
    · simp only
      refine P.trans ?_ (P.modH' _ id _ (by intro _; rfl))
      refine P.trans ?_ (P.runCb (Or.inr (Or.inr (Or.inr rfl))) _ _ _ _ _ _)
      exact P.frame rfl rfl

theorem pendingIo (sc : Script) (ph : Phase) (id : Nat) (s : State) : R s (Loop.pendingIo sc ph id s) := by
  unfold Loop.pendingIo
  split
  · exact P.refl _
  · split
    · exact P.udpIo _ _ _ _ _
    · exact P.streamIo _ _ _ _

theorem runPendingLoop (sc : Script) (ph : Phase) (fuel : Nat) (s : State) : R s (Loop.runPendingLoop sc ph fuel s) := by
  induction fuel generalizing s with
  | zero => exact P.refl _
  | succ n ih =>
    unfold Loop.runPendingLoop
    split
    · exact P.refl _
    · simp only
      refine P.trans ?_ (ih _)
      refine P.trans ?_ (P.pendingIo _ _ _ _)
      exact P.frame rfl rfl

theorem runPending (sc : Script) (ph : Phase) (s : State) : R s (Loop.runPending sc ph s) := by
  unfold Loop.runPending
  simp only
  refine P.trans ?_ (P.runPendingLoop _ _ _ _)
  exact P.frame rfl rfl

theorem setWList' (s : State) (k : WKind) (l : List Nat) : R s (setWList s k l) :=
  P.frame (kp_setWList _ _ _) (trOf (tr_setWList _ _ _))

theorem runWatchersLoop (sc : Script) (k : WKind) (fuel : Nat) (s : State) : R s (Loop.runWatchersLoop sc k fuel s) := by
  induction fuel generalizing s with
  | zero => exact P.refl _
  | succ n ih =>
    unfold Loop.runWatchersLoop
    split
    · exact P.refl _
    · simp only
      refine P.trans ?_ (ih _)
      refine P.trans ?_ (P.runHandleCb _ _ _ (by cases k <;> simp [wCb]) _ _ _ _)
      refine P.trans ?_ (P.setWList' _ _ _)
      exact P.frame rfl rfl

theorem runWatchers (sc : Script) (k : WKind) (s : State) : R s (Loop.runWatchers sc k s) := by
  unfold Loop.runWatchers
  simp only
  refine P.trans ?_ (P.runWatchersLoop _ _ _ _)
  refine P.trans ?_ (P.setWList' _ _ _)
  exact P.frame rfl rfl

theorem workDoneLoop (sc : Script) (fuel : Nat) (s : State) : R s (Loop.workDoneLoop sc fuel s) := by
  induction fuel generalizing s with
  | zero => exact P.refl _
  | succ n ih =>
    unfold Loop.workDoneLoop
    split
    · exact P.refl _
    · simp only
      refine P.trans ?_ (ih _)
      refine P.trans ?_ (P.runCb (Or.inr (Or.inl rfl)) _ _ _ _ _ _)
      exact P.frame rfl rfl

theorem workDone (sc : Script) (s : State) : R s (Loop.workDone sc s) := by
  unfold Loop.workDone
  simp only
  refine P.trans ?_ (P.workDoneLoop _ _ _)
  exact P.frame rfl rfl

theorem ringDone (sc : Script) (cq : List Nat) (s : State) : R s (Loop.ringDone sc cq s) := by
  unfold Loop.ringDone
  simp only
  refine P.trans ?_ (P.workDoneLoop _ _ _)
  exact P.frame (ringTake_frame kp (fun _ _ _ => rfl) s cq) (ringTake_frame (·.trace) (fun _ _ _ => rfl) s cq)

theorem asyncIoLoop (sc : Script) (fuel : Nat) (s : State) : R s (Loop.asyncIoLoop sc fuel s) := by
  induction fuel generalizing s with
  | zero => exact P.refl _
  | succ n ih =>
    unfold Loop.asyncIoLoop
    split
    · exact P.refl _
    · simp only
      split
      · refine P.trans ?_ (ih _)
        exact P.frame rfl rfl
      · split
        · refine P.trans ?_ (ih _)
          exact P.frame rfl rfl
        · refine P.trans ?_ (ih _)
          split
          · refine P.trans ?_ (P.workDone _ _)
            refine P.trans ?_ (P.modH' _ _ _ (by intro _; rfl))
            exact P.frame rfl rfl
          · refine P.trans ?_ (P.runHandleCb _ _ _ (by simp) _ _ _ _)
            refine P.trans ?_ (P.modH' _ _ _ (by intro _; rfl))
            exact P.frame rfl rfl

theorem asyncIo (sc : Script) (s : State) : R s (Loop.asyncIo sc s) := by
  unfold Loop.asyncIo
  simp only
  refine P.trans ?_ (P.asyncIoLoop _ _ _)
  exact P.frame rfl rfl

theorem pollIo (sc : Script) (id ev : Nat) (s : State) : R s (Loop.pollIo sc id ev s) := by
  unfold Loop.pollIo
  split
  · simp only
    refine P.trans ?_ (P.runHandleCb _ _ _ (by simp) _ _ _ _)
    exact P.trans (P.ioStop' _ _ _) (P.hStop' _ _)
  · exact P.runHandleCb _ _ _ (by simp) _ _ _ _

theorem dispatchLoop (sc : Script) (fuel : Nat) (s : State) (n : Nat) (sg : Bool) :
    R s (Loop.dispatchLoop sc fuel s n sg).1 := by
  induction fuel generalizing s n sg with
  | zero => exact P.refl _
  | succ m ih =>
    unfold Loop.dispatchLoop
    split
    · exact P.refl _
    · have h0 : ∀ b, R s { s with batch := b } := fun b => P.frame rfl rfl
      simp only
      split
      · exact P.trans (h0 _) (ih _ _ _)
      · split
        · exact P.trans (h0 _) (ih _ _ _)
        · exact P.trans (h0 _) (ih _ _ _)
      · split
        · exact P.trans (h0 _) (ih _ _ _)
        · exact P.trans (h0 _) (ih _ _ _)
      · split
        · exact P.trans (h0 _) (ih _ _ _)
        · exact P.trans (P.trans (h0 _) (P.asyncIo _ _)) (ih _ _ _)
      · split
        · exact P.trans (h0 _) (ih _ _ _)
        · split
          · exact P.trans (h0 _) (ih _ _ _)
          · refine P.trans ?_ (ih _ _ _)
            split
            · exact P.trans (h0 _) (P.pollIo _ _ _ _)
            · exact P.trans (h0 _) (P.udpIo _ _ _ _ _)
            · exact h0 _
      · split
        · exact P.trans (P.trans (h0 _) (P.ringDone _ _ _)) (ih _ _ _)
        · exact P.trans (h0 _) (ih _ _ _)

end PhaseRel0

namespace PhaseRel
variable {R : State → State → Prop} (P : PhaseRel R)
include P

theorem pollLoop (sc : Script) (fuel : Nat) (s : State) (c : PollCtl) : R s (Loop.pollLoop sc fuel s c) := by
  induction fuel generalizing s c with
  | zero => exact P.refl _
  | succ m ih =>
    unfold Loop.pollLoop
    split
    · exact P.halt _
    · rename_i r rest _
      have h1 : ∀ e, (∀ ph k i a b, e ≠ Event.cb ph k i a b) →
          R s (Loop.emit { completeWorks { s with oracle := rest } r.done with clock := r.clock } e) := by
        intro e he
        refine P.trans ?_ (P.emit _ _ he)
        refine P.after (b := completeWorks { s with oracle := rest } r.done) ?_ rfl rfl
        refine P.trans (b := { s with oracle := rest }) (P.frame rfl rfl) ?_
        exact P.frame (kp_completeWorks _ _) (clTrace_completeWorks _ _)
      have h2 : ∀ e, (∀ ph k i a b, e ≠ Event.cb ph k i a b) →
          R s (updateTime (Loop.emit { completeWorks { s with oracle := rest } r.done with clock := r.clock } e)) :=
        fun e he => P.after (h1 e he) rfl rfl
      simp only
      split
      · exact P.trans (h1 _ (fun _ _ _ _ _ h => by cases h)) (P.halt _)
      · split
        · split
          · split
            · exact h2 _ (fun _ _ _ _ _ h => by cases h)
            · exact P.trans (h2 _ (fun _ _ _ _ _ h => by cases h)) (ih _ _)
          · split
            · exact h2 _ (fun _ _ _ _ _ h => by cases h)
            · split
              · exact h2 _ (fun _ _ _ _ _ h => by cases h)
              · exact P.trans (h2 _ (fun _ _ _ _ _ h => by cases h)) (ih _ _)
        · generalize hd : Loop.dispatchLoop sc (r.batch.length + 1) _ 0 false = d
          have h3 : R s d.1 := by
            rw [← hd]
            refine P.trans ?_ (P.dispatchLoop _ _ _ _ _)
            exact P.after (h2 _ (fun _ _ _ _ _ h => by cases h)) rfl rfl
          have h5 : R s { d.1 with batch := [] } := P.after h3 rfl rfl
          repeat' split
          all_goals first | exact h5 | exact P.trans h5 (ih _ _)

theorem ioPoll (sc : Script) (s : State) (t : Int) : R s (Loop.ioPoll sc s t) := by
  unfold Loop.ioPoll
  simp only
  refine P.trans ?_ (P.pollLoop _ _ _ _)
  exact P.frame (kp_flushWatchers _) (clTrace_flushWatchers _)

theorem collectTimers (fuel : Nat) (s : State) : R s (Loop.collectTimers fuel s) := by
  induction fuel generalizing s with
  | zero => exact P.refl _
  | succ n ih =>
    unfold Loop.collectTimers
    split
    · exact P.refl _
    · split
      · exact P.refl _
      · simp only
        refine P.trans ?_ (ih _)
        refine P.after (b := timerStop s _) ?_ rfl rfl
        exact P.keep (keepQ_timerStop _ _).1 rfl

theorem fireTimers (sc : Script) (ph : Phase) (fuel : Nat) (s : State) : R s (Loop.fireTimers sc ph fuel s) := by
  induction fuel generalizing s with
  | zero => exact P.refl _
  | succ n ih =>
    unfold Loop.fireTimers
    split
    · exact P.refl _
    · rename_i id rest _
      simp only
      refine P.trans ?_ (ih _)
      refine P.trans ?_ (P.runHandleCb _ _ _ (by simp) _ _ _ _)
      refine P.trans (b := { s with tm := { s.tm with ready := rest } }) (P.frame rfl rfl) ?_
      exact P.keep (keepQ_timerAgain _ _).1 (trOf (tr_timerAgain _ _))

theorem runTimers (sc : Script) (ph : Phase) (s : State) : R s (Loop.runTimers sc ph s) := by
  unfold Loop.runTimers
  exact P.trans (P.collectTimers _ _) (P.fireTimers _ _ _ _)

theorem pendingRounds (sc : Script) (n : Nat) (s : State) : R s (Loop.pendingRounds sc n s) := by
  induction n generalizing s with
  | zero => exact P.refl _
  | succ m ih =>
    unfold Loop.pendingRounds
    split
    · exact P.refl _
    · exact P.trans (P.runPending _ _ _) (ih _)

/-! with the closing phase supplied -/
theorem iteration (hcl : ∀ sc s, R s (runClosing sc s)) (sc : Script) (mode : Mode) (s : State) :
    R s (Loop.iteration sc mode s) := by
  unfold Loop.iteration
  simp only
  refine P.trans ?_ (P.runTimers _ _ _)
  refine P.after (b := runClosing sc _) ?_ rfl rfl
  refine P.trans ?_ (hcl _ _)
  refine P.trans ?_ (P.runWatchers _ _ _)
  refine P.trans ?_ (P.pendingRounds _ _ _)
  refine P.trans ?_ (P.ioPoll _ _ _)
  refine P.after (b := Loop.runWatchers sc .prepare (Loop.runWatchers sc .idle (Loop.runPending sc .pending (Loop.emit s .iterBegin)))) ?_ rfl rfl
  refine P.trans ?_ (P.runWatchers _ _ _)
  refine P.trans ?_ (P.runWatchers _ _ _)
  refine P.trans ?_ (P.runPending _ _ _)
  exact P.emit _ _ (fun _ _ _ _ _ h => by cases h)

theorem runLoop (hcl : ∀ sc s, R s (runClosing sc s)) (sc : Script) (mode : Mode) (fuel : Nat) (s : State) (r : Bool) :
    ∀ s' r', Loop.runLoop sc mode fuel s r = some (s', r') → R s s' := by
  induction fuel generalizing s r with
  | zero => intro s' r' h; simp [Loop.runLoop] at h
  | succ n ih =>
    intro s' r' h
    unfold Loop.runLoop at h
    split at h
    · cases h; exact P.refl _
    · simp only at h
      split at h
      · cases h; exact P.iteration hcl _ _ _
      · exact P.trans (P.iteration hcl _ _ _) (ih _ _ _ _ h)

theorem uvRun (hcl : ∀ sc s, R s (runClosing sc s)) (sc : Script) (mode : Mode) (fuel : Nat) (s : State) :
    ∀ s' r, Loop.uvRun sc mode fuel s = some (s', r) → R s s' := by
  intro s' r h
  unfold Loop.uvRun at h
  simp only at h
  have h0 : R s (if !alive s then updateTime s else s) := by
    split
    · exact P.frame rfl rfl
    · exact P.refl _
  generalize (if !alive s then updateTime s else s) = s0 at h h0
  have h1 : R s (if initialTimers mode (alive s) s0.stop then Loop.runTimers sc .timers0 (updateTime s0) else s0) := by
    split
    · refine P.trans h0 (P.trans ?_ (P.runTimers _ _ _))
      exact P.frame rfl rfl
    · exact h0
  generalize (if initialTimers mode (alive s) s0.stop then Loop.runTimers sc .timers0 (updateTime s0) else s0) = s1 at h h1
  cases hr : Loop.runLoop sc mode fuel s1 (alive s) with
  | none => simp [hr] at h
  | some p =>
    simp only [hr, Option.some.injEq, Prod.mk.injEq] at h
    have := P.runLoop hcl sc mode fuel s1 (alive s) p.1 p.2 (by simp [hr])
    rw [← h.1]
    exact P.after (P.trans h1 this) rfl rfl

theorem stepMain (hcl : ∀ sc s, R s (runClosing sc s)) (sc : Script) (fuel : Nat) (s : State) (m : MainOp) :
    R s (Loop.stepMain sc fuel s m) := by
  cases m with
  | op o =>
    simp only [Loop.stepMain]
    split
    · exact P.refl _
    · exact P.stepOp _ _
  | run md =>
    simp only [Loop.stepMain]
    split
    · exact P.refl _
    · have hb : R s (Loop.emit s (.runBegin md)) := P.emit _ _ (fun _ _ _ _ _ h => by cases h)
      split
      · exact P.trans hb (P.halt _)
      · rename_i s' r heq
        refine P.trans ?_ (P.emitObs' _)
        refine P.trans ?_ (P.emit _ _ (fun _ _ _ _ _ h => by cases h))
        exact P.trans hb (P.uvRun hcl _ _ _ _ _ _ heq)
  | loopClose =>
    simp only [Loop.stepMain]
    split
    · exact P.refl _
    · have h1 : R s (Loop.loopClose s).1 := by
        unfold Loop.loopClose; split
        · exact P.refl _
        · exact P.frame rfl rfl
      split
      · exact P.trans h1 (P.emit _ _ (fun _ _ _ _ _ h => by cases h))
      · exact P.trans (P.trans h1 (P.emit _ _ (fun _ _ _ _ _ h => by cases h))) (P.emitObs' _)

theorem runMain (hcl : ∀ sc s, R s (runClosing sc s)) (sc : Script) (fuel : Nat) (prog : List MainOp) (s : State) :
    R s (Loop.runMain sc fuel s prog) := by
  unfold Loop.runMain
  induction prog generalizing s with
  | nil => exact P.refl _
  | cons m t ih => exact P.trans (P.stepMain hcl _ _ _ _) (ih _)

end PhaseRel
end UvModel.Loop
