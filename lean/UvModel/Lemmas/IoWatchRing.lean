import UvModel.Lemmas.IoWatchK2
/-! C14: the io_uring ctl ring (`prep`/`flushOnce`/`flushAll`, linux.c:1246-1347) preserves the kernel-side
invariant; `RCore` is `KCore` with submissions still in flight -/
namespace UvModel.IoWatch

abbrev Ctl := CtlOp × Nat × Mask × Nat

/-- a pending submission is consistent with the registry: it carries the watcher's descriptor and its
requested mask (already copied to `events`), and a MOD refers to an existing entry -/
def PendOk (t : St) (k : Kernel) (c : Ctl) : Prop :=
  c.2.2.2 < t.ws.length ∧ c.2.1 = (getW t c.2.2.2).fd ∧ c.2.2.1 = (getW t c.2.2.2).pevents ∧
  (getW t c.2.2.2).events = (getW t c.2.2.2).pevents ∧ (getW t c.2.2.2).pevents ≠ Mask.none ∧
  c.1 ≠ .del ∧ (c.1 = .mod → ∃ o, k.ofdAt c.2.1 = some o ∧ k.maskAt o c.2.1 ≠ none)

structure RCore (t : St) (k : Kernel) (sq : List Ctl) : Prop where
  multi : t.multi = false
  pend : ∀ c ∈ sq, PendOk t k c
  armed : ∀ id, id < t.ws.length → (getW t id).events ≠ Mask.none → (∀ c ∈ sq, c.2.2.2 ≠ id) →
    ∃ o, k.ofdAt (getW t id).fd = some o ∧ k.maskAt o (getW t id).fd = some (getW t id).events
  owned : ∀ o fd, k.maskAt o fd ≠ none → k.ofdAt fd = some o ∧
    ∃ id, id < t.ws.length ∧ (getW t id).fd = fd ∧ (getW t id).closing = false ∧
      ¬((getW t id).clean = true ∧ (getW t id).pevents = Mask.none)
  uniq : ∀ i j, i < t.ws.length → j < t.ws.length → (getW t i).fd = (getW t j).fd →
    (getW t i).closing = false → (getW t j).closing = false → i = j
  quiet : ∀ id, (getW t id).pevents = Mask.none → (getW t id).events = Mask.none
  live : ∀ id, id < t.ws.length → (getW t id).pevents ≠ Mask.none →
    (getW t id).closing = false ∧ (getW t id).clean = false ∧ (k.ofdAt (getW t id).fd).isSome = true ∧
    watcherAt t (getW t id).fd = some id
  queued : ∀ id, id ∈ t.wq → id < t.ws.length ∧ (getW t id).pevents ≠ Mask.none

theorem KCore.toR {t : St} (c : KCore t) : RCore t t.k [] :=
  ⟨c.multi, by intro x h; simp at h, fun id h1 h2 _ => c.armed id h1 h2, c.owned, c.uniq, c.quiet, c.live, c.queued⟩

theorem RCore.toK {t : St} (r : RCore t t.k []) (h : t.sq = []) : KCore t :=
  ⟨h, r.multi, fun id h1 h2 => r.armed id h1 h2 (by intro c hc; simp at hc), r.owned, r.uniq, r.quiet, r.live, r.queued⟩

/-- the kernel changed only at descriptors in `F` -/
def KFrame (k0 k : Kernel) (F : List Nat) : Prop :=
  (∀ g, k.ofdAt g = k0.ofdAt g) ∧ ∀ o g, g ∉ F → k.maskAt o g = k0.maskAt o g

theorem KFrame.refl (k : Kernel) (F : List Nat) : KFrame k k F := ⟨fun _ => rfl, fun _ _ _ => rfl⟩
theorem KFrame.trans {a b c : Kernel} {F G : List Nat} (h1 : KFrame a b F) (h2 : KFrame b c G) :
    KFrame a c (F ++ G) :=
  ⟨fun g => (h2.1 g).trans (h1.1 g), fun o g hg => by
    rw [h2.2 o g (fun h => hg (List.mem_append_right _ h)), h1.2 o g (fun h => hg (List.mem_append_left _ h))]⟩
theorem KFrame.mono {a b : Kernel} {F G : List Nat} (h : KFrame a b F) (hs : ∀ x ∈ F, x ∈ G) : KFrame a b G :=
  ⟨h.1, fun o g hg => h.2 o g (fun hx => hg (hs g hx))⟩

/-- a pending submission succeeds: its entry now carries the mask -/
theorem RCore.success {t : St} {k k' : Kernel} {L L' : List Ctl} (r : RCore t k L) (c : Ctl) (hc : c ∈ L)
    (o : Nat) (ho : k.ofdAt c.2.1 = some o)
    (hof : ∀ g, k'.ofdAt g = k.ofdAt g)
    (hm : ∀ o' g, k'.maskAt o' g = if o' = o ∧ g = c.2.1 then some c.2.2.1 else k.maskAt o' g)
    (hsub : ∀ x ∈ L', x ∈ L) (hcov : ∀ x ∈ L, x ∈ L' ∨ x = c) : RCore t k' L' := by
  obtain ⟨p1, p2, p3, p4, p5, _, _⟩ := r.pend c hc
  have lvc := r.live _ p1 p5
  refine ⟨r.multi, ?_, ?_, ?_, r.uniq, r.quiet, ?_, r.queued⟩
  · intro x hx
    obtain ⟨q1, q2, q3, q4, q5, q6, q7⟩ := r.pend x (hsub x hx)
    refine ⟨q1, q2, q3, q4, q5, q6, fun hmod => ?_⟩
    obtain ⟨o2, a1, a2⟩ := q7 hmod
    refine ⟨o2, by rw [hof]; exact a1, ?_⟩
    rw [hm]; split
    · simp
    · exact a2
  · intro id hl hne hno
    by_cases e : id = c.2.2.2
    · subst e
      refine ⟨o, by rw [hof, ← p2]; exact ho, ?_⟩
      rw [hm, ← p2, if_pos ⟨rfl, rfl⟩, p3, p4]
    · have hno' : ∀ x ∈ L, x.2.2.2 ≠ id := by
        intro x hx
        rcases hcov x hx with h | h
        · exact hno x h
        · rw [h]; exact fun h' => e h'.symm
      obtain ⟨o2, a1, a2⟩ := r.armed id hl hne hno'
      refine ⟨o2, by rw [hof]; exact a1, ?_⟩
      rw [hm, if_neg]; exact a2
      intro hk
      have hpj : (getW t id).pevents ≠ Mask.none := fun h0 => hne (r.quiet id h0)
      have l1 := (r.live id hl hpj).2.2.2
      have l2 := lvc.2.2.2
      rw [hk.2, p2, l2] at l1; simp at l1; exact e l1.symm
  · intro o' g h; rw [hm] at h
    by_cases hk : o' = o ∧ g = c.2.1
    · obtain ⟨rfl, rfl⟩ := hk
      exact ⟨by rw [hof]; exact ho, c.2.2.2, p1, p2.symm, lvc.1, by rw [lvc.2.1]; simp⟩
    · rw [if_neg hk] at h
      obtain ⟨a, b⟩ := r.owned o' g h
      exact ⟨by rw [hof]; exact a, b⟩
  · intro id hl hp
    have l := r.live id hl hp
    exact ⟨l.1, l.2.1, by rw [hof]; exact l.2.2.1, l.2.2.2⟩

/-- an ADD answered EEXIST is replaced by a MOD; the kernel is unchanged -/
theorem RCore.retry {t : St} {k : Kernel} {L L' : List Ctl} (r : RCore t k L) (c : Ctl) (hc : c ∈ L)
    (o : Nat) (ho : k.ofdAt c.2.1 = some o) (hne : k.maskAt o c.2.1 ≠ none)
    (hsub : ∀ x ∈ L', x ∈ L ∨ x = (CtlOp.mod, c.2.1, c.2.2.1, c.2.2.2))
    (hin : (CtlOp.mod, c.2.1, c.2.2.1, c.2.2.2) ∈ L') (hcov : ∀ x ∈ L, x ∈ L' ∨ x = c) : RCore t k L' := by
  obtain ⟨p1, p2, p3, p4, p5, _, _⟩ := r.pend c hc
  refine ⟨r.multi, ?_, ?_, r.owned, r.uniq, r.quiet, r.live, r.queued⟩
  · intro x hx
    rcases hsub x hx with h | h
    · exact r.pend x h
    · rw [h]; exact ⟨p1, p2, p3, p4, p5, by simp, fun _ => ⟨o, ho, hne⟩⟩
  · intro id hl hev hno
    have e : id ≠ c.2.2.2 := fun h => hno _ hin h.symm
    apply r.armed id hl hev
    intro x hx
    rcases hcov x hx with h | h
    · exact hno x h
    · rw [h]; exact fun h' => e h'.symm

/-- one completion of the flush loop -/
theorem flushStep_spec {t : St} {k : Kernel} {rs rem : List Ctl} (bad : Bool) (c : Ctl)
    (r : RCore t k (rs ++ c :: rem)) :
    RCore t (flushStep (k, rs, bad) c).1 ((flushStep (k, rs, bad) c).2.1 ++ rem) ∧
    (flushStep (k, rs, bad) c).2.2 = bad ∧
    ((flushStep (k, rs, bad) c).2.1 = rs ∨ (c.1 = .add ∧ ∃ x, x.1 = CtlOp.mod ∧ x.2.2.2 = c.2.2.2 ∧ x.2.1 = c.2.1 ∧
      (flushStep (k, rs, bad) c).2.1 = rs ++ [x])) ∧
    KFrame k (flushStep (k, rs, bad) c).1 [c.2.1] := by
  have hc : c ∈ rs ++ c :: rem := by simp
  obtain ⟨p1, p2, p3, p4, p5, p6, p7⟩ := r.pend c hc
  have lvc := r.live _ p1 p5
  obtain ⟨op, fd, m, id⟩ := c
  simp only at p1 p2 p3 p4 p5 p6 p7 lvc
  cases ho : k.ofdAt fd with
  | none => rw [← p2, ho] at lvc; simp at lvc
  | some o =>
    have hsub : ∀ x ∈ rs ++ rem, x ∈ rs ++ (op, fd, m, id) :: rem := by
      intro x hx; rcases List.mem_append.mp hx with h | h
      · exact List.mem_append_left _ h
      · exact List.mem_append_right _ (List.mem_cons_of_mem _ h)
    have hcov : ∀ x ∈ rs ++ (op, fd, m, id) :: rem, x ∈ rs ++ rem ∨ x = (op, fd, m, id) := by
      intro x hx; rcases List.mem_append.mp hx with h | h
      · left; exact List.mem_append_left _ h
      · rcases List.mem_cons.mp h with h | h
        · right; exact h
        · left; exact List.mem_append_right _ h
    have okcase : ∀ (k' : Kernel), (k.ctl op fd m (some id)).2 = 0 → (k.ctl op fd m (some id)).1 = k' →
        (∀ g, k'.ofdAt g = k.ofdAt g) →
        (∀ o' g, k'.maskAt o' g = if o' = o ∧ g = fd then some m else k.maskAt o' g) →
        RCore t (flushStep (k, rs, bad) (op, fd, m, id)).1 ((flushStep (k, rs, bad) (op, fd, m, id)).2.1 ++ rem) ∧
        (flushStep (k, rs, bad) (op, fd, m, id)).2.2 = bad ∧
        ((flushStep (k, rs, bad) (op, fd, m, id)).2.1 = rs ∨ (op = .add ∧ ∃ x, x.1 = CtlOp.mod ∧ x.2.2.2 = id ∧ x.2.1 = fd ∧
          (flushStep (k, rs, bad) (op, fd, m, id)).2.1 = rs ++ [x])) ∧
        KFrame k (flushStep (k, rs, bad) (op, fd, m, id)).1 [fd] := by
      intro k' hr hk hof hm
      have e : flushStep (k, rs, bad) (op, fd, m, id) = (k', rs, bad) := by
        unfold flushStep; simp only [hr, ↓reduceIte, hk]
      rw [e]
      refine ⟨r.success (op, fd, m, id) hc o ho hof hm hsub hcov, rfl, Or.inl rfl, hof, ?_⟩
      intro o' g hg; rw [hm, if_neg]; intro h; exact hg (by simp [h.2])
    cases op with
    | del => exact absurd rfl p6
    | mod =>
      obtain ⟨o2, a1, a2⟩ := p7 rfl
      rw [ho] at a1; simp at a1; subst a1
      have := ctl_mod_ok k fd o m (some id) ho a2
      exact okcase _ this.1 rfl (fun g => ctl_ofdAt _ _ _ _ _ _) this.2
    | add =>
      cases hm : k.maskAt o fd with
      | none =>
        have := ctl_add_new k fd o m (some id) ho hm
        exact okcase _ this.1 rfl (fun g => ctl_ofdAt _ _ _ _ _ _) this.2
      | some x =>
        have hne : k.maskAt o fd ≠ none := by rw [hm]; simp
        have e1 := ctl_add_exists k fd o m (some id) ho hne
        have e : flushStep (k, rs, bad) (CtlOp.add, fd, m, id) = (k, rs ++ [(CtlOp.mod, fd, m, id)], bad) := by
          unfold flushStep; simp [e1]
        rw [e]
        refine ⟨?_, rfl, Or.inr ⟨rfl, (CtlOp.mod, fd, m, id), rfl, rfl, rfl, rfl⟩, KFrame.refl _ _⟩
        refine r.retry (CtlOp.add, fd, m, id) hc o ho hne ?_ (by simp) ?_
        · intro x hx; simp at hx
          rcases hx with h | h | h
          · left; exact List.mem_append_left _ h
          · right; exact h
          · left; exact List.mem_append_right _ (List.mem_cons_of_mem _ h)
        · intro x hx
          rcases hcov x hx with h | h
          · left; rcases List.mem_append.mp h with h | h
            · simp [h]
            · simp [h]
          · right; exact h

theorem flushFold_spec {t : St} (rem : List Ctl) : ∀ (k : Kernel) (rs : List Ctl) (bad : Bool),
    RCore t k (rs ++ rem) →
    RCore t (rem.foldl flushStep (k, rs, bad)).1 (rem.foldl flushStep (k, rs, bad)).2.1 ∧
    (rem.foldl flushStep (k, rs, bad)).2.2 = bad ∧
    (∀ x ∈ (rem.foldl flushStep (k, rs, bad)).2.1, x ∈ rs ∨
      (x.1 = CtlOp.mod ∧ ∃ y ∈ rem, y.2.2.2 = x.2.2.2 ∧ y.2.1 = x.2.1)) ∧
    ((∀ x ∈ rem, x.1 = CtlOp.mod) → (rem.foldl flushStep (k, rs, bad)).2.1 = rs) ∧
    KFrame k (rem.foldl flushStep (k, rs, bad)).1 (rem.map (·.2.1)) := by
  induction rem with
  | nil =>
    intro k rs bad r
    simp only [List.append_nil] at r
    exact ⟨r, rfl, fun x hx => Or.inl hx, fun _ => rfl, KFrame.refl _ _⟩
  | cons c rem ih =>
    intro k rs bad r
    obtain ⟨s1, s2, s3, s4⟩ := flushStep_spec bad c r
    simp only [List.foldl_cons]
    have hpair : flushStep (k, rs, bad) c = ((flushStep (k, rs, bad) c).1, (flushStep (k, rs, bad) c).2.1, bad) := by
      apply Prod.ext; rfl; apply Prod.ext; rfl; exact s2
    rw [hpair]
    obtain ⟨i1, i2, i3, i4, i5⟩ := ih (flushStep (k, rs, bad) c).1 (flushStep (k, rs, bad) c).2.1 bad s1
    refine ⟨i1, i2, ?_, ?_, ?_⟩
    · intro x hx
      rcases i3 x hx with h | h
      · rcases s3 with e | ⟨_, y, hy, hy2, hy3, e⟩
        · left; rw [e] at h; exact h
        · rw [e] at h; rcases List.mem_append.mp h with h | h
          · left; exact h
          · right; simp at h; rw [h]; exact ⟨hy, c, by simp, hy2.symm, hy3.symm⟩
      · right; obtain ⟨h1, y, hy, h2⟩ := h; exact ⟨h1, y, List.mem_cons_of_mem _ hy, h2⟩
    · intro hall
      have hc : c.1 = CtlOp.mod := hall c (by simp)
      rw [i4 (fun x hx => hall x (List.mem_cons_of_mem _ hx))]
      rcases s3 with e | ⟨e, _⟩
      · exact e
      · rw [hc] at e; cases e
    · have := KFrame.trans s4 i5
      exact this.mono (by intro x hx; simpa using hx)


/-- ring state: the invariant with the state's own pending submissions -/
def RS (t : St) : Prop := RCore t t.k t.sq

theorem RCore.frame {t t' : St} {k : Kernel} {L : List Ctl} (r : RCore t k L) (h1 : t'.ws = t.ws)
    (h2 : t'.watchers = t.watchers) (h3 : t'.wq = t.wq) (h4 : t'.multi = t.multi) : RCore t' k L := by
  have hg : ∀ id, getW t' id = getW t id := by intro id; simp [getW, h1]
  have hw : ∀ fd, watcherAt t' fd = watcherAt t fd := by intro fd; simp [watcherAt, h2]
  refine ⟨by rw [h4]; exact r.multi, ?_, ?_, ?_, ?_, ?_, ?_, ?_⟩
  · intro c hc; have := r.pend c hc; unfold PendOk at this ⊢; rw [h1, hg]; exact this
  · intro id; rw [h1, hg]; exact r.armed id
  · intro o fd h; obtain ⟨a, id, b⟩ := r.owned o fd h; exact ⟨a, id, by rw [h1, hg]; exact b⟩
  · intro i j; rw [h1, hg, hg]; exact r.uniq i j
  · intro id; rw [hg]; exact r.quiet id
  · intro id; rw [h1, hg, hw]; exact r.live id
  · intro id; rw [h3, h1, hg]; exact r.queued id

theorem flushOnce_spec {t : St} (r : RS t) :
    RS (flushOnce t) ∧ Same4 t (flushOnce t) ∧ (flushOnce t).aborted = t.aborted ∧
    (flushOnce t).multi = t.multi ∧ (flushOnce t).ring = t.ring ∧
    (∀ x ∈ (flushOnce t).sq, x.1 = CtlOp.mod ∧ ∃ y ∈ t.sq, y.2.2.2 = x.2.2.2 ∧ y.2.1 = x.2.1) ∧
    ((∀ x ∈ t.sq, x.1 = CtlOp.mod) → (flushOnce t).sq = []) ∧
    KFrame t.k (flushOnce t).k (t.sq.map (·.2.1)) := by
  have r0 : RCore t t.k ([] ++ t.sq) := by rw [List.nil_append]; exact r
  obtain ⟨f1, f2, f3, f4, f5⟩ := flushFold_spec t.sq t.k [] false r0
  generalize hres : t.sq.foldl flushStep (t.k, [], false) = res at f1 f2 f3 f4 f5
  have e : flushOnce t = { t with k := res.1, sq := res.2.1 } := by
    unfold flushOnce; simp only [hres, f2, Bool.false_eq_true, ↓reduceIte]
  rw [e]
  refine ⟨f1.frame rfl rfl rfl rfl, ⟨rfl, rfl, rfl, rfl⟩, rfl, rfl, rfl, ?_, f4, f5⟩
  intro x hx
  rcases f3 x hx with h | h
  · simp at h
  · exact h

theorem RS.push {t : St} (r : RS t) (c : Ctl) (hc : PendOk t t.k c) : RS { t with sq := t.sq ++ [c] } := by
  have r' : RCore t t.k (t.sq ++ [c]) := by
    refine ⟨r.multi, ?_, ?_, r.owned, r.uniq, r.quiet, r.live, r.queued⟩
    · intro x hx; rcases List.mem_append.mp hx with h | h
      · exact r.pend x h
      · simp at h; rw [h]; exact hc
    · intro id hl hne hno
      exact r.armed id hl hne (fun x hx => hno x (List.mem_append_left _ hx))
  exact r'.frame rfl rfl rfl rfl

theorem prep_spec {t : St} (c : Ctl) (r1 : RS { t with sq := t.sq ++ [c] }) :
    RS (prep t c) ∧ Same4 t (prep t c) ∧ (prep t c).aborted = t.aborted ∧ (prep t c).ring = t.ring ∧
    (∀ x ∈ (prep t c).sq, ∃ y ∈ t.sq ++ [c], y.2.2.2 = x.2.2.2 ∧ y.2.1 = x.2.1) ∧
    KFrame t.k (prep t c).k ((t.sq ++ [c]).map (·.2.1)) := by
  generalize hs1 : ({ t with sq := t.sq ++ [c] } : St) = t1 at r1
  have h1 : Same4 t t1 := by rw [← hs1]; exact ⟨rfl, rfl, rfl, rfl⟩
  have hk1 : t1.k = t.k := by rw [← hs1]
  have hsq1 : t1.sq = t.sq ++ [c] := by rw [← hs1]
  have ha1 : t1.aborted = t.aborted ∧ t1.ring = t.ring := by rw [← hs1]; exact ⟨rfl, rfl⟩
  have e : prep t c = if t1.sq.length = 256 then
      (if (flushOnce t1).sq.length = 256 then flushOnce (flushOnce t1) else flushOnce t1) else t1 := by
    unfold prep; rw [← hs1]
  rw [e]
  split
  · obtain ⟨a1, a2, a3, a4, a5, a6, a7, a8⟩ := flushOnce_spec r1
    have ids1 : ∀ x ∈ (flushOnce t1).sq, ∃ y ∈ t.sq ++ [c], y.2.2.2 = x.2.2.2 ∧ y.2.1 = x.2.1 := by
      intro x hx; obtain ⟨_, y, hy, h⟩ := a6 x hx; exact ⟨y, by rw [← hsq1]; exact hy, h⟩
    split
    · obtain ⟨b1, b2, b3, b4, b5, b6, b7, b8⟩ := flushOnce_spec a1
      refine ⟨b1, h1.trans (a2.trans b2), by rw [b3, a3]; exact ha1.1, by rw [b5, a5]; exact ha1.2, ?_, ?_⟩
      · intro x hx; obtain ⟨_, y, hy, h⟩ := b6 x hx
        obtain ⟨z, hz, h'⟩ := ids1 y hy
        exact ⟨z, hz, h'.1.trans h.1, h'.2.trans h.2⟩
      · rw [← hk1, ← hsq1]
        refine (KFrame.trans a8 b8).mono ?_
        intro g hg; rcases List.mem_append.mp hg with h | h
        · exact h
        · obtain ⟨x, hx, hxg⟩ := List.mem_map.mp h
          obtain ⟨_, y, hy, hy2⟩ := a6 x hx
          exact List.mem_map.mpr ⟨y, hy, by rw [hy2.2]; exact hxg⟩
    · refine ⟨a1, h1.trans a2, by rw [a3]; exact ha1.1, by rw [a5]; exact ha1.2, ids1, ?_⟩
      rw [← hk1, ← hsq1]; exact a8
  · refine ⟨r1, h1, ha1.1, ha1.2, ?_, ?_⟩
    · intro x hx; rw [hsq1] at hx; exact ⟨x, hx, rfl, rfl⟩
    · rw [hk1]; exact KFrame.refl _ _

end UvModel.IoWatch
