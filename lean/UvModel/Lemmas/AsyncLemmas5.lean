import UvModel.Lemmas.AsyncLemmas4
/-! C09 liveness, the uv_close phase: when the start state is in the middle of uv__async_spin(h') (loop thread parked
    before `atomic_store(pending,1)` or before `atomic_load(busy)`), the spin ends under weak fairness.
    Measure: `nu` = Σ over the senders currently inside uv_async_send(h') of their remaining steps (finite and
    non-increasing, because no send can *begin* on a closing handle) + 2/1 for closeStore/closeSpin.  Helpful thread:
    a sender inside uv_async_send(h') while there is one, the loop thread afterwards (busy = 0 by `InvB.busyEq`). -/
namespace UvModel.Async

/-- remaining steps of a sender inside uv_async_send, by program counter -/
def SPc.w : SPc → Nat
  | .idle => 0 | .load => 5 | .inc => 4 | .xchg => 3 | .write => 2 | .dec => 1

def remW (h' : Nat) (x : Sender) : Nat := if x.h = h' then x.pc.w else 0

def remL (h' : Nat) : List Sender → Nat
  | [] => 0
  | x :: l => remW h' x + remL h' l

/-- total number of sender steps still to be executed inside uv_async_send(h') -/
def rem (s : State) (h' : Nat) : Nat := remL h' s.snd

theorem remL_set {h' : Nat} (l : List Sender) (t : Nat) (x x' : Sender) (h0 : l[t]? = some x) :
    remL h' (l.set t x') + remW h' x = remL h' l + remW h' x' := by
  induction l generalizing t with
  | nil => simp at h0
  | cons y l ih =>
    cases t with
    | zero => simp at h0; subst h0; simp [remL]; omega
    | succ t => simp at h0; have := ih t h0; simp [remL]; omega

theorem remL_pos {h' : Nat} {l : List Sender} (hz : remL h' l ≠ 0) : ∃ (t : Nat) (x : Sender), l[t]? = some x ∧ remW h' x ≠ 0 := by
  induction l with
  | nil => simp [remL] at hz
  | cons y l ih =>
    by_cases hy : remW h' y = 0
    · have hz' : remL h' l ≠ 0 := by simp [remL, hy] at hz; exact hz
      obtain ⟨t, x, hx, hw⟩ := ih hz'
      exact ⟨t + 1, x, by simpa using hx, hw⟩
    · exact ⟨0, y, by simp, hy⟩

theorem remL_zero_mem {h' : Nat} {l : List Sender} (hz : remL h' l = 0) : ∀ x ∈ l, remW h' x = 0 := by
  induction l with
  | nil => simp
  | cons y l ih =>
    have h1 : remW h' y = 0 ∧ remL h' l = 0 := by simp only [remL] at hz; omega
    intro x hx
    simp only [List.mem_cons] at hx
    rcases hx with rfl | hx
    · exact h1.1
    · exact ih h1.2 x hx

theorem rem_zero_countP {s : State} {h' : Nat} (hz : rem s h' = 0) : s.snd.countP (critB h') = 0 := by
  rw [List.countP_eq_zero]
  intro x hx
  have := remL_zero_mem hz x hx
  simp only [critB, Bool.and_eq_true, beq_iff_eq, Bool.or_eq_true, not_and]
  intro he hc
  simp only [remW, he, if_true] at this
  rcases hc with (hc | hc) | hc <;> simp [hc, SPc.w] at this

theorem rem_setSnd_le {s s2 : State} {h' t : Nat} {x x' : Sender} (hx : s.snd[t]? = some x) (h2 : s2.snd = s.snd)
    (hw : remW h' x' ≤ remW h' x) : rem (setSnd s2 t x') h' ≤ rem s h' := by
  have := remL_set (h' := h') s.snd t x x' hx
  simp only [rem, setSnd, h2]; omega

theorem rem_setSnd_lt {s s2 : State} {h' t : Nat} {x x' : Sender} (hx : s.snd[t]? = some x) (h2 : s2.snd = s.snd)
    (hw : remW h' x' < remW h' x) : rem (setSnd s2 t x') h' < rem s h' := by
  have := remL_set (h' := h') s.snd t x x' hx
  simp only [rem, setSnd, h2]; omega

def cpart : LPc → Nat
  | .closeStore _ _ => 2
  | .closeSpin _ _ => 1
  | _ => 0

def nu (s : State) (h' : Nat) : Nat := rem s h' + cpart s.lpc

/-- the loop thread is inside uv__async_spin(h'), to return to `r` -/
def InClose (s : State) (h' : Nat) (r : LRet) : Prop := s.lpc = .closeStore h' r ∨ s.lpc = .closeSpin h' r

/-- a callback of `h` is owed while the loop thread is inside uv__async_spin(h') -/
structure OwedC (s : State) (h c0 h' : Nat) (r : LRet) : Prop where
  inv : Inv s
  pend : (s.hs h).pending ≠ 0
  opn : (s.hs h).closing = false
  cnt : (s.hs h).cbs = c0
  pc : InClose s h' r

theorem loop_snd (s : State) : (step s .loop).snd = s.snd := by
  unfold step
  cases hs : step? s .loop with
  | none => rfl
  | some s' =>
    simp only [Option.getD_some]
    simp only [step?, loopStep] at hs
    repeat' split at hs
    all_goals first | (simp at hs; done) | skip
    all_goals (simp only [Option.some.injEq] at hs; subst hs; simp [setH])

/-- a sender step inside uv_async_send(h') strictly decreases `rem` -/
theorem snd_rem_dec {s : State} {h' t : Nat} {x : Sender} (hx : s.snd[t]? = some x) (hh : x.h = h') (hp : x.pc ≠ .idle) :
    rem (step s (.snd t)) h' < rem s h' := by
  unfold step
  simp only [step?, sndStep, hx]
  cases hpc : x.pc with
  | idle => exact absurd hpc hp
  | load =>
    simp only []
    split <;> (simp only [Option.getD_some]; apply rem_setSnd_lt hx (by simp); simp [remW, hh, hpc, SPc.w])
  | inc => simp only [Option.getD_some]; apply rem_setSnd_lt hx (by simp [setH]); simp [remW, hh, hpc, SPc.w]
  | xchg =>
    simp only []
    split <;> (simp only [Option.getD_some]; apply rem_setSnd_lt hx (by simp [setH]); simp [remW, hh, hpc, SPc.w])
  | write => simp only [Option.getD_some]; apply rem_setSnd_lt hx (by simp); simp [remW, hh, hpc, SPc.w]
  | dec => simp only [Option.getD_some]; apply rem_setSnd_lt hx (by simp [setH]); simp [remW, hh, hpc, SPc.w]

theorem inClose_ne {s : State} {h h' : Nat} {r : LRet} (hI : Inv s) (hpc : InClose s h' r) (hop : (s.hs h).closing = false) :
    h ≠ h' := by
  intro e; subst e
  have := (hI.L.cloPc h r hpc).1
  simp [hop] at this

/-- one step of a continuation without uv_close while the loop thread is inside uv__async_spin(h'): `rem` does not grow;
the spin ends (and the callback of `h` is still owed), or the loop is still inside it and the measure did not grow -/
theorem stepC {s : State} {h c0 h' : Nat} {r : LRet} (a : Act) (ha : notClose a) (ho : OwedC s h c0 h' r) :
    rem (step s a) h' ≤ rem s h' ∧
    (Owed (step s a) h c0 ∨ (OwedC (step s a) h c0 h' r ∧ nu (step s a) h' ≤ nu s h')) := by
  have hinv' := inv_step' a ho.inv
  have hp := ho.pend; have hop := ho.opn; have hc := ho.cnt; have hpc := ho.pc
  have hcl := ho.inv.L.cloPc h' r hpc
  have hne : h ≠ h' := inClose_ne ho.inv hpc hop
  unfold step
  cases hs : step? s a with
  | none => simp only [Option.getD_none]; exact ⟨Nat.le_refl _, Or.inr ⟨ho, Nat.le_refl _⟩⟩
  | some s' =>
    have hi : Inv s' := by simpa [step, hs] using hinv'
    simp only [Option.getD_some]
    cases a with
    | close _ => exact absurd ha (by simp [notClose])
    | fork => exact absurd ha (by simp [notClose])
    | eintr w => cases step?_eintr hs; exact ⟨Nat.le_refl _, Or.inr ⟨ho, Nat.le_refl _⟩⟩
    | closeCbs =>
      simp only [step?] at hs
      rcases hpc with hpc | hpc <;> simp [hpc] at hs
    | begin t h0 =>
      simp only [step?] at hs
      split at hs
      · simp at hs
      next x hx =>
        split at hs
        next hcnd =>
          simp only [Option.some.injEq] at hs; subst hs
          have h0ne : h0 ≠ h' := by intro e; subst e; simp [hcnd.2.2] at hcl
          have hw : remW h' { pc := .load, h := h0, seq := (s.hs h0).pub + 1, sent := false } ≤ remW h' x := by simp [remW, h0ne]
          refine ⟨rem_setSnd_le hx (by simp [setH]) hw, Or.inr ⟨⟨hi, ?_, ?_, ?_, ?_⟩, ?_⟩⟩
          · simp [setSnd, setH, upd]; split <;> simp_all
          · simp [setSnd, setH, upd]; split <;> simp_all
          · simp [setSnd, setH, upd]; split <;> simp_all
          · simpa [InClose, setSnd, setH] using hpc
          · exact Nat.add_le_add (rem_setSnd_le hx (by simp [setH]) hw) (Nat.le_refl _)
        · simp at hs
    | snd t =>
      have hfr := nonloop_frame s (.snd t) (by simp [notClose]) (by simp)
      have hle : rem (step s (.snd t)) h' ≤ rem s h' := by
        cases hx : s.snd[t]? with
        | none => simp [step?, sndStep, hx] at hs
        | some x =>
          by_cases hact : x.h = h' ∧ x.pc ≠ .idle
          · exact Nat.le_of_lt (snd_rem_dec hx hact.1 hact.2)
          · simp only [step?, sndStep, hx] at hs
            simp only [step, step?, sndStep, hx]
            have hw : ∀ p : SPc, remW h' { x with pc := p } ≤ remW h' x ∨ x.pc = .idle := by
              intro p
              by_cases hh : x.h = h'
              · right; simpa [hh] using hact
              · left; simp [remW, hh]
            cases hpcx : x.pc with
            | idle => simp [hpcx] at hs
            | load =>
              simp only []
              split <;> (simp only [Option.getD_some]; apply rem_setSnd_le hx (by simp))
              · rcases hw .idle with h1 | h1
                · simpa [remW] using h1
                · simp [hpcx] at h1
              · rcases hw .inc with h1 | h1
                · simpa [remW] using h1
                · simp [hpcx] at h1
            | inc =>
              simp only [Option.getD_some]; apply rem_setSnd_le hx (by simp [setH])
              rcases hw .xchg with h1 | h1
              · simpa [remW] using h1
              · simp [hpcx] at h1
            | xchg =>
              simp only []
              split <;> (simp only [Option.getD_some]; apply rem_setSnd_le hx (by simp [setH]))
              · rcases hw .write with h1 | h1
                · simpa [remW] using h1
                · simp [hpcx] at h1
              · rcases hw .dec with h1 | h1
                · simpa [remW] using h1
                · simp [hpcx] at h1
            | write =>
              simp only [Option.getD_some]; apply rem_setSnd_le hx (by simp)
              rcases hw .dec with h1 | h1
              · simpa [remW] using h1
              · simp [hpcx] at h1
            | dec =>
              simp only [Option.getD_some]; apply rem_setSnd_le hx (by simp [setH])
              rcases hw .idle with h1 | h1
              · simpa [remW] using h1
              · simp [hpcx] at h1
      have hs'' : step s (.snd t) = s' := by simp [step, hs]
      rw [hs''] at hle hfr
      refine ⟨hle, Or.inr ⟨⟨hi, ?_, ?_, ?_, ?_⟩, ?_⟩⟩
      · simp only [step?, sndStep] at hs
        repeat' split at hs
        all_goals first | (simp at hs; done) | skip
        all_goals (simp only [Option.some.injEq] at hs; subst hs; simp [setSnd, setH, upd] at *; first | done | grind)
      · simp only [step?, sndStep] at hs
        repeat' split at hs
        all_goals first | (simp at hs; done) | skip
        all_goals (simp only [Option.some.injEq] at hs; subst hs; simp [setSnd, setH, upd] at *; first | done | grind)
      · simp only [step?, sndStep] at hs
        repeat' split at hs
        all_goals first | (simp at hs; done) | skip
        all_goals (simp only [Option.some.injEq] at hs; subst hs; simp [setSnd, setH, upd] at *; first | done | grind)
      · simpa [InClose, hfr.1] using hpc
      · simp only [nu, hfr.1]; omega
    | loop =>
      have hsnd := loop_snd s
      have hs'' : step s .loop = s' := by simp [step, hs]
      rw [hs''] at hsnd
      have hrem : rem s' h' = rem s h' := by simp [rem, hsnd]
      refine ⟨Nat.le_of_eq hrem, ?_⟩
      simp only [step?, loopStep] at hs
      rcases hpc with hpc | hpc
      · simp only [hpc, Option.some.injEq] at hs; subst hs
        right
        refine ⟨⟨hi, ?_, ?_, ?_, ?_⟩, ?_⟩
        · simp [setH, upd]; split <;> simp_all
        · simp [setH, upd]; split <;> simp_all
        · simp [setH, upd]; split <;> simp_all
        · simp [InClose]
        · simp only [nu, hrem] at *; simp [cpart, hpc, rem]
      · simp only [hpc] at hs
        split at hs
        · simp only [Option.some.injEq] at hs; subst hs
          left
          refine ⟨hi, ?_, ?_, ?_, ?_⟩
          · simp [setH, upd]; split <;> simp_all
          · simp [setH, upd]; split <;> simp_all
          · simp [setH, upd]; split <;> simp_all
          · intro h2 r2; simp
        · simp at hs

/-! ### helpful threads of the close phase -/
def HelpfulC (s : State) (h' : Nat) : Act → Prop
  | .snd t => ∃ x : Sender, s.snd[t]? = some x ∧ x.h = h' ∧ x.pc ≠ .idle
  | .loop => rem s h' = 0
  | _ => False

theorem exists_helpfulC (s : State) (h' : Nat) :
    ∃ a, HelpfulC s h' a ∧ (a = .loop ∨ ∃ t, a = .snd t ∧ t < s.snd.length) := by
  by_cases hz : rem s h' = 0
  · exact ⟨.loop, hz, Or.inl rfl⟩
  · obtain ⟨t, x, hx, hw⟩ := remL_pos hz
    have hh : x.h = h' := by
      by_cases hh : x.h = h'
      · exact hh
      · simp [remW, hh] at hw
    have hp : x.pc ≠ .idle := by
      intro hid; simp [remW, hid, SPc.w] at hw
    refine ⟨.snd t, ⟨x, hx, hh, hp⟩, Or.inr ⟨t, rfl, ?_⟩⟩
    rcases Nat.lt_or_ge t s.snd.length with h2 | h2
    · exact h2
    · rw [List.getElem?_eq_none h2] at hx; cases hx

theorem helpfulC_dec {s : State} {h c0 h' : Nat} {r : LRet} {a : Act} (ho : OwedC s h c0 h' r) (hh : HelpfulC s h' a) :
    Owed (step s a) h c0 ∨ (OwedC (step s a) h c0 h' r ∧ nu (step s a) h' < nu s h') := by
  cases a with
  | loop =>
    have hz : rem s h' = 0 := hh
    have hst := stepC .loop (by simp [notClose]) ho
    rcases hst.2 with h1 | ⟨h1, _⟩
    · exact Or.inl h1
    · right; refine ⟨h1, ?_⟩
      have hsnd := loop_snd s
      have hrem : rem (step s .loop) h' = rem s h' := by simp [rem, hsnd]
      rcases ho.pc with hpc | hpc
      · have : step s .loop = { setH s h' { s.hs h' with pending := 1, stored := true } with lpc := .closeSpin h' r } := by
          simp [step, step?, loopStep, hpc]
        simp only [nu, hrem]; rw [this]; simp [cpart, hpc]
      · have hb := ho.inv.B.busyEq h' (ho.inv.L.cloPc h' r (Or.inr hpc)).2
        rw [rem_zero_countP hz] at hb
        have hb0 : (s.hs h').busy = 0 := by simpa using hb
        have hlpc : (step s .loop).lpc = r.toPc := by simp [step, step?, loopStep, hpc, hb0]
        have := h1.pc
        rcases this with h2 | h2 <;> (rw [hlpc] at h2; simp at h2)
  | snd t =>
    obtain ⟨x, hx, hxh, hxp⟩ := hh
    have hst := stepC (.snd t) (by simp [notClose]) ho
    rcases hst.2 with h1 | ⟨h1, _⟩
    · exact Or.inl h1
    · right; refine ⟨h1, ?_⟩
      have hfr := nonloop_frame s (.snd t) (by simp [notClose]) (by simp)
      have := snd_rem_dec hx hxh hxp
      simp only [nu, hfr.1]; omega
  | begin _ _ => exact absurd hh (by simp [HelpfulC])
  | close _ => exact absurd hh (by simp [HelpfulC])
  | closeCbs => exact absurd hh (by simp [HelpfulC])
  | eintr _ => exact absurd hh (by simp [HelpfulC])
  | fork => exact absurd hh (by simp [HelpfulC])

/-- a helpful thread of the close phase stays helpful until it is scheduled -/
theorem helpfulC_persist {s : State} {h c0 h' : Nat} {r : LRet} {a b : Act} (ho : OwedC s h c0 h' r)
    (hh : HelpfulC s h' a) (hb : notClose b) (hne : b ≠ a) : HelpfulC (step s b) h' a := by
  cases a with
  | loop =>
    have hz : rem s h' = 0 := hh
    have := (stepC b hb ho).1
    show rem (step s b) h' = 0
    omega
  | snd t =>
    obtain ⟨x, hx, hxh, hxp⟩ := hh
    by_cases hbl : b = .loop
    · subst hbl
      refine ⟨x, ?_, hxh, hxp⟩
      rw [loop_snd]; exact hx
    · have hfr := nonloop_frame s b hb hbl
      exact ⟨x, hfr.2.2.2.2 t (fun e => hne e) x hx hxp, hxh, hxp⟩
  | begin _ _ => exact absurd hh (by simp [HelpfulC])
  | close _ => exact absurd hh (by simp [HelpfulC])
  | closeCbs => exact absurd hh (by simp [HelpfulC])
  | eintr _ => exact absurd hh (by simp [HelpfulC])
  | fork => exact absurd hh (by simp [HelpfulC])

/-! ### the infinite-schedule argument for the close phase -/
theorem reach_dropC (σ : Nat → Act) (hσ : ∀ n, notClose (σ n)) (s0 : State) (h c0 h' : Nat) (r : LRet) (a : Act) :
    ∀ (d n : Nat), σ (n + d) = a → OwedC (runN σ n s0) h c0 h' r → HelpfulC (runN σ n s0) h' a →
      (∃ j, Owed (runN σ j s0) h c0) ∨
      (∃ j, OwedC (runN σ j s0) h c0 h' r ∧ nu (runN σ j s0) h' < nu (runN σ n s0) h') := by
  intro d
  induction d with
  | zero =>
    intro n hm ho hh
    simp only [Nat.add_zero] at hm
    rcases helpfulC_dec ho hh with h1 | ⟨h1, h2⟩
    · left; exact ⟨n + 1, by rw [runN_succ, hm]; exact h1⟩
    · right; exact ⟨n + 1, by rw [runN_succ, hm]; exact h1, by rw [runN_succ, hm]; exact h2⟩
  | succ d ih =>
    intro n hm ho hh
    by_cases hna : σ n = a
    · rcases helpfulC_dec ho hh with h1 | ⟨h1, h2⟩
      · left; exact ⟨n + 1, by rw [runN_succ, hna]; exact h1⟩
      · right; exact ⟨n + 1, by rw [runN_succ, hna]; exact h1, by rw [runN_succ, hna]; exact h2⟩
    · rcases (stepC (σ n) (hσ n) ho).2 with h1 | ⟨h1, h2⟩
      · left; exact ⟨n + 1, by rw [runN_succ]; exact h1⟩
      · have h3 := helpfulC_persist ho hh (hσ n) hna
        have hm' : σ (n + 1 + d) = a := by rw [← hm]; congr 1; omega
        rcases ih (n + 1) hm' (by rw [runN_succ]; exact h1) (by rw [runN_succ]; exact h3) with h4 | ⟨j, h4, h5⟩
        · exact Or.inl h4
        · right; refine ⟨j, h4, ?_⟩
          rw [runN_succ] at h5; omega

/-- under weak fairness the spin ends: some later state is back outside uv__async_spin with the callback still owed -/
theorem spin_ends (σ : Nat → Act) (hσ : ∀ n, notClose (σ n)) (s0 : State) (h c0 h' : Nat) (r : LRet)
    (fairL : ∀ n, ∃ m, m ≥ n ∧ σ m = .loop)
    (fairS : ∀ n t, t < s0.snd.length → ∃ m, m ≥ n ∧ σ m = .snd t) :
    ∀ (k n : Nat), nu (runN σ n s0) h' ≤ k → OwedC (runN σ n s0) h c0 h' r → ∃ j, Owed (runN σ j s0) h c0 := by
  intro k
  induction k using Nat.strongRecOn with
  | _ k ih =>
    intro n hk ho
    obtain ⟨a, hh, ha⟩ := exists_helpfulC (runN σ n s0) h'
    have hm : ∃ m, m ≥ n ∧ σ m = a := by
      rcases ha with rfl | ⟨t, rfl, ht⟩
      · exact fairL n
      · exact fairS n t (by rw [runN_snd_length] at ht; exact ht)
    obtain ⟨m, hge, hma⟩ := hm
    have hm' : σ (n + (m - n)) = a := by rw [← hma]; congr 1; omega
    rcases reach_dropC σ hσ s0 h c0 h' r a (m - n) n hm' ho hh with h1 | ⟨j, h1, h2⟩
    · exact h1
    · exact ih (nu (runN σ j s0) h') (by omega) j (Nat.le_refl _) h1

/-- liveness from ANY state satisfying the invariant, also in the middle of a uv_close of another handle -/
theorem liveness_full_aux (σ : Nat → Act) (hσ : ∀ n, notClose (σ n)) (s : State) (h : Nat) (hI : Inv s)
    (hp : (s.hs h).pending ≠ 0) (hop : (s.hs h).closing = false)
    (fairL : ∀ n, ∃ m, m ≥ n ∧ σ m = .loop)
    (fairS : ∀ n t, t < s.snd.length → ∃ m, m ≥ n ∧ σ m = .snd t) :
    ∃ n, ((runN σ n s).hs h).cbs > (s.hs h).cbs := by
  have hfin : ∀ j, Owed (runN σ j s) h (s.hs h).cbs → ∃ n, ((runN σ n s).hs h).cbs > (s.hs h).cbs :=
    fun j ho => liveness_aux σ hσ s h _ fairL fairS (mu (runN σ j s) h) j (Nat.le_refl _) ho
  have hclose : ∀ h' r, InClose s h' r → ∃ n, ((runN σ n s).hs h).cbs > (s.hs h).cbs := by
    intro h' r hpc
    obtain ⟨j, hj⟩ := spin_ends σ hσ s h (s.hs h).cbs h' r fairL fairS (nu s h') 0 (by simp [runN])
      (by simpa [runN] using (⟨hI, hp, hop, rfl, hpc⟩ : OwedC s h (s.hs h).cbs h' r))
    exact hfin j hj
  cases hl : s.lpc with
  | closeStore h' r => exact hclose h' r (Or.inl hl)
  | closeSpin h' r => exact hclose h' r (Or.inr hl)
  | _ => exact hfin 0 (by simpa [runN] using (⟨hI, hp, hop, rfl, by intro h2 r2; simp [hl]⟩ : Owed s h (s.hs h).cbs))

/-! ## coalescing bound: effective exchanges never outnumber the sends begun -/
/-- sender has begun a send on `h` and has not yet executed its exchange -/
def preX (h : Nat) (x : Sender) : Bool := x.h == h && (x.pc == .load || x.pc == .inc || x.pc == .xchg)

/-- #(0→1 exchanges on h) + #(senders before their exchange on h) ≤ #(sends begun on h) -/
def SendsLe (s : State) : Prop :=
  ∀ h, ((s.hs h).x01 : Int) + (s.snd.countP (preX h) : Int) ≤ ((s.hs h).pub : Int)

theorem sendsLe_step {s s' : State} {a : Act} (hI : SendsLe s) (hs : step? s a = some s') : SendsLe s' := by
  cases a with
  | begin t h =>
    simp only [step?] at hs
    repeat' split at hs
    all_goals first | (simp at hs; done) | skip
    next x hx hc =>
      simp only [Option.some.injEq] at hs; subst hs
      intro h'
      have := countP_set_int s.snd t x { pc := .load, h := h, seq := (s.hs h).pub + 1, sent := false } (preX h') hx
      have := hI h'
      simp [setSnd, setH, upd, preX, hc.1] at *
      first | done | grind
  | snd t =>
    simp only [step?, sndStep] at hs
    split at hs
    · simp at hs
    next x hx =>
      repeat' split at hs
      all_goals first | (simp at hs; done) | skip
      all_goals (
        simp only [Option.some.injEq] at hs; subst hs
        intro h'
        have := hI h'
        have := hI x.h
        simp only [setSnd, setH]
        rw [countP_set_int s.snd t x _ (preX h') hx]
        simp [upd, preX, *] at *
        first | done | grind)
  | loop =>
    simp only [step?, loopStep] at hs
    cases hl : s.lpc <;> simp only [hl] at hs <;> (try split at hs) <;> (try (simp at hs; done)) <;>
      (simp only [Option.some.injEq] at hs; subst hs; intro h'; have := hI h'
       simp [setH, upd] at * <;> (try split) <;> (try simp) <;> first | done | grind)
  | close h =>
    simp only [step?] at hs
    repeat' split at hs
    all_goals first | (simp at hs; done) | skip
    all_goals (simp only [Option.some.injEq] at hs; subst hs; intro h'; have := hI h'; simp [setH, upd] at *; first | done | grind)
  | fork =>
    simp only [step?] at hs
    split at hs
    · simp only [Option.some.injEq] at hs; subst hs
      have hz : ∀ h', (s.snd.map fun x => ({ x with pc := .idle, sent := false } : Sender)).countP (preX h') = 0 := by
        intro h'; rw [List.countP_eq_zero]; intro a ha
        simp only [List.mem_map] at ha; obtain ⟨y, _, rfl⟩ := ha; simp [preX]
      intro h'
      have := hI h'
      simp only [hz]
      split <;> (simp at *; omega)
    · simp at hs
  | eintr w => cases step?_eintr hs; exact hI
  | closeCbs =>
    simp only [step?] at hs
    repeat' split at hs
    all_goals first | (simp at hs; done) | skip
    all_goals (simp only [Option.some.injEq] at hs; subst hs; intro h'; have := hI h'; simp at *; first | done | grind)

theorem sendsLe_run {s : State} (acts : List Act) (hI : SendsLe s) : SendsLe (run s acts) := by
  induction acts generalizing s with
  | nil => exact hI
  | cons a as ih =>
    apply ih
    unfold step
    cases h : step? s a with
    | none => simpa using hI
    | some s' => simpa using sendsLe_step hI h

theorem sendsLe_reachable {s : State} (h : Reachable s) : SendsLe s := by
  obtain ⟨nh, ns, cap, acts, rfl⟩ := h
  apply sendsLe_run
  intro h
  have : (List.replicate ns ({} : Sender)).countP (preX h) = 0 := by
    rw [List.countP_eq_zero]; intro a ha; rw [List.mem_replicate] at ha; simp [ha.2, preX]
  simp [init, this]

/-! ## the callback starts with the flag cleared and sees every send begun so far -/
theorem cb_start_step {s s' : State} {h : Nat} (hs : step? s .loop = some s') (hc : (s'.hs h).cbs ≠ (s.hs h).cbs) :
    s.lpc = .scan h ∧ (s.hs h).pending ≠ 0 ∧ s'.lpc = .inCb h ∧ (s'.hs h).pending = 0 ∧
    (s'.hs h).cbs = (s.hs h).cbs + 1 ∧ (s'.hs h).seen = (s'.hs h).pub ∧ s'.efd = s.efd := by
  simp only [step?, loopStep] at hs
  cases hl : s.lpc <;> simp only [hl] at hs <;> (try split at hs) <;> (try (simp at hs; done)) <;>
    (simp only [Option.some.injEq] at hs; subst hs; simp [setH, upd] at * <;> first | done | grind)

/-- no other action ever changes a callback count -/
theorem cbs_only_loop {s s' : State} {a : Act} (hs : step? s a = some s') (ha : a ≠ .loop) (h : Nat) :
    (s'.hs h).cbs = (s.hs h).cbs := by
  cases a with
  | loop => exact absurd rfl ha
  | begin t h0 =>
    simp only [step?] at hs
    repeat' split at hs
    all_goals first | (simp at hs; done) | skip
    all_goals (simp only [Option.some.injEq] at hs; subst hs; simp [setSnd, setH, upd]; first | done | grind)
  | snd t =>
    simp only [step?, sndStep] at hs
    repeat' split at hs
    all_goals first | (simp at hs; done) | skip
    all_goals (simp only [Option.some.injEq] at hs; subst hs; simp [setSnd, setH, upd]; first | done | grind)
  | close h0 =>
    simp only [step?] at hs
    repeat' split at hs
    all_goals first | (simp at hs; done) | skip
    all_goals (simp only [Option.some.injEq] at hs; subst hs; simp [setH, upd]; first | done | grind)
  | fork =>
    simp only [step?] at hs
    split at hs
    · simp only [Option.some.injEq] at hs; subst hs; simp; split <;> rfl
    · simp at hs
  | eintr w => cases step?_eintr hs; rfl
  | closeCbs =>
    simp only [step?] at hs
    repeat' split at hs
    all_goals first | (simp at hs; done) | skip
    all_goals (simp only [Option.some.injEq] at hs; subst hs; simp; first | done | grind)

end UvModel.Async
