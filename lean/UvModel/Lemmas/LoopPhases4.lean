import UvModel.Lemmas.LoopPhases3
import UvModel.Lemmas.LoopClose4
/-!
  `watcher_once`, the "exactly once" half: a watcher that is in the detached queue, whose record exists, and which no
  callback of the phase stops or closes, is called exactly once by `uv__run_idle/prepare/check`.
-/
namespace UvModel.Loop.Phases
open UvModel.Loop UvModel.HandleKernels

/-- `id` stays in the detached queue, keeps its record, and the simulator is not halted -/
def Stay (id : Nat) (s s' : State) : Prop :=
  (id ∈ s.watcherLocal → id ∈ s'.watcherLocal) ∧ (id ∈ hids s → id ∈ hids s') ∧ s'.halted = s.halted

theorem Stay.refl (id : Nat) (s : State) : Stay id s s := ⟨fun h => h, fun h => h, rfl⟩
theorem Stay.trans {id : Nat} {a b c : State} (h1 : Stay id a b) (h2 : Stay id b c) : Stay id a c :=
  ⟨fun h => h2.1 (h1.1 h), fun h => h2.2.1 (h1.2.1 h), h2.2.2.trans h1.2.2⟩

def WLk (id : Nat) (s s' : State) : Prop := id ∈ s.watcherLocal → id ∈ s'.watcherLocal
theorem WLk.of_eq {id : Nat} {s s' : State} (h : ow s' = ow s) : WLk id s s' := by
  simp only [ow, Prod.mk.injEq] at h
  intro hm; rw [h.2]; exact hm

theorem WLk_watcherStop {id j : Nat} (hne : j ≠ id) (s : State) (k : WKind) : WLk id s (watcherStop s k j) := by
  unfold watcherStop; split; · exact fun h => h
  intro hm
  have : id ∈ s.watcherLocal.filter (· != j) := by
    simp only [List.mem_filter, bne_iff_ne, ne_eq]
    exact ⟨hm, fun h => hne h.symm⟩
  cases k <;> exact this

theorem WLk_closeKind {id j : Nat} (hne : j ≠ id) (s : State) (k : Kind) : WLk id s (closeKind s k j) := by
  cases k <;> simp only [closeKind] <;>
    first | exact WLk_watcherStop hne _ _ | (apply WLk.of_eq; rfl) | (apply WLk.of_eq; simp)

theorem WLk_closeH {id j : Nat} (hne : j ≠ id) (s : State) (k : Kind) : WLk id s (closeH s k j) := by
  show WLk id s (makeClosePending (closeKind (withKernel s j setClosing) k j) j)
  exact WLk_closeKind hne (withKernel s j setClosing) k

theorem WLk_applyOp (id : Nat) (s : State) (o : Op) (h1 : o ≠ .stop id) (h2 : o ≠ .close id) :
    WLk id s (applyOp s o).1 := by
  unfold applyOp
  split
  · exact WLk.of_eq rfl
  · cases o with
    | stop j =>
      have hne : j ≠ id := fun e => h1 (e ▸ rfl)
      simp only
      repeat' split
      all_goals first | exact WLk.of_eq rfl | exact WLk_watcherStop hne _ _ | (apply WLk.of_eq; simp [ok]) | (apply WLk.of_eq; simp [ok]; rfl)
    | close j =>
      have hne : j ≠ id := fun e => h2 (e ▸ rfl)
      simp only
      repeat' split
      all_goals first | exact WLk.of_eq rfl | exact WLk_closeH hne _ _
    | _ =>
      simp only
      repeat' split
      all_goals first | exact WLk.of_eq rfl | (apply WLk.of_eq; simp [ok]) | (apply WLk.of_eq; simp [ok]; rfl)

theorem Stay_stepOp (id : Nat) (s : State) (o : Op) (h1 : o ≠ .stop id) (h2 : o ≠ .close id) : Stay id s (stepOp s o) := by
  refine ⟨?_, ?_, ?_⟩
  · intro hm
    have := WLk_applyOp id s o h1 h2 hm
    unfold stepOp
    have e : ow (emitObs (emit (applyOp s o).1 (.op o (applyOp s o).2))) = ow (applyOp s o).1 := by simp
    simp only [ow, Prod.mk.injEq] at e
    exact e.2 ▸ this
  · intro hm
    have hk : id ∈ hids (applyOp s o).1 := by
      rcases applyOp_keep s o with h | ⟨j, h, _⟩ | ⟨j, s2, hk, he, _⟩
      · exact h.1.hold id hm
      · exact h.1.hold id hm
      · rw [he]; exact hk.1.hold id hm
    exact (KeepQ.of_kp (kp_stepOp s o)).1.hold id hk
  · exact (WFStep.stepOp s o).2.2

theorem Stay_foldl (id : Nat) (ops : List Op) (s : State) (h : ∀ o ∈ ops, o ≠ .stop id ∧ o ≠ .close id) :
    Stay id s (ops.foldl stepOp s) := by
  induction ops generalizing s with
  | nil => exact Stay.refl _ _
  | cons o t ih =>
    exact (Stay_stepOp id s o (h o List.mem_cons_self).1 (h o List.mem_cons_self).2).trans
      (ih _ (fun o' ho' => h o' (List.mem_cons_of_mem _ ho')))

theorem Stay.of_eq {id : Nat} {s s' : State} (h1 : ow s' = ow s) (h2 : kp s' = kp s) : Stay id s s' := by
  simp only [ow, Prod.mk.injEq] at h1
  exact ⟨fun hm => h1.2 ▸ hm, fun hm => (KeepQ.of_kp h2).1.hold id hm, (KeepQ.of_kp h2).1.halted⟩

theorem Stay_emit (id : Nat) (s : State) (e : Event) : Stay id s (emit s e) := Stay.of_eq (ow_emit s e) (kp_emit s e)
theorem Stay_emitObs (id : Nat) (s : State) : Stay id s (emitObs s) := Stay.of_eq (ow_emitObs s) (kp_emitObs s)

/-- scripts that never stop or close handle `id` -/
def NoStop (sc : Script) (id : Nat) : Prop := ∀ key occ g, ∀ o ∈ sc key occ g, o ≠ Op.stop id ∧ o ≠ Op.close id

theorem Stay_runCb (id : Nat) (sc : Script) (hsc : NoStop sc id) (ph : Phase) (k : CbKind) (key : CbKey) (i : Nat) (a b : Int)
    (occ : Nat) (s : State) : Stay id s (runCb sc ph k key i a b occ s) := by
  unfold runCb
  simp only
  refine Stay.trans ?_ (Stay_emitObs id _)
  refine Stay.trans ?_ (Stay_emit id _ _)
  refine Stay.trans ?_ (Stay_foldl id _ _ (hsc _ _ _))
  refine Stay.trans ?_ (Stay_emitObs id _)
  refine Stay.trans ?_ (Stay_emit id _ _)
  exact Stay.of_eq rfl rfl

theorem Stay_runHandleCb (id : Nat) (sc : Script) (hsc : NoStop sc id) (ph : Phase) (k : CbKind) (i : Nat) (a b : Int)
    (s : State) : Stay id s (runHandleCb sc ph k i a b s) := by
  unfold runHandleCb
  split
  · exact Stay.refl _ _
  · refine Stay.trans ?_ (Stay_runCb id sc hsc _ _ _ _ _ _ _ _)
    exact ⟨fun h => h, fun h => by rw [hids_modH _ _ _ (by intro _; rfl)]; exact h, rfl⟩

section
variable (f : Event → Bool) (hop : ∀ o r, f (.op o r) = false) (hobs : ∀ o, f (.obs o) = false)
  (hend : f .endcb = false)
include hop hobs hend

omit hop hobs hend in
theorem cntF_emit_eq (s : State) (e : Event) (hh : s.halted = false) :
    cntF f (emit s e).trace = cntF f s.trace + (if f e then 1 else 0) := by
  unfold emit cntF
  simp only [hh, Bool.false_eq_true, if_false, List.filter_cons]
  split <;> simp

theorem cntF_runCb_eq (sc : Script) (ph : Phase) (k : CbKind) (key : CbKey) (id : Nat) (a b : Int) (occ : Nat) (s : State)
    (hh : s.halted = false) :
    cntF f (runCb sc ph k key id a b occ s).trace = cntF f s.trace + (if f (.cb ph k id a b) then 1 else 0) := by
  unfold runCb
  simp only
  rw [cntF_emitObs f hobs, cntF_emit_false f _ _ hend, cntF_foldl f hop hobs, cntF_emitObs f hobs]
  exact cntF_emit_eq f { s with ncbTotal := s.ncbTotal + 1 } _ hh

theorem cntF_runCb_false (sc : Script) (ph : Phase) (k : CbKind) (key : CbKey) (id : Nat) (a b : Int) (occ : Nat) (s : State)
    (hf : f (.cb ph k id a b) = false) : cntF f (runCb sc ph k key id a b occ s).trace = cntF f s.trace := by
  unfold runCb
  simp only
  rw [cntF_emitObs f hobs, cntF_emit_false f _ _ hend, cntF_foldl f hop hobs, cntF_emitObs f hobs]
  exact cntF_emit_false f { s with ncbTotal := s.ncbTotal + 1 } _ hf

theorem cntF_runHandleCb_eq (sc : Script) (ph : Phase) (k : CbKind) (id : Nat) (a b : Int) (s : State)
    (hh : s.halted = false) (hp : id ∈ hids s) :
    cntF f (runHandleCb sc ph k id a b s).trace = cntF f s.trace + (if f (.cb ph k id a b) then 1 else 0) := by
  unfold runHandleCb
  split
  · rename_i hg; exact absurd hp ((getH_none_iff s id).mp hg)
  · exact cntF_runCb_eq f hop hobs hend sc ph k _ id a b _ (modH s id _) hh

theorem cntF_runHandleCb_false (sc : Script) (ph : Phase) (k : CbKind) (id : Nat) (a b : Int) (s : State)
    (hf : f (.cb ph k id a b) = false) : cntF f (runHandleCb sc ph k id a b s).trace = cntF f s.trace := by
  unfold runHandleCb
  split
  · rfl
  · exact cntF_runCb_false f hop hobs hend sc ph k _ id a b _ (modH s id _) hf
end

theorem cntF_mono (f : Event → Bool) {s s' : State} (h : TrX s s') : cntF f s.trace ≤ cntF f s'.trace := by
  obtain ⟨new, e⟩ := h
  simp only [cntF, e, List.filter_append, List.length_append]; omega

section
variable (f : Event → Bool) (hop : ∀ o r, f (.op o r) = false) (hobs : ∀ o, f (.obs o) = false)
  (hend : f .endcb = false) (k : WKind) (id : Nat)
  (hcb : ∀ ph kk i a b, f (.cb ph kk i a b) = (kk == wCb k && i == id))
include hop hobs hend hcb

/-- a handle in the detached queue whose record exists and which no callback stops or closes is called exactly once -/
theorem runWatchersLoop_cnt_eq (sc : Script) (hsc : NoStop sc id) (fuel : Nat) (s : State) (hn : s.watcherLocal.Nodup)
    (hh : s.halted = false) (hm : id ∈ s.watcherLocal) (hp : id ∈ hids s) (hl : s.watcherLocal.length < fuel) :
    cntF f (runWatchersLoop sc k fuel s).trace = cntF f s.trace + 1 := by
  induction fuel generalizing s with
  | zero => exact absurd hl (Nat.not_lt_zero _)
  | succ n ih =>
    unfold runWatchersLoop
    split
    · rename_i heq; rw [heq] at hm; cases hm
    · rename_i j rest heq
      simp only
      have f1 : (setWList { s with watcherLocal := rest } k (wList { s with watcherLocal := rest } k ++ [j])).watcherLocal = rest ∧
          (setWList { s with watcherLocal := rest } k (wList { s with watcherLocal := rest } k ++ [j])).trace = s.trace ∧
          hids (setWList { s with watcherLocal := rest } k (wList { s with watcherLocal := rest } k ++ [j])) = hids s ∧
          (setWList { s with watcherLocal := rest } k (wList { s with watcherLocal := rest } k ++ [j])).halted = s.halted := by
        cases k <;> exact ⟨rfl, rfl, rfl, rfl⟩
      generalize setWList { s with watcherLocal := rest } k (wList { s with watcherLocal := rest } k ++ [j]) = s1 at f1 ⊢
      obtain ⟨w1, t1, i1, a1⟩ := f1
      have hw := (OW_runHandleCb sc (wPhase k) (wCb k) j 0 0 s1).2
      rw [w1] at hw
      rw [heq] at hn hm hl
      obtain ⟨hj, hr⟩ := List.nodup_cons.1 hn
      by_cases hji : j = id
      · subst hji
        have hc := cntF_runHandleCb_eq f hop hobs hend sc (wPhase k) (wCb k) j 0 0 s1 (a1.trans hh) (i1 ▸ hp)
        rw [t1, hcb] at hc
        simp only [beq_self_eq_true, Bool.and_self, if_true] at hc
        generalize runHandleCb sc (wPhase k) (wCb k) j 0 0 s1 = s2 at hc hw ⊢
        have hnot : j ∉ s2.watcherLocal := fun h => hj (hw.subset h)
        have hup := runWatchersLoop_cnt f hop hobs hend k j hcb sc n s2 (hw.nodup hr)
        rw [if_neg hnot] at hup
        have hlo := cntF_mono f (trX.runWatchersLoop sc k n s2)
        omega
      · have hfalse : f (.cb (wPhase k) (wCb k) j 0 0) = false := by rw [hcb]; simp [hji]
        have hc := cntF_runHandleCb_false f hop hobs hend sc (wPhase k) (wCb k) j 0 0 s1 hfalse
        rw [t1] at hc
        have hst := Stay_runHandleCb id sc hsc (wPhase k) (wCb k) j 0 0 s1
        have hm1 : id ∈ s1.watcherLocal := by
          rw [w1]
          rcases List.mem_cons.mp hm with h | h
          · exact absurd h.symm hji
          · exact h
        generalize runHandleCb sc (wPhase k) (wCb k) j 0 0 s1 = s2 at hc hw hst ⊢
        have := ih s2 (hw.nodup hr) (hst.2.2.trans (a1.trans hh)) (hst.1 hm1) (hst.2.1 (i1 ▸ hp))
          (by have := hw.length_le; simp at hl; omega)
        omega

theorem runWatchers_cnt_eq (sc : Script) (hsc : NoStop sc id) (s : State) (hn : (wList s k).Nodup) (hh : s.halted = false)
    (hm : id ∈ wList s k) (hp : id ∈ hids s) :
    cntF f (runWatchers sc k s).trace = cntF f s.trace + 1 := by
  unfold runWatchers
  simp only
  have f1 : (setWList { s with watcherLocal := wList s k } k []).watcherLocal = wList s k ∧
      (setWList { s with watcherLocal := wList s k } k []).trace = s.trace ∧
      hids (setWList { s with watcherLocal := wList s k } k []) = hids s ∧
      (setWList { s with watcherLocal := wList s k } k []).halted = s.halted := by
    cases k <;> exact ⟨rfl, rfl, rfl, rfl⟩
  generalize setWList { s with watcherLocal := wList s k } k [] = s1 at f1 ⊢
  obtain ⟨w1, t1, i1, a1⟩ := f1
  have := runWatchersLoop_cnt_eq f hop hobs hend k id hcb sc hsc (s1.watcherLocal.length + 1) s1 (by rw [w1]; exact hn)
    (a1.trans hh) (by rw [w1]; exact hm) (i1 ▸ hp) (Nat.lt_succ_self _)
  rw [t1] at this
  exact this
end

end UvModel.Loop.Phases
