import UvModel.Lemmas.IoWatchK2
/-! C14: `FInv` through user operations, callbacks and event dispatch -/
namespace UvModel.IoWatch

theorem KCore.openFd {s : St} (c : KCore s) (fd : Nat) (h : s.k.ofdAt fd = none) :
    KCore { s with k := s.k.openFd fd } := by
  have hof : ∀ g, (s.k.openFd fd).ofdAt g = if g = fd then some s.k.nextOfd else s.k.ofdAt g := by
    intro g; exact lookup_append_new s.k.fdtab fd s.k.nextOfd g h
  refine c.kernel _ ?_ (fun _ _ _ => rfl) (fun _ _ _ => rfl)
  intro g o ho _
  rw [hof, if_neg]; exact ho
  intro e; rw [e, h] at ho; cases ho

theorem closeFd_spec (k : Kernel) (fd o : Nat) (h : k.ofdAt fd = some o) :
    (∀ g, (k.closeFd fd).ofdAt g = if g = fd then none else k.ofdAt g) ∧
    (∀ o' g, (k.closeFd fd).maskAt o' g ≠ none → (k.closeFd fd).maskAt o' g = k.maskAt o' g) ∧
    (∀ o' g, (k.closeFd fd).ofdAt g = some o' → (k.closeFd fd).maskAt o' g = k.maskAt o' g) := by
  unfold Kernel.closeFd; simp only [h]
  generalize hk1 : ({ k with fdtab := k.fdtab.filter (·.1 != fd) } : Kernel) = k1
  have hof1 : ∀ g, k1.ofdAt g = if g = fd then none else k.ofdAt g := by
    intro g; rw [← hk1]; exact lookup_filter_ne k.fdtab fd g
  have hm1 : ∀ o' g, k1.maskAt o' g = k.maskAt o' g := by intro o' g; rw [← hk1]; rfl
  obtain ⟨g1, g2⟩ := gc_spec k1 o
  refine ⟨fun g => by rw [g1, hof1], fun o' g hne => ?_, fun o' g ho => ?_⟩
  · rw [g2] at hne ⊢
    split
    · rename_i hc; rw [if_pos hc] at hne; exact absurd rfl hne
    · exact hm1 o' g
  · rw [g1] at ho
    rw [g2, if_neg, hm1]
    intro hc; have := refd_of_ofdAt k1 g o' ho; rw [hc.2, hc.1] at this; cases this

theorem closeDup_spec (k : Kernel) (d : Nat) :
    (∀ g, (k.closeDup d).ofdAt g = k.ofdAt g) ∧
    (∀ o' g, (k.closeDup d).maskAt o' g ≠ none → (k.closeDup d).maskAt o' g = k.maskAt o' g) ∧
    (∀ o' g, (k.closeDup d).ofdAt g = some o' → (k.closeDup d).maskAt o' g = k.maskAt o' g) := by
  unfold Kernel.closeDup
  cases hd : k.dups.lookup d with
  | none => exact ⟨fun _ => rfl, fun _ _ _ => rfl, fun _ _ _ => rfl⟩
  | some o =>
    simp only []
    generalize hk1 : ({ k with dups := k.dups.filter (·.1 != d) } : Kernel) = k1
    have hof1 : ∀ g, k1.ofdAt g = k.ofdAt g := by intro g; rw [← hk1]; rfl
    have hm1 : ∀ o' g, k1.maskAt o' g = k.maskAt o' g := by intro o' g; rw [← hk1]; rfl
    obtain ⟨g1, g2⟩ := gc_spec k1 o
    refine ⟨fun g => by rw [g1, hof1], fun o' g hne => ?_, fun o' g ho => ?_⟩
    · rw [g2] at hne ⊢
      split
      · rename_i hc; rw [if_pos hc] at hne; exact absurd rfl hne
      · exact hm1 o' g
    · rw [g1] at ho
      rw [g2, if_neg, hm1]
      intro hc; have := refd_of_ofdAt k1 g o' ho; rw [hc.2, hc.1] at this; cases this

theorem KCore.closeFd {s : St} (c : KCore s) (fd : Nat) (hidle : fdIdle s fd = true) :
    KCore { s with k := s.k.closeFd fd } := by
  cases ho : s.k.ofdAt fd with
  | none =>
    have : s.k.closeFd fd = s.k := by unfold Kernel.closeFd; simp [ho]
    rw [this]; exact c.frame rfl rfl rfl rfl rfl rfl
  | some o =>
    obtain ⟨h1, h2, h3⟩ := closeFd_spec s.k fd o ho
    refine c.kernel _ ?_ h2 h3
    intro g o' hg ⟨id, hl, hfd, hcl, hcn⟩
    rw [h1, if_neg]; exact hg
    intro e
    -- a live, started handle on the descriptor being closed contradicts the close discipline
    simp [fdIdle] at hidle
    have hm : s.ws[id] ∈ s.ws := List.getElem_mem hl
    have hgw : getW s id = s.ws[id] := by simp [getW, List.getD_eq_getElem?_getD, hl]
    have := hidle _ hm
    rw [← hgw] at this
    rcases this with (h | h) | h
    · exact h (by rw [hfd, e])
    · rw [hcl] at h; cases h
    · exact hcn ⟨h.1, h.2⟩

theorem KCore.closeDup {s : St} (c : KCore s) (d : Nat) : KCore { s with k := s.k.closeDup d } := by
  obtain ⟨h1, h2, h3⟩ := closeDup_spec s.k d
  exact c.kernel _ (fun g o hg _ => by rw [h1]; exact hg) h2 h3

theorem KCore.dupFd {s : St} (c : KCore s) (fd : Nat) : KCore { s with k := s.k.dupFd fd } := by
  have : ∀ g, (s.k.dupFd fd).ofdAt g = s.k.ofdAt g := by
    intro g; unfold Kernel.dupFd; split <;> rfl
  have hm : ∀ o g, (s.k.dupFd fd).maskAt o g = s.k.maskAt o g := by
    intro o g; unfold Kernel.dupFd; split <;> rfl
  exact c.kernel _ (fun g o hg _ => by rw [this]; exact hg) (fun o g _ => hm o g) (fun o g _ => hm o g)

theorem liveId_spec (s : St) (id : Nat) (p : Bool) (h : liveId s id p = true) :
    id < s.ws.length ∧ (getW s id).poll = p ∧ (getW s id).closing = false := by
  simp [liveId] at h; exact ⟨h.1.1, h.1.2, h.2⟩

theorem doOp_kcore {s : St} (f : FInv s) (o : Op) : KCore (doOp s o) := by
  have c := f.kc
  cases o <;> simp only [doOp]
  case openfd fd k =>
    split
    · exact c.emit _
    · rename_i h
      have : s.k.ofdAt fd = none := by cases hh : s.k.ofdAt fd <;> simp_all
      exact (c.openFd fd this).emit _
  case closefd fd =>
    split
    · rename_i h; simp [c.multi] at h
      exact (c.closeFd fd h.2).emit _
    · exact c.emit _
  case dupfd fd => split; exact (c.dupFd fd).emit _; exact c.emit _
  case closedup d => split; exact (c.closeDup d).emit _; exact c.emit _
  case peer a b => exact c
  case pinit fd =>
    split
    · exact c.emit _
    · rename_i hg
      have hg' : fdTaken s fd = false ∨ fdExists s fd = true := by
        cases h1 : fdTaken s fd
        · left; rfl
        · right; cases h2 : fdExists s fd
          · simp [h1, h2] at hg
          · rfl
      have := pollInit_kcore c fd hg'
      split
      · rename_i h; rw [h] at this; exact this.emit _
      · rename_i h; rw [h] at this; split
        · exact this
        · exact this.emit _
  case pstart id u =>
    split
    · rename_i h; simp at h
      obtain ⟨hl, _, hcl⟩ := liveId_spec s id true h.1
      exact (pollStart_kcore f id u hl hcl h.2).emit _
    · exact c.emit _
  case pstop id =>
    split
    · rename_i h
      obtain ⟨hl, _, hcl⟩ := liveId_spec s id true h
      exact (pollStop_kcore f id hl hcl).1.emit _
    · exact c.emit _
  case pclose id =>
    split
    · rename_i h
      obtain ⟨hl, _, hcl⟩ := liveId_spec s id true h
      exact (pollClose_kcore f id hl hcl).emit _
    · exact c.emit _
  case ioinit fd =>
    split
    · exact c.emit _
    · rename_i h
      have hfree := free_of_not_taken c fd (by simpa using h)
      exact (c.push { fd := fd, poll := false } rfl rfl (fun j hj hfd => hfree j hj hfd)).emit _
  case iostart id m =>
    split
    · rename_i h; simp at h
      obtain ⟨hl, _, hcl⟩ := liveId_spec s id false h.1.1.1
      have hv := valid4_spec m h.1.1.2
      have hw : watcherAt s (getW s id).fd = none ∨ watcherAt s (getW s id).fd = some id := by
        cases hh : watcherAt s (getW s id).fd with
        | none => left; rfl
        | some x =>
          right
          rcases h.2 with h2 | h2
          · simp [fdExists, hh] at h2
          · rw [hh] at h2; exact h2
      exact (c.start id m hl hv.2.2 hcl h.1.2 hw).emit _
    · exact c.emit _
  case iostop id m =>
    split
    · exact (c.stop f.si id m).emit _
    · exact c.emit _
  case ioclose id =>
    split
    · rename_i h
      obtain ⟨hl, _, hcl⟩ := liveId_spec s id false h
      exact (ioClose_kcore f id hl hcl).emit _
    · exact c.emit _
  case iofeed id =>
    split
    · refine KCore.emit ?_ _
      unfold ioFeed; split
      · exact c
      · exact c.frame rfl rfl rfl rfl rfl rfl
    · exact c.emit _

theorem execOp_finv {s : St} (f : FInv s) (o : Op) : FInv (execOp s o) := by
  refine ⟨f.si.reach (reach_execOp s o), ?_⟩
  unfold execOp; split
  · exact f.kc
  · have f1 : FInv (emit s (.op o)) := ⟨f.si.reach (same_emit _ _).reach, f.kc.emit _⟩
    exact (doOp_kcore f1 o).emit _

theorem execOps_finv {s : St} (f : FInv s) (ops : List Op) : FInv (execOps s ops) := by
  unfold execOps
  induction ops generalizing s with
  | nil => exact f
  | cons o r ih => exact ih (execOp_finv f o)

theorem deliver_finv (sc : Script) {s : St} (f : FInv s) (id : Nat) (ev : Mask) : FInv (deliver sc s id ev) := by
  refine ⟨f.si.reach (reach_deliver sc s id ev), ?_⟩
  have f0 : FInv (setW s id { getW s id with cbs := (getW s id).cbs + 1 }) :=
    ⟨f.si.reach (reach_setFlags s id _ rfl rfl rfl), f.kc.setFlags id _ rfl rfl rfl rfl rfl⟩
  unfold deliver; simp only []
  split
  · split
    · have f1 : FInv (ioStop (setW s id { getW s id with cbs := (getW s id).cbs + 1 }) id Mask.all4) :=
        ⟨f0.si.stop id _, f0.kc.stop f0.si id _⟩
      have f2 : FInv (setW (ioStop (setW s id { getW s id with cbs := (getW s id).cbs + 1 }) id Mask.all4) id
          { getW (ioStop (setW s id { getW s id with cbs := (getW s id).cbs + 1 }) id Mask.all4) id with active := false }) :=
        ⟨f1.si.reach (reach_setFlags _ id _ rfl rfl rfl), f1.kc.setFlags id _ rfl rfl rfl rfl rfl⟩
      have f3 : FInv (emit (setW (ioStop (setW s id { getW s id with cbs := (getW s id).cbs + 1 }) id Mask.all4) id
          { getW (ioStop (setW s id { getW s id with cbs := (getW s id).cbs + 1 }) id Mask.all4) id with active := false })
          (.cbPoll id (-9) UvEv.none)) := ⟨f2.si.reach (same_emit _ _).reach, f2.kc.emit _⟩
      exact (execOps_finv f3 _).kc
    · have f3 : FInv (emit (setW s id { getW s id with cbs := (getW s id).cbs + 1 }) (.cbPoll id 0 (pollToUv ev))) :=
        ⟨f0.si.reach (same_emit _ _).reach, f0.kc.emit _⟩
      exact (execOps_finv f3 _).kc
  · have f3 : FInv (emit (setW s id { getW s id with cbs := (getW s id).cbs + 1 }) (.cbIo id ev)) :=
      ⟨f0.si.reach (same_emit _ _).reach, f0.kc.emit _⟩
    exact (execOps_finv f3 _).kc

theorem dispatchOne_finv (sc : Script) {s : St} (f : FInv s) (i : Nat) : FInv (dispatchOne sc s i).1 := by
  refine ⟨f.si.reach (reach_dispatchOne sc s i), ?_⟩
  unfold dispatchOne
  split
  · exact f.kc
  · rename_i fd m _
    split
    · exact f.kc.abort
    · split
      · rename_i hw
        refine (f.kc.ctlDel fd _ _ ?_).1
        intro id hl hfd
        by_cases he : (getW s id).events = Mask.none
        · exact he
        · have hp : (getW s id).pevents ≠ Mask.none := fun h0 => he (f.kc.quiet id h0)
          have := (f.kc.live id hl hp).2.2.2
          rw [hfd, hw] at this; cases this
      · simp only []; split
        · exact (deliver_finv sc f _ _).kc
        · exact f.kc

theorem dispatchFrom_finv (sc : Script) {s : St} (f : FInv s) (i n : Nat) : FInv (dispatchFrom sc s i n).1 := by
  induction n generalizing s i with
  | zero => exact f
  | succ n ih =>
    unfold dispatchFrom; split
    · exact f
    · exact ih (dispatchOne_finv sc f i) _

end UvModel.IoWatch
