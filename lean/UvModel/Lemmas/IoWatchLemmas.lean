import UvModel.IoWatch
/-! helper lemmas for C14: list facts, the step relation every model function decomposes into, and
the structural invariant `SInv` preserved by every step -/
namespace UvModel.IoWatch

theorem Mask.sub_refl (a : Mask) : a.sub a := by
  cases a; simp [Mask.sub, Mask.and]

/-! ### lists -/

theorem countP_set_some (l : List (Option Nat)) (i x : Nat) (h : i < l.length) (hn : l.getD i none = none) :
    (l.set i (some x)).countP Option.isSome = l.countP Option.isSome + 1 := by
  induction l generalizing i with
  | nil => simp at h
  | cons a t ih =>
    cases i with
    | zero => simp at hn; subst hn; simp
    | succ j =>
      simp at h hn
      simp [List.countP_cons, ih j h (by simpa using hn)]; omega

theorem countP_set_none (l : List (Option Nat)) (i x : Nat) (hn : l.getD i none = some x) :
    (l.set i none).countP Option.isSome + 1 = l.countP Option.isSome := by
  induction l generalizing i with
  | nil => simp at hn
  | cons a t ih =>
    cases i with
    | zero => simp at hn; subst hn; simp
    | succ j =>
      simp at hn
      simp [List.countP_cons]; have := ih j (by simpa using hn); omega

theorem getD_set_eq (l : List (Option Nat)) (i j : Nat) (v : Option Nat) :
    (l.set i v).getD j none = if i = j ∧ i < l.length then v else l.getD j none := by
  simp [List.getD_eq_getElem?_getD, List.getElem?_set]
  split <;> split <;> simp_all
  all_goals (try omega)

theorem getD_append_replicate (l : List (Option Nat)) (n j : Nat) :
    (l ++ List.replicate n none).getD j none = l.getD j none := by
  simp [List.getD_eq_getElem?_getD, List.getElem?_append]
  split
  · rfl
  · rename_i h
    have : l[j]? = none := by simp; omega
    simp [this, List.getElem?_replicate]
    split <;> rfl

theorem some_getD_lt (l : List (Option Nat)) (j x : Nat) (h : l.getD j none = some x) : j < l.length := by
  by_cases hj : j < l.length
  · exact hj
  · simp [List.getD_eq_getElem?_getD] at h
    have : l[j]? = none := by simp; omega
    simp [this] at h

/-! ### watcher table access -/

theorem getW_setW (s : St) (id j : Nat) (w : W) :
    getW (setW s id w) j = if j = id ∧ id < s.ws.length then w else getW s j := by
  simp [getW, setW, List.getD_eq_getElem?_getD, List.getElem?_set]
  split <;> split <;> simp_all
  all_goals (try omega)
  all_goals (rename_i h1 h2; have : s.ws[j]? = none := by simp; omega)
  all_goals simp [this]

@[simp] theorem setW_len (s : St) (id : Nat) (w : W) : (setW s id w).ws.length = s.ws.length := by
  simp [setW]

/-! ### the frame: what a step that is neither start, stop nor queue application keeps -/

structure Kept (s s' : St) : Prop where
  watchers : s'.watchers = s.watchers
  nfds : s'.nfds = s.nfds
  wq : s'.wq = s.wq
  len : s.ws.length ≤ s'.ws.length
  core : ∀ id, id < s.ws.length → (getW s' id).fd = (getW s id).fd ∧
    (getW s' id).pevents = (getW s id).pevents ∧ (getW s' id).events = (getW s id).events
  fresh : ∀ id, s.ws.length ≤ id → (getW s' id).pevents = Mask.none ∧ (getW s' id).events = Mask.none
  old : ∀ id, s.ws.length ≤ id → (getW s id).pevents = Mask.none ∧ (getW s id).events = Mask.none

theorem getW_oob (s : St) (id : Nat) (h : s.ws.length ≤ id) : getW s id = default := by
  simp [getW, List.getD_eq_getElem?_getD]
  have : s.ws[id]? = none := by simp; omega
  simp [this]

theorem Kept.rfl' (s : St) : Kept s s :=
  ⟨rfl, rfl, rfl, Nat.le_refl _, fun _ _ => ⟨rfl, rfl, rfl⟩,
   fun id h => by rw [getW_oob s id h]; exact ⟨rfl, rfl⟩, fun id h => by rw [getW_oob s id h]; exact ⟨rfl, rfl⟩⟩

/-- only fields other than ws/watchers/nfds/wq differ -/
theorem Kept.of_eq {s s' : St} (h1 : s'.ws = s.ws) (h2 : s'.watchers = s.watchers) (h3 : s'.nfds = s.nfds)
    (h4 : s'.wq = s.wq) : Kept s s' := by
  have hg : ∀ id, getW s' id = getW s id := by intro id; simp [getW, h1]
  refine ⟨h2, h3, h4, by simp [h1], fun id _ => by simp [hg], fun id h => ?_, fun id h => ?_⟩
  · rw [hg, getW_oob s id h]; exact ⟨rfl, rfl⟩
  · rw [getW_oob s id h]; exact ⟨rfl, rfl⟩

/-- a watcher record rewritten without touching fd/pevents/events -/
theorem Kept.setW (s : St) (id : Nat) (w : W) (hf : w.fd = (getW s id).fd)
    (hp : w.pevents = (getW s id).pevents) (he : w.events = (getW s id).events) : Kept s (setW s id w) := by
  refine ⟨rfl, rfl, rfl, by simp, fun j _ => ?_, fun j h => ?_, fun j h => ?_⟩
  · rw [getW_setW]; split
    · rename_i h; rw [h.1]; exact ⟨hf, hp, he⟩
    · exact ⟨rfl, rfl, rfl⟩
  · rw [getW_setW]; split
    · rename_i h'; omega
    · rw [getW_oob s j h]; exact ⟨rfl, rfl⟩
  · rw [getW_oob s j h]; exact ⟨rfl, rfl⟩

/-- a new, stopped watcher appended -/
theorem Kept.push (s : St) (w : W) (hp : w.pevents = Mask.none) (he : w.events = Mask.none) :
    Kept s { s with ws := s.ws ++ [w] } := by
  refine ⟨rfl, rfl, rfl, by simp, fun j hj => ?_, fun j h => ?_, fun j h => ?_⟩
  · simp [getW, List.getD_eq_getElem?_getD, List.getElem?_append, hj]
  · simp [getW, List.getD_eq_getElem?_getD, List.getElem?_append]
    have h1 : ¬ j < s.ws.length := by omega
    simp [h1]
    by_cases h2 : j - s.ws.length = 0
    · simp [h2, hp, he]
    · have : ([w] : List W)[j - s.ws.length]? = none := by simp; omega
      simp [this]; exact ⟨rfl, rfl⟩
  · rw [getW_oob s j h]; exact ⟨rfl, rfl⟩

/-- what `applyQueue` does to the registry: queue emptied, queued watchers get `events := pevents` -/
structure Applied (s s' : St) : Prop where
  watchers : s'.watchers = s.watchers
  nfds : s'.nfds = s.nfds
  wq : s'.wq = []
  len : s'.ws.length = s.ws.length
  fd : ∀ id, (getW s' id).fd = (getW s id).fd
  pev : ∀ id, (getW s' id).pevents = (getW s id).pevents
  ev : ∀ id, (getW s' id).events = if id ∈ s.wq ∧ id < s.ws.length then (getW s id).pevents else (getW s id).events

inductive Step : St → St → Prop
  | kept {s s'} : Kept s s' → Step s s'
  | start {s} (id : Nat) (m : Mask) : id < s.ws.length → m.e = false → m.h = false → Step s (ioStart s id m)
  | stop {s} (id : Nat) (m : Mask) : Step s (ioStop s id m)
  | applied {s s'} : Applied s s' → Step s s'

inductive Reach : St → St → Prop
  | refl (s) : Reach s s
  | tail {s t u} : Reach s t → Step t u → Reach s u

theorem Reach.trans {a b c : St} (h1 : Reach a b) (h2 : Reach b c) : Reach a c := by
  induction h2 with
  | refl => exact h1
  | tail _ st ih => exact .tail ih st

theorem Reach.step {s t : St} (h : Step s t) : Reach s t := .tail (.refl s) h
theorem Reach.kept {s t : St} (h : Kept s t) : Reach s t := .step (.kept h)

/-! ### the structural invariant -/

structure SInv (s : St) : Prop where
  /-- `loop->nfds` counts the registered descriptors -/
  nfds : s.nfds = ((s.watchers.countP Option.isSome : Nat) : Int)
  nodup : s.wq.Nodup
  /-- a registered watcher is registered under its own descriptor -/
  reg : ∀ fd id, watcherAt s fd = some id → id < s.ws.length ∧ (getW s id).fd = fd
  /-- requested masks never contain POLLERR/POLLHUP -/
  mask4 : ∀ id, (getW s id).pevents.e = false ∧ (getW s id).pevents.h = false
  /-- a registered watcher whose kernel mask is stale is queued -/
  told : ∀ fd id, watcherAt s fd = some id → (getW s id).events ≠ (getW s id).pevents → id ∈ s.wq
  /-- registered watchers have something requested; watchers with something requested are registered -/
  regReq : ∀ fd id, watcherAt s fd = some id → (getW s id).pevents ≠ Mask.none

theorem watcherAt_lt {s : St} {fd id : Nat} (h : watcherAt s fd = some id) : fd < s.watchers.length :=
  some_getD_lt _ _ _ h

theorem SInv.kept {s s' : St} (i : SInv s) (k : Kept s s') : SInv s' := by
  have hw : ∀ fd, watcherAt s' fd = watcherAt s fd := by intro fd; simp [watcherAt, k.watchers]
  refine ⟨by rw [k.nfds, k.watchers]; exact i.nfds, by rw [k.wq]; exact i.nodup, ?_, ?_, ?_, ?_⟩
  · intro fd id h; rw [hw] at h
    have := i.reg fd id h
    exact ⟨Nat.lt_of_lt_of_le this.1 k.len, by rw [(k.core id this.1).1]; exact this.2⟩
  · intro id
    by_cases h : id < s.ws.length
    · rw [(k.core id h).2.1]; exact i.mask4 id
    · rw [(k.fresh id (by omega)).1]; exact ⟨rfl, rfl⟩
  · intro fd id h hne; rw [hw] at h
    have hl := (i.reg fd id h).1
    rw [k.wq]; apply i.told fd id h
    rw [← (k.core id hl).2.1, ← (k.core id hl).2.2]; exact hne
  · intro fd id h; rw [hw] at h
    rw [(k.core id (i.reg fd id h).1).2.1]; exact i.regReq fd id h

end UvModel.IoWatch
